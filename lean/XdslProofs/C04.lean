import XdslModel.Names
import XdslProofs.Lemmas.Names
/-!
C04 — property theorems on the name layer of the generic textual form
(`XdslModel/Names.lean` = `extract_valid_name`, `Printer.print_ssa_value`,
`Printer._populate_block_name/print_region/enter_scope/exit_scope`, hint storing of the parser —
all with the C04 repair).  Not covered by a theorem: the token skeleton of the generic operation
form and the attribute/type printers (checked by the round-trip oracle only).
-/
namespace Xdsl.Names

/-- every hint of the list is one the IR API can have stored ("any value and block name hints the
IR API accepts"): no hint, or the result of `extract_valid_name` on some string -/
def AllAccepted (hs : List (Option Str)) : Prop :=
  ∀ s, some s ∈ hs → ∃ raw, accepted raw = some s

theorem stored_of_allAccepted {hs : List (Option Str)} (h : AllAccepted hs) :
    ∀ x ∈ hs, Stored x := by
  intro x hx
  cases x with
  | none => trivial
  | some s => obtain ⟨raw, hr⟩ := h s hx; exact accepted_stored hr

/-- "hints the IR API accepts": a stored hint is empty (treated as no hint) or a valid name that
is a fixed point of the suffix stripping — it never ends in `_<digits>`. -/
theorem accepted_clean {raw h : Str} (ha : accepted raw = some h) :
    h = [] ∨ (validName h = true ∧ strip h = h ∧ ∀ ds, ds ≠ [] → ds.all isDigit = true →
      ∀ p, h ≠ p ++ '_' :: ds) := by
  rcases accepted_stored ha with he | hc
  · left; exact he
  · right
    refine ⟨hc.2.1, hc.2.2, ?_⟩
    intro ds hne hd p e
    -- `h = p ++ "_" ++ ds` would be stripped further
    have hs := hc.2.2
    have hrev : stripRev h.reverse = h.reverse := stripRev_of_strip_eq hs
    have : h.reverse = ds.reverse ++ '_' :: p.reverse := by rw [e]; simp
    rw [this, stripRev_group (by simpa using hne) (by simpa using hd)] at hrev
    obtain ⟨q, hq⟩ := stripRev_suffix p.reverse
    have hl := congrArg List.length hrev
    have hl2 := congrArg List.length hq
    simp at hl hl2
    omega

private theorem allocFrom_fresh_nodup (hs : List (Option Str)) :
    ∀ (sc : Scope) (issued : List Str), Inv sc issued → (∀ x ∈ hs, Stored x) →
      (∀ n ∈ allocFrom sc hs, n ∉ issued) ∧ (allocFrom sc hs).Nodup := by
  induction hs with
  | nil => intro sc issued _ _; simp [allocFrom]
  | cons h t ih =>
    intro sc issued hinv hst
    obtain ⟨hfresh, hinv'⟩ := allocVal_fresh hinv (hst h (by simp))
    obtain ⟨h1, h2⟩ := ih (allocVal sc h).1 ((allocVal sc h).2 :: issued) hinv'
      (fun x hx => hst x (by simp [hx]))
    simp only [allocFrom]
    constructor
    · intro n hn
      rcases List.mem_cons.mp hn with e | hn
      · rw [e]; exact hfresh
      · exact fun hi => h1 n hn (List.mem_cons_of_mem _ hi)
    · refine List.nodup_cons.mpr ⟨?_, h2⟩
      intro hn
      exact h1 _ hn (by simp)

/-- **allocate_injective** — "holds for any value name hints the IR API accepts": the values of
one printer scope, whatever accepted hints they carry (equal hints, hints that look like generated
names, empty hints, none), are printed under pairwise distinct names. -/
theorem allocate_injective (hs : List (Option Str)) (hacc : AllAccepted hs) :
    (allocate hs).Nodup :=
  (allocFrom_fresh_nodup hs {} [] (by intro n hn; cases hn) (stored_of_allAccepted hacc)).2

/-- non-vacuity + the witness of the repaired defect: raw hints `a, a, a_1_2` -/
example : allocate [accepted "a".toList, accepted "a".toList, accepted "a_1_2".toList]
    = ["a".toList, "a_1".toList, "a_2".toList] := by decide +kernel

/-! #### nested printer scopes (`IsolatedFromAbove` operations) -/

/-- scope stack with, per scope, the names visible in it (ghost component) -/
abbrev GState := List (Scope × List Str)

def gstep (g : GState) : Ev → GState
  | .val h =>
    (match g with
     | (sc, iss) :: rest => ((allocVal sc h).1, (allocVal sc h).2 :: iss) :: rest
     | [] => [])
  | .enter => (match g with | top :: rest => top :: top :: rest | [] => [])
  | .exit => (match g with | _ :: top :: rest => top :: rest | _ => g)

def grun (g : GState) : List Ev → GState
  | [] => g
  | e :: es => grun (gstep g e) es

/-- the ghost semantics is the model's semantics plus bookkeeping -/
theorem gstep_erase (g : GState) (e : Ev) :
    (gstep g e).map Prod.fst = (stepEv (g.map Prod.fst) e).1 := by
  cases e with
  | val h => cases g with
    | nil => rfl
    | cons top rest => obtain ⟨sc, iss⟩ := top; rfl
  | enter => cases g with
    | nil => rfl
    | cons top rest => rfl
  | exit => cases g with
    | nil => rfl
    | cons top rest => cases rest with
      | nil => rfl
      | cons t2 r2 => rfl

def EvStored : Ev → Prop
  | .val h => Stored h
  | _ => True

private theorem gstep_inv {g : GState} (hg : ∀ p ∈ g, Inv p.1 p.2 ∧ p.2.Nodup) {e : Ev}
    (he : EvStored e) : ∀ p ∈ gstep g e, Inv p.1 p.2 ∧ p.2.Nodup := by
  cases e with
  | val h =>
    cases g with
    | nil => intro p hp; cases hp
    | cons top rest =>
      obtain ⟨sc, iss⟩ := top
      intro p hp
      simp only [gstep] at hp
      rcases List.mem_cons.mp hp with e | hp
      · obtain ⟨hi, hn⟩ := hg (sc, iss) (by simp)
        obtain ⟨hf, hi'⟩ := allocVal_fresh hi he
        subst e
        exact ⟨hi', List.nodup_cons.mpr ⟨hf, hn⟩⟩
      · exact hg p (List.mem_cons_of_mem _ hp)
  | enter =>
    cases g with
    | nil => intro p hp; cases hp
    | cons top rest =>
      intro p hp
      simp only [gstep] at hp
      rcases List.mem_cons.mp hp with e | hp
      · subst e; exact hg _ (by simp)
      · exact hg p hp
  | exit =>
    cases g with
    | nil => intro p hp; cases hp
    | cons top rest =>
      cases rest with
      | nil => exact hg
      | cons t2 r2 =>
        intro p hp
        simp only [gstep] at hp
        exact hg p (List.mem_cons_of_mem _ hp)

/-- **scoped_injective** — for every sequence of first-printings, scope entries and scope exits
with accepted hints: in every live scope, the names visible there (inherited from the enclosing
scopes when it was entered + issued inside it) are pairwise distinct. -/
theorem scoped_injective (evs : List Ev) (hacc : ∀ e ∈ evs, EvStored e) :
    ∀ p ∈ grun [({}, [])] evs, p.2.Nodup := by
  have key : ∀ (evs : List Ev) (g : GState), (∀ e ∈ evs, EvStored e) →
      (∀ p ∈ g, Inv p.1 p.2 ∧ p.2.Nodup) → ∀ p ∈ grun g evs, Inv p.1 p.2 ∧ p.2.Nodup := by
    intro evs
    induction evs with
    | nil => intro g _ hg; exact hg
    | cons e es ih =>
      intro g he hg
      exact ih (gstep g e) (fun e' h' => he e' (by simp [h'])) (gstep_inv hg (he e (by simp)))
  intro p hp
  refine (key evs [({}, [])] hacc ?_ p hp).2
  intro p hp
  rcases List.mem_cons.mp hp with e | hp
  · subst e; exact ⟨(by intro n hn; cases hn), List.nodup_nil⟩
  · cases hp

/-- non-vacuity: outer `a`, inner scope `a`, `%0`; after the exit the outer scope continues with
`a_1` and `%0` again (the inner names are gone), visible names stay distinct -/
example : (grun [({}, [])] [.val (some "a".toList), .enter, .val (some "a".toList), .val none,
      .exit, .val (some "a".toList), .val none]).map Prod.snd
    = [["0".toList, "a_1".toList, "a".toList]] := by decide +kernel

/-! #### what the parser stores back; printing the re-parsed IR -/

/-- **reparse_allocate** — the hint the parser stores for a printed value name is the hint the
value had (an empty hint reads back as no hint; numbered values read back without hint). -/
theorem reparse_allocate (hs : List (Option Str)) (hacc : AllAccepted hs) :
    (allocate hs).map reparseVal = hs.map normHint := by
  have key : ∀ (hs : List (Option Str)) (sc : Scope), (∀ x ∈ hs, Stored x) →
      (allocFrom sc hs).map reparseVal = hs.map normHint := by
    intro hs
    induction hs with
    | nil => intro sc _; rfl
    | cons h t ih =>
      intro sc hst
      simp only [allocFrom, List.map_cons]
      rw [ih _ (fun x hx => hst x (by simp [hx]))]
      congr 1
      have hh := hst h (by simp)
      match h, hh with
      | none, _ => rw [allocVal_none]; exact reparseVal_natDigits _
      | some [], _ => rw [allocVal_empty]; exact reparseVal_natDigits _
      | some (c :: r), hh =>
        rcases hh with he | hc
        · cases he
        · rw [allocVal_hint sc hc.1]; exact reparseVal_hintName hc _
  exact key hs {} (stored_of_allAccepted hacc)

private theorem allocFrom_norm (hs : List (Option Str)) :
    ∀ sc, allocFrom sc (hs.map normHint) = allocFrom sc hs := by
  induction hs with
  | nil => intro sc; rfl
  | cons h t ih =>
    intro sc
    have e : allocVal sc (normHint h) = allocVal sc h := by
      match h with
      | none => rfl
      | some [] => rfl
      | some (c :: r) => rfl
    simp only [List.map_cons, allocFrom, e, ih]

/-- **print_idempotent** — "printing the parsed IR reproduces the same text", name layer:
allocating names for the hints the parser stored back gives exactly the same names. -/
theorem print_idempotent (hs : List (Option Str)) (hacc : AllAccepted hs) :
    allocate ((allocate hs).map reparseVal) = allocate hs := by
  rw [reparse_allocate hs hacc]
  exact allocFrom_norm hs {}

example : allocate ((allocate [accepted "a_1_2".toList, none, accepted "_1".toList,
      accepted "a".toList]).map reparseVal)
    = ["a".toList, "0".toList, "1".toList, "a_1".toList] := by decide +kernel


/-- the hints of the first-printings of an event sequence -/
def evHints : List Ev → List (Option Str)
  | [] => []
  | .val h :: es => h :: evHints es
  | _ :: es => evHints es

/-- the event sequence of the re-parsed IR: same structure, hints as the parser stored them -/
def normEv : Ev → Ev
  | .val h => .val (normHint h)
  | e => e

private theorem stepEv_ne_nil {st : State} (hne : st ≠ []) (e : Ev) : (stepEv st e).1 ≠ [] := by
  cases st with
  | nil => exact absurd rfl hne
  | cons sc rest =>
    cases e with
    | val h => simp [stepEv]
    | enter => simp [stepEv]
    | exit => cases rest <;> simp [stepEv]

/-- **scoped_reparse / scoped_idempotent** — the same two facts through nested scopes: every
printed value name reads back as the (normalised) hint of its value, and the event sequence of the
re-parsed IR prints exactly the same names. -/
theorem scoped_reparse (evs : List Ev) (hacc : ∀ e ∈ evs, EvStored e) :
    ∀ st : State, st ≠ [] → (runEvs st evs).map reparseVal = (evHints evs).map normHint := by
  induction evs with
  | nil => intro st _; rfl
  | cons e es ih =>
    intro st hne
    have ih' := ih (fun e' h' => hacc e' (by simp [h'])) (stepEv st e).1 (stepEv_ne_nil hne e)
    cases st with
    | nil => exact absurd rfl hne
    | cons sc rest =>
      cases e with
      | val h =>
        have hh : Stored h := hacc (.val h) (by simp)
        simp only [runEvs, stepEv, evHints, List.map_cons]
        simp only [stepEv] at ih'
        rw [ih']
        congr 1
        match h, hh with
        | none, _ => rw [allocVal_none]; exact reparseVal_natDigits _
        | some [], _ => rw [allocVal_empty]; exact reparseVal_natDigits _
        | some (c :: r), hh =>
          rcases hh with he | hc
          · cases he
          · rw [allocVal_hint sc hc.1]; exact reparseVal_hintName hc _
      | enter => simpa [runEvs, stepEv, evHints] using ih'
      | exit =>
        cases rest with
        | nil => simpa [runEvs, stepEv, evHints] using ih'
        | cons t2 r2 => simpa [runEvs, stepEv, evHints] using ih'

theorem scoped_idempotent (evs : List Ev) : ∀ st : State, runEvs st (evs.map normEv) = runEvs st evs := by
  induction evs with
  | nil => intro st; rfl
  | cons e es ih =>
    intro st
    have e1 : stepEv st (normEv e) = stepEv st e := by
      cases e with
      | val h =>
        cases st with
        | nil => rfl
        | cons sc rest =>
          match h with
          | none => rfl
          | some [] => rfl
          | some (c :: r) => rfl
      | enter => rfl
      | exit => rfl
    simp only [List.map_cons, runEvs, e1, ih]

/-! #### block labels of a region -/

private theorem allocBlocks_fresh_nodup (lab : Bool) (hs : List (Option Str)) :
    ∀ (sc : Scope) (idx : Nat) (issued : List Str), BInv sc idx issued → (∀ x ∈ hs, Stored x) →
      (∀ n ∈ (allocBlocksFrom sc idx lab hs).2, n ∉ issued) ∧ (allocBlocksFrom sc idx lab hs).2.Nodup := by
  induction hs with
  | nil => intro sc idx issued _ _; simp [allocBlocksFrom]
  | cons h t ih =>
    intro sc idx issued hinv hst
    obtain ⟨hfresh, hinv'⟩ := allocBlock_fresh hinv (idx != 0 || lab) (hst h (by simp))
    obtain ⟨h1, h2⟩ := ih _ (idx + 1) _ hinv' (fun x hx => hst x (by simp [hx]))
    simp only [allocBlocksFrom]
    constructor
    · intro n hn
      rcases List.mem_cons.mp hn with e | hn
      · rw [e]; exact hfresh
      · exact fun hi => h1 n hn (List.mem_cons_of_mem _ hi)
    · refine List.nodup_cons.mpr ⟨?_, h2⟩
      intro hn
      exact h1 _ hn (by simp)

/-- **region_injective** — "any … block name hints the IR API accepts": the blocks of one region
get pairwise distinct labels, from every printer state (whatever was printed before in the scope),
for hints equal to each other, of the default form `bb<n>`, empty or absent, and whether or not the
entry block's label is printed. -/
theorem region_injective (sc : Scope) (entryLabelled : Bool) (hs : List (Option Str))
    (hacc : AllAccepted hs) : (allocRegion sc entryLabelled hs).2.Nodup :=
  (allocBlocks_fresh_nodup entryLabelled hs sc 0 [] (by intro n hn; cases hn)
    (stored_of_allAccepted hacc)).2

/-- the witness of the repaired defect: unnamed first block, second block hinted `bb0`; and two
blocks hinted alike after an unlabelled hinted entry block -/
example : (allocRegion {} true [none, accepted "bb0".toList]).2 = ["bb0".toList, "bb1".toList] := by
  decide +kernel
example : (allocRegion {} false [accepted "a".toList, accepted "a".toList, accepted "a_1".toList]).2
    = ["bb0".toList, "a".toList, "a_1".toList] := by decide +kernel

/-- the hint a block effectively contributes at position `idx` -/
def effHints (idx : Nat) (lab : Bool) : List (Option Str) → List (Option Str)
  | [] => []
  | h :: t => (if (idx != 0 || lab) then usableBlockHint h else none) :: effHints (idx + 1) lab t

/-- what the parser stores back for the printed labels (a label that is not printed reads back as
no hint) is the effective hint list -/
theorem reparse_region (sc : Scope) (lab : Bool) (hs : List (Option Str)) (hacc : AllAccepted hs) :
    (allocRegion sc lab hs).2.map reparseBlock = effHints 0 lab hs := by
  have key : ∀ (hs : List (Option Str)) (sc : Scope) (idx : Nat), (∀ x ∈ hs, Stored x) →
      (allocBlocksFrom sc idx lab hs).2.map reparseBlock = effHints idx lab hs := by
    intro hs
    induction hs with
    | nil => intro sc idx _; rfl
    | cons h t ih =>
      intro sc idx hst
      simp only [allocBlocksFrom, effHints, List.map_cons]
      rw [ih _ _ (fun x hx => hst x (by simp [hx]))]
      congr 1
      unfold allocBlock
      split
      · rename_i u hu
        have hu' : usableBlockHint h = some u ∧ (idx != 0 || lab) = true := by
          cases hl : (idx != 0 || lab) with
          | true => rw [hl] at hu; exact ⟨by simpa using hu, rfl⟩
          | false => rw [hl] at hu; simp at hu
        obtain ⟨_, hc, hd⟩ := usable_some (hst h (by simp)) hu'.1
        simp only [hu'.2, if_true, hu'.1]
        exact reparseBlock_hintName hc hd _
      · rename_i hu
        simp only [] at hu ⊢
        rw [hu]
        exact reparseBlock_bb idx
  exact key hs sc 0 (stored_of_allAccepted hacc)

private theorem usable_idem (h : Option Str) : usableBlockHint (usableBlockHint h) = usableBlockHint h := by
  match h with
  | none => rfl
  | some [] => rfl
  | some (c :: r) =>
    cases hd : isDefaultBlockName (c :: r) with
    | true => simp [usableBlockHint, hd]
    | false => simp [usableBlockHint, hd]

private theorem allocBlocks_eff (lab : Bool) (hs : List (Option Str)) :
    ∀ sc idx, allocBlocksFrom sc idx lab (effHints idx lab hs) = allocBlocksFrom sc idx lab hs := by
  induction hs with
  | nil => intro sc idx; rfl
  | cons h t ih =>
    intro sc idx
    have e : allocBlock sc idx (idx != 0 || lab) (if (idx != 0 || lab) then usableBlockHint h else none)
        = allocBlock sc idx (idx != 0 || lab) h := by
      unfold allocBlock
      cases (idx != 0 || lab) with
      | true => simp [usable_idem]
      | false => simp
    simp only [effHints, allocBlocksFrom, e, ih]

/-- **region_idempotent** — "printing the parsed IR reproduces the same text", block labels:
allocating labels for the hints the parser stored back, from the same printer state, gives the
same labels (and the same printer state afterwards). -/
theorem region_idempotent (sc : Scope) (lab : Bool) (hs : List (Option Str)) (hacc : AllAccepted hs) :
    allocRegion sc lab ((allocRegion sc lab hs).2.map reparseBlock) = allocRegion sc lab hs := by
  rw [reparse_region sc lab hs hacc]
  exact allocBlocks_eff lab hs sc 0

/-! #### the unrepaired code violates the property (kept as documentation of the defect) -/

/-- `extract_valid_name` before the repair removed ONE suffix only -/
def stripOnceRev : Str → Str
  | [] => []
  | c :: r => if isDigit c then (match dropDigits r with | '_' :: rest => rest | _ => c :: r) else c :: r

def acceptedOld (s : Str) : Option Str :=
  if validName s then some (stripOnceRev s.reverse).reverse else none

/-- with one-suffix stripping the raw hints `a, a, a_1_2` give `%a, %a_1, %a_1` -/
theorem unrepaired_allocate_counterexample :
    allocate [acceptedOld "a".toList, acceptedOld "a".toList, acceptedOld "a_1_2".toList]
      = ["a".toList, "a_1".toList, "a_1".toList] := by decide +kernel

/-- and a single hint `a_1_2` prints `%a_1`, which reads back as `a` and re-prints `%a` -/
theorem unrepaired_idempotent_counterexample :
    allocate ((allocate [acceptedOld "a_1_2".toList]).map reparseVal)
      ≠ allocate [acceptedOld "a_1_2".toList] := by decide +kernel

end Xdsl.Names
