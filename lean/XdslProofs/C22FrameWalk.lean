import XdslModel.RiscVFrameFloat
/-!
# C22 — which callee-saved registers the prologue saves, wherever it runs in the pipeline

Property clause: *"… and restores callee-saved registers and the stack pointer"*.

`frame_sound` (C22Frame.lean) restores the registers it is GIVEN.  This file is about the list it is given:
`usedCalleeSaved f` (XdslModel/RiscVFrameFloat.lean) is what `PrologueEpilogueInsertion._process_function`
collects from `func.walk()` (the harness compares it, and the frame layout, with what the real pass inserts,
for every function it compiles, before and after the structured loops are lowered).

* `usedCalleeSaved_spec`: a register is saved **iff** it is a callee-saved register (s0–s11, fs0–fs11) that is
  the result of some operation other than `get_register`, at ANY nesting depth of the function (`WrittenIn`) —
  in particular inside `riscv_scf.for` / `rof` / `frep` bodies that have not been lowered yet (block arguments of
  such regions — the induction variable — are handed over as a node of their own, see the model file).
* `usedCalleeSaved_nodup`: every register gets one slot.
* `layout_disjoint`, `layout_within_frame`: the save slots (4 bytes for s-, 8 bytes for fs-registers) do not
  overlap and lie inside the `stackSize` bytes the prologue allocates.
* `topLevelOnly_counterexample`: collecting from the operations directly in the function's blocks only
  misses a register written in a loop body.
-/
namespace Xdsl.RiscV.FrameWalk

/-- `r` is a result register of an operation that is not a `get_register`, somewhere in the forest `f` -/
inductive WrittenIn : List Node → XReg → Prop
  | here {rs kids ns r} : r ∈ rs → WrittenIn (.op false rs kids :: ns) r
  | inside {g rs kids ns r} : WrittenIn kids r → WrittenIn (.op g rs kids :: ns) r
  | later {n ns r} : WrittenIn ns r → WrittenIn (n :: ns) r

theorem writesList_cons (n : Node) (ns : List Node) : writesList (n :: ns) = n.writes ++ writesList ns := by
  simp [writesList]

theorem writes_op (g : Bool) (rs : List XReg) (kids : List Node) :
    (Node.op g rs kids).writes = (if g then [] else rs) ++ writesList kids := by
  simp [Node.writes]

theorem writtenIn_of_mem_writesList (r : XReg) : ∀ (fuel : Nat) (f : List Node),
    sizeOf f ≤ fuel → r ∈ writesList f → WrittenIn f r := by
  intro fuel
  induction fuel with
  | zero =>
    intro f hs
    cases f with
    | nil => intro h; simp [writesList] at h
    | cons n ns => simp at hs
  | succ k ih =>
    intro f hs h
    cases f with
    | nil => simp [writesList] at h
    | cons n ns =>
      cases n with
      | op g rs kids =>
        rw [writesList_cons, writes_op] at h
        simp only [List.mem_append] at h
        have hk : sizeOf kids ≤ k := by simp at hs; omega
        have hn : sizeOf ns ≤ k := by simp at hs; omega
        rcases h with (h | h) | h
        · cases g with
          | true => simp at h
          | false => exact .here (by simpa using h)
        · exact .inside (ih kids hk h)
        · exact .later (ih ns hn h)

theorem mem_writesList_of_writtenIn {f : List Node} {r : XReg} (h : WrittenIn f r) : r ∈ writesList f := by
  induction h with
  | here hr => rw [writesList_cons, writes_op]; simp [hr]
  | inside _ ih => rw [writesList_cons, writes_op]; simp [ih]
  | later _ ih => rw [writesList_cons]; simp [ih]

/-- `func.walk()` reaches every operation: the collected result registers are exactly those written at any depth -/
theorem mem_writesList (f : List Node) (r : XReg) : r ∈ writesList f ↔ WrittenIn f r :=
  ⟨writtenIn_of_mem_writesList r (sizeOf f) f (Nat.le_refl _), mem_writesList_of_writtenIn⟩

theorem mem_dedup (l : List XReg) (x : XReg) : x ∈ dedup l ↔ x ∈ l := by
  induction l with
  | nil => simp [dedup]
  | cons y ys ih =>
    simp only [dedup, List.mem_cons, List.mem_filter, ih]
    constructor
    · rintro (h | ⟨h, _⟩)
      · exact .inl h
      · exact .inr h
    · rintro (h | h)
      · exact .inl h
      · by_cases hxy : x = y
        · exact .inl hxy
        · exact .inr ⟨h, by simpa using hxy⟩

theorem nodup_dedup (l : List XReg) : (dedup l).Nodup := by
  induction l with
  | nil => simp [dedup]
  | cons y ys ih =>
    simp only [dedup, List.nodup_cons, List.mem_filter]
    refine ⟨?_, ih.filter _⟩
    rintro ⟨_, h⟩
    simp at h

/-- **the registers the prologue saves** = the callee-saved registers written anywhere in the function,
loop bodies included -/
theorem usedCalleeSaved_spec (f : List Node) (r : XReg) :
    r ∈ usedCalleeSaved f ↔ WrittenIn f r ∧ isCalleeSaved r = true := by
  simp [usedCalleeSaved, mem_dedup, List.mem_filter, mem_writesList]

theorem usedCalleeSaved_nodup (f : List Node) : (usedCalleeSaved f).Nodup := nodup_dedup _

/-- the save slots `(register, offset)` -/
def layout (rs : List XReg) (k : Nat) : List (XReg × Nat) := rs.zip (offsets rs k)

theorem layout_cons (r : XReg) (rs : List XReg) (k : Nat) :
    layout (r :: rs) k = (r, k) :: layout rs (k + regSize r) := by
  simp [layout, offsets]

theorem stackSize_cons (r : XReg) (rs : List XReg) : stackSize (r :: rs) = regSize r + stackSize rs := by
  simp [stackSize]

/-- every slot lies inside the frame: `k ≤ off` and `off + size ≤ k + stackSize` -/
theorem layout_within_frame (rs : List XReg) : ∀ (k : Nat) (r : XReg) (o : Nat), (r, o) ∈ layout rs k →
    k ≤ o ∧ o + regSize r ≤ k + stackSize rs := by
  induction rs with
  | nil => intro k r o h; simp [layout] at h
  | cons x xs ih =>
    intro k r o h
    rw [layout_cons] at h
    rw [stackSize_cons]
    rcases List.mem_cons.mp h with h | h
    · cases h; omega
    · have := ih _ r o h
      omega

/-- slots do not overlap: an earlier slot ends before a later one starts -/
theorem layout_disjoint (rs : List XReg) : ∀ (k : Nat),
    (layout rs k).Pairwise (fun a b => a.2 + regSize a.1 ≤ b.2) := by
  induction rs with
  | nil => intro k; simp [layout]
  | cons x xs ih =>
    intro k
    rw [layout_cons]
    refine List.Pairwise.cons ?_ (ih _)
    intro b hb
    have := layout_within_frame xs (k + regSize x) b.1 b.2 hb
    simpa using this.1

/-- s-registers take 4 bytes, fs-registers 8 (xlen = 4, flen = 8 of the pass) -/
example : (usedCalleeSaved [.op false [21] [], .op false [108] [], .op false [9] []],
           offsets [21, 108, 9] 0, stackSize [21, 108, 9]) = ([21, 108, 9], [0, 4, 12], 16) := by decide

/-- a loop body temporary in s3 (x19), written only inside the region of a top-level op: `func.walk()` finds it,
the operations directly in the function's blocks do not have it among their results -/
theorem topLevelOnly_counterexample :
    let f := [Node.op false [5] [], .op false [5] [.op false [19] [], .op false [5] []], .op false [10] []]
    usedCalleeSaved f = [19] ∧ topLevelOnly f = [] ∧ WrittenIn f 19 := by
  refine ⟨by decide, by decide, ?_⟩
  exact .later (.inside (.here (by simp)))

end Xdsl.RiscV.FrameWalk
