import XdslModel.SsaNames
import XdslProofs.Lemmas.AL
/-!
# C07 — parsing fails only with diagnostics (SSA-name table of the parser)

"… either returns IR or reports a parse or verification diagnostic; it … never escapes with an internal
error such as a ValueError, KeyError, IndexError, AssertionError or TypeError."

`XdslModel/SsaNames.lean` models the name table behind every operand of every operation:
`Parser.resolve_operand` (uses, forward references `%x#i` to values not yet defined),
`Parser._register_ssa_definition` (results and block arguments; resolves the forward references), the
value scope of regions and the final "values used but not defined" test.  Python subscripts are
modelled with an explicit `internal` outcome for the missing key.  For every table state — reachable or
not — and every name, tuple index, type and result list:

* `resolve_no_internal`, `define_no_internal`, `run_no_internal` — no `KeyError` / `IndexError`: a use
  yields a value, a placeholder or a `ParseError`; a definition succeeds or is a `ParseError`;
  a whole parse (any event sequence) ends with `done` or the first `ParseError` (`run_cases`);
* `resolve_forward_again` — a forward reference `%x#i` that is repeated gets the same placeholder;
* `resolve_keeps_forward` — recording a forward reference (`%x#j`, or any other name) never loses a
  recorded one (`%x#i`): all tuple indices of an undefined name stay resolvable — the logic that the
  seeded change C07-D broke;
* `define_clears_forward` — a definition removes the forward references of its name, so the final
  test reports exactly the names never defined after their use.

Tied to `/repo` by correspondence (`harness/props/c07.py`, stream `ssa.prog`): generated modules of
generic operations, regions and block arguments; the outcome of `Parser.parse_module` (IR, or which
`ParseError`) against `run` on the module's event sequence.
-/
namespace Xdsl.SsaNames
open Xdsl

theorem resolve_no_internal (s : St) (name idx ty : Nat) (e : Exn) :
    (resolve s name idx ty).2 ≠ .internal e := by
  unfold resolve
  split
  · rename_i h
    unfold inFwd at h
    cases hf : s.fwd.get name with
    | none => simp [hf] at h
    | some refs =>
      simp only [hf] at h
      unfold AL.has at h
      cases hr : refs.get idx with
      | none => simp [hr] at h
      | some v => simp [sub, hr]
  · split
    · simp
    · rename_i h1 h2
      unfold AL.has at h2
      cases hv : s.vals.get name with
      | none => simp [hv] at h2
      | some tup =>
        simp only [sub]
        split
        · simp
        · rename_i h3
          have h4 : idx < tup.length := by omega
          simp only [List.getElem?_eq_getElem h4]
          split <;> simp

theorem checkRefs_no_internal (values : List Val) (refs : AL Nat Val) (e : Exn) :
    checkRefs values refs ≠ .internal e := by
  induction refs with
  | nil => simp [checkRefs]
  | cons p r ih =>
    obtain ⟨i, v⟩ := p
    unfold checkRefs
    split
    · simp
    · rename_i h
      have h4 : i < values.length := by omega
      simp only [List.getElem?_eq_getElem h4]
      split
      · simp
      · exact ih

theorem define_no_internal (s : St) (name : Nat) (tys : List Nat) (e : Exn) :
    (define s name tys).2 ≠ .internal e := by
  unfold define
  split
  · simp
  · simp only []
    split
    · rename_i h
      unfold AL.has at h
      try simp only [] at h
      cases hf : s.fwd.get name with
      | none => simp [hf] at h
      | some refs =>
        simp only [sub]
        split
        · simp
        · exact checkRefs_no_internal _ _ _
    · simp

theorem step_no_internal (s : St) (ev : Ev) (e : Exn) : (step s ev).2 ≠ .internal e := by
  cases ev with
  | use n i t => exact resolve_no_internal s n i t e
  | defn n tys => exact define_no_internal s n tys e
  | push => simp [step, push]
  | pop => simp only [step, pop]; split <;> simp
  | finish => simp only [step, finish]; split <;> simp

/-- **run_no_internal** — "never escapes with an internal error such as a KeyError, IndexError": whatever
the sequence of uses, definitions and region boundaries of a text, from any table state, no
subscript of the name table fails. -/
theorem run_no_internal (s : St) (es : List Ev) (e : Exn) : (run s es).2 ≠ .internal e := by
  induction es generalizing s with
  | nil => simp [run]
  | cons ev r ih =>
    simp only [run]
    split
    · exact step_no_internal s ev e
    · exact ih _

/-- **run_cases** — "either returns IR or reports a parse … diagnostic": a parse ends with `done` or with
one of the six `ParseError`s of these functions. -/
theorem run_cases (s : St) (es : List Ev) :
    (run s es).2 = .done ∨ ∃ m, (run s es).2 = .diag m := by
  induction es generalizing s with
  | nil => simp [run]
  | cons ev r ih =>
    simp only [run]
    split
    · rename_i h
      cases hq : (step s ev).2 with
      | diag m => exact Or.inr ⟨m, rfl⟩
      | internal e => exact absurd hq (step_no_internal s ev e)
      | value v => simp [hq, Out.stops] at h
      | forward v => simp [hq, Out.stops] at h
      | done => simp [hq, Out.stops] at h
    · exact ih _

/-! ## Forward references -/

/-- the placeholder recorded for `%name#idx`, if any: `forward_ssa_references[name][idx]` -/
def fwdAt (s : St) (name idx : Nat) : Option Val := (s.fwd.get name).bind (fun refs => refs.get idx)

theorem inFwd_of_fwdAt {s : St} {name idx : Nat} {v : Val} (h : fwdAt s name idx = some v) :
    inFwd s name idx = true := by
  unfold fwdAt at h
  unfold inFwd
  cases hf : s.fwd.get name with
  | none => simp [hf] at h
  | some refs => simp [hf] at h; simp [AL.has, h]

/-- a recorded forward reference is what a use of the same name and index gets, whatever its type -/
theorem resolve_of_fwdAt {s : St} {name idx : Nat} {v : Val} (h : fwdAt s name idx = some v) (ty : Nat) :
    resolve s name idx ty = (s, .forward v) := by
  have hi := inFwd_of_fwdAt h
  unfold fwdAt at h
  unfold resolve
  simp only [hi, if_true]
  cases hf : s.fwd.get name with
  | none => simp [hf] at h
  | some refs => simp [hf] at h; simp [sub, h]

/-- a use that yields a placeholder leaves it recorded under its name and index -/
theorem resolve_records {s : St} {name idx ty : Nat} {v : Val}
    (h : (resolve s name idx ty).2 = .forward v) : fwdAt (resolve s name idx ty).1 name idx = some v := by
  unfold resolve at h ⊢
  split at h
  · rename_i hi
    rw [if_pos hi]
    unfold inFwd at hi
    cases hf : s.fwd.get name with
    | none => simp [hf] at hi
    | some refs =>
      simp only [hf] at hi
      unfold AL.has at hi
      cases hr : refs.get idx with
      | none => simp [hr] at hi
      | some w =>
        simp only [sub, hf, hr] at h ⊢
        simp only [Out.forward.injEq] at h
        subst h
        simp [fwdAt, hf, hr]
  · rename_i hi
    rw [if_neg hi]
    split at h
    · rename_i hv
      rw [if_pos hv]
      simp only [Out.forward.injEq] at h
      subst h
      simp [fwdAt, AL.get_set]
    · rename_i hv
      exfalso
      revert h
      unfold AL.has at hv
      cases hg : s.vals.get name with
      | none => simp [hg] at hv
      | some tup =>
        simp only [sub]
        split
        · simp
        · rename_i h3
          have h4 : idx < tup.length := by omega
          simp only [List.getElem?_eq_getElem h4]
          split <;> simp

/-- **resolve_forward_again** — a forward reference `%x#i` used again (with whatever type) gets the very
same placeholder, and the table does not change: all uses are replaced together at the definition. -/
theorem resolve_forward_again (s : St) (name idx ty ty' : Nat) (v : Val)
    (h : (resolve s name idx ty).2 = .forward v) :
    resolve (resolve s name idx ty).1 name idx ty' = ((resolve s name idx ty).1, .forward v) :=
  resolve_of_fwdAt (resolve_records h) ty'

/-- **resolve_keeps_forward** — recording a forward reference never loses a recorded one: after a use
of `%x#i` of an undefined `%x`, a use of `%x#j` (or of any other name and index) leaves `%x#i` recorded
with the same placeholder.  (A per-name table that is overwritten instead of extended — the seeded
change C07-D — makes the next `%x#i` a `KeyError`.) -/
theorem resolve_keeps_forward (s : St) (name idx : Nat) (v : Val) (h : fwdAt s name idx = some v)
    (name' idx' ty' : Nat) : fwdAt (resolve s name' idx' ty').1 name idx = some v := by
  unfold resolve
  split
  · rename_i hi
    unfold inFwd at hi
    cases hf : s.fwd.get name' with
    | none => simp [hf] at hi
    | some refs =>
      simp only [hf] at hi
      unfold AL.has at hi
      cases hr : refs.get idx' with
      | none => simp [hr] at hi
      | some w => simpa [sub, hr] using h
  · rename_i hi
    split
    · by_cases hn : name = name'
      · subst hn
        have hne : idx ≠ idx' := by
          intro e
          subst e
          exact hi (inFwd_of_fwdAt h)
        unfold fwdAt at h ⊢
        cases hf : s.fwd.get name with
        | none => simp [hf] at h
        | some refs =>
          simp only [hf, Option.bind_some] at h
          simp [AL.get_set, hne, h]
      · unfold fwdAt at h ⊢
        simpa [AL.get_set, hn] using h
    · rename_i hv
      unfold AL.has at hv
      cases hg : s.vals.get name' with
      | none => simp [hg] at hv
      | some tup =>
        simp only [sub]
        split
        · exact h
        · rename_i h3
          have h4 : idx' < tup.length := by omega
          simp only [List.getElem?_eq_getElem h4]
          split <;> exact h

/-- **define_clears_forward** — a definition of a name not yet defined removes every forward reference of
that name (resolved, or reported by the `ParseError` of this definition), and touches no other name's. -/
theorem define_clears_forward (s : St) (name : Nat) (tys : List Nat) (h : s.vals.has name = false) :
    (define s name tys).1.fwd.get name = none ∧
    ∀ name' idx, name' ≠ name → fwdAt (define s name tys).1 name' idx = fwdAt s name' idx := by
  unfold define
  simp only [h, Bool.false_eq_true, if_false]
  split
  · rename_i hf
    unfold AL.has at hf
    try simp only [] at hf
    cases hg : s.fwd.get name with
    | none => simp [hg] at hf
    | some refs =>
      simp only [sub]
      split <;> (refine ⟨by simp [AL.get_del], ?_⟩; intro n' i hn; simp [fwdAt, AL.get_del, hn])
  · rename_i hf
    unfold AL.has at hf
    refine ⟨?_, fun _ _ _ => rfl⟩
    cases hg : s.fwd.get name with
    | none => rfl
    | some refs => simp [hg] at hf

/-- the final test passes exactly when no forward reference is left -/
theorem finish_done_iff (s : St) : (finish s).2 = .done ↔ s.fwd = [] := by
  unfold finish
  cases s.fwd <;> simp

/-! ## Non-vacuity -/

/-- `"use"(%r#0, %r#1)` before `%r:2 = …` (C07-D's demo): both uses are placeholders, the definition
resolves them, the parse ends without a diagnostic -/
example : (run {} [.use 0 0 0, .use 0 1 1, .defn 0 [0, 1], .finish]).2 = .done := by decide +kernel

/-- an index the later definition does not have: the diagnostic of the definition -/
example : (run {} [.use 0 0 0, .use 0 3 1, .defn 0 [0, 1], .finish]).2 = .diag .fwdIndexTooLarge := by
  decide +kernel

/-- a value defined inside a region is gone after it; a use after the region is a forward reference that
nothing resolves -/
example : (run {} [.push, .defn 0 [0], .pop, .use 0 0 0, .finish]).2 = .diag .usedNotDefined := by
  decide +kernel

/-- after the definition: index and type are checked at the use -/
example : (run {} [.defn 0 [0, 1], .use 0 2 0]).2 = .diag .indexOutOfBounds ∧
    (run {} [.defn 0 [0, 1], .use 0 1 0]).2 = .diag .useTypeMismatch ∧
    (run {} [.defn 0 [0], .defn 0 [0]]).2 = .diag .redefined ∧
    (run {} [.use 0 0 1, .defn 0 [0]]).2 = .diag .fwdTypeMismatch := by decide +kernel

end Xdsl.SsaNames
