import XdslModel.OpDef
import XdslProofs.Lemmas.OpDef
import XdslProofs.Lemmas.OpDefAccessors
import XdslProofs.Lemmas.OpDefBuild
/-!
# C10 — IRDL operation verification matches the operation definition (segment part)

Vocabulary (defined in `Lemmas/OpDef.lean`): `KindsOk defs sizes` — one **non-negative** size per
declared segment, `= 1` for single, `≤ 1` for optional, any for variadic; `AllVar k defs sizes` — all
variable segments have size `k`.  The model functions are those of `XdslModel/OpDef.lean`, i.e. of
`xdsl/irdl/operations.py` with the two C10 repairs (sign/sum check in `verify_variadic_attr_size`;
same-size accessors only when there is a variadic definition).
-/
namespace Xdsl.OpDef

/-- "split into the declared segments (single, optional, variadic, same-size or attribute-sized,
where the segment sizes are non-negative, match each kind …)" -/
def Valid (defs : List Seg) (opt : Opt) (sizes : List Nat) : Prop :=
  KindsOk defs sizes ∧ (opt = .sameSize → ∃ k, AllVar k defs sizes)

/-- for attribute-sized constructs the sizes are the ones stored in the `i32` dense array -/
def Agrees (opt : Opt) (attr : SizeAttr) (sizes : List Nat) : Prop :=
  opt = .attrSized → attr = .dense true (sizes.map Int.ofNat)

/-- **verify ↔ ∃ valid segmentation.**  "passes verification exactly when its … lists can be split
into the declared segments (… sizes are non-negative, match each kind and sum to the list length)":
for every definition accepted by `irdl_op_definition`, every list length `n` and whatever is stored
under the segment-size attribute. -/
theorem verify_iff_segmentation (defs : List Seg) (opt : Opt) (n : Nat) (attr : SizeAttr)
    (wf : wfDef defs opt = true) :
    verifySizes defs opt n attr = true ↔
      ∃ sizes, Valid defs opt sizes ∧ sizes.sum = n ∧ Agrees opt attr sizes := by
  cases opt with
  | attrSized =>
    simp only [verifySizes, Valid, Agrees, reduceCtorEq, false_implies, and_true, true_implies]
    constructor
    · intro h
      cases attr with
      | missing => simp [verifyAttrSize] at h
      | notDense => simp [verifyAttrSize] at h
      | dense b vals =>
        cases b with
        | false => simp [verifyAttrSize] at h
        | true =>
          simp only [verifyAttrSize, Bool.and_eq_true, beq_iff_eq] at h
          obtain ⟨⟨hl, he⟩, hs⟩ := h
          obtain ⟨sizes, hk, rfl⟩ := kindsOk_of_entriesOk hl he
          refine ⟨sizes, hk, ?_, rfl⟩
          rw [sum_map_ofNat] at hs
          exact_mod_cast hs
    · rintro ⟨sizes, hk, hs, rfl⟩
      simp only [verifyAttrSize, Bool.and_eq_true, beq_iff_eq]
      refine ⟨⟨?_, entriesOk_of_kindsOk hk⟩, ?_⟩
      · simpa using hk.length_eq
      · rw [sum_map_ofNat, hs]
  | sameSize =>
    simp only [verifySizes, Valid, Agrees, reduceCtorEq, false_implies, and_true, true_implies]
    rw [verifySameSize_iff]
    constructor
    · rintro ⟨k, hk, hs⟩
      exact ⟨mkSizes k defs, ⟨hk, k, allVar_mkSizes k defs⟩, by rw [sum_mkSizes, hs]⟩
    · rintro ⟨sizes, ⟨hk, k, ha⟩, hs⟩
      have := eq_mkSizes hk ha
      subst this
      exact ⟨k, hk, by rw [← sum_mkSizes, hs]⟩
  | none =>
    simp only [verifySizes, Valid, Agrees, reduceCtorEq, false_implies, and_true]
    rw [verifySameSize_iff]
    have hle : numVariadic defs ≤ 1 := by simpa [wfDef] using wf
    constructor
    · rintro ⟨k, hk, hs⟩
      exact ⟨mkSizes k defs, hk, by rw [sum_mkSizes, hs]⟩
    · rintro ⟨sizes, hk, hs⟩
      obtain ⟨k, ha⟩ := allVar_of_le_one hle hk
      have := eq_mkSizes hk ha
      subst this
      exact ⟨k, hk, by rw [← sum_mkSizes, hs]⟩

/-- the declared segmentation of a list is unique (so "the declared segments" is well defined) -/
theorem segmentation_unique (defs : List Seg) (opt : Opt) (n : Nat) (attr : SizeAttr)
    (wf : wfDef defs opt = true) (s₁ s₂ : List Nat)
    (h₁ : Valid defs opt s₁ ∧ s₁.sum = n ∧ Agrees opt attr s₁)
    (h₂ : Valid defs opt s₂ ∧ s₂.sum = n ∧ Agrees opt attr s₂) : s₁ = s₂ := by
  obtain ⟨⟨hk₁, hv₁⟩, hs₁, ha₁⟩ := h₁
  obtain ⟨⟨hk₂, hv₂⟩, hs₂, ha₂⟩ := h₂
  have key : ∀ k₁ k₂, AllVar k₁ defs s₁ → AllVar k₂ defs s₂ → s₁ = s₂ := by
    intro k₁ k₂ a₁ a₂
    have e₁ := eq_mkSizes hk₁ a₁
    have e₂ := eq_mkSizes hk₂ a₂
    subst e₁ e₂
    rw [sum_mkSizes] at hs₁ hs₂
    by_cases hv : numVariadic defs = 0
    · have : ∀ k, mkSizes k defs = mkSizes 0 defs := by
        intro k
        exact (eq_mkSizes (kindsOk_mkSizes 0 defs (Or.inl (by omega))) (allVar_of_zero k hv)).symm ▸ rfl
      rw [this k₁, this k₂]
    · have : numVariadic defs * k₁ = numVariadic defs * k₂ := by omega
      have : k₁ = k₂ := Nat.eq_of_mul_eq_mul_left (by omega) this
      rw [this]
  cases opt with
  | attrSized =>
    have := (ha₁ rfl).symm.trans (ha₂ rfl)
    simp only [SizeAttr.dense.injEq, true_and] at this
    exact map_ofNat_injective this
  | sameSize =>
    obtain ⟨k₁, a₁⟩ := hv₁ rfl
    obtain ⟨k₂, a₂⟩ := hv₂ rfl
    exact key k₁ k₂ a₁ a₂
  | none =>
    have hle : numVariadic defs ≤ 1 := by simpa [wfDef] using wf
    obtain ⟨k₁, a₁⟩ := allVar_of_le_one hle hk₁
    obtain ⟨k₂, a₂⟩ := allVar_of_le_one hle hk₂
    exact key k₁ k₂ a₁ a₂

/-- the pre-fix behaviour is excluded: sizes `[1, 0, 5]` for four operands and a negative size are
both rejected (they were accepted by the unrepaired `verify_variadic_attr_size`), while the
consistent `[1, 0, 3]` is accepted. -/
example : verifySizes [.single, .optional, .variadic] .attrSized 4 (.dense true [1, 0, 5]) = false
    ∧ verifySizes [.variadic] .attrSized 0 (.dense true [-1]) = false
    ∧ verifySizes [.single, .optional, .variadic] .attrSized 4 (.dense true [1, 0, 3]) = true := by
  decide


/-- **accessors = declared segments.**  "the generated accessors return exactly the declared
segments": whenever the list has a valid segmentation `sizes`, accessor number `i` (whichever of the
ten accessor classes `irdl_op_arg_definition` installed) returns without a Python error exactly the
`i`-th piece of the list cut by `sizes`. -/
theorem accessor_eq_segment {α : Type} (defs : List Seg) (opt : Opt) (attr : SizeAttr) (xs : List α)
    (wf : wfDef defs opt = true) (sizes : List Nat) (hv : Valid defs opt sizes)
    (hs : sizes.sum = xs.length) (ha : Agrees opt attr sizes) (i : Nat) (hi : i < defs.length) :
    accessor defs opt attr xs i = .ok (segAt sizes xs i) := by
  obtain ⟨hk, hsame⟩ := hv
  cases opt with
  | attrSized =>
    rw [ha rfl]
    exact accAttr_spec defs xs sizes hk hs i hi
  | sameSize =>
    obtain ⟨k, hall⟩ := hsame rfl
    have := eq_mkSizes hk hall
    subst this
    rw [sum_mkSizes] at hs
    simp only [accessor]
    by_cases h0 : numVariadic defs = 0
    · simp only [h0, if_true]
      exact accDefault_spec defs xs k hk (by omega) hs i hi
    · simp only [h0, if_false]
      exact accSame_spec defs xs k hk (by omega) hs i hi
  | none =>
    have hle : numVariadic defs ≤ 1 := by simpa [wfDef] using wf
    obtain ⟨k, hall⟩ := allVar_of_le_one hle hk
    have := eq_mkSizes hk hall
    subst this
    rw [sum_mkSizes] at hs
    exact accDefault_spec defs xs k hk hle hs i hi

/-- **accessors partition the list**: the accessor results, in declaration order, concatenate to
the whole list, and each has the declared size. -/
theorem accessors_partition {α : Type} (defs : List Seg) (opt : Opt) (attr : SizeAttr) (xs : List α)
    (wf : wfDef defs opt = true) (sizes : List Nat) (hv : Valid defs opt sizes)
    (hs : sizes.sum = xs.length) (ha : Agrees opt attr sizes) :
    ∃ segs : List (List α),
      accessors defs opt attr xs = segs.map .ok ∧ segs.flatten = xs ∧ segs.map List.length = sizes := by
  have hl : sizes.length = defs.length := hv.1.length_eq
  refine ⟨(List.range defs.length).map (segAt sizes xs), ?_, ?_, ?_⟩
  · simp only [accessors, List.map_map]
    apply List.map_congr_left
    intro i hi
    exact accessor_eq_segment defs opt attr xs wf sizes hv hs ha i (List.mem_range.1 hi)
  · rw [← hl]; exact flatten_segAt sizes xs hs
  · apply List.ext_getElem
    · simp [hl]
    · intro i h1 h2
      simp only [List.getElem_map, List.getElem_range]
      rw [length_segAt sizes xs hs i h2]
      simp [List.getD, h2]

/-- **verified ⇒ no Python error in the accessors** (so `irdl_op_verify_arg_list`, which reads the
segments through the accessors, can only fail with `VerifyException`): the `IndexError` of the
unrepaired code on `operandSegmentSizes = [1, 0, 0]` with no operands is gone. -/
theorem verify_no_python_error {α : Type} (defs : List Seg) (opt : Opt) (attr : SizeAttr)
    (xs : List α) (wf : wfDef defs opt = true)
    (h : verifySizes defs opt xs.length attr = true) (i : Nat) (hi : i < defs.length) :
    ∃ seg, accessor defs opt attr xs i = .ok seg := by
  obtain ⟨sizes, hv, hs, ha⟩ := (verify_iff_segmentation defs opt xs.length attr wf).1 h
  exact ⟨_, accessor_eq_segment defs opt attr xs wf sizes hv hs ha i hi⟩

/-- non-vacuity: `[single, variadic, single]` without option on five values -/
example : accessors [.single, .variadic, .single] .none .missing [10, 11, 12, 13, 14]
    = [.ok [10], .ok [11, 12, 13], .ok [14]] := by decide

/-- non-vacuity: same-size option, an optional and a variadic, both present -/
example : accessors [.optional, .single, .variadic] .sameSize .missing [10, 11, 12]
    = [.ok [10], .ok [11], .ok [12]] := by decide


/-- what the generated constructor produces is a valid segmentation of the flat list it stores -/
theorem build_segmentation {α : Type} (norm : Bool) (defs : List Seg) (opt : Opt)
    (args : List (BArg α)) (xs : List α) (attr : SizeAttr)
    (h : build norm defs opt args = some (xs, attr)) :
    let segs := args.map BArg.toList
    let sizes := segs.map List.length
    xs = segs.flatten ∧ Valid defs opt sizes ∧ sizes.sum = xs.length ∧ Agrees opt attr sizes := by
  intro segs sizes
  unfold build at h
  cases hb : buildSegs norm defs args with
  | none => simp [hb] at h
  | some segs' =>
    obtain ⟨hseg, hk⟩ := buildSegs_spec norm defs args segs' hb
    have hseg' : segs' = segs := hseg
    subst hseg'
    simp only [hb] at h
    have hsum : sizes.sum = segs.flatten.length := by
      simp only [sizes, List.length_flatten]
    cases opt with
    | attrSized =>
      simp only [Option.some.injEq, Prod.mk.injEq] at h
      obtain ⟨rfl, rfl⟩ := h
      exact ⟨rfl, ⟨hk, fun h => by cases h⟩, hsum, fun _ => rfl⟩
    | none =>
      simp only [Option.some.injEq, Prod.mk.injEq] at h
      obtain ⟨rfl, rfl⟩ := h
      exact ⟨rfl, ⟨hk, fun h => by cases h⟩, hsum, fun h => by cases h⟩
    | sameSize =>
      simp only at h
      split at h
      · rename_i hall
        simp only [Option.some.injEq, Prod.mk.injEq] at h
        obtain ⟨rfl, rfl⟩ := h
        refine ⟨rfl, ⟨hk, fun _ => ⟨(variadicSizes defs sizes).headD 0,
          allVar_of_variadicSizes _ defs sizes ?_⟩⟩, hsum, fun h => by cases h⟩
        intro s hs
        have := List.all_eq_true.1 hall s hs
        simpa using this
      · simp at h

/-- **built operations verify.**  "Operations built through the generated constructor from
arguments that satisfy the definition always verify": whenever `irdl_op_init` succeeds (it raises
`ValueError` on arguments that do not fit), the size verification of the result succeeds. -/
theorem build_verifies {α : Type} (norm : Bool) (defs : List Seg) (opt : Opt)
    (args : List (BArg α)) (xs : List α) (attr : SizeAttr) (wf : wfDef defs opt = true)
    (h : build norm defs opt args = some (xs, attr)) :
    verifySizes defs opt xs.length attr = true := by
  obtain ⟨-, hv, hs, ha⟩ := build_segmentation norm defs opt args xs attr h
  exact (verify_iff_segmentation defs opt xs.length attr wf).2 ⟨_, hv, hs, ha⟩

/-- **accessors of a built operation return the constructor's arguments**, segment by segment. -/
theorem build_accessors {α : Type} (norm : Bool) (defs : List Seg) (opt : Opt)
    (args : List (BArg α)) (xs : List α) (attr : SizeAttr) (wf : wfDef defs opt = true)
    (h : build norm defs opt args = some (xs, attr)) (i : Nat) (hi : i < defs.length) :
    accessor defs opt attr xs i = .ok ((args.map BArg.toList).getD i []) := by
  obtain ⟨hx, hv, hs, ha⟩ := build_segmentation norm defs opt args xs attr h
  rw [accessor_eq_segment defs opt attr xs wf _ hv hs ha i hi, hx]
  have hl : (args.map BArg.toList).length = defs.length := by
    have := hv.1.length_eq
    simpa using this
  rw [segAt_map_length _ i (by omega)]

/-- non-vacuity: attribute-sized build of `[single, optional, variadic]` from `x, None, [y, z]` -/
example : build true [.single, .optional, .variadic] .attrSized [.one 7, .none, .seq [8, 9]]
    = some ([7, 8, 9], .dense true [1, 0, 2]) := by decide

end Xdsl.OpDef
