import XdslProofs.Lemmas.RiscVSym
import XdslProofs.C22Frame
/-!
# C22 — a proved translation validator for lowered straight-line functions

"A func/arith/scf program that the RISC-V backend pipeline compiles … computes, on an RV32 machine
model, the same results as the source for every input and restores callee-saved registers and the
stack pointer."

`validate src body` (`XdslModel/RiscVValidate.lean`, compiled into the driver) is run by the check on
the instruction list the real pipeline emits for every generated loop-free, call-free function.
`validate_sound` is the ∀-inputs half for every such output: acceptance implies that from *every*
entry state with a word-aligned `sp` the code runs to its end without a trap, `a0…` hold the source
results whenever the source semantics defines them, and `ra`, `sp`, `s0`–`s11` hold their entry values.
The ∀-programs half is enumeration (translation validation).

**Restrictions** (hence `…_partial` on the statement about the property): one function, no loops
(`scf.for` programs stay on the stage-wise execution path of the check), no calls, `i32` values
(`i1` only as a returned `cmpi` result, compared as the full register image 0/1), at most 8 arguments
and results, products of polynomials below the size guard of `pmul?`; memory only as `sp`-relative
spill slots.  The validator is incomplete by design: it knows the ring identities modulo 2^32 and
the bitwise/division identities listed in `simpNode`, nothing else.
-/
namespace Xdsl.RiscV.TV

theorem retPairs_pick (base : Nat → W) (S : Sym) (ts : List T) : ∀ (rets : List Nat) (j : Nat)
    (ps : List (T × T)) (vs : List W), retPairs S ts rets j = some ps →
    pick (ts.map (den base)) rets = some vs →
    vs.length = rets.length ∧
    ∀ i (hi : i < vs.length), ∃ t, (S.reg (A0 + (j + i)), t) ∈ ps ∧ vs[i] = den base t := by
  intro rets
  induction rets with
  | nil =>
    intro j ps vs _ h2
    simp only [pick] at h2; cases h2
    exact ⟨rfl, fun i hi => by simp at hi⟩
  | cons v r ih =>
    intro j ps vs h1 h2
    simp only [retPairs] at h1
    simp only [pick, getElem?_map_den] at h2
    cases ht : ts[v]? with
    | none => simp [ht] at h1
    | some t =>
      cases hr : retPairs S ts r (j + 1) with
      | none => simp [ht, hr] at h1
      | some rest =>
        simp only [ht, hr] at h1; cases h1
        simp only [ht, Option.map] at h2
        cases hp : pick (ts.map (den base)) r with
        | none => simp [hp] at h2
        | some xs =>
          simp only [hp] at h2; cases h2
          obtain ⟨hl, hi⟩ := ih (j + 1) rest xs hr hp
          refine ⟨by simp [hl], ?_⟩
          intro i hi'
          cases i with
          | zero => exact ⟨t, by simp, rfl⟩
          | succ i' =>
            obtain ⟨t', hm, hv⟩ := hi i' (by simpa using hi')
            refine ⟨t', ?_, by simpa using hv⟩
            have e : j + (i' + 1) = j + 1 + i' := by omega
            rw [e]; exact List.mem_cons_of_mem _ hm

theorem preserved_range : ∀ r ∈ preserved, 0 < r ∧ r < 32 := by decide

theorem args_map (σ0 : St) (n : Nat) :
    (List.range n).map (fun i => σ0.get (A0 + i)) = (argTerms n).map (den (baseOf σ0)) := by
  simp [argTerms, List.map_map, Function.comp_def, den, baseOf]

/-- **computes the same results as the source for every input and restores callee-saved registers
and the stack pointer** — for every function body the validator accepts: from *every* machine state
`σ0` at function entry (word-aligned `sp`) the body runs to its end (no trap); `ra`, `sp` and
`s0`–`s11` have their entry values; and whenever MLIR defines the results `vs` of the source function
on the arguments found in `a0 …` at entry, register `a_j` holds `vs[j]`. -/
theorem validate_sound (s : Src) (body : List Instr) (h : validate s body = true) (σ0 : St)
    (hal : aligned (σ0.get SP) = true) :
    ∃ σ', exec body σ0 = some σ' ∧
      (∀ r ∈ preserved, σ'.get r = σ0.get r) ∧
      ∀ vs, evalSrc s (fun i => σ0.get (A0 + i)) = some vs →
        ∀ j (hj : j < vs.length), σ'.get (A0 + j) = vs[j] := by
  unfold validate at h
  simp only [Bool.and_eq_true, decide_eq_true_eq] at h
  obtain ⟨⟨⟨_, hrl⟩, _⟩, h⟩ := h
  split at h
  · next S ts hS hts =>
    split at h
    · next ps hps =>
      obtain ⟨σ', he, I⟩ := symExec_sound body (Inv_init σ0) hal hS
      have hcp := checkPairs_sound (baseOf σ0) _ [] (WF_nil _) h
      refine ⟨σ', he, ?_, ?_⟩
      · intro r hr
        obtain ⟨h0, h32⟩ := preserved_range r hr
        have := hcp (S.reg r, T.var r) (List.mem_append_right _ (List.mem_map.mpr ⟨r, hr, rfl⟩))
        rw [I.reg r h0 h32, this]; rfl
      · intro vs hev j hj
        unfold evalSrc at hev
        split at hev
        · next vals hvals =>
          rw [args_map] at hvals
          have hv := srcTerms_sound (baseOf σ0) s.ops _ ts vals hts hvals
          subst hv
          obtain ⟨hl, hi⟩ := retPairs_pick (baseOf σ0) S ts s.rets 0 ps vs hps hev
          obtain ⟨t, hm, hvj⟩ := hi j hj
          have := hcp _ (List.mem_append_left _ hm)
          simp only [Nat.zero_add] at this
          have h8 : j < 8 := by omega
          have hlo : 0 < A0 + j := by show 0 < (10 : Nat) + j; omega
          have hhi : A0 + j < 32 := by show (10 : Nat) + j < 32; omega
          rw [I.reg (A0 + j) hlo hhi, this, hvj]
        · cases hev
    · cases h
  · cases h

theorem isStraight_eq (i : Instr) : isStraight i = i.straight := by cases i <;> rfl

theorem validate_straight (s : Src) (body : List Instr) (h : validate s body = true) :
    ∀ i ∈ body, i.straight = true ∧ i.encodable = true := by
  unfold validate at h
  simp only [Bool.and_eq_true, List.all_eq_true] at h
  intro i hi
  have := h.1.2 i hi
  rw [isStraight_eq] at this
  exact this

/-- **the property sentence for one compiled loop-free function, on the program-counter machine**
(partial: see the restrictions in the header — straight-line `i32` functions only; the ∀-programs
quantifier is discharged per emitted function by running `validate`).  The emitted function
`body; ret`, called with the halt address in `ra` and a word-aligned `sp`, halts; at that point
`a_j` holds the `j`-th source result for every input on which the source is defined, and `sp`,
`ra`, `s0`–`s11` are restored. -/
theorem backend_correct_straightline_partial (s : Src) (body : List Instr)
    (h : validate s body = true) (σ0 : St) (hal : aligned (σ0.get SP) = true)
    (hra : σ0.get RA = BitVec.ofNat 32 HALT) (fuel : Nat) :
    ∃ σ' n, run (body ++ [Instr.ret]).toArray (fuel + 1 + body.length) 0 0 σ0 = Outcome.halted σ' n ∧
      (∀ r ∈ preserved, σ'.get r = σ0.get r) ∧
      ∀ vs, evalSrc s (fun i => σ0.get (A0 + i)) = some vs →
        ∀ j (hj : j < vs.length), σ'.get (A0 + j) = vs[j] := by
  obtain ⟨σ', he, hp, hv⟩ := validate_sound s body h σ0 hal
  have hra' : σ'.get RA = BitVec.ofNat 32 HALT := by
    rw [← hra]; exact hp 1 (by decide)
  obtain ⟨n, hn⟩ := run_function body σ0 σ' (validate_straight s body h) he hra' fuel
  exact ⟨σ', n, hn, hp, hv⟩

/-! ### non-vacuity: what the pipeline emits is accepted, a wrong lowering is refused -/

/-- `f(a0, a1) = (a0 + a0) * 3 - (a1 & a1)` -/
def exSrc : Src :=
  { nargs := 2, ops := [.bin .addi 0 0, .const 3, .bin .muli 2 3, .bin .andi 1 1, .bin .subi 4 5], rets := [6] }

/-- shape of the pipeline output after canonicalization (`x + x → 2 * x`, `x & x → x`) with a spilled `s1` -/
def exBody : List Instr :=
  [.i .addi 2 2 (-4), .sw 9 2 0, .li 9 2, .r .mul 10 10 9, .li 5 3, .r .mul 10 10 5, .r .sub 10 10 11,
   .lw 9 2 0, .i .addi 2 2 4]

example : validate exSrc exBody = true := by decide +kernel

/-- `arith.cmpi sle` -/
def exCmp : Src := { nargs := 2, ops := [.cmpi 3 0 1], rets := [2] }

/-- the fixed table: `slt t, a1, a0; xori a0, t, 1` -/
example : validate exCmp [.r .slt 5 11 10, .i .xori 10 5 1] = true := by decide +kernel

/-- the table of the pinned tree lowered `sle` as `sge` -/
def exCmpOld : List Instr := [.r .slt 5 10 11, .i .xori 10 5 1]

example : validate exCmp exCmpOld = false := by decide +kernel

/-- the validator is right to refuse it: with `a0 = 1`, `a1 = 2` the code returns 0, the source 1 -/
theorem cmpi_sle_old_counterexample :
    ∃ σ0 σ' v, exec exCmpOld σ0 = some σ' ∧
      evalSrc exCmp (fun i => σ0.get (A0 + i)) = some [v] ∧ σ'.get A0 ≠ v := by
  refine ⟨(st1.set 10 1#32).set 11 2#32, _, 1#32, rfl, by decide, by decide⟩

/-- a body that forgets to restore a callee-saved register is refused -/
example : validate { nargs := 1, ops := [], rets := [0] } [.li 9 7] = false := by decide +kernel

end Xdsl.RiscV.TV
