import XdslProofs.C09
import XdslProofs.Lemmas.ConstraintInfer
/-!
# C09 — inference part

"whenever a constraint says it can infer an attribute the inferred attribute satisfies it."

The full statement
  `∀ c ctx a, canInfer U (ctxVars ctx) c = true → infer U c ctx = some a → ∃ ctx', verify U c a ctx = some ctx'`
is FALSE of the current code (`infer_verifies_counterexample`): `AllOf.can_infer` is "some conjunct
can infer" and `AllOf.infer` returns that conjunct's attribute without consulting the others
(known finding, `xdsl.irdl.constraints.AllOf.infer`).  `infer_verifies_partial` carries the excluded
region as the explicit hypothesis `AllOfAgree` and additionally assumes that the variables occurring
in the constraint are bound in the context (the situation of operation result inference; a variable
that is unbound but whose own constraint is inferable is NOT covered).  Class-definition invariants
checked by `ParametrizedAttribute.new` are outside the model.
-/
namespace Xdsl.Constraint

/-- the inferred attribute verifies in the very context it was inferred from (which stays as is) -/
theorem infer_verifies_partial (U : Univ) (c : C) (ctx : Ctx) (a : Attr)
    (hb : ∀ n ∈ vars c, (AL.get ctx n).isSome = true) (hag : AllOfAgree U ctx c)
    (hc : canInfer U (ctxVars ctx) c = true) (h : infer U c ctx = some a) :
    verify U c a ctx = some ctx := infer_verify U c ctx a hb hag hc h

/-- what `AllOf.infer` does deliver: the attribute inferred by its first inferable conjunct, which
satisfies *that* conjunct -/
theorem allOf_infer_first (U : Univ) (cs : List C) (ctx : Ctx) (a : Attr)
    (hb : ∀ n ∈ vars (.allOf cs), (AL.get ctx n).isSome = true)
    (hag : ∀ c ∈ cs, AllOfAgree U ctx c) (h : infer U (.allOf cs) ctx = some a) :
    ∃ c ∈ cs, canInfer U (ctxVars ctx) c = true ∧ infer U c ctx = some a ∧ verify U c a ctx = some ctx := by
  simp only [infer] at h
  obtain ⟨c, hc, h1, h2⟩ := inferFirst_spec U ctx cs a h
  refine ⟨c, hc, h1, h2, infer_verify U c ctx a (fun n hn => hb n ?_) (hag c hc) h1 h2⟩
  simp only [vars]; exact mem_varsL hc hn

/-- the hypothesis `AllOfAgree` is void for constraints without `AllOf` -/
theorem allOfAgree_of_single (U : Univ) (ctx : Ctx) (c : C) (hag : AllOfAgree U ctx c) :
    AllOfAgree U ctx (.allOf [c]) ↔
      (canInfer U (ctxVars ctx) c = true → ∀ a, infer U c ctx = some a → verify U c a ctx = some ctx) := by
  have _ := hag
  simp only [AllOfAgree, inferFirst, verifyAll]
  constructor
  · intro h hc a ha
    have := h a (by simp [hc, ha])
    cases hv : verify U c a ctx with
    | none => simp [hv] at this
    | some c1 => simp only [hv] at this; cases this; rfl
  · intro h a ha
    split at ha
    · rename_i hc; simp [h hc a ha]
    · cases ha

/-- witness of the known finding: `AllOf((BaseAttr(IndexType-like), EqAttrConstraint("s7")))` says it
can infer, infers the parameterless type, and rejects it -/
theorem infer_verifies_counterexample :
    canInfer U0 [] (.allOf [.base 0, .eq (.data 2 7)]) = true
    ∧ infer U0 (.allOf [.base 0, .eq (.data 2 7)]) [] = some (.param 0 [])
    ∧ verify U0 (.allOf [.base 0, .eq (.data 2 7)]) (.param 0 []) [] = none := by decide

/-- non-vacuity of the partial theorem: `Pair[T, eq s7]` with `T` bound -/
example : canInfer U0 [0] (.param 1 [.var 0 (.base 3), .eq (.data 2 7)]) = true
    ∧ infer U0 (.param 1 [.var 0 (.base 3), .eq (.data 2 7)]) [(0, .param 0 [])]
        = some (.param 1 [.param 0 [], .data 2 7])
    ∧ verify U0 (.param 1 [.var 0 (.base 3), .eq (.data 2 7)]) (.param 1 [.param 0 [], .data 2 7]) [(0, .param 0 [])]
        = some [(0, .param 0 [])] := by decide

end Xdsl.Constraint
