import XdslProofs.Lemmas.Lexer
import XdslProofs.Lemmas.LexerFlags
/-!
# C07 — parsing any text terminates promptly and fails only with diagnostics (lexer part)

"For any input text, the parser finishes in time roughly proportional to the input size and either
returns IR or reports a parse or verification diagnostic; it never hangs and never escapes with an
internal error such as a ValueError, KeyError, IndexError, AssertionError or TypeError."

**Partial by design** (DESIGN.md §5 C07).  The theorems below are about `XdslModel/Lexer.lean`, the
model of `MLIRLexer` (`xdsl/utils/mlir_lexer.py`) *with the C07 repairs* (string-literal regex without
nested quantifier; a number starts with an ASCII digit).  They carry, for every input — every list
of code points with arbitrary `isalpha/isnumeric/isspace` bits —:

* "finishes": the token loop needs no more iterations than code points + 1 (`lex_total`), every
  token consumes at least one code point (`lex_progress`);
* "in time roughly proportional to the input size": the number of code-point reads of all matchers,
  counted by the instrumented model itself, is at most `14·n + 7` (`lex_steps_le`);
* "either returns … or reports a parse diagnostic": the result is a token list ending with EOF at
  `n`, or one of the six lexer `ParseError`s whose span is non-empty and inside the text
  (`lex_total`, `lex_error_span`); no other outcome exists (by type — `lexE_cases`).

What is *not* proved (explored by the harness only, and said so in the evidence): that CPython's
`re` engine runs the repaired regexes in linear wall-clock time, and everything about the parser
proper and the ~80 dialect parsers (exception classes and CPU time per input are searched by
fuzzing).  The full statement, for the record:

  `∀ text, ∃ c, time (Parser ctx text).parse_module ≤ c·|text| ∧ outcome ∈ {IR, ParseError, VerifyException}`
-/
namespace Xdsl.Lexer

/-- The loop invariant of `lexLoop`: with more fuel than code points left, the fuel is not
exhausted, the ticks are linear, every token is non-empty, starts at or after `pos`, lies in the
text (or is the EOF token `(n, n+1)`), tokens are in order and do not overlap, an error span is
non-empty and inside the text, and without an error the stream ends with EOF. -/
theorem lexLoop_spec (fuel : Nat) : ∀ (pos : Nat) (rest : List CP), rest.length < fuel →
    (lexLoop fuel pos rest).exhausted = false ∧
    (lexLoop fuel pos rest).steps ≤ 14 * rest.length + 7 ∧
    (∀ t ∈ (lexLoop fuel pos rest).toks, pos ≤ t.start ∧ t.start < t.stop ∧
      ((t.kind ≠ .eof ∧ t.stop ≤ pos + rest.length) ∨
        t = ⟨.eof, pos + rest.length, pos + rest.length + 1⟩)) ∧
    (lexLoop fuel pos rest).toks.Pairwise (fun a b => a.stop ≤ b.start) ∧
    (∀ e, (lexLoop fuel pos rest).err = some e →
      pos ≤ e.start ∧ e.start < e.stop ∧ e.stop ≤ pos + rest.length) ∧
    ((lexLoop fuel pos rest).err = none →
      ∃ ts, (lexLoop fuel pos rest).toks = ts ++ [⟨.eof, pos + rest.length, pos + rest.length + 1⟩]) := by
  induction fuel with
  | zero => intro pos rest h; omega
  | succ fuel ih =>
    intro pos rest hf
    have hw1 := skipWs_le false rest
    have hw2 := skipWs_ticks false rest
    have hg := lexTok_good (rest.drop (skipWs false rest).1)
    rcases hq : lexTok (rest.drop (skipWs false rest).1) with ⟨res, t⟩
    rw [hq] at hg
    simp only [List.length_drop] at hg
    cases res with
    | eof =>
      simp only [Good] at hg
      have hn : (skipWs false rest).1 = rest.length := by omega
      simp only [lexLoop, hq]
      refine ⟨trivial, by omega, ?_, by simp, by simp, ?_⟩
      · intro t ht
        simp only [List.mem_singleton] at ht
        subst ht
        simp [hn]
      · intro _
        exact ⟨[], by simp [hn]⟩
    | err m off len =>
      simp only [Good] at hg
      simp only [lexLoop, hq]
      refine ⟨trivial, by omega, by simp, by simp, ?_, by simp⟩
      intro e he
      simp only [Option.some.injEq] at he
      subst he
      simp only []
      omega
    | tok k len =>
      simp only [Good] at hg
      obtain ⟨hl1, hl2, ht, hk⟩ := hg
      have hlen : (rest.drop ((skipWs false rest).1 + len)).length
          = rest.length - ((skipWs false rest).1 + len) := by simp
      have hih := ih (pos + (skipWs false rest).1 + len) (rest.drop ((skipWs false rest).1 + len))
        (by rw [hlen]; omega)
      rw [hlen] at hih
      obtain ⟨i1, i2, i3, i4, i5, i6⟩ := hih
      simp only [lexLoop, hq]
      refine ⟨i1, by omega, ?_, ?_, ?_, ?_⟩
      · intro t' ht'
        simp only [List.mem_cons] at ht'
        rcases ht' with rfl | ht'
        · refine ⟨by simp only []; omega, by simp only []; omega, Or.inl ⟨hk, by simp only []; omega⟩⟩
        · obtain ⟨a, b, c⟩ := i3 t' ht'
          refine ⟨by omega, b, ?_⟩
          rcases c with ⟨c1, c2⟩ | c
          · exact Or.inl ⟨c1, by omega⟩
          · refine Or.inr ?_
            rw [c]
            have : pos + (skipWs false rest).1 + len + (rest.length - ((skipWs false rest).1 + len))
                = pos + rest.length := by omega
            rw [this]
      · simp only [List.pairwise_cons]
        refine ⟨?_, i4⟩
        intro b hb
        have := (i3 b hb).1
        omega
      · intro e he
        have := i5 e he
        omega
      · intro he
        obtain ⟨ts, hts⟩ := i6 he
        refine ⟨⟨k, pos + (skipWs false rest).1, pos + (skipWs false rest).1 + len⟩ :: ts, ?_⟩
        simp only [hts, List.cons_append]
        have : pos + (skipWs false rest).1 + len + (rest.length - ((skipWs false rest).1 + len))
            = pos + rest.length := by omega
        rw [this]

/-- **lex_progress** — "never hangs": every token of every input consumes at least one code
point (the EOF token is the pseudo-span `(n, n+1)` of the code), lies inside the text, and the
tokens come in order without overlap. -/
theorem lex_progress (cs : List CP) :
    (∀ t ∈ (lex cs).toks, t.start < t.stop ∧
      ((t.kind ≠ .eof ∧ t.stop ≤ cs.length) ∨ t = ⟨.eof, cs.length, cs.length + 1⟩)) ∧
    (lex cs).toks.Pairwise (fun a b => a.stop ≤ b.start) := by
  have h := lexLoop_spec (cs.length + 1) 0 cs (by omega)
  obtain ⟨_, _, h3, h4, _, _⟩ := h
  refine ⟨?_, h4⟩
  intro t ht
  have := h3 t ht
  simpa using this.2

/-- **lex_steps_le** — "finishes in time roughly proportional to the input size", for the model's
matchers: the instrumented count of code-point reads over the whole run (whitespace regex, every
token regex, the extra passes over a string literal with escapes: backslash search, unescaping, UTF-8 validation of up to four bytes per character) is at most `14·n + 7`. -/
theorem lex_steps_le (cs : List CP) : (lex cs).steps ≤ 14 * cs.length + 7 :=
  (lexLoop_spec (cs.length + 1) 0 cs (by omega)).2.1

/-- **lex_total** — "either returns … or reports a parse diagnostic": the iteration of `lex()`
stops within `n + 1` calls (the fuel is never exhausted) with either one of the six lexer
`ParseError`s or a token list that ends with the EOF token at `n`. -/
theorem lex_total (cs : List CP) :
    (lex cs).exhausted = false ∧
    ((∃ e, (lex cs).err = some e) ∨
      ∃ ts, (lex cs).toks = ts ++ [⟨.eof, cs.length, cs.length + 1⟩]) := by
  have h := lexLoop_spec (cs.length + 1) 0 cs (by omega)
  obtain ⟨h1, _, _, _, _, h6⟩ := h
  refine ⟨h1, ?_⟩
  cases he : (lex cs).err with
  | some e => exact Or.inl ⟨e, rfl⟩
  | none =>
    right
    have := h6 he
    simpa [lex] using this

/-- The span of a lexer diagnostic is non-empty and inside the text (what
`Span.print_with_context` is given). -/
theorem lex_error_span (cs : List CP) (e : LexError) (h : (lex cs).err = some e) :
    e.start < e.stop ∧ e.stop ≤ cs.length := by
  have := (lexLoop_spec (cs.length + 1) 0 cs (by omega)).2.2.2.2.1 e h
  omega

/-- Only `ParseError` leaves the lexer: the `Except` view has exactly the two outcomes, and the
successful one is the EOF-terminated stream. -/
theorem lexE_cases (cs : List CP) :
    (∃ e, lexE cs = .error e ∧ e.start < e.stop ∧ e.stop ≤ cs.length) ∨
    (∃ ts, lexE cs = .ok (ts ++ [⟨.eof, cs.length, cs.length + 1⟩])) := by
  cases he : (lex cs).err with
  | some e => exact Or.inl ⟨e, by simp [lexE, he], lex_error_span cs e he⟩
  | none =>
    right
    rcases (lex_total cs).2 with ⟨e, h⟩ | ⟨ts, h⟩
    · rw [he] at h; cases h
    · exact ⟨ts, by simp [lexE, he, h]⟩

/-- Repair 2 as a theorem: the result does not depend on `str.isnumeric` / `str.isspace` of any code
point (a number starts only at an ASCII digit, `\s` is matched under `re.ASCII`): replacing these
bits arbitrarily (`reflag`) never changes tokens, error or step count. -/
theorem lex_ignores_numeric_space (cs : List CP) (f g : CP → Bool) :
    lex (cs.map (reflag f g)) = lex cs := by
  simp [lex, lexLoop_map]

/-! ## Non-vacuity -/

private def cp (c : Char) : CP := { val := c.toNat, alpha := c.isAlpha }
private def cps (s : String) : List CP := s.toList.map cp

/-- a small well-formed line lexes to the expected kinds (comment skipped, EOF last) -/
example : ((lex (cps "%0 = \"a.b\"() -> i32 // c")).toks.map (·.kind)) =
    [.percentIdent, .equal, .stringLit, .lParen, .rParen, .arrow, .bareIdent, .eof] := by decide +kernel

/-- the input of repaired defect 1: an unterminated literal of 24 characters is a `ParseError` after
at most 28 reads (the unrepaired regex needed ~2²⁴ steps) -/
example : (lex (cps "\"aaaaaaaaaaaaaaaaaaaaaaaa")).err = some ⟨.unterminated, 0, 1⟩ ∧
    (lex (cps "\"aaaaaaaaaaaaaaaaaaaaaaaa")).steps ≤ 28 := by decide +kernel

/-- the input of repaired defect 2: `²` (`isnumeric`, not an ASCII digit) is an unexpected character,
not an INTEGER_LIT that `int()` then rejects with a ValueError -/
example : (lex [{ val := 0xB2, numeric := true }]).err = some ⟨.unexpected, 0, 1⟩ := by decide +kernel

/-- escapes decide STRING_LIT / BYTES_LIT: the unescaped bytes are valid UTF-8 (`\n`, `é` spelled
`\C3\A9`, a raw `é` next to an escape) or not (`\ff`, a lone `\C3`) -/
example : ((lex (cps "\"\\n\" \"\\ff\" \"\\C3\\A9\" \"é\\n\" \"\\C3\"")).toks.map (·.kind)) =
    [.stringLit, .bytesLit, .stringLit, .stringLit, .bytesLit, .eof] := by decide +kernel

end Xdsl.Lexer
