import XdslProofs.Lemmas.AffineParse
/-!
# C26 — "printing and re-parsing them … preserve the value" (property theorems)

`toStr` models `AffineExpr.__str__` (fully parenthesised infix text), `lex` the MLIR lexer on the
characters that text uses, `parseExpr` the precedence-climbing `AffineParser._parse_affine_expr`,
which builds its result with the smart constructors.  Re-parsing the printed text therefore yields
the tree *rebuilt* bottom-up with the smart constructors (`rebuild e`, the same as
`e.replace_dims_and_symbols((), ())`), not `e` itself; the value is that of `e` at every assignment.
-/
namespace Xdsl.Affine

/-- the lexer reads the printed text back as the token sequence of the expression -/
theorem lex_print (e : Expr) : lex (toStr e) = .ok (toToks e) := lex_toStr e

theorem size_le_length_toToks (e : Expr) : size e ≤ (toToks e).length := by
  induction e with
  | const v => simp only [toToks, size]; split <;> simp
  | dim p => simp [toToks, size]
  | sym p => simp [toToks, size]
  | bin k l r ihl ihr => rw [toToks_bin]; simp [size]; omega

/-- token level: parsing the tokens of `e` consumes all of them and returns `rebuild e` (or raises
what rebuilding raises) -/
theorem parse_print_tokens {nd ns : Nat} (e : Expr) (h : PosLt nd ns e) :
    parseExpr nd ns (parseFuel (toToks e)) (toToks e) = (rebuild e).map (fun x => (x, [])) := by
  have hsz := size_le_length_toToks e
  obtain ⟨f, hf⟩ : ∃ f, parseFuel (toToks e) = f + 2 := ⟨4 * (toToks e).length + 6, by simp [parseFuel]⟩
  rw [hf]
  simp only [parseExpr, bind, Except.bind]
  have := parsePrimary_toToks e h [] (f + 1) (by simp [parseFuel] at hf; omega)
  rw [List.append_nil] at this
  rw [this]
  cases rebuild e with
  | error x => rfl
  | ok e' => simp [Except.map, parseBinopRhs, tokPrec, pure, Except.pure]

/-- `parse (print e) = rebuild e`, on characters: for every expression whose dimensions and symbols
are names of the space `(d0..)[s0..]`, lexing and parsing `str(e)` consumes the whole text and
returns the tree rebuilt with the smart constructors. -/
theorem parse_print {nd ns : Nat} (e : Expr) (h : PosLt nd ns e) :
    parseStr nd ns (toStr e) = (rebuild e).map (fun x => (x, [])) := by
  simp only [parseStr, lex_print, bind, Except.bind]
  exact parse_print_tokens e h

/-- rebuilding preserves the value at every assignment -/
theorem rebuild_eval {e e' : Expr} (h : rebuild e = .ok e') (ρd ρs : Nat → Int) :
    eval ρd ρs e' = eval ρd ρs e := by
  have := replace_eval' h ρd ρs
  rwa [substEnv_nil, substEnv_nil] at this

/-- "printing and re-parsing … preserve the value": whenever re-parsing the printed text returns an
expression, nothing of the text is left over and the expression has the value of the original at
every assignment of dimensions and symbols. -/
theorem parse_print_eval {nd ns : Nat} {e e' : Expr} {rest : List Tok} (h : PosLt nd ns e)
    (hp : parseStr nd ns (toStr e) = .ok (e', rest)) (ρd ρs : Nat → Int) :
    rest = [] ∧ eval ρd ρs e' = eval ρd ρs e := by
  rw [parse_print e h] at hp
  cases hr : rebuild e with
  | error x => rw [hr] at hp; cases hp
  | ok e'' =>
    rw [hr] at hp
    simp only [Except.map, Except.ok.injEq, Prod.mk.injEq] at hp
    obtain ⟨rfl, rfl⟩ := hp
    exact ⟨rfl, rebuild_eval hr ρd ρs⟩

/-- Expressions the printer output of which re-parses without an exception: every multiplication has
a constant operand and every division-like node a non-zero constant divisor (all expressions the
constructors of the statement build are of this form). -/
inductive Reparsable : Expr → Prop
  | const (v : Int) : Reparsable (.const v)
  | dim (p : Nat) : Reparsable (.dim p)
  | sym (p : Nat) : Reparsable (.sym p)
  | add {l r : Expr} : Reparsable l → Reparsable r → Reparsable (.bin .add l r)
  | mulR {l : Expr} (c : Int) : Reparsable l → Reparsable (.bin .mul l (.const c))
  | mulL {r : Expr} (c : Int) : Reparsable r → Reparsable (.bin .mul (.const c) r)
  | div {k : Kind} {l : Expr} {c : Int} :
      k.isDivLike = true → Reparsable l → c ≠ 0 → Reparsable (.bin k l (.const c))

theorem rebuild_ok {e : Expr} (h : Reparsable e) : ∃ e', rebuild e = .ok e' := by
  unfold rebuild
  induction h with
  | const v => exact ⟨_, rfl⟩
  | dim p => exact ⟨_, rfl⟩
  | sym p => exact ⟨_, rfl⟩
  | add _ _ ihl ihr =>
    obtain ⟨l', hl⟩ := ihl
    obtain ⟨r', hr⟩ := ihr
    exact ⟨mkAdd l' r', by simp [replace, bind, Except.bind, hl, hr, mkBin, pure, Except.pure]⟩
  | mulR c _ ih =>
    obtain ⟨l', hl⟩ := ih
    obtain ⟨m, hm⟩ := (mkMul_const_ok' l' c).1
    exact ⟨m, by simp [replace, bind, Except.bind, hl, mkBin, pure, Except.pure, hm]⟩
  | mulL c _ ih =>
    obtain ⟨r', hr⟩ := ih
    obtain ⟨m, hm⟩ := (mkMul_const_ok' r' c).2
    exact ⟨m, by simp [replace, bind, Except.bind, hr, mkBin, pure, Except.pure, hm]⟩
  | @div k l c hk _ hc ih =>
    obtain ⟨l', hl⟩ := ih
    obtain ⟨m, hm⟩ := mkDiv_const_ok' hk l' hc
    refine ⟨m, ?_⟩
    cases k <;> simp_all [replace, bind, Except.bind, mkBin, pure, Except.pure, Kind.isDivLike]

/-- … so for those, printing and re-parsing returns an expression of the same value. -/
theorem parse_print_total {nd ns : Nat} {e : Expr} (h : PosLt nd ns e) (hr : Reparsable e) :
    ∃ e', parseStr nd ns (toStr e) = .ok (e', []) ∧ ∀ ρd ρs, eval ρd ρs e' = eval ρd ρs e := by
  obtain ⟨e', he'⟩ := rebuild_ok hr
  exact ⟨e', by rw [parse_print e h, he']; rfl, rebuild_eval he'⟩

/-! non-vacuity: the raw tree `1 + d0` prints as `(1 + d0)` and re-parses to `d0 + 1` -/
example : toStr (.bin .add (.const 1) (.dim 0)) = "(1 + d0)" := by decide
example : rebuild (.bin .add (.const 1) (.dim 0)) = .ok (.bin .add (.dim 0) (.const 1)) := by rfl
example : toToks (.bin .mod (.dim 0) (.const (-3)))
    = [.lp, .ident "d0", .ident "mod", .minus, .int 3, .rp] := by decide

end Xdsl.Affine
