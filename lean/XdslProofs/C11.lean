import XdslProofs.Lemmas.RewriteDriverSteps
/-!
# C11 — the greedy rewrite driver reaches a fixpoint and observes every IR change

Property theorems over `XdslModel/RewriteDriver.lean`.  Everything is stated for an arbitrary
pattern `P.pat : IR → Nat → List Action × IR`, an arbitrary schedule `P.pick` (`none` = LIFO pop,
`some f` = the perturbed worklist), an arbitrary walk order `P.enum`, both values of
`apply_recursively`, with or without a post-walk function.  Termination is a hypothesis: the
theorems speak about runs for which `rewriteRegion P fuel d` returns `some _`.
The hypothesis bundles `Disciplined` (patterns only hand attached ops to the listeners) and
`ThroughRewriter` (patterns are functions of the IR and mutate it only through flag-setting
rewriter calls) and the trace classifiers are defined in `Lemmas/RewriteDriverSteps.lean`.
-/
namespace Xdsl.RewriteDriver
open Xdsl.Worklist (WL Inv abs)

variable {IR : Type}

/-! ## worklist invariant (C12) is maintained by the driver -/

/-- The driver keeps the representation invariant of the C12 worklist (index map ↔ stack slots),
so the C12 refinement theorem applies to every worklist operation it performs. -/
theorem driver_wlInv (P : Params IR) (fuel : Nat) (d : D IR) (r : D IR × Bool)
    (h : Inv d.st.wl) (hrun : rewriteRegion P fuel d = some r) : Inv r.1.st.wl := by
  refine rewriteRegion_induct P (fun d => Inv d.st.wl) ?_ ?_ ?_ fuel d r h hrun
  · intro d hd; exact (pushAll_spec _ hd _).1
  · intro d x w hd hp
    rw [matchOp_eq]
    exact execAll_wlInv _ _ _ (popNext_some _ _ _ _ hd hp).1
  · intro d hd; exact postWalk_wlInv P d hd

/-! ## (3) patterns are only invoked on attached operations -/

/-- The worklist only ever holds attached ops (the removal handler deletes the erased op and all
ops nested in it; everything pushed by a handler is attached): invariant of the whole driver, for
every schedule, walk order and configuration. -/
theorem worklist_attached (P : Params IR) (R : IR → List Nat → Prop) (hD : Disciplined P R)
    (fuel : Nat) (d : D IR) (r : D IR × Bool)
    (hinv : Inv d.st.wl) (hsub : Sub d.st) (hR : R d.ir d.st.attached)
    (hrun : rewriteRegion P fuel d = some r) : ∀ x ∈ abs r.1.st.wl, x ∈ r.1.st.attached :=
  (rewriteRegion_induct P (VInv R) (vinv_populate P R hD)
    (fun d x w h hp => (vinv_match P R hD d x w h hp).2) (vinv_post P R hD) fuel d r
    ⟨hinv, hsub, hR⟩ hrun).2.1

/-- "Patterns are never invoked on operations that have been erased or detached from the region":
for every schedule, walk order and configuration, every pattern invocation recorded in the trace
of a run happened on an op that was attached at that moment. -/
theorem visit_attached (P : Params IR) (R : IR → List Nat → Prop) (hD : Disciplined P R)
    (fuel : Nat) (d : D IR) (r : D IR × Bool)
    (hinv : Inv d.st.wl) (hsub : Sub d.st) (hR : R d.ir d.st.attached) (h0 : d.st.trace = [])
    (hrun : rewriteRegion P fuel d = some r) :
    ∀ x att flag wl ev atts, TraceItem.visit x att flag wl ev atts ∈ r.1.st.trace → att = true := by
  have hv := rewriteRegion_induct P
    (fun d => VInv R d ∧ ∀ it ∈ d.st.trace, it.visitedDetached = false) ?_ ?_ ?_ fuel d r
    ⟨⟨hinv, hsub, hR⟩, by simp [h0]⟩ hrun
  · intro x att flag wl ev atts hmem
    have := hv.2 _ hmem
    simpa [TraceItem.visitedDetached] using this
  · intro d h
    refine ⟨vinv_populate P R hD d h.1, ?_⟩
    intro it hit
    simp only [populate, List.mem_append, List.mem_singleton] at hit
    rcases hit with hit | rfl
    · exact h.2 it hit
    · rfl
  · intro d x w h hp
    obtain ⟨hx, hv⟩ := vinv_match P R hD d x w h.1 hp
    refine ⟨hv, ?_⟩
    rw [matchOp_eq]
    intro it hit
    simp only [execAll_trace, List.mem_append, List.mem_singleton] at hit
    rcases hit with hit | rfl
    · exact h.2 it hit
    · simp [TraceItem.visitedDetached, hx]
  · intro d h
    refine ⟨vinv_post P R hD d h.1, ?_⟩
    unfold postWalk
    cases hpost : P.post with
    | none => exact h.2
    | some f =>
      intro it hit
      simp only [execAll_trace, List.mem_append, List.mem_singleton] at hit
      rcases hit with hit | rfl
      · exact h.2 it hit
      · rfl

/-! ## (5) the action flag, (2) the returned flag -/

/-- "the rewriter's action flag is set whenever a match mutated the IR": after a match,
`has_done_action` is true exactly when the match made a flag-setting call … -/
theorem flag_iff (P : Params IR) (d : D IR) (x : Nat) :
    (matchOp P d x).st.flag = (P.pat d.ir x).1.any Action.setsFlag := matchOp_flag P d x

/-- … and the only call that does not set it is `replace_all_uses_with(v, w)` on a value without
uses (with `w` not `None`), which changes nothing.  (`create_block` sets it in the fixed code.) -/
theorem only_useless_rauw_keeps_flag (a : Action) : a.setsFlag = false ↔ a = .rauw false [] :=
  not_setsFlag_iff a

/-- "the walker reports a modification whenever the IR changed": the boolean returned by
`rewrite_region` is true exactly when, anywhere in the run (in any sweep), some match left
`has_done_action` set or some post-walk call reported a change. -/
theorem changed_iff (P : Params IR) (fuel : Nat) (d : D IR) (r : D IR × Bool)
    (h : rewriteRegion P fuel d = some r) :
    ∃ t, r.1.st.trace = d.st.trace ++ t ∧ r.2 = t.any TraceItem.reportsChange := by
  simp only [rewriteRegion] at h
  split at h
  · cases h
  · rename_i d1 h1
    obtain ⟨t1, a1, b1⟩ := sweep_changed P fuel _ _ h1
    split at h
    · cases h; exact ⟨t1, a1, b1⟩
    · simp only [Option.map_eq_some_iff] at h
      obtain ⟨d2, h2, rfl⟩ := h
      obtain ⟨t2, a2, b2⟩ := outer_changed P fuel fuel _ _ h2
      refine ⟨t1 ++ t2, by rw [a2, a1, List.append_assoc], ?_⟩
      show d1.st.changed = _
      rw [List.any_append, ← b1]
      cases hc : d1.st.changed with
      | true => rfl
      | false => rw [b2 hc]; rfl

/-- Without a post-walk function the returned boolean is true exactly when some executed rewriter
call was a flag-setting one (i.e. anything but a `replace_all_uses_with` of an unused value):
"the walker reports a modification whenever the IR changed". -/
theorem changed_iff_executed (P : Params IR) (hpost : P.post = none) (fuel : Nat) (d : D IR)
    (r : D IR × Bool) (h : rewriteRegion P fuel d = some r) :
    ∃ es, r.1.st.executed = d.st.executed ++ es ∧ r.2 = es.any Action.setsFlag := by
  obtain ⟨t, ht, hr⟩ := changed_iff P fuel d r h
  have key := rewriteRegion_induct P (fun e => ∃ t es, e.st.trace = d.st.trace ++ t ∧
      e.st.executed = d.st.executed ++ es ∧ t.any TraceItem.reportsChange = es.any Action.setsFlag)
    ?_ ?_ ?_ fuel d r ⟨[], [], by simp, by simp, rfl⟩ h
  · obtain ⟨t', es, h1, h2, h3⟩ := key
    have : t = t' := List.append_cancel_left (ht.symm.trans h1)
    subst this
    exact ⟨es, h2, hr.trans h3⟩
  · intro e ⟨t, es, h1, h2, h3⟩
    refine ⟨t ++ [.sweep (P.enum e.ir e.st.attached) e.st.attached], es, ?_, h2, ?_⟩
    · show e.st.trace ++ _ = _
      rw [h1, List.append_assoc]
    · rw [List.any_append, h3]; simp [TraceItem.reportsChange]
  · intro e x w ⟨t, es, h1, h2, h3⟩ _
    obtain ⟨it, m1, m2⟩ := matchOp_trace_changed P (popped e w) x
    have hf := matchOp_flag P (popped e w) x
    have hit : it.reportsChange = (matchOp P (popped e w) x).st.flag := by
      rw [matchOp_eq] at m1 ⊢
      have : (execAll P.recursive { (popped e w).st with flag := false } (P.pat (popped e w).ir x).1).trace
          = (popped e w).st.trace := execAll_trace _ _ _
      simp only [this, List.append_cancel_left_eq, List.cons.injEq, and_true] at m1
      rw [← m1]; rfl
    refine ⟨t ++ [it], es ++ (P.pat e.ir x).1, ?_, ?_, ?_⟩
    · rw [m1]
      show e.st.trace ++ _ = _
      rw [h1, List.append_assoc]
    · rw [matchOp_eq]
      show (execAll _ _ _).executed = _
      rw [execAll_executed]
      show e.st.executed ++ _ = _
      rw [h2, List.append_assoc]
    · rw [List.any_append, List.any_append, h3, List.any_cons, List.any_nil, Bool.or_false, hit, hf]
  · intro e he
    unfold postWalk
    rw [hpost]
    exact he

/-! ## (4) every call is reported to the listeners -/

/-- The listener log is exactly the concatenation of the events of the executed calls, in order:
nothing is dropped or reordered anywhere in the driver (matches, sweeps, post-walks). -/
theorem log_eq (P : Params IR) (fuel : Nat) (d : D IR) (r : D IR × Bool)
    (h : rewriteRegion P fuel d = some r) :
    ∃ es, r.1.st.executed = d.st.executed ++ es ∧ r.1.st.log = d.st.log ++ es.flatMap Action.events := by
  refine rewriteRegion_induct P (fun e => ∃ es, e.st.executed = d.st.executed ++ es ∧
    e.st.log = d.st.log ++ es.flatMap Action.events) ?_ ?_ ?_ fuel d r ⟨[], by simp⟩ h
  · intro e h; exact h
  · intro e x w ⟨es, h1, h2⟩ _
    rw [matchOp_eq]
    refine ⟨es ++ (P.pat e.ir x).1, ?_, ?_⟩
    · show (execAll _ _ _).executed = _
      rw [execAll_executed]
      show e.st.executed ++ _ = _
      rw [h1, List.append_assoc]
    · show (execAll _ _ _).log = _
      rw [execAll_log]
      show e.st.log ++ _ = _
      rw [h2]; simp
  · intro e ⟨es, h1, h2⟩
    unfold postWalk
    cases hpost : P.post with
    | none => exact ⟨es, h1, h2⟩
    | some f =>
      refine ⟨es ++ (f e.ir).1, ?_, ?_⟩
      · show (execAll _ _ _).executed = _
        rw [execAll_executed, h1, List.append_assoc]
      · show (execAll _ _ _).log = _
        rw [execAll_log, h2]; simp

/-- What the sentence demands of one call: "every insertion, removal, replacement and in-place
modification made through the rewriter is reported".  `inline_block(…, arg_values)` rewrites the
operands of the users of the block arguments — an in-place modification of each of them. -/
def Action.demanded : Action → List Event
  | .insert op _ => [.inserted op]
  | .replaced op _ => [.replaced op]
  | .rauw _ users => users.map .modified
  | .erase op _ _ => [.removed op]
  | .modify op => [.modified op]
  | .inlineBlock _ users => users.map .modified
  | .blockArg => []
  | .createBlock => []

/-- PARTIAL (known finding `PatternRewriter.inline_block`): every event the sentence demands for
an executed call is in the listener log, *except* for `inline_block` calls that rewrite operands
(`users ≠ []`).  Full statement (false of the code): the same without the hypothesis `hin`. -/
theorem all_notified_partial (P : Params IR) (fuel : Nat) (d : D IR) (r : D IR × Bool)
    (h : rewriteRegion P fuel d = some r) :
    ∃ es, r.1.st.executed = d.st.executed ++ es ∧
      ∀ a ∈ es, (∀ m u, a = .inlineBlock m u → u = []) → ∀ e ∈ a.demanded, e ∈ r.1.st.log := by
  obtain ⟨es, h1, h2⟩ := log_eq P fuel d r h
  refine ⟨es, h1, ?_⟩
  intro a ha hin e he
  rw [h2]
  apply List.mem_append_right
  rw [List.mem_flatMap]
  refine ⟨a, ha, ?_⟩
  cases a with
  | inlineBlock m u => rw [hin m u rfl] at he; simp [Action.demanded] at he
  | blockArg => simp [Action.demanded] at he
  | createBlock => simp [Action.demanded] at he
  | insert op n => simpa [Action.demanded, Action.events] using he
  | replaced op u => simpa [Action.demanded, Action.events] using he
  | rauw b u => simpa [Action.demanded, Action.events] using he
  | erase op n ds => simpa [Action.demanded, Action.events] using he
  | modify op => simpa [Action.demanded, Action.events] using he

/-- The witness behind the known finding: inlining a block whose argument is used by op `2`
modifies op `2` in place and no listener hears of it. -/
theorem inline_block_users_unreported_counterexample :
    ∃ (s : St) (a : Action) (e : Event),
      e ∈ a.demanded ∧ e ∉ (exec true s a).log ∧ (exec true s a).flag = true :=
  ⟨{ attached := [0, 1, 2] }, .inlineBlock [2] [2], .modified 2, by decide, by decide, by decide⟩

/-! ## (1) fixpoint on return -/

/-- "When the greedy pattern-rewrite walker returns with recursive application enabled, no pattern
would change any operation of the rewritten region any more": for every schedule and walk order,
in the IR at return no attached op has a flag-setting rewriter call left (the pattern, applied to
any op of the region, does nothing), and the post-walk function reports no change.
Hypotheses: termination (`= some r`), and `ThroughRewriter` (patterns are functions of the IR and
mutate it only through the rewriter). -/
theorem fixpoint_on_return (P : Params IR) (hT : ThroughRewriter P) (hrec : P.recursive = true)
    (fuel : Nat) (d : D IR) (r : D IR × Bool) (hinv : Inv d.st.wl)
    (hrun : rewriteRegion P fuel d = some r) :
    (∀ x ∈ r.1.st.attached, ∀ a ∈ (P.pat r.1.ir x).1, a.setsFlag = false) ∧
    (∀ f, P.post = some f → (f r.1.ir).2.2 = false) := by
  simp only [rewriteRegion, hrec] at hrun
  split at hrun
  · cases hrun
  · rename_i d1 h1
    simp only [Bool.not_true, Bool.false_eq_true, if_false, Option.map_eq_some_iff] at hrun
    obtain ⟨d2, h2, rfl⟩ := hrun
    obtain ⟨c, hr⟩ := outer_last_sweep P fuel fuel _ _ (sweep_wlInv P fuel _ _ hinv h1) h2
    rcases hr with rfl | ⟨dp, hp, hs⟩
    · exact sweep_quiet P hT fuel d _ hinv h1 c
    · exact sweep_quiet P hT fuel dp _ hp hs c

/-- In non-recursive mode a single sweep is made: every op attached at the start that is still on
the worklist when its turn comes is visited once; no fixpoint is claimed (the statement's clause is
about `apply_recursively=True` only). -/
theorem nonrecursive_single_sweep (P : Params IR) (hrec : P.recursive = false) (fuel : Nat)
    (d : D IR) (r : D IR × Bool) (hrun : rewriteRegion P fuel d = some r) :
    sweep P fuel d = some r.1 ∧ r.2 = r.1.st.changed := by
  simp only [rewriteRegion, hrec] at hrun
  split at hrun
  · cases hrun
  · rename_i d1 h1
    simp only [Bool.not_false, if_true, Option.some.injEq] at hrun
    subst hrun
    exact ⟨h1, rfl⟩

/-! ## worklist bookkeeping seen through the driver

The C12 refinement applied to the worklist operations the driver itself performs: which op is
handed to the pattern next, which ops a rewriter call takes off / puts on / leaves on the worklist.
These are the facts a wrong index in `Worklist.push`/`remove` voids (an erased op that stays
queued, a live queued op that is silently dropped). -/

/-- the ops a call removes from the worklist (`_handle_operation_removal`: the erased op and every
op nested in it) -/
def Action.unqueued : Action → List Nat
  | .erase op nested _ => op :: nested
  | _ => []

/-- the ops a call pushes in recursive mode (`_handle_operation_insertion/_modification/
_replacement`, `_add_operands_to_worklist`) -/
def Action.queued : Action → List Nat
  | .insert op _ => [op]
  | .replaced _ users => users
  | .rauw _ users => users
  | .erase _ _ defs => defs
  | .modify op => [op]
  | _ => []

/-- Exact worklist effect of one rewriter call, as a set: afterwards the worklist holds what it
held before plus (recursive mode) the ops the handlers push, minus the erased op and the ops nested
in it — nothing else comes or goes. -/
theorem exec_worklist_spec (r : Bool) (s : St) (a : Action) (h : Inv s.wl) (y : Nat) :
    y ∈ abs (exec r s a).wl ↔
      ((y ∈ abs s.wl ∨ (r = true ∧ y ∈ a.queued)) ∧ y ∉ a.unqueued) := by
  cases a <;> cases r <;>
    simp only [exec, if_true, if_false, Bool.false_eq_true, Action.queued, Action.unqueued,
      List.not_mem_nil, not_false_eq_true, and_true, false_and, or_false, true_and,
      (pushAll_spec _ h _).2, (removeAll_spec _ h _).2,
      (removeAll_spec _ (pushAll_spec _ h _).1 _).2, List.mem_singleton]

/-- "Patterns are never invoked on erased operations", worklist side: after `erase(op)` neither `op`
nor any op nested in it is queued, whatever was pushed during the same call. -/
theorem erase_unqueues (r : Bool) (s : St) (op : Nat) (nested defs : List Nat) (h : Inv s.wl) :
    ∀ y ∈ op :: nested, y ∉ abs (exec r s (.erase op nested defs)).wl := by
  intro y hy hmem
  rw [exec_worklist_spec r s _ h y] at hmem
  exact hmem.2 hy

/-- A queued op stays queued through every rewriter call that does not erase it (or an ancestor):
no live op is silently dropped. -/
theorem exec_keeps_queued (r : Bool) (s : St) (a : Action) (h : Inv s.wl) (y : Nat)
    (hy : y ∈ abs s.wl) (hne : y ∉ a.unqueued) : y ∈ abs (exec r s a).wl :=
  (exec_worklist_spec r s a h y).2 ⟨Or.inl hy, hne⟩

/-- In recursive mode every op a handler is told about (inserted, modified, user of a replaced
value, single-use operand definer of an erased op) is queued after the call, unless the same call
erased it. -/
theorem exec_queues_notified (s : St) (a : Action) (h : Inv s.wl) (y : Nat)
    (hy : y ∈ a.queued) (hne : y ∉ a.unqueued) : y ∈ abs (exec true s a).wl :=
  (exec_worklist_spec true s a h y).2 ⟨Or.inr ⟨rfl, hy⟩, hne⟩

/-- LIFO schedule: the op handed to the pattern next is the top of the abstract stack, and the
rest of the stack is exactly what remains queued. -/
theorem pop_lifo_top (w w' : WL) (x : Nat) (h : Inv w) (hp : popNext none w = some (x, w')) :
    abs w = x :: abs w' := by
  obtain ⟨e1, e2, e3⟩ := Worklist.step_refines w h .isEmpty
  unfold popNext at hp
  generalize hq : Worklist.step w .isEmpty = q at hp e1 e2 e3
  obtain ⟨w1, o⟩ := q
  simp only [Worklist.Spec.step] at e1 e2
  simp only at e1 e2 e3
  subst e1
  cases hl : abs w with
  | nil => simp [hl] at hp
  | cons a t =>
    simp only [hl, List.isEmpty_cons, Bool.not_false] at hp
    obtain ⟨p1, p2, p3⟩ := Worklist.step_refines w1 e3 .pop
    generalize hq2 : Worklist.step w1 .pop = q2 at hp p1 p2 p3
    obtain ⟨w2, o2⟩ := q2
    simp only at p1 p2 p3
    rw [e2, hl] at p1 p2
    simp only [Worklist.Spec.step] at p1 p2
    subst p1
    simp only [Option.some.injEq, Prod.mk.injEq] at hp
    obtain ⟨rfl, rfl⟩ := hp
    rw [p2]

/-- Perturbed schedule: the op handed to the pattern was queued, and exactly that op leaves the
worklist (order of the others unchanged). -/
theorem pop_pick_removes (f : List Nat → Nat) (w w' : WL) (x : Nat) (h : Inv w)
    (hp : popNext (some f) w = some (x, w')) :
    x ∈ abs w ∧ abs w' = (abs w).filter (· ≠ x) := by
  obtain ⟨e1, e2, e3⟩ := Worklist.step_refines w h .isEmpty
  unfold popNext at hp
  generalize hq : Worklist.step w .isEmpty = q at hp e1 e2 e3
  obtain ⟨w1, o⟩ := q
  simp only [Worklist.Spec.step] at e1 e2
  simp only at e1 e2 e3
  subst e1
  cases hne : (abs w).isEmpty with
  | true => simp [hne] at hp
  | false =>
    simp only [hne, Bool.not_false] at hp
    cases hg : (abs w1)[f (abs w1) % (abs w1).length]? with
    | none => simp [hg] at hp
    | some z =>
      simp only [hg, Option.some.injEq, Prod.mk.injEq] at hp
      obtain ⟨rfl, rfl⟩ := hp
      obtain ⟨_, r2, _⟩ := Worklist.step_refines w1 e3 (.remove z)
      refine ⟨by rw [← e2]; exact List.mem_of_getElem? hg, ?_⟩
      rw [r2, e2]; simp [Worklist.Spec.step]

/-! ## histories of calls on one walker: who hears what -/

theorem view_append (h : Nat) (a b : List (Nat × Event)) : view h (a ++ b) = view h a ++ view h b := by
  simp [view]

theorem view_deliver_mem (h : Nat) (hs : List Nat) (log : List Event) (hn : hs.Nodup) (hm : h ∈ hs) :
    view h (deliver hs log) = log := by
  induction log with
  | nil => simp [view, deliver]
  | cons e t ih =>
    have hone : ((hs.map fun k => (k, e)).filter fun p => p.1 == h).map (·.2) = [e] := by
      clear ih
      induction hs with
      | nil => cases hm
      | cons k r ihr =>
        rw [List.nodup_cons] at hn
        by_cases hk : k = h
        · subst hk
          have : ((r.map fun k' => (k', e)).filter fun p => p.1 == k) = [] := by
            rw [List.filter_eq_nil_iff]
            intro p hp
            rw [List.mem_map] at hp
            obtain ⟨k', hk', rfl⟩ := hp
            simp only [beq_iff_eq]
            rintro rfl; exact hn.1 hk'
          simp [this]
        · have hm' : h ∈ r := by
            rcases List.mem_cons.mp hm with h1 | h1
            · exact absurd h1.symm hk
            · exact h1
          simp [hk, ihr hn.2 hm']
    simp only [view, deliver, List.flatMap_cons, List.filter_append, List.map_append] at ih ⊢
    rw [hone, ih]; rfl

theorem view_deliver_not_mem (h : Nat) (hs : List Nat) (log : List Event) (hm : h ∉ hs) :
    view h (deliver hs log) = [] := by
  simp only [view, deliver, List.map_eq_nil_iff, List.filter_eq_nil_iff, List.mem_flatMap, List.mem_map]
  rintro p ⟨e, _, k, hk, rfl⟩
  simp only [beq_iff_eq]
  rintro rfl; exact hm hk

/-- listener edits do not deliver anything -/
theorem edits_delivered (es : List Edit) (v : Walker) : (es.foldl Walker.edit v).delivered = v.delivered := by
  induction es generalizing v with
  | nil => rfl
  | cons e1 t1 ih => rw [List.foldl_cons, ih]; cases e1 <;> rfl

/-- One call delivers its whole listener log — which by `log_eq` is the concatenation of the
events of the calls executed during it — to the handlers registered on `walker.listener` **when
the call is made**, and to nobody else. -/
theorem call_delivers (P : Params IR) (fuel : Nat) (w w' : Walker) (ir : IR) (att : List Nat)
    (d : D IR) (b : Bool) (hc : call P fuel w ir att = some (w', d, b)) :
    w'.registered = w.registered ∧
    w'.delivered = w.delivered ++ deliver w.registered d.st.log ∧
    rewriteRegion P fuel { ir := ir, st := { attached := att, wl := w.wl } } = some (d, b) := by
  unfold call at hc
  split at hc
  · cases hc
  · rename_i d0 b0 hr
    simp only [Option.some.injEq, Prod.mk.injEq] at hc
    obtain ⟨rfl, rfl, rfl⟩ := hc
    exact ⟨rfl, rfl, hr⟩

/-- Histories (several `rewrite_region`/`rewrite_module` calls on one walker, with handlers added to
`walker.listener` or the listener replaced in between): what a handler has received at the end is
exactly, in order, the listener logs of the calls during which it was registered — a handler added
or assigned after an earlier call hears everything from the next call on, a replaced one nothing. -/
theorem history_view (P : Params IR) (fuel : Nat) (h : Nat) :
    ∀ (stages : List (Stage IR)) (w w' : Walker) (ir ir' : IR) (recs : List CallRec),
      history P fuel w ir stages = some (w', ir', recs) →
      (∀ c ∈ recs, c.registered.Nodup) →
      view h w'.delivered =
        view h w.delivered ++ recs.flatMap fun c => if h ∈ c.registered then c.log else [] := by
  intro stages
  induction stages with
  | nil =>
    intro w w' ir ir' recs hh _
    simp only [history, Option.some.injEq, Prod.mk.injEq] at hh
    obtain ⟨rfl, _, rfl⟩ := hh
    simp
  | cons s rest ih =>
    intro w w' ir ir' recs hh hn
    simp only [history] at hh
    split at hh
    · cases hh
    · rename_i w2 d b hcall
      split at hh
      · cases hh
      · rename_i w3 ir3 recs3 hrest
        simp only [Option.some.injEq, Prod.mk.injEq] at hh
        obtain ⟨rfl, _, rfl⟩ := hh
        obtain ⟨c1, c2, _⟩ := call_delivers P fuel _ _ _ _ _ _ hcall
        have hn' : ∀ c ∈ recs3, c.registered.Nodup := fun c hc => hn c (List.mem_cons_of_mem _ hc)
        have hn0 := hn _ List.mem_cons_self
        simp only at hn0
        rw [ih w2 w3 d.ir ir3 recs3 hrest hn', c2, view_append, List.flatMap_cons, List.append_assoc]
        rw [edits_delivered]
        congr 1
        show view h (deliver _ _) ++ _ = (if h ∈ (s.edits.foldl Walker.edit w).registered then d.st.log else []) ++ _
        congr 1
        by_cases hm : h ∈ (s.edits.foldl Walker.edit w).registered
        · rw [if_pos hm, view_deliver_mem h _ _ hn0 hm]
        · rw [if_neg hm, view_deliver_not_mem h _ _ hm]

/-- The notification clause for histories: every event the sentence demands of a rewriter call
executed during some call of the history has been delivered to every handler that was registered
when that call was made (same exception as `all_notified_partial`: operand rewrites of
`inline_block`).  `hfresh`: the ghost log/executed lists start empty at each call (they do: `call`
builds a fresh `St`). -/
theorem history_all_notified_partial (P : Params IR) (fuel : Nat) :
    ∀ (stages : List (Stage IR)) (w w' : Walker) (ir ir' : IR) (recs : List CallRec),
      history P fuel w ir stages = some (w', ir', recs) →
      ∀ c ∈ recs, ∀ h ∈ c.registered, ∀ a ∈ c.executed,
        (∀ m u, a = .inlineBlock m u → u = []) → ∀ e ∈ a.demanded, (h, e) ∈ w'.delivered := by
  intro stages
  induction stages with
  | nil =>
    intro w w' ir ir' recs hh c hc
    simp only [history, Option.some.injEq, Prod.mk.injEq] at hh
    obtain ⟨_, _, rfl⟩ := hh
    cases hc
  | cons s rest ih =>
    intro w w' ir ir' recs hh c hc h hh' a ha hin e he
    simp only [history] at hh
    split at hh
    · cases hh
    · rename_i w2 d b hcall
      split at hh
      · cases hh
      · rename_i w3 ir3 recs3 hrest
        simp only [Option.some.injEq, Prod.mk.injEq] at hh
        obtain ⟨rfl, _, rfl⟩ := hh
        obtain ⟨c1, c2, c3⟩ := call_delivers P fuel _ _ _ _ _ _ hcall
        -- delivered only grows along the rest of the history
        have hgrow : ∀ x ∈ w2.delivered, x ∈ w3.delivered := by
          have hv : ∀ (stages : List (Stage IR)) (u u' : Walker) (i i' : IR) (rs : List CallRec),
              history P fuel u i stages = some (u', i', rs) → ∀ x ∈ u.delivered, x ∈ u'.delivered := by
            intro stages
            induction stages with
            | nil =>
              intro u u' i i' rs hu x hx
              simp only [history, Option.some.injEq, Prod.mk.injEq] at hu
              obtain ⟨rfl, _, _⟩ := hu; exact hx
            | cons s2 r2 ih2 =>
              intro u u' i i' rs hu x hx
              simp only [history] at hu
              split at hu
              · cases hu
              · rename_i u2 d2 b2 hc2
                split at hu
                · cases hu
                · rename_i u3 i3 rs3 hr3
                  simp only [Option.some.injEq, Prod.mk.injEq] at hu
                  obtain ⟨rfl, _, _⟩ := hu
                  obtain ⟨_, q2, _⟩ := call_delivers P fuel _ _ _ _ _ _ hc2
                  apply ih2 u2 u3 d2.ir i3 rs3 hr3
                  rw [q2]
                  apply List.mem_append_left
                  rw [edits_delivered]; exact hx
          exact hv rest w2 w3 d.ir ir3 recs3 hrest
        rcases List.mem_cons.mp hc with rfl | hc'
        · apply hgrow
          rw [c2]
          apply List.mem_append_right
          obtain ⟨es, x1, x2⟩ := all_notified_partial P fuel _ _ c3
          simp only [List.nil_append] at x1
          simp only at ha
          rw [x1] at ha
          have hlog := x2 a ha hin e he
          simp only [deliver, List.mem_flatMap, List.mem_map]
          exact ⟨e, hlog, h, hh', rfl⟩
        · exact ih w2 w3 d.ir ir3 recs3 hrest c hc' h hh' a ha hin e he

/-! ## non-vacuity -/

/-- A concrete run: `IR = Nat` counts the remaining applications of a countdown pattern on op `1`;
op `0` is erased when seen.  LIFO and a perturbed schedule both return `true` and end in the same
fixpoint. -/
def demoParams (pick : Option (Nat → List Nat → Nat)) : Params Nat where
  recursive := true
  pat := fun n x => if x = 0 then ([.erase 0 [] []], n) else if n = 0 then ([], n) else ([.modify x], n - 1)
  post := none
  enum := fun _ att => att.reverse
  pick := pick

example : (rewriteRegion (demoParams none) 50 { ir := 2, st := { attached := [0, 1] } }).map
    (fun r => (r.1.st.attached, r.1.ir, r.2, r.1.st.log)) =
    some ([1], 0, true, [.removed 0, .modified 1, .modified 1]) := by decide

example : (rewriteRegion (demoParams (some fun _ l => l.length - 1)) 50
    { ir := 2, st := { attached := [0, 1] } }).map
    (fun r => (r.1.st.attached, r.1.ir, r.2, r.1.st.log)) =
    some ([1], 0, true, [.modified 1, .removed 0, .modified 1]) := by decide

/-- the hypotheses of `visit_attached` and `fixpoint_on_return` are satisfiable -/
example (pk : Option (Nat → List Nat → Nat)) : Disciplined (demoParams pk) (fun _ _ => True) where
  pat_wf := by
    intro ir att x _ hx
    simp only [demoParams]
    split
    · simp [wfActs, Action.wf]
    · split
      · simp [wfActs]
      · simp [wfActs, Action.wf, hx]
  pat_R := fun _ _ _ _ _ => trivial
  post_wf := by intro f _ _ hf; simp [demoParams] at hf
  post_R := fun _ _ _ _ _ => trivial
  enum_sub := by intro ir att _ y hy; simpa [demoParams] using hy

example (pk : Option (Nat → List Nat → Nat)) : ThroughRewriter (demoParams pk) where
  pat_quiet := by
    intro ir x h
    simp only [demoParams] at h ⊢
    split
    · rfl
    · split
      · rfl
      · rename_i h1 h2
        simp [h1, h2, Action.setsFlag] at h
  post_quiet := by intro f _ hf; simp [demoParams] at hf
  enum_all := by intro ir att y hy; simpa [demoParams] using hy

/-- A history on one walker: first call with handler `7` registered, then handler `8` is added and
the IR is re-armed; `8` hears the second call only, `7` both. -/
example : (history (demoParams none) 50 { registered := [7] } 1
    [{ edits := [], prep := fun n => (n, [0, 1]) },
     { edits := [.add 8], prep := fun _ => (1, [1]) }]).map
    (fun r => (view 7 r.1.delivered, view 8 r.1.delivered, r.2.2.map (·.ret))) =
    some ([.removed 0, .modified 1, .modified 1], [.modified 1], [true, true]) := by decide

/-- the erased op leaves the worklist even when the same call re-queues it as an operand definer -/
example : abs (exec true { wl := pushAll {} [3, 2, 1] } (.erase 2 [] [2, 3])).wl = [1, 3] := by decide

end Xdsl.RewriteDriver
