import XdslModel.PhysReg
import XdslProofs.C19
/-!
# C19 — physical identity of registers

"no two simultaneously live values hold the same PHYSICAL register": the IR names registers through
typed names of several widths (`rax`/`eax`/`ax`/`al`, `xmm3`/`ymm3`/`zmm3`, `t0`/`x5`); the validator
and the allocator models work on `PhysReg.phys`, the number of the register of the machine.
-/
namespace Xdsl.PhysReg
open Xdsl.RegMachine Xdsl.RegAlloc

/-- views of different width of one register are one physical register (`zmm3` = `ymm3` = `xmm3`,
`rax` = `eax` = `ax` = `al`) -/
theorem phys_width_irrelevant (f : File) (w w' i : Nat) (b : Bool) :
    phys ⟨f, w, i, b⟩ = phys ⟨f, w', i, b⟩ := rfl

/-- existing names: hardware index within the file, infinite numbers below the gap between the ranges -/
theorem wf_bound (n : Name) (h : wf n = true) :
    (n.inf = true → n.idx < 500) ∧ (n.inf = false → n.idx < size n.file) := by
  obtain ⟨f, w, i, b⟩ := n
  cases b <;> simp [wf] at h ⊢ <;> exact h

/-- the protocol number identifies the register of the machine: two existing names have the same number
iff they agree on file, index and finite / infinite — i.e. iff they are views of one register -/
theorem phys_eq_iff (n m : Name) (hn : wf n = true) (hm : wf m = true) :
    phys n = phys m ↔ (n.file = m.file ∧ n.idx = m.idx ∧ n.inf = m.inf) := by
  have hn' := wf_bound n hn
  have hm' := wf_bound m hm
  obtain ⟨nf, nw, ni, nb⟩ := n
  obtain ⟨mf, mw, mi, mb⟩ := m
  cases nb <;> cases mb <;> cases nf <;> cases mf <;>
    simp [phys, size, base, infBase] at hn' hm' ⊢ <;> omega

/-- what `RegisterStack` needs of `register_pool_key` / `index`: the key (pool, index) under which the
stack keeps a name determines the physical register and is determined by it.  (A register type that
gets a pool of its own although it is a view of another type's registers — `zmmN` apart from `ymmN` —
breaks the direction `→`: one register is then available twice.) -/
theorem pool_key_iff_phys (n m : Name) (hn : wf n = true) (hm : wf m = true) :
    (poolKey n = poolKey m ∧ poolIndex n = poolIndex m) ↔ phys n = phys m := by
  rw [phys_eq_iff n m hn hm]
  obtain ⟨nf, nw, ni, nb⟩ := n
  obtain ⟨mf, mw, mi, mb⟩ := m
  cases nb <;> cases mb <;> simp [poolKey, poolIndex] <;> omega

/-- `validator_sound` / `no_shared_register` for an allocation given by NAMES: if the validator accepts
the physical registers of the names then (a) the register machine indexed by physical registers returns
the SSA results for every semantics, and (b) at every program point two different live values are never
views of one register — whatever the widths of their names (`%a : zmm1` and `%b : ymm1` clash) — unless
both sit in the hard-wired zero register. -/
theorem validator_sound_names (z : Bool) (nm : ValId → Name) (p : Prog)
    (h : interferes z (fun v => phys (nm v)) p = false) :
    (∀ (f : Sem) (inputs : List Word) (rf0 : Reg → Word), inputs.length = p.args.length →
      execRegs z (fun v => phys (nm v)) f p inputs rf0 = execSSA f p inputs)
    ∧ ∀ (pre os : List Op), p.ops = pre ++ os →
        ∀ v ∈ liveBefore os p.rets, ∀ w ∈ liveBefore os p.rets, v ≠ w →
          (nm v).file = (nm w).file → (nm v).idx = (nm w).idx → (nm v).inf = (nm w).inf →
          (z = true ∧ phys (nm v) = 0) := by
  refine ⟨validator_sound z _ p h, ?_⟩
  intro pre os hs v hv w hw hne hf hi hb
  refine no_shared_register z _ p h pre os hs v hv w hw hne ?_
  simp [phys, hf, hi, hb]

/-- non-vacuity: `zmm1` and `ymm1` live together are rejected, `zmm1` and `ymm2` accepted -/
example : interferes false (fun v => phys ([⟨.x86V, 512, 1, false⟩, ⟨.x86V, 256, 1, false⟩].getD v ⟨.x86G, 64, 7, false⟩))
    ⟨[], [⟨0, 3, 0, [], [0], []⟩, ⟨0, 3, 0, [], [1], []⟩], [0, 1]⟩ = true := by decide

example : interferes false (fun v => phys ([⟨.x86V, 512, 1, false⟩, ⟨.x86V, 256, 2, false⟩].getD v ⟨.x86G, 64, 7, false⟩))
    ⟨[], [⟨0, 3, 0, [], [0], []⟩, ⟨0, 3, 0, [], [1], []⟩], [0, 1]⟩ = false := by decide

end Xdsl.PhysReg
