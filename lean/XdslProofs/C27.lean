import XdslProofs.Lemmas.PDLMatch
import XdslProofs.Lemmas.PDLComplete
import XdslProofs.Lemmas.PDLApply
/-!
# C27 — PDL patterns act the same interpreted or compiled to pdl_interp  (PARTIAL claim)

Property: "Applying a PDL rewrite pattern directly and applying the matcher and rewriter that the
PDL-to-pdl_interp conversion produces for the same pattern to the same payload IR yields equivalent IR."

What is proved here is about the SPECIFICATION both xDSL paths are tested against (`XdslModel/PDL.lean`):
the denotation `matchRoot : Pattern → IR → OpId → Option Binding` of a single-root PDL pattern and the rewrite
`applyRw`.  Neither `interpreters/pdl.py`, nor the predicate-tree compiler `convert_pdl_to_pdl_interp`, nor the
`pdl_interp` interpreter is modelled; their agreement with this specification (and hence with each other) is
established per run by the harness on generated and corpus (pattern, payload) pairs — that half of the property
is tested, not proved.

`Holds p ir b` (Lemmas/PDLMatch.lean) is the declarative reading of a pattern: every bound `pdl.type`,
`pdl.attribute`, `pdl.operand` and `pdl.operation` node satisfies all of its constraints under `b`
(name, attribute presence/value/type, operand count and identity, defining operation and result index of
`pdl.result` operands, result count and types, constant types, and one entity per node).
-/
namespace Xdsl.PDL
open Xdsl

/-- **match_sound** ("the compiled matcher accepts exactly the operations the pattern describes", ⊆ half on the
specification): a binding returned for a candidate root instantiates every constraint of the pattern DAG, with
the root bound to the candidate. -/
theorem match_sound {p : Pattern} {ir : IR} {o : OpId} {b : Binding} (h : matchRoot p ir o = some b) :
    Holds p ir b ∧ AL.get b.ops p.root = some o :=
  matchRoot_spec h

/-- **match_complete** (⊇ half, for every DAG-shaped pattern — shared operands, types, attributes and operations
included — whose `pdl.result` operands refer to earlier operations, as SSA form guarantees): if any binding
instantiates the pattern with the root at `o`, the matcher succeeds and returns a sub-binding of it. -/
theorem match_complete {p : Pattern} {ir : IR} {B : Binding} {o : OpId} (hwf : WFPat p) (hne : p.ops ≠ [])
    (hB : Holds p ir B) (ho : AL.get B.ops p.root = some o) :
    ∃ b, matchRoot p ir o = some b ∧ Le b B :=
  matchRoot_complete hwf hne hB ho

/-- The matcher decides instantiability of the pattern at an operation. -/
theorem match_iff {p : Pattern} {ir : IR} {o : OpId} (hwf : WFPat p) (hne : p.ops ≠ []) :
    (matchRoot p ir o).isSome = true ↔ ∃ B, Holds p ir B ∧ AL.get B.ops p.root = some o := by
  constructor
  · intro h
    cases hm : matchRoot p ir o with
    | none => rw [hm] at h; cases h
    | some b => exact ⟨b, match_sound hm⟩
  · rintro ⟨B, hB, ho⟩
    obtain ⟨b, hb, _⟩ := match_complete hwf hne hB ho
    rw [hb]; rfl

/-- The instantiation is unique where the matcher binds: any two instantiating bindings with the same root agree
with the matcher's binding (so "which entities the rewrite sees" does not depend on the matching strategy — the
reason an interpreter and a predicate tree may legitimately explore the pattern in different orders). -/
theorem instantiation_unique {p : Pattern} {ir : IR} {B B' : Binding} {o : OpId} (hwf : WFPat p) (hne : p.ops ≠ [])
    (hB : Holds p ir B) (ho : AL.get B.ops p.root = some o)
    (hB' : Holds p ir B') (ho' : AL.get B'.ops p.root = some o) :
    ∃ b, matchRoot p ir o = some b ∧ Le b B ∧ Le b B' := by
  obtain ⟨b, hb, hle⟩ := match_complete hwf hne hB ho
  obtain ⟨b', hb', hle'⟩ := match_complete hwf hne hB' ho'
  rw [hb] at hb'
  cases hb'
  exact ⟨b, hb, hle, hle'⟩

/-- **apply_wf**: executing a rewrite section (create / replace with values / replace with operation / erase,
in any number and order, on root and non-root operations) keeps the payload free of dangling uses; the block
arguments are untouched.  Holds for every binding, because the model checks availability locally where a value
is used and refuses to erase an operation that still has uses (as `PatternRewriter.erase` does). -/
theorem apply_wf {rw : List Action} {ir ir' : IR} {b : Binding} {root : OpId}
    (hc : ir.closed = true) (h : applyRw rw ir b root = some ir') : ir'.closed = true := by
  unfold applyRw at h
  cases hs : steps root b { ir := ir, created := [] } rw with
  | none => rw [hs] at h; cases h
  | some st =>
    rw [hs] at h
    cases h
    exact (closed_iff _).2 (closed_steps rw hs ((closed_iff ir).1 hc))

/-- one application of a pattern at an operation either leaves the payload alone (no match / refused rewrite) or
produces a payload without dangling uses -/
theorem rewriteAt_wf {p : Pattern} {rw : List Action} {ir ir' : IR} {o : OpId}
    (hc : ir.closed = true) (h : rewriteAt p rw ir o = .done ir') : ir'.closed = true := by
  unfold rewriteAt at h
  split at h
  · cases h
  · split at h
    · cases h
    · rename_i b _ ir'' happ
      cases h
      exact apply_wf hc happ

/-- a pattern whose root does not match rewrites nothing -/
theorem rewriteAt_nomatch {p : Pattern} {rw : List Action} {ir : IR} {o : OpId} :
    rewriteAt p rw ir o = .nomatch ↔ matchRoot p ir o = none := by
  unfold rewriteAt
  constructor
  · intro h
    split at h
    · assumption
    · split at h <;> cases h
  · intro h
    simp [h]

/-! ## non-vacuity: the corpus pattern `x + 0 → x` (tests/filecheck/transforms/apply-pdl/apply_pdl_add_zero.mlir)

names: 0 = arith.constant, 1 = arith.addi, 2 = func.return; attribute name 0 = "value"; type 0 = i32;
attribute values 0 = `0 : i32`, 1 = `4 : i32`. -/

def exPattern : Pattern :=
  { types := [none],
    attrs := [{ val := some { val := 0, ty := some 0 }, ty := none }],
    vals := [none],
    ops := [{ name := some 0, attrs := [(0, 0)], operands := [], results := [0] },
            { name := some 1, attrs := [], operands := [.val 0, .res 0 0], results := [0] }] }

def exRewrite : List Action := [.replaceVals (.m 1) [.cap 0]]

def exIR : IR :=
  { argTys := [],
    ops := [{ id := 10, name := 0, operands := [], attrs := [(0, { val := 1, ty := some 0 })], resTys := [0] },
            { id := 11, name := 0, operands := [], attrs := [(0, { val := 0, ty := some 0 })], resTys := [0] },
            { id := 12, name := 1, operands := [.res 10 0, .res 11 0], attrs := [], resTys := [0] },
            { id := 13, name := 2, operands := [.res 12 0], attrs := [], resTys := [] }] }

example : WFPat exPattern := by
  intro i pat h j idx hm
  match i, h with
  | 0, h => simp [exPattern] at h; subst h; simp at hm
  | 1, h => simp [exPattern] at h; subst h; simp at hm; omega
  | n + 2, h => simp [exPattern] at h

example : exIR.closed = true := by decide

/-- the addition matches with `x ↦ %0`, the constant-zero operand's defining op bound, the type bound to i32 -/
example : matchRoot exPattern exIR 12 =
    some { ops := [(1, 12), (0, 11)], vals := [(0, .res 10 0)], attrs := [(0, { val := 0, ty := some 0 })], tys := [(0, 0)] } := by
  decide

/-- the constants and the return do not match -/
example : matchRoot exPattern exIR 10 = none ∧ matchRoot exPattern exIR 11 = none ∧ matchRoot exPattern exIR 13 = none := by
  decide

/-- the rewrite replaces the use of the sum by `%0` and erases the addition -/
example : rewriteAt exPattern exRewrite exIR 12 = .done
    { argTys := [],
      ops := [{ id := 10, name := 0, operands := [], attrs := [(0, { val := 1, ty := some 0 })], resTys := [0] },
              { id := 11, name := 0, operands := [], attrs := [(0, { val := 0, ty := some 0 })], resTys := [0] },
              { id := 13, name := 2, operands := [.res 10 0], attrs := [], resTys := [] }] } := by
  decide

/-- erasing the root while it is still used is refused (as `PatternRewriter.erase` raises) -/
example : rewriteAt exPattern [.erase (.m 1)] exIR 12 = .error := by decide

/-- near miss: the second operand is `4 : i32`, not zero -/
example : matchRoot exPattern
    { exIR with ops := exIR.ops.map fun x => if x.id = 12 then { x with operands := [.res 11 0, .res 10 0] } else x } 12 = none := by
  decide

/-! ## the header of `pdl.pattern` and attribute/property shadowing (added for C27-F)

"…for the same pattern…": a single pattern is applied; its `benefit` (priority among SEVERAL patterns; 0 = lowest, not
"never applies") and its symbol name (a label, after which the conversion names the rewriter function) are not part
of what the pattern denotes.  In the specification this holds by construction — `PatternOp.matchRoot/rewriteAt/driveW`
have no access to the header — and both real paths are run under generated headers (benefit 0, 16-bit boundary values,
names `@matcher`, `@rewriters`, `@pdl_generated_rewriter`, …) against this header-blind denotation. -/

/-- **header_irrelevant**: match decision and binding, the single rewrite, and greedy application under any walk order
of a `pdl.pattern` op are the same for every benefit and every symbol name. -/
theorem header_irrelevant (h h' : Header) (p : Pattern) (rw : List Action) (ir : IR) :
    (∀ o, (PatternOp.mk h p rw).matchRoot ir o = (PatternOp.mk h' p rw).matchRoot ir o) ∧
    (∀ o, (PatternOp.mk h p rw).rewriteAt ir o = (PatternOp.mk h' p rw).rewriteAt ir o) ∧
    (∀ rev fuel, (PatternOp.mk h p rw).driveW rev fuel ir = (PatternOp.mk h' p rw).driveW rev fuel ir) :=
  ⟨fun _ => rfl, fun _ => rfl, fun _ _ => rfl⟩

/-- non-vacuity: `x + 0 → x` declared with `benefit(0)` and named `@matcher` rewrites the addition like the corpus
pattern (`benefit(2)`, `@x_plus_zero`) does -/
example : (PatternOp.mk { benefit := 0, sym := some 7 } exPattern exRewrite).rewriteAt exIR 12 =
    rewriteAt exPattern exRewrite exIR 12 ∧ rewriteAt exPattern exRewrite exIR 12 ≠ .nomatch :=
  ⟨rfl, by decide⟩

/-- **property_shadows_attribute**: the named attribute of an operation is its PROPERTY when it has a property and an
attribute of the same name (`Operation.get_attr_or_prop`, MLIR's `Operation::getAttr`; the payload encoding lists the
properties before the attributes): the shadowed attribute's value plays no part. -/
theorem property_shadows_attribute (x : Op) (n : Nat) (pv : Attr) (rest : List (Nat × Attr)) (h : x.attrs = (n, pv) :: rest) :
    x.attr n = some pv := by
  simp [Op.attr, h]

/-- the constant whose PROPERTY `value` is `0 : i32` matches although an attribute `value = 4 : i32` is present too;
the one whose property is `4 : i32` does not match although its attribute is `0 : i32` -/
example :
    (matchRoot exPattern
      { exIR with ops := exIR.ops.map fun x => if x.id = 11 then
          { x with attrs := [(0, { val := 0, ty := some 0 }), (0, { val := 1, ty := some 0 })] } else x } 12).isSome = true ∧
    matchRoot exPattern
      { exIR with ops := exIR.ops.map fun x => if x.id = 11 then
          { x with attrs := [(0, { val := 1, ty := some 0 }), (0, { val := 0, ty := some 0 })] } else x } 12 = none := by
  decide

/-! ## known finding (known_findings.json, call site ConvertPDLToPDLInterpPass):
`%t = pdl.type; %a = pdl.attribute : %t; pdl.operation "test.op" {"a" = %a}` on `"test.op"() {a = "s"}`.
The specification (and the interpreted path) reject — a string attribute has no type that could be bound to `%t` —
while the compiled matcher accepts, because `%t` carries no other constraint and no predicate inspects the null type. -/

def kfPattern : Pattern :=
  { types := [none], attrs := [{ val := none, ty := some 0 }], vals := [],
    ops := [{ name := some 0, attrs := [(0, 0)], operands := [], results := [] }] }

def kfIR : IR :=
  { argTys := [], ops := [{ id := 3, name := 0, operands := [], attrs := [(0, { val := 0, ty := none })], resTys := [] }] }

/-- the witness of the known finding: the specification does not match here (the compiled path does) -/
theorem known_untyped_attribute_counterexample : matchRoot kfPattern kfIR 3 = none := by decide

/-- … and no binding whatsoever instantiates the pattern at that operation -/
theorem known_untyped_attribute_no_instance : ¬ ∃ B, Holds kfPattern kfIR B ∧ AL.get B.ops kfPattern.root = some 3 := by
  intro h
  have hwf : WFPat kfPattern := by
    intro i pat h j idx hm
    match i, h with
    | 0, h => simp [kfPattern] at h; subst h; simp at hm
    | n + 1, h => simp [kfPattern] at h
  have := (match_iff (p := kfPattern) (ir := kfIR) (o := 3) hwf (by decide)).2 h
  rw [known_untyped_attribute_counterexample] at this
  cases this

end Xdsl.PDL
