import XdslProofs.C28
import XdslProofs.Lemmas.EGraphCosts
/-!
# C28 — the no-rule round trip, total correctness

"with no rewrite rules, creating e-classes and extracting gives back a program equivalent to the
original" — at full strength: for every well-formed SSA function `p` (plain single-result operations,
single assignment) and every input on which `p` runs, `eqsat-create-eclasses ; eqsat-add-costs ;
eqsat-extract` **succeeds** (no erase of a value that is still used, no index error, for every default
cost and cost table), its output **runs**, and returns exactly `p`'s results.

Proof structure (all in `Lemmas/`): a successful run certifies def-before-use order (`Ordered`);
`createEclasses` establishes the invariant "every class is a singleton placed after its operand and is
that operand's only user" (`CInv`, `EGraphCreate`); `addCosts` writes only valid `min_cost_index`
values (`EGraphCosts`); every iteration of the extraction loop succeeds and keeps the block ordered
(`LInv`, `EGraphExtract`); the re-ordering pass is the identity on an ordered block; ordered blocks
run (`EGraphOrd`); the values are right by `extract_sound_partial` (`C28`).
-/
namespace Xdsl.EGraph

variable {V : Type}

theorem evalNodes_bound (I : Interp V) :
    ∀ (b : List Node) (σ σ' : Env V), evalNodes I b σ = some σ' →
      ∀ x, σ' x ≠ none → σ x ≠ none ∨ x ∈ b.map (·.res) := by
  intro b
  induction b with
  | nil => intro σ σ' he x hx; simp [evalNodes] at he; subst he; exact Or.inl hx
  | cons n rest ih =>
    intro σ σ' he x hx
    simp only [evalNodes] at he
    cases hn : evalNode I σ n with
    | none => simp [hn] at he
    | some σ1 =>
      simp [hn] at he
      have hσ1 : ∃ v, σ1 = σ.set n.res v := by
        cases n with
        | op r nm k a c =>
          simp only [evalNode] at hn
          cases ha : a.mapM σ with
          | none => simp [ha] at hn
          | some vs => simp [ha] at hn; exact ⟨_, hn.symm⟩
        | cls r a m =>
          simp only [evalNode] at hn
          cases ha : a.mapM σ with
          | none => simp [ha] at hn
          | some vs =>
            cases vs with
            | nil => simp [ha] at hn
            | cons v vs => simp [ha] at hn; exact ⟨v, hn.symm⟩
      obtain ⟨v, rfl⟩ := hσ1
      rcases ih _ σ' he x hx with h | h
      · unfold Env.set at h
        split at h
        · rename_i e; exact Or.inr (by simp [e])
        · exact Or.inl h
      · exact Or.inr (by simp only [List.map_cons, List.mem_cons]; exact Or.inr h)

/-- a function that runs is in def-before-use order -/
theorem ordered_of_run (I : Interp V) {p : Prog} {env rs : List V} (hw : WF p)
    (he : evalSeq I p env = some rs) : Ordered p ∧ env.length = p.nargs := by
  unfold evalSeq at he
  split at he
  · rename_i hl
    refine ⟨?_, hl⟩
    cases hb : evalNodes I p.body (initEnv env) with
    | none => simp [hb] at he
    | some σ =>
      simp [hb] at he
      have hinit : ∀ x, initEnv env x ≠ none → x < p.nargs := by
        intro x hx
        simp only [initEnv] at hx
        rw [← hl]
        exact Nat.lt_of_not_le (fun hle => hx (List.getElem?_eq_none hle))
      refine ⟨OrdFrom.mono hinit (ordFrom_of_run I p.body _ σ hb), ?_, ?_⟩
      · intro x hx
        have hbound : σ x ≠ none := by
          intro hnone
          have : ∀ (l : List Nat) (ws : List V), l.mapM σ = some ws → x ∈ l → False := by
            intro l
            induction l with
            | nil => intro _ _ h; simp at h
            | cons y l ihl =>
              intro ws hws hmem
              rw [List.mapM_cons] at hws
              cases hy : σ y with
              | none => simp [hy] at hws
              | some w =>
                cases hl' : l.mapM σ with
                | none => simp [hy, hl'] at hws
                | some ws' =>
                  simp only [List.mem_cons] at hmem
                  rcases hmem with rfl | hmem
                  · rw [hnone] at hy; cases hy
                  · exact ihl ws' hl' hmem
          exact this p.ret rs he hx
        rcases evalNodes_bound I p.body _ σ hb x hbound with h | h
        · exact Or.inl (hinit x h)
        · exact Or.inr h
      · intro r a m hm
        have := hw.noCls _ hm
        simp [Node.isCls] at this
  · cases he

/-- **create_extract_id** — no rewrite rules: for every default cost and cost table the round trip
`create-eclasses ; add-costs ; extract` of a well-formed function succeeds, and on every input on
which the original function runs, the extracted function runs and returns the same results. -/
theorem create_extract_id [Inhabited V] (I : Interp V) {p : Prog} {env rs : List V} (d : Option Nat)
    (dict : AL String Nat) (hw : WF p) (hrun : evalSeq I p env = some rs) :
    ∃ p', extract (addCosts d dict (createEclasses p)) = some p' ∧ evalSeq I p' env = some rs := by
  obtain ⟨ho, hl⟩ := ordered_of_run I hw hrun
  obtain ⟨U, hc, hn⟩ := createEclasses_cinv hw ho
  obtain ⟨hl2, hn2⟩ := (LInv_of_CInv hc).addCosts d dict
  obtain ⟨p', hx, hop, hnp⟩ := extract_total hl2
  obtain ⟨rs', hr'⟩ := evalSeq_of_ordered I (env := env) hop (by rw [hnp, hn2, hn]; exact hl)
  refine ⟨p', hx, ?_⟩
  rw [hr', create_extract_id_partial I d dict hw hrun hx hr']

/-- the extracted function of the no-rule round trip never contains an e-class … is not claimed: with
`default = none` (no costs) classes without `min_cost_index` are left in place by design and evaluate
to their single alternative; the theorem above covers that case too. -/
example : (extract (addCosts none [] (createEclasses demoP))).map (fun p' => evalSeq demoI p' [21]) =
    some (some [42]) := by decide

example : extract (addCosts (some 1) [] (createEclasses demoP)) = some demoP := by decide

end Xdsl.EGraph
