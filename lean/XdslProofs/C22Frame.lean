import XdslProofs.Lemmas.RiscVFrame
/-!
# C22 — callee-saved registers and the stack pointer

Property clause: *"… and restores callee-saved registers and the stack pointer"*.

`prologue saved` / `epilogue saved` (XdslModel/RiscVRules.lean) are the instruction lists
`PrologueEpilogueInsertion` puts at the start of a function and before its `ret` for the clobbered
callee-saved integer registers `saved` (the harness compares them with the emitted text).
`frame_sound`: around *any* body that leaves `sp` where the prologue put it and does not change the
`saved.length` frame words, the epilogue restores `sp` and every saved register to its value at
function entry — for every entry state with a word-aligned `sp`, every list of distinct registers
other than `zero`/`sp`, every body.
-/
namespace Xdsl.RiscV

/-- **callee-saved registers and sp are restored.**  `saved`: distinct registers other than `zero`
and `sp`; entry state `s` with aligned `sp`; `body` any instruction list that, started after the
prologue, terminates in a state with the same `sp` and unchanged frame words.  Then the whole function
body `prologue ++ body ++ epilogue` terminates, `sp` and every saved register have their entry values,
and memory is what the body left. -/
theorem frame_sound (saved : List Reg) (body : List Instr) (s : St)
    (hnd : saved.Nodup) (hreg : ∀ r ∈ saved, r ≠ 0 ∧ r ≠ SP) (hn : saved.length ≤ 511)
    (hal : aligned (s.get SP) = true) :
    ∃ s1, exec (prologue saved) s = some s1 ∧
      ∀ s2, exec body s1 = some s2 → s2.get SP = s1.get SP →
        (∀ j, j < saved.length → s2.mem (slotAddr (s1.get SP) j) = s1.mem (slotAddr (s1.get SP) j)) →
        ∃ s3, exec (prologue saved ++ body ++ epilogue saved) s = some s3 ∧
          s3.get SP = s.get SP ∧ (∀ r ∈ saved, s3.get r = s.get r) ∧ s3.mem = s2.mem := by
  -- prologue
  let sA := s.set SP (s.get SP + imm32 (-((4 * saved.length : Nat) : Int)))
  have hspA : sA.get SP = s.get SP + imm32 (-((4 * saved.length : Nat) : Int)) :=
    get_set_same _ _ _ (by decide)
  have halA : aligned (sA.get SP) = true := by
    rw [hspA]
    unfold aligned at *
    rw [BitVec.toNat_add]
    unfold imm32
    rw [BitVec.toNat_ofInt]
    simp at hal ⊢
    omega
  obtain ⟨s1, he1, hr1, hm1, _⟩ := stores_spec saved 0 sA halA (by omega)
  have hget1 : ∀ x, s1.get x = sA.get x := fun x => get_of_regs hr1 x
  have hpro : exec (prologue saved) s = some s1 := by
    simp only [prologue, exec_cons, exec1, aluI, Option.bind]
    exact he1
  refine ⟨s1, hpro, ?_⟩
  intro s2 hb hsp2 hfrm
  -- epilogue
  have hsp2' : s2.get SP = sA.get SP := by rw [hsp2, hget1]
  have hal2 : aligned (s2.get SP) = true := by rw [hsp2']; exact halA
  obtain ⟨u', hel, hmu, hv, hfr⟩ := loads_spec saved 0 s2 (fun r => sA.get r) hal2 hnd hreg (by
    intro r j hj
    have hb' := (slots_bound hj).2.1
    rw [hsp2, hfrm j (by omega), hget1]
    exact hm1 r j hj)
  have hspu : u'.get SP = sA.get SP := by
    rw [hfr SP (fun h => (hreg SP h).2 rfl), hsp2']
  refine ⟨u'.set SP (u'.get SP + imm32 ((4 * saved.length : Nat) : Int)), ?_, ?_, ?_, ?_⟩
  · rw [exec_append, exec_append, hpro]
    simp only [Option.bind, hb, epilogue, exec_append, hel, exec_cons, exec1, aluI, exec_nil]
  · rw [get_set_same _ _ _ (by decide), hspu, hspA, BitVec.add_assoc,
      imm32_neg_add, BitVec.add_zero]
  · intro r hr
    have hr' := hreg r hr
    rw [get_set_ne _ _ _ _ hr'.2, hv r hr]
    exact get_set_ne _ _ _ _ hr'.2
  · simp [hmu]

/-! ## the program-counter machine runs straight-line code as `exec`

The rule theorems (`XdslProofs/C22.lean`) and `frame_sound` speak about `exec`; the emitted
functions are run by `run` (labels, branches, `ret`).  `run_straight` connects them: on any segment of
encodable non-control instructions, `run` advances exactly like `exec`. -/

theorem run_straight (is : List Instr) : ∀ (pre post : List Instr) (s s' : St) (fuel n : Nat),
    (∀ i ∈ is, i.straight = true ∧ i.encodable = true) → exec is s = some s' →
    run (pre ++ is ++ post).toArray (fuel + is.length) n pre.length s =
      run (pre ++ is ++ post).toArray fuel (n + is.length) (pre.length + is.length) s' := by
  induction is with
  | nil =>
    intro pre post s s' fuel n _ he
    simp [exec] at he
    subst he
    simp
  | cons i is ih =>
    intro pre post s s' fuel n hst he
    rw [exec_cons] at he
    cases h1 : exec1 i s with
    | none => simp [h1, Option.bind] at he
    | some s1 =>
      simp only [h1, Option.bind] at he
      have hi := hst i List.mem_cons_self
      have hidx : (pre ++ (i :: is) ++ post).toArray[pre.length]? = some i := by
        rw [List.append_assoc]; simp
      have hstep := step_straight _ pre.length s i hidx hi.1 hi.2
      rw [h1] at hstep
      simp only [Option.map] at hstep
      have hfuel : fuel + (i :: is).length = (fuel + is.length) + 1 := by simp; omega
      rw [hfuel]
      conv => lhs; unfold run
      simp only [hstep]
      have hl : pre ++ (i :: is) ++ post = (pre ++ [i]) ++ is ++ post := by simp
      rw [hl]
      have := ih (pre ++ [i]) post s1 s' fuel (n + 1) (fun x hx => hst x (List.mem_cons_of_mem _ hx)) he
      simp only [List.length_append, List.length_cons, List.length_nil] at this
      rw [this]
      congr 1 <;> simp <;> omega

/-- a function without control flow, `body; ret`, called with `ra = HALT`: the machine halts in the
state `exec body` computes (provided the body leaves `ra` alone) -/
theorem run_function (body : List Instr) (s s' : St)
    (hst : ∀ i ∈ body, i.straight = true ∧ i.encodable = true) (he : exec body s = some s')
    (hra : s'.get RA = BitVec.ofNat 32 HALT) (fuel : Nat) :
    ∃ n, run (body ++ [Instr.ret]).toArray (fuel + 1 + body.length) 0 0 s = Outcome.halted s' n := by
  have h := run_straight body [] [Instr.ret] s s' (fuel + 1) 0 hst he
  simp only [List.nil_append, List.length_nil, Nat.zero_add] at h
  rw [h]
  refine ⟨body.length + 1, ?_⟩
  unfold run
  have hidx : (body ++ [Instr.ret]).toArray[body.length]? = some .ret := by simp
  simp [step, hidx, Instr.encodable, hra, HALT]

/-! ## the listed allocator finding, on the machine -/

/-- `%n = add %acc, %acc2; %m = mul %acc, %n; yield %n, %m` with `%n` tied to the register of `%acc`
(what `riscv_scf.for` allocation does): the emitted `add t0,t0,t1; mul t1,t0,t0` computes another
`%m` than the SSA program (here with separate registers 40, 41 for `%n`, `%m`) -/
theorem loop_carried_sharing_counterexample :
    let s := (st1.set 5 1#32).set 6 1#32
    (exec [.r .add 5 5 6, .r .mul 6 5 5] s).map (·.get 6) ≠
    (exec [.r .add 40 5 6, .r .mul 41 5 40] s).map (·.get 41) := by decide

end Xdsl.RiscV
