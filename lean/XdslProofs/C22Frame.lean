import XdslProofs.Lemmas.RiscVFrame
import XdslProofs.C22FrameWalk
/-!
# C22 — callee-saved registers and the stack pointer

Property clause: *"… and restores callee-saved registers and the stack pointer"*.

`prologue saved` / `epilogue saved` (XdslModel/RiscVRules.lean) are the instruction lists
`PrologueEpilogueInsertion` puts at the start of a function and before its `ret` for the clobbered
callee-saved integer registers `saved` (the harness compares them with the emitted text).
`frame_sound`: around *any* body that leaves `sp` where the prologue put it and does not change the
`saved.length` frame words, the epilogue restores `sp` and every saved register to its value at
function entry — for every entry state with a word-aligned `sp`, every list of distinct registers
other than `zero`/`sp`, every body.
-/
namespace Xdsl.RiscV

/-- **callee-saved registers and sp are restored.**  `saved`: distinct registers other than `zero`
and `sp`; entry state `s` with aligned `sp`; `body` any instruction list that, started after the
prologue, terminates in a state with the same `sp` and unchanged frame words.  Then the whole function
body `prologue ++ body ++ epilogue` terminates, `sp` and every saved register have their entry values,
and memory is what the body left. -/
theorem frame_sound (saved : List Reg) (body : List Instr) (s : St)
    (hnd : saved.Nodup) (hreg : ∀ r ∈ saved, r ≠ 0 ∧ r ≠ SP) (hn : saved.length ≤ 511)
    (hal : aligned (s.get SP) = true) :
    ∃ s1, exec (prologue saved) s = some s1 ∧
      ∀ s2, exec body s1 = some s2 → s2.get SP = s1.get SP →
        (∀ j, j < saved.length → s2.mem (slotAddr (s1.get SP) j) = s1.mem (slotAddr (s1.get SP) j)) →
        ∃ s3, exec (prologue saved ++ body ++ epilogue saved) s = some s3 ∧
          s3.get SP = s.get SP ∧ (∀ r ∈ saved, s3.get r = s.get r) ∧ s3.mem = s2.mem := by
  -- prologue
  let sA := s.set SP (s.get SP + imm32 (-((4 * saved.length : Nat) : Int)))
  have hspA : sA.get SP = s.get SP + imm32 (-((4 * saved.length : Nat) : Int)) :=
    get_set_same _ _ _ (by decide)
  have halA : aligned (sA.get SP) = true := by
    rw [hspA]
    unfold aligned at *
    rw [BitVec.toNat_add]
    unfold imm32
    rw [BitVec.toNat_ofInt]
    simp at hal ⊢
    omega
  obtain ⟨s1, he1, hr1, hm1, _⟩ := stores_spec saved 0 sA halA (by omega)
  have hget1 : ∀ x, s1.get x = sA.get x := fun x => get_of_regs hr1 x
  have hpro : exec (prologue saved) s = some s1 := by
    simp only [prologue, exec_cons, exec1, aluI, Option.bind]
    exact he1
  refine ⟨s1, hpro, ?_⟩
  intro s2 hb hsp2 hfrm
  -- epilogue
  have hsp2' : s2.get SP = sA.get SP := by rw [hsp2, hget1]
  have hal2 : aligned (s2.get SP) = true := by rw [hsp2']; exact halA
  obtain ⟨u', hel, hmu, hv, hfr⟩ := loads_spec saved 0 s2 (fun r => sA.get r) hal2 hnd hreg (by
    intro r j hj
    have hb' := (slots_bound hj).2.1
    rw [hsp2, hfrm j (by omega), hget1]
    exact hm1 r j hj)
  have hspu : u'.get SP = sA.get SP := by
    rw [hfr SP (fun h => (hreg SP h).2 rfl), hsp2']
  refine ⟨u'.set SP (u'.get SP + imm32 ((4 * saved.length : Nat) : Int)), ?_, ?_, ?_, ?_⟩
  · rw [exec_append, exec_append, hpro]
    simp only [Option.bind, hb, epilogue, exec_append, hel, exec_cons, exec1, aluI, exec_nil]
  · rw [get_set_same _ _ _ (by decide), hspu, hspA, BitVec.add_assoc,
      imm32_neg_add, BitVec.add_zero]
  · intro r hr
    have hr' := hreg r hr
    rw [get_set_ne _ _ _ _ hr'.2, hv r hr]
    exact get_set_ne _ _ _ _ hr'.2
  · simp [hmu]

/-! ## every callee-saved register, for the list the pass computes

`frame_sound` is about the registers in `saved`.  The pass computes `saved` from the function
(`FrameWalk.usedCalleeSaved`, XdslProofs/C22FrameWalk.lean).  For a straight-line body the two fit together:
a callee-saved register that is not in the list is not written by the body at all. -/

/-- the register a (non-control) instruction writes -/
def Instr.writes : Instr → Option Reg
  | .r _ rd _ _ => some rd
  | .i _ rd _ _ => some rd
  | .sh _ rd _ _ => some rd
  | .li rd _ => some rd
  | .mv rd _ => some rd
  | .lw rd _ _ => some rd
  | _ => none

theorem exec1_preserves {i : Instr} {s s' : St} {r : Reg} (h : exec1 i s = some s')
    (hw : i.writes ≠ some r) : s'.get r = s.get r := by
  cases i with
  | r op rd a b =>
    simp only [exec1, Option.some.injEq] at h; subst h
    exact get_set_ne _ _ _ _ (fun e => hw (by simp [Instr.writes, e]))
  | i op rd a imm =>
    simp only [exec1, Option.some.injEq] at h; subst h
    exact get_set_ne _ _ _ _ (fun e => hw (by simp [Instr.writes, e]))
  | sh op rd a n =>
    simp only [exec1, Option.some.injEq] at h; subst h
    exact get_set_ne _ _ _ _ (fun e => hw (by simp [Instr.writes, e]))
  | li rd imm =>
    simp only [exec1, Option.some.injEq] at h; subst h
    exact get_set_ne _ _ _ _ (fun e => hw (by simp [Instr.writes, e]))
  | mv rd a =>
    simp only [exec1, Option.some.injEq] at h; subst h
    exact get_set_ne _ _ _ _ (fun e => hw (by simp [Instr.writes, e]))
  | lw rd base off =>
    simp only [exec1] at h
    split at h
    · simp only [Option.some.injEq] at h; subst h
      exact get_set_ne _ _ _ _ (fun e => hw (by simp [Instr.writes, e]))
    · simp at h
  | sw v base off =>
    simp only [exec1] at h
    split at h
    · simp only [Option.some.injEq] at h; subst h; rfl
    · simp at h
  | br op a b t => simp only [exec1, Option.some.injEq] at h; subst h; rfl
  | j t => simp only [exec1, Option.some.injEq] at h; subst h; rfl
  | jal t => simp only [exec1, Option.some.injEq] at h; subst h; rfl
  | ret => simp only [exec1, Option.some.injEq] at h; subst h; rfl
  | nop => simp only [exec1, Option.some.injEq] at h; subst h; rfl

/-- a register no instruction of the list writes keeps its value -/
theorem exec_preserves (r : Reg) : ∀ (is : List Instr) (s s' : St), exec is s = some s' →
    (∀ i ∈ is, i.writes ≠ some r) → s'.get r = s.get r := by
  intro is
  induction is with
  | nil => intro s s' h _; simp [exec] at h; subst h; rfl
  | cons i is ih =>
    intro s s' h hw
    rw [exec_cons] at h
    cases h1 : exec1 i s with
    | none => simp [h1, Option.bind] at h
    | some s1 =>
      simp only [h1, Option.bind] at h
      rw [ih s1 s' h (fun x hx => hw x (List.mem_cons_of_mem _ hx)),
        exec1_preserves h1 (hw i List.mem_cons_self)]

/-- the body as `func.walk()` sees it: one op per instruction, its result register -/
def nodeOf (i : Instr) : FrameWalk.Node := .op false i.writes.toList []

/-- `used_callee_preserved_registers` of a straight-line body -/
def savedOf (body : List Instr) : List Reg := FrameWalk.usedCalleeSaved (body.map nodeOf)

theorem writtenIn_nodeOf {body : List Instr} {i : Instr} {r : Reg} (hi : i ∈ body) (hw : i.writes = some r) :
    FrameWalk.WrittenIn (body.map nodeOf) r := by
  induction body with
  | nil => simp at hi
  | cons x xs ih =>
    rcases List.mem_cons.mp hi with h | h
    · subst h
      exact .here (by simp [hw])
    · exact .later (ih h)

theorem savedOf_complete {body : List Instr} {i : Instr} {r : Reg} (hi : i ∈ body) (hw : i.writes = some r)
    (hr : FrameWalk.isCalleeSaved r = true) : r ∈ savedOf body :=
  (FrameWalk.usedCalleeSaved_spec _ _).mpr ⟨writtenIn_nodeOf hi hw, hr⟩

theorem isCalleeSaved_ne {r : Reg} (h : FrameWalk.isCalleeSaved r = true) : r ≠ 0 ∧ r ≠ SP := by
  constructor
  · rintro rfl; revert h; decide
  · rintro rfl; revert h; decide

/-- the 24 callee-saved register codes -/
def allCalleeSaved : List Nat := FrameWalk.sRegs ++ FrameWalk.sRegs.map (· + 100)

theorem isCalleeSaved_mem {r : Nat} (h : FrameWalk.isCalleeSaved r = true) : r ∈ allCalleeSaved := by
  unfold FrameWalk.isCalleeSaved at h
  rcases (Bool.or_eq_true _ _).mp h with h | h
  · have h' : r ∈ FrameWalk.sRegs := by simpa using h
    exact List.mem_append.mpr (.inl h')
  · obtain ⟨h1, h2⟩ := (Bool.and_eq_true _ _).mp h
    have h100 : 100 ≤ r := of_decide_eq_true h1
    have h2' : r - 100 ∈ FrameWalk.sRegs := by simpa using h2
    exact List.mem_append.mpr (.inr (List.mem_map.mpr ⟨r - 100, h2', by omega⟩))

theorem savedOf_length (body : List Instr) : (savedOf body).length ≤ 511 := by
  have h := List.Nodup.length_le_of_subset (FrameWalk.usedCalleeSaved_nodup (body.map nodeOf))
    (l₂ := allCalleeSaved) (fun r hr => isCalleeSaved_mem ((FrameWalk.usedCalleeSaved_spec _ _).mp hr).2)
  have : allCalleeSaved.length = 24 := by decide
  unfold savedOf
  omega

theorem frame_writes {saved : List Reg} : ∀ (k : Nat) (i : Instr), i ∈ frameStores saved k → i.writes = none := by
  induction saved with
  | nil => intro k i h; simp [frameStores] at h
  | cons x xs ih =>
    intro k i h
    simp only [frameStores, List.mem_cons] at h
    rcases h with h | h
    · subst h; rfl
    · exact ih _ i h

theorem frameLoads_writes {saved : List Reg} : ∀ (k : Nat) (i : Instr) (r : Reg), i ∈ frameLoads saved k →
    i.writes = some r → r ∈ saved := by
  induction saved with
  | nil => intro k i r h; simp [frameLoads] at h
  | cons x xs ih =>
    intro k i r h hw
    simp only [frameLoads, List.mem_cons] at h
    rcases h with h | h
    · subst h
      simp [Instr.writes] at hw
      simp [hw]
    · exact List.mem_cons_of_mem _ (ih _ i r h hw)

/-- **every callee-saved register and sp are restored** (straight-line body, the list the pass computes).
For every instruction list `body`, every entry state with aligned `sp`: if the body, started after the prologue
for `savedOf body`, terminates with the same `sp` and unchanged frame words, then the whole function body
terminates with `sp` and ALL of s0–s11 at their entry values — the saved ones through the frame, the others
because nothing writes them.  (Bodies with loops: validated by execution, stage-wise and on the emitted code.) -/
theorem frame_restores_every_callee_saved (body : List Instr) (s : St) (hal : aligned (s.get SP) = true) :
    ∃ s1, exec (prologue (savedOf body)) s = some s1 ∧
      ∀ s2, exec body s1 = some s2 → s2.get SP = s1.get SP →
        (∀ j, j < (savedOf body).length →
          s2.mem (slotAddr (s1.get SP) j) = s1.mem (slotAddr (s1.get SP) j)) →
        ∃ s3, exec (prologue (savedOf body) ++ body ++ epilogue (savedOf body)) s = some s3 ∧
          s3.get SP = s.get SP ∧ ∀ r ∈ FrameWalk.sRegs, s3.get r = s.get r := by
  have hnd : (savedOf body).Nodup := FrameWalk.usedCalleeSaved_nodup _
  have hreg : ∀ r ∈ savedOf body, r ≠ 0 ∧ r ≠ SP := fun r hr =>
    isCalleeSaved_ne ((FrameWalk.usedCalleeSaved_spec _ _).mp hr).2
  obtain ⟨s1, hp, hrest⟩ := frame_sound (savedOf body) body s hnd hreg (savedOf_length body) hal
  refine ⟨s1, hp, ?_⟩
  intro s2 hb hsp hfr
  obtain ⟨s3, he, hsp3, hsaved, _⟩ := hrest s2 hb hsp hfr
  refine ⟨s3, he, hsp3, ?_⟩
  intro r hr
  by_cases hin : r ∈ savedOf body
  · exact hsaved r hin
  · -- not saved: no instruction of prologue ++ body ++ epilogue writes r
    have hcs : FrameWalk.isCalleeSaved r = true := by
      simp [FrameWalk.isCalleeSaved, hr]
    have hne := isCalleeSaved_ne hcs
    apply exec_preserves r _ s s3 he
    intro i hi hw
    simp only [List.mem_append] at hi
    rcases hi with (hi | hi) | hi
    · -- prologue: addi sp + stores
      simp only [prologue, List.mem_cons] at hi
      rcases hi with hi | hi
      · subst hi; simp [Instr.writes] at hw; exact hne.2 hw.symm
      · rw [frame_writes 0 i hi] at hw; simp at hw
    · exact hin (savedOf_complete hi hw hcs)
    · simp only [epilogue, List.mem_append, List.mem_singleton] at hi
      rcases hi with hi | hi
      · exact hin (frameLoads_writes 0 i r hi hw)
      · subst hi; simp [Instr.writes] at hw; exact hne.2 hw.symm

/-! ## the program-counter machine runs straight-line code as `exec`

The rule theorems (`XdslProofs/C22.lean`) and `frame_sound` speak about `exec`; the emitted
functions are run by `run` (labels, branches, `ret`).  `run_straight` connects them: on any segment of
encodable non-control instructions, `run` advances exactly like `exec`. -/

theorem run_straight (is : List Instr) : ∀ (pre post : List Instr) (s s' : St) (fuel n : Nat),
    (∀ i ∈ is, i.straight = true ∧ i.encodable = true) → exec is s = some s' →
    run (pre ++ is ++ post).toArray (fuel + is.length) n pre.length s =
      run (pre ++ is ++ post).toArray fuel (n + is.length) (pre.length + is.length) s' := by
  induction is with
  | nil =>
    intro pre post s s' fuel n _ he
    simp [exec] at he
    subst he
    simp
  | cons i is ih =>
    intro pre post s s' fuel n hst he
    rw [exec_cons] at he
    cases h1 : exec1 i s with
    | none => simp [h1, Option.bind] at he
    | some s1 =>
      simp only [h1, Option.bind] at he
      have hi := hst i List.mem_cons_self
      have hidx : (pre ++ (i :: is) ++ post).toArray[pre.length]? = some i := by
        rw [List.append_assoc]; simp
      have hstep := step_straight _ pre.length s i hidx hi.1 hi.2
      rw [h1] at hstep
      simp only [Option.map] at hstep
      have hfuel : fuel + (i :: is).length = (fuel + is.length) + 1 := by simp; omega
      rw [hfuel]
      conv => lhs; unfold run
      simp only [hstep]
      have hl : pre ++ (i :: is) ++ post = (pre ++ [i]) ++ is ++ post := by simp
      rw [hl]
      have := ih (pre ++ [i]) post s1 s' fuel (n + 1) (fun x hx => hst x (List.mem_cons_of_mem _ hx)) he
      simp only [List.length_append, List.length_cons, List.length_nil] at this
      rw [this]
      congr 1 <;> simp <;> omega

/-- a function without control flow, `body; ret`, called with `ra = HALT`: the machine halts in the
state `exec body` computes (provided the body leaves `ra` alone) -/
theorem run_function (body : List Instr) (s s' : St)
    (hst : ∀ i ∈ body, i.straight = true ∧ i.encodable = true) (he : exec body s = some s')
    (hra : s'.get RA = BitVec.ofNat 32 HALT) (fuel : Nat) :
    ∃ n, run (body ++ [Instr.ret]).toArray (fuel + 1 + body.length) 0 0 s = Outcome.halted s' n := by
  have h := run_straight body [] [Instr.ret] s s' (fuel + 1) 0 hst he
  simp only [List.nil_append, List.length_nil, Nat.zero_add] at h
  rw [h]
  refine ⟨body.length + 1, ?_⟩
  unfold run
  have hidx : (body ++ [Instr.ret]).toArray[body.length]? = some .ret := by simp
  simp [step, hidx, Instr.encodable, hra, HALT]

/-! ## the listed allocator finding, on the machine -/

/-- `%n = add %acc, %acc2; %m = mul %acc, %n; yield %n, %m` with `%n` tied to the register of `%acc`
(what `riscv_scf.for` allocation does): the emitted `add t0,t0,t1; mul t1,t0,t0` computes another
`%m` than the SSA program (here with separate registers 40, 41 for `%n`, `%m`) -/
theorem loop_carried_sharing_counterexample :
    let s := (st1.set 5 1#32).set 6 1#32
    (exec [.r .add 5 5 6, .r .mul 6 5 5] s).map (·.get 6) ≠
    (exec [.r .add 40 5 6, .r .mul 41 5 40] s).map (·.get 41) := by decide

end Xdsl.RiscV
