import XdslProofs.Lemmas.ParallelMovSym
/-!
# C20 — parallel-move lowering performs a simultaneous assignment (validator part)

"executing the emitted sequence of moves leaves every destination holding the value its source
held before, and changes no register other than the destinations and the designated free
registers" — as a predicate `Realises` on an instruction list, for **every** register file and
every content width, with `zero` reading 0 and discarding writes; and the symbolic validator
`checkSeq` (executed by the driver on every output of the real pass) is sound for it.
The algorithm-level theorems are in `XdslProofs/C20Algo.lean`.
-/
namespace Xdsl.ParallelMov

/-- The property's sentence for one instruction list: after `is`, every destination other than the
hard-wired `zero` holds what its source held before, and every register that is neither a
destination nor designated free is unchanged — for all register files of all widths. -/
def Realises (moves : List Move) (free : List Reg) (is : List Instr) : Prop :=
  ∀ (n : Nat) (ρ : RegFile n),
    (∀ m ∈ moves, m.dst ≠ Reg.zero → rd (exec is ρ) m.dst = rd ρ m.src)
  ∧ (∀ r, (∀ m ∈ moves, m.dst ≠ r) → r ∉ free → rd (exec is ρ) r = rd ρ r)

/-- **Validator soundness.**  If the symbolic execution over xor-sets of initial registers accepts
an instruction list, then executing it realises the simultaneous assignment for every register
file ("destinations get their sources' old values; nothing but destinations and free registers
changes"). -/
theorem checkSeq_sound (moves : List Move) (free : List Reg) (is : List Instr)
    (h : checkSeq moves free is = true) : Realises moves free is := by
  intro n ρ
  have ag := agree_symExec is ρ
  simp only [checkSeq, Bool.and_eq_true, List.all_eq_true] at h
  obtain ⟨⟨hd, hf⟩, _⟩ := h
  constructor
  · intro m hm hz
    have := hd m hm
    simp only [Bool.or_eq_true, decide_eq_true_eq, hz, false_or, beq_iff_eq] at this
    rw [ag m.dst, this]
    split
    · rename_i e; rw [e, rd_zero]; rfl
    · simp
  · intro r hnd hnf
    by_cases hz : r = Reg.zero
    · subst hz; simp [rd_zero]
    rw [ag r]
    cases hg : AL.get (symExec is) r with
    | none => rw [symRd_of_get_none hg]; simp [hz]
    | some v =>
      have := hf (r, v) (mem_of_get_some hg)
      simp only [Bool.or_eq_true, List.any_eq_true, decide_eq_true_eq, List.contains_eq_mem,
        beq_iff_eq] at this
      rcases this with (⟨m, hm, e⟩ | hfree) | hrd
      · exact absurd e (hnd m hm)
      · exact absurd hfree hnf
      · rw [hrd]; simp

/-- non-vacuity: the three-xor swap realises the exchange of two registers and is accepted -/
example : checkSeq [⟨⟨.int, some 1⟩, ⟨.int, some 2⟩, 32⟩, ⟨⟨.int, some 2⟩, ⟨.int, some 1⟩, 32⟩] []
    [.xor ⟨.int, some 2⟩ ⟨.int, some 2⟩ ⟨.int, some 1⟩, .xor ⟨.int, some 1⟩ ⟨.int, some 2⟩ ⟨.int, some 1⟩,
     .xor ⟨.int, some 2⟩ ⟨.int, some 2⟩ ⟨.int, some 1⟩] = true := by decide

/-- non-vacuity: breaking a cycle through a register that is neither a destination nor designated
free is rejected (the pinned tree's "reuse a root register" behaviour) -/
example : checkSeq [⟨⟨.int, some 1⟩, ⟨.int, some 2⟩, 32⟩, ⟨⟨.int, some 2⟩, ⟨.int, some 1⟩, 32⟩,
      ⟨⟨.int, some 3⟩, ⟨.int, some 4⟩, 32⟩] []
    [.mv ⟨.int, some 4⟩ ⟨.int, some 3⟩, .mv ⟨.int, some 3⟩ ⟨.int, some 1⟩,
     .mv ⟨.int, some 1⟩ ⟨.int, some 2⟩, .mv ⟨.int, some 2⟩ ⟨.int, some 3⟩] = false := by decide

end Xdsl.ParallelMov
