import XdslProofs.Lemmas.X86Frame
/-!
C21 — "A func/arith program that the x86 backend pipeline compiles assembles, and when called natively
returns the result the source program computes for every input while restoring all callee-saved
registers and the stack pointer."

What is proved here is the ∀-inputs half for every program the validator accepts: the check runs
`validate`/`frameOk` (compiled from `XdslModel.X86`) on the assembly text of every program the real
pipeline emits, so each of them is covered by `abi_sound`.  "Assembles" and the step from the machine
model to the CPU are not provable; they are checked by assembling and executing every output.
-/
namespace Xdsl.X86

/-- **returns the result the source program computes for every input** — if the validator accepts,
then from *every* machine state at function entry the code reaches `ret`, and the low `w` bits of
`rax` are the MLIR value of the source function applied to the SysV arguments found in that state
(`rdi, rsi, rdx, rcx, r8, r9`, then `[rsp+8]`, `[rsp+16]`, …), each taken at width `w`. -/
theorem validate_sound (s : Src) (a : List Instr) (h : validate s a = true) (σ0 : St) :
    ∃ σ', run a σ0 = some σ' ∧
      evalSrc s (fun i => trunc s.sz (argOf σ0 i)) = some (trunc s.sz (σ'.reg RAX)) := by
  unfold validate at h
  split at h
  · next hn =>
    split at h
    · next p q hp hq =>
      have hcap : s.nargs - 6 ≤ stackArgCap := by omega
      obtain ⟨σ', hrun, hrax⟩ := symRun_sound hcap a (Inv_init s.sz (s.nargs - 6) s.nargs σ0) hp
      refine ⟨σ', hrun, ?_⟩
      have hpq : pclean p = pclean q := by simpa using h
      have := srcPoly_sound s (envOf s.sz σ0) q hq
      rw [show (fun i => trunc s.sz (argOf σ0 i)) = envOf s.sz σ0 from rfl, this, hrax,
        ← evalPoly_pclean _ p, hpq, evalPoly_pclean]
    · cases h
  · cases h

/-- number of registers pushed by the prologue -/
def pushCount (a : List Instr) : Nat := (takePushes (a.dropWhile isLabel)).1.length

/-- **while restoring all callee-saved registers and the stack pointer** — a push/pop-balanced
prologue/epilogue shape (`frameOk`) implies: from every entry state the code reaches `ret`; after it
`rsp` is the entry `rsp` plus the popped return address, `rbx, rbp, r12–r15` hold their entry values,
and memory is unchanged outside the `pushCount a` qwords just below the entry `rsp`. -/
theorem frame_sound (a : List Instr) (h : frameOk a = true) (σ0 : St) :
    ∃ σ', run a σ0 = some σ' ∧ σ'.reg RSP = σ0.reg RSP + 8 ∧
      (∀ r ∈ calleeSaved, σ'.reg r = σ0.reg r) ∧
      (∀ x, (∀ i, 1 ≤ i → i ≤ pushCount a → x ≠ σ0.reg RSP - BitVec.ofNat 64 (8 * i)) →
        σ'.mem x = σ0.mem x) := by
  unfold frameOk at h
  generalize ha : a.dropWhile isLabel = a' at h
  have hsplit := takePushes_spec a'
  generalize hrs : (takePushes a').1 = rs at h hsplit
  generalize hrest : (takePushes a').2 = rest at h hsplit
  have hcount : pushCount a = rs.length := by simp [pushCount, ha, hrs]
  have htp : takePushes a' = (rs, rest) := by rw [← hrs, ← hrest]
  simp only [htp] at h
  split at h
  · cases h
  · next pre hpre =>
    simp only [Bool.and_eq_true, decide_eq_true_eq, Bool.not_eq_true', beq_iff_eq,
      List.all_eq_true] at h
    obtain ⟨⟨⟨⟨hlen, hcap⟩, h4⟩, hpops⟩, hbody⟩ := h
    obtain ⟨⟨t, ht⟩, hnoret⟩ := beforeRet_spec rest pre hpre
    have hpre' : pre = pre.take (pre.length - rs.length) ++ rs.reverse.map Instr.pop := by
      rw [← hpops, List.take_append_drop]
    generalize pre.take (pre.length - rs.length) = body at hbody hpre'
    have h4' : RSP ∉ rs := by
      intro hh
      have : rs.contains RSP = true := by simpa using hh
      rw [this] at h4; cases h4
    have hprog : a' = (rs.map Instr.push ++ body ++ rs.reverse.map Instr.pop) ++ Instr.ret :: t := by
      rw [hsplit, ht, hpre']; simp
    have hnr : ∀ i ∈ rs.map Instr.push ++ body ++ rs.reverse.map Instr.pop, i ≠ Instr.ret := by
      intro i hi
      simp only [List.mem_append, List.mem_map] at hi
      rcases hi with (⟨r, _, rfl⟩ | hi) | ⟨r, _, rfl⟩
      · simp
      · exact hnoret i (by rw [hpre']; simp [hi])
      · simp
    have F := exec_framed rs body hbody rs hcap h4' σ0
    generalize hσe : exec (rs.map Instr.push ++ body ++ rs.reverse.map Instr.pop) σ0 = σe at F
    refine ⟨retStep σe, ?_, ?_, ?_, ?_⟩
    · rw [run_dropLabels, ha, hprog, run_append_ret _ _ hnr, hσe]
    · simp [retStep, F.rsp]
    · intro r hr
      have hr4 : r ≠ RSP := by intro hh; subst hh; simp [calleeSaved, RSP] at hr
      simp only [retStep, setReg_reg, if_neg hr4]
      exact F.regs r hr (by by_cases hm : r ∈ rs <;> simp [hm])
    · intro x hx
      simp only [retStep, setReg_mem]
      exact F.mem x (fun i h1 h2 => hx i h1 (by omega))

/-- **the whole sentence for one compiled function** (the ∀-inputs part): both checks together give,
from every entry state, the source result in `rax` and the SysV frame obligations. -/
theorem abi_sound (s : Src) (a : List Instr) (hv : validate s a = true) (hf : frameOk a = true)
    (σ0 : St) :
    ∃ σ', run a σ0 = some σ' ∧
      evalSrc s (fun i => trunc s.sz (argOf σ0 i)) = some (trunc s.sz (σ'.reg RAX)) ∧
      σ'.reg RSP = σ0.reg RSP + 8 ∧ (∀ r ∈ calleeSaved, σ'.reg r = σ0.reg r) := by
  obtain ⟨σ₁, h₁, hres⟩ := validate_sound s a hv σ0
  obtain ⟨σ₂, h₂, hsp, hcs, _⟩ := frame_sound a hf σ0
  have : σ₁ = σ₂ := by rw [h₁] at h₂; exact Option.some.inj h₂
  subst this
  exact ⟨σ₁, h₁, hres, hsp, hcs⟩

end Xdsl.X86

namespace Xdsl.X86

/-! ### non-vacuity: the checks accept what the (repaired) pipeline emits -/

/-- `f(a0..a6) = a0*a6 + a6` (i64, seventh argument on the stack) -/
def exSrc : Src := { sz := .q, nargs := 7, ops := [.mul 0 6, .add 7 6], ret := 8 }

/-- output of the repaired pipeline: the load of the stack argument is rebased over `push rbx` -/
def exAsmFixed : List Instr :=
  [.label, .push 3, .mov .q 3 7, .load .q 1 16, .mov .q 2 1, .alu .imul .q 2 3, .alu .add .q 1 2,
   .mov .q 0 1, .pop 3, .ret]

/-- output of the pinned tree: `[rsp+8]` after `push rbx` is the return address, not the argument -/
def exAsmPinned : List Instr :=
  [.label, .push 3, .mov .q 3 7, .load .q 1 8, .mov .q 2 1, .alu .imul .q 2 3, .alu .add .q 1 2,
   .mov .q 0 1, .pop 3, .ret]

example : validate exSrc exAsmFixed = true := by decide +kernel
example : frameOk exAsmFixed = true := by decide +kernel
example : validate exSrc exAsmPinned = false := by decide +kernel

/-- The validator is right to refuse the pinned output: on the entry state with `a0 = 1`, `a6 = 5`
the machine returns `2 * (return-address slot)` instead of `10`. -/
theorem stack_arg_after_push_counterexample :
    ∃ σ0 σ', run exAsmPinned σ0 = some σ' ∧
      evalSrc exSrc (fun i => trunc exSrc.sz (argOf σ0 i)) ≠ some (trunc exSrc.sz (σ'.reg RAX)) := by
  refine ⟨enter [1, 0, 0, 0, 0, 0, 5] [], _, rfl, ?_⟩
  decide +kernel

/-- 32-bit function whose body writes `ebx` without a prologue (pinned tree): `frameOk` refuses it and
the machine indeed loses the caller's `rbx`. -/
def exAsm32Pinned : List Instr :=
  [.label, .mov .d 3 7, .mov .d 1 2, .alu .add .d 1 3, .mov .d 0 1, .ret]

def exAsm32Fixed : List Instr :=
  [.label, .push 3, .mov .d 3 7, .mov .d 1 2, .alu .add .d 1 3, .mov .d 0 1, .pop 3, .ret]

def exSrc32 : Src := { sz := .d, nargs := 3, ops := [.add 0 2], ret := 3 }

example : validate exSrc32 exAsm32Pinned = true := by decide +kernel
example : frameOk exAsm32Pinned = false := by decide +kernel
example : validate exSrc32 exAsm32Fixed = true ∧ frameOk exAsm32Fixed = true := by decide +kernel

theorem callee_saved_32bit_name_counterexample :
    ∃ σ0 σ', run exAsm32Pinned σ0 = some σ' ∧ σ'.reg 3 ≠ σ0.reg 3 := by
  refine ⟨enter [1, 2, 3] [77], _, rfl, ?_⟩
  decide +kernel

end Xdsl.X86
