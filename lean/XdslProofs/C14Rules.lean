import XdslProofs.C14
import XdslModel.ArithRules
/-!
# C14 (C) — every rewrite rule of `canonicalization_patterns/arith.py` preserves evaluation

`rule e = some e' → ∀ env v, eval e env = some v → eval e' env = some v` over `BitVec w` at every
width `w ≥ 1` ("the source run is defined ⇒ the target gives the same value"; `none` is poison /
undefined behaviour of the reference semantics `Sem.intBin`).  The rules are parametrised by the
fold kernels; `generated` packages the kernels regenerated from `/repo`, `generated_sound` is
leg (B), `ref_agrees` identifies the driver's hand-written copy with them.
-/
namespace Xdsl.C14
open Xdsl Xdsl.ArithRules Xdsl.Sem Xdsl.Generated Xdsl.Generated.ArithPyOps Xdsl.Generated.BuiltinInt
open Xdsl.Generated.Comparisons

/-- what the rules need from the kernels (all at widths `w ≥ 1`) -/
structure Sound (K : Kernels) : Prop where
  fold : ∀ op f, K.pyOp op = some f → ∀ (w : Nat) (a b : Int),
    intBin op (BitVec.ofInt w a) (BitVec.ofInt w b) = .val (BitVec.ofInt w (f a b))
  norm : ∀ (w : Nat), 1 ≤ w → ∀ r, ∃ d, K.normalize w r = some d ∧ BitVec.ofInt w d = BitVec.ofInt w r
  unit : ∀ op (w : Nat) c, 1 ≤ w → K.isRightUnit op w c = true → ∀ x : BitVec w,
    intBin op x (BitVec.ofInt w c) = .val x ∨ intBin op x (BitVec.ofInt w c) = .ub
  lunit : ∀ op (w : Nat) c, 1 ≤ w → commutative op = true → K.isRightUnit op w c = true → ∀ x : BitVec w,
    intBin op (BitVec.ofInt w c) x = .val x
  zero : ∀ op (w : Nat) c, 1 ≤ w → K.isRightZero op w c = true → ∀ x : BitVec w,
    intBin op x (BitVec.ofInt w c) = .val (BitVec.ofInt w c)

/-- the `Commutative` trait is justified by the reference semantics -/
theorem intBin_comm (op : String) (h : commutative op = true) {w : Nat} (x y : BitVec w) :
    intBin op x y = intBin op y x := by
  simp only [commutative, Bool.or_eq_true, decide_eq_true_eq] at h
  rcases h with (((h | h) | h) | h) | h <;> subst h <;> simp [intBin]
  · exact BitVec.add_comm x y
  · exact BitVec.mul_comm x y
  · exact BitVec.and_comm x y
  · exact BitVec.or_comm x y
  · exact BitVec.xor_comm x y

theorem mkConst_eval (K : Kernels) (hK : Sound K) (w : Nat) (hw : 1 ≤ w) (idx : Bool) (r : Int) (e : E)
    (h : ArithRules.mkConst K w idx r = some e) (env : Nat → BitVec w) : eval w env e = some (BitVec.ofInt w r) := by
  unfold ArithRules.mkConst at h
  split at h
  · cases h; rfl
  · obtain ⟨d, hd, he⟩ := hK.norm w hw r
    rw [hd] at h; cases h
    simp [eval, he]

/-- `SignlessIntegerBinaryOperationConstantProp` preserves evaluation (constant folding with
wrap-around, and moving a constant to the right of a commutative operation). -/
theorem constProp_preserves (K : Kernels) (hK : Sound K) (w : Nat) (hw : 1 ≤ w) (idx : Bool) (e e' : E)
    (h : constProp K w idx e = some e') (env : Nat → BitVec w) (v : BitVec w)
    (hv : eval w env e = some v) : eval w env e' = some v := by
  unfold constProp at h
  split at h
  · rename_i op a b
    split at h
    · rename_i f hf
      rw [mkConst_eval K hK w hw idx _ _ h env]
      simp only [eval, hK.fold op f hf w a b] at hv
      exact hv
    · cases h
  · rename_i op a r hr
    split at h
    · rename_i hc
      cases h
      simp only [eval] at hv ⊢
      cases hr' : eval w env r with
      | none => simp [hr'] at hv
      | some y =>
        simp only [hr'] at hv ⊢
        rw [intBin_comm op hc]; exact hv
    · cases h
  · cases h

/-- `SignlessIntegerBinaryOperationZeroOrUnitRight` preserves evaluation. -/
theorem zeroOrUnitRight_preserves (K : Kernels) (hK : Sound K) (w : Nat) (hw : 1 ≤ w) (e e' : E)
    (h : zeroOrUnitRight K w e = some e') (env : Nat → BitVec w) (v : BitVec w)
    (hv : eval w env e = some v) : eval w env e' = some v := by
  unfold zeroOrUnitRight at h
  split at h
  · rename_i op a c
    simp only [eval] at hv
    cases ha : eval w env a with
    | none => simp [ha] at hv
    | some x =>
      simp only [ha] at hv
      split at h
      · rename_i hz
        cases h
        rw [hK.zero op w c hw hz x] at hv
        simpa [eval] using hv
      · split at h
        · rename_i hu
          cases h
          rcases hK.unit op w c hw hu x with h1 | h1 <;> rw [h1] at hv
          · rw [ha]; simpa using hv
          · simp at hv
        · cases h
  · cases h

private theorem isConst_some (e : E) (c : Int) (h : isConst e = some c) : e = .const c := by
  cases e <;> simp [isConst] at h; subst h; rfl

/-- `SignlessIntegerBinaryOperation.fold` (constant fold, right unit, left unit of a commutative op). -/
theorem fold_preserves (K : Kernels) (hK : Sound K) (w : Nat) (hw : 1 ≤ w) (idx : Bool) (e e' : E)
    (h : fold K w idx e = some e') (env : Nat → BitVec w) (v : BitVec w)
    (hv : eval w env e = some v) : eval w env e' = some v := by
  cases e with
  | var i => simp [fold] at h
  | const c => simp [fold] at h
  | bin op a b =>
    simp only [fold] at h
    simp only [eval] at hv
    have right_unit : ∀ c, isConst b = some c → K.isRightUnit op w c = true → eval w env a = some v := by
      intro c hc hu
      rw [isConst_some b c hc] at hv
      cases ha : eval w env a with
      | none => simp [ha] at hv
      | some x =>
        simp only [ha, eval] at hv
        rcases hK.unit op w c hw hu x with h1 | h1 <;> rw [h1] at hv
        · simpa using hv
        · simp at hv
    have left_unit : ∀ c, commutative op = true → isConst a = some c → K.isRightUnit op w c = true →
        eval w env b = some v := by
      intro c hcomm hc hu
      rw [isConst_some a c hc] at hv
      cases hb : eval w env b with
      | none => simp [hb, eval] at hv
      | some y =>
        simp only [hb, eval] at hv
        rw [hK.lunit op w c hw hcomm hu y] at hv
        simpa using hv
    split at h
    · rename_i r hboth
      cases h
      -- both constant
      split at hboth
      · rename_i x y hx hy
        rw [isConst_some a x hx, isConst_some b y hy] at hv
        cases hf : K.pyOp op with
        | none => simp [hf] at hboth
        | some f =>
          simp only [hf, Option.bind_some] at hboth
          rw [mkConst_eval K hK w hw idx _ _ hboth env]
          simpa [eval, hK.fold op f hf w x y] using hv
      · cases hboth
    · split at h
      · rename_i c hc
        split at h
        · rename_i hu; cases h; exact right_unit c hc hu
        · split at h
          · cases h
          · rename_i hcomm
            simp only [Bool.not_eq_true', Bool.not_eq_false] at hcomm
            split at h
            · rename_i c' hc'
              split at h
              · rename_i hu; cases h; exact left_unit c' (by simpa using hcomm) hc' hu
              · cases h
            · cases h
      · split at h
        · cases h
        · rename_i hcomm
          split at h
          · rename_i c' hc'
            split at h
            · rename_i hu; cases h; exact left_unit c' (by simpa using hcomm) hc' hu
            · cases h
          · cases h

/-! ## the regenerated kernels satisfy `Sound` (leg (B)) -/

/-- dispatch table: which class of `xdsl/dialects/arith.py` overrides which kernel -/
def generated : Kernels where
  pyOp op :=
    if op = "arith.addi" then some AddiOp_py_operation
    else if op = "arith.subi" then some SubiOp_py_operation
    else if op = "arith.muli" then some MuliOp_py_operation
    else if op = "arith.andi" then some AndIOp_py_operation
    else if op = "arith.ori" then some OrIOp_py_operation
    else if op = "arith.xori" then some XOrIOp_py_operation
    else none
  isRightUnit op w c :=
    if op = "arith.addi" then AddiOp_is_right_unit w c
    else if op = "arith.subi" then SubiOp_is_right_unit w c
    else if op = "arith.ori" then OrIOp_is_right_unit w c
    else if op = "arith.xori" then XOrIOp_is_right_unit w c
    else if op = "arith.shli" then ShLIOp_is_right_unit w c
    else if op = "arith.shrui" then ShRUIOp_is_right_unit w c
    else if op = "arith.shrsi" then ShRSIOp_is_right_unit w c
    else if op = "arith.muli" then MuliOp_is_right_unit w c
    else if op = "arith.divui" then DivUIOp_is_right_unit w c
    else if op = "arith.divsi" then DivSIOp_is_right_unit w c
    else if op = "arith.floordivsi" then FloorDivSIOp_is_right_unit w c
    else if op = "arith.ceildivsi" then CeilDivSIOp_is_right_unit w c
    else if op = "arith.ceildivui" then CeilDivUIOp_is_right_unit w c
    else false
  isRightZero op w c :=
    if op = "arith.muli" then MuliOp_is_right_zero w c
    else if op = "arith.andi" then AndIOp_is_right_zero w c
    else false
  normalize w v := normalized_value_signless w v true

theorem generated_sound : Sound generated where
  fold := by
    intro op f hf w a b
    simp only [generated] at hf
    repeat' split at hf
    all_goals cases hf
    all_goals subst_vars
    · simp [intBin, AddiOp_py_operation, BitVec.ofInt_add]
    · simp only [intBin, SubiOp_py_operation]
      rw [Int.sub_eq_add_neg, BitVec.ofInt_add, BitVec.ofInt_neg, BitVec.sub_eq_add_neg]
    · simp [intBin, MuliOp_py_operation, BitVec.ofInt_mul]
    · simp [intBin, AndIOp_py_operation, BV.ofInt_land]
    · simp [intBin, OrIOp_py_operation, BV.ofInt_lor]
    · simp [intBin, XOrIOp_py_operation, BV.ofInt_xor]
  norm := by
    intro w hw r
    exact ⟨_, normalized_eq w hw r true (Or.inl rfl), BitVec.ofInt_toInt⟩
  unit := by
    intro op w c hw hu x
    have hmem : op = "arith.addi" ∨ op = "arith.subi" ∨ op = "arith.ori" ∨ op = "arith.xori" ∨ op = "arith.shli"
        ∨ op = "arith.shrui" ∨ op = "arith.shrsi" ∨ op = "arith.muli" ∨ op = "arith.divui" ∨ op = "arith.divsi"
        ∨ op = "arith.floordivsi" ∨ op = "arith.ceildivsi" ∨ op = "arith.ceildivui" := by
      by_contra hne
      simp only [not_or] at hne
      obtain ⟨h1, h2, h3, h4, h5, h6, h7, h8, h9, h10, h11, h12, h13⟩ := hne
      simp only [generated, h1, h2, h3, h4, h5, h6, h7, h8, h9, h10, h11, h12, h13, if_false] at hu
      exact absurd hu (by decide)
    rcases hmem with h | h | h | h | h | h | h | h | h | h | h | h | h <;> subst h <;>
      simp only [generated, String.reduceEq, if_true, if_false] at hu
    · exact Or.inl (addi_right_unit w c hu x)
    · exact Or.inl (subi_right_unit w c hu x)
    · exact Or.inl (ori_right_unit w c hu x)
    · exact Or.inl (xori_right_unit w c hu x)
    · exact Or.inl (shli_right_unit w hw c hu x)
    · exact Or.inl (shrui_right_unit w hw c hu x)
    · exact Or.inl (shrsi_right_unit w hw c hu x)
    · exact Or.inl (muli_right_unit w hw c hu x)
    · exact Or.inl (divui_right_unit w hw c hu x)
    · exact divsi_right_unit w hw c hu x
    · exact floordivsi_right_unit w hw c hu x
    · exact ceildivsi_right_unit w hw c hu x
    · exact Or.inl (ceildivui_right_unit w hw c hu x)
  lunit := by
    intro op w c hw hcomm hu x
    simp only [commutative, Bool.or_eq_true, decide_eq_true_eq] at hcomm
    rcases hcomm with (((h | h) | h) | h) | h <;> subst h <;> simp [generated] at hu
    · exact addi_left_unit w c hu x
    · exact muli_left_unit w hw c hu x
    · exact ori_left_unit w c hu x
    · exact xori_left_unit w c hu x
  zero := by
    intro op w c hw hz x
    have hmem : op = "arith.muli" ∨ op = "arith.andi" := by
      by_contra hne
      simp only [not_or] at hne
      obtain ⟨h1, h2⟩ := hne
      simp only [generated, h1, h2, if_false] at hz
      exact absurd hz (by decide)
    rcases hmem with h | h <;> subst h <;> simp only [generated, String.reduceEq, if_true, if_false] at hz
    · exact muli_right_zero w c hz x
    · exact andi_right_zero w c hz x

/-! ## the driver's hand-written kernels agree with the regenerated ones -/

theorem ref_pyOp (op : String) : Kernels.ref.pyOp op = generated.pyOp op := rfl

theorem ref_normalize (w : Nat) (hw : 1 ≤ w) (v : Int) :
    Kernels.ref.normalize (w : Int) v = generated.normalize (w : Int) v := by
  simp only [Kernels.ref, generated, normalizeRef, normalized_eq w hw v true (Or.inl rfl), Int.toNat_natCast]

theorem oneRef_eq (w : Nat) (hw : 1 ≤ w) : oneRef (w : Int) = normalized_one (w : Int) := by
  have h1 : (1 : Int) < 2 ^ w := by
    obtain ⟨n, rfl⟩ : ∃ n, w = n + 1 := ⟨w - 1, by omega⟩
    have : (0 : Int) < 2 ^ n := Int.pow_pos (by omega)
    rw [Int.pow_succ]; omega
  have h0 : -(2 : Int) ^ (w - 1) ≤ 1 := by
    have : (0 : Int) < 2 ^ (w - 1) := Int.pow_pos (by omega)
    omega
  simp only [normalized_one, normalized_eq w hw 1 false (Or.inr ⟨h0, h1⟩), Option.getD_some, oneRef,
    Int.toNat_natCast]

theorem ref_isRightZero (op : String) (w c : Int) : Kernels.ref.isRightZero op w c = generated.isRightZero op w c := by
  simp only [Kernels.ref, generated, MuliOp_is_right_zero, AndIOp_is_right_zero]
  by_cases h1 : op = "arith.muli"
  · simp [h1]
  · by_cases h2 : op = "arith.andi"
    · simp [h2]
    · simp [h1, h2]

theorem ref_isRightUnit (op : String) (w : Nat) (hw : 1 ≤ w) (c : Int) :
    Kernels.ref.isRightUnit op w c = generated.isRightUnit op w c := by
  simp only [Kernels.ref, generated, AddiOp_is_right_unit, SubiOp_is_right_unit, OrIOp_is_right_unit,
    XOrIOp_is_right_unit, ShLIOp_is_right_unit, ShRUIOp_is_right_unit, ShRSIOp_is_right_unit,
    MuliOp_is_right_unit, DivUIOp_is_right_unit, DivSIOp_is_right_unit, FloorDivSIOp_is_right_unit,
    CeilDivSIOp_is_right_unit, CeilDivUIOp_is_right_unit, oneRef_eq w hw]
  by_cases h : op = "arith.addi" ∨ op = "arith.subi" ∨ op = "arith.ori" ∨ op = "arith.xori" ∨ op = "arith.shli"
        ∨ op = "arith.shrui" ∨ op = "arith.shrsi" ∨ op = "arith.muli" ∨ op = "arith.divui" ∨ op = "arith.divsi"
        ∨ op = "arith.floordivsi" ∨ op = "arith.ceildivsi" ∨ op = "arith.ceildivui"
  · rcases h with h | h | h | h | h | h | h | h | h | h | h | h | h <;> subst h <;> simp
  · simp only [not_or] at h
    obtain ⟨h1, h2, h3, h4, h5, h6, h7, h8, h9, h10, h11, h12, h13⟩ := h
    simp [h1, h2, h3, h4, h5, h6, h7, h8, h9, h10, h11, h12, h13]

/-- the hand-written kernels of the driver model are the regenerated ones -/
theorem ref_sound : Sound Kernels.ref where
  fold := fun op f hf w a b => generated_sound.fold op f (by rw [← ref_pyOp]; exact hf) w a b
  norm := fun w hw r => by rw [ref_normalize w hw]; exact generated_sound.norm w hw r
  unit := fun op w c hw hu x => generated_sound.unit op w c hw (by rw [← ref_isRightUnit op w hw]; exact hu) x
  lunit := fun op w c hw hc hu x => generated_sound.lunit op w c hw hc (by rw [← ref_isRightUnit op w hw]; exact hu) x
  zero := fun op w c hw hz x => generated_sound.zero op w c hw (by rw [← ref_isRightZero]; exact hz) x

/-! ## cmpi / select patterns -/

/-- `ApplyCmpiPredicateToEqualOperands`: `cmpi p x x` is the constant `cmpiSame p`, at every width. -/
theorem cmpi_same_sound (w : Nat) (x : BitVec w) (p : Int) (r : Bool) (h : Sem.cmpi p x x = some r) :
    r = cmpiSame p := by
  unfold Sem.cmpi at h
  have hlt : x.slt x = false := by simp [BitVec.slt]
  have hle : x.sle x = true := by simp [BitVec.sle]
  have ult : x.ult x = false := by simp [BitVec.ult]
  have ule : x.ule x = true := by simp [BitVec.ule]
  split at h
  · rename_i hp; subst hp; simp at h; subst h; rfl
  · split at h
    · rename_i hp; subst hp; simp at h; subst h; rfl
    · split at h
      · rename_i hp; subst hp; simp [hlt] at h; subst h; rfl
      · split at h
        · rename_i hp; subst hp; simp [hle] at h; subst h; rfl
        · split at h
          · rename_i hp; subst hp; simp [hlt] at h; subst h; rfl
          · split at h
            · rename_i hp; subst hp; simp [hle] at h; subst h; rfl
            · split at h
              · rename_i hp; subst hp; simp [ult] at h; subst h; rfl
              · split at h
                · rename_i hp; subst hp; simp [ule] at h; subst h; rfl
                · split at h
                  · rename_i hp; subst hp; simp [ult] at h; subst h; rfl
                  · split at h
                    · rename_i hp; subst hp; simp [ule] at h; subst h; rfl
                    · cases h

/-- the constant built by the pattern, `BoolAttr.from_bool(val)`, denotes `val` -/
theorem cmpi_same_const (b : Bool) : BitVec.ofInt 1 (if b then -1 else 0) = (if b then 1#1 else 0#1) := by
  cases b <;> decide

/-- `SelectConstPattern`: for an `i1` constant whose data lies in the signless range `[-1, 2)`
(what `IntegerAttr.verify` enforces), Python truthiness of the data is the i1 pattern. -/
theorem select_const_sound {α : Type} (c : Int) (hc : -1 ≤ c ∧ c < 2) (a b : α) :
    selSem (BitVec.ofInt 1 c) a b = selectConst c a b := by
  have : c = -1 ∨ c = 0 ∨ c = 1 := by omega
  rcases this with h | h | h <;> subst h <;> simp [selSem, selectConst] <;> decide

/-- `SelectTrueFalsePattern`: `select x, true, false = x` and `select x, false, true = x xor true`. -/
theorem select_true_false_sound (l r : Int) (hl : -1 ≤ l ∧ l < 2) (hr : -1 ≤ r ∧ r < 2) (x : BitVec 1) :
    match selectTrueFalse l r with
    | some (.inl _) => selSem x (BitVec.ofInt 1 l) (BitVec.ofInt 1 r) = x
    | some (.inr r') => Sem.intBin "arith.xori" x (BitVec.ofInt 1 r') = .val (selSem x (BitVec.ofInt 1 l) (BitVec.ofInt 1 r))
    | none => True := by
  have h1 : l = -1 ∨ l = 0 ∨ l = 1 := by omega
  have h2 : r = -1 ∨ r = 0 ∨ r = 1 := by omega
  rcases BitVec.eq_zero_or_eq_one x with hx | hx <;> subst hx <;>
    rcases h1 with h | h | h <;> subst h <;> rcases h2 with h | h | h <;> subst h <;>
    simp [selectTrueFalse, selSem, Sem.intBin] <;> decide

/-- `SelectSamePattern`: `select c, y, y = y`. -/
theorem select_same_sound {α : Type} (c : BitVec 1) (y : α) : selSem c y y = y := by
  simp [selSem]

/-! ## select of a cmpf (`SelectFoldCmpfPattern`) -/

/-- IEEE facts about the relations used by `select_cmpf_to_minmax_sound` -/
structure OrdLaws {F : Type} (O : FloatOrd F) : Prop where
  /-- on non-NaN operands exactly one of `<`, `==`, `>` holds -/
  tri : ∀ a b, O.isNaN a = false → O.isNaN b = false →
    (O.lt a b = true ∧ O.eq a b = false ∧ O.lt b a = false)
    ∨ (O.lt a b = false ∧ O.eq a b = true ∧ O.lt b a = false)
    ∨ (O.lt a b = false ∧ O.eq a b = false ∧ O.lt b a = true)
  /-- `==` identifies only +0 and -0 -/
  eq_same : ∀ a b, O.eq a b = true → ¬ (O.isZero a = true ∧ O.isZero b = true) → a = b
  pzero_zero : O.isZero O.pzero = true
  nzero_zero : O.isZero O.nzero = true

/-- the pattern only fires with both `nnan` and `nsz` on the comparison and identical operands -/
theorem selectCmpf_needs_flags (p : Int) (nnan nsz same : Bool) (mm : MinMax)
    (h : selectCmpf p nnan nsz same = some mm) : nnan = true ∧ nsz = true ∧ same = true := by
  unfold selectCmpf at h
  cases nnan <;> cases nsz <;> cases same <;> simp at h ⊢

/-- **`SelectFoldCmpfPattern`**: when the rule fires (`nnan` and `nsz` present), for operands that are
not NaN (a NaN operand is poison under `nnan`): `select (cmpf p a b) a b` *is* `maximumf a b` /
`minimumf a b` unless both operands are zeros, and in that case both sides are zeros (they may
differ in the sign of zero only, which `nsz` declares insignificant). -/
theorem select_cmpf_to_minmax_sound {F : Type} (O : FloatOrd F) (L : OrdLaws O)
    (p : Int) (nnan nsz : Bool) (mm : MinMax) (h : selectCmpf p nnan nsz true = some mm)
    (a b : F) (ha : O.isNaN a = false) (hb : O.isNaN b = false)
    (c : Bool) (hc : O.cmpf p a b = some c) :
    (¬ (O.isZero a = true ∧ O.isZero b = true) → (if c then a else b) = O.minmax mm a b)
    ∧ ((O.isZero a = true ∧ O.isZero b = true) →
        O.isZero (if c then a else b) = true ∧ O.isZero (O.minmax mm a b) = true) := by
  obtain ⟨hn1, hn2, _⟩ := selectCmpf_needs_flags p nnan nsz true mm h
  subst hn1; subst hn2
  have hp : (mm = .maximumf ∧ (p = 2 ∨ p = 3 ∨ p = 9 ∨ p = 10)) ∨ (mm = .minimumf ∧ (p = 4 ∨ p = 5 ∨ p = 11 ∨ p = 12)) := by
    simp only [selectCmpf, Bool.and_self, Bool.not_true, Bool.false_eq_true, if_false] at h
    split at h
    · rename_i h1; cases h; left; refine ⟨rfl, ?_⟩; simp only [Bool.or_eq_true, decide_eq_true_eq] at h1; omega
    · split at h
      · rename_i h1; cases h; right; refine ⟨rfl, ?_⟩; simp only [Bool.or_eq_true, decide_eq_true_eq] at h1; omega
      · cases h
  constructor
  · intro hz
    have hz' : (O.isZero a && O.isZero b) = false := by
      cases h1 : O.isZero a <;> cases h2 : O.isZero b <;> simp_all
    rcases L.tri a b ha hb with ⟨h1, h2, h3⟩ | ⟨h1, h2, h3⟩ | ⟨h1, h2, h3⟩
    · -- a < b
      rcases hp with ⟨hm, hp⟩ | ⟨hm, hp⟩ <;> subst hm <;> rcases hp with hp | hp | hp | hp <;> subst hp <;>
        simp [FloatOrd.cmpf, cmpfTable, h1, h2, h3] at hc <;> subst hc <;>
        simp [FloatOrd.minmax, FloatOrd.maximumf, FloatOrd.minimumf, ha, hb, hz', h1, h3]
    · -- a == b, not both zero: the same value
      have hab : a = b := L.eq_same a b h2 hz
      subst hab
      have hza : O.isZero a = false := by
        cases h0 : O.isZero a <;> simp_all
      rcases hp with ⟨hm, hp⟩ | ⟨hm, hp⟩ <;> subst hm <;>
        simp [FloatOrd.minmax, FloatOrd.maximumf, FloatOrd.minimumf, ha, hza, h1]
    · -- a > b
      rcases hp with ⟨hm, hp⟩ | ⟨hm, hp⟩ <;> subst hm <;> rcases hp with hp | hp | hp | hp <;> subst hp <;>
        simp [FloatOrd.cmpf, cmpfTable, h1, h2, h3] at hc <;> subst hc <;>
        simp [FloatOrd.minmax, FloatOrd.maximumf, FloatOrd.minimumf, ha, hb, hz', h1, h3]
  · rintro ⟨hza, hzb⟩
    constructor
    · cases c <;> simp [hza, hzb]
    · rcases hp with ⟨hm, _⟩ | ⟨hm, _⟩ <;> subst hm <;>
        simp only [FloatOrd.minmax, FloatOrd.maximumf, FloatOrd.minimumf, ha, hb, hza, hzb, Bool.or_self,
          Bool.and_self, Bool.false_eq_true, if_false, if_true] <;>
        split <;> first | exact L.pzero_zero | exact L.nzero_zero

/-! ### a four-point float model: `nnan` alone does not license the rewrite -/

/-- `-0`, `+0`, `1`, `NaN` with the IEEE relations -/
inductive Tiny where
  | nz | pz | one | nan
deriving DecidableEq, Repr

def Tiny.rank : Tiny → Nat
  | .nz => 0 | .pz => 0 | .one => 1 | .nan => 0

def tinyOrd : FloatOrd Tiny where
  lt a b := a != .nan && b != .nan && decide (a.rank < b.rank)
  eq a b := a != .nan && b != .nan && decide (a.rank = b.rank)
  isNaN a := a == .nan
  isZero a := a == .nz || a == .pz
  neg a := a == .nz
  nan := .nan
  pzero := .pz
  nzero := .nz

theorem tiny_laws : OrdLaws tinyOrd where
  tri := by intro a b ha hb; cases a <;> cases b <;> simp_all [tinyOrd, Tiny.rank] <;> decide
  eq_same := by intro a b; cases a <;> cases b <;> simp [tinyOrd, Tiny.rank]
  pzero_zero := by decide
  nzero_zero := by decide

/-- **counterexample for `nnan` without `nsz`** (the seeded weakening of the guard): in a float model
satisfying the IEEE laws, with `a = +0`, `b = -0` (no NaN involved, so `nnan` licenses nothing):
`cmpf ogt a b` is false, the select yields `-0`, but `maximumf a b` is `+0`. -/
theorem select_cmpf_nnan_only_counterexample :
    ∃ (F : Type) (O : FloatOrd F) (_ : OrdLaws O) (a b : F),
      O.isNaN a = false ∧ O.isNaN b = false ∧ O.cmpf 2 a b = some false
      ∧ (if false then a else b) ≠ O.maximumf a b
      ∧ selectCmpf 2 true false true = none :=
  ⟨Tiny, tinyOrd, tiny_laws, .pz, .nz, by decide, by decide, by decide, by decide, by decide⟩

/-! ## float folds under the IEEE laws -/

/-- what the fold needs from IEEE-754 arithmetic (`I` = the MLIR operations) relative to the Python
primitives `P`.  `≈` identifies NaNs (payload and sign of a NaN are not observable). -/
structure IEEELaws {F : Type} (P : PyFloat F) (I : FOp → F → F → F) : Prop where
  add : ∀ l r, P.add l r = I .addf l r
  sub : ∀ l r, P.sub l r = I .subf l r
  mul : ∀ l r, P.mul l r = I .mulf l r
  /-- Python `/` is IEEE division whenever it does not raise -/
  div : ∀ l r, P.eqZero r = false → P.div l r = I .divf l r
  nan_isNaN : P.isNaN P.nan = true
  /-- `0/0` and `NaN/0` are NaN -/
  div_zero_nan : ∀ l r, P.eqZero r = true → (P.eqZero l || P.isNaN l) = true → P.isNaN (I .divf l r) = true
  /-- a non-zero non-NaN number divided by a signed zero is the infinity with the product sign -/
  div_zero_inf : ∀ l r, P.eqZero r = true → (P.eqZero l || P.isNaN l) = false →
    I .divf l r = P.mul (P.copysign P.inf l) (P.copysign P.one r)

/-- equality up to NaN identification -/
def FEq {F : Type} (P : PyFloat F) (x y : F) : Prop := x = y ∨ (P.isNaN x = true ∧ P.isNaN y = true)

/-- `_fold_const_operation` (as repaired): the folded constant is the IEEE result of the operation,
including division by signed zeros and NaN operands. -/
theorem fold_float_sound {F : Type} (P : PyFloat F) (I : FOp → F → F → F) (L : IEEELaws P I)
    (op : FOp) (l r : F) : FEq P (foldFloat P op l r) (I op l r) := by
  cases op
  · exact Or.inl (L.add l r)
  · exact Or.inl (L.sub l r)
  · exact Or.inl (L.mul l r)
  · simp only [foldFloat]
    cases hz : P.eqZero r
    · simp only [Bool.false_eq_true, if_false]; exact Or.inl (L.div l r hz)
    · simp only [if_true]
      cases hn : (P.eqZero l || P.isNaN l)
      · simp only [Bool.false_eq_true, if_false]; exact Or.inl (L.div_zero_inf l r hz hn).symm
      · simp only [if_true]; exact Or.inr ⟨L.nan_isNaN, L.div_zero_nan l r hz hn⟩

/-- `FoldConstConstOp` preserves evaluation up to NaN identification. -/
theorem foldConstConst_preserves {F : Type} (P : PyFloat F) (I : FOp → F → F → F) (L : IEEELaws P I)
    (e e' : FE F) (h : foldConstConst P e = some e') (env : Nat → F) :
    FEq P (e'.eval I env) (e.eval I env) := by
  unfold foldConstConst at h
  split at h
  · cases h; simp only [FE.eval]; exact fold_float_sound P I L _ _ _
  · cases h

/-- `FoldConstsByReassociation`: under the licence of `fastmath<reassoc>` — the operation may be
treated as associative and commutative — `(c1 op x) op c2` (any operand order) equals
`fold(c1, c2) op x`.  Without both flags the rule does not fire (`reassociate_needs_flags`). -/
theorem reassociate_preserves {F : Type} (P : PyFloat F) (I : FOp → F → F → F)
    (hadd : ∀ l r, P.add l r = I .addf l r) (hmul : ∀ l r, P.mul l r = I .mulf l r)
    (assoc : ∀ op, op = .addf ∨ op = .mulf → ∀ a b c, I op (I op a b) c = I op a (I op b c))
    (comm : ∀ op, op = .addf ∨ op = .mulf → ∀ a b, I op a b = I op b a)
    (e e' : FE F) (h : reassociate P e = some e') (env : Nat → F) :
    e'.eval I env = e.eval I env := by
  cases e with
  | var i => simp [reassociate] at h
  | const c => simp [reassociate] at h
  | bin op fu l r =>
    simp only [reassociate] at h
    split at h
    · cases h
    · rename_i hop
      have hop' : op = .addf ∨ op = .mulf := by
        cases op <;> simp at hop ⊢
      have hfold : ∀ a b, foldFloat P op a b = I op a b := by
        intro a b
        rcases hop' with h | h <;> subst h <;> simp [foldFloat, hadd, hmul]
      -- the two symmetric ways of picking the inner operation
      have key : ∀ (inner other : FE F) (res : FE F),
          (match inner, other.isConst with
            | .bin op' fo a b, some c2 =>
              if op' ≠ op ∨ (!fo) = true ∨ (!fu) = true then none else
              match a.isConst, b.isConst with
              | some c1, _ => some (FE.bin op true (.const (foldFloat P op c1 c2)) b)
              | none, some c1 => some (FE.bin op true (.const (foldFloat P op c1 c2)) a)
              | none, none => none
            | _, _ => none) = some res →
          res.eval I env = I op (inner.eval I env) (other.eval I env) := by
        intro inner other res hres
        split at hres
        · rename_i op' fo a b c2 hoc
          have ho : other = .const c2 := by
            cases other <;> simp [FE.isConst] at hoc; subst hoc; rfl
          split at hres
          · cases hres
          · rename_i hcond
            simp only [not_or, Decidable.not_not] at hcond
            obtain ⟨hop2, _, _⟩ := hcond
            subst hop2
            split at hres
            · rename_i _ c1 hc1
              have ha : a = .const c1 := by
                cases a <;> simp [FE.isConst] at hc1; subst hc1; rfl
              cases hres
              simp only [FE.eval, ho, ha, hfold]
              rw [assoc _ hop', assoc _ hop', comm _ hop' (b.eval I env) c2]
            · rename_i c1 _ hc1
              have hb : b = .const c1 := by
                cases b <;> simp [FE.isConst] at hc1; subst hc1; rfl
              cases hres
              simp only [FE.eval, ho, hb, hfold]
              rw [comm _ hop' (a.eval I env) c1, assoc _ hop', assoc _ hop', comm _ hop' (a.eval I env) c2]
            · cases hres
        · cases hres
      split at h
      · rename_i e1 h1
        cases h
        simp only [FE.eval]
        rw [key r l _ h1, comm _ hop']
      · exact key l r _ h

/-- without `reassoc` on both operations nothing is rewritten -/
theorem reassociate_needs_flags {F : Type} (P : PyFloat F) (op : FOp) (fu fo : Bool) (x : FE F) (c1 c2 : F)
    (h : fu = false ∨ fo = false) :
    reassociate P (.bin op fu (.bin op fo (.const c1) x) (.const c2)) = none := by
  rcases h with h | h <;> subst h <;> simp [reassociate, FE.isConst]

/-! ## any sequence of sound rules is sound (the greedy driver applies rules one after another) -/

/-- a rewrite step that preserves evaluation whenever the source is defined -/
def Preserves (w : Nat) (rule : E → Option E) : Prop :=
  ∀ e e', rule e = some e' → ∀ (env : Nat → BitVec w) v, eval w env e = some v → eval w env e' = some v

/-- apply the listed rules in order, each where it fires -/
def applySeq : List (E → Option E) → E → E
  | [], e => e
  | r :: rs, e => applySeq rs ((r e).getD e)

theorem rewrite_seq_preserves (w : Nat) (rules : List (E → Option E)) (h : ∀ r ∈ rules, Preserves w r)
    (e : E) (env : Nat → BitVec w) (v : BitVec w) (hv : eval w env e = some v) :
    eval w env (applySeq rules e) = some v := by
  induction rules generalizing e with
  | nil => exact hv
  | cons r rs ih =>
    simp only [applySeq]
    apply ih (fun r' hr' => h r' (List.mem_cons_of_mem _ hr'))
    cases hr : r e with
    | none => simpa using hv
    | some e' => simpa using h r (List.mem_cons_self) e e' hr env v hv

/-- the three integer rules, instantiated with the regenerated kernels, are sound at every width -/
theorem integer_rules_preserve (w : Nat) (hw : 1 ≤ w) (idx : Bool) :
    Preserves w (constProp generated w idx) ∧ Preserves w (zeroOrUnitRight generated w)
      ∧ Preserves w (ArithRules.fold generated w idx) :=
  ⟨fun e e' h env v hv => constProp_preserves generated generated_sound w hw idx e e' h env v hv,
   fun e e' h env v hv => zeroOrUnitRight_preserves generated generated_sound w hw e e' h env v hv,
   fun e e' h env v hv => fold_preserves generated generated_sound w hw idx e e' h env v hv⟩

/-! ## non-vacuity -/
example : constProp Kernels.ref 8 false (.bin "arith.addi" (.const 127) (.const 1)) = some (.const (-128)) := by decide
example : zeroOrUnitRight Kernels.ref 1 (.bin "arith.muli" (.var 0) (.const (-1))) = some (.var 0) := by decide
example : ArithRules.fold Kernels.ref 8 false (.bin "arith.xori" (.const 0) (.var 1)) = some (.var 1) := by decide
example : selectTrueFalse 0 (-1) = some (.inr (-1)) := by decide

end Xdsl.C14
