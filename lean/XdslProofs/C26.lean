import XdslProofs.Lemmas.AffineFlat
import XdslProofs.Lemmas.AffineSubst
import XdslProofs.Lemmas.AffineScope
/-!
# C26 — affine expression algebra preserves values (property theorems)

"Building affine expressions with addition, constant multiplication, floor division, ceiling
division and modulo by positive constants, simplifying them, composing them with affine maps,
replacing dimensions and symbols, and printing and re-parsing them all preserve the value the
expression evaluates to for every assignment of its dimensions and symbols."

All theorems are about the model `XdslModel/Affine.lean`; `eval ρd ρs e` is the value of `e` under
the assignment `ρd` of dimensions and `ρs` of symbols, *for every* assignment (functions
`Nat → Int`, so no box).  Python's `//`, `%` are `Int.fdiv`, `Int.fmod`; for a positive divisor they
are characterised below against the mathematical floor / ceiling / remainder, so that the statements
do not depend on reading `Int.fdiv` correctly.  The print/parse clause is in `C26Parse.lean`.
-/
namespace Xdsl.Affine

/-! ## building -/

/-- "addition": `a + b` (with its constant folding, `+ 0` removal and `(e + c) + d` re-association)
evaluates to the sum. -/
theorem mkAdd_eval (a b : Expr) (ρd ρs : Nat → Int) :
    eval ρd ρs (mkAdd a b) = eval ρd ρs a + eval ρd ρs b := eval_mkAdd' ρd ρs a b

/-- "constant multiplication": `__mul__` returns (does not raise) as soon as one operand is a
constant … -/
theorem mkMul_const_ok (a : Expr) (c : Int) :
    (∃ e, mkMul a (.const c) = .ok e) ∧ (∃ e, mkMul (.const c) a = .ok e) := by
  constructor
  · cases a <;> exact ⟨_, rfl⟩
  · exact ⟨_, rfl⟩

/-- … and whatever it returns (folding, `* 1` removal, `(e * c) * d` folding, distribution over a
sum) evaluates to the product. -/
theorem mkMul_eval {a b e : Expr} (h : mkMul a b = .ok e) (ρd ρs : Nat → Int) :
    eval ρd ρs e = eval ρd ρs a * eval ρd ρs b := eval_mkMul' ρd ρs h

/-- "floor division … by positive constants": `a // c` returns an expression whose value `q` is
the floor of `a / c`: `c*q ≤ a < c*q + c`. -/
theorem mkFloorDiv_eval (a : Expr) {c : Int} (hc : 0 < c) :
    ∃ e, mkDiv .floordiv a (.const c) = .ok e ∧
      ∀ ρd ρs, c * eval ρd ρs e ≤ eval ρd ρs a ∧ eval ρd ρs a < c * eval ρd ρs e + c := by
  obtain ⟨e, he⟩ := mkDiv_const_ok (k := .floordiv) rfl a (y := c) (by omega)
  refine ⟨e, he, fun ρd ρs => ?_⟩
  have := eval_mkDiv' ρd ρs he
  simp only [evalBin, eval] at this
  exact (pyFloorDiv_spec hc _).1 this.symm

/-- "ceiling division … by positive constants": the value `q` of `a.ceil_div(c)` is the ceiling of
`a / c`: `c*(q-1) < a ≤ c*q`. -/
theorem mkCeilDiv_eval (a : Expr) {c : Int} (hc : 0 < c) :
    ∃ e, mkDiv .ceildiv a (.const c) = .ok e ∧
      ∀ ρd ρs, c * eval ρd ρs e - c < eval ρd ρs a ∧ eval ρd ρs a ≤ c * eval ρd ρs e := by
  obtain ⟨e, he⟩ := mkDiv_const_ok (k := .ceildiv) rfl a (y := c) (by omega)
  refine ⟨e, he, fun ρd ρs => ?_⟩
  have := eval_mkDiv' ρd ρs he
  simp only [evalBin, eval] at this
  exact (pyCeilDiv_spec hc _).1 this.symm

/-- "modulo by positive constants": the value `r` of `a % c` is the remainder of the floor
division: `0 ≤ r < c` and `a = c*q + r` for the floor quotient `q`. -/
theorem mkMod_eval (a : Expr) {c : Int} (hc : 0 < c) :
    ∃ e, mkDiv .mod a (.const c) = .ok e ∧
      ∀ ρd ρs, 0 ≤ eval ρd ρs e ∧ eval ρd ρs e < c ∧
        ∃ q, (c * q ≤ eval ρd ρs a ∧ eval ρd ρs a < c * q + c) ∧ eval ρd ρs a = c * q + eval ρd ρs e := by
  obtain ⟨e, he⟩ := mkDiv_const_ok (k := .mod) rfl a (y := c) (by omega)
  refine ⟨e, he, fun ρd ρs => ?_⟩
  have := eval_mkDiv' ρd ρs he
  simp only [evalBin, eval] at this
  rw [this]
  obtain ⟨h1, h2, h3⟩ := pyMod_spec (a := eval ρd ρs a) hc
  exact ⟨h1, h2, _, (pyFloorDiv_spec hc _).1 rfl, h3⟩

/-- The three division-like constructors in one statement, for every constant divisor the code
accepts: whenever the call returns, the value is Python's `//`, `-(-a // c)`, `%` of the operand
values (`evalBin`). -/
theorem mkDiv_eval {k : Kind} {a b e : Expr} (h : mkDiv k a b = .ok e) (ρd ρs : Nat → Int) :
    eval ρd ρs e = evalBin k (eval ρd ρs a) (eval ρd ρs b) := eval_mkDiv' ρd ρs h

/-- `AffineExpr.binary(kind, lhs, rhs)` (used by `replace_dims_and_symbols`) -/
theorem mkBin_eval {k : Kind} {a b e : Expr} (h : mkBin k a b = .ok e) (ρd ρs : Nat → Int) :
    eval ρd ρs e = evalBin k (eval ρd ρs a) (eval ρd ρs b) := eval_mkBin' ρd ρs h

/-- `-a` -/
theorem mkNeg_eval (a : Expr) (ρd ρs : Nat → Int) : eval ρd ρs (mkNeg a) = - eval ρd ρs a :=
  eval_mkNeg' ρd ρs a

/-- `a - b` (computed as `a + (-1 * b)`) -/
theorem mkSub_eval (a b : Expr) (ρd ρs : Nat → Int) :
    eval ρd ρs (mkSub a b) = eval ρd ρs a - eval ρd ρs b := eval_mkSub' ρd ρs a b

/-- arithmetic meaning of a build program (what the harness' reference evaluator computes) -/
def Prog.sem (ρd ρs : Nat → Int) : Prog → Int
  | .leaf e => eval ρd ρs e
  | .raw k l r => evalBin k (l.sem ρd ρs) (r.sem ρd ρs)
  | .op k l r => evalBin k (l.sem ρd ρs) (r.sem ρd ρs)
  | .sub l r => l.sem ρd ρs - r.sem ρd ρs
  | .neg a => - a.sem ρd ρs

/-- Building: any tree of operator applications that returns an expression returns one whose value
is the arithmetic meaning of the tree, at every assignment. -/
theorem build_eval {p : Prog} {e : Expr} (h : p.build = .ok e) (ρd ρs : Nat → Int) :
    eval ρd ρs e = p.sem ρd ρs := by
  induction p generalizing e with
  | leaf x => simp only [Prog.build, pure, Except.pure, Except.ok.injEq] at h; subst h; rfl
  | raw k l r ihl ihr =>
    simp only [Prog.build, bind, Except.bind] at h
    cases hl : l.build with
    | error x => rw [hl] at h; cases h
    | ok a =>
      rw [hl] at h; dsimp only at h
      cases hr : r.build with
      | error x => rw [hr] at h; cases h
      | ok b =>
        rw [hr] at h
        simp only [pure, Except.pure, Except.ok.injEq] at h; subst h
        simp [eval, Prog.sem, ihl hl, ihr hr]
  | op k l r ihl ihr =>
    simp only [Prog.build, bind, Except.bind] at h
    cases hl : l.build with
    | error x => rw [hl] at h; cases h
    | ok a =>
      rw [hl] at h; dsimp only at h
      cases hr : r.build with
      | error x => rw [hr] at h; cases h
      | ok b =>
        rw [hr] at h; dsimp only at h
        rw [mkBin_eval h, ihl hl, ihr hr]; rfl
  | sub l r ihl ihr =>
    simp only [Prog.build, bind, Except.bind] at h
    cases hl : l.build with
    | error x => rw [hl] at h; cases h
    | ok a =>
      rw [hl] at h; dsimp only at h
      cases hr : r.build with
      | error x => rw [hr] at h; cases h
      | ok b =>
        rw [hr] at h
        simp only [pure, Except.pure, Except.ok.injEq] at h; subst h
        simp [mkSub_eval, Prog.sem, ihl hl, ihr hr]
  | neg a iha =>
    simp only [Prog.build, bind, Except.bind] at h
    cases ha : a.build with
    | error x => rw [ha] at h; cases h
    | ok a' =>
      rw [ha] at h
      simp only [pure, Except.pure, Except.ok.injEq] at h; subst h
      simp [mkNeg_eval, Prog.sem, iha ha]

/-! ## simplifying -/

/-- `flatten_denotes`: the row the flattener leaves for `e` — coefficients of the dimensions, the
symbols and the local (floordiv/ceildiv) expressions, and a constant — denotes the value of `e` at
every assignment: `row · (dims, syms, eval locals, 1) = eval e`. -/
theorem flatten_denotes {nd ns : Nat} {e : Expr} {L0 L1 : List Expr} {row : Row}
    (h : flat nd ns e L0 = .ok (row, L1)) (ρd ρs : Nat → Int) :
    dot row.co (colVals ρd ρs nd ns L1) + row.k = eval ρd ρs e :=
  (flat_spec e h).2.2 ρd ρs

/-- "simplifying them": whenever `simplify(nd, ns)` returns, the result has the value of the
original expression at every assignment. -/
theorem simplify_eval {nd ns : Nat} {e e' : Expr} (h : simplify nd ns e = .ok e')
    (ρd ρs : Nat → Int) : eval ρd ρs e' = eval ρd ρs e := by
  unfold simplify at h
  split at h
  · cases h
  simp only [bind, Except.bind] at h
  cases hf : flat nd ns e [] with
  | error x => rw [hf] at h; cases h
  | ok out =>
    obtain ⟨row, L⟩ := out
    rw [hf] at h; dsimp only at h
    rw [fromFlat_eval ρd ρs h]
    exact (flat_spec e hf).2.2 ρd ρs

/-- … and it does return on every expression inside the statement (positions below `nd` / `ns`,
multiplication by a constant on the right, floordiv/ceildiv/mod by a positive constant). -/
theorem simplify_total {nd ns : Nat} {e : Expr} (h : InScope nd ns e) :
    ∃ e', simplify nd ns e = .ok e' := by
  obtain ⟨⟨row, L⟩, hf⟩ := flat_total h []
  obtain ⟨e', he'⟩ := fromFlat_ok (nd := nd) (ns := ns) (L := L) (row := row) (flat_spec e hf).2.1
  exact ⟨e', by simp [simplify, h.pureAffine, bind, Except.bind, hf, he']⟩

/-- What the smart constructors build from in-range leaves, constant multipliers and positive
constant divisors is inside `InScope` only up to the constructor's own rewrites; the direct
statement covering *every* tree for which `simplify` returns is `simplify_eval`. -/
example : InScope 3 2 (.bin .mod (.bin .add (.bin .mul (.dim 0) (.const 4)) (.sym 1)) (.const 8)) :=
  .div rfl (.add (.mul 4 (.dim (by omega))) (.sym (by omega))) (by omega)

/-- Build programs of the statement: leaves with positions below `nd` / `ns` (or any expression
already in scope), `+`, `-`, unary `-`, multiplication with a constant operand on either side,
floordiv / ceildiv / mod by a positive constant. -/
inductive Prog.InStatement (nd ns : Nat) : Prog → Prop
  | leaf {e : Expr} : InScope nd ns e → Prog.InStatement nd ns (.leaf e)
  | add {l r : Prog} : Prog.InStatement nd ns l → Prog.InStatement nd ns r →
      Prog.InStatement nd ns (.op .add l r)
  | sub {l r : Prog} : Prog.InStatement nd ns l → Prog.InStatement nd ns r →
      Prog.InStatement nd ns (.sub l r)
  | neg {a : Prog} : Prog.InStatement nd ns a → Prog.InStatement nd ns (.neg a)
  | mulR {l : Prog} (c : Int) : Prog.InStatement nd ns l →
      Prog.InStatement nd ns (.op .mul l (.leaf (.const c)))
  | mulL {r : Prog} (c : Int) : Prog.InStatement nd ns r →
      Prog.InStatement nd ns (.op .mul (.leaf (.const c)) r)
  | div {k : Kind} {l : Prog} {c : Int} : k.isDivLike = true → Prog.InStatement nd ns l → 0 < c →
      Prog.InStatement nd ns (.op k l (.leaf (.const c)))

/-- every such program builds (no exception) an expression `simplify` accepts … -/
theorem build_inScope {nd ns : Nat} {p : Prog} (h : Prog.InStatement nd ns p) :
    ∃ e, p.build = .ok e ∧ InScope nd ns e := by
  induction h with
  | leaf he => exact ⟨_, rfl, he⟩
  | add _ _ ihl ihr =>
    obtain ⟨a, ha, sa⟩ := ihl
    obtain ⟨b, hb, sb⟩ := ihr
    exact ⟨mkAdd a b, by simp [Prog.build, bind, Except.bind, ha, hb, mkBin, pure, Except.pure],
      inScope_mkAdd sa sb⟩
  | sub _ _ ihl ihr =>
    obtain ⟨a, ha, sa⟩ := ihl
    obtain ⟨b, hb, sb⟩ := ihr
    exact ⟨mkSub a b, by simp [Prog.build, bind, Except.bind, ha, hb, pure, Except.pure],
      inScope_mkSub sa sb⟩
  | neg _ ih =>
    obtain ⟨a, ha, sa⟩ := ih
    exact ⟨mkNeg a, by simp [Prog.build, bind, Except.bind, ha, pure, Except.pure], inScope_mkNeg sa⟩
  | mulR c _ ih =>
    obtain ⟨a, ha, sa⟩ := ih
    obtain ⟨m, hm⟩ := (mkMul_const_ok a c).1
    exact ⟨m, by simp [Prog.build, bind, Except.bind, ha, mkBin, pure, Except.pure, hm],
      inScope_mkMul sa (.const c) hm⟩
  | mulL c _ ih =>
    obtain ⟨a, ha, sa⟩ := ih
    obtain ⟨m, hm⟩ := (mkMul_const_ok a c).2
    exact ⟨m, by simp [Prog.build, bind, Except.bind, ha, mkBin, pure, Except.pure, hm],
      inScope_mkMul (.const c) sa hm⟩
  | @div k l c hk _ hc ih =>
    obtain ⟨a, ha, sa⟩ := ih
    obtain ⟨m, hm⟩ := mkDiv_const_ok hk a (y := c) (by omega)
    refine ⟨m, ?_, inScope_mkDiv hk sa hc hm⟩
    cases k <;> simp_all [Prog.build, bind, Except.bind, mkBin, pure, Except.pure, Kind.isDivLike]

/-- … so building with the operations of the statement and then simplifying never raises, and the
simplified expression has the arithmetic meaning of the program at every assignment. -/
theorem build_simplify_eval {nd ns : Nat} {p : Prog} (h : Prog.InStatement nd ns p) :
    ∃ e s, p.build = .ok e ∧ simplify nd ns e = .ok s ∧
      ∀ ρd ρs, eval ρd ρs e = p.sem ρd ρs ∧ eval ρd ρs s = p.sem ρd ρs := by
  obtain ⟨e, he, hs⟩ := build_inScope h
  obtain ⟨s, hsim⟩ := simplify_total hs
  exact ⟨e, s, he, hsim, fun ρd ρs => ⟨build_eval he ρd ρs, by rw [simplify_eval hsim, build_eval he]⟩⟩

/-! ## replacing dimensions and symbols, composing with maps -/

/-- "replacing dimensions and symbols": whenever it returns, the new expression evaluated at an
assignment equals the old expression evaluated at the assignment in which every replaced
dimension/symbol takes the value of its replacement (positions beyond the lists are kept). -/
theorem replace_eval {nd ns : List Expr} {e e' : Expr} (h : replace nd ns e = .ok e')
    (ρd ρs : Nat → Int) :
    eval ρd ρs e' = eval (substEnv ρd ρs nd ρd) (substEnv ρd ρs ns ρs) e := replace_eval' h ρd ρs

/-- "composing them with affine maps" (`AffineExpr.compose`): the composed expression at a point is
the expression at the image of the point under the map (symbols unchanged). -/
theorem compose_eval {e e' : Expr} {m : Map} (h : compose e m = .ok e') (ρd ρs : Nat → Int) :
    eval ρd ρs e' = eval (substEnv ρd ρs m.results ρd) ρs e := by
  have := replace_eval' h ρd ρs
  rwa [substEnv_nil] at this

/-- the symbols of `other` are renumbered behind those of `self` in `AffineMap.compose` -/
def shiftSyms (n k : Nat) (ρs : Nat → Int) : Nat → Int :=
  fun s => if s < k then ρs (n + s) else ρs s

/-- `AffineMap.compose`: result `i` of `self.compose(other)` at `(dims, syms)` is result `i` of
`self` at `(other(dims, syms[self.num_symbols:]), syms)`; the dimension/symbol counts are those the
docstring states. -/
theorem map_compose_eval {self other m : Map} (h : Map.compose self other = .ok m)
    (ρd ρs : Nat → Int) :
    m.numDims = other.numDims ∧ m.numSyms = self.numSyms + other.numSyms ∧
    m.results.length = self.results.length ∧
    ∀ (i : Nat) (e' : Expr), m.results[i]? = some e' →
      ∃ e, self.results[i]? = some e ∧
        eval ρd ρs e' =
          eval (fun p => match other.results[p]? with
                  | some x => eval ρd (shiftSyms self.numSyms other.numSyms ρs) x
                  | none => ρd p) ρs e := by
  unfold Map.compose at h
  split at h
  · cases h
  simp only [bind, Except.bind, Map.replace] at h
  cases hn : mapM' (replace ((List.range other.numDims).map Expr.dim)
      ((List.range other.numSyms).map fun s => Expr.sym (self.numSyms + s))) other.results with
  | error x => rw [hn] at h; cases h
  | ok newRes =>
    rw [hn] at h
    simp only [pure, Except.pure] at h
    generalize hnm : Map.mk other.numDims (self.numSyms + other.numSyms) newRes = newMap at h
    have hnr : newMap.results = newRes := by subst hnm; rfl
    cases hr : mapM' (fun e => compose e newMap) self.results with
    | error x => rw [hr] at h; cases h
    | ok res =>
      rw [hr] at h
      simp only [Except.ok.injEq] at h; subst h
      obtain ⟨hlen1, hall1⟩ := mapM'_ok hn
      obtain ⟨hlen2, hall2⟩ := mapM'_ok hr
      refine ⟨rfl, rfl, hlen2, fun i e' hi => ?_⟩
      obtain ⟨e, he, hc⟩ := hall2 i e' hi
      refine ⟨e, he, ?_⟩
      rw [compose_eval hc, hnr]
      congr 1
      funext p
      simp only [substEnv]
      cases hp : newRes[p]? with
      | none =>
        have : other.results[p]? = none := by
          rw [List.getElem?_eq_none_iff] at hp ⊢; omega
        simp [this]
      | some y =>
        obtain ⟨x, hx, hxy⟩ := hall1 p y hp
        simp only [hx]
        rw [replace_eval' hxy]
        congr 1
        · funext q
          simp only [substEnv, List.getElem?_map]
          cases hq : (List.range other.numDims)[q]? with
          | none => simp
          | some q' =>
            have : q' = q := by
              rw [List.getElem?_eq_some_iff] at hq
              obtain ⟨hlt, hq⟩ := hq
              simpa using hq.symm
            simp [this, eval]
        · funext q
          simp only [substEnv, shiftSyms, List.getElem?_map]
          by_cases hq : q < other.numSyms
          · simp [hq, eval]
          · simp [hq]

/-! ## `eval` with Python's exceptions -/

/-- `AffineExpr.eval(dims, symbols)` on sequences: when it returns (no `IndexError`, no
`ZeroDivisionError`) the value is `eval` under the assignment given by the sequences. -/
theorem evalPy_sound {ds ss : List Int} {e : Expr} {v : Int} (h : evalPy ds ss e = .ok v) :
    v = eval (fun p => ds.getD p 0) (fun p => ss.getD p 0) e := evalPy_eq_eval h

/-! ## non-vacuity -/

/-- the docstring examples of the flattener: `(d0 - d0 mod 4 + 4) mod 4` simplifies (to `0`),
`(d0*4 + 6) floordiv 8` cancels the gcd; `simplify` returns on both -/
example : ∃ e, simplify 3 2
    (.bin .mod (.bin .add (.bin .add (.dim 0) (.bin .mul (.bin .mod (.dim 0) (.const 4)) (.const (-1))))
      (.const 4)) (.const 4)) = .ok e :=
  simplify_total (.div rfl (.add (.add (.dim (by omega)) (.mul _ (.div rfl (.dim (by omega)) (by omega))))
    (.const 4)) (by omega))

example : mkAdd (.bin .add (.dim 0) (.const 3)) (.const (-3)) = .dim 0 := by decide
example : mkMul (.const 2) (.bin .add (.dim 0) (.const 3))
    = .ok (.bin .add (.bin .mul (.dim 0) (.const 2)) (.const 6)) := by rfl
example : mkMul (.dim 0) (.dim 1) = .error .notImplemented := by rfl
example : eval (fun _ => -7) (fun _ => 0) (.bin .floordiv (.dim 0) (.const 2)) = -4
    ∧ eval (fun _ => -7) (fun _ => 0) (.bin .ceildiv (.dim 0) (.const 2)) = -3
    ∧ eval (fun _ => -7) (fun _ => 0) (.bin .mod (.dim 0) (.const 2)) = 1 := by decide

end Xdsl.Affine
