import XdslModel.LowerAffine
import XdslProofs.Lemmas.LowerAffine
/-!
C16 — affine lowering at the level of the emitted operations (`lower_affine.py`:
`LowerAffineApply.match_and_rewrite`, `affine_expr_ops`, `insert_affine_map_ops`): which SSA operand
each dimension / symbol of the map is bound to, and what the emitted `arith` operations compute.
(`C16Lowering.lower_affine_sound_partial` is the value-level statement for one kind of variable.)
-/
namespace Xdsl.C16.LowerAffineOps
open Xdsl.LowerAffine

/-- "every valid program they accept": `LowerAffineApply` raises (`IndexError`) exactly when the
expression mentions a dimension ≥ `num_dims` or a symbol ≥ `num_symbols` — a map the verifier of
`affine.apply` accepts (`num_dims + num_symbols = #operands`, positions in range) is always lowered. -/
theorem lower_affine_apply_accepts_iff (nd ns : Nat) (e : Expr) :
    (applyLower nd (operandVals (nd + ns)) e).isSome = true ↔ e.wf nd ns = true := by
  have hd : ((operandVals (nd + ns)).take nd).length = nd := by simp [operandVals]
  have hs : ((operandVals (nd + ns)).drop nd).length = ns := by simp [operandVals]
  constructor
  · intro h
    have := exprOps_isSome_wf _ _ e 0 h
    rwa [hd, hs] at this
  · intro h
    apply exprOps_isSome
    rwa [hd, hs]

/-- "returns the same results … for every input", operand binding of `affine.apply`: for operand
values `args` (`num_dims + num_symbols` of them) the emitted operations run without getting stuck,
and the SSA value that replaces the result of `affine.apply` holds the expression read with the
emitted `arith` operations where **dimension `p` is operand `p` and symbol `q` is operand
`num_dims + q`**. -/
theorem lower_affine_apply_binding (nd ns : Nat) (args : List Int) (e : Expr)
    (hlen : args.length = nd + ns) (hwf : e.wf nd ns = true) :
    ∃ ins v tmps, applyLower nd (operandVals (nd + ns)) e = some (ins, v)
      ∧ runInstrs args ins [] = some tmps ∧ tmps.length = ins.length
      ∧ v.get args tmps = some (e.evalLowered (fun p => args.getD p 0) (fun q => args.getD (nd + q) 0)) := by
  have hs := (lower_affine_apply_accepts_iff nd ns e).2 hwf
  cases h : applyLower nd (operandVals (nd + ns)) e with
  | none => rw [h] at hs; cases hs
  | some r =>
    obtain ⟨ins, v⟩ := r
    obtain ⟨new, run, len, val⟩ := exprOps_run args _ _ (dimEnv args) (symEnv nd args)
      (binds_take args nd (nd + ns) hlen) (binds_drop args nd (nd + ns) hlen) e [] ins v h
    refine ⟨ins, v, new, rfl, by simpa using run, len, ?_⟩
    have hv := val []
    simp only [List.nil_append, List.append_nil] at hv
    exact hv

/-- "affine lowering … returns the same results": at every point where the affine expression is
defined (positive divisors) and every `mod` has a non-negative left operand, the value that replaces
the result of `affine.apply map (dims)[syms]` is the value of the map at dims = the first `num_dims`
operands, symbols = the remaining operands.
PARTIAL: without the hypothesis on `mod` the statement is false of the code (`mod` is emitted as a
bare `arith.remsi`; known finding, `C16.lower_affine_mod_counterexample`); index wrap-around at 64 bits
is not modelled. -/
theorem lower_affine_apply_sound_partial (nd ns : Nat) (args : List Int) (e : Expr)
    (hlen : args.length = nd + ns) (hwf : e.wf nd ns = true)
    (hsafe : e.safe (fun p => args.getD p 0) (fun q => args.getD (nd + q) 0) = true) :
    ∃ ins v tmps, applyLower nd (operandVals (nd + ns)) e = some (ins, v)
      ∧ runInstrs args ins [] = some tmps
      ∧ v.get args tmps = some (e.eval (fun p => args.getD p 0) (fun q => args.getD (nd + q) 0)) := by
  obtain ⟨ins, v, tmps, h1, h2, _, h4⟩ := lower_affine_apply_binding nd ns args e hlen hwf
  exact ⟨ins, v, tmps, h1, h2, by rw [h4, evalLowered_eq_eval _ _ e hsafe]⟩

/-- `affine.load` / `affine.store` (`insert_affine_map_ops`): the `i`-th index handed to
`memref.load/store` is the `i`-th result expression of the map with dimension `p` = index operand
`p` (maps with symbols are refused: `wf n 0`).
PARTIAL: as above for `mod`. -/
theorem lower_affine_map_sound_partial (n : Nat) (args : List Int) (es : List Expr)
    (hlen : args.length = n) (ins : List Instr) (vs : List Val)
    (h : mapOps (operandVals n) 0 es = some (ins, vs))
    (hsafe : ∀ e ∈ es, e.safe (fun p => args.getD p 0) (fun _ => 0) = true) :
    ∃ tmps, runInstrs args ins [] = some tmps
      ∧ vs.map (fun v => v.get args tmps) = es.map (fun e => some (e.eval (fun p => args.getD p 0) (fun _ => 0))) := by
  have hb : Binds args (operandVals n) (dimEnv args) := by
    have := binds_take args n n hlen
    rwa [List.take_of_length_le (by simp [operandVals])] at this
  obtain ⟨new, run, _, val⟩ := mapOps_run args _ (dimEnv args) (fun _ => 0) hb es [] ins vs h
  refine ⟨new, by simpa using run, ?_⟩
  have := val []
  simp only [List.nil_append, List.append_nil] at this
  rw [this]
  apply List.map_congr_left
  intro e he
  exact congrArg some (evalLowered_eq_eval _ _ e (hsafe e he))

/-- the binding matters (non-vacuity of `lower_affine_apply_binding`): splitting the operands of
`affine_map<(d0, d1)[s0] -> (d0 * 8 + d1 + s0 * 64)>` at `num_symbols` instead of `num_dims` binds
`s0` to the operand of `d1`; at (1, 2)[3] the map's value is 202, the mis-bound code computes 138. -/
theorem lower_affine_apply_missplit_counterexample :
    let e : Expr := .bin .add (.bin .add (.bin .mul (.dim 0) (.const 8)) (.dim 1)) (.bin .mul (.sym 0) (.const 64))
    let ops := operandVals 3
    e.eval (dimEnv [1, 2, 3]) (symEnv 2 [1, 2, 3]) = 202
    ∧ (match applyLower 2 ops e with
        | some (ins, v) => (runInstrs [1, 2, 3] ins []).bind (v.get [1, 2, 3]) | none => none) = some 202
    ∧ (match exprOps (ops.take 2) (ops.drop 1) 0 e with
        | some (ins, v) => (runInstrs [1, 2, 3] ins []).bind (v.get [1, 2, 3]) | none => none) = some 138 := by
  decide

example : (applyLower 0 (operandVals 1) (.sym 0)).isSome = true := by decide
example : (applyLower 1 (operandVals 1) (.sym 0)) = none := by decide
example : (Expr.bin .add (.bin .mod (.dim 0) (.const 4)) (.bin .ceildiv (.sym 1) (.const 3))).safe
    (fun p => [7, 1, -5].getD p 0) (fun q => [7, 1, -5].getD (1 + q) 0) = true := by decide

end Xdsl.C16.LowerAffineOps
