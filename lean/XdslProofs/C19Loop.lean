import XdslProofs.Lemmas.RegAllocLoopStack
import XdslProofs.Lemmas.RegAllocLoopSem
import XdslProofs.Lemmas.RegAllocLoopTop
/-!
# C19 — the structured-loop part of the register allocator

"After RISC-V or x86 register allocation succeeds, at every program point no two simultaneously live
values hold the same physical register …, pre-assigned and reserved registers are respected, and
executing the allocated code with register semantics computes the same results as before allocation."

`XdslModel/RegAllocLoop.lean` models `BlockNaiveAllocator.allocate_block` over blocks with
`riscv_scf.for` / `riscv_snitch.frep_outer` loops: `ForRofOperation.allocate_registers`
(`live_ins_per_block` first, one register for every (block argument, iter_arg, yield operand, result),
induction variable, `ub`, `step`, `reserve_registers` around the body, `lb` last) on the full
`RegisterStack` with reservation counts.  The theorems of this file are about that model
(driver model `regalloc_loop`, compared with the real allocator on every generated function).
-/
namespace Xdsl.RegAllocLoop
open Xdsl.RegMachine Xdsl.RegAlloc

/-! ## The validator for blocks with loops extends the straight-line validator -/

/-- On a block without loops `validateL` is the validator of `XdslProofs.C19` (`validator_sound`,
`no_shared_register`, `zero_reg_sound` speak about it). -/
theorem validateL_flat (z : Bool) (a : ValId → Reg) (p : Prog) :
    validateL z a { args := p.args, body := LT.ofOps p.ops, rets := p.rets } = validate z a p := by
  simp only [validateL, validate, checkT_ofOps]
  cases checkOps z a [] p.ops p.rets <;> rfl

/-- **The validator for blocks with loops is sound** ("executing the allocated code with register
semantics computes the same results as before allocation"): if `validateL` accepts an assignment then,
for every instruction semantics, every meaning of the loop test and of the increment, every `frep`
count function, all inputs, every initial content of the other registers and every amount of fuel,
the register machine — loops lowered as `convert-riscv-scf-to-riscv-cf` does: `mv iv, lb`; test; body;
`iv += step`; test; block arguments, yielded values and results carried by register identity — returns
what the SSA execution returns (and runs out of fuel exactly when the SSA execution does): for EVERY
trip count of every loop, not only along one unrolled path. -/
theorem validatorL_sound (z : Bool) (a : ValId → Reg) (p : LProg) (h : validateL z a p = true) :
    ∀ (m : LSem) (fuel : Nat) (inputs : List Word) (rf0 : Reg → Word), inputs.length = p.args.length →
      execR z a m fuel p inputs rf0 = execT m fuel p inputs := by
  intro m fuel inputs rf0 hlen
  unfold validateL at h
  split at h
  · exact absurd h (by simp)
  · rename_i L0 hL0
    simp only [Bool.and_eq_true, List.all_eq_true, List.contains_eq_mem, decide_eq_true_eq,
      Bool.or_eq_true, Bool.not_eq_true', bne_iff_ne, ne_eq] at h
    obtain ⟨⟨hsub, hnd⟩, hz⟩ := h
    have hz' : z = true → ∀ x ∈ p.args, a x ≠ 0 := by
      intro hzt
      rcases hz with hz | hz
      · rw [hzt] at hz; exact absurd hz (by simp)
      · exact hz
    have h0 := init_agree (z := z) (alloc := a) p.args inputs rf0 hlen hnd hz'
    have hag0 : Agree z a (initRegs z a p.args inputs rf0) (initEnv p.args inputs) L0 :=
      fun v hv => h0 v (hsub v hv)
    have := (sim_fuel z a m fuel).1 p.body [] p.rets L0 _ _ hL0 hag0 (fun v hv => by simp at hv)
    unfold execR execT
    revert this
    cases runT m fuel .start (initEnv p.args inputs) p.body <;>
      cases runR z a m fuel .start (initRegs z a p.args inputs rf0) p.body <;> simp only [SimRes]
    · intro _; rfl
    · exact fun h => h.elim
    · exact fun h => h.elim
    · rintro ⟨hag, _⟩
      simp only [Option.map_some, Option.some.injEq]
      exact List.map_congr_left hag

/-! ## (c) live-ins keep one register -/

/-- **"live-ins keep one register throughout the body"**: every value that is used in the body of a
loop and defined outside it (`live_ins_per_block`) has a register before the body is allocated, and it
has the same register when the body is entered, when the body is left and when the loop operation is
done.  More generally (`allocT_ext`) the allocation of any block, at any nesting depth, never changes
the register of a value that has one — hence the register is the same at EVERY point of the body. -/
theorem live_ins_keep_register {x : Ctx} {h : Loop} {body next : LT} {s s' : LSt}
    (hrun : allocT x s (.loop h body next) = .ok s') :
    ∃ sIn sOut : LSt, allocT x sIn body = .ok sOut ∧
      ∀ v ∈ liveIns h body, ∃ r, AL.get sIn.st.asg v = some r ∧ AL.get sOut.st.asg v = some r
        ∧ AL.get s'.st.asg v = some r := by
  obtain ⟨s1, sLive, sPre, sOut, s6, _, hlive, e1, hbody, hun, e2⟩ := allocT_loop_split hrun
  refine ⟨_, sOut, hbody, ?_⟩
  intro v hv
  obtain ⟨r, hr⟩ := Option.isSome_iff_exists.1 (foldL_allocValueR_assigned x _ _ _ hlive v hv)
  have hIn : AL.get ((regsOf sPre h.inits).foldl reserveR sPre).st.asg v = some r := by
    rw [reserveFold_asg]; exact e1 v r hr
  have hOut := allocT_ext x body _ _ hbody v r hIn
  have h6 : AL.get s6.st.asg v = some r :=
    foldL_ext _ (fun s r s' hh => lext_of_asg (unreserveR_asg hh)) _ _ _ hun v r hOut
  exact ⟨r, hIn, hOut, e2 v r h6⟩

/-- … and the same for EVERY value that has a register when the body is entered (the loop-carried
groups, the induction variable, `ub`, `step`, everything live across the loop). -/
theorem body_keeps_registers {x : Ctx} {body : LT} {sIn sOut : LSt} (hbody : allocT x sIn body = .ok sOut) :
    ∀ v r, AL.get sIn.st.asg v = some r → AL.get sOut.st.asg v = some r :=
  allocT_ext x body sIn sOut hbody

/-! ## (b) reserved loop-carried registers are never handed out inside the body -/

/-- **"reserved loop-carried registers are never handed out inside the body"**, any nesting depth:
`sPre` is the state in which `reserve_registers(self.iter_args.types)` is entered.  While the body is
allocated (the stack calls logged between `sIn` and `sOut`) no `RegisterStack.pop` returns a register
of an iter_arg, and every such register is still reserved when the body is left — also when loops
nested in the body reserve and un-reserve the same register. -/
theorem reserved_never_handed_out {x : Ctx} {h : Loop} {body next : LT} {s s' : LSt}
    (hpos : RPos s) (hrun : allocT x s (.loop h body next) = .ok s') :
    ∃ sPre sOut : LSt, ∃ l : List (SOp × SOut),
      allocT x ((regsOf sPre h.inits).foldl reserveR sPre) body = .ok sOut
      ∧ sOut.log = l ++ ((regsOf sPre h.inits).foldl reserveR sPre).log
      ∧ ∀ r ∈ regsOf sPre h.inits, (SOp.pop, SOut.reg r) ∉ l ∧ sOut.isReserved r = true := by
  simp only [allocT] at hrun
  split at hrun
  · exact absurd hrun (by simp)
  rename_i s1 hs1
  split at hrun
  · exact absurd hrun (by simp)
  rename_i s2 hs2
  split at hrun
  · exact absurd hrun (by simp)
  rename_i s3 hs3
  split at hrun
  · exact absurd hrun (by simp)
  rename_i s4 hs4
  split at hrun
  · exact absurd hrun (by simp)
  rename_i s5 hs5
  have r1 := allocT_restored x next _ _ hpos hs1
  have r2 := Restored.of_kept r1.pos (foldL_kept _ (fun s v s' hh => allocValueR_kept hh) _ _ _ hs2)
  have r3 := Restored.of_kept r2.pos (foldL_kept _ (fun s v s' hh => sameRegN_kept hh) _ _ _ hs3)
  have r4 := Restored.of_kept r3.pos (foldL_kept _ (fun s v s' hh => allocValueR_kept hh) _ _ _ hs4)
  have hp4r := reserveFold_pos (regsOf s4 h.inits) s4 r4.pos
  have r5 := allocT_restored x body _ _ hp4r hs5
  obtain ⟨l, hl, hn⟩ := r5.nopop
  refine ⟨s4, s5, l, hs5, hl, ?_⟩
  intro r hr
  have hres := reserveFold_isReserved _ s4 r hr
  have hc := (isReserved_iff_cnt hp4r r).1 hres
  exact ⟨hn r hc, (isReserved_iff_cnt r5.pos r).2 (by rw [r5.cnt r]; exact hc)⟩

/-! The same through `RegisterStack` itself, using `reserved_window` of `XdslProofs.C19Stack`: the
logged calls are a run of the `RegisterStack` model (`allocT_replays`); a body without nested loops
never un-reserves, so from the moment of the reservation the register is reserved, not available
and not returned by any `pop`. -/

/-- (b) for a loop whose body has no nested loop, by `reserved_window`: the stack calls of the body
are a run `srun` of the `RegisterStack` model from the stack with the reservations made; a reserved
iter_arg register that is not available then (the documented contract "never reserve an available
register") is returned by no `pop` of that run and is neither available nor un-reserved at its end. -/
theorem reserved_window_body {x : Ctx} {h : Loop} {os : List Op} {next : LT} {s s' : LSt}
    (hrun : allocT x s (.loop h (LT.ofOps os) next) = .ok s') :
    ∃ sPre sOut : LSt, ∃ calls : List SOp, ∃ outs : List SOut,
      allocT x ((regsOf sPre h.inits).foldl reserveR sPre) (LT.ofOps os) = .ok sOut
      ∧ srun x.c ((regsOf sPre h.inits).foldl reserveR sPre).stack calls = (sOut.stack, outs)
      ∧ ∀ r ∈ regsOf sPre h.inits, r ∉ sPre.st.avail →
          sOut.stack.isReserved r = true ∧ r ∉ sOut.st.avail ∧ SOut.reg r ∉ outs := by
  obtain ⟨s1, sLive, sPre, sOut, s6, _, _, _, hbody, _, _⟩ := allocT_loop_split hrun
  obtain ⟨l, hl, hrun'⟩ := allocT_replays x _ _ _ hbody
  obtain ⟨l', hl', hno⟩ := allocT_flat_log x os _ _ hbody
  have hll : l = l' := List.append_cancel_right (hl.symm.trans hl')
  subst hll
  refine ⟨sPre, sOut, _, _, hbody, hrun', ?_⟩
  intro r hr hna
  have hres : ((regsOf sPre h.inits).foldl reserveR sPre).stack.isReserved r = true :=
    reserveFold_isReserved _ sPre r hr
  have hav : r ∉ ((regsOf sPre h.inits).foldl reserveR sPre).stack.avail := by
    have : ((regsOf sPre h.inits).foldl reserveR sPre).st = sPre.st := reserveFold_st _ _
    show r ∉ ((regsOf sPre h.inits).foldl reserveR sPre).st.avail
    rw [this]; exact hna
  have hw := Stack.reserved_window x.c r (l.reverse.map Prod.fst) _ hres hav (by
    intro o ho
    obtain ⟨e, he, rfl⟩ := List.mem_map.1 ho
    exact hno e (List.mem_reverse.1 he) r)
  rw [hrun'] at hw
  exact hw

/-! ## (a) a disciplined loop nest that is allocated passes the validator -/

/-- **`alloc_no_interference` for blocks with loops** — the model of `BlockNaiveAllocator.allocate_block`
with `ForRofOperation.allocate_registers` (`riscv_scf.for` at any nesting depth): live-ins first, the
loop-carried groups by `allocate_values_same_reg` whichever members already have a register, induction
variable, bounds, the reservations around the body, `free_value(iv)`, `lb`; LIFO `RegisterStack` with
reservation counts, pool exclusion of pre-assigned and declared registers, the RISC-V zero-register rule
asked in the current state, infinite registers.

Assumptions: `thmHyps` (decidable; evaluated by the check on every generated case): pool / pre-assigned
registers are real registers, arguments are pre-assigned, SSA form and scoping, `riscv_scf.for` loops only
(no `frep`), no in/out instructions, loop-carried values local to their loop — a yielded value is not
live throughout the loop and is yielded once, bounds are not loop-carried, results are new — and no
loop-carried value is a zero constant; and the input can be allocated at all: SOME assignment `a0`
extending the pre-assignment passes the validator for blocks with loops (`hfeas`; for `a0 :=` the most
permissive assignment this is the in/out discipline `Disciplined`, see the corollary).

Conclusion: for EVERY pool and stack order, whenever the allocator succeeds, its result passes
`validateL` — hence by `validatorL_sound` register execution = SSA execution for every trip count, no two
live values share a register —, keeps every pre-assigned register and gives a register to every value.

`_partial`: not covered are `frep` loops, x86 in/out instructions inside loop nests, loop-carried
groups that contain a zero constant (the common `iter_args(%acc = %zero)` with `%zero = li 0` is in this
class: the allocator may put such a group into `zero`, which the validator for loops never accepts) and
yields of values that are live throughout the loop. -/
theorem alloc_loops_no_interference_partial (c : Cfg) (pool excl : List Reg) (pre : AL ValId Reg)
    (p : LProg) (s : LSt) (a0 : ValId → Reg)
    (hhyp : thmHyps c pool pre p = true)
    (hext0 : ∀ v r, AL.get pre v = some r → a0 v = r)
    (hfeas : validateL c.z a0 p = true)
    (h : allocFunc c pool excl pre p = .ok s) :
    validateL c.z (allocOf s.st.asg) p = true
    ∧ (∀ v r, AL.get pre v = some r → AL.get s.st.asg v = some r)
    ∧ (∀ v ∈ p.values, (AL.get s.st.asg v).isSome = true) := by
  -- the hypotheses
  unfold thmHyps at hhyp
  simp only [Bool.and_eq_true, List.all_eq_true, decide_eq_true_eq, Bool.or_eq_true,
    Bool.not_eq_true', bne_iff_ne, ne_eq, List.contains_eq_mem] at hhyp
  obtain ⟨⟨⟨⟨⟨⟨⟨hpool, hpreLt'⟩, hbase'⟩, hargs⟩, hwfB⟩, hzclB⟩, hzcokB⟩, hpre0'⟩ := hhyp
  have hpreLt : ∀ (v : ValId) (r : Nat), AL.get pre v = some r → r < c.infBase := by
    intro v r hv
    have hm : (v, r) ∈ pre := al_mem_of_get pre v r hv
    exact hpreLt' (v, r) hm
  have hbase : c.z = true → 0 < c.infBase := by
    intro hz
    rcases hbase' with h1 | h1
    · rw [hz] at h1; exact absurd h1 (by simp)
    · exact h1
  have hwf := wfB_sound _ _ _ _ hwfB
  have hzc := zclosedB_sound hzclB
  have hzcok := zcOkB_sound _ _ _ hzcokB
  have hpre0 : c.z = true → ∀ w ∈ (zinfo p.body {}).opres, AL.get pre w = some 0 →
      w ∈ zcOf (zinfo p.body {}) := by
    intro hz w hw h0
    rcases hpre0' with h1 | h1
    · rw [hz] at h1; exact absurd h1 (by simp)
    · rcases h1 w hw with h2 | h2
      · exact absurd h0 h2
      · exact h2
  -- the feasibility witness
  unfold validateL at hfeas
  split at hfeas
  · exact absurd hfeas (by simp)
  rename_i L0 hL0
  simp only [Bool.and_eq_true, List.all_eq_true, List.contains_eq_mem, decide_eq_true_eq] at hfeas
  obtain ⟨⟨hL0sub, hnd0⟩, hz0⟩ := hfeas
  have hL0eq := checkT_some _ _ _ _ hL0
  have hgood := goodT_of_check p.body [] p.rets L0 hL0 (pw_of_nodup_map hL0sub hnd0)
  -- static facts
  let A0 := pool.filter fun r => !(usedPreT pre p).contains r && !excl.contains r
  let U := valsT p.body ++ p.rets
  have hst : Static c pre A0 U := {
    zeroNotAlloc := fun hz hm => by
      have := (hpool 0 (List.mem_filter.1 hm).1).2
      rcases this with h1 | h1
      · rw [hz] at h1; exact absurd h1 (by simp)
      · exact h1 rfl
    allocLt := fun r hr => (hpool r (List.mem_filter.1 hr).1).1
    basePos := hbase
    preLt := hpreLt
    usedOut := fun v hv r hr hm => by
      have hused : r ∈ usedPreT pre p := by
        simp only [usedPreT, List.mem_filterMap]
        exact ⟨v, hv, hr⟩
      have := (List.mem_filter.1 hm).2
      simp [hused] at this }
  -- run the allocator
  unfold allocFunc at h
  split at h
  · exact absurd h (by simp)
  rename_i sR hsR
  have hTie0 : TiedT a0 p.body := tiedT_of_good _ _ _ hgood
  obtain ⟨hinvR, _⟩ := lfold_live (x := ctxOf c p) (Tie := fun a => TiedT a p.body) (T := p.rets) (P := [])
    hst hzc hext0 hTie0 (goodT_pw_out _ _ _ hgood) (fun _ p hp => by simp at hp) p.rets _ sR [] [] hsR
    (linv_init hpreLt hpre0) (fun v hv => List.mem_append_right _ hv) (fun v hv => hv)
    (fun w hw => by simp at hw) (fun v _ hv => by simp at hv)
  obtain ⟨V, hV, hinvF, _, hchk, _⟩ := allocT_inv (x := ctxOf c p) (Tie := fun a => TiedT a p.body)
    (af := allocOf s.st.asg) hst hzc hext0 hTie0 p.body [] p.rets sR s (p.rets.reverse ++ []) [] [] h
    (hinvR.mono (fun _ => Iff.rfl) (fun v hv => by simpa using hv)) hgood hzcok hwf (fun a ha => ha)
    (fun v hv => Or.inl (by simpa using hv)) (fun v hv => by simp at hv) (fun p hp => by simp at hp)
    (fun _ p hp => by simp at hp) (fun v r hv => allocOf_of_get hv)
  have hext : ∀ v r, AL.get pre v = some r → AL.get s.st.asg v = some r := hinvF.inv.ext
  have hargEq : ∀ a ∈ p.args, allocOf s.st.asg a = a0 a := by
    intro a ha
    obtain ⟨r, hr⟩ := Option.isSome_iff_exists.1 (hargs a ha)
    rw [allocOf_of_get (hext a r hr), hext0 a r hr]
  refine ⟨?_, hext, ?_⟩
  · unfold validateL
    have hchk' : checkT c.z (allocOf s.st.asg) [] p.body p.rets = some (liveT p.body p.rets) := hchk
    rw [hchk', ← hL0eq]
    simp only [Bool.and_eq_true, List.all_eq_true, List.contains_eq_mem, decide_eq_true_eq]
    have hmap : p.args.map (allocOf s.st.asg) = p.args.map a0 := List.map_congr_left hargEq
    refine ⟨⟨hL0sub, by rw [hmap]; exact hnd0⟩, ?_⟩
    simp only [Bool.or_eq_true, Bool.not_eq_true', List.all_eq_true, bne_iff_ne, ne_eq] at hz0 ⊢
    rcases hz0 with hz0 | hz0
    · exact Or.inl hz0
    · right
      intro a ha
      rw [hargEq a ha]
      exact hz0 a ha
  · intro v hv
    simp only [LProg.values, List.mem_append] at hv
    rcases hv with (hv | hv) | hv
    · obtain ⟨r, hr⟩ := Option.isSome_iff_exists.1 (hargs v hv)
      rw [hext v r hr]; rfl
    · exact hinvF.inv.allocd v ((hV v).2 (Or.inl hv))
    · exact hinvF.inv.allocd v ((hV v).2 (Or.inr (by simpa using hv)))

/-- **For every disciplined loop nest and every register stack: if allocation succeeds then the
validator accepts the result, and the register machine computes what the SSA execution computes —
for every instruction semantics, loop test, increment, input and every trip count of every loop.**
(`Disciplined` is the decidable in/out discipline; `thmHyps` the decidable side conditions of
`alloc_loops_no_interference_partial`.) -/
theorem disciplined_alloc_sound_partial (c : Cfg) (pool excl : List Reg) (pre : AL ValId Reg)
    (p : LProg) (s : LSt)
    (hhyp : thmHyps c pool pre p = true) (hdisc : Disciplined c.z pre p = true)
    (h : allocFunc c pool excl pre p = .ok s) :
    validateL c.z (allocOf s.st.asg) p = true
    ∧ (∀ v r, AL.get pre v = some r → AL.get s.st.asg v = some r)
    ∧ ∀ (m : LSem) (fuel : Nat) (inputs : List Word) (rf0 : Reg → Word), inputs.length = p.args.length →
        execR c.z (allocOf s.st.asg) m fuel p inputs rf0 = execT m fuel p inputs := by
  obtain ⟨h1, h2, _⟩ := alloc_loops_no_interference_partial c pool excl pre p s (canon pre p) hhyp
    (canon_ext pre p) hdisc h
  exact ⟨h1, h2, validatorL_sound c.z _ p h1⟩

/-! ## The known finding on the model

`riscv_scf.for` ties (block argument, iter_arg, yield operand, result) to one register whether or not
liveness allows it (known_findings.json: `ForRofOperation.allocate_registers`, "loop-carried values
are tied to one register although liveness forbids it").  Witness: the iter_arg `%0` is also read
inside the body and after the loop.

```
%0 = li 5 ; %1 = li 1 ; %2 = li 3
%6 = riscv_scf.for %3 = %1 to %2 step 1 iter_args(%4 = %0) { %5 = add %4, %0 ; yield %5 }
return %0
``` -/

def cexProg : LProg :=
  { args := [],
    body :=
      .op { zk := 0, code := 18, imm := 5, ins := [], outs := [0], ios := [] } <|
      .op { zk := 0, code := 18, imm := 1, ins := [], outs := [1], ios := [] } <|
      .op { zk := 0, code := 18, imm := 3, ins := [], outs := [2], ios := [] } <|
      .loop { lb := some 1, ub := some 2, iv := some 3, imm := 1, inits := [0], bargs := [4], yields := [5],
              res := [6] }
        (.op { zk := 0, code := 4, imm := 0, ins := [4, 0], outs := [5], ios := [] } .nil)
        .nil,
    rets := [0] }

def cexCfg : Cfg := { z := true, allowInf := false, infBase := 1000 }
/-- the default RISC-V stack, top first: t0, t1, t2, … -/
def cexPool : List Reg := [17, 16, 15, 14, 13, 12, 11, 10, 31, 30, 29, 28, 7, 6, 5]

/-- an instruction semantics: `li` (code 18) loads its immediate, everything else adds -/
def cexSem : LSem :=
  { f := fun code imm reads _ => if code = 18 then imm else reads.getD 0 0 + reads.getD 1 0,
    lt := fun a b => decide (a < b), add := fun a b => a + b, cnt := fun _ => 0 }

/-! Non-vacuity: the same loop with the discipline respected (`%0` is used by the loop only). -/

def okProg : LProg :=
  { args := [],
    body :=
      .op { zk := 0, code := 18, imm := 5, ins := [], outs := [0], ios := [] } <|
      .op { zk := 0, code := 18, imm := 1, ins := [], outs := [1], ios := [] } <|
      .op { zk := 0, code := 18, imm := 3, ins := [], outs := [2], ios := [] } <|
      .loop { lb := some 1, ub := some 2, iv := some 3, imm := 1, inits := [0], bargs := [4], yields := [5],
              res := [6] }
        (.op { zk := 0, code := 4, imm := 0, ins := [4, 3], outs := [5], ios := [] } .nil)
        .nil,
    rets := [6] }


/-- the assignment of a successful run -/
def asgOf : Except LErr LSt → Option (AL ValId Reg)
  | .ok s => some s.st.asg
  | .error _ => none

/-- what the model allocator (and the real one) answers for `cexProg` -/
def cexAsg : AL ValId Reg := [(1, 6), (2, 7), (3, 6), (6, 5), (5, 5), (4, 5), (0, 5)]

/-- **Counterexample (the known finding)**: the input is not disciplined, the allocator succeeds all
the same; the block argument `%4` and the value `%0`, both read by the `add` in the body, share `t0`
(register 5) with the result `%5` of that `add`; the validator rejects the assignment; and the register
machine returns 20 where the function returns 5. -/
theorem undisciplined_accepted_counterexample :
    Disciplined true [] cexProg = false
    ∧ asgOf (allocFunc cexCfg cexPool [] [] cexProg) = some cexAsg
    ∧ allocOf cexAsg 4 = 5 ∧ allocOf cexAsg 0 = 5 ∧ allocOf cexAsg 5 = 5
    ∧ validateL true (allocOf cexAsg) cexProg = false
    ∧ execT cexSem 40 cexProg [] = some [5]
    ∧ execR true (allocOf cexAsg) cexSem 40 cexProg [] (fun _ => 0) = some [20] := by
  refine ⟨by decide +kernel, by decide +kernel, by decide, by decide, by decide, by decide +kernel,
    by decide +kernel, by decide +kernel⟩

/-! Non-vacuity: the same loop with the discipline respected (`%0` is used by the loop only). -/

def okAsg : AL ValId Reg := [(1, 6), (2, 7), (3, 6), (5, 5), (0, 5), (4, 5), (6, 5)]

example : Disciplined true [] okProg = true
    ∧ asgOf (allocFunc cexCfg cexPool [] [] okProg) = some okAsg
    ∧ validateL true (allocOf okAsg) okProg = true
    ∧ execT cexSem 40 okProg [] = some [8]
    ∧ execR true (allocOf okAsg) cexSem 40 okProg [] (fun _ => 0) = some [8] := by
  refine ⟨by decide +kernel, by decide +kernel, by decide +kernel, by decide +kernel, by decide +kernel⟩

/-- Non-vacuity of the allocator theorem: `okProg` satisfies its hypotheses, so the allocation above is
valid and correct by the theorem (not only by evaluation), for every trip count. -/
example : thmHyps cexCfg cexPool [] okProg = true ∧ Disciplined cexCfg.z [] okProg = true := by
  constructor <;> decide +kernel

example (s : LSt) (h : allocFunc cexCfg cexPool [] [] okProg = .ok s) (m : LSem) (fuel : Nat) (rf0 : Reg → Word) :
    execR true (allocOf s.st.asg) m fuel okProg [] rf0 = execT m fuel okProg [] :=
  (disciplined_alloc_sound_partial cexCfg cexPool [] [] okProg s (by decide +kernel) (by decide +kernel) h).2.2
    m fuel [] rf0 rfl

/-- a two-level nest (the inner loop accumulates into the outer loop's block argument) passes the
hypotheses as well -/
def nestProg : LProg :=
  { args := [],
    body :=
      .op { zk := 0, code := 18, imm := 5, ins := [], outs := [0], ios := [] } <|
      .op { zk := 0, code := 18, imm := 1, ins := [], outs := [1], ios := [] } <|
      .op { zk := 0, code := 18, imm := 3, ins := [], outs := [2], ios := [] } <|
      .loop { lb := some 1, ub := some 2, iv := some 3, imm := 1, inits := [0], bargs := [4], yields := [9],
              res := [10] }
        (.op { zk := 0, code := 18, imm := 2, ins := [], outs := [5], ios := [] } <|
         .loop { lb := some 1, ub := some 5, iv := some 6, imm := 1, inits := [4], bargs := [7], yields := [8],
                 res := [9] }
           (.op { zk := 0, code := 4, imm := 0, ins := [7, 6], outs := [8], ios := [] } .nil)
           .nil)
        .nil,
    rets := [10] }

example : thmHyps cexCfg cexPool [] nestProg = true ∧ Disciplined cexCfg.z [] nestProg = true
    ∧ (asgOf (allocFunc cexCfg cexPool [] [] nestProg)).isSome = true := by
  refine ⟨by decide +kernel, by decide +kernel, by decide +kernel⟩

end Xdsl.RegAllocLoop
