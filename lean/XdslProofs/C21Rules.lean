import XdslProofs.Lemmas.X86Rules
import XdslModel.Sem
/-!
# C21 (rules) — every scalar-integer pattern of the x86 back end is sound, once and for all

Property clause: *"when called natively returns the result the source program computes for every
input"* — here for the LOWERINGS themselves instead of per compiled program.  For every rule of
`XdslModel/X86Rules.lean` (the harness compares what the rule emits with what the real pattern emits
on single-operation inputs, over operations × types × immediates × operand shapes):

  for ALL operand values and EVERY machine state that satisfies the rule's register precondition,
  executing the emitted sequence leaves the `BitVec` result of the source operation (MLIR `arith`
  semantics of `XdslModel/Sem.lean`) in the destination at the operand size of the type, and changes no
  other register and no memory (frame).  All widths the lowering supports (64/32/16/8).

Register preconditions are what the register allocator owes the rule (the destination of an in-place
update must not be the register of the other operand); each is shown necessary by a counterexample.
What a pattern rejects is part of the rule (`raise` / `nomatch`) and characterised by the `*_ok_iff`
theorems.  The machine has no flags register (no modelled instruction reads flags).

`lowerSrc_sound` composes the rules: the code that `convert-func-to-x86-func` followed by
`convert-arith-to-x86` produces for ANY straight-line function over constants/`addi`/`muli` (before
register allocation, one unallocated register per SSA value) returns the MLIR result in `rax` from
every entry state and preserves every physical register except `rax`/`rsp`, and memory.

Canonicalization patterns (`canonicalization_patterns/x86.py`): if the rule fires and the facts read
off the defining operations hold in the machine state, the rewritten code computes the same state —
exactly, except that removing a 32-bit `mov r, r` / `add r, 0` leaves the upper half of `r` as it was
instead of zeroing it (`EqUpTo`: equal at the operand size).
-/
namespace Xdsl.X86.Lower
open Xdsl.X86

/-! ## ArithConstantToX86 -/

/-- what the pattern accepts: an `IntegerAttr` of a type with a register class (i64/i32/i16/i8, index)
whose value fits the `si32` immediate of `x86.di.mov`; everything else raises -/
theorem lowerConstant_ok_iff (isInt : Bool) (ty : Ty) (c : Int) (t : Nat) :
    (∃ out, lowerConstant isInt ty c t = .ok out) ↔
      isInt = true ∧ (regSz ty).isSome = true ∧ fitsSI32 c = true := by
  unfold lowerConstant
  cases isInt <;> cases hr : regSz ty <;> cases hc : fitsSI32 c <;> simp

theorem lowerConstant_raise_or_ok (isInt : Bool) (ty : Ty) (c : Int) (t : Nat) :
    lowerConstant isInt ty c t = .raise ∨ ∃ out, lowerConstant isInt ty c t = .ok out := by
  unfold lowerConstant
  cases isInt <;> cases regSz ty <;> cases fitsSI32 c <;> simp

/-- **`arith.constant c : ty`** — for every machine state, after the emitted code the new register
holds `c` at the width of the type; nothing else changes. -/
theorem lowerConstant_sound (isInt : Bool) (ty : Ty) (c : Int) (t : Nat) (out : List XInstr)
    (h : lowerConstant isInt ty c t = .ok out) (σ : St) :
    ∃ sz, regSz ty = some sz ∧ trunc sz ((xexec out σ).reg t) = BitVec.ofInt sz.bits c ∧
      OnlyReg t σ (xexec out σ) := by
  unfold lowerConstant at h
  split at h
  · cases h
  · split at h
    · cases h
    · next sz hsz =>
      split at h
      · cases h
        refine ⟨sz, hsz, ?_, rfl, ?_⟩
        · simp [lift, constCode, step, trunc_wr, trunc_ofInt]
        · intro r hr; simp [lift, constCode, step, hr]
      · cases h

/-! ## ArithBinaryToX86 -/

def BinKind.name : BinKind → String
  | .addi => "arith.addi"
  | .muli => "arith.muli"
  | .other => "(not in X86_OP_BY_ARITH_BINARY_OP)"

/-- what the pattern accepts: `arith.addi` on i64/i32/i16/i8/index, `arith.muli` on i64/i32/i16/index
(x86 has no two-operand 8-bit `imul`); shaped operands and types without register class raise; any
other operation is left alone -/
theorem lowerBinary_ok_iff (k : BinKind) (ty : Ty) (t lhs rhs : Nat) :
    (∃ out, lowerBinary k ty t lhs rhs = .ok out) ↔
      k ≠ .other ∧ ty.isShaped = false ∧ ¬ (k = .muli ∧ ty.bitwidth? = some 8) ∧ (regSz ty).isSome = true := by
  unfold lowerBinary
  cases k <;> cases hs : ty.isShaped <;> cases hr : regSz ty <;> simp [BinKind.alu?]
  all_goals (by_cases h8 : ty.bitwidth? = some 8 <;> simp [h8])

theorem lowerBinary_nomatch_iff (k : BinKind) (ty : Ty) (t lhs rhs : Nat) :
    lowerBinary k ty t lhs rhs = .nomatch ↔ k = .other := by
  unfold lowerBinary
  cases k <;> simp [BinKind.alu?]
  all_goals (repeat' split) <;> simp

/-- **`arith.addi` / `arith.muli`** — `mov t, rhs ; op t, lhs`.  For all operand values, in every
state, provided the new register `t` is not the register of the left operand (it may be the register
of the right operand, and the operands may share a register): `t` ends up holding the MLIR result at
the width of the type, and nothing else changes. -/
theorem lowerBinary_sound (k : BinKind) (ty : Ty) (t lhs rhs : Nat) (out : List XInstr)
    (h : lowerBinary k ty t lhs rhs = .ok out) (σ : St) (ht : t ≠ lhs) :
    ∃ sz, regSz ty = some sz ∧
      Sem.intBin k.name (trunc sz (σ.reg lhs)) (trunc sz (σ.reg rhs))
        = .val (trunc sz ((xexec out σ).reg t)) ∧
      OnlyReg t σ (xexec out σ) := by
  unfold lowerBinary at h
  split at h
  · cases h
  · next op hop =>
    split at h
    · cases h
    · split at h
      · cases h
      · split at h
        · cases h
        · next sz hsz =>
          cases h
          have hl : lhs ≠ t := fun e => ht e.symm
          refine ⟨sz, hsz, ?_, rfl, ?_⟩
          · cases k
            · cases hop
              simp [lift, binCode, step, aluOp, hl, trunc_wr, trunc_add, BinKind.name, Sem.intBin, BitVec.add_comm]
            · cases hop
              simp [lift, binCode, step, aluOp, hl, trunc_wr, trunc_mul, BinKind.name, Sem.intBin, BitVec.mul_comm]
            · cases hop
          · intro r hr; simp [lift, binCode, step, hr]

/-- the precondition `t ≠ lhs` is necessary: with `t = lhs` the copy of the right operand destroys
the left one (`mov t, rhs ; add t, t` computes `2·rhs`) -/
theorem lowerBinary_alias_counterexample :
    ∃ (σ : St) (out : List XInstr), lowerBinary .addi (.int 64) 1 1 2 = .ok out ∧
      trunc .q (σ.reg 1) + trunc .q (σ.reg 2) ≠ trunc .q ((xexec out σ).reg 1) := by
  refine ⟨{ reg := fun r => if r = 1 then 1#64 else 2#64, mem := fun _ => 0#64 }, _, rfl, ?_⟩
  decide +kernel

/-! ## LowerFuncOp: the entry sequence -/

/-- what the pattern accepts: a function with a body whose parameters all have a register class and
are neither shaped nor wider than 64 bits, and whose single result (if any) has a register class -/
theorem lowerFuncEntry_ok (hasBody : Bool) (tys outs : List Ty) (temps : List Nat) (out : List XInstr)
    (h : lowerFuncEntry hasBody tys outs temps = .ok out) :
    hasBody = true ∧ (∀ t ∈ tys, t.isShaped = false ∧ tooWide t = false) ∧
      ∃ szs, tys.mapM regSz = some szs ∧ out = lift (entryFrom 0 (szs.zip temps)) := by
  unfold lowerFuncEntry at h
  split at h
  · cases h
  · next hb =>
    split at h
    · cases h
    · next hany =>
      split at h
      · cases h
      · next szs hszs =>
        refine ⟨by simpa using hb, ?_, szs, hszs, ?_⟩
        · intro t ht
          have := hany
          simp only [List.any_eq_true, not_exists, not_and, Bool.or_eq_true, not_or, Bool.not_eq_true] at this
          exact this t ht
        · dsimp only at h
          repeat' split at h
          all_goals first | (cases h; rfl) | cases h

/-- **`func.func` entry** — parameter `i` (i64/i32/i16/i8/index/ptr) is copied from `rdi, rsi, rdx,
rcx, r8, r9` resp. loaded from `[rsp+8(i-5)]` into its new register.  For every entry state and any
assignment of new registers satisfying `EntryOk`: every new register holds its SysV argument at the
width of the parameter type; memory and every other register (in particular `rsp` and the
callee-saved registers, when they are not among the new registers) are unchanged. -/
theorem lowerFuncEntry_sound (hasBody : Bool) (tys outs : List Ty) (temps : List Nat) (out : List XInstr)
    (h : lowerFuncEntry hasBody tys outs temps = .ok out) (σ : St)
    (hok : ∀ szs, tys.mapM regSz = some szs → EntryOk 0 (szs.zip temps)) :
    ∃ szs, tys.mapM regSz = some szs ∧
      (∀ (i : Nat) (sz : Sz) (t : Nat), szs[i]? = some sz → temps[i]? = some t →
        trunc sz ((xexec out σ).reg t) = trunc sz (argOf σ i)) ∧
      (xexec out σ).mem = σ.mem ∧
      (∀ r, r ∉ temps → (xexec out σ).reg r = σ.reg r) := by
  obtain ⟨_, _, szs, hszs, rfl⟩ := lowerFuncEntry_ok _ _ _ _ _ h
  obtain ⟨hv, hm, hr⟩ := entryFrom_sound (szs.zip temps) 0 σ (hok szs hszs)
  rw [xexec_lift]
  refine ⟨szs, hszs, ?_, hm, ?_⟩
  · intro i sz t hsz ht
    have := hv i (sz, t) (by simp [List.getElem?_zip_eq_some, hsz, ht])
    simpa using this
  · intro x hx
    apply hr
    intro p hp e
    have := (List.of_mem_zip hp).2
    rw [e] at this
    exact hx this

/-- `EntryOk` is necessary: if the register of parameter 0 is the argument register of parameter 1
(`mov rsi, rdi ; mov t, rsi`), parameter 1 is lost -/
theorem entry_alias_counterexample :
    ∃ σ : St, trunc .q ((exec (entryFrom 0 [(.q, 6), (.q, 1)]) σ).reg 1) ≠ trunc .q (argOf σ 1) := by
  refine ⟨{ reg := fun r => if r = 7 then 1#64 else 2#64, mem := fun _ => 0#64 }, ?_⟩
  decide +kernel

/-! ## LowerReturnOp -/

theorem lowerReturn_one (ty : Ty) (v : Nat) :
    lowerReturn [ty] [v] =
      if ty.isShaped then Out.raise
      else if tooWide ty then Out.raise
      else
        match regSz ty with
        | none => Out.raise
        | some sz => Out.ok [.base (.mov sz RAX v), .base .ret] := rfl

theorem lowerReturn_ok_iff (ty : Ty) (v : Nat) :
    (∃ out, lowerReturn [ty] [v] = .ok out) ↔
      ty.isShaped = false ∧ tooWide ty = false ∧ (regSz ty).isSome = true := by
  rw [lowerReturn_one]
  cases hs : ty.isShaped <;> cases hw : tooWide ty <;> cases hr : regSz ty <;> simp

/-- more than one returned value raises -/
theorem lowerReturn_many (t1 t2 : Ty) (ts : List Ty) (vals : List Nat) :
    lowerReturn (t1 :: t2 :: ts) vals = .raise := by
  unfold lowerReturn; rfl

/-- **`func.return v`** — `mov rax/eax/ax/al, v ; ret`: from every state the code returns, `rax`
holds the value at the width of its type, the return address is popped, nothing else changes. -/
theorem lowerReturn_sound (ty : Ty) (v : Nat) (out : List XInstr)
    (h : lowerReturn [ty] [v] = .ok out) (σ : St) :
    ∃ sz l σ', regSz ty = some sz ∧ out = lift l ∧ run l σ = some σ' ∧
      trunc sz (σ'.reg RAX) = trunc sz (σ.reg v) ∧ σ'.reg RSP = σ.reg RSP + 8 ∧
      σ'.mem = σ.mem ∧ ∀ r, r ≠ RAX → r ≠ RSP → σ'.reg r = σ.reg r := by
  rw [lowerReturn_one] at h
  split at h
  · cases h
  · split at h
    · cases h
    · split at h
      · cases h
      · next sz hsz =>
        cases h
        refine ⟨sz, [.mov sz RAX v, .ret], _, hsz, rfl, rfl, ?_, ?_, rfl, ?_⟩
        · simp [retStep, step, RAX, RSP, trunc_wr]
        · simp [retStep, step, RAX, RSP]
        · intro r h0 h4; simp [retStep, step, h0, h4]

/-- **`func.return`** without value — `ret` -/
theorem lowerReturn_void (vals : List Nat) (σ : St) :
    lowerReturn [] vals = .ok (lift [.ret]) ∧ run [.ret] σ = some (retStep σ) := ⟨rfl, rfl⟩

/-! ## whole straight-line functions -/

theorem paramRegs_getElem? (base n i : Nat) (h : i < n) : (paramRegs base n)[i]? = some (base + i) := by
  simp [paramRegs, List.getElem?_map, List.getElem?_range h]

/-- **`convert-func-to-x86-func` + `convert-arith-to-x86` preserve the result of every straight-line
integer function** (constants, `addi`, `muli`; any number of parameters; width 64/32/16/8; before
register allocation, SSA values numbered from `base ≥ 16`): if the lowering succeeds — it refuses
constants outside `si32` and 8-bit multiplication, like the real patterns — then from EVERY entry
state the code returns, `rax` holds the MLIR value of the function on its SysV arguments at the width
of the type, the return address is popped, memory is unchanged and no physical register other than
`rax` and `rsp` changes (in particular all callee-saved registers). -/
theorem lowerSrc_sound (s : Src) (base : Nat) (hb : 16 ≤ base) (a : List Instr)
    (h : lowerSrc s base = some a) (σ0 : St) :
    ∃ σ', run a σ0 = some σ' ∧
      evalSrc s (fun i => trunc s.sz (argOf σ0 i)) = some (trunc s.sz (σ'.reg RAX)) ∧
      σ'.reg RSP = σ0.reg RSP + 8 ∧ σ'.mem = σ0.mem ∧
      ∀ r, r < 16 → r ≠ RAX → r ≠ RSP → σ'.reg r = σ0.reg r := by
  unfold lowerSrc at h
  dsimp only at h
  split at h
  · next code regs hbody =>
    split at h
    · next v hv =>
      cases h
      -- entry
      let l : List (Sz × Nat) := (paramRegs base s.nargs).map fun t => (s.sz, t)
      have hl2 : l.map (·.2) = paramRegs base s.nargs := by simp [l, List.map_map, Function.comp_def]
      have hok : EntryOk 0 l := by
        apply entryOk_virtual
        · intro p hp
          simp only [l, paramRegs, List.map_map, List.mem_map, List.mem_range, Function.comp_apply] at hp
          obtain ⟨i, _, rfl⟩ := hp
          simp; omega
        · rw [hl2]
          show (paramRegs base s.nargs).Pairwise (· ≠ ·)
          simp only [paramRegs, List.pairwise_map]
          exact List.pairwise_lt_range.imp (fun h => by omega)
      obtain ⟨ev, em, er⟩ := entryFrom_sound l 0 σ0 hok
      generalize hσ1 : exec (entryFrom 0 l) σ0 = σ1 at ev em er
      have hargs : (paramRegs base s.nargs).map (rd s.sz σ1)
          = (List.range s.nargs).map (fun i => trunc s.sz (argOf σ0 i)) := by
        simp only [paramRegs, List.map_map]
        apply List.map_congr_left
        intro i hi
        have hi' : i < s.nargs := List.mem_range.mp hi
        have := ev i (s.sz, base + i) (by simp [l, List.getElem?_map, paramRegs_getElem? base s.nargs i hi'])
        simpa [rd] using this
      have hphys1 : ∀ r, r < 16 → σ1.reg r = σ0.reg r := by
        intro r hr
        apply er
        intro p hp e
        simp only [l, paramRegs, List.map_map, List.mem_map, List.mem_range, Function.comp_apply] at hp
        obtain ⟨i, _, rfl⟩ := hp
        simp at e; omega
      -- body
      have hlt : ∀ r ∈ paramRegs base s.nargs, r < base + s.nargs := by
        intro r hr
        simp only [paramRegs, List.mem_map, List.mem_range] at hr
        obtain ⟨i, hi, rfl⟩ := hr
        omega
      obtain ⟨be, bm, br, bnr⟩ := lowerBody_sound s.sz s.ops (base + s.nargs) _ code regs σ1 hbody hlt
      generalize hσ2 : exec code σ1 = σ2 at be bm br
      have hphys2 : ∀ r, r < 16 → σ2.reg r = σ0.reg r := fun r hr => by
        rw [br r (by omega), hphys1 r hr]
      -- return
      have hshape : Instr.label :: (entryFrom 0 l ++ code ++ retCode s.sz v)
          = (Instr.label :: (entryFrom 0 l ++ code ++ [Instr.mov s.sz RAX v])) ++ Instr.ret :: [] := by
        simp [retCode]
      have hnr : ∀ i ∈ Instr.label :: (entryFrom 0 l ++ code ++ [Instr.mov s.sz RAX v]), i ≠ Instr.ret := by
        intro i hi
        simp only [List.mem_cons, List.mem_append, List.not_mem_nil, or_false] at hi
        rcases hi with rfl | (hi | hi) | rfl
        · simp
        · exact entryFrom_no_ret l 0 i hi
        · exact bnr i hi
        · simp
      refine ⟨_, by rw [hshape, run_append_ret _ _ hnr], ?_, ?_, ?_, ?_⟩
      all_goals
        simp only [exec_cons, exec_append, exec_nil, step, hσ1, hσ2]
      · unfold evalSrc
        rw [← hargs, be]
        simp [List.getElem?_map, hv, rd, retStep, RAX, RSP, trunc_wr]
      · simp [retStep, RAX, RSP, hphys2 4 (by omega)]
      · simp [retStep, bm, em]
      · intro r hr h0 h4
        simp [retStep, h0, h4, hphys2 r hr]
    · cases h
  · cases h

/-- non-vacuity: `f(a0..a6) = a0*a6 + 3 : i32` (seventh parameter on the stack) is lowered -/
example : lowerSrc { sz := .d, nargs := 7, ops := [.mul 0 6, .const 3, .add 7 8], ret := 9 } 200 =
    some [.label, .mov .d 200 7, .mov .d 201 6, .mov .d 202 2, .mov .d 203 1, .mov .d 204 8, .mov .d 205 9,
      .load .d 206 8, .mov .d 207 206, .alu .imul .d 207 200, .movi .d 208 3, .mov .d 209 208,
      .alu .add .d 209 207, .mov .d 0 209, .ret] := by decide +kernel

/-! ## convert_ptr_to_x86 (scalar) -/

/-- **`ptr_xdsl.ptradd p, off`** — `mov t, p ; add t, off`: `t = p + off` (64 bits) provided `t` is
not the register of the offset; nothing else changes. -/
theorem lowerPtrAdd_sound (t p off : Nat) (out : List XInstr) (h : lowerPtrAdd t p off = .ok out)
    (σ : St) (ht : t ≠ off) :
    (xexec out σ).reg t = σ.reg p + σ.reg off ∧ OnlyReg t σ (xexec out σ) := by
  cases h
  have ho : off ≠ t := fun e => ht e.symm
  refine ⟨?_, rfl, ?_⟩
  · simp [step, aluOp, wr, ho]
  · intro r hr; simp [step, hr]

/-- **`ptr_xdsl.load p`** (non-vector value) — `mov d, [p]` with a 64-bit destination whatever the
value type: `d` holds the whole slot, hence the value at every narrower width too. -/
theorem lowerPtrLoad_sound (ty : Ty) (d p : Nat) (out : List XInstr) (h : lowerPtrLoad ty d p = .ok out)
    (σ : St) :
    (xexec out σ).reg d = σ.mem (σ.reg p) ∧ OnlyReg d σ (xexec out σ) := by
  unfold lowerPtrLoad at h
  split at h
  · cases h
  · cases h
    refine ⟨by simp [xstep, wr, maddr_zero], rfl, ?_⟩
    intro r hr; simp [xstep, hr]

/-- **`ptr_xdsl.store v, p`** (non-vector value with a register class) — `mov [p], v` at the operand
size of the value type: the slot at `p` holds the value at that width (its upper bits and every other
slot keep their content), no register changes. -/
theorem lowerPtrStore_sound (ty : Ty) (p v : Nat) (out : List XInstr) (h : lowerPtrStore ty p v = .ok out)
    (σ : St) :
    ∃ sz, regSz ty = some sz ∧ (xexec out σ).reg = σ.reg ∧
      trunc sz ((xexec out σ).mem (σ.reg p)) = trunc sz (σ.reg v) ∧
      (xexec out σ).mem (σ.reg p) = mwr sz (σ.mem (σ.reg p)) (σ.reg v) ∧
      ∀ a, a ≠ σ.reg p → (xexec out σ).mem a = σ.mem a := by
  unfold lowerPtrStore at h
  split at h
  · cases h
  · split at h
    · cases h
    · next sz hsz =>
      cases h
      refine ⟨sz, hsz, rfl, ?_, ?_, ?_⟩
      · simp [xstep, maddr_zero, trunc_mwr]
      · simp [xstep, maddr_zero]
      · intro a ha; simp [xstep, maddr_zero, ha]

/-! ## canonicalization patterns -/

/-- **RemoveRedundantDS_Mov** — `mov r, r` on an allocated register is dropped: same state, except
that the 32-bit form no longer zeroes the upper half of `r` -/
theorem removeRedundantDSMov_sound (ins : XInstr) (out : List XInstr)
    (h : Canon.removeRedundantDSMov ins = some out) (σ : St) :
    EqUpTo ins.size ins.dst (xexec out σ) (xexec [ins] σ) ∧
      (ins.size ≠ .d → xexec out σ = xexec [ins] σ) := by
  unfold Canon.removeRedundantDSMov at h
  split at h
  · next sz d s =>
    split at h
    · next hc =>
      cases h
      obtain ⟨rfl, _⟩ := hc
      refine ⟨⟨rfl, ?_⟩, ?_⟩
      · intro r
        simp only [XInstr.dst, XInstr.size, xexec_cons, xexec_nil, xstep_base, step, setReg_reg]
        by_cases e : r = d
        · subst e; simp [trunc_wr]
        · simp [e]
      · intro hd
        simp only [XInstr.size] at hd
        simp [step, wr_self sz hd, setReg_self]
    · cases h
  · cases h

/-- **RS_Add_Zero** — `add r, s` where `s` is a known constant 0 is dropped (the result is
`register_in`): same state, except that the 32-bit form no longer zeroes the upper half of `r` -/
theorem rsAddZero_sound (fs : List Fact) (ins : XInstr) (out : List XInstr)
    (h : Canon.rsAddZero fs ins = some out) (σ : St) (hf : ∀ f ∈ fs, f.Holds ins.size σ) :
    EqUpTo ins.size ins.dst (xexec out σ) (xexec [ins] σ) ∧
      (ins.size ≠ .d → xexec out σ = xexec [ins] σ) := by
  unfold Canon.rsAddZero at h
  split at h
  · next sz d s =>
    split at h
    · next hc =>
      cases h
      have h0 := constOf_holds hf hc
      simp only [XInstr.size] at h0
      have hz : trunc sz (σ.reg d + σ.reg s) = trunc sz (σ.reg d) := by
        rw [trunc_add, h0]; simp
      refine ⟨⟨rfl, ?_⟩, ?_⟩
      · intro r
        simp only [XInstr.dst, XInstr.size, xexec_cons, xexec_nil, xstep_base, step, setReg_reg, aluOp]
        by_cases e : r = d
        · subst e; simp [trunc_wr, hz]
        · simp [e]
      · intro hd
        simp only [XInstr.size] at hd
        have : wr sz (σ.reg d) (σ.reg d + σ.reg s) = σ.reg d := by
          cases sz
          · simp only [trunc, Sz.bits, BitVec.setWidth_eq] at hz; exact hz
          · exact absurd rfl hd
          all_goals (simp only [trunc, Sz.bits] at hz; simp only [wr]; bv_omega)
        simp [step, aluOp, this, setReg_self]
    · cases h
  all_goals cases h

/-- **DM_Operation_ConstantOffset** — `mov d, [m+k]` where `m = b + c` becomes `mov d, [b+k+c]`: same
state, given that `m = b + c` holds when the load executes -/
theorem dmConstantOffset_sound (g : Bool) (fs : List Fact) (ins : XInstr) (out : List XInstr)
    (h : Canon.dmConstantOffset g fs ins = some out) (σ : St) (hf : ∀ f ∈ fs, f.Holds ins.size σ) :
    xexec out σ = xexec [ins] σ := by
  unfold Canon.dmConstantOffset at h
  split at h
  · next sz d m k =>
    split at h
    · next b c hm =>
      split at h
      · cases h
      · cases h
        simp [xstep, maddr_fold σ m b c k (movAddOf_holds hf hm)]
    · cases h
  · cases h

/-- **MS_Operation_ConstantOffset** — `mov [m+k], s` where `m = b + c` becomes `mov [b+k+c], s` -/
theorem msConstantOffset_sound (g : Bool) (fs : List Fact) (ins : XInstr) (out : List XInstr)
    (h : Canon.msConstantOffset g fs ins = some out) (σ : St) (hf : ∀ f ∈ fs, f.Holds ins.size σ) :
    xexec out σ = xexec [ins] σ := by
  unfold Canon.msConstantOffset at h
  split at h
  · next sz m k s =>
    split at h
    · next b c hm =>
      split at h
      · cases h
      · cases h
        simp [xstep, maddr_fold σ m b c k (movAddOf_holds hf hm)]
    · cases h
  · cases h

/-- **x86 canonicalization never changes results** (per pattern application): if a rule of
`canonicalization_patterns/x86.py` fires on an instruction and the facts hold in the machine state,
the rewritten code and the original instruction produce the same memory and the same registers —
the destination compared at the operand size, exactly when the operand size is not 32 bits. -/
theorem x86_canon_sound (name : String) (fs : List Fact) (ins : XInstr) (out : List XInstr)
    (h : canon name fs ins = some out) (σ : St) (hf : ∀ f ∈ fs, f.Holds ins.size σ) :
    EqUpTo ins.size ins.dst (xexec out σ) (xexec [ins] σ) ∧
      (ins.size ≠ .d → xexec out σ = xexec [ins] σ) := by
  unfold canon at h
  split at h
  · next f hl =>
    have hm := lookupCanon_mem hl
    simp only [canonTable, List.mem_cons, List.not_mem_nil, or_false, Prod.mk.injEq] at hm
    rcases hm with ⟨_, rfl⟩ | ⟨_, rfl⟩ | ⟨_, rfl⟩ | ⟨_, rfl⟩ | ⟨_, rfl⟩ | ⟨_, rfl⟩
    · exact removeRedundantDSMov_sound ins out h σ
    · exact rsAddZero_sound fs ins out h σ hf
    · have := dmConstantOffset_sound _ fs ins out h σ hf
      exact ⟨EqUpTo.of_eq this, fun _ => this⟩
    · have := msConstantOffset_sound _ fs ins out h σ hf
      exact ⟨EqUpTo.of_eq this, fun _ => this⟩
    · have := dmConstantOffset_sound _ fs ins out h σ hf
      exact ⟨EqUpTo.of_eq this, fun _ => this⟩
    · have := msConstantOffset_sound _ fs ins out h σ hf
      exact ⟨EqUpTo.of_eq this, fun _ => this⟩
  · cases h

/-- The hypothesis "the facts hold when the instruction executes" is not implied by SSA once registers
are allocated: `m = b + 16` was true when `m` was computed, then the register of `b` (`rdi`) received
another value; the pinned pattern (no guard) still rewrites `[m+8]` to `[b+24]` and the load reads
another slot.  The guarded variant does not fire on an allocated copy. -/
theorem dmConstantOffset_clobbered_counterexample :
    ∃ σ : St,
      Canon.dmConstantOffset false [.movAdd 0 7 16] (.ldm .q 2 0 8) = some [.ldm .q 2 7 24] ∧
      Canon.dmConstantOffset true [.movAdd 0 7 16] (.ldm .q 2 0 8) = none ∧
      (xexec (lift [.mov .q 0 7, .movi .q 1 16, .alu .add .q 0 1, .movi .q 7 0] ++ [.ldm .q 2 0 8]) σ).reg 2 ≠
      (xexec (lift [.mov .q 0 7, .movi .q 1 16, .alu .add .q 0 1, .movi .q 7 0] ++ [.ldm .q 2 7 24]) σ).reg 2 := by
  refine ⟨{ reg := fun r => if r = 7 then 0x1000#64 else 0#64, mem := fun a => a }, rfl, rfl, ?_⟩
  decide +kernel

/-- the 32-bit exception is real: dropping `mov eax, eax` keeps the upper half of `rax` -/
theorem removeRedundantDSMov_upper_counterexample :
    ∃ σ : St, Canon.removeRedundantDSMov (.base (.mov .d 0 0)) = some [] ∧
      (xexec [] σ).reg 0 ≠ (xexec [.base (.mov .d 0 0)] σ).reg 0 := by
  refine ⟨{ reg := fun _ => 0xFFFFFFFFFFFFFFFF#64, mem := fun _ => 0#64 }, rfl, ?_⟩
  decide +kernel

/-! ## non-vacuity -/

example : lowerBinary .addi (.int 32) 200 100 101 = .ok [.base (.mov .d 200 101), .base (.alu .add .d 200 100)] := rfl
example : lowerBinary .muli (.int 8) 200 100 101 = .raise := rfl
example : lowerBinary .other (.int 8) 200 100 101 = .nomatch := rfl
example : lowerConstant true (.int 64) 2147483648 200 = .raise := by decide
example : lowerConstant true .index (-5) 200 = .ok [.base (.movi .q 200 (-5))] := by decide
example : lowerFuncEntry true [.int 64, .int 8] [.int 8] [200, 201] =
    .ok [.base (.mov .q 200 7), .base (.mov .b 201 6)] := by decide
example : EntryOk 0 [(.q, 200), (.b, 201)] :=
  entryOk_virtual _ _ (by simp) (by simp)

end Xdsl.X86.Lower
