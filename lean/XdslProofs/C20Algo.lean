import XdslProofs.C20
import XdslProofs.Lemmas.ParallelMovCycle
/-!
# C20 — parallel-move lowering performs a simultaneous assignment (algorithm part)

`lower` (XdslModel/ParallelMov.lean) is the model of `ParallelMovPattern.match_and_rewrite`
(xdsl/transforms/riscv_lower_parallel_mov.py with the repairs of fix_1.patch).

Vocabulary used in the statements (defined in `Lemmas/ParallelMovGraph.lean` and `C20.lean`):

* `WF ⟨moves, free⟩` — what `ParallelMovOp.verify_` enforces and what "designated free" means:
  `moves.Pairwise (fun a b => a.dst = b.dst → a.dst = Reg.zero)` (non-`zero` destinations distinct) and
  every `f ∈ free` is not `zero` and is neither a source nor a destination of the move.
* `Edge e s d` — some operand moves `s` to `d` with `s ≠ d` and `d ≠ zero`.
* `Realises moves free is` — for every width `n` and register file `ρ`: every destination other than
  `zero` holds after `exec is ρ` what its source held in `ρ`, and every register that is neither a
  destination nor in `free` is unchanged (`zero` reads 0, writes to it are discarded).

Proof structure (the staging of DESIGN §5): `Lemmas/ParallelMovStage1` — acyclic forests: leaf-driven
walk with out-edge counters (`Inv`, `Inv1`); `Lemmas/ParallelMovCount` — counting argument: what the
tree stage leaves is a union of cycles (`cycle_structure`); `Lemmas/ParallelMovStage2` — cycles through a
designated free register (`TW`) and xor-swap chains (`XW`); `Lemmas/ParallelMovTotal`/`…Cycle` — the
loops never get stuck, and a failure exhibits a float cycle.  Nothing here is `_partial`.
-/
namespace Xdsl.ParallelMov

open Env

/-- **C20, main theorem.**  "executing the emitted sequence of moves leaves every destination
holding the value its source held before, and changes no register other than the destinations and
the designated free registers" — for every well-formed move list (any combination of chains,
fan-outs, cycles, self-moves, moves from/into `zero`, both register kinds), every list of designated
free registers and every register file. -/
theorem pmov_correct (moves : List Move) (free : List Reg) (out : Out)
    (w : WF ⟨moves, free⟩) (h : lower moves free = .ok out) : Realises moves free out.ops := by
  intro n ρ₀
  unfold lower at h
  split at h
  · cases h
  · simp only at h
    generalize he : (⟨moves, free⟩ : Env) = e at h w
    have hmoves : e.moves = moves := by rw [← he]
    have hfree : e.free = free := by rw [← he]
    rw [← hmoves] at h
    cases h0 : stage0 e (enum e.moves) { results := e.moves.map fun _ => none } [] with
    | error x => rw [h0] at h; cases h
    | ok r0 =>
      obtain ⟨st0, c0⟩ := r0
      rw [h0] at h
      simp only at h
      cases h1 : stage1 e (e.moves.map (·.dst)) st0 c0 with
      | error x => rw [h1] at h; cases h
      | ok r1 =>
        obtain ⟨st1, c1⟩ := r1
        rw [h1] at h
        simp only at h
        cases h2 : stage2 e (enum e.moves) st1 with
        | error x => rw [h2] at h; cases h
        | ok st2 =>
          rw [h2] at h
          simp only [Except.ok.injEq] at h
          subst h
          -- first loop
          obtain ⟨inv0, hc0⟩ := stage0_inv ρ₀ h0
          -- tree stage
          have inv1_0 : Inv1 e [] c0 (e.moves.map (·.dst)) none := by
            refine ⟨hc0, ?_⟩
            intro x ⟨s, hs⟩ _ hx0
            right
            obtain ⟨m, hm, hms, hmd, hne, hz⟩ := hs
            refine ⟨List.mem_map.mpr ⟨m, hm, hmd⟩, ?_⟩
            unfold Env.isLeaf
            simp only [Bool.not_eq_eq_eq_not, Bool.not_true, List.any_eq_false, Bool.and_eq_true,
              decide_eq_true_eq, Bool.or_eq_true, not_and, not_or]
            intro m' hm' hsrc
            constructor
            · intro hself
              have : m = m' := w.dst_unique hm hm' (by rw [hmd, ← hself, hsrc]) (by rw [hmd]; exact hz)
              subst this
              exact hne (by rw [← hms, ← hmd, hself])
            · intro hedge
              rw [isEdge_iff] at hedge
              have := (cnt_eq_zero_iff.mp hx0) m'.dst ⟨m', hm', hsrc, rfl, by rw [← hsrc]; exact hedge.1, hedge.2⟩
              simp at this
          have hpw : (e.moves.map (·.dst)).Pairwise (fun a b => a = b → a = Reg.zero) := by
            rw [List.pairwise_map]; exact w.dstDistinct
          obtain ⟨P1, inv1, inv1'⟩ := stage1_inv w _ st0 c0 [] st1 c1 hpw inv0 inv1_0
            (fun x _ _ => by simp) h1
          -- what is left is a union of cycles
          have i2 : Inv2 e P1 := by
            obtain ⟨hinj, hpar⟩ := cycle_structure w (P := P1) (by
              intro x hx hxP hx0
              rcases inv1'.pend x hx hxP hx0 with h | ⟨h, _⟩
              · cases h
              · simp at h)
            exact ⟨hinj, hpar⟩
          -- cycle stage
          obtain ⟨P2, inv2, _, hall⟩ := stage2_inv w (enum e.moves) st1 st2 P1
            (fun p hp => by obtain ⟨i, m⟩ := p; exact mem_enum.mp hp) inv1 i2 h2
          -- conclusion
          constructor
          · intro m hm hz
            rw [← hmoves] at hm
            obtain ⟨i, hi⟩ := List.mem_iff_getElem?.mp hm
            have hs := hall (i, m) (mem_enum.mpr hi)
            rw [inv2.res i m hi] at hs
            have hdfree : m.dst ∉ e.free := fun hf => ((w.freeOk _ hf).2 m hm).2 rfl
            rcases hs with hs | hs | hs
            · -- self-move: the register is not the target of an edge, hence untouched
              have hnP : m.dst ∉ P2 := by
                intro hp
                obtain ⟨s', m', hm', hms', hmd', hne', _⟩ := inv2.sub _ hp
                have : m' = m := w.dst_unique hm' hm hmd' (by rw [hmd']; exact hz)
                subst this
                exact hne' (by rw [← hms', hs])
              show rd (exec st2.ops ρ₀) m.dst = _
              rw [inv2.keep _ hnP hdfree, hs]
            · exact absurd hs hz
            · by_cases hself : m.src = m.dst
              · obtain ⟨s', m', hm', hms', hmd', hne', _⟩ := inv2.sub _ hs
                have : m' = m := w.dst_unique hm' hm hmd' (by rw [hmd']; exact hz)
                subst this
                exact absurd (by rw [← hms', hself]) hne'
              · exact inv2.done _ hs _ ⟨m, hm, rfl, rfl, hself, hz⟩
          · intro r hnd hnf
            have hnP : r ∉ P2 := by
              intro hp
              obtain ⟨s', m', hm', _, hmd', _, _⟩ := inv2.sub _ hp
              rw [hmoves] at hm'
              exact hnd m' hm' hmd'
            rw [← hfree] at hnf
            exact inv2.keep r hnP hnf

/-- The inputs the pass is specified for: a verified `riscv.parallel_mov` (non-`zero` destinations
distinct, source and destination of the same register kind) on allocated registers with supported
widths, and designated free registers that are not `zero` and not used by the move. -/
structure WFInput (moves : List Move) (free : List Reg) : Prop where
  wf : WF ⟨moves, free⟩
  kinds : ∀ m ∈ moves, m.src.kind = m.dst.kind
  widths : ∀ m ∈ moves, m.w = 32 ∨ m.w = 64
  alloc : ∀ m ∈ moves, m.src.allocated = true ∧ m.dst.allocated = true

/-- **C20, failure clause.**  "when no correct sequence can be produced the pass reports failure":
on well-formed input the lowering never gets stuck (no `assert`, no `KeyError`, no runaway loop); the
only failure is `Float cyclic move without free register`, and it is reported only when no float
register is designated free and the float moves contain a cycle (a register that reaches itself
along moves that are neither self-moves nor moves into `zero`). -/
theorem pmov_fail_only (moves : List Move) (free : List Reg) (hin : WFInput moves free)
    (x : Err) (hx : lower moves free = .error x) :
    x = .floatCycle ∧ (∀ f ∈ free, f.kind ≠ .flt) ∧
      ∃ r, r.kind = .flt ∧ Relation.TransGen (Edge ⟨moves, free⟩) r r := by
  obtain ⟨st1, P1, inv1, i2, hlow⟩ := lower_prefix moves free hin.wf hin.widths hin.alloc
    (fun _ => (0 : BitVec 0))
  rw [hlow] at hx
  rcases stage2_total hin.wf hin.widths (enum moves) st1 P1
    (fun p hp => by obtain ⟨i, m⟩ := p; exact mem_enum.mp hp) inv1 i2 with ⟨st2, h2⟩ | ⟨h2, hfree, P', i2', hcl, d, hdk, hdU⟩
  · rw [h2] at hx; cases hx
  · rw [h2] at hx
    simp only [Except.error.injEq] at hx
    refine ⟨hx.symm, ?_, ?_⟩
    · intro f hf hk
      have : f ∈ Env.freeOf ⟨moves, free⟩ .flt := List.mem_filter.mpr ⟨hf, by simp [hk]⟩
      rw [hfree] at this
      simp at this
    · -- the unprocessed float registers are closed under taking the source of their edge
      let U := (unprocessed ⟨moves, free⟩ P').filter (fun r => r.kind = .flt)
      have hU : ∀ u ∈ U, u.kind = .flt ∧ u ∈ unprocessed ⟨moves, free⟩ P' := by
        intro u hu
        have := List.mem_filter.mp hu
        exact ⟨by simpa using this.2, this.1⟩
      have hne : U ≠ [] := List.ne_nil_of_mem (List.mem_filter.mpr ⟨hdU, by simp [hdk]⟩)
      have hclosed : ∀ u ∈ U, ∃ p ∈ U, Edge ⟨moves, free⟩ p u := by
        intro u hu
        obtain ⟨huk, huU⟩ := hU u hu
        obtain ⟨⟨s, hE⟩, huP⟩ := mem_unprocessed.mp huU
        have hsP : s ∉ P' := fun h => huP (hcl s h u hE)
        obtain ⟨q, hq⟩ := i2'.par u s huP hE
        have hsk : s.kind = .flt := by
          obtain ⟨m, hm, hms, hmd, _, _⟩ := hE
          rw [← hms, hin.kinds m hm, hmd]; exact huk
        exact ⟨s, List.mem_filter.mpr ⟨mem_unprocessed.mpr ⟨⟨q, hq⟩, hsP⟩, by simp [hsk]⟩, hE⟩
      obtain ⟨r, hr, hcyc⟩ := exists_cycle_of_closed hin.wf hne hclosed
      exact ⟨r, (hU r hr).1, hcyc⟩

/-- Consequently the lowering succeeds (and, by `pmov_correct`, is right) whenever some float
register is designated free or the float moves are acyclic — in particular for every parallel move
between integer registers. -/
theorem pmov_succeeds (moves : List Move) (free : List Reg) (hin : WFInput moves free)
    (h : (∃ f ∈ free, f.kind = .flt) ∨
      ¬ ∃ r, r.kind = .flt ∧ Relation.TransGen (Edge ⟨moves, free⟩) r r) :
    ∃ out, lower moves free = .ok out ∧ Realises moves free out.ops := by
  cases hl : lower moves free with
  | ok out => exact ⟨out, rfl, pmov_correct moves free out hin.wf hl⟩
  | error x =>
    obtain ⟨_, hnf, hcyc⟩ := pmov_fail_only moves free hin x hl
    rcases h with ⟨f, hf, hk⟩ | h
    · exact absurd hk (hnf f hf)
    · exact absurd hcyc h

/-! ### non-vacuity and the repaired defects as closed instances -/

/-- the error of a result, if any -/
def errOf (r : Except Err Out) : Option Err := match r with | .error e => some e | .ok _ => none

private def a (k : Nat) : Reg := ⟨.int, some k⟩
private def f (k : Nat) : Reg := ⟨.flt, some k⟩

/-- a 3-cycle of integer registers without a free register: two xor swaps, in the right direction
(the pinned tree rotated it the wrong way round) -/
example : (lower [⟨a 2, a 1, 32⟩, ⟨a 3, a 2, 32⟩, ⟨a 1, a 3, 32⟩] []).toOption.map (·.ops)
    = some [.xor (a 3) (a 3) (a 2), .xor (a 2) (a 3) (a 2), .xor (a 3) (a 3) (a 2),
            .xor (a 1) (a 1) (a 3), .xor (a 3) (a 1) (a 3), .xor (a 1) (a 1) (a 3)]
    ∧ checkSeq [⟨a 2, a 1, 32⟩, ⟨a 3, a 2, 32⟩, ⟨a 1, a 3, 32⟩] []
        [.xor (a 3) (a 3) (a 2), .xor (a 2) (a 3) (a 2), .xor (a 3) (a 3) (a 2),
         .xor (a 1) (a 1) (a 3), .xor (a 3) (a 1) (a 3), .xor (a 1) (a 1) (a 3)] = true := by decide

/-- a cycle next to a chain: the chain's root `a 4` is only read, so it is not used as scratch -/
example : (lower [⟨a 2, a 1, 32⟩, ⟨a 1, a 2, 32⟩, ⟨a 4, a 3, 32⟩] []).toOption.map (·.ops)
    = some [.mv (a 3) (a 4), .xor (a 1) (a 1) (a 2), .xor (a 2) (a 1) (a 2), .xor (a 1) (a 1) (a 2)] := by
  decide

/-- a float cycle with a designated free register goes through it -/
example : (lower [⟨f 2, f 1, 64⟩, ⟨f 1, f 2, 64⟩] [f 4]).toOption.map (·.ops)
    = some [.fmv 64 (f 4) (f 2), .fmv 64 (f 2) (f 1), .fmv 64 (f 1) (f 4)] := by decide

/-- the failure case is reachable -/
example : errOf (lower [⟨f 2, f 1, 32⟩, ⟨f 1, f 2, 32⟩] []) = some .floatCycle := by decide

/-- moves into `zero` (twice) and from `zero` -/
example : (lower [⟨a 1, Reg.zero, 32⟩, ⟨a 2, Reg.zero, 32⟩, ⟨Reg.zero, a 1, 32⟩] []).toOption.map (·.ops)
    = some [.mv Reg.zero (a 1), .mv Reg.zero (a 2), .mv (a 1) Reg.zero] := by decide

/-- The converse of the failure clause does **not** hold (and the property does not ask for it):
a float cycle with a tail and no free register is reported as a failure although three `fmv`s
realise it (`f3 ← f1; f1 ← f2; f2 ← f3`).  Recorded so that nobody reads `pmov_fail_only` as
"failure iff no sequence exists". -/
theorem pmov_fail_not_necessary_counterexample :
    errOf (lower [⟨f 1, f 2, 32⟩, ⟨f 2, f 1, 32⟩, ⟨f 1, f 3, 32⟩] []) = some .floatCycle
    ∧ checkSeq [⟨f 1, f 2, 32⟩, ⟨f 2, f 1, 32⟩, ⟨f 1, f 3, 32⟩] []
        [.fmv 32 (f 3) (f 1), .fmv 32 (f 1) (f 2), .fmv 32 (f 2) (f 3)] = true := by decide

end Xdsl.ParallelMov
