import XdslProofs.Lemmas.RiscvKernels
import XdslModel.Generated.RiscvPyOps
/-!
# C22 — the constant-fold kernels of the RISC-V dialect, as translated from the source

"RISC-V canonicalization alone never changes results": `ShiftConstantFolding` replaces an
immediate-shift / single-bit instruction whose operand is a known constant by `li rd, k` with
`k = op.py_operation(constant)`; `ElideConstantBranches` decides a branch by `const_evaluate`;
`_fits_si12` / `_folded_li_immediate` guard every immediate and every folded `li` the integer patterns
emit.  Every definition `Xdsl.Generated.RiscvPyOps.*` is *regenerated from the Python source on every
check run* (`xdsl/dialects/rv32.py`, `rv64.py`, `riscv_cf.py`, `canonicalization_patterns/riscv.py`);
the theorems below are re-checked against what the source says now.

* `rs1` is the payload of the constant (`IntegerAttr[i32]`/`[i64]`: the signed range `InS`), `n` the
  immediate (`ui5`/`ui6`: `n < XLEN`).  Hypotheses are stated only where a kernel needs them.
* A kernel returns `Option Int`: `none` = the `IntegerAttr` constructor raises (value out of range).
  Each theorem says the kernel does **not** raise and returns the two's-complement reading of exactly
  the register the instruction computes (`aluS` of the RV32 machine model; `aluSW` at 64 bits).
* `pyShift_eq_kernel` ties the hand-written fold of `XdslModel/RiscVRules.lean` (the one
  `shiftConstantFolding_sound` is about) to the translated kernels.
-/
namespace Xdsl.C22K
open Xdsl Xdsl.RiscV Xdsl.RvK Xdsl.Generated.RiscvPyOps Xdsl.Generated.Comparisons

theorem c32 : (4294967296 : Int) = 2 ^ 32 := by decide
theorem c64 : (18446744073709551616 : Int) = 2 ^ 64 := by decide

/-- payloads of `IntegerAttr[i32]` -/
theorem inS32_iff (c : Int) : InS 32 c ↔ inS32 c := by
  simp only [InS, inS32]
  have : (2 : Int) ^ (32 - 1) = 2147483648 := by decide
  rw [this]

/-! ## rv32: `py_operation` = the instruction of the RV32 machine model -/

theorem rv32_slli_kernel (c : Int) (n : Nat) :
    rv32_SlliOp_py_operation c n = some (aluS .slli (imm32 c) n).toInt := by
  rw [aluS_eq]; exact slli_body 32 (by omega) c n

theorem rv32_srli_kernel (c : Int) (n : Nat) :
    rv32_SrliOp_py_operation c n = some (aluS .srli (imm32 c) n).toInt := by
  rw [aluS_eq]; exact srli_body 32 (by omega) c n _ c32

theorem rv32_srai_kernel (c : Int) (hc : inS32 c) (n : Nat) :
    rv32_SraiOp_py_operation c n = some (aluS .srai (imm32 c) n).toInt := by
  rw [aluS_eq]; exact srai_body 32 (by omega) c ((inS32_iff c).2 hc) n

theorem rv32_bclri_kernel (c : Int) (n : Nat) :
    rv32_BclrIOp_py_operation c n = some (aluS .bclri (imm32 c) n).toInt := by
  rw [aluS_eq]; exact bclri_body 32 (by omega) c n

theorem rv32_bexti_kernel (c : Int) (n : Nat) (hn : n < 32) :
    rv32_BextIOp_py_operation c n = some (aluS .bexti (imm32 c) n).toInt := by
  rw [aluS_eq]; exact bexti_body 32 c n hn

theorem rv32_binvi_kernel (c : Int) (n : Nat) :
    rv32_BinvIOp_py_operation c n = some (aluS .binvi (imm32 c) n).toInt := by
  rw [aluS_eq]; exact binvi_body 32 (by omega) c n

theorem rv32_bseti_kernel (c : Int) (hc : inS32 c) (n : Nat) (hn : n < 32) :
    rv32_BsetIOp_py_operation c n = some (aluS .bseti (imm32 c) n).toInt := by
  rw [aluS_eq]; exact bseti_body 32 c ((inS32_iff c).2 hc) n hn

theorem rv32_rori_kernel (c : Int) (n : Nat) (hn : n < 32) :
    rv32_RorIOp_py_operation c n = some (aluS .rori (imm32 c) n).toInt := by
  rw [aluS_eq]; exact rori_body 32 c n hn _ c32

/-- the translated kernel of each immediate-shift class of the `rv32` dialect -/
def kernel32 : SOp → Int → Int → Option Int
  | .slli => rv32_SlliOp_py_operation
  | .srli => rv32_SrliOp_py_operation
  | .srai => rv32_SraiOp_py_operation
  | .bclri => rv32_BclrIOp_py_operation
  | .bexti => rv32_BextIOp_py_operation
  | .binvi => rv32_BinvIOp_py_operation
  | .bseti => rv32_BsetIOp_py_operation
  | .rori => rv32_RorIOp_py_operation

/-- **every rv32 fold kernel is the instruction**: for every constant payload `c` of `i32` and every
encodable shift amount, `op.py_operation(c)` does not raise and is the signed reading of the register
the instruction `op rd, rs1, n` writes when `rs1` holds `c`. -/
theorem kernel32_sound (op : SOp) (c : Int) (hc : inS32 c) (n : Nat) (hn : n < 32) :
    kernel32 op c n = some (aluS op (imm32 c) n).toInt := by
  cases op
  · exact rv32_slli_kernel c n
  · exact rv32_srli_kernel c n
  · exact rv32_srai_kernel c hc n
  · exact rv32_bclri_kernel c n
  · exact rv32_bexti_kernel c n hn
  · exact rv32_binvi_kernel c n
  · exact rv32_bseti_kernel c hc n hn
  · exact rv32_rori_kernel c n hn

/-- hence the `li` that replaces the instruction loads the instruction's result -/
theorem kernel32_li (op : SOp) (c : Int) (hc : inS32 c) (n : Nat) (hn : n < 32) :
    ∃ k, kernel32 op c n = some k ∧ imm32 k = aluS op (imm32 c) n ∧ inS32 k :=
  ⟨_, kernel32_sound op c hc n hn, imm32_toInt _, toInt_range _⟩

theorem pyShift_inS32 (op : SOp) (c : Int) (hc : inS32 c) (n : Nat) : inS32 (pyShift op c n) := by
  cases op
  · exact wrap32_range _
  · exact wrap32_range _
  · exact fdiv_range c n hc
  all_goals exact toInt_range _

/-- **the hand-written fold of the rule model is the translated kernel**: `pyShift` (used by
`Rules.shiftConstantFolding`, proved sound in `XdslProofs/C22.lean`) returns what the source's
`py_operation` returns, for every `i32` payload and shift amount `< 32`. -/
theorem pyShift_eq_kernel (op : SOp) (c : Int) (hc : inS32 c) (n : Nat) (hn : n < 32) :
    kernel32 op c n = some (pyShift op c n) := by
  rw [kernel32_sound op c hc n hn, ← pyShift_sound op c n hc, toInt_imm32 _ (pyShift_inS32 op c hc n)]

/-! ## rv64: `py_operation` = the instruction on `BitVec 64` -/

theorem rv64_slli_kernel (c : Int) (n : Nat) :
    rv64_SlliOp_py_operation c n = some (aluSW .slli (BitVec.ofInt 64 c) n).toInt :=
  slli_body 64 (by omega) c n

theorem rv64_srli_kernel (c : Int) (n : Nat) :
    rv64_SrliOp_py_operation c n = some (aluSW .srli (BitVec.ofInt 64 c) n).toInt :=
  srli_body 64 (by omega) c n _ c64

theorem rv64_srai_kernel (c : Int) (hc : InS 64 c) (n : Nat) :
    rv64_SraiOp_py_operation c n = some (aluSW .srai (BitVec.ofInt 64 c) n).toInt :=
  srai_body 64 (by omega) c hc n

theorem rv64_bclri_kernel (c : Int) (n : Nat) :
    rv64_BclrIOp_py_operation c n = some (aluSW .bclri (BitVec.ofInt 64 c) n).toInt :=
  bclri_body 64 (by omega) c n

theorem rv64_bexti_kernel (c : Int) (n : Nat) (hn : n < 64) :
    rv64_BextIOp_py_operation c n = some (aluSW .bexti (BitVec.ofInt 64 c) n).toInt :=
  bexti_body 64 c n hn

theorem rv64_binvi_kernel (c : Int) (n : Nat) :
    rv64_BinvIOp_py_operation c n = some (aluSW .binvi (BitVec.ofInt 64 c) n).toInt :=
  binvi_body 64 (by omega) c n

theorem rv64_bseti_kernel (c : Int) (hc : InS 64 c) (n : Nat) (hn : n < 64) :
    rv64_BsetIOp_py_operation c n = some (aluSW .bseti (BitVec.ofInt 64 c) n).toInt :=
  bseti_body 64 c hc n hn

theorem rv64_rori_kernel (c : Int) (n : Nat) (hn : n < 64) :
    rv64_RorIOp_py_operation c n = some (aluSW .rori (BitVec.ofInt 64 c) n).toInt :=
  rori_body 64 c n hn _ c64

def kernel64 : SOp → Int → Int → Option Int
  | .slli => rv64_SlliOp_py_operation
  | .srli => rv64_SrliOp_py_operation
  | .srai => rv64_SraiOp_py_operation
  | .bclri => rv64_BclrIOp_py_operation
  | .bexti => rv64_BextIOp_py_operation
  | .binvi => rv64_BinvIOp_py_operation
  | .bseti => rv64_BsetIOp_py_operation
  | .rori => rv64_RorIOp_py_operation

/-- **every rv64 fold kernel is the instruction** on 64-bit registers -/
theorem kernel64_sound (op : SOp) (c : Int) (hc : InS 64 c) (n : Nat) (hn : n < 64) :
    kernel64 op c n = some (aluSW op (BitVec.ofInt 64 c) n).toInt := by
  cases op
  · exact rv64_slli_kernel c n
  · exact rv64_srli_kernel c n
  · exact rv64_srai_kernel c hc n
  · exact rv64_bclri_kernel c n
  · exact rv64_bexti_kernel c n hn
  · exact rv64_binvi_kernel c n
  · exact rv64_bseti_kernel c hc n hn
  · exact rv64_rori_kernel c n hn

/-! ## the unguarded kernels of the pinned tree raise or mis-fold (kept as witnesses)

Before the C22 fixes `slli`/`bclri`/`binvi` built `IntegerAttr(v, i32)` without `truncate_bits`; the
translated `normalized_value` then refuses e.g. `1 << 33`-sized results. -/

example : Xdsl.Generated.BuiltinInt.normalized_value_signless 32 (Py.shl 3 31) false = none := by decide
example : rv32_SlliOp_py_operation 3 31 = some (-2147483648) := by decide
example : rv32_BsetIOp_py_operation 5 31 = some (-2147483643) := by decide
example : rv32_SraiOp_py_operation (-8) 1 = some (-4) := by decide
example : rv32_RorIOp_py_operation 1 1 = some (-2147483648) := by decide
example : rv64_BextIOp_py_operation (-1) 63 = some 1 := by decide +kernel

/-! ## riscv_cf: `const_evaluate` = what the branch instruction does -/

theorem toNat_inj32 (a b : Int) :
    (((imm32 a).toNat : Int) = ((imm32 b).toNat : Int)) ↔ imm32 a = imm32 b := by
  constructor
  · intro h; apply BitVec.eq_of_toNat_eq; exact_mod_cast h
  · intro h; rw [h]

/-- **the constant evaluation of each conditional branch is the machine's branch decision**, for all
Python ints `a b` (no range needed: `const_evaluate` normalises with `to_unsigned`/`to_signed`) -/
theorem const_evaluate_sound (a b : Int) :
    cf_BeqOp_const_evaluate a b 32 = taken .beq (imm32 a) (imm32 b)
    ∧ cf_BneOp_const_evaluate a b 32 = taken .bne (imm32 a) (imm32 b)
    ∧ cf_BltOp_const_evaluate a b 32 = taken .blt (imm32 a) (imm32 b)
    ∧ cf_BgeOp_const_evaluate a b 32 = taken .bge (imm32 a) (imm32 b)
    ∧ cf_BltuOp_const_evaluate a b 32 = taken .bltu (imm32 a) (imm32 b)
    ∧ cf_BgeuOp_const_evaluate a b 32 = taken .bgeu (imm32 a) (imm32 b) := by
  have hu : ∀ x : Int, to_unsigned x (32 : Int) = ((imm32 x).toNat : Int) := fun x => to_unsigned_eq x 32
  have hs : ∀ x : Int, to_signed x (32 : Int) = (imm32 x).toInt := fun x => to_signed_eq x 32
  simp only [cf_BeqOp_const_evaluate, cf_BneOp_const_evaluate, cf_BltOp_const_evaluate,
    cf_BgeOp_const_evaluate, cf_BltuOp_const_evaluate, cf_BgeuOp_const_evaluate, hu, hs, taken]
  generalize imm32 a = A
  generalize imm32 b = B
  refine ⟨?_, ?_, ?_, ?_, ?_, ?_⟩
  · rw [Bool.eq_iff_iff]; simp only [beq_iff_eq]
    constructor
    · intro h; apply BitVec.eq_of_toNat_eq; exact_mod_cast h
    · intro h; rw [h]
  · rw [Bool.eq_iff_iff]; simp only [bne_iff_ne, ne_eq]
    constructor
    · intro h e; exact h (by rw [e])
    · intro h e; apply h; apply BitVec.eq_of_toNat_eq; exact_mod_cast e
  · rw [BitVec.slt_eq_decide]
  · rw [BitVec.slt_eq_decide]; simp only [ge_iff_le]
    rw [Bool.eq_iff_iff]; simp
  · rw [BitVec.ult_eq_decide]; rw [Bool.eq_iff_iff]; simp
  · rw [BitVec.ult_eq_decide]; rw [Bool.eq_iff_iff]; simp

/-- the hand-written `constEvaluate` of the rule model is the translated `const_evaluate` -/
theorem constEvaluate_eq_kernel (a b : Int) :
    constEvaluate .beq a b = cf_BeqOp_const_evaluate a b 32
    ∧ constEvaluate .bne a b = cf_BneOp_const_evaluate a b 32
    ∧ constEvaluate .blt a b = cf_BltOp_const_evaluate a b 32
    ∧ constEvaluate .bge a b = cf_BgeOp_const_evaluate a b 32
    ∧ constEvaluate .bltu a b = cf_BltuOp_const_evaluate a b 32
    ∧ constEvaluate .bgeu a b = cf_BgeuOp_const_evaluate a b 32 := by
  have hu : ∀ x : Int, to_unsigned x (32 : Int) = toUnsigned32 x := by
    intro x
    simp only [to_unsigned, unsigned_upper_bound, toUnsigned32]
    rw [show Py.shl 1 (32 : Int) = 4294967296 by decide, mod_eq_emod _ _ (by omega)]
  have hs : ∀ x : Int, to_signed x (32 : Int) = toSigned32 x := by
    intro x
    simp only [to_signed, unsigned_upper_bound, toSigned32]
    rw [show Py.shl 1 (32 : Int) = 4294967296 by decide, show Py.shr 4294967296 (1 : Int) = 2147483648 by decide,
      mod_eq_emod _ _ (by omega)]
  simp only [cf_BeqOp_const_evaluate, cf_BneOp_const_evaluate, cf_BltOp_const_evaluate,
    cf_BgeOp_const_evaluate, cf_BltuOp_const_evaluate, cf_BgeuOp_const_evaluate, hu, hs, constEvaluate]
  refine ⟨?_, ?_, ?_, ?_, ?_, ?_⟩ <;> first | rfl | simp [bne]

/-! ## the guards of the integer patterns -/

/-- `_fits_si12` is the encodability of a 12-bit signed immediate on the machine model -/
theorem fits_si12_eq (v : Int) : fits_si12 v = fitsSI12 v := by
  simp only [fits_si12, fitsSI12]
  rw [Bool.eq_iff_iff]; simp; omega

/-- `_folded_li_immediate(v, *sources)` with all sources of type `i32`: never raises, and the `li`
gets the signed reading of the low 32 bits of the exact result `v` (`wrap32` of the rule model) -/
theorem folded_li_immediate_i32 (v : Int) : folded_li_immediate v true = some (wrap32 v) := by
  simp only [folded_li_immediate, if_true]
  exact normalized_eq 32 (by omega) v true (Or.inl rfl)

/-- … with a 64-bit source: folded only when `v` is a signed 32-bit value, then unchanged; never raises -/
theorem folded_li_immediate_i64 (v : Int) :
    folded_li_immediate v false = if -2147483648 ≤ v ∧ v < 2147483648 then some v else none := by
  have e : (2 : Int) ^ ((31 : Int)).toNat = 2147483648 := by decide
  simp only [folded_li_immediate, e, Bool.false_eq_true, if_false]
  by_cases h : -2147483648 ≤ v ∧ v < 2147483648
  · simp only [h.1, h.2, decide_true, Bool.and_self, if_true, and_self]
    have hr : InS 32 v := (inS32_iff v).2 h
    rw [show (32 : Int) = ((32 : Nat) : Int) from rfl,
      normalized_eq 32 (by omega) v false (Or.inr (inS_signless (by omega) hr)), toInt_ofInt_of_inS (by omega) hr]
  · rw [if_neg h]
    have h' : (decide (-2147483648 ≤ v) && decide (v < 2147483648)) = false := by
      simp only [Bool.and_eq_false_iff, decide_eq_false_iff_not]; omega
    simp [h']

/-- in both cases a folded `li` immediate is a signed 32-bit value whose image is the image of `v` -/
theorem folded_li_immediate_sound (v : Int) (all32 : Bool) (k : Int)
    (h : folded_li_immediate v all32 = some k) : imm32 k = imm32 v ∧ inS32 k := by
  cases all32
  · rw [folded_li_immediate_i64] at h
    split at h
    · cases h; exact ⟨rfl, by assumption⟩
    · cases h
  · rw [folded_li_immediate_i32] at h
    cases h
    exact ⟨imm32_wrap32 v, wrap32_range v⟩

end Xdsl.C22K
