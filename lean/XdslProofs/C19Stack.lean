import XdslModel.RegAlloc
import XdslProofs.Lemmas.AL
/-!
# C19 — the `RegisterStack`: reservations and exclusion

"… pre-assigned and **reserved registers are respected** …" — the part of the property that rests on
`xdsl/backend/register_stack.py`.  Model: `RStack` / `sstep` in `XdslModel/RegAlloc.lean`
(`push`, `pop`, `include_register`, `exclude_register`, `reserve_register`, `unreserve_register`,
with the reservation counts and the `AssertionError` of `pop`).  All statements are for every
configuration (`allow_infinite`, numbering of the infinite registers), every state and every
operation (sequence).

* **A reserved register is never returned by `pop` and never made available by `push`**
  (`pop_never_reserved`, `push_reserved_noop`, `reserved_stays_unavailable`, `reserved_window`).
* **An excluded register** (finite, removed from the allocatable set) **is never returned by `pop`
  and never made available by `push`** until it is included again
  (`push_excluded_noop`, `exclude_establishes`, `excluded_window`).
* Reservation counts (`count_reserve`, `count_unreserve`, `isReserved_iff_count_pos`), the structural
  invariant (`sinv_step`/`sinv_run`: no duplicates, finite available registers are allocatable,
  stored counts positive), and — under the documented contract "it is invalid to reserve a register
  that is available" — no `AssertionError` ever (`contract_no_assertion`).
* The allocator model's `push`/`pop` are this stack without reservations (`push_eq_spush`,
  `pop_eq_spop`).
-/
namespace Xdsl.RegAlloc.Stack
open Xdsl.RegMachine

/-! ## the pieces leave the other fields alone -/

theorem spush_reserved_field (c : Cfg) (s : RStack) (r : Reg) : (spush c s r).reserved = s.reserved := by
  unfold spush; split
  · rfl
  · split <;> rfl

theorem spush_allocatable (c : Cfg) (s : RStack) (r : Reg) :
    (spush c s r).allocatable = s.allocatable := by
  unfold spush; split
  · rfl
  · split <;> rfl

theorem spush_nextInf (c : Cfg) (s : RStack) (r : Reg) : (spush c s r).nextInf = s.nextInf := by
  unfold spush; split
  · rfl
  · split <;> rfl

theorem isReserved_congr {s t : RStack} (h : t.reserved = s.reserved) (r : Reg) :
    t.isReserved r = s.isReserved r := by
  unfold RStack.isReserved; rw [h]

/-- what `push` can add to the available list: only its argument, and only if that is not reserved
and is infinite or allocatable -/
theorem mem_spush_avail {c : Cfg} {s : RStack} {r x : Reg} (h : x ∈ (spush c s r).avail) :
    x ∈ s.avail ∨ (x = r ∧ s.isReserved r = false ∧ (isInf c r = true ∨ r ∈ s.allocatable)) := by
  unfold spush at h
  split at h
  · exact Or.inl h
  · rename_i hres
    split at h
    · exact Or.inl h
    · rename_i hal
      simp only [List.mem_cons, List.mem_filter] at h
      rcases h with rfl | ⟨h1, _⟩
      · refine Or.inr ⟨rfl, by simpa using hres, ?_⟩
        simp only [Bool.and_eq_true, Bool.not_eq_true', List.contains_eq_mem, decide_eq_false_iff_not,
          not_and, Classical.not_not] at hal
        cases hi : isInf c x
        · exact Or.inr (hal hi)
        · exact Or.inl rfl
      · exact Or.inl h1

/-! ## "a reserved register is never returned by pop and never made available by push" -/

/-- `push` of a reserved register changes nothing ("Reserved registers (also infinite ones) stay
unavailable"). -/
theorem push_reserved_noop (c : Cfg) (s : RStack) (r : Reg) (h : s.isReserved r = true) :
    spush c s r = s := by
  simp [spush, h]

/-- so does `include_register` as far as availability is concerned -/
theorem include_reserved_avail (c : Cfg) (s : RStack) (r : Reg) (h : s.isReserved r = true) :
    (sinclude c s r).avail = s.avail := by
  unfold sinclude
  rw [push_reserved_noop c _ r (by simpa [RStack.isReserved] using h)]

/-- `pop` never hands out a reserved register: what it returns is not reserved (the `assert` of the
real code raises `AssertionError` instead). -/
theorem pop_never_reserved (c : Cfg) (s s' : RStack) (r : Reg) (h : spop c s = (s', .reg r)) :
    s.isReserved r = false := by
  unfold spop at h
  split at h
  · rename_i r0 rest _
    cases hr : s.isReserved r0
    · simp only [hr, Bool.false_eq_true, if_false, Prod.mk.injEq, SOut.reg.injEq] at h
      rw [← h.2]; exact hr
    · simp [hr] at h
  · split at h
    · cases hr : s.isReserved (c.infBase + s.nextInf)
      · simp only [hr, Bool.false_eq_true, if_false, Prod.mk.injEq, SOut.reg.injEq] at h
        rw [← h.2]; exact hr
      · simp [hr] at h
    · simp at h

/-- what `pop` returns was the top of the available list, or is a fresh infinite register -/
theorem pop_result (c : Cfg) (s s' : RStack) (r : Reg) (h : spop c s = (s', .reg r)) :
    s.avail.head? = some r ∨ (s.avail = [] ∧ r = c.infBase + s.nextInf) := by
  unfold spop at h
  split at h
  · rename_i r0 rest he
    cases hr : s.isReserved r0
    · simp only [hr, Bool.false_eq_true, if_false, Prod.mk.injEq, SOut.reg.injEq] at h
      left; rw [he, ← h.2]; rfl
    · simp [hr] at h
  · rename_i he
    split at h
    · cases hr : s.isReserved (c.infBase + s.nextInf)
      · simp only [hr, Bool.false_eq_true, if_false, Prod.mk.injEq, SOut.reg.injEq] at h
        exact Or.inr ⟨he, h.2.symm⟩
      · simp [hr] at h
    · simp at h

theorem spop_avail_sub (c : Cfg) (s : RStack) (x : Reg) (h : x ∈ (spop c s).1.avail) : x ∈ s.avail := by
  unfold spop at h
  split at h
  · rename_i r0 rest he
    rw [he]; exact List.mem_cons_of_mem _ h
  · split at h <;> exact h

theorem spop_reserved_field (c : Cfg) (s : RStack) : (spop c s).1.reserved = s.reserved := by
  unfold spop; split
  · rfl
  · split <;> rfl

theorem spop_allocatable (c : Cfg) (s : RStack) : (spop c s).1.allocatable = s.allocatable := by
  unfold spop; split
  · rfl
  · split <;> rfl

/-- **One step.** A register that is reserved and not available stays unavailable under *every*
operation, and no operation returns it. -/
theorem reserved_stays_unavailable (c : Cfg) (s : RStack) (r : Reg) (hres : s.isReserved r = true)
    (hav : r ∉ s.avail) (o : SOp) :
    r ∉ (sstep c s o).1.avail ∧ (sstep c s o).2 ≠ .reg r := by
  cases o with
  | incl x =>
    refine ⟨?_, by simp [sstep]⟩
    intro h
    rcases mem_spush_avail (c := c) h with h1 | ⟨rfl, h2, _⟩
    · exact hav h1
    · have : s.isReserved r = false := by simpa [RStack.isReserved] using h2
      rw [hres] at this; cases this
  | excl x =>
    refine ⟨?_, by simp [sstep]⟩
    intro h
    exact hav (List.mem_filter.1 h).1
  | push x =>
    refine ⟨?_, by simp [sstep]⟩
    intro h
    rcases mem_spush_avail (c := c) h with h1 | ⟨rfl, h2, _⟩
    · exact hav h1
    · rw [hres] at h2; cases h2
  | pop =>
    refine ⟨fun h => hav (spop_avail_sub c s r h), ?_⟩
    intro h
    have h' : spop c s = ((spop c s).1, .reg r) := Prod.ext rfl h
    have := pop_never_reserved c s _ r h'
    rw [hres] at this; cases this
  | reserve x => exact ⟨hav, by simp [sstep]⟩
  | unreserve x =>
    refine ⟨?_, ?_⟩
    · show r ∉ (sunreserve s x).1.avail
      unfold sunreserve; split
      · exact hav
      · split <;> exact hav
    · show (sunreserve s x).2 ≠ .reg r
      unfold sunreserve; split
      · simp
      · split <;> simp

/-- a reservation of `r` survives every operation except `unreserve r` -/
theorem reserved_kept (c : Cfg) (s : RStack) (r : Reg) (hres : s.isReserved r = true) (o : SOp)
    (ho : o ≠ .unreserve r) : (sstep c s o).1.isReserved r = true := by
  cases o with
  | incl x =>
    show (sinclude c s x).isReserved r = true
    unfold sinclude
    rw [isReserved_congr (spush_reserved_field c _ x)]; exact hres
  | excl x => exact hres
  | push x =>
    show (spush c s x).isReserved r = true
    rw [isReserved_congr (spush_reserved_field c s x)]; exact hres
  | pop =>
    show (spop c s).1.isReserved r = true
    rw [isReserved_congr (spop_reserved_field c s)]; exact hres
  | reserve x =>
    show (sreserve s x).isReserved r = true
    simp only [sreserve, RStack.isReserved, AL.get_set]
    split
    · rfl
    · exact hres
  | unreserve x =>
    have hx : r ≠ x := fun e => ho (by rw [e])
    show (sunreserve s x).1.isReserved r = true
    unfold sunreserve
    split
    · exact hres
    · split
      · simp only [RStack.isReserved, AL.get_del, if_neg hx]; exact hres
      · simp only [RStack.isReserved, AL.get_set, if_neg hx]; exact hres

/-- **Every operation sequence.** From a state where `r` is reserved and not available, along any
sequence of operations that does not `unreserve r`: `r` is still reserved, is not available, and no
`pop` of the sequence returned it. -/
theorem reserved_window (c : Cfg) (r : Reg) (os : List SOp) : ∀ (s : RStack),
    s.isReserved r = true → r ∉ s.avail → (∀ o ∈ os, o ≠ .unreserve r) →
    (srun c s os).1.isReserved r = true ∧ r ∉ (srun c s os).1.avail ∧ .reg r ∉ (srun c s os).2 := by
  induction os with
  | nil => intro s h1 h2 _; exact ⟨h1, h2, by simp [srun]⟩
  | cons o os ih =>
    intro s h1 h2 hno
    obtain ⟨h3, h4⟩ := reserved_stays_unavailable c s r h1 h2 o
    have h5 := reserved_kept c s r h1 o (hno o List.mem_cons_self)
    obtain ⟨h6, h7, h8⟩ := ih (sstep c s o).1 h5 h3 (fun o' ho' => hno o' (List.mem_cons_of_mem _ ho'))
    refine ⟨h6, h7, ?_⟩
    show SOut.reg r ∉ (sstep c s o).2 :: (srun c (sstep c s o).1 os).2
    intro hm
    rcases List.mem_cons.1 hm with e | e
    · exact h4 e.symm
    · exact h8 e

/-! ## the structural invariant -/

/-- the available list has no duplicates, its finite members are allocatable, stored reservation
counts are positive -/
structure SInv (c : Cfg) (s : RStack) : Prop where
  nodup : s.avail.Nodup
  sub : ∀ r ∈ s.avail, isInf c r = true ∨ r ∈ s.allocatable
  pos : ∀ r n, AL.get s.reserved r = some n → 0 < n

theorem sinv_empty (c : Cfg) : SInv c {} :=
  ⟨List.nodup_nil, (fun _ h => by cases h), (fun _ _ h => by simp [AL.get] at h)⟩

theorem spush_inv (c : Cfg) (s : RStack) (r : Reg) (h : SInv c s) : SInv c (spush c s r) := by
  refine ⟨?_, ?_, ?_⟩
  · unfold spush; split
    · exact h.nodup
    · split
      · exact h.nodup
      · refine List.nodup_cons.2 ⟨?_, h.nodup.filter _⟩
        simp
  · intro x hx
    rw [spush_allocatable]
    rcases mem_spush_avail (c := c) hx with h1 | ⟨rfl, _, h2⟩
    · exact h.sub x h1
    · exact h2
  · rw [spush_reserved_field]; exact h.pos

theorem sinv_step (c : Cfg) (s : RStack) (h : SInv c s) (o : SOp) : SInv c (sstep c s o).1 := by
  cases o with
  | incl x =>
    show SInv c (sinclude c s x)
    unfold sinclude
    apply spush_inv
    refine ⟨h.nodup, ?_, h.pos⟩
    intro r hr
    rcases h.sub r hr with h1 | h1
    · exact Or.inl h1
    · refine Or.inr ?_
      show r ∈ (if s.allocatable.contains x then s.allocatable else x :: s.allocatable)
      split
      · exact h1
      · exact List.mem_cons_of_mem _ h1
  | excl x =>
    refine ⟨h.nodup.filter _, ?_, h.pos⟩
    intro r hr
    obtain ⟨h1, h2⟩ := List.mem_filter.1 hr
    rcases h.sub r h1 with h3 | h3
    · exact Or.inl h3
    · exact Or.inr (List.mem_filter.2 ⟨h3, h2⟩)
  | push x => exact spush_inv c s x h
  | pop =>
    show SInv c (spop c s).1
    refine ⟨?_, ?_, by rw [spop_reserved_field]; exact h.pos⟩
    · unfold spop; split
      · rename_i r0 rest he
        have := h.nodup; rw [he] at this
        exact (List.nodup_cons.1 this).2
      · split <;> exact h.nodup
    · intro r hr
      rw [spop_allocatable]
      exact h.sub r (spop_avail_sub c s r hr)
  | reserve x =>
    refine ⟨h.nodup, h.sub, ?_⟩
    intro r n hn
    simp only [sstep, sreserve, AL.get_set] at hn
    split at hn
    · cases hn; exact Nat.succ_pos _
    · exact h.pos r n hn
  | unreserve x =>
    show SInv c (sunreserve s x).1
    unfold sunreserve
    split
    · exact h
    · rename_i n hn
      split
      · refine ⟨h.nodup, h.sub, ?_⟩
        intro r m hm
        simp only [AL.get_del] at hm
        split at hm
        · cases hm
        · exact h.pos r m hm
      · rename_i hne
        refine ⟨h.nodup, h.sub, ?_⟩
        intro r m hm
        simp only [AL.get_set] at hm
        split at hm
        · cases hm; exact Nat.pos_of_ne_zero hne
        · exact h.pos r m hm

theorem sinv_run (c : Cfg) (os : List SOp) : ∀ s, SInv c s → SInv c (srun c s os).1 := by
  induction os with
  | nil => intro s h; exact h
  | cons o os ih => intro s h; exact ih _ (sinv_step c s h o)

/-! ## exclusion -/

/-- `push` of a finite register that is not allocatable (excluded, or never included) changes
nothing. -/
theorem push_excluded_noop (c : Cfg) (s : RStack) (r : Reg) (hfin : isInf c r = false)
    (hex : r ∉ s.allocatable) : spush c s r = s := by
  unfold spush
  split
  · rfl
  · simp [hfin, hex]

/-- `exclude_register r` leaves `r` neither available nor allocatable -/
theorem exclude_establishes (s : RStack) (r : Reg) :
    r ∉ (sexclude s r).avail ∧ r ∉ (sexclude s r).allocatable := by
  simp [sexclude, List.mem_filter]

theorem step_allocatable_sub (c : Cfg) (s : RStack) (o : SOp) (r : Reg) (ho : o ≠ .incl r)
    (h : r ∈ (sstep c s o).1.allocatable) : r ∈ s.allocatable := by
  cases o with
  | incl x =>
    have hx : r ≠ x := fun e => ho (by rw [e])
    change r ∈ (sinclude c s x).allocatable at h
    unfold sinclude at h
    rw [spush_allocatable] at h
    change r ∈ (if s.allocatable.contains x then s.allocatable else x :: s.allocatable) at h
    split at h
    · exact h
    · rcases List.mem_cons.1 h with e | e
      · exact absurd e hx
      · exact e
  | excl x => exact (List.mem_filter.1 h).1
  | push x => change r ∈ (spush c s x).allocatable at h; rw [spush_allocatable] at h; exact h
  | pop => change r ∈ (spop c s).1.allocatable at h; rw [spop_allocatable] at h; exact h
  | reserve x => exact h
  | unreserve x =>
    change r ∈ (sunreserve s x).1.allocatable at h
    unfold sunreserve at h
    split at h
    · exact h
    · split at h <;> exact h

/-- one step: an excluded finite register is not returned and does not become available unless it is
included again -/
theorem excluded_step (c : Cfg) (s : RStack) (hinv : SInv c s) (r : Reg) (hfin : isInf c r = false)
    (hex : r ∉ s.allocatable) (o : SOp) (ho : o ≠ .incl r) :
    r ∉ (sstep c s o).1.allocatable ∧ r ∉ (sstep c s o).1.avail ∧ (sstep c s o).2 ≠ .reg r := by
  have hal : r ∉ (sstep c s o).1.allocatable := fun h => hex (step_allocatable_sub c s o r ho h)
  have hav' : r ∉ (sstep c s o).1.avail := by
    intro h
    rcases (sinv_step c s hinv o).sub r h with h1 | h1
    · rw [hfin] at h1; cases h1
    · exact hal h1
  refine ⟨hal, hav', ?_⟩
  have hav : r ∉ s.avail := by
    intro h
    rcases hinv.sub r h with h1 | h1
    · rw [hfin] at h1; cases h1
    · exact hex h1
  cases o with
  | pop =>
    intro h
    have h' : spop c s = ((spop c s).1, .reg r) := Prod.ext rfl h
    rcases pop_result c s _ r h' with h1 | ⟨_, h1⟩
    · exact hav (List.mem_of_mem_head? h1)
    · have : isInf c r = true := by rw [h1]; simp [isInf]
      rw [hfin] at this; cases this
  | unreserve x =>
    show (sunreserve s x).2 ≠ .reg r
    unfold sunreserve; split
    · simp
    · split <;> simp
  | incl x => simp [sstep]
  | excl x => simp [sstep]
  | push x => simp [sstep]
  | reserve x => simp [sstep]

/-- **Every operation sequence.** From a consistent state in which the finite register `r` is not
allocatable (it has been excluded, e.g. because it is pre-assigned): along any sequence of operations
without `include_register r`, `r` never becomes allocatable or available and no `pop` returns it. -/
theorem excluded_window (c : Cfg) (r : Reg) (hfin : isInf c r = false) (os : List SOp) :
    ∀ (s : RStack), SInv c s → r ∉ s.allocatable → (∀ o ∈ os, o ≠ .incl r) →
    r ∉ (srun c s os).1.allocatable ∧ r ∉ (srun c s os).1.avail ∧ .reg r ∉ (srun c s os).2 := by
  induction os with
  | nil =>
    intro s hinv hex _
    refine ⟨hex, ?_, by simp [srun]⟩
    intro h
    rcases hinv.sub r h with h1 | h1
    · rw [hfin] at h1; cases h1
    · exact hex h1
  | cons o os ih =>
    intro s hinv hex hno
    obtain ⟨h1, _, h3⟩ := excluded_step c s hinv r hfin hex o (hno o List.mem_cons_self)
    obtain ⟨h4, h5, h6⟩ := ih (sstep c s o).1 (sinv_step c s hinv o) h1
      (fun o' ho' => hno o' (List.mem_cons_of_mem _ ho'))
    refine ⟨h4, h5, ?_⟩
    show SOut.reg r ∉ (sstep c s o).2 :: (srun c (sstep c s o).1 os).2
    intro hm
    rcases List.mem_cons.1 hm with e | e
    · exact h3 e.symm
    · exact h6 e

/-! ## reservation counts -/

theorem count_reserve (s : RStack) (r x : Reg) :
    (sreserve s r).count x = if x = r then s.count r + 1 else s.count x := by
  simp only [sreserve, RStack.count, AL.get_set]
  split
  · rename_i h; subst h; rfl
  · rfl

/-- `unreserve` of a register with a positive count lowers the count by one (and only that count);
with count 0 (absent key) it raises `ValueError` and changes nothing -/
theorem count_unreserve (s : RStack) (r x : Reg) :
    (if s.isReserved r then
      (sunreserve s r).2 = .unit ∧
        (sunreserve s r).1.count x = if x = r then s.count r - 1 else s.count x
     else sunreserve s r = (s, .valueError)) := by
  unfold sunreserve RStack.isReserved
  cases hg : AL.get s.reserved r with
  | none => simp
  | some n =>
    simp only [Option.isSome_some, if_true]
    split
    · rename_i hz
      refine ⟨rfl, ?_⟩
      simp only [RStack.count, AL.get_del, hg, Option.getD_some]
      split
      · simp [hz]
      · rfl
    · refine ⟨rfl, ?_⟩
      simp only [RStack.count, AL.get_set, hg, Option.getD_some]
      split
      · rfl
      · rfl

/-- a register is reserved (`index in reserved_registers[pool]`) iff its count is positive -/
theorem isReserved_iff_count_pos (c : Cfg) (s : RStack) (hinv : SInv c s) (r : Reg) :
    s.isReserved r = true ↔ 0 < s.count r := by
  unfold RStack.isReserved RStack.count
  cases hg : AL.get s.reserved r with
  | none => simp
  | some n => simpa using hinv.pos r n hg

/-! ## the documented contract: no `AssertionError` -/

/-- reserved registers are not available, and reserved infinite registers have been handed out -/
structure Good (c : Cfg) (s : RStack) : Prop where
  disj : ∀ r, s.isReserved r = true → r ∉ s.avail
  inf : ∀ r, s.isReserved r = true → isInf c r = true → r < c.infBase + s.nextInf

/-- "It is invalid to reserve a register that is available" (and an infinite register can only be
reserved once `pop` has created it) -/
def Allowed (c : Cfg) (s : RStack) : SOp → Prop
  | .reserve r => r ∉ s.avail ∧ (isInf c r = true → r < c.infBase + s.nextInf)
  | _ => True

def AllowedSeq (c : Cfg) : RStack → List SOp → Prop
  | _, [] => True
  | s, o :: os => Allowed c s o ∧ AllowedSeq c (sstep c s o).1 os

theorem isReserved_of_step (c : Cfg) (s : RStack) (o : SOp) (r : Reg)
    (h : (sstep c s o).1.isReserved r = true) : s.isReserved r = true ∨ o = .reserve r := by
  cases o with
  | incl x =>
    change (sinclude c s x).isReserved r = true at h
    unfold sinclude at h
    rw [isReserved_congr (spush_reserved_field c _ x)] at h; exact Or.inl h
  | excl x => exact Or.inl h
  | push x =>
    change (spush c s x).isReserved r = true at h
    rw [isReserved_congr (spush_reserved_field c s x)] at h; exact Or.inl h
  | pop =>
    change (spop c s).1.isReserved r = true at h
    rw [isReserved_congr (spop_reserved_field c s)] at h; exact Or.inl h
  | reserve x =>
    change (sreserve s x).isReserved r = true at h
    simp only [sreserve, RStack.isReserved, AL.get_set] at h
    split at h
    · rename_i e; exact Or.inr (by rw [e])
    · exact Or.inl h
  | unreserve x =>
    change (sunreserve s x).1.isReserved r = true at h
    unfold sunreserve at h
    split at h
    · exact Or.inl h
    · split at h
      · simp only [RStack.isReserved, AL.get_del] at h
        split at h
        · cases h
        · exact Or.inl h
      · simp only [RStack.isReserved, AL.get_set] at h
        split at h
        · rename_i hg _ e
          exact Or.inl (by simp [RStack.isReserved, e, hg])
        · exact Or.inl h

theorem step_nextInf_le (c : Cfg) (s : RStack) (o : SOp) : s.nextInf ≤ (sstep c s o).1.nextInf := by
  cases o with
  | incl x => show s.nextInf ≤ (sinclude c s x).nextInf; unfold sinclude; rw [spush_nextInf]; exact Nat.le_refl _
  | excl x => exact Nat.le_refl _
  | push x => show s.nextInf ≤ (spush c s x).nextInf; rw [spush_nextInf]; exact Nat.le_refl _
  | pop =>
    show s.nextInf ≤ (spop c s).1.nextInf
    unfold spop; split
    · exact Nat.le_refl _
    · split
      · exact Nat.le_succ _
      · exact Nat.le_refl _
  | reserve x => exact Nat.le_refl _
  | unreserve x =>
    show s.nextInf ≤ (sunreserve s x).1.nextInf
    unfold sunreserve; split
    · exact Nat.le_refl _
    · split <;> exact Nat.le_refl _

/-- under the contract a step keeps `Good` and does not raise `AssertionError` -/
theorem good_step (c : Cfg) (s : RStack) (hg : Good c s) (o : SOp) (ha : Allowed c s o) :
    Good c (sstep c s o).1 ∧ (sstep c s o).2 ≠ .assertionError := by
  refine ⟨⟨?_, ?_⟩, ?_⟩
  · intro r hr
    rcases isReserved_of_step c s o r hr with h | rfl
    · exact (reserved_stays_unavailable c s r h (hg.disj r h) o).1
    · exact ha.1
  · intro r hr hi
    have hle := step_nextInf_le c s o
    rcases isReserved_of_step c s o r hr with h | rfl
    · exact Nat.lt_of_lt_of_le (hg.inf r h hi) (Nat.add_le_add_left hle _)
    · exact Nat.lt_of_lt_of_le (ha.2 hi) (Nat.add_le_add_left hle _)
  · cases o with
    | pop =>
      show (spop c s).2 ≠ .assertionError
      unfold spop
      split
      · rename_i r0 rest he
        cases hr : s.isReserved r0
        · simp
        · exact absurd (by rw [he]; exact List.mem_cons_self) (hg.disj r0 hr)
      · split
        · cases hr : s.isReserved (c.infBase + s.nextInf)
          · simp
          · exact absurd (hg.inf _ hr (by simp [isInf])) (Nat.lt_irrefl _)
        · simp
    | unreserve x =>
      show (sunreserve s x).2 ≠ .assertionError
      unfold sunreserve; split
      · simp
      · split <;> simp
    | incl x => simp [sstep]
    | excl x => simp [sstep]
    | push x => simp [sstep]
    | reserve x => simp [sstep]

/-- **Under the documented contract no operation sequence raises `AssertionError`**, and reserved
registers are never available. -/
theorem contract_no_assertion (c : Cfg) (os : List SOp) : ∀ (s : RStack), Good c s →
    AllowedSeq c s os → Good c (srun c s os).1 ∧ .assertionError ∉ (srun c s os).2 := by
  induction os with
  | nil => intro s h _; exact ⟨h, by simp [srun]⟩
  | cons o os ih =>
    intro s hg ha
    obtain ⟨h1, h2⟩ := good_step c s hg o ha.1
    obtain ⟨h3, h4⟩ := ih _ h1 ha.2
    refine ⟨h3, ?_⟩
    show SOut.assertionError ∉ (sstep c s o).2 :: (srun c (sstep c s o).1 os).2
    intro hm
    rcases List.mem_cons.1 hm with e | e
    · exact h2 e.symm
    · exact h4 e

theorem good_empty (c : Cfg) : Good c {} :=
  ⟨fun r h => by simp [RStack.isReserved, AL.get] at h, fun r h => by simp [RStack.isReserved, AL.get] at h⟩

/-! ## the allocator model uses this stack without reservations -/

/-- the `RegisterStack` inside the allocator state of `XdslModel/RegAlloc.lean` -/
def stackOf (s : St) : RStack :=
  { allocatable := s.allocatable, nextInf := s.nextInf, reserved := [], avail := s.avail }

/-- the allocator model's `push` is `RegisterStack.push` with no register reserved -/
theorem push_eq_spush (c : Cfg) (s : St) (r : Reg) : stackOf (push c s r) = spush c (stackOf s) r := by
  have e : spush c (stackOf s) r =
      if (!isInf c r && !s.allocatable.contains r) then stackOf s
      else { stackOf s with avail := r :: s.avail.filter (· != r) } := rfl
  rw [e]; unfold push
  by_cases hb : (!isInf c r && !s.allocatable.contains r) = true
  · rw [if_pos hb, if_pos hb]
  · rw [if_neg hb, if_neg hb]; rfl

/-- … and its `pop` is `RegisterStack.pop` (never an `AssertionError`) -/
theorem pop_eq_spop (c : Cfg) (s : St) :
    match pop c s with
    | .ok (r, s') => spop c (stackOf s) = (stackOf s', .reg r)
    | .error .outOfRegisters => spop c (stackOf s) = (stackOf s, .outOfRegisters)
    | .error .diagnostic => False := by
  cases h : s.avail with
  | nil => cases hc : c.allowInf <;> simp [pop, spop, stackOf, h, hc, RStack.isReserved]
  | cons r rest => simp [pop, spop, stackOf, h, RStack.isReserved]

/-! ## non-vacuity -/

/-- t0 (5) is reserved after being popped: pushing it back is ignored until the reservation count is
back to 0; `exclude 6` removes t1 for good; popping an empty stack without infinite registers raises -/
example :
    (srun { z := false, allowInf := false, infBase := 1000 } {}
      [.incl 5, .incl 6, .pop, .pop, .reserve 5, .reserve 5, .push 5, .unreserve 5, .push 5,
       .unreserve 5, .unreserve 5, .push 5, .excl 6, .push 6, .pop, .pop]).2
    = [.unit, .unit, .reg 6, .reg 5, .unit, .unit, .unit, .unit, .unit,
       .unit, .valueError, .unit, .unit, .unit, .reg 5, .outOfRegisters] := by decide

/-- violating the contract (reserving an available register) is what makes `pop` raise -/
example :
    (srun { z := false, allowInf := false, infBase := 1000 } {} [.incl 5, .reserve 5, .pop]).2
    = [.unit, .unit, .assertionError] := by decide

end Xdsl.RegAlloc.Stack
