import XdslModel.SSADom
import XdslProofs.C24
/-!
# C17 — validity of the generated input modules (SSA dominance), decided by the C24 model

The quantifier of C17 ranges over *valid* input modules.  For the generated families (random control-flow
graphs, near misses of corpus modules) validity includes "every definition dominates its uses", which
xDSL's verifier does not check.  The harness sends, per multi-block region, the CFG and the list of
cross-block def→use obligations to the driver model `ssa_dom`; a generated module is only used as an input
when every line is answered `ok`.  The theorems say what `ok` means, in terms of paths.
-/
namespace Xdsl.SSADom
open Xdsl.Graph Xdsl.Dominance

/-- **check_iff.** The obligations of a region are accepted exactly when, for each of them, the defining
block is a different block of the region than the using block and every CFG path from the entry block to
the using block passes through the defining block. -/
theorem check_iff (g : Graph) (obs : List Obl) (hb : ∀ o ∈ obs, o.2 < g.length) :
    check g obs = true ↔
      ∀ o ∈ obs, o.1 ≠ o.2 ∧ o.1 < g.length ∧ ∀ l, Path g 0 o.2 l → o.1 ∈ l := by
  unfold check
  rw [List.all_eq_true]
  constructor
  · intro h o ho
    have h1 := h o ho
    unfold oblOk strictlyDominates at h1
    by_cases he : o.1 = o.2
    · simp [he] at h1
    · rw [if_neg he] at h1
      have := (dom_iff_paths_all g (hb o ho)).mp h1
      exact ⟨he, this.1, this.2⟩
  · intro h o ho
    obtain ⟨he, hl, hp⟩ := h o ho
    unfold oblOk strictlyDominates
    rw [if_neg he]
    exact (dom_iff_paths_all g (hb o ho)).mpr ⟨hl, hp⟩

/-- For a *reachable* using block the side condition `o.1 < g.length` is implied by the path condition. -/
theorem oblOk_reachable (g : Graph) (o : Obl) (hb : o.2 < g.length) (hr : Reach g 0 o.2) :
    oblOk (dominance g).1 o = true ↔ o.1 ≠ o.2 ∧ ∀ l, Path g 0 o.2 l → o.1 ∈ l := by
  unfold oblOk
  exact strict_iff g hb hr

/-- A use in an unreachable block is accepted from every other block of the region. -/
theorem oblOk_unreachable (g : Graph) (o : Obl) (hb : o.2 < g.length) (hr : ¬ Reach g 0 o.2) :
    oblOk (dominance g).1 o = true ↔ o.1 ≠ o.2 ∧ o.1 < g.length := by
  unfold oblOk strictlyDominates
  by_cases he : o.1 = o.2
  · simp [he]
  · rw [if_neg he, dom_unreachable g hb hr]; simp [he]

theorem firstBad_none_iff (d : Dom) (obs : List Obl) (i : Nat) :
    firstBad d obs i = none ↔ obs.all (oblOk d) = true := by
  induction obs generalizing i with
  | nil => simp [firstBad]
  | cons o os ih =>
    unfold firstBad
    by_cases h : oblOk d o = true
    · simp [h, ih]
    · simp [h]

/-- **verdict_ok_iff.** The driver answers `ok` exactly when `check` holds. -/
theorem verdict_ok_iff (g : Graph) (obs : List Obl) : verdict g obs = "ok" ↔ check g obs = true := by
  unfold verdict check
  rw [← firstBad_none_iff _ _ 0]
  cases h : firstBad (dominance g).1 obs 0 with
  | none => simp
  | some i =>
    simp only [reduceCtorEq, iff_false]
    intro hc
    have := congrArg String.length hc
    simp only [String.length_append] at this
    have h1 : "fail ".length = 5 := by decide
    have h2 : "ok".length = 2 := by decide
    omega

/-! ## Non-vacuity -/

/-- the diamond `0 → {1, 2} → 3`: a value of block 0 may be used in block 3, a value of block 1 may not
(the path through block 2 avoids it) -/
example : check [[1, 2], [3], [3], []] [(0, 3), (0, 1)] = true := by decide
example : check [[1, 2], [3], [3], []] [(1, 3)] = false := by decide
/-- the shape behind the pass-through rules: `0 → 1 → 2`, `0 → 3`; block 1 (a lone branch) dominates block 2 -/
example : check [[1, 3], [2], [], []] [(1, 2), (0, 2)] = true := by decide
example : verdict [[1, 3], [2], [], []] [(1, 2), (3, 2)] = "fail 1" := by decide

end Xdsl.SSADom
