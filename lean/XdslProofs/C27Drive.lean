import XdslProofs.Lemmas.PDLDrive
/-!
# C27 — the DRIVER half: greedy application by `PatternRewriteWalker`  (PARTIAL claim, see C27.lean)

Property: "Applying a PDL rewrite pattern directly and applying the matcher and rewriter that the conversion produces
… to the same payload IR yields equivalent IR."  *Applying* is what the passes `apply-pdl` and `apply-pdl-interp` do:
they hand the (interpreted / compiled) pattern to a `PatternRewriteWalker`.  The result of the passes is therefore a
function of three things: which operations the matcher accepts, what the rewriter does at an accepted operation, and
IN WHICH ORDER the walker visits the operations.  `XdslModel/PDL.lean` models the walker (`driveWith`: worklist,
use lists, listener) on top of the specification of one rewrite (`step`).

What is proved here:

* `drive_congr` — the result depends on the matcher only through its input/output behaviour: two matchers that agree
  on every (payload, operation) give the same payload under the same walker.  Together with `match_iff` /
  `instantiation_unique` this is the reason why "the compiled matcher accepts exactly the operations the pattern
  describes" suffices — PROVIDED both passes drive their pattern with the same walker configuration.
* `walk_order_observable` — that proviso cannot be dropped: for a pattern that is not confluent the walk order
  (`walk_reverse`) changes the payload the walker ends with.  So a difference between the drivers of the two passes
  is a violation of the property, and the harness compares the passes themselves on payloads with overlapping match
  sites (and both with this model).
* `drive_reach`, `drive_closed`, `drive_normal` — what every walk guarantees whatever the order: the final payload is
  reached by rewrites of the pattern alone, has no dangling uses, and no operation of it matches any more.

The real walker, the two interpreters and the predicate-tree compiler are not modelled by anything proved here; the
harness ties `driveW` to both real passes by correspondence on every generated chain payload.
-/
namespace Xdsl.PDL
open Xdsl

/-! ### the matcher enters only through its input/output behaviour -/

/-- **drive_congr**: matchers that agree on every payload and operation (as the interpreted matcher and the compiled
predicate tree must, by `match_iff` / `instantiation_unique`, if both implement the pattern) give the same result under
the same walker — same rewrite section, same walk order, same fuel. -/
theorem drive_congr {m₁ m₂ : IR → OpId → Option Binding} (h : ∀ ir o, m₁ ir o = m₂ ir o)
    (rw : List Action) (rev : Bool) (fuel : Nat) (ir : IR) :
    driveWith m₁ rw rev fuel ir = driveWith m₂ rw rev fuel ir := by
  have : m₁ = m₂ := funext fun ir => funext fun o => h ir o
  subst this
  rfl

/-! ### what every walk guarantees -/

/-- **drive_reach**: whatever the walk order, the walker's result is reached by rewrites of the pattern alone. -/
theorem drive_reach {p : Pattern} {rw : List Action} {rev : Bool} {fuel : Nat} {ir ir' : IR}
    (h : driveW p rw rev fuel ir = .done ir') : Reach p rw ir ir' :=
  driveLoop_reach p rw rev fuel _ ir' h

/-- **drive_closed**: greedy application leaves no dangling uses (every walk order). -/
theorem drive_closed {p : Pattern} {rw : List Action} {rev : Bool} {fuel : Nat} {ir ir' : IR}
    (hc : ir.closed = true) (h : driveW p rw rev fuel ir = .done ir') : ir'.closed = true :=
  (drive_reach h).closed hc

/-- **drive_normal**: when the walker finishes (either walk order), no operation of the final payload matches the
pattern any more — the passes apply the pattern to a fixpoint.  (`rw ≠ []`: a rewrite section without any action
reports no change to the walker.) -/
theorem drive_normal {p : Pattern} {rw : List Action} {rev : Bool} {fuel : Nat} {ir ir' : IR} (hrw : rw ≠ [])
    (h : driveW p rw rev fuel ir = .done ir') : ∀ x ∈ ir'.ops, rewriteAt p rw ir' x.id = .nomatch := by
  intro x hx
  rw [rewriteAt_nomatch]
  refine driveLoop_normal (matchRoot p) rw hrw rev fuel _ ir' ?_ h x hx
  intro _ y hy
  exact Or.inl (mem_populate hy)

/-! ### the walk order is observable

`root(prod(x)) → x` ("skip the producer": the root's operand must be the result of an operation of the same name; the
root is replaced by that operation's operand) on the chain `a; b(a); c(b); d(c); sink(d, d)`.
Program order rewrites `c` (then `d` has lost its producer `c`… and regains one in `b`): the walker ends with
`a; b(a); d(a); sink(d, d)`.  Reverse order rewrites `d` first and ends with `a; b(a); sink(b, b)`.
names: 0 = test.op; type 0 = i32. -/

def skipPattern : Pattern :=
  { types := [none], attrs := [], vals := [none],
    ops := [{ name := some 0, attrs := [], operands := [.val 0], results := [0] },
            { name := some 0, attrs := [], operands := [.res 0 0], results := [0] }] }

def skipRewrite : List Action := [.replaceVals (.m 1) [.cap 0]]

def chainIR : IR :=
  { argTys := [],
    ops := [{ id := 3, name := 0, operands := [], attrs := [], resTys := [0] },
            { id := 10, name := 0, operands := [.res 3 0], attrs := [], resTys := [0] },
            { id := 17, name := 0, operands := [.res 10 0], attrs := [], resTys := [0] },
            { id := 24, name := 0, operands := [.res 17 0], attrs := [], resTys := [0] },
            { id := 31, name := 0, operands := [.res 24 0, .res 24 0], attrs := [], resTys := [] }] }

theorem chain_forward : driveW skipPattern skipRewrite false 40 chainIR = .done
    { argTys := [],
      ops := [{ id := 3, name := 0, operands := [], attrs := [], resTys := [0] },
              { id := 10, name := 0, operands := [.res 3 0], attrs := [], resTys := [0] },
              { id := 24, name := 0, operands := [.res 3 0], attrs := [], resTys := [0] },
              { id := 31, name := 0, operands := [.res 24 0, .res 24 0], attrs := [], resTys := [] }] } := by
  decide +kernel

theorem chain_reverse : driveW skipPattern skipRewrite true 40 chainIR = .done
    { argTys := [],
      ops := [{ id := 3, name := 0, operands := [], attrs := [], resTys := [0] },
              { id := 10, name := 0, operands := [.res 3 0], attrs := [], resTys := [0] },
              { id := 31, name := 0, operands := [.res 10 0, .res 10 0], attrs := [], resTys := [] }] } := by
  decide +kernel

/-- **walk_order_observable**: with one and the same matcher and rewriter, a walker that visits the operations in
reverse order ends with a different payload than the default walker.  Equality of the single rewrites is therefore
not enough for the property: the two passes must also drive their pattern in the same way. -/
theorem walk_order_observable :
    ∃ (p : Pattern) (rw : List Action) (ir : IR) (a b : IR),
      driveW p rw false 40 ir = .done a ∧ driveW p rw true 40 ir = .done b ∧ a ≠ b :=
  ⟨skipPattern, skipRewrite, chainIR, _, _, chain_forward, chain_reverse, by decide⟩

/-- … although both results are normal forms reached by the pattern alone (so neither walker is "wrong" by itself) -/
example : ∀ x ∈ chainIR.ops, x.id = 17 ∨ x.id = 24 ∨ rewriteAt skipPattern skipRewrite chainIR x.id = .nomatch := by
  decide

end Xdsl.PDL
