import XdslModel.Loops
import XdslProofs.Lemmas.AL
/-!
C16 — affine lowering (`lower_affine.py: affine_expr_ops`) and symref elimination on a
straight-line block (`desymref.py: prune_definitions`).
-/
namespace Xdsl.C16
open Xdsl.Loops

/-- "affine lowering": the arith operations emitted for an affine expression compute its value at
every point where each `mod` has a non-negative left and a positive right operand.
PARTIAL: the full statement (`evalLowered ρ e = eval ρ e` whenever every `mod`/`floordiv`/`ceildiv`
has a positive right operand) is false of the code — `mod` is emitted as a bare `arith.remsi`
(known finding, `lower_affine_mod_counterexample`). -/
theorem lower_affine_sound_partial (ρ : Nat → Int) (e : AExpr) (h : e.modSafe ρ = true) :
    e.evalLowered ρ = e.eval ρ := by
  induction e with
  | const v => rfl
  | dim p => rfl
  | bin k l r ihl ihr =>
    simp only [AExpr.modSafe, Bool.and_eq_true, Bool.or_eq_true, bne_iff_ne, ne_eq, decide_eq_true_eq] at h
    obtain ⟨⟨hl, hr⟩, hm⟩ := h
    have el := ihl hl
    have er := ihr hr
    cases k with
    | add => simp only [AExpr.evalLowered, AExpr.eval, el, er]
    | mul => simp only [AExpr.evalLowered, AExpr.eval, el, er]
    | floordiv => simp only [AExpr.evalLowered, AExpr.eval, el, er]
    | ceildiv => simp only [AExpr.evalLowered, AExpr.eval, el, er]
    | mod =>
      simp only [AExpr.evalLowered, AExpr.eval, el, er]
      cases hm with
      | inl h => exact absurd rfl h
      | inr h =>
        rw [Int.tmod_eq_emod_of_nonneg h.1, Int.fmod_eq_emod_of_nonneg _ (by omega)]

/-- `d0 mod 3` at `d0 = -1`: the affine value is 2, the emitted `arith.remsi` gives -1 -/
theorem lower_affine_mod_counterexample :
    (AExpr.bin .mod (.dim 0) (.const 3)).eval (fun _ => -1) = 2
    ∧ (AExpr.bin .mod (.dim 0) (.const 3)).evalLowered (fun _ => -1) = -1 := by
  decide

example : (AExpr.bin .add (.bin .mod (.dim 0) (.const 4)) (.bin .ceildiv (.dim 1) (.const 3))).modSafe
    (fun p => if p = 0 then 7 else -5) = true := by decide

/-- invariant of the forwarding pass: the store agrees with "closest preceding write" -/
theorem symRun_eq_forwarded (ops : List SOp) :
    ∀ (st : AL Nat Int) (pre : List SOp), (∀ x, AL.get st x = lastWrite x pre) →
      symRun ops st = forwarded ops pre := by
  induction ops with
  | nil => intro st pre _; rfl
  | cons o r ih =>
    intro st pre hinv
    cases o with
    | update x v =>
      simp only [symRun, forwarded]
      apply ih
      intro y
      rw [AL.get_set]
      simp only [lastWrite]
      by_cases hxy : y = x
      · subst hxy; simp
      · have : ¬ x = y := fun e => hxy e.symm
        simp [hxy, this, hinv]
    | fetch x =>
      simp only [symRun, forwarded, hinv x]
      cases lastWrite x pre with
      | none => rfl
      | some v =>
        simp only
        congr 1
        apply ih
        intro y
        simp [lastWrite, hinv]

/-- "symref elimination", straight-line block with the declaration in the same block: replacing
every fetch by the operand of the closest preceding update yields exactly the values the symbol
store would have delivered (and is undefined exactly when a never-written symbol is fetched).
PARTIAL: symbols used inside nested regions are not covered — the (repaired) pass does not forward
them either: it raises for a declared symbol that a nested region still uses and leaves undeclared ones
untouched (promotion of nested uses is an unimplemented TODO of the pass). -/
theorem desymref_sound_partial (ops : List SOp) : symRun ops [] = forwarded ops [] :=
  symRun_eq_forwarded ops [] [] (fun _ => rfl)

example : symRun [.update 0 5, .fetch 0, .update 0 7, .update 1 1, .fetch 0, .fetch 1] [] = some [5, 7, 1] := by decide
example : forwarded [.update 0 5, .fetch 0, .update 0 7, .update 1 1, .fetch 0, .fetch 1] [] = some [5, 7, 1] := by decide

end Xdsl.C16
