import XdslModel.Loops
import XdslProofs.Lemmas.AL
/-!
C16 — affine lowering (`lower_affine.py: affine_expr_ops`) and symref elimination on a
straight-line block (`desymref.py: prune_definitions`).
-/
namespace Xdsl.C16
open Xdsl.Loops

/-- "affine lowering": the arith operations emitted for an affine expression compute its value at
every point where each `mod` has a non-negative left and a positive right operand.
PARTIAL: the full statement (`evalLowered ρ e = eval ρ e` whenever every `mod`/`floordiv`/`ceildiv`
has a positive right operand) is false of the code — `mod` is emitted as a bare `arith.remsi`
(known finding, `lower_affine_mod_counterexample`). -/
theorem lower_affine_sound_partial (ρ : Nat → Int) (e : AExpr) (h : e.modSafe ρ = true) :
    e.evalLowered ρ = e.eval ρ := by
  induction e with
  | const v => rfl
  | dim p => rfl
  | bin k l r ihl ihr =>
    simp only [AExpr.modSafe, Bool.and_eq_true, Bool.or_eq_true, bne_iff_ne, ne_eq, decide_eq_true_eq] at h
    obtain ⟨⟨hl, hr⟩, hm⟩ := h
    have el := ihl hl
    have er := ihr hr
    cases k with
    | add => simp only [AExpr.evalLowered, AExpr.eval, el, er]
    | mul => simp only [AExpr.evalLowered, AExpr.eval, el, er]
    | floordiv => simp only [AExpr.evalLowered, AExpr.eval, el, er]
    | ceildiv => simp only [AExpr.evalLowered, AExpr.eval, el, er]
    | mod =>
      simp only [AExpr.evalLowered, AExpr.eval, el, er]
      cases hm with
      | inl h => exact absurd rfl h
      | inr h =>
        rw [Int.tmod_eq_emod_of_nonneg h.1, Int.fmod_eq_emod_of_nonneg _ (by omega)]

/-- `d0 mod 3` at `d0 = -1`: the affine value is 2, the emitted `arith.remsi` gives -1 -/
theorem lower_affine_mod_counterexample :
    (AExpr.bin .mod (.dim 0) (.const 3)).eval (fun _ => -1) = 2
    ∧ (AExpr.bin .mod (.dim 0) (.const 3)).evalLowered (fun _ => -1) = -1 := by
  decide

example : (AExpr.bin .add (.bin .mod (.dim 0) (.const 4)) (.bin .ceildiv (.dim 1) (.const 3))).modSafe
    (fun p => if p = 0 then 7 else -5) = true := by decide

/-- invariant of the forwarding pass: the store agrees with "closest preceding write" -/
theorem symRun_eq_forwarded (ops : List SOp) :
    ∀ (st : AL Nat Int) (pre : List SOp), (∀ x, AL.get st x = lastWrite x pre) →
      symRun ops st = forwarded ops pre := by
  induction ops with
  | nil => intro st pre _; rfl
  | cons o r ih =>
    intro st pre hinv
    cases o with
    | update x v =>
      simp only [symRun, forwarded]
      apply ih
      intro y
      rw [AL.get_set]
      simp only [lastWrite]
      by_cases hxy : y = x
      · subst hxy; simp
      · have : ¬ x = y := fun e => hxy e.symm
        simp [hxy, this, hinv]
    | fetch x =>
      simp only [symRun, forwarded, hinv x]
      cases lastWrite x pre with
      | none => rfl
      | some v =>
        simp only
        congr 1
        apply ih
        intro y
        simp [lastWrite, hinv]

/-- "symref elimination", straight-line block with the declaration in the same block: replacing
every fetch by the operand of the closest preceding update yields exactly the values the symbol
store would have delivered (and is undefined exactly when a never-written symbol is fetched).
PARTIAL: symbols used inside nested regions are not covered — the (repaired) pass does not forward
them either: it raises for a declared symbol that a nested region still uses and leaves undeclared ones
untouched (promotion of nested uses is an unimplemented TODO of the pass). -/
theorem desymref_sound_partial (ops : List SOp) : symRun ops [] = forwarded ops [] :=
  symRun_eq_forwarded ops [] [] (fun _ => rfl)

example : symRun [.update 0 5, .fetch 0, .update 0 7, .update 1 1, .fetch 0, .fetch 1] [] = some [5, 7, 1] := by decide
example : forwarded [.update 0 5, .fetch 0, .update 0 7, .update 1 1, .fetch 0, .fetch 1] [] = some [5, 7, 1] := by decide

/-! ## symbols used below a block (`desymref.py: get_nested_symbols`, nested regions of any depth) -/

/-- `get_symbols(block)` = the symbols with a symref operation in the block itself (depth 0). -/
theorem symtree_mem_direct_iff (s : Nat) (t : SymTree) : s ∈ t.direct ↔ t.occursAt s 0 = true := by
  induction t with
  | leaf => simp [SymTree.direct, SymTree.occursAt]
  | sym x r ih =>
    simp only [SymTree.direct, SymTree.occursAt, List.mem_cons, ih, Bool.or_eq_true, Bool.and_eq_true,
      beq_iff_eq, true_and]
    constructor
    · rintro (h | h)
      · exact Or.inl h.symm
      · exact Or.inr h
    · rintro (h | h)
      · exact Or.inl h.symm
      · exact Or.inr h
  | op b r _ ih => simp [SymTree.direct, SymTree.occursAt, ih]

/-- `region.walk()` meets a symbol iff a symref operation on it lies at some depth. -/
theorem symtree_mem_all_iff (s : Nat) (t : SymTree) : s ∈ t.all ↔ ∃ d, t.occursAt s d = true := by
  induction t with
  | leaf => simp [SymTree.all, SymTree.occursAt]
  | sym x r ih =>
    simp only [SymTree.all, SymTree.occursAt, List.mem_cons, ih, Bool.or_eq_true, Bool.and_eq_true, beq_iff_eq]
    constructor
    · rintro (h | ⟨d, h⟩)
      · exact ⟨0, Or.inl ⟨rfl, h.symm⟩⟩
      · exact ⟨d, Or.inr h⟩
    · rintro ⟨d, (⟨_, h⟩ | h)⟩
      · exact Or.inl h.symm
      · exact Or.inr ⟨d, h⟩
  | op b r ihb ihr =>
    simp only [SymTree.all, SymTree.occursAt, List.mem_append, ihb, ihr, Bool.or_eq_true]
    constructor
    · rintro (⟨d, h⟩ | ⟨d, h⟩)
      · exact ⟨d + 1, Or.inl h⟩
      · exact ⟨d, Or.inr h⟩
    · rintro ⟨d, (h | h)⟩
      · cases d with
        | zero => simp at h
        | succ d => exact Or.inl ⟨d, h⟩
      · exact Or.inr ⟨d, h⟩

/-- "symbols read or written inside nested regions": `get_nested_symbols(block)` contains a symbol iff
a symref operation on it lies ANY number (≥ 1) of region levels below the block — not only in the
blocks of the regions held by the block's own operations. -/
theorem symtree_mem_nested_iff (s : Nat) (t : SymTree) : s ∈ t.nested ↔ ∃ d, t.occursAt s (d + 1) = true := by
  induction t with
  | leaf => simp [SymTree.nested, SymTree.occursAt]
  | sym x r ih => simp [SymTree.nested, SymTree.occursAt, ih]
  | op b r _ ihr =>
    simp only [SymTree.nested, SymTree.occursAt, List.mem_append, symtree_mem_all_iff, ihr, Bool.or_eq_true]
    constructor
    · rintro (⟨d, h⟩ | ⟨d, h⟩)
      · exact ⟨d, Or.inl h⟩
      · exact ⟨d, Or.inr h⟩
    · rintro ⟨d, (h | h)⟩
      · exact Or.inl ⟨d, h⟩
      · exact Or.inr ⟨d, h⟩

/-- "symref elimination inside one block never touches a symbol a nested region still uses": a symbol
the block forwards and erases (`prune_definitions` for declared, `prune_uses_without_definitions` for
the others) has every one of its symref operations in the block itself — no operation at any depth
below the block reads or writes it, so the straight-line statement `desymref_sound_partial` speaks
about all accesses to it. -/
theorem desymref_forward_scope (s : Nat) (t : SymTree) (h : s ∈ t.forwardable) :
    t.occursAt s 0 = true ∧ ∀ d, t.occursAt s (d + 1) = false := by
  simp only [SymTree.forwardable, List.mem_filter, Bool.not_eq_true', List.contains_eq_mem,
    decide_eq_false_iff_not] at h
  refine ⟨(symtree_mem_direct_iff s t).1 h.1, fun d => ?_⟩
  cases hd : t.occursAt s (d + 1) with
  | false => rfl
  | true => exact absurd ((symtree_mem_nested_iff s t).2 ⟨d, hd⟩) h.2

/-- `prune_definitions` accepts a block (does not raise) only if no declared symbol is touched at any
depth below it. -/
theorem desymref_accept_scope (declared : List Nat) (t : SymTree) (l : List Nat)
    (h : t.pruneDecide declared = some l) : l = declared ∧ ∀ s ∈ declared, ∀ d, t.occursAt s (d + 1) = false := by
  unfold SymTree.pruneDecide at h
  split at h
  · cases h
  · rename_i hn
    refine ⟨by cases h; rfl, fun s hs d => ?_⟩
    cases hd : t.occursAt s (d + 1) with
    | false => rfl
    | true =>
      exfalso
      apply hn
      simp only [List.any_eq_true, List.contains_eq_mem, decide_eq_true_eq]
      exact ⟨s, hs, (symtree_mem_nested_iff s t).2 ⟨d, hd⟩⟩

/-- looking only at the blocks directly inside the nested regions is not enough: a symbol written two
region levels down is missed (then the enclosing block forwards a stale value). -/
theorem nested_shallow_counterexample :
    let t := SymTree.sym 0 (.op (.op (.sym 0 .leaf) .leaf) (.sym 0 .leaf))
    t.occursAt 0 2 = true ∧ 0 ∉ t.nestedShallow ∧ 0 ∈ t.nested ∧ t.pruneDecide [0] = none := by
  decide

example : (SymTree.sym 0 (.op (.sym 1 .leaf) (.sym 2 .leaf))).forwardable = [0, 2] := by decide

end Xdsl.C16
