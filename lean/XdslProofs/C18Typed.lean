import XdslProofs.C18
import XdslProofs.Lemmas.ArgSpecTyped
/-!
# C18 — typed level: `ArgSpecConvertible.spec()` then `from_spec` (and through text)

"for every registered pass and every assignment of values of its supported option types […] the
printed pipeline specification parses back into an equal pass".

Two regions are excluded by explicit hypotheses (`FieldOK`), because the text format has a single
spelling for two different values there (known findings, see the `…_counterexample` theorems):
* the empty tuple in a field whose type is a union containing `None` (`key` alone means `None`);
* a 1-tuple `(x,)` in a field whose type also admits the scalar `x` (`key=x` means the scalar).
-/
namespace Xdsl.ArgSpec

section
variable {F : Type}

/-- the hypotheses under which a field value survives `spec()` → `_convert_arg_to_type` -/
structure FieldOK (ty : Ty) (v : FVal F) : Prop where
  /-- the value has the declared type -/
  typed : isa v ty = true
  /-- `None` only in a union (a field of type `None` alone is not an option type) -/
  none_union : v = .none → isUnion ty = true
  /-- excluded region 1 -/
  not_empty_in_optional : v = .tup [] → ¬ (isUnion ty = true ∧ allowsNone ty = true)
  /-- excluded region 2 -/
  not_one_tuple_of_admitted_scalar : ∀ x, v = .tup [x] → isa (.scalar x) ty = false

/-- A value of a supported option type, turned into the argument list `spec()` emits and converted
back by `_convert_arg_to_type`, is the same value — outside the two excluded regions. -/
theorem field_roundtrip_partial (ty : Ty) (v : FVal F) (h : FieldOK ty v) : convert (argList v) ty = .ok v := by
  cases v with
  | none =>
    have h1 := h.none_union rfl
    have h2 := allowsNone_of_isa_none h.typed
    simp [convert, argList, h1, h2]
  | scalar x =>
    simp [convert, argList, h.typed]
  | tup vs =>
    cases vs with
    | nil =>
      have h2 := h.not_empty_in_optional rfl
      have ht := h.typed
      by_cases hu : isUnion ty = true
      · have hn : allowsNone ty = false := by
          cases hn : allowsNone ty
          · rfl
          · exact absurd ⟨hu, hn⟩ h2
        simp [convert, argList, hu, hn, ht]
      · simp [convert, argList, hu, ht]
    | cons x r =>
      cases r with
      | nil =>
        have h3 := h.not_one_tuple_of_admitted_scalar x rfl
        simp [convert, argList, h3, h.typed]
      | cons y r' =>
        simp [convert, argList, h.typed]

/-- Region 1 (known finding): `restrict: tuple[int, ...] | None` with value `()` comes back as `None`. -/
theorem empty_tuple_optional_counterexample :
    convert (F := Unit) (argList (.tup [])) [Alt.tuple [Base.int], Alt.none] = .ok .none := by
  rfl

/-- Region 2 (known finding): `flags: Literal["fast","none"] | tuple[str, ...]` with value `("fast",)`
comes back as the scalar `"fast"`. -/
theorem one_tuple_counterexample :
    convert (F := Unit) (argList (.tup [.str ['f', 'a', 's', 't']]))
      [Alt.base (Base.lit [['f', 'a', 's', 't'], ['n', 'o', 'n', 'e']]), Alt.tuple [Base.str]] =
    .ok (.scalar (.str ['f', 'a', 's', 't'])) := by
  rfl

/-- with the repair: `()` is accepted for a union with a tuple type and without `None` -/
example :
    convert (F := Unit) (argList (.tup []))
      [Alt.base (Base.lit [['f', 'a', 's', 't'], ['n', 'o', 'n', 'e']]), Alt.tuple [Base.str]] = .ok (.tup []) := by
  rfl

/-! ### whole instances -/

variable [DecidableEq F]

/-- A pass class as the model sees it is well formed: field names pairwise distinct and free of `-`
(they are Python identifiers). -/
structure ClassOK (cls : PassClass F) : Prop where
  names_nodup : (cls.fields.map (·.name)).Nodup
  names_normal : ∀ f ∈ cls.fields, normalizeKey f.name = f.name

/-- `from_spec(spec(p)) = p` for every instance whose field values are `FieldOK`, with or without
`include_default`. -/
theorem pass_roundtrip_partial (incl : Bool) (cls : PassClass F) (vals : List (FVal F)) (hc : ClassOK cls)
    (hlen : vals.length = cls.fields.length)
    (hok : ∀ fv ∈ cls.fields.zip vals, FieldOK fv.1.ty fv.2) :
    fromSpec cls (toSpec incl cls vals) = .ok vals := by
  have hsub := toSpecParams_keys_sublist incl cls.fields vals
  have hnorm : normalizeParams (toSpecParams incl cls.fields vals) = toSpecParams incl cls.fields vals := by
    apply normalizeParams_id
    · intro p hp
      have : p.1 ∈ cls.fields.map (·.name) := hsub.subset (List.mem_map_of_mem hp)
      obtain ⟨f, hf, hfe⟩ := List.mem_map.1 this
      rw [← hfe]; exact hc.names_normal f hf
    · exact hsub.nodup hc.names_nodup
  simp [fromSpec, toSpec, hnorm, fromSpecFields_toSpecParams incl cls.fields vals hlen hc.names_nodup
    (fun fv h => field_roundtrip_partial fv.1.ty fv.2 (hok fv h))]

/-- The whole chain of the property: `str(p.spec())` → `parse_pipeline` → `from_spec` gives back the
field values of `p`, for every class with identifier names and every `FieldOK` instance. -/
theorem pass_text_roundtrip_partial (O : FloatOracle F) (incl : Bool) (cls : PassClass F)
    (vals : List (FVal F)) (hc : ClassOK cls) (hname : IsName cls.name)
    (hfields : ∀ f ∈ cls.fields, IsName f.name) (hlen : vals.length = cls.fields.length)
    (hok : ∀ fv ∈ cls.fields.zip vals, FieldOK fv.1.ty fv.2) :
    ∃ s, parsePipeline O.ofText (printSpec O.repr (toSpec incl cls vals)) = .ok [s] ∧
      fromSpec cls s = .ok vals := by
  refine ⟨toSpec incl cls vals, ?_, pass_roundtrip_partial incl cls vals hc hlen hok⟩
  apply spec_roundtrip
  have hsub := toSpecParams_keys_sublist incl cls.fields vals
  refine ⟨hname, ?_, hsub.nodup hc.names_nodup⟩
  intro p hp
  have : p.1 ∈ cls.fields.map (·.name) := hsub.subset (List.mem_map_of_mem hp)
  obtain ⟨f, hf, hfe⟩ := List.mem_map.1 this
  rw [← hfe]; exact hfields f hf

end

/-! ### Non-vacuity -/

/-- `FieldOK` is inhabited on each kind of value: an `int | None` field holding `None`, an
`int` field holding `7`, a `tuple[int, ...]` field holding `()`, `(1,)`, `(1, 2)`. -/
example : FieldOK (F := Unit) [Alt.base .int, Alt.none] .none :=
  ⟨rfl, (fun _ => rfl), (fun h => by cases h), (fun _ h => by cases h)⟩
example : FieldOK (F := Unit) [Alt.base .int] (.scalar (.int 7)) :=
  ⟨rfl, (fun h => by cases h), (fun h => by cases h), (fun _ h => by cases h)⟩
example : FieldOK (F := Unit) [Alt.tuple [.int]] (.tup []) :=
  ⟨rfl, (fun h => by cases h), (fun _ h => by simp [isUnion] at h), (fun _ h => by cases h)⟩
example : FieldOK (F := Unit) [Alt.tuple [.int]] (.tup [.int 1]) :=
  ⟨rfl, (fun h => by cases h), (fun h => by cases h), (fun x h => by cases h; rfl)⟩

/-- the theorem applied: `p{r=1,2}` for a field `r: tuple[int, ...] | None = None` -/
example :
    fromSpec (F := Unit) ⟨['p'], [⟨['r'], [Alt.tuple [.int], Alt.none], some .none⟩]⟩
      (toSpec false ⟨['p'], [⟨['r'], [Alt.tuple [.int], Alt.none], some .none⟩]⟩ [.tup [.int 1, .int 2]]) =
    .ok [.tup [.int 1, .int 2]] :=
  pass_roundtrip_partial false _ _ ⟨by simp, (by intro f hf; simp at hf; subst hf; rfl)⟩ rfl
    (by intro fv h
        simp at h
        subst h
        exact ⟨rfl, (fun h => by cases h), (fun h => by cases h), (fun _ h => by cases h)⟩)

end Xdsl.ArgSpec
