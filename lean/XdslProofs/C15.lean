import XdslProofs.Lemmas.ArithInterp
import XdslModel.Generated.ArithInterp
/-!
# C15 — the interpreter's integer kernels compute MLIR (two's-complement `BitVec`) semantics

Every definition `Xdsl.Generated.ArithInterp.run_*` below is *regenerated from
`/repo/xdsl/interpreters/arith.py` on every check run*; the theorems are re-checked against what the
source says now.  `w` is the bit width of the operation's type, `a b` are arbitrary Python ints
(any representative of the signless value — the theorems do not even need them to be in range).

"integer results wrap to the type width and stay in the type's range, … signed ones as two's
complement, casts truncate or extend as specified", "for every input on which MLIR defines the result".
-/
namespace Xdsl.C15
open Xdsl.Generated.Comparisons Xdsl.Generated.ArithInterp

/-- `arith.addi`: wrap-around addition, result in the signed range. -/
theorem run_addi_spec (w : Nat) (a b : Int) :
    BitVec.ofInt w (run_addi w a b) = BitVec.ofInt w a + BitVec.ofInt w b
    ∧ InSignedRange w (run_addi w a b) := by
  simp only [run_addi, to_signed_eq]
  generalize BitVec.ofInt w a = A
  generalize BitVec.ofInt w b = B
  exact ⟨by rw [BitVec.ofInt_toInt, BitVec.ofInt_add, BitVec.ofInt_toInt, BitVec.ofInt_toInt], toInt_inRange _⟩

/-- `arith.subi` -/
theorem run_subi_spec (w : Nat) (a b : Int) :
    BitVec.ofInt w (run_subi w a b) = BitVec.ofInt w a - BitVec.ofInt w b
    ∧ InSignedRange w (run_subi w a b) := by
  simp only [run_subi, to_signed_eq]
  generalize BitVec.ofInt w a = A
  generalize BitVec.ofInt w b = B
  refine ⟨?_, toInt_inRange _⟩
  rw [BitVec.ofInt_toInt, Int.sub_eq_add_neg, BitVec.ofInt_add, BitVec.ofInt_neg, BitVec.ofInt_toInt,
    BitVec.ofInt_toInt, BitVec.sub_eq_add_neg]

/-- `arith.muli` -/
theorem run_muli_spec (w : Nat) (a b : Int) :
    BitVec.ofInt w (run_muli w a b) = BitVec.ofInt w a * BitVec.ofInt w b
    ∧ InSignedRange w (run_muli w a b) := by
  simp only [run_muli, to_signed_eq]
  generalize BitVec.ofInt w a = A
  generalize BitVec.ofInt w b = B
  exact ⟨by rw [BitVec.ofInt_toInt, BitVec.ofInt_mul, BitVec.ofInt_toInt, BitVec.ofInt_toInt], toInt_inRange _⟩

/-- `arith.andi` -/
theorem run_andi_spec (w : Nat) (a b : Int) :
    BitVec.ofInt w (run_andi w a b) = BitVec.ofInt w a &&& BitVec.ofInt w b
    ∧ InSignedRange w (run_andi w a b) := by
  simp only [run_andi, to_signed_eq]
  generalize BitVec.ofInt w a = A
  generalize BitVec.ofInt w b = B
  exact ⟨by rw [BitVec.ofInt_toInt, BV.ofInt_land, BitVec.ofInt_toInt, BitVec.ofInt_toInt], toInt_inRange _⟩

/-- `arith.ori` -/
theorem run_ori_spec (w : Nat) (a b : Int) :
    BitVec.ofInt w (run_ori w a b) = BitVec.ofInt w a ||| BitVec.ofInt w b
    ∧ InSignedRange w (run_ori w a b) := by
  simp only [run_ori, to_signed_eq]
  generalize BitVec.ofInt w a = A
  generalize BitVec.ofInt w b = B
  exact ⟨by rw [BitVec.ofInt_toInt, BV.ofInt_lor, BitVec.ofInt_toInt, BitVec.ofInt_toInt], toInt_inRange _⟩

/-- `arith.xori` -/
theorem run_xori_spec (w : Nat) (a b : Int) :
    BitVec.ofInt w (run_xori w a b) = BitVec.ofInt w a ^^^ BitVec.ofInt w b
    ∧ InSignedRange w (run_xori w a b) := by
  simp only [run_xori, to_signed_eq]
  generalize BitVec.ofInt w a = A
  generalize BitVec.ofInt w b = B
  exact ⟨by rw [BitVec.ofInt_toInt, BV.ofInt_xor, BitVec.ofInt_toInt, BitVec.ofInt_toInt], toInt_inRange _⟩

/-- `arith.shli`: left shift by the *unsigned* value of the second operand, wrapped to the width
(MLIR leaves shifts ≥ width undefined; the equation holds for every shift amount anyway). -/
theorem run_shlsi_spec (w : Nat) (a b : Int) :
    BitVec.ofInt w (run_shlsi w a b) = BitVec.ofInt w a <<< (BitVec.ofInt w b).toNat
    ∧ InSignedRange w (run_shlsi w a b) := by
  simp only [run_shlsi, to_signed_eq, to_unsigned_eq]
  generalize BitVec.ofInt w a = A
  generalize BitVec.ofInt w b = B
  refine ⟨?_, toInt_inRange _⟩
  rw [BitVec.ofInt_toInt, Py.shl_nat, BitVec.ofInt_mul, BitVec.ofInt_toInt, BitVec.shiftLeft_eq_mul_twoPow]
  congr 1
  have : ((2 : Int) ^ B.toNat) = (((2 : Nat) ^ B.toNat : Nat) : Int) := by push_cast; rfl
  rw [this, BitVec.ofInt_natCast]
  apply BitVec.eq_of_toNat_eq
  simp [BitVec.toNat_twoPow]

/-- `arith.shrsi`: arithmetic right shift of the two's-complement value. -/
theorem run_shrsi_spec (w : Nat) (a b : Int) :
    BitVec.ofInt w (run_shrsi w a b) = (BitVec.ofInt w a).sshiftRight (BitVec.ofInt w b).toNat
    ∧ InSignedRange w (run_shrsi w a b) := by
  simp only [run_shrsi, to_signed_eq, to_unsigned_eq]
  generalize BitVec.ofInt w a = A
  generalize BitVec.ofInt w b = B
  have e : Py.shr A.toInt (B.toNat : Int) = (A.sshiftRight B.toNat).toInt := by
    rw [Py.shr_nat, BitVec.toInt_sshiftRight, Int.shiftRight_eq_div_pow]; norm_cast
  rw [e]
  exact ⟨BitVec.ofInt_toInt, toInt_inRange _⟩

/-- `arith.divsi`: truncating signed division, for a non-zero divisor and no `MIN / -1` overflow
(the inputs on which MLIR defines the result).  The Python `assert rhs != 0` is then satisfied. -/
theorem run_divsi_spec (w : Nat) (a b : Int)
    (hb : BitVec.ofInt w b ≠ 0)
    (hov : BitVec.ofInt w a ≠ BitVec.intMin w ∨ BitVec.ofInt w b ≠ -1#w) :
    run_divsi_pre w a b = true
    ∧ BitVec.ofInt w (run_divsi w a b) = (BitVec.ofInt w a).sdiv (BitVec.ofInt w b)
    ∧ InSignedRange w (run_divsi w a b) := by
  have hb' : (BitVec.ofInt w b).toInt ≠ 0 := by
    intro h; apply hb; apply BitVec.eq_of_toInt_eq; simpa using h
  simp only [run_divsi_pre, run_divsi, to_signed_eq]
  revert hb' hov hb
  generalize BitVec.ofInt w a = A
  generalize BitVec.ofInt w b = B
  intro hb hov hb'
  have hne : (B.toInt != 0) = true := by simp [bne, hb']
  refine ⟨by simp [hne], ?_, ?_⟩
  · have := pydiv_eq_tdiv A.toInt B.toInt hb'
    split at this <;> rename_i hc <;> simp only [hc, if_true, if_false, Bool.false_eq_true]
      <;> rw [this, BitVec.ofInt_toInt, ← BitVec.toInt_sdiv_of_ne_or_ne _ _ hov, BitVec.ofInt_toInt]
  · split <;> exact toInt_inRange _

/-- `arith.remsi`: remainder of truncating division (sign of the dividend). -/
theorem run_remsi_spec (w : Nat) (a b : Int) (hb : BitVec.ofInt w b ≠ 0) :
    run_remsi_pre w a b = true
    ∧ run_remsi w a b = ((BitVec.ofInt w a).srem (BitVec.ofInt w b)).toInt := by
  have hb' : (BitVec.ofInt w b).toInt ≠ 0 := by
    intro h; apply hb; apply BitVec.eq_of_toInt_eq; simpa using h
  simp only [run_remsi_pre, run_remsi, to_signed_eq]
  revert hb' hb
  generalize BitVec.ofInt w a = A
  generalize BitVec.ofInt w b = B
  intro hb hb'
  have hne : (B.toInt != 0) = true := by simp [bne, hb']
  refine ⟨by simp [hne], ?_⟩
  have := pydiv_eq_tdiv A.toInt B.toInt hb'
  rw [BitVec.toInt_srem, Int.tmod_def]
  split at this <;> rename_i hc <;> simp only [hc, if_true, if_false, Bool.false_eq_true]
    <;> rw [this, Int.mul_comm]

/-- hence `remsi` results are in range and have the right bits -/
theorem run_remsi_range (w : Nat) (a b : Int) (hb : BitVec.ofInt w b ≠ 0) :
    BitVec.ofInt w (run_remsi w a b) = (BitVec.ofInt w a).srem (BitVec.ofInt w b)
    ∧ InSignedRange w (run_remsi w a b) := by
  rw [(run_remsi_spec w a b hb).2]
  exact ⟨BitVec.ofInt_toInt, toInt_inRange _⟩

/-- `arith.floordivsi`: floor division of the two's-complement values, wrapped. -/
theorem run_floordivsi_spec (w : Nat) (a b : Int) (hb : BitVec.ofInt w b ≠ 0) :
    run_floordivsi_pre w a b = true
    ∧ BitVec.ofInt w (run_floordivsi w a b)
        = BitVec.ofInt w (Int.fdiv (BitVec.ofInt w a).toInt (BitVec.ofInt w b).toInt)
    ∧ InSignedRange w (run_floordivsi w a b) := by
  have hb' : (BitVec.ofInt w b).toInt ≠ 0 := by
    intro h; apply hb; apply BitVec.eq_of_toInt_eq; simpa using h
  simp only [run_floordivsi_pre, run_floordivsi, to_signed_eq, Py.floordiv]
  revert hb' hb
  generalize BitVec.ofInt w a = A
  generalize BitVec.ofInt w b = B
  intro hb hb'
  have hne : (B.toInt != 0) = true := by simp [bne, hb']
  exact ⟨by simp [hne], BitVec.ofInt_toInt, toInt_inRange _⟩

/-- MLIR's `cmpi` predicates on bit patterns -/
def bvcmp {w : Nat} (p : Int) (x y : BitVec w) : Option Bool :=
  if p = 0 then some (x == y) else if p = 1 then some (x != y)
  else if p = 2 then some (x.slt y) else if p = 3 then some (x.sle y)
  else if p = 4 then some (y.slt x) else if p = 5 then some (y.sle x)
  else if p = 6 then some (x.ult y) else if p = 7 then some (x.ule y)
  else if p = 8 then some (y.ult x) else if p = 9 then some (y.ule x)
  else none

/-- `arith.cmpi` for `eq`, `ne` and the signed predicates: compares bit patterns / two's-complement
values, whatever representative the operands are given as. -/
theorem run_cmpi_signed_spec (w : Nat) (p : Int) (hp : 0 ≤ p ∧ p ≤ 5) (a b : Int) :
    run_cmpi w p a b = bvcmp p (BitVec.ofInt w a) (BitVec.ofInt w b) := by
  obtain ⟨h0, h5⟩ := hp
  have hcases : p = 0 ∨ p = 1 ∨ p = 2 ∨ p = 3 ∨ p = 4 ∨ p = 5 := by omega
  have inj : ∀ x y : BitVec w, (x.toInt == y.toInt) = (x == y) := by
    intro x y
    by_cases h : x = y
    · subst h; simp
    · have : x.toInt ≠ y.toInt := fun e => h (BitVec.eq_of_toInt_eq e)
      simp [h, this]
  simp only [run_cmpi, to_signed_eq]
  generalize BitVec.ofInt w a = A
  generalize BitVec.ofInt w b = B
  rcases hcases with rfl | rfl | rfl | rfl | rfl | rfl <;>
    simp [bvcmp, inj, bne, BitVec.slt_eq_decide, BitVec.sle_eq_decide]

/-- `arith.cmpi` unsigned predicates — **partial**.  Full statement (false of the current code, see
`run_cmpi_unsigned_counterexample` and known_findings.json): for all `a b`,
`run_cmpi w p a b = bvcmp p (ofInt w a) (ofInt w b)` for `p ∈ {6,7,8,9}`.  Proved only when both
operands are given as their unsigned representatives (`0 ≤ a, b < 2^w`). -/
theorem run_cmpi_unsigned_partial (w : Nat) (p : Int) (hp : 6 ≤ p ∧ p ≤ 9) (a b : Int)
    (ha : 0 ≤ a ∧ a < 2 ^ w) (hb : 0 ≤ b ∧ b < 2 ^ w) :
    run_cmpi w p a b = bvcmp p (BitVec.ofInt w a) (BitVec.ofInt w b) := by
  obtain ⟨h6, h9⟩ := hp
  have hcases : p = 6 ∨ p = 7 ∨ p = 8 ∨ p = 9 := by omega
  have hn : ∀ x : Int, 0 ≤ x → x < 2 ^ w → ((BitVec.ofInt w x).toNat : Int) = x := by
    intro x h0 h1
    rw [BitVec.toNat_ofInt]
    have e : (((2 : Nat) ^ w : Nat) : Int) = 2 ^ w := by push_cast; rfl
    rw [e, Int.emod_eq_of_lt h0 h1, Int.toNat_of_nonneg h0]
  have ea := hn a ha.1 ha.2
  have eb := hn b hb.1 hb.2
  have lt_iff : a < b ↔ (BitVec.ofInt w a).toNat < (BitVec.ofInt w b).toNat := by
    constructor <;> intro h <;> omega
  have le_iff : a ≤ b ↔ (BitVec.ofInt w a).toNat ≤ (BitVec.ofInt w b).toNat := by
    constructor <;> intro h <;> omega
  have gt_iff : a > b ↔ (BitVec.ofInt w b).toNat < (BitVec.ofInt w a).toNat := by
    constructor <;> intro h <;> omega
  have ge_iff : a ≥ b ↔ (BitVec.ofInt w b).toNat ≤ (BitVec.ofInt w a).toNat := by
    constructor <;> intro h <;> omega
  simp only [run_cmpi, BitVec.ult_eq_decide, BitVec.ule_eq_decide, bvcmp]
  generalize BitVec.ofInt w a = A at *
  generalize BitVec.ofInt w b = B at *
  rcases hcases with rfl | rfl | rfl | rfl <;> simp [lt_iff, le_iff, gt_iff, ge_iff]

/-- The unsigned predicates are wrong when the operands are canonical (signed) representatives
with different signs: `ult(-1, 1) : i8` is reported true, MLIR says false (255 < 1 is false). -/
theorem run_cmpi_unsigned_counterexample :
    run_cmpi 8 6 (-1) 1 = some true
    ∧ bvcmp 6 (BitVec.ofInt 8 (-1)) (BitVec.ofInt 8 1) = some false := by
  decide

/-- non-vacuity: the hypotheses of the division theorems are met, e.g. by `7 / -2 : i4`. -/
example : BitVec.ofInt 4 (-2) ≠ 0 ∧ (BitVec.ofInt 4 7 ≠ BitVec.intMin 4 ∨ BitVec.ofInt 4 (-2) ≠ -1#4) := by
  decide
example : run_divsi 4 7 14 = -3 ∧ run_remsi 4 7 14 = 1 ∧ run_addi 4 7 1 = -8 := by decide

end Xdsl.C15
