import XdslModel.Verbatim
/-!
C04 — "printing it in the generic format and parsing the text … yields equivalent IR … and printing
the parsed IR reproduces the same text": the two places of the generic form where a string has to
pass through unchanged (model: `XdslModel/Verbatim.lean`).

* the verbatim body of an unregistered attribute/type is printed with `print_string(…, indent=0)`
  (repaired `UnregisteredAttr.print_builtin`): `printString_zero` — exactly the body reaches the
  stream, at any nesting depth; `printString_eq_self_iff` — this holds ONLY for indentation 0 or a
  body without line breaks, and `printString_length` / `printString_iterate_length` — with the
  unrepaired call (current indentation) every print → parse round adds `k` characters per line
  break, so the text never becomes a fixed point (`unrepaired_body_counterexample`).
* the quoted operation name of the generic form is looked up without the dialects of the enclosing
  operations (repaired `Parser.parse_operation`): `generic_lookup` — the class found carries exactly
  the printed name and is registered iff that name is (`generic_name_roundtrip`: an operation comes
  back under its own name and kind whatever encloses it); `lookup_eq_generic_iff` — the stack-based
  lookup agrees exactly when the name is registered or no enclosing dialect has an operation of that
  short name (`unrepaired_lookup_counterexample`: `"op"` below `test.*` became `test.op`).
-/
namespace Xdsl.Verbatim

/-- indentation 0 (the repaired call for verbatim bodies): the text itself is written -/
theorem printString_zero (t : Str) : printString 0 t = t := by
  induction t with
  | nil => rfl
  | cons c cs ih => simp [printString, ih]

/-- a text without line break is written as it is (first shortcut of `print_string`) -/
theorem printString_no_newline (k : Nat) (t : Str) (h : newlines t = 0) : printString k t = t := by
  induction t with
  | nil => rfl
  | cons c cs ih =>
    by_cases hc : c = '\n'
    · simp [newlines, hc] at h
    · simp [newlines, hc] at h
      simp [printString, hc, ih h]

/-- `k` characters are added per line break -/
theorem printString_length (k : Nat) (t : Str) :
    (printString k t).length = t.length + k * newlines t := by
  induction t with
  | nil => simp [printString, newlines]
  | cons c cs ih =>
    by_cases hc : c = '\n'
    · simp [printString, newlines, hc, ih, Nat.mul_add]; omega
    · simp [printString, newlines, hc, ih]; omega

/-- the number of line breaks is not changed by printing -/
theorem printString_newlines (k : Nat) (t : Str) : newlines (printString k t) = newlines t := by
  have hrep : ∀ (n : Nat) (r : Str), newlines (List.replicate n ' ' ++ r) = newlines r := by
    intro n r
    induction n with
    | zero => simp
    | succ n ih => simp [List.replicate_succ, newlines, ih]
  induction t with
  | nil => rfl
  | cons c cs ih =>
    by_cases hc : c = '\n'
    · simp [printString, newlines, hc, hrep, ih]
    · simp [printString, newlines, hc, ih]

/-- C04 for verbatim bodies: the printed text is the body **iff** the indentation is 0 or the body
has no line break — the repaired printer (indentation 0) is the only one that works at every depth -/
theorem printString_eq_self_iff (k : Nat) (t : Str) :
    printString k t = t ↔ (k = 0 ∨ newlines t = 0) := by
  constructor
  · intro h
    have hl := printString_length k t
    rw [h] at hl
    have : k * newlines t = 0 := by omega
    exact Nat.mul_eq_zero.mp this
  · rintro (rfl | h)
    · exact printString_zero t
    · exact printString_no_newline k t h

/-- `n` print → parse rounds of the unrepaired printer (the parser keeps the body verbatim) -/
def rounds (k : Nat) : Nat → Str → Str
  | 0, t => t
  | n + 1, t => rounds k n (printString k t)

/-- the unrepaired printer: after `n` rounds the body has grown by `n * k` characters per line break;
with `k > 0` and a line break no round reproduces the text of the previous one -/
theorem printString_iterate_length (k n : Nat) (t : Str) :
    (rounds k n t).length = t.length + n * (k * newlines t) := by
  induction n generalizing t with
  | zero => simp [rounds]
  | succ n ih =>
    simp only [rounds]
    rw [ih, printString_length, printString_newlines, Nat.succ_mul]
    omega

/-- witness for the unrepaired code: body `a⏎b` printed one level deep (2 spaces) -/
theorem unrepaired_body_counterexample :
    printString 2 ['a', '\n', 'b'] = ['a', '\n', ' ', ' ', 'b'] ∧ printString 0 ['a', '\n', 'b'] = ['a', '\n', 'b'] := by
  decide

/-! ### operation names of the generic form -/

/-- the repaired lookup of a quoted name: the class carries exactly that name and is a registered
one iff the name is registered -/
theorem generic_lookup (known : List Str) (name : Str) :
    lookupGeneric known name = (decide (name ∈ known), name) := by
  unfold lookupGeneric lookup
  by_cases h : name ∈ known <;> simp [h]

/-- C04 "same operations": an operation printed as `"n"` (registered iff `n` is a registered name)
is read back under the same name and kind, whatever operations enclose it -/
theorem generic_name_roundtrip (known : List Str) (n : Str) (isReg : Bool)
    (h : isReg = decide (n ∈ known)) : lookupGeneric known n = (isReg, n) := by
  rw [generic_lookup, h]

/-- a registered name is found as itself with any stack -/
theorem lookup_known (known stack : List Str) (name : Str) (h : name ∈ known) :
    lookup known stack name = (true, name) := by
  simp [lookup, h]

/-- the stack-based lookup (custom formats; the unrepaired generic path) gives the answer of the
generic one exactly when the name is registered or no enclosing dialect has that short name -/
theorem lookup_eq_generic_iff (known stack : List Str) (name : Str) :
    lookup known stack name = lookupGeneric known name ↔
      (name ∈ known ∨ ∀ d ∈ stack, qualify d name ∉ known) := by
  rw [generic_lookup]
  by_cases h : name ∈ known
  · simp [lookup, h]
  · simp only [lookup, h, if_false, false_or, decide_false]
    cases hf : (stack.reverse.map (qualify · name)).find? (fun n => decide (n ∈ known)) with
    | none =>
      simp only [true_iff]
      intro d hd hq
      have := List.find?_eq_none.mp hf (qualify d name)
        (List.mem_map.mpr ⟨d, List.mem_reverse.mpr hd, rfl⟩)
      simp [hq] at this
    | some n =>
      have hn := List.find?_some hf
      have hmem := List.mem_of_find?_eq_some hf
      obtain ⟨d, hd, rfl⟩ := List.mem_map.mp hmem
      constructor
      · intro he
        simp at he
      · intro hall
        have := hall d (List.mem_reverse.mp hd)
        simp at hn
        exact absurd hn this

/-- witness for the unrepaired code: the unregistered operation `"op"` below a `test.*` operation was
read back as `test.op`; the repaired lookup keeps it -/
theorem unrepaired_lookup_counterexample :
    lookup [['t', '.', 'o']] [['t']] ['o'] = (true, ['t', '.', 'o']) ∧
    lookupGeneric [['t', '.', 'o']] ['o'] = (false, ['o']) := by
  decide

/-! ## names printed bare or quoted (`Printer.print_identifier_or_string_literal`)
"parsing the text … yields equivalent IR": an attribute / property key, a `DictionaryAttr` key or a symbol
name written WITHOUT quotes is read back by the lexer as the longest identifier prefix of what was written. -/

private theorem takeDrop_of_all (p : Char → Bool) (l : List Char) (h : ∀ x ∈ l, p x = true) :
    l.takeWhile p = l ∧ l.dropWhile p = [] := by
  induction l with
  | nil => simp
  | cons a l ih =>
    have ha := h a (by simp)
    have := ih (fun x hx => h x (by simp [hx]))
    simp [ha, this]

private theorem all_of_dropWhile_nil (p : Char → Bool) (l : List Char) (h : l.dropWhile p = []) :
    ∀ x ∈ l, p x = true := by
  induction l with
  | nil => simp
  | cons a l ih =>
    by_cases ha : p a = true
    · simp only [List.dropWhile_cons, ha, if_true] at h
      intro x hx
      rcases List.mem_cons.mp hx with rfl | hx
      · exact ha
      · exact ih h x hx
    · simp [ha] at h

/-- the lexer reads a text back as exactly that name (nothing left over) if and only if the name passes the
printer's test `isBare`: for every other name the unquoted spelling loses or splits characters, so it has
to be printed as a string literal -/
theorem lexBare_whole_iff (s : Str) : lexBare s = some (s, []) ↔ isBare s = true := by
  cases s with
  | nil => simp [lexBare, isBare]
  | cons c cs =>
    by_cases hc : isIdStart c = true
    · simp only [lexBare, isBare, hc, if_true, Bool.true_and, List.all_eq_true, Option.some.injEq, Prod.mk.injEq,
        List.cons.injEq, true_and]
      constructor
      · intro h x hx
        exact all_of_dropWhile_nil _ _ h.2 x hx
      · intro h
        exact takeDrop_of_all _ _ h
    · simp [lexBare, isBare, hc]

/-- a bare name followed by anything that does not continue an identifier (` = `, `,`, `}`, a line break …)
is read back as that name, the rest is left for the parser -/
theorem lexBare_append (s rest : Str) (h : isBare s = true)
    (hr : ∀ c ∈ rest.head?, isIdChar c = false) : lexBare (s ++ rest) = some (s, rest) := by
  cases s with
  | nil => simp [isBare] at h
  | cons c cs =>
    simp only [isBare, Bool.and_eq_true, List.all_eq_true] at h
    have ht : (cs ++ rest).takeWhile isIdChar = cs := by
      rw [List.takeWhile_append_of_pos h.2]
      cases rest with
      | nil => simp
      | cons r rs => simp [hr r (by simp)]
    have hd : (cs ++ rest).dropWhile isIdChar = rest := by
      rw [List.dropWhile_append_of_pos h.2]
      cases rest with
      | nil => simp
      | cons r rs => simp [hr r (by simp)]
    simp [lexBare, h.1, ht, hd]

/-- no bare name contains a line break or a blank (the lexer skips those between tokens) -/
theorem isBare_no_space (s : Str) (h : isBare s = true) : '\n' ∉ s ∧ ' ' ∉ s ∧ '\t' ∉ s ∧ '\r' ∉ s := by
  cases s with
  | nil => simp [isBare] at h
  | cons c cs =>
    simp only [isBare, Bool.and_eq_true, List.all_eq_true] at h
    refine ⟨?_, ?_, ?_, ?_⟩ <;>
    · intro hm
      rcases List.mem_cons.mp hm with rfl | hm
      · exact absurd h.1 (by decide)
      · exact absurd (h.2 _ hm) (by decide)

/-- witness for a test that accepts a trailing line break (Python `$` instead of `fullmatch`): the name
`k⏎` written unquoted comes back as `k` -/
theorem trailing_newline_counterexample :
    isBare ['k', '\n'] = false ∧ lexBare ['k', '\n'] = some (['k'], ['\n']) := by
  decide

end Xdsl.Verbatim
