import XdslProofs.Lemmas.SkeletonSyntax
import XdslProofs.Lemmas.SkeletonSim
import XdslProofs.Lemmas.SkeletonIso
import XdslProofs.Lemmas.SkeletonInj
import XdslProofs.Lemmas.SkeletonRename
import XdslProofs.Lemmas.SkeletonOn
import XdslProofs.C04
import XdslProofs.Lemmas.SkeletonNames
/-!
C04, token-level skeleton of the generic operation form (`XdslModel/Skeleton.lean`):
"printing [an IR] in the generic format and parsing the text in a fresh context yields equivalent
IR (same operations, wiring, types, attribute and property values, block structure)" — for the
skeleton of the syntax: operations with results, quoted name, operands, successors, properties,
regions of labelled blocks with typed arguments, attribute dictionary and function type, with
attributes and types as opaque token groups, values and blocks referred to by the names a name
assignment gives them, forward references to values and blocks included.
-/
namespace Xdsl.Skeleton

/-- the same tree up to an injective renaming of the identities of values and of blocks -/
def Iso (a b : IR) : Prop :=
  ∃ f g : Nat → Nat, Function.Injective f ∧ Function.Injective g ∧ b = mapT f g a

/-! ### the theorems -/

/-- **Syntax.**  Reading the printed token stream gives back the tree that was printed: for every
tree of names whose cells are of the right sort (`shape`), whose dictionaries are Python dicts
that the retro-compatibility move leaves alone, and which omits only the label of an entry block
without arguments that has operations (`labelsOK`).  Multi-block regions, successors, forward
references: no restriction (names are not interpreted here). -/
theorem skeleton_syntax_roundtrip (defs : Nat → List Nat) (t : NTree)
    (hs : shape defs .ops t = true) (hl : labelsOK false t = true) :
    parseT defs (pr t) = some t :=
  parseT_pr defs t hs hl

/-- **Wiring.**  On the names of an admissible IR the symbol tables of the parser do what the
scoping discipline does on the identities, and produce the same tree. -/
theorem skeleton_resolve (nv nb : Nat → Str) (ir ir' : IR) (gs : GS)
    (h : walk nv nb false {} ir = some (gs, ir')) :
    res {} (nameT nv nb false ir) = some (proj nv nb gs, ir') :=
  walk_sim nv nb ir false {} gs ir' h

/-- The tree the scoping discipline returns is the IR itself, renamed injectively. -/
theorem walk_is_iso {N : Type} [DecidableEq N] (nv nb : Nat → N) (ir ir' : IR) (gs : GS)
    (h : walk nv nb false {} ir = some (gs, ir')) : Iso ir ir' := by
  obtain ⟨i, -, e⟩ := walk_iso nv nb ir false {} gs ir' inv_init h
  exact ⟨gs.vmap, gs.bmap, i.vmap_injective, i.bmap_injective, e gs (Frame.refl gs)⟩

/-- **Round trip, names distinct where they have to be.**  `admissible defs nv nb ir`: the cells
are of the right sort and the dictionaries are dicts; every use refers to a value visible by
textual scoping, or to one defined later (forward reference; none is left at the end); every
value and block is defined once, blocks within their region; operand and result counts match the
function type and the types of uses and definitions agree; and `nv`/`nb` give different names to
different values that are live together / different blocks of one region.  Then parsing the
printed token stream succeeds and gives an IR isomorphic to the one printed.  Multi-block regions
and forward references to values and blocks are covered. -/
theorem skeleton_roundtrip_scoped (defs : Nat → List Nat) (nv nb : Nat → Str) (ir : IR)
    (h : admissible defs nv nb ir = true) :
    ∃ ir', parseSk defs (printSk nv nb ir) = some ir' ∧ Iso ir ir' := by
  unfold admissible at h
  simp only [Bool.and_eq_true] at h
  obtain ⟨hs, hw⟩ := h
  cases hwk : walk nv nb false {} ir with
  | none => simp [hwk] at hw
  | some r =>
    obtain ⟨gs, ir'⟩ := r
    simp only [hwk] at hw
    refine ⟨ir', ?_, walk_is_iso nv nb ir ir' gs hwk⟩
    have h1 := skeleton_syntax_roundtrip defs (nameT nv nb false ir)
      (by rw [shape_nameT]; exact hs) (labelsOK_nameT nv nb ir false)
    have h2 := skeleton_resolve nv nb ir ir' gs hwk
    have h3 : (proj nv nb gs).v.pend.isEmpty = true := by
      simp only [proj, projV, pk_isEmpty]; exact hw
    simp only [parseSk, printSk, h1, h2, h3, if_true]

/-- Well-formedness of an IR for the textual form, independent of any naming: `admissible` with
every value and block named by its own identity. -/
def WF (defs : Nat → List Nat) (ir : IR) : Prop :=
  admissible defs (fun x : Nat => x) (fun x : Nat => x) ir = true

theorem admissible_of_injective (defs : Nat → List Nat) (nv nb : Nat → Str) (ir : IR)
    (hwf : WF defs ir) (hv : Function.Injective nv) (hb : Function.Injective nb) :
    admissible defs nv nb ir = true := by
  unfold WF admissible at *
  rw [walk_inj nv nb hv hb]
  exact hwf

/-- **Round trip** (`skeleton_roundtrip`): a well-formed IR printed with any injective naming of
its values and blocks parses back to an isomorphic IR — same operations, operand/successor
wiring, types, attribute and property entries, region and block structure. -/
theorem skeleton_roundtrip (defs : Nat → List Nat) (nv nb : Nat → Str) (ir : IR)
    (hwf : WF defs ir) (hv : Function.Injective nv) (hb : Function.Injective nb) :
    ∃ ir', parseSk defs (printSk nv nb ir) = some ir' ∧ Iso ir ir' :=
  skeleton_roundtrip_scoped defs nv nb ir (admissible_of_injective defs nv nb ir hwf hv hb)

/-- Only the names of the values and blocks that occur matter: a naming injective on the values of
the IR (`vals`: definitions and uses) and on its blocks (`blks`) is enough.  This is the form in
which `Names.allocate_injective` / `scoped_injective` / `region_injective` deliver distinctness. -/
theorem skeleton_roundtrip_on (defs : Nat → List Nat) (nv nb : Nat → Str) (ir : IR)
    (hwf : WF defs ir)
    (hv : ∀ x ∈ vals ir, ∀ y ∈ vals ir, nv x = nv y → x = y)
    (hb : ∀ x ∈ blks ir, ∀ y ∈ blks ir, nb x = nb y → x = y) :
    ∃ ir', parseSk defs (printSk nv nb ir) = some ir' ∧ Iso ir ir' := by
  have e : printSk nv nb ir = printSk (extend nv (vals ir)) (extend nb (blks ir)) ir := by
    unfold printSk
    rw [nameT_congr nv nb (extend nv (vals ir)) (extend nb (blks ir)) ir false
      (fun x hx => (extend_on nv _ x hx).symm) (fun x hx => (extend_on nb _ x hx).symm)]
  rw [e]
  exact skeleton_roundtrip defs _ _ ir hwf (extend_injective nv _ hv) (extend_injective nb _ hb)

/-- "Printing the parsed IR reproduces the same text", skeleton part: an isomorphic copy whose
values and blocks carry the corresponding names prints the same token stream (that the re-parsed
IR is given the same names by the allocator is `Names.print_idempotent` / `scoped_idempotent` /
`region_idempotent` in `XdslProofs/C04.lean`).  Printing is a function of the IR and the naming,
so "printing the same IR twice gives identical text" holds by construction; for the clone take
`f`, `g` the clone's value and block maps. -/
theorem skeleton_reprint (nv nb nv' nb' : Nat → Str) (ir : IR) (f g : Nat → Nat)
    (hg : Function.Injective g) (hv : ∀ x, nv' (f x) = nv x) (hb : ∀ x, nb' (g x) = nb x) :
    printSk nv' nb' (mapT f g ir) = printSk nv nb ir := by
  unfold printSk
  rw [nameT_mapT nv' nb' f g hg]
  have e1 : (fun x => nv' (f x)) = nv := funext hv
  have e2 : (fun x => nb' (g x)) = nb := funext hb
  rw [e1, e2]

/-- Round trip and fixed point in one statement: the parsed IR is the printed one renamed by
injective `f`, `g`, and printed with the names carried along it gives the same tokens again. -/
theorem skeleton_roundtrip_text (defs : Nat → List Nat) (nv nb : Nat → Str) (ir : IR)
    (h : admissible defs nv nb ir = true) :
    ∃ (ir' : IR) (f g : Nat → Nat), Function.Injective f ∧ Function.Injective g ∧
      ir' = mapT f g ir ∧ parseSk defs (printSk nv nb ir) = some ir' ∧
      ∀ nv' nb' : Nat → Str, (∀ x, nv' (f x) = nv x) → (∀ x, nb' (g x) = nb x) →
        printSk nv' nb' ir' = printSk nv nb ir := by
  obtain ⟨ir', hp, f, g, hf, hg, rfl⟩ := skeleton_roundtrip_scoped defs nv nb ir h
  exact ⟨_, f, g, hf, hg, rfl, hp, fun nv' nb' hv hb => skeleton_reprint nv nb nv' nb' ir f g hg hv hb⟩

/-! ### non-vacuity -/

/-- `^bb0` (unlabelled entry) branches forward to `^bb2`, which defines `%2` used before in
`^bb1`'s text; `%0` is used by the operation before its definition in a graph-like way. -/
def exIR : IR :=
  .op ⟨[], 0, [], [], [], [], [], []⟩
    (.region
      (.block 0 []
        (.op ⟨[], 1, [7], [2], [], [], [⟨0, false⟩], []⟩ .nil .nil)
        (.block 1 []
          (.op ⟨[5], 2, [6], [2], [(⟨3, true⟩, none)], [], [⟨0, false⟩], [⟨0, false⟩]⟩ .nil .nil)
          (.block 2 [(6, ⟨0, false⟩)]
            (.op ⟨[7], 3, [5, 6], [], [], [(⟨4, false⟩, some ⟨9, false⟩)], [⟨0, false⟩, ⟨0, false⟩],
                 [⟨0, false⟩]⟩
              (.region .nil (.region (.block 3 [] .nil .nil) .nil)) .nil)
            .nil)))
      .nil)
    .nil

example : WF (fun _ => []) exIR := by unfold WF; decide

example : ∃ ir', parseSk (fun _ => []) (printSk (fun n => List.replicate (n + 1) 'a')
    (fun n => List.replicate (n + 1) 'b') exIR) = some ir' ∧ Iso exIR ir' :=
  skeleton_roundtrip_scoped _ _ _ exIR (by decide)

/-- names may be shared by values that are never live together (two sibling regions) -/
example : admissible (fun _ => []) (fun _ => ['x']) (fun _ => ['b'])
    (.op ⟨[], 0, [], [], [], [], [], []⟩
      (.region (.block 0 [(1, ⟨0, false⟩)] .nil .nil)
        (.region (.block 2 [(3, ⟨0, false⟩)] .nil .nil) .nil)) .nil) = true := by decide

/-- the hypothesis cannot be dropped: two live values with one name do not parse back -/
theorem skeleton_roundtrip_needs_distinct_names :
    parseSk (fun _ => []) (printSk (fun _ => ['a']) (fun _ => ['b'])
      (.op ⟨[0], 0, [], [], [], [], [], [⟨0, false⟩]⟩ .nil
        (.op ⟨[1], 0, [], [], [], [], [], [⟨0, false⟩]⟩ .nil .nil))) = none := by decide

end Xdsl.Skeleton

namespace Xdsl.Skeleton
open Names

/-! ### with the allocator of `Names.lean` (one printer scope) -/

/-- **Names ∘ Skeleton, one scope.**  Let `order` list the values of a well-formed IR (each once,
e.g. in the order of their first printing) with name hints the IR API accepts.  Printed with the
names `Names.allocate` gives them — whatever the hints: equal, empty, looking like generated
names — and with distinct block labels, the IR parses back to an isomorphic IR. -/
theorem skeleton_roundtrip_allocated (defs : Nat → List Nat) (ir : IR) (order : List Nat)
    (hint : Nat → Option Str) (nb : Nat → Str) (hwf : WF defs ir)
    (hcov : ∀ x ∈ vals ir, x ∈ order) (hacc : AllAccepted (order.map hint))
    (hb : ∀ x ∈ blks ir, ∀ y ∈ blks ir, nb x = nb y → x = y) :
    ∃ ir', parseSk defs (printSk (namingOf order (allocate (order.map hint))) nb ir) = some ir' ∧
      Iso ir ir' := by
  refine skeleton_roundtrip_on defs _ nb ir hwf ?_ hb
  intro x hx y hy h
  have hl : order.length = (allocate (order.map hint)).length := by
    simp [allocate, allocFrom_length]
  obtain ⟨n, hn⟩ := get_zip_some order _ x hl (hcov x hx)
  obtain ⟨m, hm⟩ := get_zip_some order _ y hl (hcov y hy)
  simp only [namingOf, hn, hm, Option.getD_some] at h
  subst h
  exact get_zip_inj order _ x y n (allocate_injective _ hacc) hn hm

end Xdsl.Skeleton
