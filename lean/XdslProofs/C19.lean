import XdslProofs.Lemmas.RegMachine
import XdslProofs.Lemmas.RegAllocMain
/-!
# C19 — register allocation never gives one register to two live values

"After RISC-V or x86 register allocation succeeds, at every program point no two simultaneously live
values hold the same physical register (values that the allocator places in the hard-wired zero
register are the constant zero), pre-assigned and reserved registers are respected, and executing
the allocated code with register semantics computes the same results as before allocation."

The validator `RegAlloc.validate` (`interferes = !validate`) is what the check runs on every real
allocation of a straight-line block; the theorems below say what its verdict means.  The meaning of
the opcodes is a parameter (`f : Sem`): the statements hold for every instruction semantics.
-/
namespace Xdsl.RegAlloc
open Xdsl.RegMachine

/-- "no two simultaneously live values hold the same physical register … executing the allocated
code with register semantics computes the same results as before allocation":
if the validator finds no interference then, for every instruction semantics, all inputs and every
initial content of the other registers, the register machine returns the SSA results. -/
theorem validator_sound (z : Bool) (alloc : ValId → Reg) (p : Prog)
    (h : interferes z alloc p = false) :
    ∀ (f : Sem) (inputs : List Word) (rf0 : Reg → Word), inputs.length = p.args.length →
      execRegs z alloc f p inputs rf0 = execSSA f p inputs := by
  intro f inputs rf0 hlen
  unfold interferes at h
  have hv : validate z alloc p = true := by simpa using h
  unfold validate at hv
  split at hv
  · exact absurd hv (by simp)
  · rename_i L0 hL0
    simp only [Bool.and_eq_true, List.all_eq_true, List.contains_eq_mem, decide_eq_true_eq,
      Bool.or_eq_true, Bool.not_eq_true', bne_iff_ne, ne_eq] at hv
    obtain ⟨⟨hsub, hnd⟩, hz⟩ := hv
    have hz' : z = true → ∀ a ∈ p.args, alloc a ≠ 0 := by
      intro hzt
      rcases hz with hz | hz
      · rw [hzt] at hz; exact absurd hz (by simp)
      · exact hz
    have h0 := init_agree (z := z) (alloc := alloc) p.args inputs rf0 hlen hnd hz'
    have hag0 : Agree z alloc (initRegs z alloc p.args inputs rf0) (initEnv p.args inputs) L0 :=
      fun v hv => h0 v (hsub v hv)
    have := sim_ops (f := f) p.ops [] p.rets L0 _ _ hL0 hag0 (fun v hv => by simp at hv)
    unfold execRegs execSSA
    apply List.map_congr_left
    intro v hv
    exact this v hv

/-- the same for an allocation given as a finite table that keeps the pre-assigned registers:
arguments are read from, and results delivered in, the registers the input prescribed. -/
theorem validator_sound_pre (z : Bool) (pre asg : AL ValId Reg) (p : Prog)
    (hpre : respectsPre pre asg = true) (h : interferes z (allocOf asg) p = false) :
    (∀ v r, (v, r) ∈ pre → AL.get asg v = some r)
    ∧ ∀ (f : Sem) (inputs : List Word) (rf0 : Reg → Word), inputs.length = p.args.length →
      execRegs z (allocOf asg) f p inputs rf0 = execSSA f p inputs := by
  refine ⟨?_, validator_sound z _ p h⟩
  intro v r hm
  unfold respectsPre at hpre
  simp only [List.all_eq_true, beq_iff_eq] at hpre
  exact hpre (v, r) hm

/-- "values that the allocator places in the hard-wired zero register are the constant zero":
under a successful validation every returned value that sits in register 0 is 0 in the SSA
execution (and likewise every value at the point where it is live, see `step_sim`). -/
theorem zero_reg_sound (alloc : ValId → Reg) (p : Prog) (h : interferes true alloc p = false)
    (f : Sem) (inputs : List Word) (hlen : inputs.length = p.args.length) :
    ∀ v ∈ p.rets, alloc v = 0 → runSSA f (initEnv p.args inputs) p.ops v = 0 := by
  intro v hv h0
  have := validator_sound true alloc p h f inputs (fun _ => 1) hlen
  unfold execRegs execSSA at this
  have hv' := List.map_inj_left.1 this v hv
  rw [← hv', h0]
  exact readReg_zero _

/-- "at every program point no two simultaneously live values hold the same physical register":
a successful validation implies it literally — for every suffix `os` of the block (i.e. at every
program point), two different values that are live there have different registers, unless both sit
in the hard-wired zero register. -/
theorem no_shared_register (z : Bool) (alloc : ValId → Reg) (p : Prog)
    (h : interferes z alloc p = false) (pre os : List Op) (hsplit : p.ops = pre ++ os) :
    ∀ v ∈ liveBefore os p.rets, ∀ w ∈ liveBefore os p.rets, v ≠ w → alloc v = alloc w →
      (z = true ∧ alloc v = 0) := by
  unfold interferes at h
  have hv : validate z alloc p = true := by simpa using h
  unfold validate at hv
  split at hv
  · exact absurd hv (by simp)
  · rename_i L0 hL0
    simp only [Bool.and_eq_true, List.all_eq_true, List.contains_eq_mem, decide_eq_true_eq] at hv
    have hpw0 : PW z alloc L0 := pw_of_nodup_map hv.1.1 hv.1.2
    have hgood := good_of_check p.ops [] p.rets L0 hL0 hpw0
    -- walk to the suffix
    have key : ∀ (pre os : List Op) (Z : List ValId), Good z alloc Z (pre ++ os) p.rets →
        PW z alloc (liveBefore os p.rets) := by
      intro pre
      induction pre with
      | nil => intro os Z hg; exact good_pw hg
      | cons o pre ih => intro os Z hg; exact ih os _ hg.1
    rw [hsplit] at hgood
    exact key pre os [] hgood

/-- `alloc_no_interference` for straight-line blocks — the model of `BlockNaiveAllocator` with the
LIFO `RegisterStack`, in/out pairs (`allocate_values_same_reg`), pre-assigned registers excluded from
the pool, the RISC-V zero-register rule and infinite registers.

Assumptions on the input: SSA (`hssa`), arguments are pre-assigned (`hargs`), every operation has at
most one in/out pair (`hios`; true of all riscv / x86 instructions modelled) and none on a target with
a zero register (`hzios`: RISC-V has no in/out instructions), the input can be allocated at all, i.e.
SOME valid allocation `a0` extending the pre-assignment exists (`hext0`, `hfeas` — this is the
documented precondition "the use of a register value as inout must be its last use" plus consistency
of the pre-assignment; x86-regalloc-legalize establishes it), pool registers and pre-assigned
registers are real registers (`< infBase`) and the pool does not contain `zero`.

Conclusion: whenever the allocator succeeds its result passes the validator (hence, by
`validator_sound` / `no_shared_register`, no two live values share a register and the register
machine computes the same results), keeps every pre-assigned register and gives a register to every
value.

`_partial`: the property also quantifies over nested loops (`riscv_scf.for`); the loop part of the
allocator (`ForRofOperation.allocate_registers`, register reservation) is not modelled in Lean — loops
are checked by the independent Python oracle only, and the check has found genuine defects there
(see known_findings.json). -/
theorem alloc_no_interference_partial (c : Cfg) (pool : List Reg) (pre : AL ValId Reg) (p : Prog)
    (asg : AL ValId Reg) (a0 : ValId → Reg)
    (hios : ∀ o ∈ p.ops, o.ios.length ≤ 1)
    (hzios : c.z = true → ∀ o ∈ p.ops, o.ios = [])
    (hssa : (p.args ++ defsOf p.ops).Nodup)
    (hargs : ∀ a ∈ p.args, (AL.get pre a).isSome = true)
    (hext0 : ∀ v r, AL.get pre v = some r → a0 v = r)
    (hfeas : interferes c.z a0 p = false)
    (hpool : ∀ r : Nat, r ∈ pool → r < c.infBase ∧ (c.z = true → r ≠ 0))
    (hpreLt : ∀ (v : ValId) (r : Nat), AL.get pre v = some r → r < c.infBase)
    (hbase : c.z = true → 0 < c.infBase)
    (h : allocate c pool pre p = .ok asg) :
    interferes c.z (allocOf asg) p = false
    ∧ (∀ v r, AL.get pre v = some r → AL.get asg v = some r)
    ∧ assigned asg p = true := by
  -- what the feasibility witness gives
  unfold interferes at hfeas
  have hv0 : validate c.z a0 p = true := by simpa using hfeas
  unfold validate at hv0
  split at hv0
  · exact absurd hv0 (by simp)
  rename_i L0 hL0
  simp only [Bool.and_eq_true, List.all_eq_true, List.contains_eq_mem, decide_eq_true_eq] at hv0
  obtain ⟨⟨hL0sub, hnd0⟩, hz0⟩ := hv0
  have hL0eq := checkOps_some _ _ _ _ hL0
  have hgood := good_of_check p.ops [] p.rets L0 hL0 (pw_of_nodup_map hL0sub hnd0)
  have hssa' := List.nodup_append.1 hssa
  have hld : ∀ v ∈ liveBefore p.ops p.rets, v ∉ defsOf p.ops := by
    intro v hv hd
    rw [← hL0eq] at hv
    exact hssa'.2.2 v (hL0sub v hv) v hd rfl
  -- static facts
  let A0 := pool.filter fun r => !(usedPre pre p).contains r
  let U := valsOf p.ops ++ p.rets
  have hst : Static c pre A0 U := {
    zeroNotAlloc := fun hz hm => (hpool 0 (List.mem_filter.1 hm).1).2 hz rfl
    allocLt := fun r hr => (hpool r (List.mem_filter.1 hr).1).1
    basePos := hbase
    preLt := hpreLt
    usedOut := fun v hv r hr hm => by
      have hused : r ∈ usedPre pre p := by
        simp only [usedPre, List.mem_filterMap]
        exact ⟨v, hv, hr⟩
      have := (List.mem_filter.1 hm).2
      simp [hused] at this }
  -- run the allocator
  unfold allocate at h
  simp only at h
  split at h
  · exact absurd h (by simp)
  rename_i s0 hs0
  split at h
  · exact absurd h (by simp)
  rename_i s1 hs1
  simp only [Except.ok.injEq] at h
  subst h
  -- the terminator
  have hpwrets : PW c.z a0 p.rets := by
    have key : ∀ (os : List Op) (Z : List ValId), Good c.z a0 Z os p.rets → PW c.z a0 p.rets := by
      intro os
      induction os with
      | nil => intro Z hg; exact hg
      | cons o os ih => intro Z hg; exact ih _ hg.1
    exact key _ _ hgood
  obtain ⟨hinv0, hext0'⟩ := fold_live (Zc := zeroConsts p.ops) (Tie := TiesOn []) hst hext0
    (fun o ho => by simp at ho) hpwrets p.rets _ s0 [] [] hs0
    (inv_init hpreLt)
    (fun v hv => List.mem_append_right _ hv) (fun v hv => hv) (fun w hw => by simp at hw)
    (fun v _ hv => by simp at hv)
  have hinv0' : Inv c pre A0 (zeroConsts p.ops) (TiesOn []) s0 p.rets.reverse p.rets :=
    hinv0.mono (fun v => by simp) (fun v hv => by simpa using hv)
  -- the block
  obtain ⟨V, hV, hinv1, hext1, hchk⟩ := alloc_ops hst hext0 p.ops [] s0 s1 p.rets.reverse hios hzios
    (fun v hv => List.mem_append_left _ hv) hs1 hinv0' (fun v => by simp) hgood
    (by rw [zeroConsts_eq]; exact zcOk_zfold p.ops [] [] (fun _ h => h) hssa'.2.1)
    hssa'.2.1 hld
  have hextAll : ∀ v r, AL.get pre v = some r → AL.get s1.asg v = some r := hinv1.ext
  have hargEq : ∀ a ∈ p.args, allocOf s1.asg a = a0 a := by
    intro a ha
    obtain ⟨r, hr⟩ := Option.isSome_iff_exists.1 (hargs a ha)
    rw [allocOf_of_get (hextAll a r hr), hext0 a r hr]
  refine ⟨?_, hextAll, ?_⟩
  · unfold interferes validate
    rw [hchk, ← hL0eq]
    simp only [Bool.not_eq_false', Bool.and_eq_true, List.all_eq_true, List.contains_eq_mem,
      decide_eq_true_eq]
    have hmap : p.args.map (allocOf s1.asg) = p.args.map a0 := List.map_congr_left hargEq
    refine ⟨⟨hL0sub, by rw [hmap]; exact hnd0⟩, ?_⟩
    simp only [Bool.or_eq_true, Bool.not_eq_true', List.all_eq_true, bne_iff_ne, ne_eq] at hz0 ⊢
    rcases hz0 with hz0 | hz0
    · exact Or.inl hz0
    · right
      intro a ha
      rw [hargEq a ha]
      exact hz0 a ha
  · unfold assigned progValues
    simp only [List.all_eq_true, List.mem_append]
    intro v hv
    rcases hv with (hv | hv) | hv
    · obtain ⟨r, hr⟩ := Option.isSome_iff_exists.1 (hargs v hv)
      rw [hextAll v r hr]; rfl
    · exact hinv1.allocd v ((hV v).2 (Or.inl hv))
    · exact hinv1.allocd v ((hV v).2 (Or.inr hv))

/-- `stack_inv`: at every point of the backward walk of the model allocator (after the terminator
and the operations `os` of a split `p.ops = front ++ os` have been processed) the LIFO stack of
available registers has no duplicates, contains no register of a value that is live at this point
("available ∩ live-assigned = ∅"), holds only pool registers that are not pre-assigned in the function
or infinite registers created so far, and no two live values share a register.
(Same assumptions as `alloc_no_interference_partial`.) -/
theorem stack_inv (c : Cfg) (pool : List Reg) (pre : AL ValId Reg) (p : Prog) (a0 : ValId → Reg)
    (hios : ∀ o ∈ p.ops, o.ios.length ≤ 1)
    (hzios : c.z = true → ∀ o ∈ p.ops, o.ios = [])
    (hssa : (p.args ++ defsOf p.ops).Nodup)
    (hext0 : ∀ v r, AL.get pre v = some r → a0 v = r)
    (hfeas : interferes c.z a0 p = false)
    (hpool : ∀ r : Nat, r ∈ pool → r < c.infBase ∧ (c.z = true → r ≠ 0))
    (hpreLt : ∀ (v : ValId) (r : Nat), AL.get pre v = some r → r < c.infBase)
    (hbase : c.z = true → 0 < c.infBase)
    (front os : List Op) (hsplit : p.ops = front ++ os) (s0 s : St)
    (hs0 : foldE (allocValue c (zeroConsts p.ops)) (initSt pool pre p) p.rets = .ok s0)
    (hs : foldE (allocOp c (zeroConsts p.ops)) s0 os.reverse = .ok s) :
    s.avail.Nodup
    ∧ (∀ v ∈ liveBefore os p.rets, allocOf s.asg v ∉ s.avail)
    ∧ (∀ r : Nat, r ∈ s.avail →
        (r ∈ pool ∧ r ∉ usedPre pre p) ∨ (c.infBase ≤ r ∧ r < c.infBase + s.nextInf))
    ∧ (∀ v ∈ liveBefore os p.rets, ∀ w ∈ liveBefore os p.rets, v ≠ w →
        allocOf s.asg v = allocOf s.asg w → (c.z = true ∧ allocOf s.asg v = 0)) := by
  unfold interferes at hfeas
  have hv0 : validate c.z a0 p = true := by simpa using hfeas
  unfold validate at hv0
  split at hv0
  · exact absurd hv0 (by simp)
  rename_i L0 hL0
  simp only [Bool.and_eq_true, List.all_eq_true, List.contains_eq_mem, decide_eq_true_eq] at hv0
  obtain ⟨⟨hL0sub, hnd0⟩, _⟩ := hv0
  have hL0eq := checkOps_some _ _ _ _ hL0
  have hgood := good_of_check p.ops [] p.rets L0 hL0 (pw_of_nodup_map hL0sub hnd0)
  have hssa' := List.nodup_append.1 hssa
  let A0 := pool.filter fun r => !(usedPre pre p).contains r
  let U := valsOf p.ops ++ p.rets
  have hst : Static c pre A0 U := {
    zeroNotAlloc := fun hz hm => (hpool 0 (List.mem_filter.1 hm).1).2 hz rfl
    allocLt := fun r hr => (hpool r (List.mem_filter.1 hr).1).1
    basePos := hbase
    preLt := hpreLt
    usedOut := fun v hv r hr hm => by
      have hused : r ∈ usedPre pre p := by
        simp only [usedPre, List.mem_filterMap]
        exact ⟨v, hv, hr⟩
      have := (List.mem_filter.1 hm).2
      simp [hused] at this }
  have hpwrets : PW c.z a0 p.rets := by
    have key : ∀ (os : List Op) (Z : List ValId), Good c.z a0 Z os p.rets → PW c.z a0 p.rets := by
      intro os
      induction os with
      | nil => intro Z hg; exact hg
      | cons o os ih => intro Z hg; exact ih _ hg.1
    exact key _ _ hgood
  obtain ⟨hinv0, _⟩ := fold_live (Zc := zeroConsts p.ops) (Tie := TiesOn []) hst hext0
    (fun o ho => by simp at ho) hpwrets p.rets _ s0 [] [] hs0
    (inv_init hpreLt)
    (fun v hv => List.mem_append_right _ hv) (fun v hv => hv) (fun w hw => by simp at hw)
    (fun v _ hv => by simp at hv)
  have hinv0' : Inv c pre A0 (zeroConsts p.ops) (TiesOn []) s0 p.rets.reverse p.rets :=
    hinv0.mono (fun v => by simp) (fun v hv => by simpa using hv)
  have hzc : ZcOk (zeroConsts p.ops) [] p.ops := by
    rw [zeroConsts_eq]; exact zcOk_zfold p.ops [] [] (fun _ h => h) hssa'.2.1
  have hzc' : ZcOk (zeroConsts p.ops) [] (front ++ os) := by rw [← hsplit]; exact hzc
  rw [hsplit] at hgood
  have hndAll := hssa'.2.1
  rw [hsplit] at hndAll
  simp only [defsOf, List.flatMap_append] at hndAll
  have hndSplit := List.nodup_append.1 hndAll
  have hld : ∀ v ∈ liveBefore os p.rets, v ∉ defsOf os := by
    intro v hv hd
    rcases liveBefore_append front os p.rets v hv with h | h
    · rw [← hsplit, ← hL0eq] at h
      refine hssa'.2.2 v (hL0sub v h) v ?_ rfl
      rw [hsplit]
      simp only [defsOf, List.flatMap_append, List.mem_append]
      exact Or.inr hd
    · exact hndSplit.2.2 v h v hd rfl
  obtain ⟨V, _, hinv1, _, _⟩ := alloc_ops hst hext0 os (zfold true [] front) s0 s p.rets.reverse
    (fun o ho => hios o (by rw [hsplit]; exact List.mem_append_right _ ho))
    (fun hz o ho => hzios hz o (by rw [hsplit]; exact List.mem_append_right _ ho))
    (fun v hv => List.mem_append_left _ (by
      rw [hsplit]
      simp only [valsOf, List.flatMap_append, List.mem_append] at hv ⊢
      exact Or.inr hv))
    hs hinv0' (fun v => by simp) (good_suffix front os [] p.rets hgood) (zcOk_suffix front os [] hzc')
    hndSplit.2.1 hld
  refine ⟨hinv1.nodup, hinv1.notAvail, ?_, hinv1.pw⟩
  intro r hr
  rcases hinv1.availOk r hr with h | h
  · left
    have := List.mem_filter.1 h
    exact ⟨this.1, by simpa using this.2⟩
  · exact Or.inr h

/-! Non-vacuity: a block with four simultaneously live values and a constant zero, a valid and an
invalid allocation. -/

def exProg : Prog :=
  { args := [0, 1],
    ops := [ { zk := 1, code := 3, imm := 0, ins := [], outs := [2], ios := [] },      -- %2 = li 0
             { zk := 0, code := 4, imm := 0, ins := [0, 1], outs := [3], ios := [] },  -- %3 = add %0 %1
             { zk := 0, code := 5, imm := 0, ins := [3, 2], outs := [4], ios := [] },  -- %4 = sub %3 %2
             { zk := 0, code := 4, imm := 0, ins := [4, 0], outs := [5], ios := [] } ],-- %5 = add %4 %0
    rets := [5, 1] }

def exAlloc : ValId → Reg := fun v => [10, 11, 0, 5, 5, 10].getD v 99

example : interferes true exAlloc exProg = false := by decide
-- %3 placed in a0 (register 10) although %0 is still live there
example : interferes true (fun v => [10, 11, 0, 10, 5, 10].getD v 99) exProg = true := by decide
-- a non-constant value in the zero register
example : interferes true (fun v => [10, 11, 0, 0, 5, 10].getD v 99) exProg = true := by decide

example (f : Sem) (x y : Word) (rf0 : Reg → Word) :
    execRegs true exAlloc f exProg [x, y] rf0 = execSSA f exProg [x, y] :=
  validator_sound true exAlloc exProg (by decide) f [x, y] rf0 rfl

end Xdsl.RegAlloc

namespace Xdsl.RegAlloc
open Xdsl.RegMachine

/-! Non-vacuity of the allocator theorems: the model allocator on `exProg` with the pool
`t2, t1, t0` (registers 7, 6, 5), arguments pre-assigned to `a0`, `a1`. -/

def exCfg : Cfg := { z := true, allowInf := false, infBase := 1000 }
def exPre : AL ValId Reg := [(0, 10), (1, 11)]
def exResult : AL ValId Reg := [(2, 0), (3, 5), (4, 5), (5, 5), (0, 10), (1, 11)]

example : allocate exCfg [7, 6, 5] exPre exProg = .ok exResult := by rfl

example : interferes true (allocOf exResult) exProg = false ∧ assigned exResult exProg = true :=
  let h := alloc_no_interference_partial exCfg [7, 6, 5] exPre exProg exResult exAlloc
    (by decide) (by decide) (by decide) (by decide)
    (by intro v r h
        have : (v = 0 ∧ r = 10) ∨ (v = 1 ∧ r = 11) := by
          simp only [exPre, AL.get_cons, AL.get_nil] at h
          split at h
          · left; simp_all
          · split at h
            · right; simp_all
            · simp at h
        rcases this with ⟨rfl, rfl⟩ | ⟨rfl, rfl⟩ <;> rfl)
    (by decide)
    (by intro r hr; simp only [List.mem_cons, List.not_mem_nil, or_false] at hr
        rcases hr with rfl | rfl | rfl <;> simp [exCfg])
    (by intro v r h
        simp only [exPre, AL.get_cons, AL.get_nil] at h
        split at h
        · simp only [Option.some.injEq] at h; subst h; simp [exCfg]
        · split at h
          · simp only [Option.some.injEq] at h; subst h; simp [exCfg]
          · simp at h)
    (by simp [exCfg])
    (by rfl)
  ⟨h.1, h.2.2⟩

end Xdsl.RegAlloc

namespace Xdsl.RegAlloc
open Xdsl.RegMachine

/-! Non-vacuity with an in/out pair (x86 style, no zero register): `%1 = mov %0`,
`%2 = add %1, %0` (read-modify-write of the register of `%1`), `%3 = mov %2 -> rax`. -/

def xProg : Prog :=
  { args := [0],
    ops := [ { zk := 0, code := 9, imm := 0, ins := [0], outs := [1], ios := [] },
             { zk := 0, code := 10, imm := 5, ins := [0], outs := [], ios := [(1, 2)] },
             { zk := 0, code := 9, imm := 0, ins := [2], outs := [3], ios := [] } ],
    rets := [3] }
def xCfg : Cfg := { z := false, allowInf := false, infBase := 3000 }
def xPre : AL ValId Reg := [(0, 207), (3, 200)]
def xResult : AL ValId Reg := [(1, 202), (2, 202), (0, 207), (3, 200)]

example : allocate xCfg [201, 202] xPre xProg = .ok xResult := by rfl

example : interferes false (allocOf xResult) xProg = false :=
  (alloc_no_interference_partial xCfg [201, 202] xPre xProg xResult (allocOf xResult)
    (by decide) (by decide) (by decide) (by decide)
    (by intro v r h
        simp only [xPre, AL.get_cons, AL.get_nil] at h
        split at h
        · rename_i hv; simp only [Option.some.injEq] at h; subst h; subst hv; rfl
        · split at h
          · rename_i hv; simp only [Option.some.injEq] at h; subst h; subst hv; rfl
          · simp at h)
    (by decide)
    (by intro r hr; simp only [List.mem_cons, List.not_mem_nil, or_false] at hr
        rcases hr with rfl | rfl <;> simp [xCfg])
    (by intro v r h
        simp only [xPre, AL.get_cons, AL.get_nil] at h
        split at h
        · simp only [Option.some.injEq] at h; subst h; simp [xCfg]
        · split at h
          · simp only [Option.some.injEq] at h; subst h; simp [xCfg]
          · simp at h)
    (by simp [xCfg])
    (by rfl)).1

-- the in/out tie is part of the validator: separate registers for `%1` and `%2` are rejected
example : interferes false (allocOf [(1, 202), (2, 201), (0, 207), (3, 200)]) xProg = true := by decide
-- `%1` must not share with the still-live `%0`
example : interferes false (allocOf [(1, 207), (2, 207), (0, 207), (3, 200)]) xProg = true := by decide

end Xdsl.RegAlloc
