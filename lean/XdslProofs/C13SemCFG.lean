import XdslProofs.Lemmas.DCEMiniMain
import XdslProofs.Lemmas.DCEMiniTriv
/-!
# C13 — "program results are unchanged", on the reference semantics `Sem`, for nested regions, CFGs and calls

"Dead-code elimination … removes only operations whose results are unused and that are not terminators,
symbols or operations with possibly observable effects, plus blocks that are unreachable; **program
results are unchanged** …"

`XdslProofs/C13Sem.lean` proves the clause for one block of region-free operations with abstract
operation meanings.  This file proves it on the shared reference semantics `XdslModel/Sem.lean`
(`Sem.run`: MLIR integer semantics on `BitVec`, explicit `ub`, effect log, fuel) for whole modules:
structured operations with regions (`scf.if`, `scf.for` with iteration arguments, `scf.while`,
`affine.for`), CFG regions (`cf.br` / `cf.cond_br` with block arguments, unreachable blocks), and calls
between the functions of the module (`func.call`; external functions log an effect).

The object.  `a : AT` (`XdslModel/DCEMini.lean`) is a module in which every operation carries BOTH what
the pass looks at (`Hdr`: id, operand owners, `IsTerminator`, `SymbolOpInterface`, declared effects,
`RecursiveMemoryEffect`, successors) and what `Sem` looks at (`MHdr`: name, results, operands,
attributes, successors with block arguments).  `toT a` is the tree the model of the pass
(`XdslModel/DCE.lean`) works on, `toProg a` the MiniIR program `Sem.run` executes; `dceOnceA` /`dceA` are
`DCE.dceOnce` / `DCE.dce` carried over (`dce_tie`: `toT (dceOnceA a).1 = (dceOnce (toT a)).1`).  The
harness builds `a` from the two serialisations of one xDSL module, evaluates the decidable hypotheses
`cert a` (driver model `dcemini`) and checks that `toProg` of the result is the serialisation of what
the real pass leaves.

The statement is exactly as strong as is true: a run of the original program that ENDS WITH RESULTS is
reproduced — same results, same effect log — by the pruned program with the same (or any larger) fuel.
Nothing is claimed when the original run is undefined behaviour (the pass erases a dead `arith.divsi`
by zero: `dce_ub_not_preserved_counterexample`), or does not terminate (the pass erases a dead
`scf.while` that loops forever: `dce_divergence_not_reflected_counterexample`).

What is proved from the model of the pass and what is checked per program (`cert`):
* proved: an operation erased from a kept block has no live user (`liveSet_closed`, the fixpoint of
  `live_iff_least`), hence no kept operation reads a result of it (`no_live_use`); it is
  `would_be_trivially_dead`, hence — with trait flags that agree with the operation names on it and on
  everything nested in it (`hdrOk`, checked) — it cannot touch the effect log, the memory or the symref
  variables of `Sem` and is no terminator (`dce_preserves_sem_structured`); every block the pass keeps is
  the entry block of its region or one the post-order iteration yields (`kr_liveSet`); a kept operation
  branches only to kept blocks, i.e. erasing the unreachable blocks is safe (`region_succ`: the successors
  of a yielded block are yielded — `postorder_spec` of C24 —, a yielded block ends in a terminator, which is
  never `would_be_trivially_dead`, so the block has a live operation); the simulation itself, through
  loops, branches and calls, for every fuel (`sim_all`);
* checked (`cert`, decidable, evaluated on every generated program): the tree is a module, well-sorted,
  with unique operation ids and well-formed region graphs (`ws`, `wfT`: the `okTree` of the `dce` model);
  `linkedB` (the operand-owner lists of the tree cover the MiniIR uses); `cfgOkB` (per region: unique
  block ids, only the last operation of a block has successors and then is a terminator for the pass, its
  MiniIR successors are the blocks its `Hdr.succs` point at, non-entry blocks end in a terminator); SSA
  scoping of what disappears with an erased operation or block (`certB`: no kept operation reads a value
  defined INSIDE an erased operation or in an erased block — dominance, which the pass relies on too);
  `hdrOk` on erased operations and what they contain; every `func.func` is live and keeps a body.
The walker-based erasure (`DCE.triv`) is covered by `triv_preserves_sem`.
`…_partial`: an erased operation whose names say that it changes the memory of `Sem` is outside `hdrOk`
(an operation that declares `ALLOC` on its own result may be erased by the pass; `Sem` numbers
allocations, so results would then agree only up to a renaming of allocation ids — today `memref.alloc`
declares an unattached `ALLOC` and is never erased, so no generated program is affected); SSA scoping
(dominance) is a checked hypothesis, not derived from a verifier model.
-/
namespace Xdsl.DCEM
open Xdsl.DCE Xdsl.MiniIR Xdsl.Sem

/-- the tree that `dceOnceA` / `dceA` leave is the one the model of the pass leaves (and so are the
returned flag, the number of calls, the convergence flag) -/
theorem dce_tie (a : AT) :
    toT (dceOnceA a).1 = (dceOnce (toT a)).1 ∧ (dceOnceA a).2 = (dceOnce (toT a)).2
      ∧ toT (dceA a).1 = (dce (toT a)).1 ∧ (dceA a).2 = (dce (toT a)).2 :=
  ⟨(toT_dceOnceA a).1, (toT_dceOnceA a).2, (toT_dceA a).1, (toT_dceA a).2⟩

/-- the two comparisons of the driver model `dcemini` are sound: when `eqFuncs` accepts, `toProg` of the
tree IS the parsed MiniIR program (so `cert ok` + `after ok` mean: the theorems below speak about the very
programs `Sem` is run on — the module before, and what the real pass left of it) -/
theorem tie_checker_sound (a : AT) (P : Prog) (h : eqFuncs (topOps a) P.funcs = true) : toProg a = P := by
  cases P
  simp only [toProg]
  congr 1
  exact eqFuncs_sound _ _ h

/-- **dce_preserves_sem_structured** — "dead whole region-operations are removed only when
`would_be_trivially_dead` says so", semantically.  An operation (with everything nested in it: the
regions of `scf.if` / `scf.for` / `scf.while` / `affine.for`, to any depth) that
`would_be_trivially_dead` accepts, whose trait flags agree with the operation names (`hdrOk`,
`hdrOkAll`), is `Quiet` in every program: whenever `Sem.runOp` runs it to completion — with any fuel,
from any state — it does not end its block, and the state it leaves has the same effect log, memory
and symref variables, and the same value for every value id outside `D`, for any `D` containing the
values defined by the operation and inside it.  (It may still be undefined behaviour or loop forever;
then the original run has no results.) -/
theorem dce_preserves_sem_structured {h : Hdr} {m : MHdr} {rs : AT} (hw : wbd h (toT rs) = true)
    (hok : hdrOk h m = true) (hokr : hdrOkAll rs = true) (P : Prog) (D : Nat → Prop)
    (hDr : ∀ r ∈ m.results, D r.1) (hD : ∀ v ∈ defsA rs, D v) :
    ∀ (n : Nat) (st st1 : St) (t : Option Term), runOp n P st (mkOp m (regionsOf rs)) = .ok (st1, t) →
      t = none ∧ st1.eff = st.eff ∧ st1.mem = st.mem ∧ st1.sym = st.sym
        ∧ ∀ v, ¬ D v → AL.get st1.env v = AL.get st.env v := by
  intro n st st1 t hrun
  obtain ⟨hc, ht⟩ := calm_of_wbd hw hok hokr
  obtain ⟨h1, h2⟩ := quiet_of_calm (P := P) hc ht hDr hD n st st1 t hrun
  exact ⟨h1, h2.eff, h2.mem, h2.sym, h2.env⟩

/-- **dce_preserves_sem_cfg** — one call of `region_dce` on a module with nested regions, CFG regions
and calls.  If the decidable hypotheses `cert a` hold, every run of the original program that ends
with results and an effect log is reproduced by the program `region_dce` leaves, with the same fuel
and with every larger fuel: same results, same effect log. -/
theorem dce_preserves_sem_cfg (a : AT) (hc : cert a = true) (f : String) (args : List Val) (n : Nat)
    (r : List Val × List Effect) (h : Sem.run (toProg a) f args n = .ok r) :
    ∀ M, n ≤ M → Sem.run (toProg (dceOnceA a).1) f args M = .ok r :=
  fun _ hM => dceOnceA_preserves a hc hM h

/-- the same for `DeadCodeElimination.apply` (`while region_dce(op.body): pass`), with the hypotheses at
every call the loop makes (`certPass`) -/
theorem dce_pass_preserves_sem (a : AT) (hc : certPass a = true) (f : String) (args : List Val) (n : Nat)
    (r : List Val × List Effect) (h : Sem.run (toProg a) f args n = .ok r) :
    ∀ M, n ≤ M → Sem.run (toProg (dceA a).1) f args M = .ok r :=
  fun _ hM => dceLoopA_preserves _ a 0 hc hM h

/-- **triv_preserves_sem** — "…and the trivial-dead removal performed during greedy rewriting": the
erasure of trivially dead operations to its fixpoint (`DCE.triv`: what `dce()` / `RemoveUnusedOperations`
and the first step of `GreedyRewritePatternApplier.match_and_rewrite` reach) preserves every run that ends
with results, under the decidable hypotheses `certTrivAll` (at every sweep: module tree with unique ids,
`linkedB`, no block without a kept operation, kept operations branch to kept blocks, scoping and `hdrOk`
as in `cert`); `toT (trivAllA a).1 = (triv (toT a)).1`. -/
theorem triv_preserves_sem (a : AT) (hc : certTrivAll a = true) (f : String) (args : List Val) (n : Nat)
    (r : List Val × List Effect) (h : Sem.run (toProg a) f args n = .ok r) :
    (∀ M, n ≤ M → Sem.run (toProg (trivAllA a).1) f args M = .ok r)
      ∧ toT (trivAllA a).1 = (triv (toT a)).1 :=
  ⟨fun _ hM => trivLoopA_preserves _ a hc hM h, (toT_trivLoopA _ a).1⟩

/-- read from the pruned side: if the pruned program ends with results, then with any fuel the original
program gives the same results and effect log, or runs out of fuel, or is undefined behaviour, or is
outside the fragment of `Sem` (`err`) — the last three because the pass may erase an operation that
never finishes, traps, or that `Sem` does not know -/
theorem dce_sem_converse (a : AT) (hc : cert a = true) (f : String) (args : List Val) (M : Nat)
    (r : List Val × List Effect) (h : Sem.run (toProg (dceOnceA a).1) f args M = .ok r) (n : Nat) :
    Sem.run (toProg a) f args n = .ok r ∨ Sem.run (toProg a) f args n = .fuel
      ∨ (∃ w, Sem.run (toProg a) f args n = .ub w) ∨ ∃ e, Sem.run (toProg a) f args n = .err e := by
  cases hn : Sem.run (toProg a) f args n with
  | ok r' =>
    left
    have h1 := dceOnceA_preserves a hc (Nat.le_max_left n M) hn
    have h2 := SemMeta.run_fuel_mono_ok _ f args (Nat.le_max_right n M) h
    rw [h1] at h2
    exact h2
  | fuel => exact Or.inr (Or.inl rfl)
  | ub w => exact Or.inr (Or.inr (Or.inl ⟨w, rfl⟩))
  | err e => exact Or.inr (Or.inr (Or.inr ⟨e, rfl⟩))

/-! ## the stronger statements are false; non-vacuity -/
namespace Demo

def hPure (i : Nat) (us : List Nat) : Hdr := ⟨i, us, false, false, some [], false, []⟩
def hRec (i : Nat) (us : List Nat) : Hdr := ⟨i, us, false, false, some [], true, []⟩
def hTermP (i : Nat) (us : List Nat) (ss : List Nat) : Hdr := ⟨i, us, true, false, some [], false, ss⟩
def hTermU (i : Nat) (us : List Nat) : Hdr := ⟨i, us, true, false, none, false, []⟩
def hUnk (i : Nat) (us : List Nat) : Hdr := ⟨i, us, false, false, none, false, []⟩
def hFunc (i : Nat) : Hdr := ⟨i, [], false, true, none, false, []⟩
def mFunc (n : String) : MHdr := ⟨"func.func", [], [], [("sym_name", .str n)], []⟩
def i32 : Ty := .int 32
def mConst (r : Nat) (v : Int) (t : Ty) : MHdr := ⟨"arith.constant", [(r, t)], [], [("value", .int v t)], []⟩
def mBin (n : String) (r a b : Nat) : MHdr := ⟨n, [(r, i32)], [a, b], [], []⟩
def mRet (vs : List Nat) : MHdr := ⟨"func.return", [], vs, [], []⟩
def mYield (vs : List Nat) : MHdr := ⟨"scf.yield", [], vs, [], []⟩
def modul (fs : AT) : AT := .region (.block 0 [] fs .nil) .nil
abbrev tt : Val := .int 1 1#1
abbrev ff : Val := .int 1 0#1

def isUb {α : Type} : Res α → Bool | .ub _ => true | _ => false
def isOk {α : Type} : Res α → Bool | .ok _ => true | _ => false
def okI32 : Res (List Val × List Effect) → Int → Nat → Bool
  | .ok ([.int 32 v], es), x, k => v.toInt == x && es.length == k
  | _, _, _ => false

theorem isUb_iff {α : Type} {x : Res α} (h : isUb x = true) : ∃ w, x = .ub w := by
  cases x <;> first | exact ⟨_, rfl⟩ | cases h
theorem isOk_iff {α : Type} {x : Res α} (h : isOk x = true) : ∃ r, x = .ok r := by
  cases x <;> first | exact ⟨_, rfl⟩ | cases h

/-- `func @f(%0 : i32) -> i32 { %1 = constant 0; %2 = divsi %0, %1 (unused); return %0 }` -/
def divByZero : AT := modul
  (.op (hFunc 0) (mFunc "f")
    (.region (.block 0 [(0, i32)]
      (.op (hPure 1 []) (mConst 1 0 i32) .nil
      (.op (hPure 2 [1]) (mBin "arith.divsi" 2 0 1) .nil
      (.op (hTermU 3 []) (mRet [0]) .nil .nil))) .nil) .nil) .nil)

/-- **"undefined behaviour is preserved" is false**: the pass erases an unused `arith.divsi` by zero
(`NoMemoryEffect`; `is_speculatable` is not consulted by `would_be_trivially_dead`).  All hypotheses of
`dce_preserves_sem_cfg` hold, the original run is `ub`, the pruned run returns `5`. -/
theorem dce_ub_not_preserved_counterexample :
    cert divByZero = true ∧ allIds (toT (dceOnceA divByZero).1) = [0, 3]
      ∧ (∃ w, Sem.run (toProg divByZero) "f" [.int 32 5#32] 20 = .ub w)
      ∧ ∃ r, Sem.run (toProg (dceOnceA divByZero).1) "f" [.int 32 5#32] 20 = .ok r :=
  ⟨by decide, by decide, isUb_iff (by decide), isOk_iff (by decide)⟩

/-- `func @f(%0 : i1) { scf.while () { scf.condition(%0) } do { scf.yield }; return }` -/
def deadLoop : AT := modul
  (.op (hFunc 0) (mFunc "f")
    (.region (.block 0 [(0, .int 1)]
      (.op (hRec 1 []) ⟨"scf.while", [], [], [], []⟩
        (.region (.block 1 [] (.op (hTermP 2 [] []) ⟨"scf.condition", [], [0], [], []⟩ .nil .nil) .nil)
        (.region (.block 2 [] (.op (hTermP 3 [] []) (mYield []) .nil .nil) .nil) .nil))
      (.op (hTermU 4 []) (mRet []) .nil .nil)) .nil) .nil) .nil)

def regB : Region := .mk [.mk 1 [] [.mk "scf.condition" [] [0] [] [] []]]
def regA : Region := .mk [.mk 2 [] [.mk "scf.yield" [] [] [] [] []]]
def st0 : St := { env := [(0, tt)], eff := [], sym := [], mem := [] }
def progLoop : Prog := ⟨[⟨"f", some (.mk [.mk 0 [(0, .int 1)] [
    .mk "scf.while" [] [] [] [] [regB, regA],
    .mk "func.return" [] [] [] [] []]])⟩]⟩

theorem toProg_deadLoop : toProg deadLoop = progLoop := rfl

theorem before_run (P : Prog) : ∀ n,
    runRegion n P st0 regB [] = .fuel ∨ runRegion n P st0 regB [] = .ok (st0, .cond true []) := by
  intro n
  rcases n with _ | _ | _ | _ | n
  · left; rfl
  · left; rfl
  · left; rfl
  · left; rfl
  · right; rfl

theorem after_run (P : Prog) : ∀ n,
    runRegion n P st0 regA [] = .fuel ∨ runRegion n P st0 regA [] = .ok (st0, .yield []) := by
  intro n
  rcases n with _ | _ | _ | _ | n
  · left; rfl
  · left; rfl
  · left; rfl
  · left; rfl
  · right; rfl

theorem loop_diverges (P : Prog) : ∀ n x, runWhile n P st0 regB regA [] ≠ .ok x := by
  intro n
  induction n with
  | zero => intro x h; rw [runWhile] at h; cases h
  | succ n ih =>
    intro x h
    rw [runWhile] at h
    rcases before_run P n with hb | hb <;> rw [hb] at h
    · cases h
    · simp only [if_true] at h
      rcases after_run P n with ha | ha <;> rw [ha] at h
      · cases h
      · exact ih x h

theorem deadLoop_diverges : ∀ n r, Sem.run progLoop "f" [tt] n ≠ .ok r := by
  intro n r h
  unfold Sem.run at h
  rcases n with _ | n
  · rw [callFunc] at h; cases h
  rw [callFunc] at h
  simp only [findFunc, progLoop, List.find?_cons, decide_true] at h
  rcases n with _ | n
  · rw [runRegion] at h; cases h
  rw [runRegion] at h
  simp only [Region.blocks, Block.id] at h
  rcases n with _ | n
  · rw [runBlock] at h; cases h
  rw [runBlock] at h
  simp only [findBlock, Region.blocks, List.find?_cons, Block.id, decide_true, Block.args, Block.ops] at h
  have hb : St.bind { env := [], eff := ({} : St).eff, sym := [], mem := ({} : St).mem } [(0, Ty.int 1)] [tt]
      = .ok st0 := rfl
  rw [hb] at h
  simp only at h
  rcases n with _ | n
  · rw [runOps] at h; cases h
  rw [runOps] at h
  rcases n with _ | n
  · rw [runOp] at h; cases h
  rw [runOp] at h
  have hg : st0.gets (Op.mk "scf.while" [] [] [] [] [regB, regA]).operands = .ok [] := rfl
  rw [hg] at h
  simp only [Op.name, Op.regions] at h
  cases hw : runWhile n ⟨[⟨"f", some (.mk [.mk 0 [(0, .int 1)] [
    .mk "scf.while" [] [] [] [] [regB, regA],
    .mk "func.return" [] [] [] [] []]])⟩]⟩ st0 regB regA [] with
  | ok x => exact loop_diverges _ n x hw
  | ub w => rw [hw] at h; cases h
  | fuel => rw [hw] at h; cases h
  | err e => rw [hw] at h; cases h

/-- **"the pruned program ends with results only if the original does" is false**: the pass erases an
`scf.while` (`RecursiveMemoryEffect`, nothing observable inside, no results) that never terminates.
All hypotheses hold; the original never ends with results, with any fuel; the pruned program returns. -/
theorem dce_divergence_not_reflected_counterexample :
    cert deadLoop = true ∧ allIds (toT (dceOnceA deadLoop).1) = [0, 4]
      ∧ (∀ n r, Sem.run (toProg deadLoop) "f" [tt] n ≠ .ok r)
      ∧ ∃ r, Sem.run (toProg (dceOnceA deadLoop).1) "f" [tt] 10 = .ok r :=
  ⟨by decide, by decide, fun n r => by rw [toProg_deadLoop]; exact deadLoop_diverges n r, isOk_iff (by decide)⟩

/-- structured nesting and a call:
```
func @ext(i32)
func @g(%0 : i32, %1 : i1, %2 : index) -> i32 {
  %3 = constant 1
  %4 = scf.if %1 -> i32 { %5 = addi %0, %3; %6 = muli %5, %5 /*dead, inside a region*/; yield %5 } else { yield %0 }
  %7 = scf.if %1 -> i32 { %8 = muli %0, %0; yield %8 } else { yield %3 }      /* dead whole operation */
  %9 = constant 0 : index; %10 = constant 1 : index
  %11 = scf.for %12 = %9 to %2 step %10 iter_args(%13 = %4) -> i32 {
    %14 = addi %13, %3; %15 = xori %14, %14 /*dead*/; call @ext(%14); yield %14 }
  return %11 }
``` -/
def nested : AT := modul
  (.op (hFunc 0) (mFunc "ext") (.region .nil .nil)
  (.op (hFunc 1) (mFunc "g")
    (.region (.block 0 [(0, i32), (1, .int 1), (2, .index)]
      (.op (hPure 2 []) (mConst 3 1 i32) .nil
      (.op (hRec 3 []) ⟨"scf.if", [(4, i32)], [1], [], []⟩
        (.region (.block 1 []
            (.op (hPure 4 [2]) (mBin "arith.addi" 5 0 3) .nil
            (.op (hPure 5 [4, 4]) (mBin "arith.muli" 6 5 5) .nil
            (.op (hTermP 6 [4] []) (mYield [5]) .nil .nil))) .nil)
        (.region (.block 2 [] (.op (hTermP 7 [] []) (mYield [0]) .nil .nil) .nil) .nil))
      (.op (hRec 8 []) ⟨"scf.if", [(7, i32)], [1], [], []⟩
        (.region (.block 3 []
            (.op (hPure 9 []) (mBin "arith.muli" 8 0 0) .nil
            (.op (hTermP 10 [9] []) (mYield [8]) .nil .nil)) .nil)
        (.region (.block 4 [] (.op (hTermP 11 [2] []) (mYield [3]) .nil .nil) .nil) .nil))
      (.op (hPure 12 []) (mConst 9 0 .index) .nil
      (.op (hPure 13 []) (mConst 10 1 .index) .nil
      (.op (hRec 14 [12, 13, 3]) ⟨"scf.for", [(11, i32)], [9, 2, 10, 4], [], []⟩
        (.region (.block 5 [(12, .index), (13, i32)]
            (.op (hPure 15 [2]) (mBin "arith.addi" 14 13 3) .nil
            (.op (hPure 16 [15, 15]) (mBin "arith.xori" 15 14 14) .nil
            (.op (hUnk 17 [15]) ⟨"func.call", [], [14], [("callee", .str "ext")], []⟩ .nil
            (.op (hTermP 18 [15] []) (mYield [14]) .nil .nil)))) .nil) .nil)
      (.op (hTermU 19 [14]) (mRet [11]) .nil .nil))))))) .nil) .nil)
  .nil))

example : cert nested = true := by decide
example : allIds (toT (dceOnceA nested).1) = [0, 1, 2, 3, 4, 6, 7, 12, 13, 14, 15, 17, 18, 19] := by decide
example : okI32 (Sem.run (toProg nested) "g" [.int 32 5#32, tt, .int 64 3#64] 100) 9 3 = true := by
  decide +kernel
example : okI32 (Sem.run (toProg (dceOnceA nested).1) "g" [.int 32 5#32, tt, .int 64 3#64] 100) 9 3 = true := by
  decide +kernel

/-- a CFG region with block arguments and an unreachable block:
```
func @h(%0 : i32, %1 : i1) -> i32 {
  ^0: %2 = constant 7; cf.cond_br %1, ^1(%0), ^2
  ^1(%3 : i32): %4 = addi %3, %3 /*dead*/; return %3
  ^2: %5 = addi %2, %0; cf.br ^1(%5)
  ^3: %6 = muli %0, %0; cf.br ^1(%6)          /* unreachable */ }
``` -/
def cfg : AT := modul
  (.op (hFunc 0) (mFunc "h")
    (.region
      (.block 0 [(0, i32), (1, .int 1)]
        (.op (hPure 1 []) (mConst 2 7 i32) .nil
        (.op ⟨2, [], true, false, none, false, [1, 2]⟩ ⟨"cf.cond_br", [], [1], [], [(1, [0]), (2, [])]⟩ .nil .nil))
      (.block 1 [(3, i32)]
        (.op (hPure 3 []) (mBin "arith.addi" 4 3 3) .nil
        (.op (hTermU 4 []) (mRet [3]) .nil .nil))
      (.block 2 []
        (.op (hPure 5 [1]) (mBin "arith.addi" 5 2 0) .nil
        (.op ⟨6, [5], true, false, none, false, [1]⟩ ⟨"cf.br", [], [], [], [(1, [5])]⟩ .nil .nil))
      (.block 3 []
        (.op (hPure 7 []) (mBin "arith.muli" 6 0 0) .nil
        (.op ⟨8, [7], true, false, none, false, [1]⟩ ⟨"cf.br", [], [], [], [(1, [6])]⟩ .nil .nil))
      .nil)))) .nil) .nil)

example : cert cfg = true := by decide
example : allIds (toT (dceOnceA cfg).1) = [0, 1, 2, 4, 5, 6] := by decide
example : okI32 (Sem.run (toProg cfg) "h" [.int 32 5#32, ff] 50) 12 0 = true := by decide
example : okI32 (Sem.run (toProg (dceOnceA cfg).1) "h" [.int 32 5#32, ff] 50) 12 0 = true := by decide
example : okI32 (Sem.run (toProg (dceOnceA cfg).1) "h" [.int 32 5#32, tt] 50) 5 0 = true := by decide

/-- the hypotheses are not vacuous the other way either: a module whose `func.return` reads a value
defined in an unreachable block (invalid IR: the definition does not dominate the use) fails `cert` -/
def badScope : AT := modul
  (.op (hFunc 0) (mFunc "h")
    (.region
      (.block 0 [(0, i32)] (.op (hTermU 1 [2]) (mRet [1]) .nil .nil)
      (.block 1 [] (.op (hPure 2 []) (mConst 1 7 i32) .nil
        (.op ⟨3, [], true, false, none, false, [0]⟩ ⟨"cf.br", [], [], [], [(0, [1])]⟩ .nil .nil)) .nil)) .nil) .nil)

example : cert badScope = false := by decide

end Demo

end Xdsl.DCEM
