import XdslProofs.Lemmas.IRStepAll
import XdslProofs.Lemmas.IRStream
import XdslModel.IRPartial
/-!
# C01 — IR edits keep the op/block/region tree and use-def chains consistent

"After any sequence of successful IR edits … every operation, block and region is found exactly
once in its container in both forward and backward order and points back to that container. Every
value's use list and every block's predecessor list contains exactly the (user, position) pairs
that appear in operand and successor lists, and argument/result positions match their index in
their owner."

Model: `XdslModel/DLL.lean` (one generic intrusive doubly-linked-list library), `XdslModel/IRStore.lean`
(the store and every public mutator as pointer updates), `XdslModel/IRApi.lean` (the `Call` language
of histories).  Lemmas: `XdslProofs/Lemmas/{DLL,IRStore,IRUses,IRStep,IRSubtree,IRErase,IRStepAll}.lean`.

Part 1 — the list library, proved completely: every primitive preserves the representation
invariant `DLL.WF` and refines the corresponding operation on abstract lists.
Part 1b — collection arguments (`Block | Iterable[Block]`) are traversed once: the hand-written
single-pass loops of `Region.add_block` / `Region.insert_block_before` (`XdslModel/DLLStream.lean`)
agree on every node and container with the one-block-at-a-time model functions that the harness
compares the real methods with, for every argument form (list, tuple, generator, iterator, …).
Part 2 — what the store invariant `Inv` says (the property's sentence, clause by clause).
Part 3 — `Inv` is preserved by the calls in `covered` (`inv_step_partial`, `inv_history_partial`:
the 45 non-erasing call kinds, unconditionally).
Part 4 — the 13 erasing call kinds: the subtree walk of `drop_all_references` from a detached object
terminates, is duplicate-free and parent-closed (`erase_walk`), dropping it preserves `Inv`
(`inv_dropTree`), hence `inv_step` / `inv_history` over all 58 call kinds.  The only hypothesis is the
contract of `Operation.drop_all_references` (called on a detached operation; without it the property
is false, `dropAllReferences_attached_counterexample`).  No acyclicity of the parent relation is
needed: an object has one parent and a detached root has none, so the walk below a detached root
cannot reach a cycle.
-/
namespace Xdsl.C01
open Xdsl Xdsl.DLL Xdsl.IR

/-! ## Part 1 — the generic doubly-linked-list library -/

/-- "found … in both forward and backward order": under the representation invariant the backward
traversal of every container is the reverse of its forward traversal, and the traversal is the
abstract list. -/
theorem dll_forward_backward {s : L} {f : Nat → List Nat} (h : WF s f) (c : Nat) :
    s.toList c = f c ∧ s.toListBack c = (s.toList c).reverse :=
  ⟨h.toList_eq c, h.toListBack_eq_reverse c⟩

/-- "found exactly once … and points back to that container": no duplicates, no node in two
containers, membership = parent pointer, and nodes outside every list have null links. -/
theorem dll_exactly_once {s : L} {f : Nat → List Nat} (h : WF s f) :
    (∀ c, (s.toList c).Nodup) ∧
    (∀ c n, n ∈ s.toList c ↔ (s.nd n).parent = some c) ∧
    (∀ n, (s.nd n).parent = none → s.nd n = {}) := by
  refine ⟨h.nodup_toList, fun c n => ?_, fun n => h.nd_of_not_mem⟩
  rw [h.toList_eq]; exact h.mem_iff_parent c n

/-- `Block.insert_op_before` / `Region.insert_block_before` on the list level:
`toList (insertBefore s c ex new) = List-insert-before (toList s) ex new`. -/
theorem dll_insertBefore {s : L} {f : Nat → List Nat} (h : WF s f) {c ex new : Nat}
    (hex : (s.nd ex).parent = some c) (hnew : (s.nd new).parent = none) :
    (∃ f', WF (s.insertBefore c ex new) f') ∧
    (s.insertBefore c ex new).toList c = insBefore (s.toList c) ex new ∧
    ∀ d, d ≠ c → (s.insertBefore c ex new).toList d = s.toList d := by
  have hw := h.insertBefore ((h.mem_iff_parent c ex).mpr hex) (h.not_mem_of_parent_none hnew)
  refine ⟨⟨_, hw⟩, ?_, fun d hd => ?_⟩
  · rw [hw.toList_eq, h.toList_eq, Function.update_self]
  · rw [hw.toList_eq, h.toList_eq, Function.update_of_ne hd]

/-- `Block.insert_op_after` on the list level -/
theorem dll_insertAfter {s : L} {f : Nat → List Nat} (h : WF s f) {c ex new : Nat}
    (hex : (s.nd ex).parent = some c) (hnew : (s.nd new).parent = none) :
    (∃ f', WF (s.insertAfter c ex new) f') ∧
    (s.insertAfter c ex new).toList c = insAfter (s.toList c) ex new ∧
    ∀ d, d ≠ c → (s.insertAfter c ex new).toList d = s.toList d := by
  have hw := h.insertAfter ((h.mem_iff_parent c ex).mpr hex) (h.not_mem_of_parent_none hnew)
  refine ⟨⟨_, hw⟩, ?_, fun d hd => ?_⟩
  · rw [hw.toList_eq, h.toList_eq, Function.update_self]
  · rw [hw.toList_eq, h.toList_eq, Function.update_of_ne hd]

/-- `Block.add_op` / `Region.add_block`: append -/
theorem dll_pushBack {s : L} {f : Nat → List Nat} (h : WF s f) {c new : Nat}
    (hnew : (s.nd new).parent = none) :
    (∃ f', WF (s.pushBack c new) f') ∧ (s.pushBack c new).toList c = s.toList c ++ [new] ∧
    ∀ d, d ≠ c → (s.pushBack c new).toList d = s.toList d := by
  have hw := h.pushBack (c := c) (h.not_mem_of_parent_none hnew)
  refine ⟨⟨_, hw⟩, ?_, fun d hd => ?_⟩
  · rw [hw.toList_eq, h.toList_eq, Function.update_self]
  · rw [hw.toList_eq, h.toList_eq, Function.update_of_ne hd]

/-- `IRWithUses.add_use`: prepend -/
theorem dll_pushFront {s : L} {f : Nat → List Nat} (h : WF s f) {c new : Nat}
    (hnew : (s.nd new).parent = none) :
    (∃ f', WF (s.pushFront c new) f') ∧ (s.pushFront c new).toList c = new :: s.toList c ∧
    ∀ d, d ≠ c → (s.pushFront c new).toList d = s.toList d := by
  have hw := h.pushFront (c := c) (h.not_mem_of_parent_none hnew)
  refine ⟨⟨_, hw⟩, ?_, fun d hd => ?_⟩
  · rw [hw.toList_eq, h.toList_eq, Function.update_self]
  · rw [hw.toList_eq, h.toList_eq, Function.update_of_ne hd]

/-- `Block.detach_op` / `Region.detach_block` / `IRWithUses.remove_use`: erase, and the removed
node ends with null links -/
theorem dll_remove {s : L} {f : Nat → List Nat} (h : WF s f) {c n : Nat}
    (hn : (s.nd n).parent = some c) :
    (∃ f', WF (s.remove c n) f') ∧ (s.remove c n).toList c = (s.toList c).erase n ∧
    (∀ d, d ≠ c → (s.remove c n).toList d = s.toList d) ∧ (s.remove c n).nd n = {} := by
  have hw := h.remove ((h.mem_iff_parent c n).mpr hn)
  refine ⟨⟨_, hw⟩, ?_, fun d hd => ?_, by simp [L.remove]⟩
  · rw [hw.toList_eq, h.toList_eq, Function.update_self]
  · rw [hw.toList_eq, h.toList_eq, Function.update_of_ne hd]

/-- `Block.split_before`: the list of `c` is cut before `n`; the suffix becomes the list of the
(empty) container `c'` -/
theorem dll_splitBefore {s : L} {f : Nat → List Nat} (h : WF s f) {c n c' : Nat} {a b : List Nat}
    (hab : s.toList c = a ++ n :: b) (hc' : s.toList c' = []) (hcc : c ≠ c') :
    (∃ f', WF (s.splitBefore c n c') f') ∧ (s.splitBefore c n c').toList c = a ∧
    (s.splitBefore c n c').toList c' = n :: b ∧
    ∀ d, d ≠ c → d ≠ c' → (s.splitBefore c n c').toList d = s.toList d := by
  rw [h.toList_eq] at hab hc'
  have hw := h.splitBefore hab hc' hcc
  refine ⟨⟨_, hw⟩, ?_, ?_, fun d h1 h2 => ?_⟩
  · rw [hw.toList_eq, Function.update_of_ne hcc, Function.update_self]
  · rw [hw.toList_eq, Function.update_self]
  · rw [hw.toList_eq, h.toList_eq, Function.update_of_ne h2, Function.update_of_ne h1]

/-- `Region.move_blocks`: the whole list of `src` is appended to `dst` -/
theorem dll_spliceAllBack {s : L} {f : Nat → List Nat} (h : WF s f) {src dst : Nat} (hsd : src ≠ dst) :
    (∃ f', WF (s.spliceAllBack src dst) f') ∧ (s.spliceAllBack src dst).toList src = [] ∧
    (s.spliceAllBack src dst).toList dst = s.toList dst ++ s.toList src ∧
    ∀ d, d ≠ src → d ≠ dst → (s.spliceAllBack src dst).toList d = s.toList d := by
  have hw := h.spliceAllBack hsd
  refine ⟨⟨_, hw⟩, ?_, ?_, fun d h1 h2 => ?_⟩
  · rw [hw.toList_eq, Function.update_of_ne hsd, Function.update_self]
  · rw [hw.toList_eq, h.toList_eq, h.toList_eq, Function.update_self]
  · rw [hw.toList_eq, h.toList_eq, Function.update_of_ne h2, Function.update_of_ne h1]

/-- `Region.move_blocks_before`: the whole list of `src` is put before `t` in `dst` -/
theorem dll_spliceAllBefore {s : L} {f : Nat → List Nat} (h : WF s f) {src dst t : Nat} {a b : List Nat}
    (hsd : src ≠ dst) (hab : s.toList dst = a ++ t :: b) :
    (∃ f', WF (s.spliceAllBefore src dst t) f') ∧ (s.spliceAllBefore src dst t).toList src = [] ∧
    (s.spliceAllBefore src dst t).toList dst = a ++ (s.toList src ++ t :: b) ∧
    ∀ d, d ≠ src → d ≠ dst → (s.spliceAllBefore src dst t).toList d = s.toList d := by
  rw [h.toList_eq] at hab
  have hw := h.spliceAllBefore hsd hab
  refine ⟨⟨_, hw⟩, ?_, ?_, fun d h1 h2 => ?_⟩
  · rw [hw.toList_eq, Function.update_of_ne hsd, Function.update_self]
  · rw [hw.toList_eq, h.toList_eq, Function.update_self]
  · rw [hw.toList_eq, h.toList_eq, Function.update_of_ne h2, Function.update_of_ne h1]

/-- non-vacuity: a concrete pointer structure built by the primitives, traversed both ways -/
example :
    let s := ((((({} : L).pushBack 0 1).pushBack 0 2).insertBefore 0 2 3).pushFront 0 4).remove 0 1
    s.toList 0 = [4, 3, 2] ∧ s.toListBack 0 = [2, 3, 4] ∧ s.nd 1 = {} := by decide

example : ∃ f, WF ((({} : L).pushBack 0 1).pushBack 0 2) f :=
  ⟨_, (wf_empty.pushBack (c := 0) (new := 1) (by simp)).pushBack (c := 0) (new := 2) (by
    intro d; by_cases h : d = 0 <;> simp [h])⟩

/-! ## Part 1b — a collection argument is traversed exactly once

`Region.add_block`, `Region.insert_block_before` (and through them `insert_block_after`,
`insert_block`, `Region.__init__`, `Rewriter.insert_block`, `Builder.create_block`) accept
`Block | Iterable[Block]`: a list, a tuple, but also a generator or any other one-shot iterator.
The methods therefore consume `iter(blocks)` once with `next`, link every block behind the previous
one and repair the outer link at `StopIteration`.  `XdslModel/DLLStream.lean` has the pointer writes of
exactly that loop; the theorems say that it yields, on every node and container, what inserting the
yielded blocks one at a time yields — the function the real methods are compared with by the harness,
which passes every argument form. -/

/-- `Region.insert_block_before(blocks, t)` on the list level: the blocks are found, in the order
they were yielded, right before `t`; other containers are untouched; the result is well-formed. -/
theorem dll_insertStreamBefore {s : L} {f : Nat → List Nat} (h : WF s f) {c t : Nat} {bs : List Nat}
    (ht : (s.nd t).parent = some c) (hn : bs.Nodup) (hfree : ∀ b ∈ bs, (s.nd b).parent = none) :
    (∃ f', WF (s.insertStreamBefore c t bs) f') ∧
    (s.insertStreamBefore c t bs).toList c = bs.foldl (fun l b => insBefore l t b) (s.toList c) ∧
    (∀ d, d ≠ c → (s.insertStreamBefore c t bs).toList d = s.toList d) ∧
    L.Ext (s.insertStreamBefore c t bs) (bs.foldl (fun s b => s.insertBefore c t b) s) := by
  obtain ⟨hext, hw⟩ := h.insertStreamBefore ((h.mem_iff_parent c t).mpr ht) hn
    (fun b hb => h.not_mem_of_parent_none (hfree b hb))
  refine ⟨⟨_, hw⟩, ?_, fun d hd => ?_, hext⟩
  · rw [hw.toList_eq, h.toList_eq, Function.update_self]
  · rw [hw.toList_eq, h.toList_eq, Function.update_of_ne hd]

/-- `Region.add_block(blocks)` on the list level: the yielded blocks are appended in order -/
theorem dll_appendStream {s : L} {f : Nat → List Nat} (h : WF s f) {c : Nat} {bs : List Nat}
    (hn : bs.Nodup) (hfree : ∀ b ∈ bs, (s.nd b).parent = none) :
    (∃ f', WF (s.appendStream c bs) f') ∧ (s.appendStream c bs).toList c = s.toList c ++ bs ∧
    (∀ d, d ≠ c → (s.appendStream c bs).toList d = s.toList d) ∧
    L.Ext (s.appendStream c bs) (bs.foldl (fun s b => s.pushBack c b) s) := by
  obtain ⟨hext, hw⟩ := h.appendStream (c := c) hn (fun b hb => h.not_mem_of_parent_none (hfree b hb))
  refine ⟨⟨_, hw⟩, ?_, fun d hd => ?_, hext⟩
  · rw [hw.toList_eq, h.toList_eq, Function.update_self]
  · rw [hw.toList_eq, h.toList_eq, Function.update_of_ne hd]

/-- On consistent IR a successful `Region.insert_block_before` (model function `insertBlockBefore`, the
`_attach_block` guard before every block) leaves exactly the block links of the single-pass loop, the
blocks are listed in yield order before `t`, and they were pairwise distinct. -/
theorem insert_block_before_single_pass {s s' : IRStore} (h : Inv s) {r t : Nat} {bs : List Nat}
    (hok : s.insertBlockBefore r bs t = .ok s') :
    L.Ext (s.blockL.insertStreamBefore r t bs) s'.blockL ∧
    s'.blocksOf r = bs.foldl (fun l b => insBefore l t b) (s.blocksOf r) ∧ bs.Nodup :=
  insertBlockBefore_single_pass h hok

/-- the same for `Region.add_block` -/
theorem add_block_single_pass {s s' : IRStore} (h : Inv s) {r : Nat} {bs : List Nat}
    (hok : s.addBlock r bs = .ok s') :
    L.Ext (s.blockL.appendStream r bs) s'.blockL ∧ s'.blocksOf r = s.blocksOf r ++ bs ∧ bs.Nodup :=
  addBlock_single_pass h hok

/-- What a second pass over an exhausted one-shot iterator leaves behind — every block attached
(`_attach_block` sets the parent) but none linked — is not a consistent structure: no family of lists
is represented by it. -/
theorem attach_without_link_counterexample :
    ¬ ∃ f, WF ((({} : L).pushBack 0 1).setParent 5 (some 0)) f := by
  rintro ⟨f, h⟩
  have h5 : 5 ∈ f 0 := (h.mem_iff_parent 0 5).mpr (by decide)
  rw [← h.toList_eq 0] at h5
  revert h5
  decide

/-- non-vacuity: the loops on concrete structures (target first / in the middle; empty / non-empty
region; empty argument) -/
example :
    let s := (({} : L).pushBack 0 1).pushBack 0 2
    (s.insertStreamBefore 0 2 [5, 6]).toList 0 = [1, 5, 6, 2] ∧
    (s.insertStreamBefore 0 2 [5, 6]).toListBack 0 = [2, 6, 5, 1] ∧
    (s.insertStreamBefore 0 1 [5, 6]).toList 0 = [5, 6, 1, 2] ∧
    (s.insertStreamBefore 0 1 [5, 6]).toListBack 0 = [2, 1, 6, 5] ∧
    (s.insertStreamBefore 0 1 []).toList 0 = [1, 2] ∧
    (s.appendStream 0 [5, 6]).toList 0 = [1, 2, 5, 6] ∧
    (s.appendStream 0 [5, 6]).toListBack 0 = [6, 5, 2, 1] ∧
    (({} : L).appendStream 0 [5, 6]).toList 0 = [5, 6] ∧
    (({} : L).appendStream 0 [5, 6]).toListBack 0 = [6, 5] := by decide

/-! ## Part 2 — what the store invariant says -/

/-- "every operation … is found exactly once in its container in both forward and backward order
and points back to that container" -/
theorem ops_exactly_once {s : IRStore} (h : Inv s) (b : Nat) :
    (s.opsOf b).Nodup ∧ s.opL.toListBack b = (s.opsOf b).reverse ∧
    (∀ o, o ∈ s.opsOf b ↔ s.opParent o = some b) ∧
    (∀ o, s.opParent o = none → (s.opL.nd o).next = none ∧ (s.opL.nd o).prev = none) := by
  obtain ⟨a, ha⟩ := h
  have := dll_exactly_once ha.opL
  refine ⟨this.1 b, ha.opL.toListBack_eq_reverse b, this.2.1 b, fun o ho => ?_⟩
  rw [this.2.2 o ho]; exact ⟨rfl, rfl⟩

/-- the same for blocks in regions -/
theorem blocks_exactly_once {s : IRStore} (h : Inv s) (r : Nat) :
    (s.blocksOf r).Nodup ∧ s.blockL.toListBack r = (s.blocksOf r).reverse ∧
    (∀ b, b ∈ s.blocksOf r ↔ s.blockParent b = some r) ∧
    (∀ b, s.blockParent b = none → (s.blockL.nd b).next = none ∧ (s.blockL.nd b).prev = none) := by
  obtain ⟨a, ha⟩ := h
  have := dll_exactly_once ha.blockL
  refine ⟨this.1 r, ha.blockL.toListBack_eq_reverse r, this.2.1 r, fun o ho => ?_⟩
  rw [this.2.2 o ho]; exact ⟨rfl, rfl⟩

/-- the same for regions in operations (a tuple: listed once, and listed iff it points back) -/
theorem regions_exactly_once {s : IRStore} (h : Inv s) {o : Nat} {d : OpData}
    (hd : AL.get s.ops o = some d) :
    d.regions.Nodup ∧ ∀ r, r ∈ d.regions ↔ s.regionParent r = some o := by
  obtain ⟨a, ha⟩ := h
  refine ⟨(ha.regions o d hd).1, fun r => ⟨(ha.regions o d hd).2 r, fun hp => ?_⟩⟩
  obtain ⟨d', hd', hr⟩ := ha.regionParent r o hp
  rw [hd] at hd'; cases hd'; exact hr

/-- "Every value's use list … contains exactly the (user, position) pairs that appear in operand
… lists": a pair is in the use list iff that operand position holds the value, and no pair occurs
twice. -/
theorem uses_exact {s : IRStore} (h : Inv s) (v : Nat) :
    ((s.vuseL.toList v).map s.use!).Nodup ∧
    ∀ o i, (o, i) ∈ (s.vuseL.toList v).map s.use! ↔
      ∃ d, AL.get s.ops o = some d ∧ d.operands[i]? = some v := by
  obtain ⟨a, ha⟩ := h
  rw [ha.vuseL.toList_eq]
  have U := ha.operandUses
  constructor
  · refine (List.nodup_map_iff_inj_on (ha.vuseL.rep v).nodup).mpr fun u hu u' hu' e => ?_
    obtain ⟨d, hd, h1, _⟩ := U.bwd v u hu
    obtain ⟨d', hd', h1', _⟩ := U.bwd v u' hu'
    rw [e] at hd h1
    rw [hd] at hd'; cases hd'
    rw [h1] at h1'; cases h1'; rfl
  · intro o i
    constructor
    · intro hm
      obtain ⟨u, hu, e⟩ := List.mem_map.mp hm
      obtain ⟨d, hd, _, h2⟩ := U.bwd v u hu
      rw [e] at hd h2
      exact ⟨d, hd, h2⟩
    · rintro ⟨d, hd, hv⟩
      have hlt : i < d.operandUses.length := by
        rw [U.len o d hd]; exact (List.getElem?_eq_some_iff.mp hv).1
      obtain ⟨e, hu⟩ := U.fwd o d i _ v hd (List.getElem?_eq_getElem hlt) hv
      exact List.mem_map.mpr ⟨_, hu, e⟩

/-- "… and every block's predecessor list contains exactly the (user, position) pairs that appear in
… successor lists" -/
theorem block_uses_exact {s : IRStore} (h : Inv s) (b : Nat) :
    ((s.buseL.toList b).map s.use!).Nodup ∧
    ∀ o i, (o, i) ∈ (s.buseL.toList b).map s.use! ↔
      ∃ d, AL.get s.ops o = some d ∧ d.successors[i]? = some b := by
  obtain ⟨a, ha⟩ := h
  rw [ha.buseL.toList_eq]
  have U := ha.successorUses
  constructor
  · refine (List.nodup_map_iff_inj_on (ha.buseL.rep b).nodup).mpr fun u hu u' hu' e => ?_
    obtain ⟨d, hd, h1, _⟩ := U.bwd b u hu
    obtain ⟨d', hd', h1', _⟩ := U.bwd b u' hu'
    rw [e] at hd h1
    rw [hd] at hd'; cases hd'
    rw [h1] at h1'; cases h1'; rfl
  · intro o i
    constructor
    · intro hm
      obtain ⟨u, hu, e⟩ := List.mem_map.mp hm
      obtain ⟨d, hd, _, h2⟩ := U.bwd b u hu
      rw [e] at hd h2
      exact ⟨d, hd, h2⟩
    · rintro ⟨d, hd, hv⟩
      have hlt : i < d.successorUses.length := by
        rw [U.len o d hd]; exact (List.getElem?_eq_some_iff.mp hv).1
      obtain ⟨e, hu⟩ := U.fwd o d i _ b hd (List.getElem?_eq_getElem hlt) hv
      exact List.mem_map.mpr ⟨_, hu, e⟩

/-- "argument/result positions match their index in their owner" -/
theorem indices_match {s : IRStore} (h : Inv s) :
    (∀ o d i v, AL.get s.ops o = some d → d.results[i]? = some v →
      (s.val! v).index = i ∧ (s.val! v).owner = o ∧ (s.val! v).kind = .result) ∧
    (∀ b d i v, AL.get s.blocks b = some d → d.args[i]? = some v →
      (s.val! v).index = i ∧ (s.val! v).owner = b ∧ (s.val! v).kind = .arg) := by
  obtain ⟨a, ha⟩ := h
  constructor
  · intro o d i v hd hv
    simp [IRStore.val!, ha.results o d i v hd hv]
  · intro b d i v hd hv
    simp [IRStore.val!, ha.args b d i v hd hv]

/-! ## Part 3 — preservation -/

/-- the empty universe (where every history of the harness starts) is consistent -/
theorem inv_empty : Inv {} := ⟨_, invA_empty⟩

/-- **One step.**  A successful call among the `covered` ones preserves the invariant.
Covered (45 of the 58 call kinds of the harness: everything except the erasure of operations, blocks
and regions): `new_op, new_block, new_region`; every `Block`
list method (`insert_op_before/after, add_op, add_ops, insert_ops_before/after, detach_op,
split_before`) and `Operation.detach`; every `Region` list method (`add_block,
insert_block_before/after, insert_block, detach_block` by block and by index, `move_blocks,
move_blocks_before`); `op.operands[i] = v`, `op.operands = […]`, `op.successors[i] = b`,
`op.successors = […]`, `Operation.add_region`, `Operation.detach_region` (by region and by index),
`Block.insert_arg`, `Block.erase_arg` (safe and with an `ErasedSSAValue`),
`SSAValue.replace_all_uses_with/replace_uses_with_if`;
`Rewriter.insert_op/insert_block/inline_region/move_region_contents_to_new_regions/
replace_value_with_new_type`;
`PatternRewriter.insert/inline_region/move_region_contents_to_new_regions/replace_uses_with_if/
insert_block_argument/erase_block_argument/replace_all_uses_with/replace_value_with_new_type` and
`Builder.create_block`.

The remaining 13 call kinds (the erasure of operations, blocks and regions: `erase_op, block_erase,
erase_block, erase_block_idx, region_erase, op_erase, drop_all_references, rw_erase_op, rw_replace_op,
rw_inline_block, pr_erase, pr_replace, pr_inline_block`) are covered by `inv_step` in Part 4; this
theorem is kept because it needs no contract hypothesis. -/
theorem inv_step_partial {s s' : IRStore} {c : Call} (h : Inv s) (hc : covered c = true)
    (hok : s.exec c = .ok s') : Inv s' := by
  unfold IRStore.exec at hok
  by_cases href : s.refsOk c = true
  · simp only [href, if_true] at hok; exact inv_api_covered h c hc href hok
  · simp [href] at hok

/-- **All histories** (of covered calls): "After any sequence of successful IR edits …" with
"calls that raise are skipped" (`IRStore.run` keeps the state when a call returns an error). -/
theorem inv_history_partial {s : IRStore} (h : Inv s) (cs : List Call)
    (hc : ∀ c ∈ cs, covered c = true) : Inv (s.run cs) := by
  unfold IRStore.run
  induction cs generalizing s with
  | nil => exact h
  | cons c r ih =>
    simp only [List.foldl_cons]
    apply ih _ (fun c' hc' => hc c' (List.mem_cons_of_mem _ hc'))
    cases hx : s.exec c with
    | ok s' => exact inv_step_partial h (hc c List.mem_cons_self) hx
    | error _ => exact h

/-- non-vacuity: a history from the empty universe that creates blocks with arguments, operations
with results, operands, successors and a nested region, moves things around, and retargets
operands (incl. a negative index) — all calls succeed, all are covered, so `Inv` holds at the end;
and what the final store shows. -/
def demo : List Call := [
  .newBlock 0 [0] [], .newBlock 1 [] [],
  .newOp 0 0 [1, 2] [0] [] [], .newOp 1 0 [] [1, 2] [] [],
  .addOps 0 [0, 1],
  .newOp 2 1 [] [2, 1] [1, 0] [], .addOp 1 2,
  .newRegion 0 [0, 1],
  .newOp 3 0 [3] [] [] [0],
  .newOp 4 0 [4] [3] [] [],
  .insertOpBefore 0 4 1,
  .setOperand 1 (-1) 4,
  .replaceAllUsesWith 1 0,
  .splitBefore 0 1 2 [5],
  .setSuccessor 2 (-1) 2,
  .opDetach 4,
  .newRegion 1 [],
  .moveBlocks 0 1 ]

example : Inv (IRStore.run {} demo) := inv_history_partial inv_empty demo (by decide)

example :
    let s := IRStore.run {} demo
    s.blocksOf 1 = [0, 2, 1] ∧ s.blockL.toListBack 1 = [1, 2, 0] ∧ s.opsOf 0 = [0] ∧ s.opsOf 2 = [1] ∧
    s.opParent 4 = none ∧ (s.op! 1).operands = [0, 4] ∧ (s.op! 2).operands = [2, 0] ∧ (s.op! 2).successors = [1, 2] ∧
    (s.vuseL.toList 0).map s.use! = [(1, 0), (2, 1), (0, 0)] ∧ (s.buseL.toList 2).map s.use! = [(2, 1)] := by
  decide +kernel

/-! ## Part 3b — the state a raising multi-element call leaves behind

"calls that raise are skipped": skipping does not undo.  `Block.add_ops`, `Block.insert_ops_before`,
`Region.add_block` run one step per element; when a later element is rejected the elements before it
stay inserted, and that state (`XdslModel/IRPartial.lean`: `foldLeft`) is what later calls work on.
It is consistent, and it is the state of the successful call when no step raises. -/

/-- an invariant of every successful step holds of the state left behind, raising or not -/
theorem foldLeft_inv {α : Type} (P : IRStore → Prop) (f : IRStore → α → R) (l : List α)
    (step : ∀ s x s', x ∈ l → P s → f s x = .ok s' → P s') : ∀ s, P s → P (IRStore.foldLeft f s l) := by
  induction l with
  | nil => intro s hp; exact hp
  | cons x r ih =>
    intro s hp
    unfold IRStore.foldLeft
    cases hx : f s x with
    | error e => exact hp
    | ok s' =>
      exact ih (fun t y t' hy => step t y t' (List.mem_cons_of_mem _ hy)) s'
        (step s x s' (List.mem_cons_self ..) hp hx)

/-- when no step raises, the state left behind is the result of the call -/
theorem foldLeft_of_ok {α : Type} (f : IRStore → α → R) (l : List α) :
    ∀ s s', l.foldlM f s = .ok s' → IRStore.foldLeft f s l = s' := by
  induction l with
  | nil => intro s s' h; simp [List.foldlM] at h; exact h
  | cons x r ih =>
    intro s s' h
    unfold IRStore.foldLeft
    cases hx : f s x with
    | error e => simp [List.foldlM, hx] at h
    | ok t => simp [List.foldlM, hx] at h; exact ih t s' h

/-- `Block.add_ops(ops)` that raises (or not) leaves consistent IR: the ops before the rejected one
are appended, in both directions. -/
theorem add_ops_raising_state_inv {s : IRStore} (h : Inv s) {b : Nat} {ops : List Nat}
    (hr : ∀ o ∈ ops, regO s o) (hb : regB s b) : Inv (s.addOpsLeft b ops) :=
  (foldLeft_inv (fun t => Inv t ∧ Same s t) _ ops
    (fun t x t' hx hp ht => by
      obtain ⟨h1, h2⟩ := hp.1.addOp (hp.2.regO (hr x hx)) (hp.2.regB hb) ht
      exact ⟨h1, hp.2.trans h2⟩) s ⟨h, Same.refl s⟩).1

/-- the same for `Block.insert_ops_before(ops, existing_op)` -/
theorem insert_ops_before_raising_state_inv {s : IRStore} (h : Inv s) {b ex : Nat} {ops : List Nat}
    (hr : ∀ o ∈ ops, regO s o) : Inv (s.insertOpsBeforeLeft b ops ex) :=
  (foldLeft_inv (fun t => Inv t ∧ Same s t) _ ops
    (fun t x t' hx hp ht => by
      obtain ⟨h1, h2⟩ := hp.1.insertOpBefore (hp.2.regO (hr x hx)) ht
      exact ⟨h1, hp.2.trans h2⟩) s ⟨h, Same.refl s⟩).1

/-- the same for `Region.add_block(blocks)` (with 'fix: Region.add_block / insert_block_before repair
the outer link when a later block is rejected': the blocks before the rejected one stay appended) -/
theorem add_block_raising_state_inv {s : IRStore} (h : Inv s) {r : Nat} {bs : List Nat}
    (hbs : ∀ b ∈ bs, regB s b) (hr : regR s r) : Inv (s.addBlockLeft r bs) :=
  (foldLeft_inv (fun t => Inv t ∧ Same s t) _ bs
    (fun t x t' hx hp ht => by
      obtain ⟨h1, h2⟩ := hp.1.addBlock (bs := [x]) (fun b hb => by
        simp only [List.mem_singleton] at hb; exact hb ▸ hp.2.regB (hbs x hx)) (hp.2.regR hr) ht
      exact ⟨h1, hp.2.trans h2⟩) s ⟨h, Same.refl s⟩).1

/-- a successful `add_ops` is the state left behind -/
theorem add_ops_left_of_ok {s s' : IRStore} {b : Nat} {ops : List Nat} (hok : s.addOps b ops = .ok s') :
    s.addOpsLeft b ops = s' := foldLeft_of_ok _ ops s s' hok

/-! ## Part 4 — erasure, and all 58 call kinds -/

/-- **The subtree walk of `drop_all_references`.**  From a detached, registered object `root` the
fuel-bounded walk `subtreeOf` (fuel `3 · size`) does not run out of fuel and returns a list `T`
that is duplicate-free, contains `root`, consists of registered objects, and is parent-closed both
ways: an object with a parent is in `T` iff its parent is (so `T` is exactly the set of objects
below `root`).  No acyclicity assumption: cycles elsewhere in the store are out of reach of a
detached root. -/
theorem erase_walk {s : IRStore} (h : Inv s) {root : Ref} (hroot : s.parentRef root = none)
    (hreg : Reg s root) :
    (s.subtreeOf root).Nodup ∧ root ∈ s.subtreeOf root ∧ (∀ y ∈ s.subtreeOf root, Reg s y) ∧
    ∀ c p, s.parentRef c = some p → (c ∈ s.subtreeOf root ↔ p ∈ s.subtreeOf root) := by
  obtain ⟨a, ha⟩ := h
  have T := subtreeOf_spec ha hroot hreg
  exact ⟨T.nodup, T.root, T.reg, T.closed⟩

/-- `drop_all_references` over the subtree of a detached object preserves the invariant (the uses
held by the erased operations leave the use lists of all values and blocks — inside and outside
the subtree —, the link fields of everything in the subtree are nulled). -/
theorem inv_dropTree {s : IRStore} (h : Inv s) {root : Ref} (hroot : s.parentRef root = none)
    (hreg : Reg s root) : Inv (s.dropTree root) :=
  (h.dropTree hroot hreg).1

/-- what "erasing removes exactly the uses of the erased operations" means for one operation:
after `drop_all_references` of `o` alone, a use is in a value's use list iff it was there before and
is not one of the `Use` objects of `o` (the same holds for block use lists). -/
theorem dropOne_uses {s : IRStore} {a : Abs} (ha : InvA s a) {o : Nat} {d : OpData}
    (hd : AL.get s.ops o = some d) (v u : Nat) :
    u ∈ (s.dropOne (.op o)).vuseL.toList v ↔ u ∈ s.vuseL.toList v ∧ u ∉ d.operandUses := by
  have hop : s.op! o = d := by simp [IRStore.op!, hd]
  have U := ha.operandUses
  obtain ⟨f1, w1, m1⟩ := ha.vuseL.removeAll (d.operands.zip d.operandUses)
    (fun p hp => by
      obtain ⟨i, h1, h2⟩ := mem_zip_iff_getElem?.mp (show (p.1, p.2) ∈ _ from hp)
      exact (U.fwd o d i p.2 p.1 hd h2 h1).2)
    (by rw [zip_map_snd (U.len o d hd)]; exact U.uid_nodup hd)
  rw [zip_map_snd (U.len o d hd)] at m1
  rw [dropOne_op, hop]
  show u ∈ L.toList _ v ↔ _
  rw [w1.toList_eq, ha.vuseL.toList_eq, m1]

/-- **One step, every call kind.**  A successful call preserves the invariant.  `contract s c` is
`true` for every call except `drop_all_references o`, where it says that `o` is detached (the
harness' `contract_ok`; `dropAllReferences_attached_counterexample` shows that it cannot be dropped). -/
theorem inv_step {s s' : IRStore} {c : Call} (h : Inv s) (hcon : contract s c = true)
    (hok : s.exec c = .ok s') : Inv s' := by
  unfold IRStore.exec at hok
  by_cases href : s.refsOk c = true
  · simp only [href, if_true] at hok; exact inv_api_all h c hcon href hok
  · simp [href] at hok

/-- the 57 call kinds other than `drop_all_references`: no hypothesis at all -/
theorem inv_step_unconditional {s s' : IRStore} {c : Call} (h : Inv s)
    (hc : ∀ o, c ≠ .dropAllReferences o) (hok : s.exec c = .ok s') : Inv s' := by
  refine inv_step h ?_ hok
  cases c <;> first | rfl | exact absurd rfl (hc _)

/-- the contract holds at every call of the history, in the state in which the call is made -/
def contracted (s : IRStore) : List Call → Bool
  | [] => true
  | c :: cs => contract s c && contracted (s.run [c]) cs

/-- **All histories, all 58 call kinds**: "After any sequence of successful IR edits …" (calls that
raise are skipped) the store is consistent. -/
theorem inv_history {s : IRStore} (h : Inv s) (cs : List Call) (hc : contracted s cs = true) :
    Inv (s.run cs) := by
  induction cs generalizing s with
  | nil => exact h
  | cons c r ih =>
    simp only [contracted, Bool.and_eq_true] at hc
    have e : s.run (c :: r) = (s.run [c]).run r := rfl
    rw [e]
    refine ih ?_ hc.2
    show Inv (match s.exec c with
      | .ok s' => s'
      | .error _ => s)
    cases hx : s.exec c with
    | ok s' => exact inv_step h hc.1 hx
    | error _ => exact h

/-- histories without `Operation.drop_all_references` need no hypothesis -/
theorem inv_history_unconditional {s : IRStore} (h : Inv s) (cs : List Call)
    (hc : ∀ c ∈ cs, ∀ o, c ≠ .dropAllReferences o) : Inv (s.run cs) := by
  refine inv_history h cs ?_
  clear h
  induction cs generalizing s with
  | nil => rfl
  | cons c r ih =>
    simp only [contracted, Bool.and_eq_true]
    refine ⟨?_, ih (fun c' hc' => hc c' (List.mem_cons_of_mem _ hc'))⟩
    have := hc c List.mem_cons_self
    cases c <;> first | rfl | exact absurd rfl (this _)

/-- The contract of `inv_step` is necessary: `Operation.drop_all_references` on an operation that
is still attached leaves the block listing an operation whose parent pointer is null (in the model
and in xDSL alike). -/
theorem dropAllReferences_attached_counterexample :
    let cs : List Call := [.newBlock 0 [] [], .newOp 0 0 [] [] [] [], .addOp 0 0, .dropAllReferences 0]
    Inv (IRStore.run {} (cs.take 3)) ∧ ¬ Inv (IRStore.run {} cs) := by
  refine ⟨inv_history inv_empty _ (by decide), fun h => ?_⟩
  have h1 := (ops_exactly_once h 0).2.2.1 0
  have h2 : (0 : Nat) ∈ (IRStore.run {} [.newBlock 0 [] [], .newOp 0 0 [] [] [] [], .addOp 0 0,
    .dropAllReferences 0]).opsOf 0 := by decide
  have h3 : (IRStore.run {} [.newBlock 0 [] [], .newOp 0 0 [] [] [] [], .addOp 0 0,
    .dropAllReferences 0]).opParent 0 = none := by decide
  rw [h1.mp h2] at h3
  cases h3

/-- non-vacuity: a history that erases an operation with a nested region whose result is still used
(`Rewriter.erase_op`, unsafe), replaces an operation (`Rewriter.replace_op`), drops the references
of a detached operation, erases a block out of a region and a whole region — every call succeeds,
the contract holds, so `Inv` holds at the end; and what the final store shows. -/
def demoErase : List Call := [
  .newBlock 0 [0] [],
  .newOp 0 0 [1] [0] [] [],
  .newOp 1 0 [] [1, 0] [] [],
  .newBlock 1 [] [1],
  .newRegion 0 [1],
  .newOp 2 0 [2] [1] [] [0],
  .addOps 0 [0, 2],
  .newOp 3 0 [] [2] [] [],
  .addOp 0 3,
  .rwEraseOp 2 false,
  .newOp 4 0 [3] [] [] [],
  .rwReplaceOp 0 ⟨[4], false⟩ none true,
  .newOp 5 0 [4] [0] [] [],
  .dropAllReferences 5,
  .newBlock 2 [5] [],
  .newOp 6 0 [] [5, 3] [2] [],
  .newBlock 3 [] [6],
  .newRegion 1 [2, 3],
  .eraseBlock 1 3 true,
  .regionErase 1 ]

example : Inv (IRStore.run {} demoErase) := inv_history inv_empty demoErase (by decide +kernel)

example :
    let s := IRStore.run {} demoErase
    s.opsOf 0 = [4, 3] ∧ s.opL.toListBack 0 = [3, 4] ∧ s.blocksOf 1 = [] ∧
    (s.vuseL.toList 0).map s.use! = [] ∧ (s.vuseL.toList 1).map s.use! = [] ∧
    (s.vuseL.toList 3).map s.use! = [] ∧ (s.vuseL.toList (E_BASE + 2)).map s.use! = [(3, 0)] ∧
    (s.buseL.toList 2).map s.use! = [] ∧ s.deadO = [6, 5, 0, 2, 1] ∧ s.deadB = [2, 3, 1] ∧ s.deadR = [1, 0] := by
  decide +kernel

end Xdsl.C01
