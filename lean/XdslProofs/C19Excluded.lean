import XdslProofs.Lemmas.Excluded
import XdslProofs.Lemmas.RegAllocMain
/-!
# C19 — "… pre-assigned and reserved registers are respected …": registers that operations reserve

An operation may declare registers "that should not be used when this operation is present"
(`RegisterAllocatableOperation.iter_excluded_registers`; in xDSL: `riscv_snitch.read` / `write`
reserve the stream registers ft0, ft1, ft2).  `allocate_func` collects them over the whole function
with `all_excluded_registers(func.body)` and removes them from the register stack.

* `mem_allExcluded_iff`: the collected set contains a register **iff some operation at some nesting
  depth** (the function body, a loop body, a loop body inside a loop body, …) declares it.
* `excluded_respected_partial` / `excluded_never_assigned`: the model of the block-naive allocator
  started on the stack without the collected registers never hands one of them out — a value that
  was not pre-assigned ends up in such a register only when in/out ties with pre-assigned values
  force it, and never on a target without in/out pairs (RISC-V).
-/
namespace Xdsl.RegAlloc
open Xdsl.RegMachine

/-! ## `all_excluded_registers` collects over every nesting depth -/

/-- `region.walk()` visits exactly the operations of the region and everything nested in them -/
theorem mem_walkOps_iff (ops : List XOp) (x : XOp) :
    x ∈ walkOps ops ↔ ∃ o ∈ ops, Within o x :=
  ⟨within_of_mem_walkOps ops x,
   fun ⟨_, ho, hw⟩ => walkOp_sub_walkOps ho x (mem_walkOp_of_within hw)⟩

/-- "the registers that should not be used when this operation is present", for every operation
present in the function: a register is in `all_excluded_registers(func.body)` **iff** an operation
of the body, or an operation nested in one at any depth, declares it. -/
theorem mem_allExcluded_iff (ops : List XOp) (r : Reg) :
    r ∈ allExcluded ops ↔ ∃ o ∈ ops, ∃ x, Within o x ∧ r ∈ x.excl := by
  unfold allExcluded
  rw [mem_foldr_insertReg, List.mem_flatMap]
  constructor
  · rintro ⟨x, hx, hr⟩
    obtain ⟨o, ho, hw⟩ := (mem_walkOps_iff ops x).1 hx
    exact ⟨o, ho, x, hw, hr⟩
  · rintro ⟨o, ho, x, hw, hr⟩
    exact ⟨x, (mem_walkOps_iff ops x).2 ⟨o, ho, hw⟩, hr⟩

/-- in particular a declaration inside a loop body inside a loop body counts -/
theorem allExcluded_nested2 (e1 e2 e3 : List Reg) (k1 k2 k3 : List XOp) (pre post : List XOp) (r : Reg)
    (h1 : XOp.mk e2 k2 ∈ k1) (h2 : XOp.mk e3 k3 ∈ k2) (hr : r ∈ e3) :
    r ∈ allExcluded (pre ++ XOp.mk e1 k1 :: post) :=
  (mem_allExcluded_iff _ r).2
    ⟨.mk e1 k1, by simp, .mk e3 k3, Within.kid h1 (Within.kid h2 (Within.self _)), hr⟩

/-- the result is a set (strictly increasing list) -/
theorem allExcluded_sorted (ops : List XOp) : (allExcluded ops).Pairwise (· < ·) := by
  unfold allExcluded
  generalize (walkOps ops).flatMap XOp.excl = l
  induction l with
  | nil => simp
  | cons y ys ih => exact insertReg_sorted y _ ih

/-- looking only at the operations directly in the body's blocks collects a subset … -/
theorem shallowExcluded_subset (ops : List XOp) : ∀ r ∈ shallowExcluded ops, r ∈ allExcluded ops := by
  intro r hr
  unfold shallowExcluded at hr
  rw [mem_foldr_insertReg, List.mem_flatMap] at hr
  obtain ⟨o, ho, hr⟩ := hr
  exact (mem_allExcluded_iff ops r).2 ⟨o, ho, o, Within.self o, hr⟩

/-- … which is too small as soon as the declaring operation sits in a loop body: the stream read of
`for { read ft0 }` reserves ft0, ft1, ft2 (registers 100, 101, 102 of the protocol). -/
theorem shallowExcluded_misses_nested :
    shallowExcluded [.mk [] [.mk [100, 101, 102] []]] = []
    ∧ allExcluded [.mk [] [.mk [100, 101, 102] []]] = [100, 101, 102] := by
  decide

/-! ## The validator's reading of "reserved registers are respected" -/

/-- what the `validate` command of the check accepts: a value sits in a register that an operation
of the function reserves only if the input pre-assigns that very register to some value (itself, or a
value it is tied to — `validator_sound` covers the ties). -/
theorem exclOk_sound (excl : List Reg) (pre asg : AL ValId Reg) (h : exclOk excl pre asg = true) :
    ∀ v r, (v, r) ∈ asg → r ∈ excl → ∃ w, (w, r) ∈ pre := by
  intro v r hm hex
  unfold exclOk at h
  simp only [List.all_eq_true, Bool.or_eq_true, Bool.not_eq_true', List.any_eq_true, beq_iff_eq] at h
  rcases h (v, r) hm with h | ⟨⟨w, r'⟩, hw, hr⟩
  · simp [hex] at h
  · simp only at hr
    subst hr
    exact ⟨w, hw⟩

/-! ## The allocator never hands out a collected register -/

/-- `exclude_register` of the declared registers after `RegisterStack.get(pool)` = building the
stack from the pool without them -/
theorem initStX_eq (pool excl : List Reg) (pre : AL ValId Reg) (p : Prog) :
    initStX pool excl pre p = initSt (pool.filter fun r => !excl.contains r) pre p := by
  unfold initStX initSt
  simp only
  congr 1
  · exact stack_filter2 _ _ pool
  · rw [List.filter_filter, List.filter_filter]
    apply List.filter_congr
    intro x _
    exact Bool.and_comm _ _

theorem allocateX_eq (c : Cfg) (pool excl : List Reg) (pre : AL ValId Reg) (p : Prog) :
    allocateX c pool excl pre p = allocate c (pool.filter fun r => !excl.contains r) pre p := by
  unfold allocateX allocate
  rw [initStX_eq]

/-- no declared registers: the allocator of `XdslProofs.C19` -/
theorem allocateX_nil (c : Cfg) (pool : List Reg) (pre : AL ValId Reg) (p : Prog) :
    allocateX c pool [] pre p = allocate c pool pre p := by
  rw [allocateX_eq]
  have : (pool.filter fun r => !([] : List Reg).contains r) = pool := by
    induction pool with
    | nil => rfl
    | cons x xs ih => simp
  rw [this]

/-- Where the register of a value comes from (same assumptions as `alloc_no_interference_partial`):
after a successful run of the model allocator every value that was not pre-assigned sits in a
register of the pool that is not pre-assigned in the function, in an infinite register, in `zero`
(constant 0 on RISC-V), or in the register that the in/out ties with pre-assigned values force. -/
theorem alloc_origin_partial (c : Cfg) (pool : List Reg) (pre : AL ValId Reg) (p : Prog)
    (asg : AL ValId Reg) (a0 : ValId → Reg)
    (hios : ∀ o ∈ p.ops, o.ios.length ≤ 1)
    (hzios : c.z = true → ∀ o ∈ p.ops, o.ios = [])
    (hssa : (p.args ++ defsOf p.ops).Nodup)
    (hext0 : ∀ v r, AL.get pre v = some r → a0 v = r)
    (hfeas : interferes c.z a0 p = false)
    (hpool : ∀ r : Nat, r ∈ pool → r < c.infBase ∧ (c.z = true → r ≠ 0))
    (hpreLt : ∀ (v : ValId) (r : Nat), AL.get pre v = some r → r < c.infBase)
    (hbase : c.z = true → 0 < c.infBase)
    (h : allocate c pool pre p = .ok asg) :
    ∀ (v : ValId) (r : Nat), AL.get asg v = some r → AL.get pre v = none →
      (r ∈ pool ∧ r ∉ usedPre pre p) ∨ c.infBase ≤ r ∨ (c.z = true ∧ r = 0 ∧ v ∈ zeroConsts p.ops)
      ∨ (∀ a : ValId → Reg, (∀ v r, AL.get pre v = some r → a v = r) →
          (∀ o ∈ p.ops, ∀ q ∈ o.ios, a q.1 = a q.2) → a v = r) := by
  unfold interferes at hfeas
  have hv0 : validate c.z a0 p = true := by simpa using hfeas
  unfold validate at hv0
  split at hv0
  · exact absurd hv0 (by simp)
  rename_i L0 hL0
  simp only [Bool.and_eq_true, List.all_eq_true, List.contains_eq_mem, decide_eq_true_eq] at hv0
  obtain ⟨⟨hL0sub, hnd0⟩, _⟩ := hv0
  have hL0eq := checkOps_some _ _ _ _ hL0
  have hgood := good_of_check p.ops [] p.rets L0 hL0 (pw_of_nodup_map hL0sub hnd0)
  have hssa' := List.nodup_append.1 hssa
  have hld : ∀ v ∈ liveBefore p.ops p.rets, v ∉ defsOf p.ops := by
    intro v hv hd
    rw [← hL0eq] at hv
    exact hssa'.2.2 v (hL0sub v hv) v hd rfl
  let A0 := pool.filter fun r => !(usedPre pre p).contains r
  let U := valsOf p.ops ++ p.rets
  have hst : Static c pre A0 U := {
    zeroNotAlloc := fun hz hm => (hpool 0 (List.mem_filter.1 hm).1).2 hz rfl
    allocLt := fun r hr => (hpool r (List.mem_filter.1 hr).1).1
    basePos := hbase
    preLt := hpreLt
    usedOut := fun v hv r hr hm => by
      have hused : r ∈ usedPre pre p := by
        simp only [usedPre, List.mem_filterMap]
        exact ⟨v, hv, hr⟩
      have := (List.mem_filter.1 hm).2
      simp [hused] at this }
  unfold allocate at h
  simp only at h
  split at h
  · exact absurd h (by simp)
  rename_i s0 hs0
  split at h
  · exact absurd h (by simp)
  rename_i s1 hs1
  simp only [Except.ok.injEq] at h
  subst h
  have hpwrets : PW c.z a0 p.rets := by
    have key : ∀ (os : List Op) (Z : List ValId), Good c.z a0 Z os p.rets → PW c.z a0 p.rets := by
      intro os
      induction os with
      | nil => intro Z hg; exact hg
      | cons o os ih => intro Z hg; exact ih _ hg.1
    exact key _ _ hgood
  obtain ⟨hinv0, _⟩ := fold_live (Zc := zeroConsts p.ops) (Tie := TiesOn []) hst hext0
    (fun o ho => by simp at ho) hpwrets p.rets _ s0 [] [] hs0
    (inv_init hpreLt)
    (fun v hv => List.mem_append_right _ hv) (fun v hv => hv) (fun w hw => by simp at hw)
    (fun v _ hv => by simp at hv)
  have hinv0' : Inv c pre A0 (zeroConsts p.ops) (TiesOn []) s0 p.rets.reverse p.rets :=
    hinv0.mono (fun v => by simp) (fun v hv => by simpa using hv)
  obtain ⟨V, _, hinv1, _, _⟩ := alloc_ops hst hext0 p.ops [] s0 s1 p.rets.reverse hios hzios
    (fun v hv => List.mem_append_left _ hv) hs1 hinv0' (fun v => by simp) hgood
    (by rw [zeroConsts_eq]; exact zcOk_zfold p.ops [] [] (fun _ h => h) hssa'.2.1)
    hssa'.2.1 hld
  intro v r hv hp
  rcases hinv1.origin v r hv hp with h1 | h1 | h1 | h1
  · left
    have := List.mem_filter.1 h1
    exact ⟨this.1, by simpa using this.2⟩
  · exact Or.inr (Or.inl h1)
  · exact Or.inr (Or.inr (Or.inl h1))
  · exact Or.inr (Or.inr (Or.inr fun a hpre hties => h1 a hpre hties))

/-- "reserved registers are respected" for the model of `allocate_func` (straight-line blocks, hence
`_partial`; the collection over nested regions is `mem_allExcluded_iff`): when allocation succeeds,
a value that the input did not pre-assign sits in a register `r` declared as excluded by some
operation only if the in/out ties with pre-assigned values force it there (every allocation that
keeps the pre-assignment and the ties puts it in `r`) — `pop` never hands `r` out.
`r < c.infBase`: a real register; on RISC-V `zero` is not allocatable in the first place and holds
constant zeros regardless. -/
theorem excluded_respected_partial (c : Cfg) (pool excl : List Reg) (pre : AL ValId Reg) (p : Prog)
    (asg : AL ValId Reg) (a0 : ValId → Reg)
    (hios : ∀ o ∈ p.ops, o.ios.length ≤ 1)
    (hzios : c.z = true → ∀ o ∈ p.ops, o.ios = [])
    (hssa : (p.args ++ defsOf p.ops).Nodup)
    (hext0 : ∀ v r, AL.get pre v = some r → a0 v = r)
    (hfeas : interferes c.z a0 p = false)
    (hpool : ∀ r : Nat, r ∈ pool → r < c.infBase ∧ (c.z = true → r ≠ 0))
    (hpreLt : ∀ (v : ValId) (r : Nat), AL.get pre v = some r → r < c.infBase)
    (hbase : c.z = true → 0 < c.infBase)
    (h : allocateX c pool excl pre p = .ok asg) :
    ∀ (v : ValId) (r : Nat), AL.get asg v = some r → AL.get pre v = none → r ∈ excl →
      r < c.infBase → (c.z = true → r ≠ 0) →
      ∀ a : ValId → Reg, (∀ v r, AL.get pre v = some r → a v = r) →
        (∀ o ∈ p.ops, ∀ q ∈ o.ios, a q.1 = a q.2) → a v = r := by
  rw [allocateX_eq] at h
  intro v r hv hp hex hlt hnz
  have := alloc_origin_partial c _ pre p asg a0 hios hzios hssa hext0 hfeas
    (fun r hr => hpool r (List.mem_filter.1 hr).1) hpreLt hbase h v r hv hp
  rcases this with h1 | h1 | h1 | h1
  · have := (List.mem_filter.1 h1.1).2
    simp [hex] at this
  · omega
  · exact absurd h1.2.1 (hnz h1.1)
  · exact h1

/-- without in/out pairs (all RISC-V instructions; the Snitch stream registers are RISC-V float
registers) nothing can force a value into a declared register: no value that was not pre-assigned
gets one. -/
theorem excluded_never_assigned (c : Cfg) (pool excl : List Reg) (pre : AL ValId Reg) (p : Prog)
    (asg : AL ValId Reg) (a0 : ValId → Reg)
    (hnoio : ∀ o ∈ p.ops, o.ios = [])
    (hssa : (p.args ++ defsOf p.ops).Nodup)
    (hext0 : ∀ v r, AL.get pre v = some r → a0 v = r)
    (hfeas : interferes c.z a0 p = false)
    (hpool : ∀ r : Nat, r ∈ pool → r < c.infBase ∧ (c.z = true → r ≠ 0))
    (hpreLt : ∀ (v : ValId) (r : Nat), AL.get pre v = some r → r < c.infBase)
    (hbase : c.z = true → 0 < c.infBase)
    (h : allocateX c pool excl pre p = .ok asg) :
    ∀ (v : ValId) (r : Nat), AL.get asg v = some r → AL.get pre v = none → r < c.infBase →
      (c.z = true → r ≠ 0) → r ∉ excl := by
  intro v r hv hp hlt hnz hex
  have key := excluded_respected_partial c pool excl pre p asg a0
    (fun o ho => by rw [hnoio o ho]; simp) (fun _ => hnoio) hssa hext0 hfeas hpool hpreLt hbase h
    v r hv hp hex hlt hnz
  -- an allocation that keeps the pre-assignment and puts everything else into `r + 1`
  have := key (fun w => (AL.get pre w).getD (r + 1))
    (fun w r' hw => by simp [hw])
    (fun o ho q hq => by rw [hnoio o ho] at hq; simp at hq)
  simp [hp] at this

/-! Non-vacuity: `exProg` of `XdslProofs.C19` with the pool `t2, t1, t0` where an operation of the
function reserves `t0` (register 5): `t0` is not handed out, the values move to `t1`. -/

example : allocateX { z := true, allowInf := false, infBase := 1000 } [7, 6, 5] [5] [(0, 10), (1, 11)]
    { args := [0, 1],
      ops := [ { zk := 1, code := 3, imm := 0, ins := [], outs := [2], ios := [] },
               { zk := 0, code := 4, imm := 0, ins := [0, 1], outs := [3], ios := [] },
               { zk := 0, code := 5, imm := 0, ins := [3, 2], outs := [4], ios := [] },
               { zk := 0, code := 4, imm := 0, ins := [4, 0], outs := [5], ios := [] } ],
      rets := [5, 1] }
    = .ok [(2, 0), (3, 6), (4, 6), (5, 6), (0, 10), (1, 11)] := by rfl

example : allExcluded [.mk [] [], .mk [] [.mk [] [.mk [102, 100] []], .mk [100, 5] []]] = [5, 100, 102] := by
  decide

end Xdsl.RegAlloc
