import XdslProofs.Lemmas.ScopedDict
/-!
# C12 — property theorems (scoped dictionary part)

"a scoped dictionary resolves every key to the value in the innermost scope that defines it,
consistently for all lookup forms" — for every chain of scopes, every key and every stored value,
including the falsy ones (`none` models Python's `None`, `some 0` models `0`).
-/
namespace Xdsl.ScopedDict

/-- `d[k]` returns the innermost binding, `KeyError` (`none`) iff no scope defines `k`. -/
theorem getitem_eq_lookup (c : Chain) (k : Nat) : getitem c k = lookup c k := by
  induction c with
  | nil => rfl
  | cons s ps ih =>
    simp only [getitem, lookup]
    cases h : AL.get s k <;> simp [ih]

/-- `k in d` iff some scope defines `k`. -/
theorem contains_eq_lookup (c : Chain) (k : Nat) : contains c k = (lookup c k).isSome := by
  induction c with
  | nil => rfl
  | cons s ps ih =>
    simp only [contains, lookup]
    cases h : AL.get s k <;> simp [ih]

/-- `d.get(k, default)` returns the innermost binding — whatever value it holds — and the
default only when no scope defines `k`. -/
theorem get_eq_lookup (c : Chain) (k : Nat) (d : Val) : get c k d = (lookup c k).getD d := by
  induction c with
  | nil => rfl
  | cons s ps ih =>
    simp only [get, lookup]
    cases h : AL.get s k <;> simp [ih]

/-- All three lookup forms agree (the property's "consistently for all lookup forms"). -/
theorem lookup_forms_consistent (c : Chain) (k : Nat) (d : Val) :
    get c k d = (getitem c k).getD d ∧ contains c k = (getitem c k).isSome := by
  rw [get_eq_lookup, getitem_eq_lookup, contains_eq_lookup]; exact ⟨rfl, rfl⟩

/-- Assignment binds in the innermost scope and leaves every other key's resolution unchanged. -/
theorem lookup_after_set (s : Scope) (ps : Chain) (k k' : Nat) (v : Val) :
    lookup (setitem (s :: ps) k v) k' = if k' = k then some v else lookup (s :: ps) k' :=
  lookup_setitem_cons s ps k k' v

/-- Entering a child scope changes nothing until the child binds; leaving restores the parent. -/
theorem lookup_enter (c : Chain) (k : Nat) : lookup ([] :: c) k = lookup c k := by
  simp [lookup]

/-- non-vacuity: a child binding `None` over a parent's `1` — the shadowing-with-falsy case. -/
example : get [[(7, none)], [(7, some 1)]] 7 (some 9) = none
    ∧ getitem [[(7, none)], [(7, some 1)]] 7 = some none
    ∧ contains [[(7, none)], [(7, some 1)]] 7 = true := by decide

/-- Several scopes alive at once (an outer scope may be written while inner ones exist): from
every object `i` of every forest, all lookup forms return the innermost binding of the chain as it
is at the time of the lookup — nothing but the current local scopes of `i` and its ancestors
enters the answer. -/
theorem forest_lookup_forms (f : Forest) (i k : Nat) (d : Val) :
    getitem (chainOf f f.length i) k = lookup (chainOf f f.length i) k
    ∧ contains (chainOf f f.length i) k = (lookup (chainOf f f.length i) k).isSome
    ∧ get (chainOf f f.length i) k d = (lookup (chainOf f f.length i) k).getD d :=
  ⟨getitem_eq_lookup _ _, contains_eq_lookup _ _, get_eq_lookup _ _ _⟩

/-- non-vacuity: grandchild 2 of root 0 sees the root's *current* binding after a rebind 1 → 2,
and an intermediate scope binding the key later shadows it. -/
example :
    getitem (chainOf [(none, [(0, some 1)]), (some 0, []), (some 1, [])] 3 2) 0 = some (some 1)
    ∧ getitem (chainOf [(none, [(0, some 2)]), (some 0, []), (some 1, [])] 3 2) 0 = some (some 2)
    ∧ getitem (chainOf [(none, [(0, some 2)]), (some 0, [(0, none)]), (some 1, [])] 3 2) 0 = some none := by
  decide

end Xdsl.ScopedDict
