import XdslProofs.Lemmas.ParallelMovRename
/-!
# C20 — the lowering depends on the registers only through their identity

"For every parallel move between allocated registers (… over integer and floating-point
registers …)": the quantifier ranges over *which* registers are moved, not only over the shape of the
move graph.  `pmov_correct` (C20Algo) already holds for every register; the theorems here say how
the model gets there: the algorithm compares registers for identity `(register file, index)` and
singles out exactly one of them, `zero = (int, 0)`.  Moving a parallel move to other registers —
other indices, finite or "infinite", in particular to index 0 of the *float* file (`ft0`), whose
index coincides with that of `zero` — renames the emitted sequence and changes nothing else.  The
harness ties this to the real pass by running every enumerated graph in several placements
(`naming_variants` in harness/props/c20.py); a register test in the pass that looks at a projection
of the register (index without register file, spelling, …) breaks the correspondence there.

Core Lean only (no Mathlib).
-/
namespace Xdsl.ParallelMov

/-- **C20, placement invariance.**  For every renaming `ρ` of the registers that is injective,
keeps register file and allocation status, and maps exactly `zero` to `zero`: lowering the renamed
parallel move yields the renamed result — the same instructions on the renamed registers, the same
result wiring, the same failure. -/
theorem pmov_placement_invariant (ρ : Reg → Reg) (h : Renaming ρ) (moves : List Move) (free : List Reg) :
    lower (moves.map (Move.map ρ)) (free.map ρ) = emap (Out.map ρ) (lower moves free) :=
  lower_map h moves free

/-- exchange two registers -/
def swapReg (a b : Reg) (r : Reg) : Reg := if r = a then b else if r = b then a else r

/-- Exchanging two registers of one register file, both allocated (or both not) and neither of
them `zero`, is a placement in the sense of `Renaming`. -/
theorem swapReg_renaming (a b : Reg) (hk : a.kind = b.kind) (hal : a.allocated = b.allocated)
    (ha : a ≠ Reg.zero) (hb : b ≠ Reg.zero) : Renaming (swapReg a b) where
  inj := by intro x y; unfold swapReg; grind
  zero := by intro r; unfold swapReg; grind
  kind := by intro r; unfold swapReg; grind
  alloc := by intro r; unfold swapReg; grind

/-- **`ft0` is an ordinary register.**  The float register of index 0 shares its index with `zero`
but not its register file; exchanging it with any other float register `f<k>` only renames the
lowering.  (A test `dst.index == 0` instead of `dst == zero` in the pass violates exactly this.) -/
theorem pmov_float_index0_ordinary (k : Nat) (moves : List Move) (free : List Reg) :
    let ρ := swapReg ⟨.flt, some 0⟩ ⟨.flt, some k⟩
    lower (moves.map (Move.map ρ)) (free.map ρ) = emap (Out.map ρ) (lower moves free) :=
  lower_map (swapReg_renaming ⟨.flt, some 0⟩ ⟨.flt, some k⟩ rfl rfl (by simp [Reg.zero]) (by simp [Reg.zero])) moves free

/-- the error of a result, if any -/
private def errOf' (r : Except Err Out) : Option Err := match r with | .error e => some e | .ok _ => none

private def x (k : Nat) : Reg := ⟨.int, some k⟩
private def f (k : Nat) : Reg := ⟨.flt, some k⟩

/-- non-vacuity: the chain `ft1 → ft0 → ft2` next to `a0 → a1` is lowered leaf first (`ft0` is read
before it is written) and the sequence is accepted by the proved validator -/
example : (lower [⟨f 1, f 0, 64⟩, ⟨f 0, f 2, 64⟩, ⟨x 10, x 11, 32⟩] []).toOption.map (·.ops)
      = some [.fmv 64 (f 2) (f 0), .fmv 64 (f 0) (f 1), .mv (x 11) (x 10)]
    ∧ checkSeq [⟨f 1, f 0, 64⟩, ⟨f 0, f 2, 64⟩, ⟨x 10, x 11, 32⟩] []
        [.fmv 64 (f 2) (f 0), .fmv 64 (f 0) (f 1), .mv (x 11) (x 10)] = true := by decide

/-- … whereas emitting the move into `ft0` first (what a pass does that takes index 0 for `zero`)
is rejected by the validator: `ft2` would receive the new content of `ft0` -/
example : checkSeq [⟨f 1, f 0, 64⟩, ⟨f 0, f 2, 64⟩] []
    [.fmv 64 (f 0) (f 1), .fmv 64 (f 2) (f 0)] = false := by decide

/-- a float cycle through `ft0` is a cycle (reported without a free register, rotated through one) -/
example : errOf' (lower [⟨f 1, f 0, 32⟩, ⟨f 0, f 1, 32⟩] []) = some .floatCycle
    ∧ (lower [⟨f 1, f 0, 32⟩, ⟨f 0, f 1, 32⟩] [f 5]).toOption.map (·.ops)
      = some [.fmv 32 (f 5) (f 1), .fmv 32 (f 1) (f 0), .fmv 32 (f 0) (f 5)] := by decide

/-- the integer register of index 0 *is* `zero` (however it is spelled, `zero` or `x0`): the "cycle"
`a0 → x0, x0 → a0` is no cycle, `a0` receives 0 -/
example : (lower [⟨x 10, x 0, 32⟩, ⟨x 0, x 10, 32⟩] []).toOption.map (·.ops)
    = some [.mv (x 0) (x 10), .mv (x 10) (x 0)] := by decide

/-- the placement hypothesis "only `zero` is mapped to `zero`" cannot be dropped: renaming `a0` to
`zero` turns the swap `a0 ↔ a1` (three xors) into two plain moves -/
theorem pmov_placement_zero_counterexample :
    (lower [⟨x 10, x 11, 32⟩, ⟨x 11, x 10, 32⟩] []).toOption.map (·.ops.length) = some 3
    ∧ (lower [⟨x 0, x 11, 32⟩, ⟨x 11, x 0, 32⟩] []).toOption.map (·.ops.length) = some 2 := by decide

end Xdsl.ParallelMov
