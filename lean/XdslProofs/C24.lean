import XdslProofs.Lemmas.Dominance
/-!
# C24 — property theorems (dominance part)

"For every region control-flow graph, a block A is reported to dominate a reachable block B exactly
when every path from the entry block to B passes through A (every block dominates itself; strict
dominance excludes equality), regardless of unreachable blocks elsewhere in the region."

`g : Graph` is any list of successor lists (blocks `0 … g.length-1`, entry `0`); no well-formedness
assumption is needed.  `Path g 0 b l` : `l` is the block sequence of a path entry ⇝ `b`.
The model is the FIXED `DominanceInfo.__init__` (see `XdslModel/Dominance.lean`).
-/
namespace Xdsl.Dominance
open Xdsl.Graph

/-- The `while changed` loop of `DominanceInfo.__init__` terminates: for every graph the model
leaves the loop within its fuel (`n·n + 1` passes), so the `converged` flag is never `false`. -/
theorem dominance_converges (g : Graph) : (dominance g).2 = true := by
  unfold dominance
  split
  · rfl
  · rename_i hn
    have hi := inv_init g (by omega)
    exact (iterate_spec _ _ hi (by have := size_le hi; omega)).1

/-- The computed table satisfies the loop invariant and the dataflow equations. -/
theorem dominance_inv_fix (g : Graph) (hn : 0 < g.length) :
    Inv g (dominance g).1 ∧ Fix g (dominance g).1 := by
  unfold dominance
  rw [if_neg (by omega)]
  have hi := inv_init g hn
  exact (iterate_spec _ _ hi (by have := size_le hi; omega)).2

/-- For every block `b` of the region (reachable or not): `a` is reported to dominate `b` exactly
when `a` is a block of the region and every path from the entry to `b` passes through `a`. -/
theorem dom_iff_paths_all (g : Graph) {a b : Nat} (hb : b < g.length) :
    dominates (dominance g).1 a b = true ↔ a < g.length ∧ ∀ l, Path g 0 b l → a ∈ l := by
  obtain ⟨hi, hf⟩ := dominance_inv_fix g (by omega)
  unfold dominates
  rw [List.contains_iff_mem]
  constructor
  · intro h
    refine ⟨?_, fun l hl => fix_complete hi.entry hf hl hb h⟩
    obtain ⟨p, hp⟩ := hi.canon b hb
    rw [hp] at h
    exact List.mem_range.mp (List.mem_filter.mp h).1
  · intro ⟨ha, hp⟩
    exact hi.sound b hb a ha hp

/-- **dom_iff_paths.** "a block A is reported to dominate a reachable block B exactly when every path
from the entry block to B passes through A … regardless of unreachable blocks elsewhere". -/
theorem dom_iff_paths (g : Graph) {a b : Nat} (hb : b < g.length) (hr : Reach g 0 b) :
    dominates (dominance g).1 a b = true ↔ ∀ l, Path g 0 b l → a ∈ l := by
  rw [dom_iff_paths_all g hb]
  constructor
  · exact fun h => h.2
  · intro h
    obtain ⟨l, hl⟩ := hr
    exact ⟨hl.lt (by omega) hb a (h l hl), h⟩

/-- An unreachable block is reported as dominated by every block of the region (the convention of
the path definition, and of MLIR/LLVM); the property sentence leaves this case open. -/
theorem dom_unreachable (g : Graph) {a b : Nat} (hb : b < g.length) (hr : ¬ Reach g 0 b) :
    dominates (dominance g).1 a b = true ↔ a < g.length := by
  rw [dom_iff_paths_all g hb]
  exact ⟨fun h => h.1, fun h => ⟨h, fun l hl => absurd ⟨l, hl⟩ hr⟩⟩

/-- "every block dominates itself" -/
theorem dom_self (g : Graph) {b : Nat} (hb : b < g.length) :
    dominates (dominance g).1 b b = true :=
  (dom_iff_paths_all g hb).mpr ⟨hb, fun _ hl => hl.last_mem⟩

/-- **strict_iff.** "strict dominance excludes equality": `strictly_dominates(a, b)` holds exactly
when `a ≠ b` and every path from the entry to the reachable block `b` passes through `a`. -/
theorem strict_iff (g : Graph) {a b : Nat} (hb : b < g.length) (hr : Reach g 0 b) :
    strictlyDominates (dominance g).1 a b = true ↔ a ≠ b ∧ ∀ l, Path g 0 b l → a ∈ l := by
  unfold strictlyDominates
  by_cases h : a = b
  · simp [h]
  · rw [if_neg h, dom_iff_paths g hb hr]; simp [h]

/-- The entry block dominates every reachable block and is dominated only by itself. -/
theorem entry_dominates (g : Graph) {b : Nat} (hb : b < g.length) :
    dominates (dominance g).1 0 b = true :=
  (dom_iff_paths_all g hb).mpr ⟨by omega, fun _ hl => hl.root_mem⟩

theorem dom_entry (g : Graph) (hn : 0 < g.length) {a : Nat} :
    dominates (dominance g).1 a 0 = true ↔ a = 0 := by
  rw [dom_iff_paths g hn (Reach.refl g 0)]
  constructor
  · intro h; simpa using h [0] .root
  · rintro rfl l hl; exact hl.root_mem

/-! ## Non-vacuity: the two shapes on which the pinned code failed -/

/-- `^0 → ^1`, `^2 → ^1` with `^2` unreachable (the failing input of the pinned code): the
hypotheses of `dom_iff_paths` hold for `b = 1`, and the entry is reported to dominate `^1`. -/
example : Reach [[1], [], [1]] 0 1 ∧ 1 < [[1], [], [1]].length
    ∧ dominates (dominance [[1], [], [1]]).1 0 1 = true
    ∧ dominates (dominance [[1], [], [1]]).1 2 1 = false :=
  ⟨⟨[0, 1], .snoc .root (by unfold Edge; decide)⟩, by decide, by decide, by decide⟩

/-- a diamond with a back edge: `0→1,2; 1→3; 2→3; 3→1`: only the entry (and 3) dominates 3 -/
example : (dominance [[1, 2], [3], [3], [1]]).1 = [[0], [0, 1], [0, 2], [0, 3]] := by decide

end Xdsl.Dominance
