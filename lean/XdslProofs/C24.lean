import XdslProofs.Lemmas.Dominance
/-!
# C24 — property theorems (dominance part)

"For every region control-flow graph, a block A is reported to dominate a reachable block B exactly
when every path from the entry block to B passes through A (every block dominates itself; strict
dominance excludes equality), regardless of unreachable blocks elsewhere in the region."

`g : Graph` is any list of successor lists (blocks `0 … g.length-1`, entry `0`); no well-formedness
assumption is needed.  `Path g 0 b l` : `l` is the block sequence of a path entry ⇝ `b`.
The model is the FIXED `DominanceInfo.__init__` (see `XdslModel/Dominance.lean`).
-/
namespace Xdsl.Dominance
open Xdsl.Graph

/-- The `while changed` loop of `DominanceInfo.__init__` terminates: for every graph the model
leaves the loop within its fuel (`n·n + 1` passes), so the `converged` flag is never `false`. -/
theorem dominance_converges (g : Graph) : (dominance g).2 = true := by
  unfold dominance
  split
  · rfl
  · rename_i hn
    have hi := inv_init g (by omega)
    exact (iterate_spec _ _ hi (by have := size_le hi; omega)).1

/-- The computed table satisfies the loop invariant and the dataflow equations. -/
theorem dominance_inv_fix (g : Graph) (hn : 0 < g.length) :
    Inv g (dominance g).1 ∧ Fix g (dominance g).1 := by
  unfold dominance
  rw [if_neg (by omega)]
  have hi := inv_init g hn
  exact (iterate_spec _ _ hi (by have := size_le hi; omega)).2

/-- For every block `b` of the region (reachable or not): `a` is reported to dominate `b` exactly
when `a` is a block of the region and every path from the entry to `b` passes through `a`. -/
theorem dom_iff_paths_all (g : Graph) {a b : Nat} (hb : b < g.length) :
    dominates (dominance g).1 a b = true ↔ a < g.length ∧ ∀ l, Path g 0 b l → a ∈ l := by
  obtain ⟨hi, hf⟩ := dominance_inv_fix g (by omega)
  unfold dominates
  rw [List.contains_iff_mem]
  constructor
  · intro h
    refine ⟨?_, fun l hl => fix_complete hi.entry hf hl hb h⟩
    obtain ⟨p, hp⟩ := hi.canon b hb
    rw [hp] at h
    exact List.mem_range.mp (List.mem_filter.mp h).1
  · intro ⟨ha, hp⟩
    exact hi.sound b hb a ha hp

/-- **dom_iff_paths.** "a block A is reported to dominate a reachable block B exactly when every path
from the entry block to B passes through A … regardless of unreachable blocks elsewhere". -/
theorem dom_iff_paths (g : Graph) {a b : Nat} (hb : b < g.length) (hr : Reach g 0 b) :
    dominates (dominance g).1 a b = true ↔ ∀ l, Path g 0 b l → a ∈ l := by
  rw [dom_iff_paths_all g hb]
  constructor
  · exact fun h => h.2
  · intro h
    obtain ⟨l, hl⟩ := hr
    exact ⟨hl.lt (by omega) hb a (h l hl), h⟩

/-- An unreachable block is reported as dominated by every block of the region (the convention of
the path definition, and of MLIR/LLVM); the property sentence leaves this case open. -/
theorem dom_unreachable (g : Graph) {a b : Nat} (hb : b < g.length) (hr : ¬ Reach g 0 b) :
    dominates (dominance g).1 a b = true ↔ a < g.length := by
  rw [dom_iff_paths_all g hb]
  exact ⟨fun h => h.1, fun h => ⟨h, fun l hl => absurd ⟨l, hl⟩ hr⟩⟩

/-- "every block dominates itself" -/
theorem dom_self (g : Graph) {b : Nat} (hb : b < g.length) :
    dominates (dominance g).1 b b = true :=
  (dom_iff_paths_all g hb).mpr ⟨hb, fun _ hl => hl.last_mem⟩

/-- **strict_iff.** "strict dominance excludes equality": `strictly_dominates(a, b)` holds exactly
when `a ≠ b` and every path from the entry to the reachable block `b` passes through `a`. -/
theorem strict_iff (g : Graph) {a b : Nat} (hb : b < g.length) (hr : Reach g 0 b) :
    strictlyDominates (dominance g).1 a b = true ↔ a ≠ b ∧ ∀ l, Path g 0 b l → a ∈ l := by
  unfold strictlyDominates
  by_cases h : a = b
  · simp [h]
  · rw [if_neg h, dom_iff_paths g hb hr]; simp [h]

/-- The entry block dominates every reachable block and is dominated only by itself. -/
theorem entry_dominates (g : Graph) {b : Nat} (hb : b < g.length) :
    dominates (dominance g).1 0 b = true :=
  (dom_iff_paths_all g hb).mpr ⟨by omega, fun _ hl => hl.root_mem⟩

theorem dom_entry (g : Graph) (hn : 0 < g.length) {a : Nat} :
    dominates (dominance g).1 a 0 = true ↔ a = 0 := by
  rw [dom_iff_paths g hn (Reach.refl g 0)]
  constructor
  · intro h; simpa using h [0] .root
  · rintro rfl l hl; exact hl.root_mem

/-! ## The order in which the blocks are listed, and the table the loop starts from -/

/-- **Order independence.** "For every region control-flow graph": the answer is a property of the
graph, not of the order in which the region lists its blocks.  If `g'` is `g` with the blocks after
the entry listed in any other order (`π` renumbers, `π 0 = 0`), then `dominates (π a) (π b)` on `g'`
is `dominates a b` on `g` — also when a loop is listed before the block that guards it. -/
theorem dom_relabel {g g' : Graph} {π σ : Nat → Nat} (h : Relabel g g' π σ) (hwf : WF g)
    (h0 : π 0 = 0) {a b : Nat} (ha : a < g.length) (hb : b < g.length) :
    dominates (dominance g').1 (π a) (π b) = dominates (dominance g).1 a b := by
  have hb' : π b < g'.length := by rw [h.len]; exact h.lt b hb
  have ha' : π a < g'.length := by rw [h.len]; exact h.lt a ha
  have hs := h.symm hwf
  have hn : 0 < g.length := by omega
  have h0' : σ 0 = 0 := by have := h.left 0 hn; rw [h0] at this; exact this
  rw [Bool.eq_iff_iff, dom_iff_paths_all g' hb', dom_iff_paths_all g hb]
  constructor
  · exact fun hd => ⟨ha, h.pathdom h0 ha hb hd.2⟩
  · intro hd
    refine ⟨ha', hs.pathdom h0' ha' hb' ?_⟩
    rw [h.left a ha, h.left b hb]
    exact hd.2

theorem strict_relabel {g g' : Graph} {π σ : Nat → Nat} (h : Relabel g g' π σ) (hwf : WF g)
    (h0 : π 0 = 0) {a b : Nat} (ha : a < g.length) (hb : b < g.length) :
    strictlyDominates (dominance g').1 (π a) (π b) = strictlyDominates (dominance g).1 a b := by
  unfold strictlyDominates
  by_cases hab : a = b
  · simp [hab]
  · have : π a ≠ π b := fun e => hab (by rw [← h.left a ha, e, h.left b hb])
    rw [if_neg hab, if_neg this, dom_relabel h hwf h0 ha hb]

/-- **Any sound start table gives the same answer.**  The loop may start from any table that
satisfies the invariant (`Inv`: entry row `{entry}`, every row contains all path-based dominators of
its block, refining a row only removes members): it then stops within `n·n + 1` passes with exactly
the path-based relation.  `init` (every other row = all blocks) is one such table; a start table that
*omits* a dominator is not (see `prefix_start_counterexample`). -/
theorem dominance_from_sound_start (g : Graph) (d : Dom) (hi : Inv g d) {a b : Nat}
    (hb : b < g.length) :
    (iterate g (g.length * g.length + 1) d).2 = true ∧
    (dominates (iterate g (g.length * g.length + 1) d).1 a b = true ↔
      a < g.length ∧ ∀ l, Path g 0 b l → a ∈ l) := by
  obtain ⟨hc, hi', hf⟩ := iterate_spec (g.length * g.length + 1) d hi (by have := size_le hi; omega)
  refine ⟨hc, ?_⟩
  unfold dominates
  rw [List.contains_iff_mem]
  constructor
  · intro hm
    refine ⟨?_, fun l hl => fix_complete hi'.entry hf hl hb hm⟩
    obtain ⟨p, hp⟩ := hi'.canon b hb
    rw [hp] at hm
    exact List.mem_range.mp (List.mem_filter.mp hm).1
  · intro ⟨ha, hp⟩
    exact hi'.sound b hb a ha hp

/-- the start table "row of the i-th block = the blocks listed up to and including it" (it assumes
that a dominator is always listed before the blocks it dominates) -/
def prefixStart (n : Nat) : Dom := (List.range n).map fun b => List.range (b + 1)

/-- Why the rows must start from ALL blocks.  Region order `entry, A, B, C, exit` with
`entry → C → A ⇄ B → exit`: the loop `{A, B}` is listed before the block `C` that guards it.  Started
from `prefixStart` the refinement loop stops, but at a table in which `C` dominates neither `A`, `B`
nor `exit`; started from `init` it reports all three (as `dom_iff_paths` demands: every path from the
entry to `A` passes through `C`). -/
theorem prefix_start_counterexample :
    let g : Graph := [[3], [2], [1, 4], [1], []]
    (iterate g 26 (prefixStart 5)).2 = true
    ∧ dominates (iterate g 26 (prefixStart 5)).1 3 1 = false
    ∧ dominates (iterate g 26 (prefixStart 5)).1 3 2 = false
    ∧ dominates (iterate g 26 (prefixStart 5)).1 3 4 = false
    ∧ dominates (dominance g).1 3 1 = true ∧ dominates (dominance g).1 3 2 = true
    ∧ dominates (dominance g).1 3 4 = true
    ∧ (∀ l, Path g 0 1 l → 3 ∈ l) := by
  refine ⟨by decide, by decide, by decide, by decide, by decide, by decide, by decide, ?_⟩
  exact ((dom_iff_paths_all [[3], [2], [1, 4], [1], []] (by decide)).mp (by decide)).2

/-- Started from `prefixStart` the loop need not even stop: on `1 → 4 → 2 → 1` (a cycle listed out of
order, unreachable from the entry `0`) the rows chase each other — after two passes the table
alternates between two values for ever — so the loop never exits, whatever the fuel; from `init` it
always stops (`dominance_converges`). -/
theorem prefix_start_diverges (fuel : Nat) :
    (iterate [[], [4], [1], [], [2]] fuel (prefixStart 5)).2 = false := by
  let g : Graph := [[], [4], [1], [], [2]]
  let d2 : Dom := [[0], [0, 1, 2, 3, 4], [0, 1, 2, 4], [0, 1, 2, 3, 4], [0, 1, 2, 3, 4]]
  let d3 : Dom := [[0], [0, 1, 2, 4], [0, 1, 2, 3, 4], [0, 1, 2, 3, 4], [0, 1, 2, 4]]
  have e2 : sweep g d2 = (d3, true) := by decide
  have e3 : sweep g d3 = (d2, true) := by decide
  have osc : ∀ k, (iterate g k d2).2 = false ∧ (iterate g k d3).2 = false := by
    intro k
    induction k with
    | zero => exact ⟨rfl, rfl⟩
    | succ k ih =>
      constructor
      · unfold iterate; rw [e2]; simp only [if_true]; exact ih.2
      · unfold iterate; rw [e3]; simp only [if_true]; exact ih.1
  have s0 : sweep g (prefixStart 5) =
      ([[0], [0, 1, 2], [0, 1, 2, 3, 4], [0, 1, 2, 3, 4], [0, 1, 2, 4]], true) := by decide
  have s1 : sweep g [[0], [0, 1, 2], [0, 1, 2, 3, 4], [0, 1, 2, 3, 4], [0, 1, 2, 4]] = (d2, true) := by
    decide
  match fuel with
  | 0 => rfl
  | 1 => unfold iterate; rw [s0]; simp only [if_true]; rfl
  | k + 2 =>
    unfold iterate; rw [s0]; simp only [if_true]
    unfold iterate; rw [s1]; simp only [if_true]
    exact (osc k).1

/-- non-vacuity of `dom_relabel`: the region of `prefix_start_counterexample` is the natural listing
`entry, C, A, B, exit` (`[[1], [2], [3], [2, 4], []]`) relisted by `π = (0 1 2 3 4 ↦ 0 3 1 2 4)`. -/
example : Relabel [[1], [2], [3], [2, 4], []] [[3], [2], [1, 4], [1], []]
    (fun u => [0, 3, 1, 2, 4].getD u 0) (fun u => [0, 2, 3, 1, 4].getD u 0) where
  len := by decide
  lt := by decide
  lt' := by decide
  left := by decide
  right := by decide
  succ := by decide

/-! ## Non-vacuity: the two shapes on which the pinned code failed -/

/-- `^0 → ^1`, `^2 → ^1` with `^2` unreachable (the failing input of the pinned code): the
hypotheses of `dom_iff_paths` hold for `b = 1`, and the entry is reported to dominate `^1`. -/
example : Reach [[1], [], [1]] 0 1 ∧ 1 < [[1], [], [1]].length
    ∧ dominates (dominance [[1], [], [1]]).1 0 1 = true
    ∧ dominates (dominance [[1], [], [1]]).1 2 1 = false :=
  ⟨⟨[0, 1], .snoc .root (by unfold Edge; decide)⟩, by decide, by decide, by decide⟩

/-- a diamond with a back edge: `0→1,2; 1→3; 2→3; 3→1`: only the entry (and 3) dominates 3 -/
example : (dominance [[1, 2], [3], [3], [1]]).1 = [[0], [0, 1], [0, 2], [0, 3]] := by decide

end Xdsl.Dominance
