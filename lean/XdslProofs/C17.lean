import XdslProofs.Lemmas.IRWF
/-!
# C17 — every registered pass that succeeds leaves valid, printable IR  (PARTIAL BY DESIGN)

"For every registered pass with any accepted options and every valid input module, the pass either
reports failure or leaves a module that passes verification and whose printed form parses back; it
never leaves erased values in use, dangling successors or broken parent links."

No pass is modelled and the ∀-pass/∀-module quantifier is *explored* by `harness/props/c17.py`.
What is proved here is the ORACLE for the structural half of the statement: the decision procedure
`IRWF.checkB` (run by the driver model `ir_wf` on a pointer-level snapshot of the module a real pass
left behind) answers `ok` only for stores that satisfy

* the C01 invariant `Inv` (`XdslProofs/Lemmas/IRStore.lean`) — "broken parent links": every
  operation / block / region exactly once in its container, forward and backward, pointing back to
  it; use lists = operand / successor positions; index fields (`invB_sound`), and
* `Rooted s root` — "erased values in use" and "dangling successors", stated below directly
  (`rootedB_iff`: the check is *equivalent* to the predicate).

PARTIAL.  Not proved: anything about the passes themselves; `module.verify()` and the print/parse
round trip are executed on the real implementation, not modelled (DESIGN's `wf_printable` is not
proved).  Attachedness is the fuel-bounded `is_ancestor` walk of the C01 model; under the invariant it
is exactly "the parent chain reaches the module" (`attached_iff_chain`: the fuel always suffices, by a
pigeonhole argument over the recorded objects).
-/
namespace Xdsl.C17
open Xdsl Xdsl.DLL Xdsl.IR Xdsl.IRWF

/-! ## the C01 half: "broken parent links", use lists, index fields -/

/-- **Soundness of the invariant checker.**  If the Boolean check accepts a snapshot, the snapshot
satisfies the store invariant of C01 — the same `Inv` that C01 proves preserved by the IR mutators. -/
theorem invB_sound {s : IRStore} (h : invB s = true) : Inv s := ⟨absOf s, invB_invA h⟩

/-- **Completeness**: the checker raises no false alarm — every store that satisfies `Inv` is
accepted.  Together: `invB` decides `Inv`. -/
theorem invB_iff (s : IRStore) : invB s = true ↔ Inv s :=
  ⟨invB_sound, fun ⟨_, ha⟩ => invA_invB ha⟩

/-- "… broken parent links" (operations): in an accepted snapshot an operation is in the list of a
block exactly when its `parent` field names that block, it is there once, and the backward traversal
(`_last_op/_prev_op`) is the reverse of the forward one (`_first_op/_next_op`). -/
theorem ops_parent_links {s : IRStore} (h : invB s = true) (b : Nat) :
    (s.opsOf b).Nodup ∧ s.opL.toListBack b = (s.opsOf b).reverse ∧
    ∀ o, o ∈ s.opsOf b ↔ s.opParent o = some b := by
  have w := (invB_invA h).opL
  refine ⟨w.nodup_toList b, w.toListBack_eq_reverse b, fun o => ?_⟩
  have := w.mem_iff_parent b o
  simpa [IRStore.opsOf, IRStore.opParent, absOf] using this

/-- the same for blocks in regions -/
theorem blocks_parent_links {s : IRStore} (h : invB s = true) (r : Nat) :
    (s.blocksOf r).Nodup ∧ s.blockL.toListBack r = (s.blocksOf r).reverse ∧
    ∀ b, b ∈ s.blocksOf r ↔ s.blockParent b = some r := by
  have w := (invB_invA h).blockL
  refine ⟨w.nodup_toList r, w.toListBack_eq_reverse r, fun b => ?_⟩
  have := w.mem_iff_parent r b
  simpa [IRStore.blocksOf, IRStore.blockParent, absOf] using this

/-- the same for regions of operations -/
theorem regions_parent_links {s : IRStore} (h : invB s = true) {o : Nat} {d : OpData}
    (hd : AL.get s.ops o = some d) :
    d.regions.Nodup ∧ ∀ r, r ∈ d.regions ↔ s.regionParent r = some o := by
  have a := invB_invA h
  refine ⟨(a.regions o d hd).1, fun r => ⟨(a.regions o d hd).2 r, fun hp => ?_⟩⟩
  obtain ⟨d', hd', hr⟩ := a.regionParent r o hp
  rw [hd] at hd'; cases hd'; exact hr

/-! ## the C17 half: attachedness, live operands, local successors -/

/-- `x` hangs below the module `root`: xDSL's own `root.is_ancestor(x)` walk -/
def Attached (s : IRStore) (root : Nat) (x : Ref) : Prop := attachedB s root x = true

/-- attachedness is a parent chain: finitely many `parent` steps lead from `x` to the module -/
theorem attached_chain {s : IRStore} {root : Nat} {x : Ref} (h : Attached s root x) :
    ∃ n, up s n x = some (.op root) := by
  obtain ⟨n, _, hn⟩ := isAncestorFrom_chain s (.op root) _ x h
  exact ⟨n, hn⟩

/-- conversely every parent chain shorter than three times the number of objects of the snapshot is
recognised (an acyclic chain cannot be longer: one step per object) -/
theorem chain_attached {s : IRStore} {root : Nat} {x : Ref} {n : Nat} (hn : n < 3 * s.size)
    (h : up s n x = some (.op root)) : Attached s root x :=
  chain_isAncestorFrom s (.op root) n _ x hn h

/-- **Attachedness is declarative.**  In a snapshot that satisfies the invariant, the bounded walk
recognises exactly the objects from which finitely many `parent` steps lead to the module (a chain
that reaches the module can always be shortened to at most one step per recorded object). -/
theorem attached_iff_chain {s : IRStore} (h : Inv s) (root : Nat) (x : Ref) :
    Attached s root x ↔ ∃ n, up s n x = some (.op root) := by
  obtain ⟨a, ha⟩ := h
  exact ⟨attached_chain, fun ⟨_, hn⟩ => chain_isAncestor ha hn⟩

/-- "no erased value": the value is a result of an attached operation or an argument of an attached
block, and its owner still lists it at the position its `index` field says -/
def LiveVal (s : IRStore) (root v : Nat) : Prop :=
  ∃ x, AL.get s.vals v = some x ∧
    ((x.kind = .result ∧ Attached s root (.op x.owner) ∧
        ∃ d, AL.get s.ops x.owner = some d ∧ d.results[x.index]? = some v) ∨
     (x.kind = .arg ∧ Attached s root (.block x.owner) ∧
        ∃ d, AL.get s.blocks x.owner = some d ∧ d.args[x.index]? = some v))

/-- the clauses of C17 that are not already part of C01's invariant -/
structure Rooted (s : IRStore) (root : Nat) : Prop where
  /-- the module is a recorded operation without parent -/
  root_op : (AL.get s.ops root).isSome ∧ s.opParent root = none
  /-- "never leaves erased values in use" -/
  operands_live : ∀ o d, AL.get s.ops o = some d → Attached s root (.op o) → ∀ v ∈ d.operands, LiveVal s root v
  /-- "never leaves … dangling successors": a successor is a block of the region that holds the
  operation's block -/
  succs_local : ∀ o d, AL.get s.ops o = some d → Attached s root (.op o) → ∀ b ∈ d.successors,
    ∃ ob r, s.opParent o = some ob ∧ s.blockParent ob = some r ∧ s.blockParent b = some r

theorem liveValB_iff (s : IRStore) (root v : Nat) : liveValB s root v = true ↔ LiveVal s root v := by
  unfold liveValB LiveVal Attached
  cases hv : AL.get s.vals v with
  | none => simp
  | some x =>
    obtain ⟨k, ow, ix⟩ := x
    cases k with
    | result =>
      cases hd : AL.get s.ops ow with
      | none => simp [hd]
      | some d => simp [hd]
    | arg =>
      cases hd : AL.get s.blocks ow with
      | none => simp [hd]
      | some d => simp [hd]
    | erased => simp

theorem succLocalB_iff (s : IRStore) (o b : Nat) : succLocalB s o b = true ↔
    ∃ ob r, s.opParent o = some ob ∧ s.blockParent ob = some r ∧ s.blockParent b = some r := by
  unfold succLocalB
  cases h1 : s.opParent o with
  | none => simp
  | some ob =>
    cases h2 : s.blockParent ob with
    | none => simp [h2]
    | some r => simp [h2]

/-- **The rooted clauses are decided exactly.** -/
theorem rootedB_iff (s : IRStore) (root : Nat) : rootedB s root = true ↔ Rooted s root := by
  simp only [rootedB, rootedTable, List.all_cons, List.all_nil, Bool.and_eq_true, Bool.and_true]
  constructor
  · rintro ⟨h1, h2, h3⟩
    simp only [rootB, Bool.and_eq_true, decide_eq_true_eq] at h1
    simp only [operandsLiveB, List.all_eq_true] at h2
    simp only [succsLocalB, List.all_eq_true] at h3
    refine ⟨h1, fun o d hd ha v hv => ?_, fun o d hd ha b hb => ?_⟩
    · have := h2 (o, d) (AL_get_mem hd)
      simp only [hd, Bool.or_eq_true, Bool.not_eq_true', List.all_eq_true] at this
      rcases this with e | e
      · rw [show attachedB s root (.op o) = true from ha] at e; cases e
      · exact (liveValB_iff s root v).mp (e v hv)
    · have := h3 (o, d) (AL_get_mem hd)
      simp only [hd, Bool.or_eq_true, Bool.not_eq_true', List.all_eq_true] at this
      rcases this with e | e
      · rw [show attachedB s root (.op o) = true from ha] at e; cases e
      · exact (succLocalB_iff s o b).mp (e b hb)
  · intro h
    refine ⟨by simpa [rootB] using h.root_op, ?_, ?_⟩
    · simp only [operandsLiveB, List.all_eq_true]
      intro p _
      cases hd : AL.get s.ops p.1 with
      | none => rfl
      | some d =>
        simp only [Bool.or_eq_true, Bool.not_eq_true', List.all_eq_true]
        cases ha : attachedB s root (.op p.1) with
        | false => exact Or.inl rfl
        | true => exact Or.inr fun v hv => (liveValB_iff s root v).mpr (h.operands_live p.1 d hd ha v hv)
    · simp only [succsLocalB, List.all_eq_true]
      intro p _
      cases hd : AL.get s.ops p.1 with
      | none => rfl
      | some d =>
        simp only [Bool.or_eq_true, Bool.not_eq_true', List.all_eq_true]
        cases ha : attachedB s root (.op p.1) with
        | false => exact Or.inl rfl
        | true => exact Or.inr fun b hb => (succLocalB_iff s p.1 b).mpr (h.succs_local p.1 d hd ha b hb)

/-- "never leaves erased values in use", read off: no operand of an attached operation is an
`ErasedSSAValue` (kind `erased`), and its owner hangs below the module -/
theorem no_erased_value_in_use {s : IRStore} {root : Nat} (h : Rooted s root) {o : Nat} {d : OpData}
    (hd : AL.get s.ops o = some d) (ha : Attached s root (.op o)) {v : Nat} (hv : v ∈ d.operands) :
    (s.val! v).kind ≠ .erased ∧
    (((s.val! v).kind = .result ∧ Attached s root (.op (s.val! v).owner)) ∨
     ((s.val! v).kind = .arg ∧ Attached s root (.block (s.val! v).owner))) := by
  obtain ⟨x, hx, h'⟩ := h.operands_live o d hd ha v hv
  have e : s.val! v = x := by simp [IRStore.val!, hx]
  rw [e]
  rcases h' with ⟨hk, ha', _⟩ | ⟨hk, ha', _⟩
  · exact ⟨by rw [hk]; decide, Or.inl ⟨hk, ha'⟩⟩
  · exact ⟨by rw [hk]; decide, Or.inr ⟨hk, ha'⟩⟩

/-! ## the verdict of the driver -/

/-- **Soundness of the whole check** -/
theorem checkB_sound {s : IRStore} {root : Nat} (h : checkB s root = true) : Inv s ∧ Rooted s root := by
  simp only [checkB, Bool.and_eq_true] at h
  exact ⟨invB_sound h.1, (rootedB_iff s root).mp h.2⟩

/-- **The whole check decides the structural half of the property's sentence exactly.** -/
theorem checkB_iff (s : IRStore) (root : Nat) : checkB s root = true ↔ Inv s ∧ Rooted s root := by
  simp only [checkB, Bool.and_eq_true, invB_iff, rootedB_iff]

theorem failing_nil_iff (t : List (String × Bool)) : failing t = [] ↔ t.all (·.2) = true := by
  induction t with
  | nil => simp [failing]
  | cons p r ih =>
    obtain ⟨n, b⟩ := p
    cases b <;> simp_all [failing]

/-- the driver answers `ok` when, and only when, no clause fails, i.e. exactly when `checkB` holds;
otherwise the answer lists the names of the failing clauses -/
theorem verdict_ok_iff (s : IRStore) (root : Nat) :
    failing (invTable s ++ rootedTable s root) = [] ↔ checkB s root = true := by
  rw [failing_nil_iff, List.all_append, checkB, invB, rootedB]

theorem verdict_ok {s : IRStore} {root : Nat} (h : checkB s root = true) : verdict s root = "ok" := by
  unfold verdict
  rw [(verdict_ok_iff s root).mpr h]

theorem fail_ne_ok (t : String) : "fail " ++ t ≠ "ok" := by
  intro h
  have := congrArg String.length h
  simp only [String.length_append] at this
  have h1 : "fail ".length = 5 := by decide
  have h2 : "ok".length = 2 := by decide
  omega

/-- the answer line of the driver model `ir_wf` is `ok` exactly when the check holds, i.e. (by
`checkB_iff`) exactly when the snapshot satisfies `Inv` and `Rooted` -/
theorem verdict_eq_ok_iff (s : IRStore) (root : Nat) : verdict s root = "ok" ↔ Inv s ∧ Rooted s root := by
  rw [← checkB_iff]
  constructor
  · intro h
    unfold verdict at h
    split at h
    · rename_i hnil; exact (verdict_ok_iff s root).mp hnil
    · exact absurd h (fail_ne_ok _)
  · exact verdict_ok

/-! ## non-vacuity: a two-block function inside a module, and what each kind of damage is called

`module { func { ^b1(%a): %r = op(%a) ; br ^b2   ^b2: ret(%r) } }` -/

/-- ops: 0 module, 1 func, 2 `op`, 3 `br`, 4 `ret`; blocks: 0 (module body), 1, 2; regions: 0, 1;
values: 0 = `%a` (arg of block 1), 1 = `%r` (result of op 2); uses: 0 (`op` uses `%a`), 1 (`ret`
uses `%r`), 2 (`br` → block 2) -/
def good : IRStore where
  ops := [(0, { regions := [0] }), (1, { regions := [1] }),
          (2, { operands := [0], operandUses := [0], results := [1] }),
          (3, { successors := [2], successorUses := [2] }),
          (4, { operands := [1], operandUses := [1] })]
  blocks := [(0, {}), (1, { args := [0] }), (2, {})]
  regions := [(0, { parent := some 0 }), (1, { parent := some 1 })]
  vals := [(0, { kind := .arg, owner := 1, index := 0 }), (1, { kind := .result, owner := 2, index := 0 })]
  uses := [(0, (2, 0)), (1, (4, 0)), (2, (3, 0))]
  nextUse := 3
  opL := { node := [(0, {}), (1, { parent := some 0 }), (2, { next := some 3, parent := some 1 }),
                    (3, { prev := some 2, parent := some 1 }), (4, { parent := some 2 })],
           ends := [(0, { first := some 1, last := some 1 }), (1, { first := some 2, last := some 3 }),
                    (2, { first := some 4, last := some 4 })] }
  blockL := { node := [(0, { parent := some 0 }), (1, { next := some 2, parent := some 1 }),
                       (2, { prev := some 1, parent := some 1 })],
              ends := [(0, { first := some 0, last := some 0 }), (1, { first := some 1, last := some 2 })] }
  vuseL := { node := [(0, { parent := some 0 }), (1, { parent := some 1 })],
             ends := [(0, { first := some 0, last := some 0 }), (1, { first := some 1, last := some 1 })] }
  buseL := { node := [(2, { parent := some 2 })],
             ends := [(0, {}), (1, {}), (2, { first := some 2, last := some 2 })] }

example : verdict good 0 = "ok" := by decide +kernel
example : Inv good ∧ Rooted good 0 := checkB_sound (by decide +kernel)

/-- `%r` replaced by an `ErasedSSAValue` in `ret` (what `Operation.erase(safe_erase=False)` leaves) -/
example : verdict { good with vals := [(0, { kind := .arg, owner := 1, index := 0 }), (1, { kind := .erased, owner := 7 })],
                              ops := [(0, { regions := [0] }), (1, { regions := [1] }),
                                      (2, { operands := [0], operandUses := [0] }),
                                      (3, { successors := [2], successorUses := [2] }),
                                      (4, { operands := [1], operandUses := [1] })] } 0
    = "fail erased-value-in-use" := by decide +kernel

/-- `op` detached from its block (never re-inserted) while `ret` still uses its result -/
example : verdict { good with
    opL := { node := [(0, {}), (1, { parent := some 0 }), (2, {}), (3, { parent := some 1 }), (4, { parent := some 2 })],
             ends := [(0, { first := some 1, last := some 1 }), (1, { first := some 3, last := some 3 }),
                      (2, { first := some 4, last := some 4 })] } } 0
    = "fail erased-value-in-use" := by decide +kernel

/-- block 2 moved out of the function's region (detached): `br` has a dangling successor -/
example : verdict { good with
    blockL := { node := [(0, { parent := some 0 }), (1, { parent := some 1 }), (2, {})],
                ends := [(0, { first := some 0, last := some 0 }), (1, { first := some 1, last := some 1 })] } } 0
    = "fail dangling-successor" := by decide +kernel

/-- `br`'s `parent` field cleared although block 1 still lists it: broken parent link -/
example : verdict { good with
    opL := { good.opL with node := [(0, {}), (1, { parent := some 0 }), (2, { next := some 3, parent := some 1 }),
                    (3, { prev := some 2 }), (4, { parent := some 2 })] } } 0
    = "fail op-list" := by decide +kernel

/-- the use of `%r` by `ret` missing from `%r`'s use list -/
example : verdict { good with
    vuseL := { node := [(0, { parent := some 0 }), (1, {})],
               ends := [(0, { first := some 0, last := some 0 }), (1, {})] } } 0
    = "fail use-list" := by decide +kernel

end Xdsl.C17
