import XdslProofs.Lemmas.X86Prologue
import XdslProofs.C21
/-!
C21 — the prologue/epilogue insertion step itself (model `insertPrologue` of the repaired
`X86PrologueEpilogueInsertion._process_function`, tied to the real pass by comparing its output with
the real output on every compiled function): for EVERY register-allocated body it (a) produces a frame
that restores "all callee-saved registers and the stack pointer", and (b) leaves "the result the
source program computes" untouched — including the loads of stack-passed arguments, which is where the
pinned tree went wrong.
-/
namespace Xdsl.X86

/-- every frame built by the pass has the balanced shape `frame_sound` needs -/
theorem insertPrologue_frameOk (body : List Instr) (hp : ∀ i ∈ body, plainInstr i = true) :
    frameOk (insertPrologue body) = true :=
  insertPrologue_frameOk' body hp

/-- inserting the frame changes no register outside the callee-saved set (in particular not `rax`):
for every entry state, the function with the frame returns what the bare body returns. -/
theorem insertPrologue_preserves (body : List Instr) (hp : ∀ i ∈ body, plainInstr i = true) (σ : St) :
    ∃ σo σn, run (Instr.label :: body ++ [Instr.ret]) σ = some σo ∧
      run (insertPrologue body) σ = some σn ∧
      ∀ r, r ∉ calleeSaved → r ≠ RSP → σn.reg r = σo.reg r := by
  obtain ⟨hlen, hcs, _⟩ := usedCS_spec body
  generalize hu : usedCS body = used at hlen hcs
  have hnr := plain_no_ret body hp
  have hrun_o : run (Instr.label :: body ++ [Instr.ret]) σ = some (retStep (exec body σ)) := by
    have := run_append_ret (Instr.label :: body) [] (by
      intro i hi; simp at hi; rcases hi with rfl | hi
      · simp
      · exact hnr i hi) σ
    simpa [step] using this
  have hrun_n : run (insertPrologue body) σ =
      some (retStep (exec (used.reverse.map Instr.pop)
        (exec (body.map (rebase used.length)) (exec (used.map Instr.push) σ)))) := by
    have hno : ∀ i ∈ Instr.label :: (used.map Instr.push ++ body.map (rebase used.length)
        ++ used.reverse.map Instr.pop), i ≠ Instr.ret := by
      intro i hi
      simp only [List.mem_cons, List.mem_append, List.mem_map] at hi
      rcases hi with rfl | (⟨r, _, rfl⟩ | ⟨j, hj, rfl⟩) | ⟨r, _, rfl⟩
      · simp
      · simp
      · have := hp j hj
        cases j <;> simp [plainInstr] at this <;> simp [rebase]
      · simp
    have := run_append_ret _ [] hno σ
    simp only [insertPrologue, hu]
    rw [show Instr.label :: (used.map Instr.push ++ body.map (rebase used.length)
          ++ used.reverse.map Instr.pop ++ [Instr.ret])
        = (Instr.label :: (used.map Instr.push ++ body.map (rebase used.length)
          ++ used.reverse.map Instr.pop)) ++ Instr.ret :: [] by simp, this]
    simp [exec_append, step]
  refine ⟨_, _, hrun_o, hrun_n, ?_⟩
  intro r hr h4
  obtain ⟨p1, p2, p3⟩ := exec_pushes used σ
  have S0 : Sim used.length (σ.reg RSP) σ (exec (used.map Instr.push) σ) := by
    refine ⟨p1, rfl, p2, ?_⟩
    intro k hk hk2
    exact p3 _ (fun i h1 h2 => push_slot_ne _ i k h1 (by omega) hk hk2)
  have S1 := exec_sim body hp S0
  have hru : r ∉ used.reverse := by
    intro h; exact hr (hcs r (by simpa using h))
  simp only [retStep, setReg_reg, if_neg h4]
  rw [exec_pops _ _ r hru h4, S1.regs r h4]

/-- the pass output satisfies the whole SysV frame obligation, for every body and entry state -/
theorem insertPrologue_restores (body : List Instr) (hp : ∀ i ∈ body, plainInstr i = true) (σ : St) :
    ∃ σ', run (insertPrologue body) σ = some σ' ∧ σ'.reg RSP = σ.reg RSP + 8 ∧
      ∀ r ∈ calleeSaved, σ'.reg r = σ.reg r := by
  obtain ⟨σ', h1, h2, h3, _⟩ := frame_sound _ (insertPrologue_frameOk body hp) σ
  exact ⟨σ', h1, h2, h3⟩

/-- **the pass as a whole**: if the register-allocated body computes the source function (certified by
the validator on the code *before* frame insertion), then the function *with* the inserted frame, from
every entry state, returns the source result in `rax`, restores `rbx, rbp, r12–r15` and leaves
`rsp` = entry `rsp` + 8. -/
theorem prologue_pass_correct (s : Src) (body : List Instr)
    (hv : validate s (Instr.label :: body ++ [Instr.ret]) = true)
    (hp : ∀ i ∈ body, plainInstr i = true) (σ : St) :
    ∃ σ', run (insertPrologue body) σ = some σ' ∧
      evalSrc s (fun i => trunc s.sz (argOf σ i)) = some (trunc s.sz (σ'.reg RAX)) ∧
      σ'.reg RSP = σ.reg RSP + 8 ∧ ∀ r ∈ calleeSaved, σ'.reg r = σ.reg r := by
  obtain ⟨σ₁, h₁, hres⟩ := validate_sound s _ hv σ
  obtain ⟨σo, σn, ho, hn, hsame⟩ := insertPrologue_preserves body hp σ
  obtain ⟨σ₂, h₂, hsp, hcs⟩ := insertPrologue_restores body hp σ
  have e1 : σ₁ = σo := by rw [h₁] at ho; exact Option.some.inj ho
  have e2 : σ₂ = σn := by rw [h₂] at hn; exact Option.some.inj hn
  subst e1 e2
  refine ⟨σ₂, h₂, ?_, hsp, hcs⟩
  rw [hsame RAX (by decide) (by decide)]
  exact hres

/-- the pinned behaviour (loads not rebased) is *not* result-preserving: `f(a0..a6) = a6` whose body
defines `rbx` — with the frame, the unrebased `[rsp+8]` is the return-address slot. -/
theorem unrebased_load_counterexample :
    ∃ σ σo σn, run [Instr.label, .load .q 3 8, .mov .q 0 3, .ret] σ = some σo ∧
      run [Instr.label, .push 3, .load .q 3 8, .mov .q 0 3, .pop 3, .ret] σ = some σn ∧
      σn.reg RAX ≠ σo.reg RAX := by
  refine ⟨enter [0, 0, 0, 0, 0, 0, 5] [], _, _, rfl, rfl, ?_⟩
  decide +kernel

example : insertPrologue [.load .q 3 8, .mov .q 0 3]
    = [.label, .push 3, .load .q 3 16, .mov .q 0 3, .pop 3, .ret] := by decide +kernel

end Xdsl.X86
