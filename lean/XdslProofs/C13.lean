import XdslProofs.Lemmas.DCETriv
import XdslProofs.Lemmas.DCEEff
/-!
# C13 — property theorems (liveness, deletion, the `dce` pass)

"Dead-code elimination removes only operations whose results are unused and that are not
terminators, symbols or operations with possibly observable effects, plus blocks that are
unreachable; program results are unchanged, and after the dce pass no removable operation or
unreachable block remains."

`P : T` is the region handed to `region_dce` (the module body), with unique operation ids
(`(allIds P).Nodup`) and well-sorted (`ws P .regions`).  `LV P h rs` is the least live set
(`Lemmas/DCE.lean`): the operation cell `(h, rs)` sits in a block that the post-order iteration of
its region yields, that region being the top region or a region of a live operation, and it is not
would-be-trivially-dead or a live operation uses one of its results.  The model is the FIXED code
(see `XdslModel/DCE.lean`).  Result preservation is in `C13Sem.lean`.
-/
namespace Xdsl.DCE
open Xdsl.Graph

/-! ## `would_be_trivially_dead` -/

/-- "…that are not terminators, symbols or operations with possibly observable effects": an
operation that `would_be_trivially_dead` accepts is no terminator, no symbol operation, its effects
are known, and each of them is a `READ` or an `ALLOC` of a value defined by the operation itself or
inside it. -/
theorem wbd_spec {h : Hdr} {rs : T} (hw : wbd h rs = true) :
    h.term = false ∧ h.sym = false ∧ ∃ es, opEff h (effAll rs) = some es ∧
      ∀ e ∈ es, e = .read ∨ ∃ o, e = .allocOn o ∧ o ∈ h.id :: allIds rs := by
  simp only [wbd, Bool.and_eq_true, Bool.not_eq_true'] at hw
  refine ⟨hw.1.1, hw.1.2, ?_⟩
  have hr := hw.2
  unfold resultOnlyEffects at hr
  split at hr
  · cases hr
  · rename_i es hes
    refine ⟨es, hes, ?_⟩
    intro e he
    have := List.all_eq_true.mp hr e he
    cases e with
    | read => exact Or.inl rfl
    | allocOn o => exact Or.inr ⟨o, rfl, by simpa [effOk] using this⟩
    | write => simp [effOk] at this
    | free => simp [effOk] at this
    | alloc => simp [effOk] at this

/-- an operation without `MemoryEffect` trait (unknown effects) always stays -/
theorem wbd_unknown {h : Hdr} {rs : T} (hu : h.eff = none) : wbd h rs = false := by
  simp [wbd, resultOnlyEffects, opEff, hu]

/-- an operation with recursive effects that contains (directly, in any block of its regions) an
operation with unknown effects always stays -/
theorem wbd_recursive_unknown {h : Hdr} {rs : T} (hr : h.recursive = true) (hu : effAll rs = none) :
    wbd h rs = false := by
  cases he : h.eff <;> simp [wbd, resultOnlyEffects, opEff, he, hr, hu]

/-- "…operations with possibly observable effects", for an operation with recursive effects: NO
position inside it is exempt.  `would_be_trivially_dead` accepts it exactly if it is no terminator, no
symbol operation, its own declared effects are harmless, and EVERY operation directly in a block of
one of its regions (`directCells`: every region, every block of the region — reached or not —, every
operation of the block) has known effects (computed the same way, so this descends through nested
operations with recursive effects) that are all harmless: `READ`, or `ALLOC` of a value defined by
the operation or inside it. -/
theorem wbd_recursive_iff {h : Hdr} {rs : T} (hr : h.recursive = true) :
    wbd h rs = true ↔ h.term = false ∧ h.sym = false ∧
      (∃ own, h.eff = some own ∧ ∀ e ∈ own, effOk (h.id :: allIds rs) e = true) ∧
      ∀ c ∈ directCells rs, ∃ ce, opEff c.1 (effAll c.2) = some ce ∧
        ∀ e ∈ ce, effOk (h.id :: allIds rs) e = true := by
  have hw : wbd h rs = (!h.term && !h.sym && match h.eff, effAll rs with
      | some own, some inner => (own ++ inner).all (effOk (h.id :: allIds rs))
      | _, _ => false) := by
    cases he : h.eff <;> cases ha : effAll rs <;> simp [wbd, resultOnlyEffects, opEff, hr, he, ha]
  rw [hw]
  simp only [Bool.and_eq_true, Bool.not_eq_true']
  constructor
  · rintro ⟨⟨ht, hs⟩, hres⟩
    refine ⟨ht, hs, ?_⟩
    cases hown : h.eff with
    | none => simp [hown] at hres
    | some own =>
      cases hall : effAll rs with
      | none => simp [hown, hall] at hres
      | some inner =>
        simp only [hown, hall, List.all_eq_true] at hres
        refine ⟨⟨own, rfl, fun e he => hres e (List.mem_append_left _ he)⟩, ?_⟩
        intro c hc
        obtain ⟨ce, h1, h2⟩ := effAll_some_children rs inner hall c hc
        exact ⟨ce, h1, fun e he => hres e (List.mem_append_right _ (h2 e he))⟩
  · rintro ⟨ht, hs, ⟨own, hown, hok⟩, hch⟩
    refine ⟨⟨ht, hs⟩, ?_⟩
    cases hall : effAll rs with
    | none =>
      obtain ⟨c, hc, hn⟩ := (effAll_none_iff rs).mp hall
      obtain ⟨ce, h1, _⟩ := hch c hc
      rw [hn] at h1; cases h1
    | some inner =>
      simp only [hown, List.all_eq_true]
      intro e he
      rcases List.mem_append.mp he with he | he
      · exact hok e he
      · obtain ⟨c, hc, ce, h1, h2⟩ := effAll_some_origin rs inner hall e he
        obtain ⟨ce', h1', h2'⟩ := hch c hc
        rw [h1] at h1'; cases h1'
        exact h2' e h2

/-- read from the other side: one operation with an unknown or observable effect — in whichever
region, block and position — keeps the enclosing operation with recursive effects -/
theorem wbd_recursive_child_observable {h : Hdr} {rs : T} (hr : h.recursive = true) {c : Hdr × T}
    (hc : c ∈ directCells rs)
    (hobs : ∀ ce, opEff c.1 (effAll c.2) = some ce → ∃ e ∈ ce, effOk (h.id :: allIds rs) e = false) :
    wbd h rs = false := by
  cases hw : wbd h rs
  · rfl
  · obtain ⟨ce, h1, h2⟩ := ((wbd_recursive_iff hr).mp hw).2.2.2 c hc
    obtain ⟨e, he, hf⟩ := hobs ce h1
    rw [h2 e he] at hf; cases hf

/-! ## the liveness loop -/

/-- The `while live_set.changed` loop ends within `#operations + 1` passes. -/
theorem liveness_converges {P : T} (hnd : (allIds P).Nodup) :
    (liveLoop P ((allHdrs P).length + 1) [] 0).2.2 = true :=
  liveLoop_converges hnd

/-- The set the loop computes is exactly the least live set. -/
theorem live_iff_least {P : T} (hnd : (allIds P).Nodup) (i : Nat) :
    i ∈ liveSet P ↔ ∃ h rs, LV P h rs ∧ h.id = i :=
  live_iff hnd i

/-! ## soundness of `region_dce` -/

/-- **dce_sound.**  `region_dce` keeps every operation of the least live set: every operation it
removes is outside the least set that contains the visited operations that are not
would-be-trivially-dead and is closed under "a live operation uses its result". -/
theorem dce_sound {P : T} (hnd : (allIds P).Nodup) (hws : ws P .regions = true) {h : Hdr} {rs : T}
    (hl : LV P h rs) : h.id ∈ allIds (dceOnce P).1 := by
  unfold dceOnce
  simp only
  split
  · exact mem_allIds_of_cell hl.mem
  · rw [allIds_del]
    exact (LV.kept hws (fun h rs hl => (live_iff hnd _).mpr ⟨h, rs, hl, rfl⟩) hl).1

/-- the same, read from the removed side -/
theorem dce_sound_removed {P : T} (hnd : (allIds P).Nodup) (hws : ws P .regions = true) {i : Nat}
    (hrem : i ∉ allIds (dceOnce P).1) : ¬ LiveId P i := by
  rintro ⟨h, rs, hl, rfl⟩
  exact hrem (dce_sound hnd hws hl)

/-- "…removes only operations whose results are unused and that are not terminators, symbols or
operations with possibly observable effects": a visited operation (one in a block reached from the
entry of the top region or of a region of a kept operation) that is not in the least live set is
would-be-trivially-dead, and no live operation uses a result of it.  Every other removed operation
sits in a block that is not reached or inside a removed operation. -/
theorem removed_is_dead {P : T} {h : Hdr} {rs : T} (hv : Vis P (h, rs)) (hn : ¬ LV P h rs) :
    wbd h rs = true ∧ ∀ u urs, LV P u urs → h.id ∉ u.operands := by
  constructor
  · cases hw : wbd h rs
    · exact absurd (LV.of_vis_base hv hw) hn
    · rfl
  · intro u urs hu hm
    exact hn (LV.of_vis_user hv hu hm)

/-- In terms of the computed set: a visited operation that `region_dce` does not mark live is no
terminator, no symbol operation, has only unobservable effects, and none of its results is used by
an operation marked live. -/
theorem removed_is_dead_computed {P : T} (hnd : (allIds P).Nodup) {h : Hdr} {rs : T}
    (hv : Vis P (h, rs)) (hn : h.id ∉ liveSet P) :
    h.term = false ∧ h.sym = false ∧ wbd h rs = true
      ∧ ∀ u ∈ allHdrs P, u.id ∈ liveSet P → h.id ∉ u.operands := by
  have hnl : ¬ LV P h rs := fun hl => hn ((live_iff hnd _).mpr ⟨h, rs, hl, rfl⟩)
  have := removed_is_dead hv hnl
  have hs := wbd_spec this.1
  refine ⟨hs.1, hs.2.1, this.1, ?_⟩
  intro u hu hul hm
  have hcl := liveSet_closed hnd
  rcases hv with hv | ⟨h', rs', hl', hv⟩
  · exact hn ((closed_mem P none hcl h rs hv).1 (Or.inr (hasLiveUser_iff.mpr ⟨u, hu, hm, hul⟩)))
  · have hc' := (hl'.sub_closed hcl).2
    exact hn ((closed_mem rs' none hc' h rs hv).1 (Or.inr (hasLiveUser_iff.mpr ⟨u, hu, hm, hul⟩)))

/-- "…plus blocks that are unreachable": `delete_dead` erases a block only if it is not the entry
block and none of its operations is live.  A block that the post-order iteration of a visited region
yields and that holds an operation that is not would-be-trivially-dead (its terminator, in
well-formed IR) has a live operation, hence is kept: every removed block of a visited region that
ends in a terminator is unreachable. -/
theorem reachable_block_kept {P : T} (hnd : (allIds P).Nodup) {bs : T} (hw : ws bs .blocks = true)
    {k : Nat} (hvis : ∀ c ∈ vcells bs (some k), Vis P c) {h : Hdr} {rs : T}
    (hc : (h, rs) ∈ vcells bs (some k)) (hnw : wbd h rs = false) :
    anyLive (liveSet P) (blockAt bs k) = true := by
  have hl : LV P h rs := LV.of_vis_base (hvis _ hc) hnw
  have hm : h.id ∈ liveSet P := (live_iff hnd _).mpr ⟨h, rs, hl, rfl⟩
  rw [vcells_blockAt bs k hw] at hc
  exact anyLive_of_vcell _ _ (ws_blockAt bs k hw) h rs hc hm

/-- the same, read from the removed side: a block of a visited region that `delete_dead` finds
without live operation although it holds an operation that is not would-be-trivially-dead (its
terminator) is not yielded by the post-order iteration from the entry block, i.e. it is unreachable -/
theorem removed_block_unreachable {P : T} (hnd : (allIds P).Nodup) {bs : T} (hw : ws bs .blocks = true)
    {k : Nat} (hvis : k ∈ reachSet bs → ∀ c ∈ vcells bs (some k), Vis P c)
    (hdead : anyLive (liveSet P) (blockAt bs k) = false) {h : Hdr} {rs : T}
    (hc : (h, rs) ∈ vcells bs (some k)) (hnw : wbd h rs = false) : k ∉ reachSet bs := by
  intro hk
  have := reachable_block_kept hnd hw (hvis hk) hc hnw
  rw [hdead] at this
  cases this

/-- no dangling use: a visited operation whose result is used by a kept (live) operation is kept -/
theorem kept_operands_kept {P : T} (hnd : (allIds P).Nodup) (hws : ws P .regions = true)
    {h u : Hdr} {rs urs : T} (hu : LV P u urs) (hv : Vis P (h, rs)) (hm : h.id ∈ u.operands) :
    h.id ∈ allIds (dceOnce P).1 :=
  dce_sound hnd hws (LV.of_vis_user hv hu hm)

/-! ## completeness of the `dce` pass -/

/-- **dce_complete.**  `DeadCodeElimination.apply` (`while region_dce(op.body): pass`) ends within
`size + 1` calls; in the module it leaves, every operation belongs to the least live set of that
module ("no removable operation remains") and every block other than an entry block is yielded by
the post-order iteration from the entry block of its region ("no unreachable block remains"; by
`postorder_spec` of C24 the yielded blocks are exactly the reachable ones). -/
theorem dce_complete {P : T} (hnd : (allIds P).Nodup) :
    (dce P).2.2 = true
      ∧ (∀ i ∈ allIds (dce P).1, LiveId (dce P).1 i)
      ∧ AllReach (dce P).1 true [] 0 := by
  obtain ⟨h1, h2, h3⟩ := dceLoop_spec (size P + 1) P 0 hnd (by omega)
  refine ⟨h1, ?_, ?_⟩
  · intro i hi
    have hk := allKept_of_size _ _ true [] h3
    exact (live_iff h2 i).mp (allKept_ids _ _ true hk i hi)
  · have hk := allKept_of_size _ _ true [] h3
    refine allReach_of_kept _ _ [] 0 true h2 ?_ hk
    intro i hi _
    obtain ⟨h, rs, hl, rfl⟩ := (live_iff h2 i).mp hi
    exact hl.rIds.1

/-- the pass does not create operations: what it leaves is a sub-list of the input's operations -/
theorem dce_ids_sub : ∀ fuel t n, ∀ i ∈ allIds (dceLoop fuel t n).1, i ∈ allIds t := by
  intro fuel
  induction fuel with
  | zero => intro t n i hi; simpa [dceLoop] using hi
  | succ fuel ih =>
    intro t n i hi
    simp only [dceLoop] at hi
    split at hi
    · have := ih _ _ i hi
      unfold dceOnce at this
      simp only at this
      split at this
      · exact this
      · rw [allIds_del] at this; exact (kIds_sublist _ t true).subset this
    · unfold dceOnce at hi
      simp only at hi
      split at hi
      · exact hi
      · rw [allIds_del] at hi; exact (kIds_sublist _ t true).subset hi

/-- With well-formed region graphs in the result (`wfT`: successors inside their region), "yielded by
the post-order iteration" is reachability (`postorder_spec`, C24): every block of every region that
the pass leaves is reachable from the entry block of its region. -/
theorem dce_complete_reachable {P : T} (hnd : (allIds P).Nodup) (hwf : wfT (dce P).1 = true) :
    AllReachG (dce P).1 [] 0 :=
  allReachG_of _ true [] 0 [] hwf (fun b hb => by simp at hb) (fun _ => rfl) (dce_complete hnd).2.2

/-! ## every call of `region_dce` made by the pass is sound -/

/-- the modules the pass goes through: `dceSteps k P` is the module after `k` calls of `region_dce` -/
def dceSteps : Nat → T → T
  | 0, t => t
  | k + 1, t => dceSteps k (dceOnce t).1

theorem dceSteps_succ (k : Nat) (t : T) : dceSteps (k + 1) t = (dceOnce (dceSteps k t)).1 := by
  induction k generalizing t with
  | zero => rfl
  | succ k ih => simp only [dceSteps] at ih ⊢; exact ih _

/-- the module the pass leaves is one of them -/
theorem dce_is_step : ∀ fuel t n, ∃ k, (dceLoop fuel t n).1 = dceSteps k t := by
  intro fuel
  induction fuel with
  | zero => intro t n; exact ⟨0, rfl⟩
  | succ fuel ih =>
    intro t n
    simp only [dceLoop]
    split
    · obtain ⟨k, hk⟩ := ih (dceOnce t).1 (n + 1)
      exact ⟨k + 1, hk⟩
    · exact ⟨1, rfl⟩

/-- **dce_pass_sound.**  At every call of `region_dce` made by `DeadCodeElimination.apply`, every
operation of the least live set of the current module is kept (`dce_sound` for each step; unique ids
and well-sortedness are invariants of the loop). -/
theorem dce_pass_sound {P : T} (hnd : (allIds P).Nodup) (hws : ws P .regions = true) (k : Nat)
    {h : Hdr} {rs : T} (hl : LV (dceSteps k P) h rs) : h.id ∈ allIds (dceSteps (k + 1) P) := by
  have inv : ∀ k, (allIds (dceSteps k P)).Nodup ∧ ws (dceSteps k P) .regions = true := by
    intro k
    induction k with
    | zero => exact ⟨hnd, hws⟩
    | succ k ih => rw [dceSteps_succ]; exact ⟨dceOnce_nodup ih.1, dceOnce_ws ih.2⟩
  rw [dceSteps_succ]
  exact dce_sound (inv k).1 (inv k).2 hl

/-! ## trivially dead operations (rewrite walkers) -/

/-- `is_trivially_dead(op)`: no result of the operation has a use anywhere, and it is
would-be-trivially-dead (hence no terminator, no symbol, no observable effect: `wbd_spec`). -/
theorem trivDead_spec {root : T} {h : Hdr} {rs : T} (ht : trivDead root h rs = true) :
    wbd h rs = true ∧ ∀ u ∈ allHdrs root, h.id ∉ u.operands := by
  simp only [trivDead, isUsed, Bool.and_eq_true, Bool.not_eq_true', List.any_eq_false,
    List.contains_iff_mem] at ht
  exact ⟨ht.2, fun u hu => by simpa using ht.1 u hu⟩

/-- **triv_sound.**  Every operation that one sweep of the trivially-dead erasure removes is a
trivially dead operation or is nested in one. -/
theorem triv_sound (P : T) {i : Nat} (hi : i ∈ allIds P) (hrem : i ∉ allIds (trivDel P P)) :
    ∃ h rs, (h, rs) ∈ allCells P ∧ i ∈ h.id :: allIds rs ∧ wbd h rs = true
      ∧ ∀ u ∈ allHdrs P, h.id ∉ u.operands := by
  obtain ⟨h, rs, hc, ht, hm⟩ := trivDel_removed P P i hi hrem
  exact ⟨h, rs, hc, hm, (trivDead_spec ht).1, (trivDead_spec ht).2⟩

/-- The erasure reaches its fixpoint within `size + 1` sweeps, and then no operation of the module
is trivially dead. -/
theorem triv_complete (P : T) : (triv P).2 = true
    ∧ ∀ h rs, (h, rs) ∈ allCells (triv P).1 → trivDead (triv P).1 h rs = false := by
  obtain ⟨h1, h2⟩ := trivLoop_spec (size P + 1) P (by omega)
  exact ⟨h1, trivDel_fix _ _ h2⟩

/-! ## Non-vacuity -/

private def hPure (i : Nat) (us : List Nat) : Hdr := ⟨i, us, false, false, some [], false, []⟩
private def hWrite (i : Nat) (us : List Nat) : Hdr := ⟨i, us, false, false, some [.write], false, []⟩
private def hTerm (i : Nat) (us : List Nat) (ss : List Nat) : Hdr := ⟨i, us, true, false, none, false, ss⟩
private def hYield (i : Nat) (us : List Nat) : Hdr := ⟨i, us, true, false, some [], false, []⟩
private def hRec (i : Nat) (us : List Nat) : Hdr := ⟨i, us, false, false, some [], true, []⟩

/-- `%0 = pure; %1 = rec { %2 = pure(%0); yield(%2) }; term` (a dead `scf.if` using an outer value,
the minimal failing input of the pinned code: it kept `%0`): one call removes `%0` and `%1`, the
second call finds nothing. -/
example : dce (.region (.block (.op (hPure 0 []) .nil (.op (hRec 1 [])
      (.region (.block (.op (hPure 2 [0]) .nil (.op (hYield 3 [2]) .nil .nil)) .nil) .nil)
      (.op (hTerm 4 [] []) .nil .nil))) .nil) .nil)
    = (.region (.block (.op (hTerm 4 [] []) .nil .nil) .nil) .nil, 2, true) := by decide

/-- a write inside the `rec` operation keeps it, its contents and the outer value it uses -/
example : (dce (.region (.block (.op (hPure 0 []) .nil (.op (hRec 1 [])
      (.region (.block (.op (hWrite 2 [0]) .nil (.op (hYield 3 []) .nil .nil)) .nil) .nil)
      (.op (hTerm 4 [] []) .nil .nil))) .nil) .nil)).2 = (1, true) := by decide

private def hRead (i : Nat) (us : List Nat) : Hdr := ⟨i, us, false, false, some [.read], false, []⟩

/-- `rec { read; yield }, { write; yield }` (an `scf.if` whose then-region loads and whose else-region
stores) is not would-be-trivially-dead; with two loading regions it is -/
example : wbd (hRec 0 []) (.region (.block (.op (hRead 1 []) .nil (.op (hYield 2 []) .nil .nil)) .nil)
      (.region (.block (.op (hWrite 3 []) .nil (.op (hYield 4 []) .nil .nil)) .nil) .nil)) = false := by decide
example : wbd (hRec 0 []) (.region (.block (.op (hRead 1 []) .nil (.op (hYield 2 []) .nil .nil)) .nil)
      (.region (.block (.op (hRead 3 []) .nil (.op (hYield 4 []) .nil .nil)) .nil) .nil)) = true := by decide

/-- the write in the second block of the third region, below a nested `rec` whose first region reads -/
example : wbd (hRec 0 []) (.region (.block (.op (hRead 1 []) .nil (.op (hYield 2 []) .nil .nil)) .nil)
      (.region (.block (.op (hYield 3 []) .nil .nil) .nil)
      (.region (.block (.op (hYield 4 []) .nil .nil) (.block (.op (hRec 5 [])
        (.region (.block (.op (hRead 6 []) .nil (.op (hYield 7 []) .nil .nil)) .nil)
        (.region (.block (.op (hWrite 8 []) .nil (.op (hYield 9 []) .nil .nil)) .nil) .nil))
        (.op (hYield 10 []) .nil .nil)) .nil)) .nil))) = false := by decide

/-- dead use cycle `%0 = pure(%1); %1 = pure(%0)`, an unreachable block `^1` (with a write) that
branches to the reachable `^2`: the cycle and `^1` go, the successor of the entry terminator is renamed -/
example : dce (.region (.block (.op (hPure 0 [1]) .nil (.op (hPure 1 [0]) .nil
      (.op (hTerm 2 [] [2]) .nil .nil))) (.block (.op (hWrite 3 []) .nil (.op (hTerm 4 [] [2]) .nil .nil))
      (.block (.op (hTerm 5 [] []) .nil .nil) .nil))) .nil)
    = (.region (.block (.op (hTerm 2 [] [1]) .nil .nil) (.block (.op (hTerm 5 [] []) .nil .nil) .nil)) .nil,
       2, true) := by decide

/-- the walker-style erasure does not remove the cycle (each member has a use) but removes an unused chain -/
example : (triv (.region (.block (.op (hPure 0 [1]) .nil (.op (hPure 1 [0]) .nil (.op (hPure 6 []) .nil
      (.op (hPure 7 [6]) .nil (.op (hTerm 2 [] []) .nil .nil))))) .nil) .nil)).1
    = .region (.block (.op (hPure 0 [1]) .nil (.op (hPure 1 [0]) .nil
        (.op (hTerm 2 [] []) .nil .nil))) .nil) .nil := by decide

end Xdsl.DCE
