import XdslProofs.Lemmas.ArithCasts
import XdslProofs.Lemmas.ArithInterp
import XdslModel.Generated.ArithInterp
/-!
# C15 (extension) — the interpreter's cast kernels compute MLIR (`BitVec`) semantics

"… casts truncate or extend as specified".  `_truncate`, `_sign_extend` and `run_indexcast` are
*regenerated from `/repo/xdsl/interpreters/arith.py` on every check run*; the theorems hold for every
positive width and every Python int (any representative of the signless value, in range or not).
-/
namespace Xdsl.C15
open Xdsl.Generated.ArithInterp

/-- `_truncate(v, w)`: the two's-complement value of the low `w` bits of `v`. -/
theorem truncate_eq (v : Int) (w : Nat) (hw : 0 < w) :
    _truncate v (w : Int) = (BitVec.ofInt w v).toInt := by
  rw [truncate_eq_bmod v w hw, BitVec.toInt_ofInt]

/-- `_sign_extend(v, w)`: reads the low `w` bits of `v` as a two's-complement number. -/
theorem sign_extend_eq (v : Int) (w : Nat) (hw : 0 < w) :
    _sign_extend v (w : Int) = (BitVec.ofInt w v).toInt := by
  rw [sign_extend_eq_bmod v w hw, BitVec.toInt_ofInt]

/-- the two kernels are the same function (both equal the signed normalisation `to_signed`) -/
theorem truncate_eq_sign_extend (v : Int) (w : Nat) (hw : 0 < w) :
    _truncate v (w : Int) = _sign_extend v (w : Int) := by
  rw [truncate_eq v w hw, sign_extend_eq v w hw]

/-- `arith.index_cast` (the interpreter's `run_indexcast`, input width `wi`, result width `w`):
narrowing truncates the bit pattern, widening sign-extends it, equal widths return the value
unchanged; in the first two cases the result is the canonical signed representative. -/
theorem run_indexcast_spec (wi w : Nat) (hwi : 0 < wi) (hw : 0 < w) (a : Int) :
    (wi > w → BitVec.ofInt w (run_indexcast wi w a) = (BitVec.ofInt wi a).truncate w
              ∧ InSignedRange w (run_indexcast wi w a))
    ∧ (wi < w → BitVec.ofInt w (run_indexcast wi w a) = (BitVec.ofInt wi a).signExtend w
              ∧ InSignedRange w (run_indexcast wi w a))
    ∧ (wi = w → run_indexcast wi w a = a) := by
  refine ⟨?_, ?_, ?_⟩
  · intro h
    have h1 : ((wi : Int) > (w : Int)) := by omega
    simp only [run_indexcast, h1, decide_true, if_true, truncate_eq a w hw]
    exact ⟨by rw [BitVec.ofInt_toInt, BitVec.truncate_eq_setWidth, BV.setWidth_ofInt_of_le wi w (by omega)],
      toInt_inRange _⟩
  · intro h
    have h1 : ¬ ((wi : Int) > (w : Int)) := by omega
    have h2 : ((wi : Int) < (w : Int)) := by omega
    simp only [run_indexcast, h1, h2, decide_true, decide_false, if_true, if_false,
      Bool.false_eq_true, sign_extend_eq a wi hwi]
    exact ⟨rfl, inSignedRange_mono (by omega) (toInt_inRange _)⟩
  · intro h
    subst h
    simp [run_indexcast]

/-- widening, value form: the result is the two's-complement value of the `wi`-bit input pattern,
which is also the value of the sign-extended pattern. -/
theorem run_indexcast_widen_value (wi w : Nat) (hwi : 0 < wi) (h : wi < w) (a : Int) :
    run_indexcast wi w a = (BitVec.ofInt wi a).toInt
    ∧ run_indexcast wi w a = ((BitVec.ofInt wi a).signExtend w).toInt := by
  have h1 : ¬ ((wi : Int) > (w : Int)) := by omega
  have h2 : ((wi : Int) < (w : Int)) := by omega
  simp only [run_indexcast, h1, h2, decide_true, decide_false, if_true, if_false,
    Bool.false_eq_true, sign_extend_eq a wi hwi]
  exact ⟨trivial, (BitVec.toInt_signExtend_of_le (by omega)).symm⟩

/-- narrowing, value form -/
theorem run_indexcast_narrow_value (wi w : Nat) (hw : 0 < w) (h : w < wi) (a : Int) :
    run_indexcast wi w a = ((BitVec.ofInt wi a).truncate w).toInt := by
  have h1 : ((wi : Int) > (w : Int)) := by omega
  simp only [run_indexcast, h1, decide_true, if_true, truncate_eq a w hw]
  rw [BitVec.truncate_eq_setWidth, BV.setWidth_ofInt_of_le wi w (by omega)]

/-- non-vacuity / sanity: `index_cast` of `0xF0 : i8` to `i4` is `0`, of `-3 : i4` (given as 13) to
`i8` is `-3`, of `200` (`= -56 : i8`) to `i4` is `-8`. -/
example : run_indexcast 8 4 0xF0 = 0 ∧ run_indexcast 4 8 13 = -3 ∧ run_indexcast 8 4 200 = -8
    ∧ _truncate (-1) 1 = -1 ∧ _sign_extend 5 1 = -1 := by decide +kernel

end Xdsl.C15
