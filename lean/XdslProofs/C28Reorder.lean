import XdslProofs.Lemmas.EGraphTopo
/-!
# C28 — the re-ordering that ends `eqsat-extract` (`restore_dominance_order`)

"Once the e-classes are gone every operation has to come after the operations of its block that
compute its operands": the model `topoSort` of the stable depth-first topological sort (fast path for
ordered blocks, explicit stack, `emitted` / `on_stack` sets, fuel) is proved correct for EVERY block
whose result ids are distinct:

* `topoSort_perm` — the new block is a permutation of the old one (nothing lost, nothing duplicated;
  cyclic blocks included; the fuel the model hands out always suffices);
* `topoSort_ordered` — when the dependencies are acyclic, every operand that the block defines is
  defined before its use in the new block;
* `topoSort_runs` — hence the re-ordered block can be executed whenever the operands it does not
  define itself are bound;
* `extract_order` — the same two facts for the output of `extract`.

The correspondence of `topoSort` with the real `restore_dominance_order` is checked by the harness on
every block with up to 4 binary operations in every placement and on random larger ones.  No Mathlib.
-/
namespace Xdsl.EGraph

variable {V : Type}

/-! ## the theorems -/

/-- **topoSort_perm** — `restore_dominance_order` neither loses nor duplicates an operation: for
every block with distinct result ids (ordered or not, cyclic or not) the re-ordered block is a
permutation of the block. -/
theorem topoSort_perm {body : List Node} (hnd : (body.map (·.res)).Nodup) : (topoSort body).Perm body := by
  rw [topoSort_eq]
  split
  · exact List.Perm.refl _
  · obtain ⟨hi, _, hall⟩ := topoSort_final hnd (fun _ => True) (fun _ _ _ _ _ => trivial)
      (fun _ _ _ _ => trivial) trivial
    generalize body.foldl (rootStep body) {} = st at hi hall
    have hdef : ∀ v ∈ st.order.reverse, (findDef body v).isSome = true :=
      fun v hv => hi.df v (List.mem_append_right _ (List.mem_reverse.1 hv))
    have hres := filterMap_findDef_res body st.order.reverse hdef
    have hndo : st.order.reverse.Nodup :=
      ((List.reverse_perm st.order).nodup_iff).2 (List.nodup_append.1 hi.nd).2.1
    have hnd1 : (st.order.reverse.filterMap (findDef body)).Nodup := by
      apply nodup_of_map (·.res)
      rw [hres]; exact hndo
    have hnd2 : body.Nodup := nodup_of_map _ hnd
    apply (List.perm_ext_iff_of_nodup hnd1 hnd2).2
    intro n
    constructor
    · intro h
      simp only [List.mem_filterMap] at h
      obtain ⟨v, _, hv⟩ := h
      exact (findDef_mem hv).1
    · intro h
      simp only [List.mem_filterMap]
      exact ⟨n.res, List.mem_reverse.2 (hall n h), findDef_of_mem_nodup hnd h⟩

/-- **topoSort_ordered** — when the dependencies of the block are acyclic (`rank` decreases from every
operation to the operands that the block defines), the re-ordered block is in def-before-use order:
scanning it, every operand is either not defined by the block at all (block argument, outer value) or
defined by an operation placed earlier. -/
theorem topoSort_ordered {body : List Node} (hnd : (body.map (·.res)).Nodup) {rank : Nat → Nat}
    (hacy : Acyclic body rank) : OrdFrom (External body) (topoSort body) := by
  rw [topoSort_eq]
  split
  · rename_i ho
    exact ordFrom_of_isOrdered hacy ho
  · obtain ⟨hi, ha, _⟩ := topoSort_final hnd (AInv body rank)
      (fun _ _ hi ha hs => topoStep_acyclic hacy.on_deps hi ha hs)
      (fun st n ha _ => AInv_start st n ha) ⟨List.Pairwise.nil, trivial⟩
    exact closed_ordFrom hacy _ ha.cl (fun v hv => hi.df v (List.mem_append_right _ hv))

/-- **topoSort_runs** — the re-ordered block of an acyclic block can be executed: evaluation succeeds
from every environment that binds the operands the block does not define itself. -/
theorem topoSort_runs (I : Interp V) {body : List Node} (hnd : (body.map (·.res)).Nodup) {rank : Nat → Nat}
    (hacy : Acyclic body rank) (hne : ∀ r a m, .cls r a m ∈ body → a ≠ []) (σ : Env V)
    (hσ : ∀ n ∈ body, ∀ a ∈ n.args, External body a → σ a ≠ none) :
    ∃ σ', evalNodes I (topoSort body) σ = some σ' := by
  have ho := topoSort_ordered hnd hacy
  have hq := OrdFrom.restrict (Q := fun a => External body a → σ a ≠ none) ho
    (fun n hn a ha => hσ n (mem_topoSort hn) a ha)
  obtain ⟨σ', h, _⟩ := evalNodes_of_ord I (topoSort body) _ σ hq (fun x hx => hx.2 hx.1)
    (fun r a m hm => hne r a m (mem_topoSort hm))
  exact ⟨σ', h⟩

/-- **extract_order** — `eqsat-extract`: whatever the extraction loop leaves in the block, the pass
returns a permutation of it, in def-before-use order when its dependencies are acyclic. -/
theorem extract_order {g g' : Prog} (hl : extractLoop g = some g') (hnd : (g'.body.map (·.res)).Nodup) :
    ∃ p', extract g = some p' ∧ p'.nargs = g'.nargs ∧ p'.ret = g'.ret ∧ p'.body.Perm g'.body ∧
      ∀ rank, Acyclic g'.body rank → OrdFrom (External g'.body) p'.body := by
  refine ⟨{ g' with body := topoSort g'.body }, ?_, rfl, rfl, topoSort_perm hnd, fun rank h => topoSort_ordered hnd h⟩
  unfold extract
  rw [hl]

/-! ## non-vacuity -/

/-- a transitive out-of-order chain: `x` (first in the block) uses `y` (last), `y` uses `z`, which
sits between them; the only admissible order is `z, y, x` -/
def chainBody : List Node :=
  [.op 1 "x" "" [0, 3] none, .op 2 "z" "" [0, 0] none, .op 3 "y" "" [0, 2] none]

example : topoSort chainBody =
    [.op 2 "z" "" [0, 0] none, .op 3 "y" "" [0, 2] none, .op 1 "x" "" [0, 3] none] := by decide

example : Acyclic chainBody (fun v => if v = 1 then 2 else if v = 3 then 1 else 0) := by
  intro n hn a ha hd
  simp only [chainBody, List.mem_cons, List.mem_nil_iff, or_false] at hn
  rcases hn with rfl | rfl | rfl <;> simp only [Node.args, List.mem_cons, List.mem_nil_iff, or_false] at ha <;>
    rcases ha with rfl | rfl <;> first | decide | (exfalso; revert hd; decide)

/-- a cyclic block is left as a permutation (here: unchanged order of first visits) -/
example : topoSort [.op 1 "a" "" [2] none, .op 2 "b" "" [1] none] =
    [.op 2 "b" "" [1] none, .op 1 "a" "" [2] none] := by decide

end Xdsl.EGraph
