import XdslProofs.Lemmas.ArithFold
import XdslModel.Sem
/-!
# C14 (B) — the fold kernels of `xdsl/dialects/arith.py` compute the bit-exact MLIR result

`Xdsl.Generated.ArithPyOps.*` (`py_operation`, `is_right_unit`, `is_right_zero` of every
`SignlessIntegerBinaryOperation`) and `Xdsl.Generated.BuiltinInt.normalized_value_signless`
(`IntegerType.normalized_value`, the `truncate_bits=True` path of
`IntegerAttr(result, type, truncate_bits=True)` in `SignlessIntegerBinaryOperation.fold` and of
`ConstantOp.from_int_and_width(…, truncate_bits=True)` in `SignlessIntegerBinaryOperationConstantProp`)
are *regenerated from /repo on every check run*.  `w ≥ 1` is the width of the type, `a b c` are
arbitrary Python ints (the data of the constant attributes).  The reference semantics is
`Xdsl.Sem.intBin`, the same function that evaluates programs in the translation validation.

"folded constants equal the bit-exact result" (two's-complement wrap-around), for every width.
-/
namespace Xdsl.C14
open Xdsl Xdsl.Generated Xdsl.Generated.BuiltinInt Xdsl.Generated.ArithPyOps Xdsl.Sem
open Xdsl.C15 (InSignedRange toInt_inRange)

/-- the attribute built by `IntegerAttr(r, iw, truncate_bits=True)`: always succeeds, denotes the
`w`-bit pattern of `r`, and its data lies in the signed (hence the signless) range. -/
theorem truncated_attr (w : Nat) (hw : 1 ≤ w) (r : Int) :
    ∃ d, normalized_value_signless (w : Int) r true = some d
      ∧ BitVec.ofInt w d = BitVec.ofInt w r ∧ InSignedRange w d :=
  ⟨_, normalized_eq w hw r true (Or.inl rfl), BitVec.ofInt_toInt, toInt_inRange _⟩

/-- shape shared by the six folds: the folded attribute's data `d` -/
def FoldsTo (w : Nat) (r : Int) (expected : BitVec w) : Prop :=
  ∃ d, normalized_value_signless (w : Int) r true = some d
    ∧ BitVec.ofInt w d = expected ∧ InSignedRange w d

theorem foldsTo_of (w : Nat) (hw : 1 ≤ w) (r : Int) (e : BitVec w) (h : BitVec.ofInt w r = e) :
    FoldsTo w r e := by
  obtain ⟨d, h1, h2, h3⟩ := truncated_attr w hw r
  exact ⟨d, h1, h2.trans h, h3⟩

/-- `arith.addi` constant fold: `IntegerAttr(lhs + rhs, type, truncate_bits=True)` is the wrapped sum. -/
theorem addi_fold (w : Nat) (hw : 1 ≤ w) (a b : Int) :
    FoldsTo w (AddiOp_py_operation a b) (BitVec.ofInt w a + BitVec.ofInt w b)
    ∧ intBin "arith.addi" (BitVec.ofInt w a) (BitVec.ofInt w b) = .val (BitVec.ofInt w a + BitVec.ofInt w b) :=
  ⟨foldsTo_of w hw _ _ (by simp only [AddiOp_py_operation, BitVec.ofInt_add]), by simp [intBin]⟩

/-- `arith.subi` constant fold. -/
theorem subi_fold (w : Nat) (hw : 1 ≤ w) (a b : Int) :
    FoldsTo w (SubiOp_py_operation a b) (BitVec.ofInt w a - BitVec.ofInt w b)
    ∧ intBin "arith.subi" (BitVec.ofInt w a) (BitVec.ofInt w b) = .val (BitVec.ofInt w a - BitVec.ofInt w b) :=
  ⟨foldsTo_of w hw _ _ (by
      simp only [SubiOp_py_operation]
      rw [Int.sub_eq_add_neg, BitVec.ofInt_add, BitVec.ofInt_neg, BitVec.sub_eq_add_neg]),
    by simp [intBin]⟩

/-- `arith.muli` constant fold. -/
theorem muli_fold (w : Nat) (hw : 1 ≤ w) (a b : Int) :
    FoldsTo w (MuliOp_py_operation a b) (BitVec.ofInt w a * BitVec.ofInt w b)
    ∧ intBin "arith.muli" (BitVec.ofInt w a) (BitVec.ofInt w b) = .val (BitVec.ofInt w a * BitVec.ofInt w b) :=
  ⟨foldsTo_of w hw _ _ (by simp only [MuliOp_py_operation, BitVec.ofInt_mul]), by simp [intBin]⟩

/-- `arith.andi` constant fold (Python `&` on unbounded ints vs. bitwise and of the patterns). -/
theorem andi_fold (w : Nat) (hw : 1 ≤ w) (a b : Int) :
    FoldsTo w (AndIOp_py_operation a b) (BitVec.ofInt w a &&& BitVec.ofInt w b)
    ∧ intBin "arith.andi" (BitVec.ofInt w a) (BitVec.ofInt w b) = .val (BitVec.ofInt w a &&& BitVec.ofInt w b) :=
  ⟨foldsTo_of w hw _ _ (by simp only [AndIOp_py_operation, BV.ofInt_land]), by simp [intBin]⟩

/-- `arith.ori` constant fold. -/
theorem ori_fold (w : Nat) (hw : 1 ≤ w) (a b : Int) :
    FoldsTo w (OrIOp_py_operation a b) (BitVec.ofInt w a ||| BitVec.ofInt w b)
    ∧ intBin "arith.ori" (BitVec.ofInt w a) (BitVec.ofInt w b) = .val (BitVec.ofInt w a ||| BitVec.ofInt w b) :=
  ⟨foldsTo_of w hw _ _ (by simp only [OrIOp_py_operation, BV.ofInt_lor]), by simp [intBin]⟩

/-- `arith.xori` constant fold. -/
theorem xori_fold (w : Nat) (hw : 1 ≤ w) (a b : Int) :
    FoldsTo w (XOrIOp_py_operation a b) (BitVec.ofInt w a ^^^ BitVec.ofInt w b)
    ∧ intBin "arith.xori" (BitVec.ofInt w a) (BitVec.ofInt w b) = .val (BitVec.ofInt w a ^^^ BitVec.ofInt w b) :=
  ⟨foldsTo_of w hw _ _ (by simp only [XOrIOp_py_operation, BV.ofInt_xor]), by simp [intBin]⟩

/-! ## right units (`x op c = x`) — `SignlessIntegerBinaryOperationZeroOrUnitRight` and `fold` -/

theorem ofInt_zero' (w : Nat) : BitVec.ofInt w 0 = 0#w := by
  apply BitVec.eq_of_toNat_eq; simp

private theorem unit_is_one (w : Nat) (hw : 1 ≤ w) (c : Int) (h : (c == normalized_one (w : Int)) = true) :
    BitVec.ofInt w c = 1#w := by
  have : c = normalized_one (w : Int) := by simpa using h
  rw [this, ofInt_normalized_one w hw]

private theorem one_ne_zero (w : Nat) (hw : 1 ≤ w) : ((1#w == 0#w) = false) := by
  obtain ⟨n, rfl⟩ : ∃ n, w = n + 1 := ⟨w - 1, by omega⟩
  simp

theorem addi_right_unit (w : Nat) (c : Int) (h : AddiOp_is_right_unit w c = true) (x : BitVec w) :
    intBin "arith.addi" x (BitVec.ofInt w c) = .val x := by
  have : c = 0 := by simpa [AddiOp_is_right_unit] using h
  subst this; simp [intBin, ofInt_zero']

theorem subi_right_unit (w : Nat) (c : Int) (h : SubiOp_is_right_unit w c = true) (x : BitVec w) :
    intBin "arith.subi" x (BitVec.ofInt w c) = .val x := by
  have : c = 0 := by simpa [SubiOp_is_right_unit] using h
  subst this; simp [intBin, ofInt_zero']

theorem ori_right_unit (w : Nat) (c : Int) (h : OrIOp_is_right_unit w c = true) (x : BitVec w) :
    intBin "arith.ori" x (BitVec.ofInt w c) = .val x := by
  have : c = 0 := by simpa [OrIOp_is_right_unit] using h
  subst this; simp [intBin, ofInt_zero']

theorem xori_right_unit (w : Nat) (c : Int) (h : XOrIOp_is_right_unit w c = true) (x : BitVec w) :
    intBin "arith.xori" x (BitVec.ofInt w c) = .val x := by
  have : c = 0 := by simpa [XOrIOp_is_right_unit] using h
  subst this; simp [intBin, ofInt_zero']

theorem shli_right_unit (w : Nat) (hw : 1 ≤ w) (c : Int) (h : ShLIOp_is_right_unit w c = true) (x : BitVec w) :
    intBin "arith.shli" x (BitVec.ofInt w c) = .val x := by
  have : c = 0 := by simpa [ShLIOp_is_right_unit] using h
  subst this
  have : ¬ w ≤ 0 := by omega
  simp [intBin, ofInt_zero', this]

theorem shrui_right_unit (w : Nat) (hw : 1 ≤ w) (c : Int) (h : ShRUIOp_is_right_unit w c = true) (x : BitVec w) :
    intBin "arith.shrui" x (BitVec.ofInt w c) = .val x := by
  have : c = 0 := by simpa [ShRUIOp_is_right_unit] using h
  subst this
  have : ¬ w ≤ 0 := by omega
  simp [intBin, ofInt_zero', this]

theorem shrsi_right_unit (w : Nat) (hw : 1 ≤ w) (c : Int) (h : ShRSIOp_is_right_unit w c = true) (x : BitVec w) :
    intBin "arith.shrsi" x (BitVec.ofInt w c) = .val x := by
  have : c = 0 := by simpa [ShRSIOp_is_right_unit] using h
  subst this
  have : ¬ w ≤ 0 := by omega
  simp [intBin, ofInt_zero', this]

/-- `muli`: `attr == IntegerAttr(1, attr.type)`; at `i1` the stored datum is `-1`, still the pattern `1`. -/
theorem muli_right_unit (w : Nat) (hw : 1 ≤ w) (c : Int) (h : MuliOp_is_right_unit w c = true) (x : BitVec w) :
    intBin "arith.muli" x (BitVec.ofInt w c) = .val x := by
  rw [unit_is_one w hw c (by simpa [MuliOp_is_right_unit] using h)]
  simp [intBin]

theorem divui_right_unit (w : Nat) (hw : 1 ≤ w) (c : Int) (h : DivUIOp_is_right_unit w c = true) (x : BitVec w) :
    intBin "arith.divui" x (BitVec.ofInt w c) = .val x := by
  rw [unit_is_one w hw c (by simpa [DivUIOp_is_right_unit] using h)]
  simp [intBin, one_ne_zero w hw, BitVec.udiv_one]

theorem ceildivui_right_unit (w : Nat) (hw : 1 ≤ w) (c : Int) (h : CeilDivUIOp_is_right_unit w c = true) (x : BitVec w) :
    intBin "arith.ceildivui" x (BitVec.ofInt w c) = .val x := by
  rw [unit_is_one w hw c (by simpa [CeilDivUIOp_is_right_unit] using h)]
  have h1 : (1#w).toNat = 1 := by
    obtain ⟨n, rfl⟩ : ∃ n, w = n + 1 := ⟨w - 1, by omega⟩
    simp
  simp [intBin, one_ne_zero w hw, h1]

/-- signed divisions by the unit: the result is `x` wherever MLIR defines it; the only undefined
case is `i1` (`1 : i1` is `-1`, and `-1 / -1` overflows). -/
theorem divsi_right_unit (w : Nat) (hw : 1 ≤ w) (c : Int) (h : DivSIOp_is_right_unit w c = true) (x : BitVec w) :
    intBin "arith.divsi" x (BitVec.ofInt w c) = .val x ∨ intBin "arith.divsi" x (BitVec.ofInt w c) = .ub := by
  rw [unit_is_one w hw c (by simpa [DivSIOp_is_right_unit] using h)]
  simp only [intBin, one_ne_zero w hw, BitVec.sdiv_one, Bool.false_or]
  split <;> simp

theorem toInt_one_of_two_le (w : Nat) (hw : 2 ≤ w) : (1#w).toInt = 1 := by
  obtain ⟨n, rfl⟩ : ∃ n, w = n + 2 := ⟨w - 2, by omega⟩
  rw [BitVec.toInt_eq_toNat_cond]
  have : (2 : Nat) ^ (n + 2) = 4 * 2 ^ n := by rw [Nat.pow_add]; omega
  have hp : 0 < 2 ^ n := Nat.two_pow_pos n
  simp only [BitVec.toNat_ofNat, this]
  have : 1 % (4 * 2 ^ n) = 1 := Nat.mod_eq_of_lt (by omega)
  rw [this]; simp; omega

theorem floordivsi_right_unit (w : Nat) (hw : 1 ≤ w) (c : Int) (h : FloorDivSIOp_is_right_unit w c = true)
    (x : BitVec w) :
    intBin "arith.floordivsi" x (BitVec.ofInt w c) = .val x
      ∨ intBin "arith.floordivsi" x (BitVec.ofInt w c) = .ub := by
  rw [unit_is_one w hw c (by simpa [FloorDivSIOp_is_right_unit] using h)]
  rcases Nat.lt_or_ge w 2 with h1 | h2
  · have : w = 1 := by omega
    subst this
    rcases BitVec.eq_zero_or_eq_one x with rfl | rfl
    · left; simp [intBin]; decide
    · right; simp [intBin]; decide
  · simp only [intBin, one_ne_zero w hw, Bool.false_or, toInt_one_of_two_le w h2]
    split
    · right; rfl
    · left; simp [Int.fdiv_one, BitVec.ofInt_toInt]

theorem ceildivsi_right_unit (w : Nat) (hw : 1 ≤ w) (c : Int) (h : CeilDivSIOp_is_right_unit w c = true)
    (x : BitVec w) :
    intBin "arith.ceildivsi" x (BitVec.ofInt w c) = .val x
      ∨ intBin "arith.ceildivsi" x (BitVec.ofInt w c) = .ub := by
  rw [unit_is_one w hw c (by simpa [CeilDivSIOp_is_right_unit] using h)]
  rcases Nat.lt_or_ge w 2 with h1 | h2
  · have : w = 1 := by omega
    subst this
    rcases BitVec.eq_zero_or_eq_one x with rfl | rfl
    · left; simp [intBin]; decide
    · right; simp [intBin]; decide
  · simp only [intBin, one_ne_zero w hw, Bool.false_or, toInt_one_of_two_le w h2]
    split
    · right; rfl
    · left; simp [Int.fdiv_one, BitVec.ofInt_toInt]

/-! ## left units of the commutative operations (`fold`: `is_right_unit(lhs)` ⇒ result is `rhs`) -/

theorem addi_left_unit (w : Nat) (c : Int) (h : AddiOp_is_right_unit w c = true) (x : BitVec w) :
    intBin "arith.addi" (BitVec.ofInt w c) x = .val x := by
  have : c = 0 := by simpa [AddiOp_is_right_unit] using h
  subst this; simp [intBin, ofInt_zero']

theorem muli_left_unit (w : Nat) (hw : 1 ≤ w) (c : Int) (h : MuliOp_is_right_unit w c = true) (x : BitVec w) :
    intBin "arith.muli" (BitVec.ofInt w c) x = .val x := by
  rw [unit_is_one w hw c (by simpa [MuliOp_is_right_unit] using h)]
  simp [intBin]

theorem ori_left_unit (w : Nat) (c : Int) (h : OrIOp_is_right_unit w c = true) (x : BitVec w) :
    intBin "arith.ori" (BitVec.ofInt w c) x = .val x := by
  have : c = 0 := by simpa [OrIOp_is_right_unit] using h
  subst this; simp [intBin, ofInt_zero']

theorem xori_left_unit (w : Nat) (c : Int) (h : XOrIOp_is_right_unit w c = true) (x : BitVec w) :
    intBin "arith.xori" (BitVec.ofInt w c) x = .val x := by
  have : c = 0 := by simpa [XOrIOp_is_right_unit] using h
  subst this; simp [intBin, ofInt_zero']

/-! ## right zeros (`x op c = c`) -/

theorem muli_right_zero (w : Nat) (c : Int) (h : MuliOp_is_right_zero w c = true) (x : BitVec w) :
    intBin "arith.muli" x (BitVec.ofInt w c) = .val (BitVec.ofInt w c) := by
  have : c = 0 := by simpa [MuliOp_is_right_zero] using h
  subst this; simp [intBin, ofInt_zero']

theorem andi_right_zero (w : Nat) (c : Int) (h : AndIOp_is_right_zero w c = true) (x : BitVec w) :
    intBin "arith.andi" x (BitVec.ofInt w c) = .val (BitVec.ofInt w c) := by
  have : c = 0 := by simpa [AndIOp_is_right_zero] using h
  subst this; simp [intBin, ofInt_zero']

/-! ## non-vacuity -/
example : AddiOp_py_operation 127 1 = 128 := by decide
example : normalized_value_signless 8 128 true = some (-128) := by decide
example : normalized_one 1 = -1 := by decide
example : MuliOp_is_right_unit 1 (-1) = true := by decide
example : MuliOp_is_right_unit 8 1 = true := by decide
example : intBin "arith.divsi" (1#1) (BitVec.ofInt 1 (-1)) = .ub := by simp [intBin]; decide

end Xdsl.C14
