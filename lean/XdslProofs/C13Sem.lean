import XdslProofs.C13
import XdslProofs.Lemmas.DCESem
/-!
# C13 — "program results are unchanged" (straight-line regions)

A small evaluation semantics over the IR of `XdslModel/DCE.lean` for a block of region-free
operations.  Every operation computes one value (the bundle of its results) from the values of its
operands and from the effects performed so far, by an ARBITRARY function `I i` chosen per operation
id (so reads from memory are covered: the memory is a function of the log); an operation that is
not would-be-trivially-dead (a write, a free, a call, a terminator, …) appends `(id, arguments)` to
the effect log.  Values defined outside the block (block arguments, outer values) come from the
initial environment.

`dce_preserves_sem_straightline`: evaluating what `region_dce` keeps of such a block yields the
same effect log and the same value for every operation that is kept (in particular for the operands
of the terminator, the results of the region) and for every outer value.

`…_partial`: for control-flow graphs, loops and nested regions the preservation of results is not
proved here; it is checked per generated program by the reference semantics `Sem` in the harness.
-/
namespace Xdsl.DCE
open Xdsl.Graph

/-- the operations of the entry block of the first region -/
def entryOps : T → T
  | .region (.block ops _) _ => ops
  | _ => .nil

/-- **dce_preserves_sem_straightline.**  Let the region consist of one block of region-free
operations (`ops`).  Evaluating the operations `region_dce` keeps gives the same effect log as
evaluating all of them, and the same value for every operation that is live and for every value
defined outside the block. -/
theorem dce_preserves_sem_straightline (I : Interp) (ops : T) (hf : flat ops = true)
    (hnd : (allIds (T.region (.block ops .nil) .nil)).Nodup)
    (hwf : Graph.wf (graphOf (.block ops .nil)) = true) (ρ : Env) (log : Log) :
    let P := T.region (.block ops .nil) .nil
    (run I (entryOps (dceOnce P).1) ρ log).2 = (run I ops ρ log).2
      ∧ ∀ i, (i ∈ liveSet P ∨ i ∉ allIds P) →
          (run I (entryOps (dceOnce P).1) ρ log).1 i = (run I ops ρ log).1 i := by
  intro P
  have hcl : Closed P (liveSet P) P none := liveSet_closed hnd
  have h0 : 0 ∈ reachSet (.block ops .nil) := zero_mem_reachSet _ hwf (by simp [graphOf])
  have hclo : Closed P (liveSet P) ops none := by
    have := hcl.1 0 h0
    simpa [Closed] using this
  have hcell : ∀ c ∈ ocells ops, ((wbd c.1 c.2 = false ∨ hasLiveUser P (liveSet P) c.1.id = true)
      → c.1.id ∈ liveSet P) := by
    intro c hc
    have := closed_mem ops none hclo c.1 c.2 (by rw [vcells_flat ops hf]; exact hc)
    exact this.1
  have hids : allIds P = allIds ops := by simp [P]
  -- the simulation with Dead = ids of the block that are not live
  have key := run_del I (liveSet P) (fun i => i ∈ allIds ops ∧ i ∉ liveSet P)
    (keepMask (liveSet P) (.block ops .nil) true) ops hf
    (fun c hc hn => ⟨by
      have := vcells_sub ops none c (by rw [vcells_flat ops hf]; exact hc)
      exact mem_allIds_of_cell (t := ops) (h := c.1) (rs := c.2) this, hn⟩)
    (fun c hc hm => ⟨fun hd => hd.2 hm, fun o ho hd => by
      obtain ⟨c2, hc2, hid⟩ := ocells_ids ops hf o hd.1
      have hcin : c.1 ∈ allHdrs P := by
        have := vcells_sub ops none c (by rw [vcells_flat ops hf]; exact hc)
        have := mem_allHdrs_of_cell (t := ops) (h := c.1) (rs := c.2) this
        simp [P, allHdrs, this]
      have := hcell c2 hc2 (Or.inr (hasLiveUser_iff.mpr ⟨c.1, hcin, by rw [hid]; exact ho, hm⟩))
      rw [hid] at this
      exact hd.2 this⟩)
    (fun c hc hwb => hcell c hc (Or.inl hwb))
    ρ ρ log (fun _ _ => rfl)
  have hentry : (run I (entryOps (dceOnce P).1) ρ log)
      = (run I (del (liveSet P) ops false (keepMask (liveSet P) (.block ops .nil) true)) ρ log)
        ∨ (run I (entryOps (dceOnce P).1) ρ log) = run I ops ρ log := by
    unfold dceOnce
    simp only
    split
    · exact Or.inr rfl
    · left; simp [P, del, entryOps]
  rcases hentry with he | he
  · rw [he]
    refine ⟨key.1, fun i hi => key.2 i ?_⟩
    rintro ⟨h1, h2⟩
    rcases hi with hi | hi
    · exact h2 hi
    · exact hi (hids ▸ h1)
  · rw [he]; exact ⟨rfl, fun _ _ => rfl⟩

/-! ## Non-vacuity -/

/-- `%0 = pure; %1 = pure(%0) (dead); %2 = write(%0); term(%2)` with the interpretation "sum of the
operands + id": the kept run logs the same write with the same argument -/
example :
    let ops : T := .op ⟨0, [], false, false, some [], false, []⟩ .nil
      (.op ⟨1, [0], false, false, some [], false, []⟩ .nil
      (.op ⟨2, [0], false, false, some [.write], false, []⟩ .nil
      (.op ⟨3, [2], true, false, none, false, []⟩ .nil .nil)))
    let I : Interp := fun i args _ => args.sum + i
    (run I (entryOps (dceOnce (.region (.block ops .nil) .nil)).1) (fun _ => 0) []).2
      = [(2, [0]), (3, [2])]
    ∧ (allIds (dceOnce (.region (.block ops .nil) .nil)).1) = [0, 2, 3] := by decide

end Xdsl.DCE
