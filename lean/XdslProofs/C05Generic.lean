import XdslProofs.C05
import XdslProofs.Lemmas.DeclGeneric
import XdslProofs.Lemmas.DeclGenericCodec
/-!
# C05 — the custom and the generic form of an operation agree

Property clause: *… and the custom and generic printings parse to equivalent IR.*

`Xdsl.DeclGeneric` (`XdslModel/DeclGeneric.lean`) puts the abstract instance of the declarative-format
model (`Xdsl.DeclFormat.OpInst`) into the generic form on the token skeleton of C04
(`Skeleton.pr` / `Skeleton.parseT`, tied to the real generic printer / parser by C04's correspondence
and `skeleton_syntax_roundtrip`) and reads it back through the accessors of the operation class
(`instOf`).  `decl_generic_agree` ties the two printer/parser pairs in one statement:
custom text → instance  ≡  generic text → instance, where `≡` is `Equiv` (a property / attribute equal
to its declared default ≡ absent).  The segment sizes, which the generic text carries as
`operandSegmentSizes` / `resultSegmentSizes` entries and the custom text does not mention, are
determined by the format: `decl_generic_agree_segments`.

PARTIAL with respect to the property's sentence in the same way as `decl_roundtrip` (declarative
formats only, `wfD`); in addition the `SameVariadic…Size` options and
`AttrSized{Region,Successor}Segments` are not modelled, and the symbol-table side of the generic
parser (C04 `skeleton_resolve`) is not re-used here: values and blocks are compared by their printed
names through the codec.
-/
namespace Xdsl.DeclGeneric
open Xdsl.DeclFormat

/-- **C05, custom vs generic.**  "the custom and generic printings parse to equivalent IR": for a
well-formed format and a valid instance that the generic form can carry, parsing the custom text
(`FormatProgram.parse`, followed by `rest`) and parsing the generic text (`_parse_generic_operation`
+ the accessors) both succeed and give equivalent instances: equal operand / operand-type /
result-type / region / successor segments, properties and attributes equal up to declared defaults. -/
theorem decl_generic_agree (C : Codec) (hc : CodecOK C) (D : Defs) (M : Modes) (defs : Nat → List Nat)
    (fmt : List Dir) (op : OpInst) (K : List Cls) (rest : List DeclFormat.Tok)
    (hwf : wfD fmt K = true) (ha : wfA D fmt = true) (hv : ValidD D op fmt)
    (hslots : CoversSlots D fmt op) (hdicts : CoversDicts D fmt op) (hK : clsHd rest ∈ K)
    (hg : GenericOK C D M defs op) :
    ∃ opC opG, roundtrip D fmt op rest = some (opC, rest) ∧
      parseGeneric C D M defs (printGeneric C M op) = some opG ∧ Equiv D opC opG := by
  obtain ⟨opC, h1, h2⟩ := decl_roundtrip D fmt op K rest hwf ha hv hslots hdicts hK
  exact ⟨opC, op, h1, parseGeneric_printGeneric C hc D M defs op hg, h2⟩

/-- the same with the format compiler's binding checks `accD` as hypothesis -/
theorem decl_generic_agree_acc (C : Codec) (hc : CodecOK C) (D : Defs) (M : Modes) (defs : Nat → List Nat)
    (fmt : List Dir) (op : OpInst) (K : List Cls) (rest : List DeclFormat.Tok)
    (hwf : wfD fmt K = true) (hacc : accD D fmt = true) (hv : ValidD D op fmt)
    (hinst : InstOK D op) (hdicts : CoversDicts D fmt op) (hK : clsHd rest ∈ K)
    (hg : GenericOK C D M defs op) :
    ∃ opC opG, roundtrip D fmt op rest = some (opC, rest) ∧
      parseGeneric C D M defs (printGeneric C M op) = some opG ∧ Equiv D opC opG :=
  decl_generic_agree C hc D M defs fmt op K rest hwf (wfA_of_accD D fmt hacc) hv
    (coversSlots_of_accD D fmt op hacc hinst) hdicts hK hg

/-- "segment sizes determined by the format": the operation built from the custom text carries the
segment-size entries of the generic text (`irdl_op_init` computes them from the segments the
format's directives filled), and the same flat operand / type / successor / region lists. -/
theorem decl_generic_agree_segments (C : Codec) (D : Defs) (M : Modes) (opC opG : OpInst)
    (h : Equiv D opC opG) :
    (∀ b, segEntries C M opC b = segEntries C M opG b) ∧
    (hdrOf C M opC).operands = (hdrOf C M opG).operands ∧
    (hdrOf C M opC).inTys = (hdrOf C M opG).inTys ∧
    (hdrOf C M opC).outTys = (hdrOf C M opG).outTys ∧
    (hdrOf C M opC).succs = (hdrOf C M opG).succs ∧
    regionChain C opC.regions.flatten = regionChain C opG.regions.flatten := by
  obtain ⟨h1, h2, h3, h4, h5, _, _⟩ := h
  refine ⟨fun b => ?_, ?_, ?_, ?_, ?_, ?_⟩ <;> simp [segEntries, hdrOf, h1, h2, h3, h4, h5]

/-! ## non-vacuity: the `operands … functional-type(operands, results)` example of `C05.lean` with
operand segment sizes stored as a property -/

def exModes : Modes := { operands := .sized true, results := .unique }

example : printGeneric (exCodec [9]) exModes aggOp =
    [.str 0, .lparen, .pct ['v', 'v'], .comma, .pct ['v', 'v', 'v'], .comma, .pct ['v', 'v', 'v', 'v'], .rparen,
     .lt, .lbrace, .bare (encL opSegName.toList), .eq, .opq ⟨3 * encL (unary [1, 2]) + 2, false⟩, .rbrace, .gt,
     .lbrace, .bare (encL "x".toList), .eq, .opq ⟨13, false⟩, .rbrace,
     .colon, .lparen, .opq ⟨21, false⟩, .comma, .opq ⟨24, false⟩, .comma, .opq ⟨24, false⟩, .rparen, .arrow,
     .lparen, .opq ⟨27, true⟩, .rparen] := by decide

/-- all hypotheses of `decl_generic_agree` are jointly satisfiable on the example -/
example (hv : ValidD aggDefs aggOp aggFmt) (hi : InstOK aggDefs aggOp) (hd : CoversDicts aggDefs aggFmt aggOp) :
    ∃ opC opG, roundtrip aggDefs aggFmt aggOp [.punct "}"] = some (opC, [.punct "}"]) ∧
      parseGeneric (exCodec [9]) aggDefs exModes (fun _ => []) (printGeneric (exCodec [9]) exModes aggOp) = some opG ∧
      Equiv aggDefs opC opG :=
  decl_generic_agree_acc (exCodec [9]) (exCodec_ok [9]) aggDefs exModes (fun _ => []) aggFmt aggOp [.punct "}"]
    [.punct "}"] (by decide) (by decide) hv hi hd (by simp [clsHd, clsOf])
    { fitsO := by decide
      fitsT := by decide
      fitsR := by decide
      fitsG := by decide
      fitsS := by decide
      tysLen := by decide
      uniqO := by intro h; cases h
      uniqR := by intro _; decide
      uniqG := by decide
      uniqS := by decide
      nodupP := by decide
      nodupA := by decide
      noSegP := by intro p hp; cases hp
      noSegA := by
        intro p hp
        have : p = ("x", 4) := by simpa [aggOp] using hp
        subst this; decide
      retro := by intro k hk; cases hk
      regions := by intro n hn; simp [aggOp] at hn }

/-- the stored sizes matter: with two variadic operand definitions the flat list alone does not
determine the segments, the stored sizes do -/
example :
    let D : Defs := { operandKinds := [.var, .var], operandFixed := [none, none] }
    let op : OpInst := { operands := [[4], [5, 6]], operandTys := [[1], [1, 1]] }
    parseGeneric (exCodec []) D { operands := .sized true } (fun _ => [])
        (printGeneric (exCodec []) { operands := .sized true } op) = some op ∧
    parseGeneric (exCodec []) D { operands := .unique } (fun _ => [])
        (printGeneric (exCodec []) { operands := .unique } op) = none := by decide

end Xdsl.DeclGeneric
