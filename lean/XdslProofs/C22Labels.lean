import XdslProofs.Lemmas.RiscVLabels
/-!
C22, labels of the emitted unit (model `XdslModel/RiscVLabels.lean`).

The property says that the emitted instructions compute what the source computes.  A module is
emitted as one assembler unit, so the instructions are only well defined if every branch target
names exactly one position of the unit.  Proved here:

* the symbol table (`assemble`): accepted ⇔ no name is defined twice and every target is defined;
  an accepted unit resolves every target to a position that holds the definition of that name,
  and "first definition wins" and "last definition wins" agree on it (a strict assembler needs
  no tie-breaking rule; with a duplicate they differ: `dup_resolution_differs`);
* the label numbering of the loop lowerings (`allocShared`, one counter per module): all labels
  of the module are pairwise distinct, whatever the number of functions and loops; restarting
  the counter per function defines a label twice as soon as two functions contain a loop
  (`allocPerFunction_dup`).
-/
namespace Xdsl.RiscV.Labels

/-! ### symbol table -/

/-- "an assembler rejects a unit that defines a symbol twice": `dup` exactly for such units -/
theorem assemble_dup_iff (u : List Item) : (∃ n, assemble u = .dup n) ↔ ¬ (defs u).Nodup := by
  unfold assemble
  cases h : firstDup [] (defs u) with
  | some n =>
    have : ¬ (firstDup [] (defs u) = none) := by simp [h]
    rw [firstDup_none_iff] at this
    simp only [List.not_mem_nil, not_false_eq_true, implies_true, and_true] at this
    simp [this]
  | none =>
    have hn := (firstDup_none_iff [] (defs u)).mp h
    constructor
    · rintro ⟨n, hn'⟩
      cases hr : resolve u (targets u) <;> simp [hr] at hn'
    · intro hc
      exact absurd hn.1 hc

/-- in a unit without duplicate definitions the tie-breaking rule is irrelevant -/
theorem firstPos_eq_lastPos (n : Nat) (u : List Item) (k : Nat) (h : (defs u).Nodup) :
    firstPos n u k = lastPos n u k := by
  induction u generalizing k with
  | nil => rfl
  | cons it r ih =>
    cases it with
    | label m =>
      simp only [defs, List.nodup_cons] at h
      by_cases hm : m = n
      · subst hm
        simp [firstPos, lastPos, lastPos_none_of_not_mem m r (k + 1) h.1]
      · simp only [firstPos, lastPos, hm, if_false, ih (k + 1) h.2]
        cases lastPos n r (k + 1) <;> rfl
    | ins t => simpa [firstPos, lastPos] using ih (k + 1) (by simpa [defs] using h)

/-- a resolved position holds the definition of the name -/
theorem firstPos_sound (n : Nat) (u : List Item) (k p : Nat) (h : firstPos n u k = some p) :
    k ≤ p ∧ u[p - k]? = some (.label n) := by
  induction u generalizing k with
  | nil => simp [firstPos] at h
  | cons it r ih =>
    cases it with
    | label m =>
      simp only [firstPos] at h
      by_cases hm : m = n
      · simp only [hm, if_true, Option.some.injEq] at h
        subst h; subst hm; simp
      · simp only [hm, if_false] at h
        obtain ⟨h1, h2⟩ := ih (k + 1) h
        refine ⟨by omega, ?_⟩
        have : p - k = (p - (k + 1)) + 1 := by omega
        rw [this]; simpa using h2
    | ins t =>
      simp only [firstPos] at h
      obtain ⟨h1, h2⟩ := ih (k + 1) h
      refine ⟨by omega, ?_⟩
      have : p - k = (p - (k + 1)) + 1 := by omega
      rw [this]; simpa using h2

/-- every resolved target (in order) is a position of the unit that holds the definition of that name -/
theorem resolve_sound (u : List Item) (ts ps : List Nat) (h : resolve u ts = .ok ps) :
    ps.length = ts.length ∧ ∀ np ∈ ts.zip ps, u[np.2]? = some (.label np.1) := by
  induction ts generalizing ps with
  | nil => simp [resolve] at h; subst h; simp
  | cons n r ih =>
    simp only [resolve] at h
    cases hp : firstPos n u 0 with
    | none => simp [hp] at h
    | some p =>
      simp only [hp] at h
      cases hr : resolve u r with
      | error e => simp [hr] at h
      | ok qs =>
        simp only [hr, Except.ok.injEq] at h
        subst h
        obtain ⟨hl, hz⟩ := ih qs hr
        refine ⟨by simp [hl], ?_⟩
        intro np hnp
        simp only [List.zip_cons_cons, List.mem_cons] at hnp
        rcases hnp with rfl | hnp
        · simpa using (firstPos_sound n u 0 p hp).2
        · exact hz np hnp

/-- an accepted unit: no name is defined twice, and every branch target (in order: `targets u` against the
resolved positions) is resolved to a position of the unit that holds the definition of exactly that name -/
theorem assemble_ok_sound (u : List Item) (ps : List Nat) (h : assemble u = .ok ps) :
    (defs u).Nodup ∧ ps.length = (targets u).length ∧
      ∀ np ∈ (targets u).zip ps, u[np.2]? = some (.label np.1) := by
  unfold assemble at h
  cases hd : firstDup [] (defs u) with
  | some n => simp [hd] at h
  | none =>
    simp only [hd] at h
    refine ⟨((firstDup_none_iff [] (defs u)).mp hd).1, ?_⟩
    cases hr : resolve u (targets u) with
    | error e => simp [hr] at h
    | ok qs =>
      simp only [hr, Verdict.ok.injEq] at h
      subst h
      exact resolve_sound u (targets u) qs hr

/-- …and the two tie-breaking rules agree on every name of an accepted unit -/
theorem assemble_ok_policy_free (u : List Item) (ps : List Nat) (h : assemble u = .ok ps) (n : Nat) :
    firstPos n u 0 = lastPos n u 0 :=
  firstPos_eq_lastPos n u 0 (assemble_ok_sound u ps h).1

/-- with a name defined twice the two rules send the same branch to different places: two functions
`f: L0 … blt → L0` and `g: L0 …` (positions 0 and 2) -/
theorem dup_resolution_differs :
    let u := [Item.label 0, .ins (some 0), .label 0, .ins (some 0)]
    assemble u = .dup 0 ∧ firstPos 0 u 0 = some 0 ∧ lastPos 0 u 0 = some 2 := by decide

/-! ### label numbering of the loop lowerings -/

/-- one counter for the whole module: the labels of all loops of all functions are pairwise
distinct - for every number of functions and of loops per function (given distinct label kinds) -/
theorem allocShared_nodup {kinds : List Nat} (hk : kinds.Nodup) (ns : List Nat) :
    (allocShared kinds ns).flatten.Nodup := allocFrom_nodup hk 0 ns

/-- restarting the counter in every function: as soon as two functions contain a loop, a label is
defined twice (two functions with one loop each, the labels of the cf lowering) -/
theorem allocPerFunction_dup : ¬ (allocPerFunction [0, 1] [1, 1]).flatten.Nodup := by decide

/-- …in general: functions `i < j` with a loop each share the labels of loop 0 -/
theorem allocPerFunction_dup_general (kinds : List Nat) (hk : kinds ≠ []) (pre mid post : List Nat) (a b : Nat) :
    ¬ (allocPerFunction kinds (pre ++ (a + 1) :: mid ++ (b + 1) :: post)).flatten.Nodup := by
  obtain ⟨k, ks, rfl⟩ := List.exists_cons_of_ne_nil hk
  intro h
  have hmem : ∀ x, (⟨k, 0⟩ : Lbl) ∈ funcLabels (k :: ks) 0 (x + 1) := fun x =>
    mem_funcLabels.mpr ⟨by simp, by simp, by simp⟩
  have h1 : (allocPerFunction (k :: ks) (pre ++ (a + 1) :: mid ++ (b + 1) :: post)).flatten
      = (pre.map (funcLabels (k :: ks) 0)).flatten ++ (funcLabels (k :: ks) 0 (a + 1) ++
          ((mid.map (funcLabels (k :: ks) 0)).flatten ++ (funcLabels (k :: ks) 0 (b + 1) ++
            (post.map (funcLabels (k :: ks) 0)).flatten))) := by
    simp [allocPerFunction]
  rw [h1] at h
  have h2 := (List.nodup_append.mp h).2.1
  have h3 := (List.nodup_append.mp h2).2.2
  exact h3 _ (hmem a) _ (by simp [hmem b]) rfl

/-! non-vacuity -/
example : assemble [.label 7, .ins none, .ins (some 3), .label 3, .ins (some 7)] = .ok [3, 0] := by decide
example : assemble [.label 7, .ins (some 3)] = .undef 3 := by decide
example : allocShared [0, 1] [2, 0, 1] = [[⟨0, 0⟩, ⟨1, 0⟩, ⟨0, 1⟩, ⟨1, 1⟩], [], [⟨0, 2⟩, ⟨1, 2⟩]] := by decide

end Xdsl.RiscV.Labels
