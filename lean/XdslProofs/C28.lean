import XdslProofs.Lemmas.EGraphOps
/-!
# C28 — equality saturation preserves program results

"Converting a program to e-classes, applying sound rewrite rules by equality saturation, assigning
costs and extracting yields a program that returns the same results for every input; with no rewrite
rules, creating e-classes and extracting gives back a program equivalent to the original."

Model: `XdslModel/EGraph.lean` (`createEclasses`, `addCosts`, `extract`, `mergeInto`/`eclassUnion`,
`addNode`), semantics in `Lemmas/EGraphSem.lean`.  This file: consistency is preserved by every step
and extraction is sound (`extract_sound_partial`, `pipeline_sound_partial`).  `C28Total.lean`: the no-rule round trip
succeeds, runs and returns the original results (`create_extract_id`).  `C28Union.lean`: merging
through the union-find with stale handles (`eclassUnion_preserves_consistency`).  Vocabulary:
* `Interp V` — operations are arbitrary functions of their operand values (abstract, total);
* `Consistent I g env ρ` — the valuation `ρ` gives the block arguments the input values `env`, every
  operation node the value of its function on its operands' values, and **every alternative of an
  e-class the class's value** (the meaning of `equivalence.class`);
* `evalSeq I g env` — ordinary sequential execution of the function body (what "running the program"
  means); `none` when a value is used before it is defined.
Theorems quantify over every interpretation `I`, every input `env`, every program / e-graph.
-/
namespace Xdsl.EGraph

variable {V : Type}

/-- `g'` denotes, on input `env`, what `g` denotes: every valuation consistent with `g` can be turned
into one consistent with `g'` that gives the roots (returned values) the same values. -/
def Refines (I : Interp V) (env : List V) (g g' : Prog) : Prop :=
  ∀ ρ, Consistent I g env ρ → ∃ ρ', Consistent I g' env ρ' ∧ g'.ret.map ρ' = g.ret.map ρ

theorem Refines.refl (I : Interp V) (env : List V) (g : Prog) : Refines I env g g :=
  fun ρ h => ⟨ρ, h, rfl⟩

theorem Refines.trans {I : Interp V} {env : List V} {g g' g'' : Prog}
    (h : Refines I env g g') (h' : Refines I env g' g'') : Refines I env g g'' := by
  intro ρ hc
  obtain ⟨ρ1, c1, r1⟩ := h ρ hc
  obtain ⟨ρ2, c2, r2⟩ := h' ρ1 c1
  exact ⟨ρ2, c2, r2.trans r1⟩

/-! ## 1. the source program is consistent with its own run -/

/-- A well-formed SSA function (plain operations, single assignment) that runs to completion is a
consistent graph under the valuation "value computed by the run", and the run returns that
valuation's values of the returned ids. -/
theorem evalSeq_consistent_run [Inhabited V] (I : Interp V) {p : Prog} {env rs : List V} (hw : WF p)
    (he : evalSeq I p env = some rs) : ∃ ρ, Consistent I p env ρ ∧ rs = p.ret.map ρ := by
  unfold evalSeq at he
  split at he
  · rename_i hl
    cases hb : evalNodes I p.body (initEnv env) with
    | none => simp [hb] at he
    | some σ =>
      have hc := evalSeq_consistent I hw hl hb
      refine ⟨val σ, hc, ?_⟩
      apply evalSeq_of_consistent I hc
      unfold evalSeq; simp [hl, hb]
      simpa [hb] using he
  · cases he

/-! ## 2. creating e-classes -/

/-- `eqsat-create-eclasses`: the e-graph built from a consistent program is consistent (the class of
a value gets that value) and its roots have the values of the program's returned ids. -/
theorem createEclasses_consistent (I : Interp V) (env : List V) (p : Prog) :
    Refines I env p (createEclasses p) := by
  intro ρ hc
  obtain ⟨ρ', c, r, _⟩ := createEclassesFrom_keeps I hc (below_maxId p)
  exact ⟨ρ', c, r⟩

/-! ## 3. saturation steps: merging classes, adding nodes -/

/-- **merge_preserves_consistency** — merging two e-classes that have the same value (which is what
a sound rule establishes for the matched root's class and the class of its replacement) keeps "every
alternative of a class has the class's value", whichever of the two classes is kept. -/
theorem merge_preserves_consistency (I : Interp V) {env : List V} {ρ : Nat → V} {g : Prog}
    {keep repl : Nat} (hc : Consistent I g env ρ) (h : ρ keep = ρ repl) :
    Consistent I (mergeInto g keep repl) env ρ ∧ (mergeInto g keep repl).ret.map ρ = g.ret.map ρ :=
  mergeInto_keeps I hc h

/-- adding the operation of a rewrite's right-hand side (fresh ids) extends the valuation -/
theorem insert_preserves_consistency (I : Interp V) {env : List V} {ρ : Nat → V} {g : Prog}
    {root r c : Nat} (name key : String) (args : List Nat) (hc : Consistent I g env ρ)
    (hb : Below g r) (hrc : r < c) (ha : ∀ a ∈ args, a < r) :
    ∃ ρ', Consistent I (addNode g root r c name key args) env ρ'
      ∧ (addNode g root r c name key args).ret.map ρ' = g.ret.map ρ ∧ ∀ x, x < r → ρ' x = ρ x :=
  addNode_keeps I name key args hc hb hrc ha

/-- Saturation by sound rules, as far as the graph is concerned: any sequence of node additions and
of merges of two classes that have equal values **in every valuation consistent with the current
graph** (soundness of the applied rule instance). -/
inductive SatSteps (I : Interp V) (env : List V) : Prog → Prog → Prop
  | refl (g : Prog) : SatSteps I env g g
  | merge {g g' : Prog} (keep repl : Nat) : SatSteps I env g g' →
      (∀ ρ, Consistent I g' env ρ → ρ keep = ρ repl) → SatSteps I env g (mergeInto g' keep repl)
  | add {g g' : Prog} (root r c : Nat) (name key : String) (args : List Nat) : SatSteps I env g g' →
      Below g' r → r < c → (∀ a ∈ args, a < r) → SatSteps I env g (addNode g' root r c name key args)

theorem satSteps_refines {I : Interp V} {env : List V} {g g' : Prog} (h : SatSteps I env g g') :
    Refines I env g g' := by
  induction h with
  | refl => exact Refines.refl I env _
  | merge keep repl _ hs ih =>
    apply ih.trans
    intro ρ hc
    obtain ⟨c, r⟩ := mergeInto_keeps I hc (hs ρ hc)
    exact ⟨ρ, c, r⟩
  | add root r c name key args _ hb hrc ha ih =>
    apply ih.trans
    intro ρ hc
    obtain ⟨ρ', c', r', _⟩ := addNode_keeps I (root := root) name key args hc hb hrc ha
    exact ⟨ρ', c', r'⟩

/-! ## 4. costs and extraction -/

/-- `eqsat-add-costs` only writes `eqsat_cost` / `min_cost_index` -/
theorem addCosts_consistent (I : Interp V) {env : List V} {ρ : Nat → V} {g : Prog} (d : Option Nat)
    (dict : AL String Nat) (hc : Consistent I g env ρ) :
    Consistent I (addCosts d dict g) env ρ ∧ (addCosts d dict g).ret.map ρ = g.ret.map ρ :=
  addCosts_keeps I d dict hc

/-- **extract_sound_partial** — for a consistent e-graph, *whatever* `min_cost_index` each class
carries (any cost model; cyclic graphs; partially costed graphs included): if `eqsat-extract` succeeds
and the extracted function runs, it returns the values of the e-graph's roots.
Full statement aimed at: `Consistent I g env ρ → ∃ p' rs, extract g = some p' ∧ evalSeq I p' env = some rs
∧ rs = g.ret.map ρ` for graphs costed by `addCosts` with a default.  Missing: that the alternatives
chosen by the cost fixed point are acyclic, that no erase is refused on a saturated graph, and that
the re-ordering pass then yields a def-before-use order; these are validated on every run of the
check (results on the reference semantics), and proved for the no-rule graphs (`create_extract_id`). -/
theorem extract_sound_partial (I : Interp V) {env rs : List V} {ρ : Nat → V} {g p' : Prog}
    (hc : Consistent I g env ρ) (hx : extract g = some p') (he : evalSeq I p' env = some rs) :
    rs = g.ret.map ρ := by
  obtain ⟨c, r⟩ := extract_keeps I hc hx
  rw [← r]
  exact evalSeq_of_consistent I c he

/-- **pipeline_sound_partial** — create e-classes, saturate with sound rule applications, assign
costs (any default / cost table), extract: every successful run of the extracted function returns
exactly what the original function returns on the same input.  (Partial in the same sense as
`extract_sound_partial`: success of extraction and of the run is not part of the conclusion.) -/
theorem pipeline_sound_partial [Inhabited V] (I : Interp V) {p g p' : Prog} {env rs rs' : List V}
    (d : Option Nat) (dict : AL String Nat) (hw : WF p) (hrun : evalSeq I p env = some rs)
    (hsat : SatSteps I env (createEclasses p) g) (hx : extract (addCosts d dict g) = some p')
    (hrun' : evalSeq I p' env = some rs') : rs' = rs := by
  obtain ⟨ρ0, c0, r0⟩ := evalSeq_consistent_run I hw hrun
  obtain ⟨ρ1, c1, r1⟩ := ((createEclasses_consistent I env p).trans (satSteps_refines hsat)) ρ0 c0
  obtain ⟨c2, r2⟩ := addCosts_keeps I d dict c1
  rw [extract_sound_partial I c2 hx hrun', r2, r1, r0]

/-- **create_extract_id_partial** — no rules: whenever the round trip `create-eclasses ; add-costs ;
extract` succeeds and its output runs, the results are the original ones.  (Partial: the full
statement, including success of the extraction and of the run, is `create_extract_id` in
`C28Total.lean`, which uses this theorem for the values.) -/
theorem create_extract_id_partial [Inhabited V] (I : Interp V) {p p' : Prog} {env rs rs' : List V}
    (d : Option Nat) (dict : AL String Nat) (hw : WF p) (hrun : evalSeq I p env = some rs)
    (hx : extract (addCosts d dict (createEclasses p)) = some p')
    (hrun' : evalSeq I p' env = some rs') : rs' = rs :=
  pipeline_sound_partial I d dict hw hrun (SatSteps.refl _) hx hrun'

/-! ## non-vacuity: a concrete function, interpretation and rewrite -/

/-- integer interpretation of four op names -/
def demoI : Interp Int := fun name _ vs =>
  match name, vs with
  | "two", [] => 2
  | "one", [] => 1
  | "mul", [a, b] => a * b
  | "shl", [a, b] => a * 2 ^ b.toNat
  | _, _ => 0

/-- `f(x) = x * 2` -/
def demoP : Prog :=
  { nargs := 1, body := [.op 1 "two" "" [] none, .op 2 "mul" "" [0, 1] none], ret := [2] }

example : WF demoP := ⟨by decide, by decide, by decide⟩
example : evalSeq demoI demoP [21] = some [42] := by decide

example : createEclasses demoP =
    { nargs := 1, ret := [4], body :=
      [.cls 5 [0] none, .op 1 "two" "" [] none, .cls 3 [1] none, .op 2 "mul" "" [5, 3] none, .cls 4 [2] none] } := by
  decide

/-- the e-graph of `demoP` after `x * 2 → x << 1` was applied: the constant `one` and `shl` were added
before the root `mul`, and the class 4 (of `mul`) absorbed the class 13 of `shl` -/
def demoSat : Prog :=
  mergeInto (addNode (addNode (createEclasses demoP) 2 10 11 "one" "" []) 2 12 13 "shl" "" [5, 11]) 4 13

example : demoSat.body =
    [.cls 5 [0] none, .op 1 "two" "" [] none, .cls 3 [1] none, .op 10 "one" "" [] none, .cls 11 [10] none,
     .op 12 "shl" "" [5, 11] none, .op 2 "mul" "" [5, 3] none, .cls 4 [2, 12] none] := by decide

/-- with `shl` cheaper than `mul` the extracted function is `x << 1` and returns the same result -/
example : (extract (addCosts (some 1) [("mul", 5)] demoSat)).map (fun p' => (p'.body, evalSeq demoI p' [21])) =
    some ([.op 10 "one" "" [] none, .op 12 "shl" "" [0, 10] none], some [42]) := by decide

/-- with the default costs `mul` stays -/
example : (extract (addCosts (some 1) [] demoSat)).map (fun p' => (p'.body, evalSeq demoI p' [21])) =
    some ([.op 1 "two" "" [] none, .op 2 "mul" "" [0, 1] none], some [42]) := by decide

end Xdsl.EGraph
