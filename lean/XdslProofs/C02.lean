import XdslProofs.Lemmas.CloneTop
/-!
# C02 — cloning yields an independent equivalent copy and leaves other IR untouched

Model: `XdslModel/Clone.lean` (the repaired `Region.clone_into` and `Operation.clone_without_regions`).
Identities (`Nat`) stand for Python object identity; `St.next` is the allocator of new objects, so
"`i < st.next`" reads "object `i` existed before the call".
-/
namespace Xdsl.Clone

/-- IR whose values and blocks are distinct objects and which obeys the verifier's successor rule
(`Scoped`: a successor is a block of the op's own region, or a block outside the cloned part) is a
legitimate source. -/
theorem srcOK_of_verified {k : Kind} (t : T k) (ndv : (defVals t).Nodup) (ndb : (blockIds t).Nodup)
    (sc : Scoped (blockIds t) (directIds t) t) : SrcOK t := by
  refine ⟨ndv, ndb, ?_⟩
  have nd := ndb
  simp only [blockIds, List.nodup_append] at nd
  exact succOK_of_scoped t _ sc (fun b hb => by simp [blockIds, hb]) nd.2.1
    (fun e he hh => nd.2.2 e he e hh rfl)

/-- **frame, general form**: phase 2 of the repaired `clone_into` changes no tree whose objects all
existed before the call ("leaves other IR untouched"). -/
theorem clone_into_frame {k : Kind} (st : St) (src : T .blocks) (u : T k) (old : Old st u) :
    applyOps (asg st src) u = u := by
  apply applyOps_frame
  intro id hid
  apply asg_none
  intro hin
  have h1 := old id (walkIds_sub_ids u id hid)
  have h2 := p1_ids_range st src id (walkIds_sub_ids _ id hin)
  omega

/-! ## `Region.clone_into` -/

/-- "Cloning … produces IR equivalent to the source in which every reference to a value or block
defined inside the cloned part points to its copy and every reference to something outside is
unchanged": the new blocks are the source renamed by the final `value_mapper`/`block_mapper`
(applied with `.get(x, x)`), operands and successors included. `clone_into_mapper_*` below say what
these maps are inside and outside the cloned part. -/
theorem clone_into_iso (st : St) (src dst : T .blocks) (idx : Option Nat) (ok : SrcOK src) :
    let r := cloneInto st src dst idx true
    Iso true (mapVal r.st.vm) (mapVal r.st.bm) src r.new := by
  simp only [cloneInto_eq]
  apply Iso_applyOps _ _ _ (p1_iso st src ok)
  intro p hp
  have nd : (walkIds (p1 st src).1).Nodup := (p1_ids_nodup st src).sublist (walkIds_sublist_ids _)
  exact mkAssign_get _ _ _ [] nd p hp

/-- outside the cloned part the mappers are what the caller passed in (so such references are
unchanged, or redirected exactly as the caller asked) -/
theorem clone_into_mapper_outside (st : St) (src dst : T .blocks) (idx : Option Nat) :
    let r := cloneInto st src dst idx true
    (∀ v, v ∉ defVals src → AL.get r.st.vm v = AL.get st.vm v)
      ∧ (∀ b, b ∉ blockIds src → AL.get r.st.bm b = AL.get st.bm b) := by
  simp only [cloneInto_eq]
  refine ⟨fun v hv => c1_vm_frame src _ _ v hv, fun b hb => ?_⟩
  simp only [blockIds, List.mem_append, not_or] at hb
  simp only [p1]
  rw [c1_bm_frame src _ _ b hb.2]
  exact regBlocks_frame _ _ _ _ hb.1

/-- inside the cloned part the mappers send distinct definitions to distinct *new* objects -/
theorem clone_into_mapper_inside (st : St) (src dst : T .blocks) (idx : Option Nat) (ok : SrcOK src) :
    let r := cloneInto st src dst idx true
    (∀ v ∈ defVals src, st.next ≤ mapVal r.st.vm v)
      ∧ (∀ v ∈ defVals src, ∀ w ∈ defVals src, mapVal r.st.vm v = mapVal r.st.vm w → v = w)
      ∧ (∀ b ∈ defBlocks src, st.next ≤ mapVal r.st.bm b)
      ∧ (∀ b ∈ defBlocks src, ∀ c ∈ defBlocks src, mapVal r.st.bm b = mapVal r.st.bm c → b = c) := by
  have i := p1_iso st src ok
  have dv := Iso_defVals _ _ i
  have db := Iso_defBlocks _ _ i
  have ndv : (defVals (p1 st src).1).Nodup := (p1_ids_nodup st src).sublist (defVals_sublist_ids _)
  have ndb : (defBlocks (p1 st src).1).Nodup := (p1_ids_nodup st src).sublist (defBlocks_sublist_ids _)
  simp only [cloneInto_eq]
  refine ⟨?_, ?_, ?_, ?_⟩
  · intro v hv
    have : mapVal (p1 st src).2.vm v ∈ defVals (p1 st src).1 := by rw [dv]; exact List.mem_map.2 ⟨v, hv, rfl⟩
    exact (p1_ids_range st src _ ((defVals_sublist_ids _).subset this)).1
  · rw [dv] at ndv; exact inj_of_nodup_map _ ndv
  · intro b hb
    have : mapVal (p1 st src).2.bm b ∈ defBlocks (p1 st src).1 := by rw [db]; exact List.mem_map.2 ⟨b, hb, rfl⟩
    exact (p1_ids_range st src _ ((defBlocks_sublist_ids _).subset this)).1
  · rw [db] at ndb; exact inj_of_nodup_map _ ndb

/-- "Cloning modifies [not] the source" -/
theorem clone_into_source_unchanged (st : St) (src dst : T .blocks) (idx : Option Nat)
    (old : Old st src) : (cloneInto st src dst idx true).src = src := by
  simp only [cloneInto_eq]
  exact clone_into_frame st src src old

/-- "… nor any IR already present in the destination": the destination afterwards is exactly
`old[:i] ++ new blocks ++ old[i:]` with the old blocks as they were (for an index outside
`0..len` nothing is inserted, as `Region.insert_block` behaves). -/
theorem clone_into_dest_frame (st : St) (src dst : T .blocks) (idx : Option Nat) (old : Old st dst) :
    let r := cloneInto st src dst idx true
    r.out = insertAt (idx.getD (chainLen dst)) r.new dst := by
  simp only [cloneInto_eq]
  rw [applyOps_insertAt, clone_into_frame st src dst old]

/-- every identity of the copy — ops, blocks, values and the `attributes`/`properties` dict
objects — was created by the call, and no two of them coincide -/
theorem clone_into_fresh (st : St) (src dst : T .blocks) (idx : Option Nat) :
    let r := cloneInto st src dst idx true
    (∀ i ∈ ids r.new, st.next ≤ i ∧ i < r.st.next) ∧ (ids r.new).Nodup := by
  simp only [cloneInto_eq, applyOps_ids]
  exact ⟨p1_ids_range st src, p1_ids_nodup st src⟩

/-- "later edits to the copy are never visible in the source (and vice versa)": an edit addressed to
an object of the copy changes no tree made of old objects; an edit addressed to an old object does
not change the copy. -/
theorem clone_into_edit_independence (st : St) (src dst : T .blocks) (idx : Option Nat) (e : Edit) :
    let r := cloneInto st src dst idx true
    (e.target ∈ ids r.new → ∀ {k : Kind} (u : T k), Old st u → e.apply u = u)
      ∧ (e.target < st.next → e.apply r.new = r.new) := by
  have fr := clone_into_fresh st src dst idx
  simp only at fr ⊢
  refine ⟨fun ht k u old => ?_, fun ht => ?_⟩
  · apply Edit.apply_frame
    intro hin
    have := old _ hin
    have := (fr.1 _ ht).1
    omega
  · apply Edit.apply_frame
    intro hin
    have := (fr.1 _ hin).1
    omega

/-- any sequence of edits addressed to objects that are not in `u` leaves `u` unchanged
(`apply_to_clone`: whatever a pass does to objects of the clone, the original module stays) -/
theorem edits_frame {k : Kind} (u : T k) (es : List Edit) (h : ∀ e ∈ es, e.target ∉ ids u) :
    es.foldl (fun t e => e.apply t) u = u := by
  induction es with
  | nil => rfl
  | cons e es ih =>
    simp only [List.foldl_cons]
    rw [Edit.apply_frame e u (h e (by simp))]
    exact ih (fun e' he' => h e' (by simp [he']))

end Xdsl.Clone
