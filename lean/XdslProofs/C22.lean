import XdslProofs.Lemmas.RiscV
/-!
# C22 — RISC-V canonicalization never changes results; emitted immediates are encodable

Property clause: *"RISC-V canonicalization alone never changes results"* and (leg of *"computes the
same results"*) *"the emitted instructions … executed with RISC-V semantics"* — an instruction whose
immediate cannot be encoded is not an instruction.

For every integer pattern of `canonicalization_patterns/riscv.py` (modelled in
`XdslModel/RiscVRules.lean`, fixed code) one theorem `<pattern>_sound`:

  if the rule fires on instruction `ins` (given facts `fs` read from the defining ops) and the facts
  hold in machine state `s`, then executing the emitted list from `s` gives exactly the state
  (all registers, memory, trap or not) that executing `ins` gives —
  for all register values, all memories, all constants.

`AdditionOfSameVariablesToMultiplyByTwo` introduces a temporary; its statement is equality on every
register except the temporary.  `rv_rule_sound` collects them over the rule table, `rv_rule_encodable`
says every emitted instruction assembles when the input did.
-/
namespace Xdsl.RiscV
open Rules

/-- case analysis used by the encodability lemmas: split the rule; every emitted instruction is then
`mv`/R-type (always encodable), an immediate whose range is one of the rule's guards, or an `li` of a
wrapped / `toInt` constant -/
macro "enc_tac" h:ident : tactic => `(tactic| (
  repeat' split at $h:ident
  all_goals (first | cases $h:ident | skip)
  all_goals (intro o ho; simp only [List.mem_cons, List.not_mem_nil, or_false] at ho)
  all_goals (first | (rcases ho with rfl | rfl) | subst ho)
  all_goals (first
    | rfl
    | exact li_enc _ _ (wrap32_liOk _)
    | exact li_enc _ _ (toInt_liOk _)
    | (simp_all [Instr.encodable]; done)
    | skip)))

/-! ## per-rule soundness -/

theorem removeRedundantMv_sound (ins : Instr) (out : List Instr)
    (h : removeRedundantMv ins = some out) (s : St) : exec out s = exec [ins] s := by
  unfold removeRedundantMv at h
  split at h
  · rename_i rd rs
    split at h
    · rename_i hc
      cases h
      obtain ⟨hrs, _⟩ := hc
      subst hrs
      simp [exec_one, exec1, set_get_self]
    · cases h
  · cases h

theorem multiplyImmediates_sound (fs : List Fact) (ins : Instr) (out : List Instr)
    (h : multiplyImmediates fs ins = some out) (s : St) (hf : ∀ f ∈ fs, f.Holds s) :
    exec out s = exec [ins] s := by
  unfold multiplyImmediates at h
  split at h
  · rename_i rd a b
    split at h
    · cases h
      simp [exec_one, exec1, aluR, BitVec.mul_comm]
    · rename_i r hb
      have hb' := (constOf_holds hf hb).2
      split at h
      · rename_i hr
        cases h
        subst hr
        simp [exec_one, exec1, aluR, hb']
      · split at h
        · rename_i hr
          cases h
          subst hr
          simp [exec_one, exec1, aluR, hb', imm32_one]
        · cases h
    · rename_i l r ha hb
      cases h
      have ha' := (constOf_holds hf ha).2
      have hb' := (constOf_holds hf hb).2
      simp [exec_one, exec1, aluR, ha', hb', imm32_wrap32, imm32_mul]
    · cases h
  · cases h

theorem divideByOneIdentity_sound (fs : List Fact) (ins : Instr) (out : List Instr)
    (h : divideByOneIdentity fs ins = some out) (s : St) (hf : ∀ f ∈ fs, f.Holds s) :
    exec out s = exec [ins] s := by
  unfold divideByOneIdentity at h
  split at h
  · rename_i rd a b
    split at h
    · rename_i hb
      cases h
      have hb' := (constOf_holds hf hb).2
      have h1 : (1#32).toInt = 1 := by decide
      have h2 : ¬ (1#32 = 0#32) := by decide
      simp [exec_one, exec1, aluR, hb', imm32_one, h1, h2, Int.tdiv_one, BitVec.ofInt_toInt]
    · cases h
  · cases h

theorem addImmediates_sound (fs : List Fact) (ins : Instr) (out : List Instr)
    (h : addImmediates fs ins = some out) (s : St) (hf : ∀ f ∈ fs, f.Holds s) :
    exec out s = exec [ins] s := by
  unfold addImmediates at h
  split at h
  · rename_i rd a b
    split at h
    · rename_i l ha hb
      split at h
      · cases h
        have ha' := (constOf_holds hf ha).2
        simp [exec_one, exec1, aluR, aluI, ha', BitVec.add_comm]
      · cases h
    · rename_i r ha hb
      split at h
      · cases h
        have hb' := (constOf_holds hf hb).2
        simp [exec_one, exec1, aluR, aluI, hb']
      · cases h
    · rename_i l r ha hb
      cases h
      have ha' := (constOf_holds hf ha).2
      have hb' := (constOf_holds hf hb).2
      simp [exec_one, exec1, aluR, ha', hb', imm32_wrap32, imm32_add]
    · cases h
  · cases h

theorem addImmediateZero_sound (ins : Instr) (out : List Instr)
    (h : addImmediateZero ins = some out) (s : St) : exec out s = exec [ins] s := by
  unfold addImmediateZero at h
  split at h
  · split at h
    · rename_i hz
      cases h
      subst hz
      simp [exec_one, exec1, aluI]
    · cases h
  · cases h

theorem addImmediateConstant_sound (fs : List Fact) (ins : Instr) (out : List Instr)
    (h : addImmediateConstant fs ins = some out) (s : St) (hf : ∀ f ∈ fs, f.Holds s) :
    exec out s = exec [ins] s := by
  unfold addImmediateConstant at h
  split at h
  · split at h
    · rename_i c ha
      cases h
      have ha' := (constOf_holds hf ha).2
      simp [exec_one, exec1, aluI, ha', imm32_wrap32, imm32_add]
    · cases h
  · cases h

theorem subImmediates_sound (fs : List Fact) (ins : Instr) (out : List Instr)
    (h : subImmediates fs ins = some out) (s : St) (hf : ∀ f ∈ fs, f.Holds s) :
    exec out s = exec [ins] s := by
  unfold subImmediates at h
  split at h
  · rename_i rd a b
    split at h
    · cases h
    · rename_i r ha hb
      split at h
      · cases h
        have hb' := (constOf_holds hf hb).2
        simp [exec_one, exec1, aluR, aluI, hb', imm32_neg, BitVec.sub_eq_add_neg]
      · cases h
    · rename_i l r ha hb
      cases h
      have ha' := (constOf_holds hf ha).2
      have hb' := (constOf_holds hf hb).2
      simp [exec_one, exec1, aluR, ha', hb', imm32_wrap32, imm32_sub]
    · cases h
  · cases h

theorem subBySelf_sound (ins : Instr) (out : List Instr)
    (h : subBySelf ins = some out) (s : St) : exec out s = exec [ins] s := by
  unfold subBySelf at h
  split at h
  · split at h
    · rename_i hab
      cases h
      subst hab
      simp [exec_one, exec1, aluR]
    · cases h
  · cases h

theorem subAddi_sound (fs : List Fact) (ins : Instr) (out : List Instr)
    (h : subAddi fs ins = some out) (s : St) (hf : ∀ f ∈ fs, f.Holds s) :
    exec out s = exec [ins] s := by
  unfold subAddi at h
  split at h
  · rename_i rd a b
    split at h
    · rename_i s' imm ha
      split at h
      · rename_i hsb
        cases h
        subst hsb
        have ha' := (addiOf_holds hf ha).2
        have : s.get s' + imm32 imm - s.get s' = imm32 imm := by
          rw [BitVec.add_comm, BitVec.add_sub_cancel]
        simp [exec_one, exec1, aluR, ha', this]
      · cases h
    · cases h
  · cases h

theorem andiImmediate_sound (fs : List Fact) (ins : Instr) (out : List Instr)
    (h : andiImmediate fs ins = some out) (s : St) (hf : ∀ f ∈ fs, f.Holds s) :
    exec out s = exec [ins] s := by
  unfold andiImmediate at h
  split at h
  · split at h
    · rename_i c ha
      cases h
      have ha' := (constOf_holds hf ha).2
      simp only [exec_one, exec1, aluI, ha', imm32_toInt]
    · cases h
  · cases h

theorem andiZero_sound (ins : Instr) (out : List Instr)
    (h : andiZero ins = some out) (s : St) : exec out s = exec [ins] s := by
  unfold andiZero at h
  split at h
  · split at h
    · rename_i hz
      cases h
      subst hz
      simp [exec_one, exec1, aluI]
    · cases h
  · cases h

theorem oriImmediate_sound (fs : List Fact) (ins : Instr) (out : List Instr)
    (h : oriImmediate fs ins = some out) (s : St) (hf : ∀ f ∈ fs, f.Holds s) :
    exec out s = exec [ins] s := by
  unfold oriImmediate at h
  split at h
  · split at h
    · rename_i c ha
      cases h
      have ha' := (constOf_holds hf ha).2
      simp only [exec_one, exec1, aluI, ha', imm32_toInt]
    · cases h
  · cases h

theorem oriImmediateZero_sound (ins : Instr) (out : List Instr)
    (h : oriImmediateZero ins = some out) (s : St) : exec out s = exec [ins] s := by
  unfold oriImmediateZero at h
  split at h
  · split at h
    · rename_i hz
      cases h
      subst hz
      simp [exec_one, exec1, aluI]
    · cases h
  · cases h

theorem xoriZero_sound (ins : Instr) (out : List Instr)
    (h : xoriZero ins = some out) (s : St) : exec out s = exec [ins] s := by
  unfold xoriZero at h
  split at h
  · split at h
    · rename_i hz
      cases h
      subst hz
      simp [exec_one, exec1, aluI]
    · cases h
  · cases h

theorem xoriSelfInverse_sound (fs : List Fact) (ins : Instr) (out : List Instr)
    (h : xoriSelfInverse fs ins = some out) (s : St) (hf : ∀ f ∈ fs, f.Holds s) :
    exec out s = exec [ins] s := by
  unfold xoriSelfInverse at h
  split at h
  · rename_i rd a imm
    split at h
    · rename_i s' i1 ha
      split at h
      · rename_i hc
        cases h
        obtain ⟨hi, _⟩ := hc
        subst hi
        have ha' := (xoriOf_holds hf ha).2
        simp [exec_one, exec1, aluI, ha', BitVec.xor_assoc]
      · cases h
    · cases h
  · cases h

theorem xoriOfXori_sound (fs : List Fact) (ins : Instr) (out : List Instr)
    (h : xoriOfXori fs ins = some out) (s : St) (hf : ∀ f ∈ fs, f.Holds s) :
    exec out s = exec [ins] s := by
  unfold xoriOfXori at h
  split at h
  · rename_i rd a imm
    split at h
    · rename_i s' i1 ha
      split at h
      · cases h
        have ha' := (xoriOf_holds hf ha).2
        simp only [exec_one, exec1, aluI, ha', imm32_toInt, BitVec.xor_assoc]
      · cases h
    · cases h
  · cases h

theorem xoriImmediate_sound (fs : List Fact) (ins : Instr) (out : List Instr)
    (h : xoriImmediate fs ins = some out) (s : St) (hf : ∀ f ∈ fs, f.Holds s) :
    exec out s = exec [ins] s := by
  unfold xoriImmediate at h
  split at h
  · split at h
    · rename_i c ha
      cases h
      have ha' := (constOf_holds hf ha).2
      simp only [exec_one, exec1, aluI, ha', imm32_toInt]
    · cases h
  · cases h

theorem shiftbyZero_sound (ins : Instr) (out : List Instr)
    (h : shiftbyZero ins = some out) (s : St) : exec out s = exec [ins] s := by
  unfold shiftbyZero at h
  split at h
  · rename_i op rd a n
    split at h
    · rename_i hc
      cases h
      obtain ⟨hop, hn⟩ := hc
      subst hn
      cases op <;> simp [shiftIsIdentityAtZero] at hop <;>
        simp [exec_one, exec1, aluS, BitVec.rotateRight_def]
    · cases h
  · cases h

theorem shiftConstantFolding_sound (fs : List Fact) (ins : Instr) (out : List Instr)
    (h : shiftConstantFolding fs ins = some out) (s : St) (hf : ∀ f ∈ fs, f.Holds s) :
    exec out s = exec [ins] s := by
  unfold shiftConstantFolding at h
  split at h
  · rename_i op rd a n
    split at h
    · rename_i c ha
      cases h
      have ha' := constOf_holds hf ha
      simp only [exec_one, exec1, ha'.2, pyShift_sound op c n ha'.1]
    · cases h
  · cases h

theorem loadWordWithKnownOffset_sound (fs : List Fact) (ins : Instr) (out : List Instr)
    (h : loadWordWithKnownOffset fs ins = some out) (s : St) (hf : ∀ f ∈ fs, f.Holds s) :
    exec out s = exec [ins] s := by
  unfold loadWordWithKnownOffset at h
  split at h
  · rename_i rd a off
    split at h
    · rename_i s' i1 ha
      split at h
      · cases h
        have ha' := (addiOf_holds hf ha).2
        simp only [exec_one, exec1, ha', imm32_add, BitVec.add_assoc]
      · cases h
    · cases h
  · cases h

theorem storeWordWithKnownOffset_sound (fs : List Fact) (ins : Instr) (out : List Instr)
    (h : storeWordWithKnownOffset fs ins = some out) (s : St) (hf : ∀ f ∈ fs, f.Holds s) :
    exec out s = exec [ins] s := by
  unfold storeWordWithKnownOffset at h
  split at h
  · rename_i v a off
    split at h
    · rename_i s' i1 ha
      split at h
      · cases h
        have ha' := (addiOf_holds hf ha).2
        simp only [exec_one, exec1, ha', imm32_add, BitVec.add_assoc]
      · cases h
    · cases h
  · cases h

/-- `x + x → li t, 2; mul rd, x, t`: equal on every register except the temporary `t`, provided the
temporary is a new register (not `zero`, not named by the instruction) -/
theorem additionOfSameVariablesToMultiplyByTwo_sound (fresh : Reg) (ins : Instr) (out : List Instr)
    (h : additionOfSameVariablesToMultiplyByTwo fresh ins = some out) (s : St)
    (h0 : fresh ≠ 0) (hfr : fresh ∉ ins.regs) :
    OEqExcept fresh (exec out s) (exec [ins] s) := by
  unfold additionOfSameVariablesToMultiplyByTwo at h
  split at h
  · rename_i rd a b
    split at h
    · rename_i hc
      cases h
      obtain ⟨hab, _⟩ := hc
      subst hab
      simp only [Instr.regs, List.mem_cons, List.not_mem_nil, or_false, not_or] at hfr
      obtain ⟨hrd, ha, _⟩ := hfr
      have ha' : a ≠ fresh := fun e => ha e.symm
      simp only [exec_two, exec_one, exec1, Option.bind, aluR, OEqExcept, St.EqExcept]
      refine ⟨?_, by simp⟩
      intro r hr
      rw [get_set_ne _ _ _ _ ha', get_set_same _ _ _ h0, imm32_two, BitVec.mul_two]
      rw [get_set, get_set, get_set]
      by_cases hr0 : r = 0
      · simp [hr0]
      · by_cases hrrd : r = rd
        · simp [hr0, hrrd]
        · simp [hr0, hrrd, hr]
    · cases h
  · cases h

theorem bitwiseAndByZero_sound (fs : List Fact) (ins : Instr) (out : List Instr)
    (h : bitwiseAndByZero fs ins = some out) (s : St) (hf : ∀ f ∈ fs, f.Holds s) :
    exec out s = exec [ins] s := by
  unfold bitwiseAndByZero at h
  split at h
  · rename_i rd a b
    split at h
    · rename_i ha
      cases h
      have ha' := (constOf_holds hf ha).2
      simp [exec_one, exec1, aluR, ha']
    · split at h
      · rename_i hb
        cases h
        have hb' := (constOf_holds hf hb).2
        simp [exec_one, exec1, aluR, hb']
      · cases h
  · cases h

theorem bitwiseAndBySelf_sound (ins : Instr) (out : List Instr)
    (h : bitwiseAndBySelf ins = some out) (s : St) : exec out s = exec [ins] s := by
  unfold bitwiseAndBySelf at h
  split at h
  · split at h
    · rename_i hab
      cases h
      subst hab
      simp [exec_one, exec1, aluR]
    · cases h
  · cases h

theorem bitwiseOrByZero_sound (fs : List Fact) (ins : Instr) (out : List Instr)
    (h : bitwiseOrByZero fs ins = some out) (s : St) (hf : ∀ f ∈ fs, f.Holds s) :
    exec out s = exec [ins] s := by
  unfold bitwiseOrByZero at h
  split at h
  · rename_i rd a b
    split at h
    · rename_i ha
      cases h
      have ha' := (constOf_holds hf ha).2
      simp [exec_one, exec1, aluR, ha']
    · split at h
      · rename_i hb
        cases h
        have hb' := (constOf_holds hf hb).2
        simp [exec_one, exec1, aluR, hb']
      · cases h
  · cases h

theorem bitwiseOrBySelf_sound (ins : Instr) (out : List Instr)
    (h : bitwiseOrBySelf ins = some out) (s : St) : exec out s = exec [ins] s := by
  unfold bitwiseOrBySelf at h
  split at h
  · split at h
    · rename_i hab
      cases h
      subst hab
      simp [exec_one, exec1, aluR]
    · cases h
  · cases h

theorem xorBySelf_sound (ins : Instr) (out : List Instr)
    (h : xorBySelf ins = some out) (s : St) : exec out s = exec [ins] s := by
  unfold xorBySelf at h
  split at h
  · split at h
    · rename_i hab
      cases h
      subst hab
      simp [exec_one, exec1, aluR]
    · cases h
  · cases h

theorem bitwiseXorByZero_sound (fs : List Fact) (ins : Instr) (out : List Instr)
    (h : bitwiseXorByZero fs ins = some out) (s : St) (hf : ∀ f ∈ fs, f.Holds s) :
    exec out s = exec [ins] s := by
  unfold bitwiseXorByZero at h
  split at h
  · rename_i rd a b
    split at h
    · rename_i ha
      cases h
      have ha' := (constOf_holds hf ha).2
      simp [exec_one, exec1, aluR, ha']
    · split at h
      · rename_i hb
        cases h
        have hb' := (constOf_holds hf hb).2
        simp [exec_one, exec1, aluR, hb']
      · cases h
  · cases h

theorem loadImmediate0_sound (ins : Instr) (out : List Instr)
    (h : loadImmediate0 ins = some out) (s : St) : exec out s = exec [ins] s := by
  unfold loadImmediate0 at h
  split at h
  · rename_i rd imm
    split at h
    · rename_i hz
      subst hz
      split at h
      · rename_i hrd
        cases h
        subst hrd
        simp [exec_one, exec1]
      · cases h
        simp [exec_one, exec1]
    · cases h
  · cases h


/-! ## the rule table -/

/-- a rule never changes what the machine computes (exact: every register, memory, traps) -/
def Exact (f : List Fact → Reg → Instr → Option (List Instr)) : Prop :=
  ∀ fs fresh ins out, f fs fresh ins = some out → ∀ s : St, (∀ g ∈ fs, g.Holds s) →
    exec out s = exec [ins] s

/-- … up to the temporary register a rule may introduce -/
def Sound (f : List Fact → Reg → Instr → Option (List Instr)) : Prop :=
  ∀ fs fresh ins out, f fs fresh ins = some out → ∀ s : St, (∀ g ∈ fs, g.Holds s) →
    fresh ≠ 0 → fresh ∉ ins.regs → OEqExcept fresh (exec out s) (exec [ins] s)

theorem ruleTable_exact : ∀ e ∈ ruleTable,
    e.1 ≠ "AdditionOfSameVariablesToMultiplyByTwo" → Exact e.2 := by
  intro e he hne
  simp only [ruleTable, List.mem_cons, List.not_mem_nil, or_false] at he
  rcases he with rfl | rfl | rfl | rfl | rfl | rfl | rfl | rfl | rfl | rfl | rfl | rfl | rfl | rfl | rfl | rfl | rfl | rfl | rfl | rfl | rfl | rfl | rfl | rfl | rfl | rfl | rfl | rfl | rfl
  · intro fs fresh ins out h s hf; exact removeRedundantMv_sound ins out h s
  · intro fs fresh ins out h s hf; exact multiplyImmediates_sound fs ins out h s hf
  · intro fs fresh ins out h s hf; exact divideByOneIdentity_sound fs ins out h s hf
  · intro fs fresh ins out h s hf; exact addImmediates_sound fs ins out h s hf
  · intro fs fresh ins out h s hf; exact addImmediateZero_sound ins out h s
  · intro fs fresh ins out h s hf; exact addImmediateConstant_sound fs ins out h s hf
  · intro fs fresh ins out h s hf; exact subImmediates_sound fs ins out h s hf
  · intro fs fresh ins out h s hf; exact subBySelf_sound ins out h s
  · intro fs fresh ins out h s hf; exact subAddi_sound fs ins out h s hf
  · intro fs fresh ins out h s hf; exact andiImmediate_sound fs ins out h s hf
  · intro fs fresh ins out h s hf; exact andiZero_sound ins out h s
  · intro fs fresh ins out h s hf; exact oriImmediate_sound fs ins out h s hf
  · intro fs fresh ins out h s hf; exact oriImmediateZero_sound ins out h s
  · intro fs fresh ins out h s hf; exact xoriZero_sound ins out h s
  · intro fs fresh ins out h s hf; exact xoriSelfInverse_sound fs ins out h s hf
  · intro fs fresh ins out h s hf; exact xoriOfXori_sound fs ins out h s hf
  · intro fs fresh ins out h s hf; exact xoriImmediate_sound fs ins out h s hf
  · intro fs fresh ins out h s hf; exact shiftbyZero_sound ins out h s
  · intro fs fresh ins out h s hf; exact shiftConstantFolding_sound fs ins out h s hf
  · intro fs fresh ins out h s hf; exact loadWordWithKnownOffset_sound fs ins out h s hf
  · intro fs fresh ins out h s hf; exact storeWordWithKnownOffset_sound fs ins out h s hf
  · exact absurd rfl hne
  · intro fs fresh ins out h s hf; exact bitwiseAndByZero_sound fs ins out h s hf
  · intro fs fresh ins out h s hf; exact bitwiseAndBySelf_sound ins out h s
  · intro fs fresh ins out h s hf; exact bitwiseOrByZero_sound fs ins out h s hf
  · intro fs fresh ins out h s hf; exact bitwiseOrBySelf_sound ins out h s
  · intro fs fresh ins out h s hf; exact xorBySelf_sound ins out h s
  · intro fs fresh ins out h s hf; exact bitwiseXorByZero_sound fs ins out h s hf
  · intro fs fresh ins out h s hf; exact loadImmediate0_sound ins out h s

theorem ruleTable_sound : ∀ e ∈ ruleTable, Sound e.2 := by
  intro e he
  by_cases hne : e.1 = "AdditionOfSameVariablesToMultiplyByTwo"
  · simp only [ruleTable, List.mem_cons, List.not_mem_nil, or_false] at he
    rcases he with rfl | rfl | rfl | rfl | rfl | rfl | rfl | rfl | rfl | rfl | rfl | rfl | rfl | rfl | rfl | rfl | rfl | rfl | rfl | rfl | rfl | rfl | rfl | rfl | rfl | rfl | rfl | rfl | rfl
    all_goals first
      | (intro fs fresh ins out h s _ h0 hfr
         exact additionOfSameVariablesToMultiplyByTwo_sound fresh ins out h s h0 hfr)
      | exact absurd hne (by decide)
  · intro fs fresh ins out h s hf _ _
    exact OEqExcept.of_eq fresh (ruleTable_exact e he hne fs fresh ins out h s hf)

/-- **RISC-V canonicalization alone never changes results** (per pattern application).  For every
pattern name, facts, instruction and temporary: if the rule fires and the facts are true of the
machine state, then the emitted sequence and the original instruction produce the same registers
(except the new temporary) and the same memory, and trap in the same states — for all register
values, memories and constants. -/
theorem rv_rule_sound (name : String) (fs : List Fact) (ins : Instr) (fresh : Reg) (out : List Instr)
    (h : rule name fs ins fresh = some out) (s : St) (hf : ∀ g ∈ fs, g.Holds s)
    (h0 : fresh ≠ 0) (hfr : fresh ∉ ins.regs) :
    OEqExcept fresh (exec out s) (exec [ins] s) := by
  unfold rule at h
  split at h
  · rename_i f hl
    exact ruleTable_sound _ (lookupRule_mem hl) fs fresh ins out h s hf h0 hfr
  · cases h

/-- the same with exact equality of the whole machine state, for the 28 rules without a temporary -/
theorem rv_rule_sound_exact (name : String) (fs : List Fact) (ins : Instr) (fresh : Reg) (out : List Instr)
    (hname : name ≠ "AdditionOfSameVariablesToMultiplyByTwo")
    (h : rule name fs ins fresh = some out) (s : St) (hf : ∀ g ∈ fs, g.Holds s) :
    exec out s = exec [ins] s := by
  unfold rule at h
  split at h
  · rename_i f hl
    exact ruleTable_exact _ (lookupRule_mem hl) hname fs fresh ins out h s hf
  · cases h

/-! ## encodability: what a rule emits assembles -/

/-- every instruction a rule emits can be encoded (12-bit signed immediates, 5-bit shift amounts,
32-bit `li` constants), given well-formed facts -/
def Encodes (f : List Fact → Reg → Instr → Option (List Instr)) : Prop :=
  ∀ fs fresh ins out, f fs fresh ins = some out → (∀ g ∈ fs, g.WF) → ins.encodable = true →
    ∀ o ∈ out, o.encodable = true


theorem removeRedundantMv_enc (ins : Instr) (out : List Instr)
    (h : removeRedundantMv ins = some out) (henc : ins.encodable = true) :
    ∀ o ∈ out, o.encodable = true := by
  unfold removeRedundantMv at h
  enc_tac h

theorem multiplyImmediates_enc (fs : List Fact) (ins : Instr) (out : List Instr)
    (h : multiplyImmediates fs ins = some out) (hwf : ∀ g ∈ fs, g.WF) (henc : ins.encodable = true) :
    ∀ o ∈ out, o.encodable = true := by
  unfold multiplyImmediates at h
  enc_tac h

theorem divideByOneIdentity_enc (fs : List Fact) (ins : Instr) (out : List Instr)
    (h : divideByOneIdentity fs ins = some out) (hwf : ∀ g ∈ fs, g.WF) (henc : ins.encodable = true) :
    ∀ o ∈ out, o.encodable = true := by
  unfold divideByOneIdentity at h
  enc_tac h

theorem addImmediates_enc (fs : List Fact) (ins : Instr) (out : List Instr)
    (h : addImmediates fs ins = some out) (hwf : ∀ g ∈ fs, g.WF) (henc : ins.encodable = true) :
    ∀ o ∈ out, o.encodable = true := by
  unfold addImmediates at h
  enc_tac h

theorem addImmediateZero_enc (ins : Instr) (out : List Instr)
    (h : addImmediateZero ins = some out) (henc : ins.encodable = true) :
    ∀ o ∈ out, o.encodable = true := by
  unfold addImmediateZero at h
  enc_tac h

theorem addImmediateConstant_enc (fs : List Fact) (ins : Instr) (out : List Instr)
    (h : addImmediateConstant fs ins = some out) (hwf : ∀ g ∈ fs, g.WF) (henc : ins.encodable = true) :
    ∀ o ∈ out, o.encodable = true := by
  unfold addImmediateConstant at h
  enc_tac h

theorem subImmediates_enc (fs : List Fact) (ins : Instr) (out : List Instr)
    (h : subImmediates fs ins = some out) (hwf : ∀ g ∈ fs, g.WF) (henc : ins.encodable = true) :
    ∀ o ∈ out, o.encodable = true := by
  unfold subImmediates at h
  enc_tac h

theorem subBySelf_enc (ins : Instr) (out : List Instr)
    (h : subBySelf ins = some out) (henc : ins.encodable = true) :
    ∀ o ∈ out, o.encodable = true := by
  unfold subBySelf at h
  enc_tac h

theorem subAddi_enc (fs : List Fact) (ins : Instr) (out : List Instr)
    (h : subAddi fs ins = some out) (hwf : ∀ g ∈ fs, g.WF) (henc : ins.encodable = true) :
    ∀ o ∈ out, o.encodable = true := by
  unfold subAddi at h
  split at h
  · split at h
    · rename_i s' imm ha
      split at h
      · cases h
        intro o ho
        simp only [List.mem_cons, List.not_mem_nil, or_false] at ho
        subst ho
        exact li_enc _ _ (fits_liOk _ (hwf _ (addiOf_mem ha)))
      · cases h
    · cases h
  · cases h

theorem andiImmediate_enc (fs : List Fact) (ins : Instr) (out : List Instr)
    (h : andiImmediate fs ins = some out) (hwf : ∀ g ∈ fs, g.WF) (henc : ins.encodable = true) :
    ∀ o ∈ out, o.encodable = true := by
  unfold andiImmediate at h
  enc_tac h

theorem andiZero_enc (ins : Instr) (out : List Instr)
    (h : andiZero ins = some out) (henc : ins.encodable = true) :
    ∀ o ∈ out, o.encodable = true := by
  unfold andiZero at h
  enc_tac h

theorem oriImmediate_enc (fs : List Fact) (ins : Instr) (out : List Instr)
    (h : oriImmediate fs ins = some out) (hwf : ∀ g ∈ fs, g.WF) (henc : ins.encodable = true) :
    ∀ o ∈ out, o.encodable = true := by
  unfold oriImmediate at h
  enc_tac h

theorem oriImmediateZero_enc (ins : Instr) (out : List Instr)
    (h : oriImmediateZero ins = some out) (henc : ins.encodable = true) :
    ∀ o ∈ out, o.encodable = true := by
  unfold oriImmediateZero at h
  enc_tac h

theorem xoriZero_enc (ins : Instr) (out : List Instr)
    (h : xoriZero ins = some out) (henc : ins.encodable = true) :
    ∀ o ∈ out, o.encodable = true := by
  unfold xoriZero at h
  enc_tac h

theorem xoriSelfInverse_enc (fs : List Fact) (ins : Instr) (out : List Instr)
    (h : xoriSelfInverse fs ins = some out) (hwf : ∀ g ∈ fs, g.WF) (henc : ins.encodable = true) :
    ∀ o ∈ out, o.encodable = true := by
  unfold xoriSelfInverse at h
  enc_tac h

theorem xoriOfXori_enc (fs : List Fact) (ins : Instr) (out : List Instr)
    (h : xoriOfXori fs ins = some out) (hwf : ∀ g ∈ fs, g.WF) (henc : ins.encodable = true) :
    ∀ o ∈ out, o.encodable = true := by
  unfold xoriOfXori at h
  split at h
  · rename_i rd a imm
    split at h
    · rename_i s' i1 ha
      split at h
      · cases h
        intro o ho
        simp only [List.mem_cons, List.not_mem_nil, or_false] at ho
        subst ho
        have h1 : fitsSI12 i1 = true := hwf _ (xoriOf_mem ha)
        have h2 : fitsSI12 imm = true := by simpa [Instr.encodable] using henc
        simpa [Instr.encodable] using xor_fits i1 imm h1 h2
      · cases h
    · cases h
  · cases h

theorem xoriImmediate_enc (fs : List Fact) (ins : Instr) (out : List Instr)
    (h : xoriImmediate fs ins = some out) (hwf : ∀ g ∈ fs, g.WF) (henc : ins.encodable = true) :
    ∀ o ∈ out, o.encodable = true := by
  unfold xoriImmediate at h
  enc_tac h

theorem shiftbyZero_enc (ins : Instr) (out : List Instr)
    (h : shiftbyZero ins = some out) (henc : ins.encodable = true) :
    ∀ o ∈ out, o.encodable = true := by
  unfold shiftbyZero at h
  enc_tac h

theorem shiftConstantFolding_enc (fs : List Fact) (ins : Instr) (out : List Instr)
    (h : shiftConstantFolding fs ins = some out) (hwf : ∀ g ∈ fs, g.WF) (henc : ins.encodable = true) :
    ∀ o ∈ out, o.encodable = true := by
  unfold shiftConstantFolding at h
  split at h
  · rename_i op rd a n
    split at h
    · rename_i c ha
      cases h
      intro o ho
      simp only [List.mem_cons, List.not_mem_nil, or_false] at ho
      subst ho
      exact li_enc _ _ (pyShift_liOk op c n (hwf _ (constOf_mem ha)))
    · cases h
  · cases h

theorem loadWordWithKnownOffset_enc (fs : List Fact) (ins : Instr) (out : List Instr)
    (h : loadWordWithKnownOffset fs ins = some out) (hwf : ∀ g ∈ fs, g.WF) (henc : ins.encodable = true) :
    ∀ o ∈ out, o.encodable = true := by
  unfold loadWordWithKnownOffset at h
  enc_tac h

theorem storeWordWithKnownOffset_enc (fs : List Fact) (ins : Instr) (out : List Instr)
    (h : storeWordWithKnownOffset fs ins = some out) (hwf : ∀ g ∈ fs, g.WF) (henc : ins.encodable = true) :
    ∀ o ∈ out, o.encodable = true := by
  unfold storeWordWithKnownOffset at h
  enc_tac h

theorem additionOfSameVariablesToMultiplyByTwo_enc (fresh : Reg) (ins : Instr) (out : List Instr)
    (h : additionOfSameVariablesToMultiplyByTwo fresh ins = some out) (henc : ins.encodable = true) :
    ∀ o ∈ out, o.encodable = true := by
  unfold additionOfSameVariablesToMultiplyByTwo at h
  enc_tac h

theorem bitwiseAndByZero_enc (fs : List Fact) (ins : Instr) (out : List Instr)
    (h : bitwiseAndByZero fs ins = some out) (hwf : ∀ g ∈ fs, g.WF) (henc : ins.encodable = true) :
    ∀ o ∈ out, o.encodable = true := by
  unfold bitwiseAndByZero at h
  enc_tac h

theorem bitwiseAndBySelf_enc (ins : Instr) (out : List Instr)
    (h : bitwiseAndBySelf ins = some out) (henc : ins.encodable = true) :
    ∀ o ∈ out, o.encodable = true := by
  unfold bitwiseAndBySelf at h
  enc_tac h

theorem bitwiseOrByZero_enc (fs : List Fact) (ins : Instr) (out : List Instr)
    (h : bitwiseOrByZero fs ins = some out) (hwf : ∀ g ∈ fs, g.WF) (henc : ins.encodable = true) :
    ∀ o ∈ out, o.encodable = true := by
  unfold bitwiseOrByZero at h
  enc_tac h

theorem bitwiseOrBySelf_enc (ins : Instr) (out : List Instr)
    (h : bitwiseOrBySelf ins = some out) (henc : ins.encodable = true) :
    ∀ o ∈ out, o.encodable = true := by
  unfold bitwiseOrBySelf at h
  enc_tac h

theorem xorBySelf_enc (ins : Instr) (out : List Instr)
    (h : xorBySelf ins = some out) (henc : ins.encodable = true) :
    ∀ o ∈ out, o.encodable = true := by
  unfold xorBySelf at h
  enc_tac h

theorem bitwiseXorByZero_enc (fs : List Fact) (ins : Instr) (out : List Instr)
    (h : bitwiseXorByZero fs ins = some out) (hwf : ∀ g ∈ fs, g.WF) (henc : ins.encodable = true) :
    ∀ o ∈ out, o.encodable = true := by
  unfold bitwiseXorByZero at h
  enc_tac h

theorem loadImmediate0_enc (ins : Instr) (out : List Instr)
    (h : loadImmediate0 ins = some out) (henc : ins.encodable = true) :
    ∀ o ∈ out, o.encodable = true := by
  unfold loadImmediate0 at h
  enc_tac h

theorem ruleTable_encodes : ∀ e ∈ ruleTable, Encodes e.2 := by
  intro e he
  simp only [ruleTable, List.mem_cons, List.not_mem_nil, or_false] at he
  rcases he with rfl | rfl | rfl | rfl | rfl | rfl | rfl | rfl | rfl | rfl | rfl | rfl | rfl | rfl | rfl | rfl | rfl | rfl | rfl | rfl | rfl | rfl | rfl | rfl | rfl | rfl | rfl | rfl | rfl
  · intro fs fresh ins out h hwf henc; exact removeRedundantMv_enc ins out h henc
  · intro fs fresh ins out h hwf henc; exact multiplyImmediates_enc fs ins out h hwf henc
  · intro fs fresh ins out h hwf henc; exact divideByOneIdentity_enc fs ins out h hwf henc
  · intro fs fresh ins out h hwf henc; exact addImmediates_enc fs ins out h hwf henc
  · intro fs fresh ins out h hwf henc; exact addImmediateZero_enc ins out h henc
  · intro fs fresh ins out h hwf henc; exact addImmediateConstant_enc fs ins out h hwf henc
  · intro fs fresh ins out h hwf henc; exact subImmediates_enc fs ins out h hwf henc
  · intro fs fresh ins out h hwf henc; exact subBySelf_enc ins out h henc
  · intro fs fresh ins out h hwf henc; exact subAddi_enc fs ins out h hwf henc
  · intro fs fresh ins out h hwf henc; exact andiImmediate_enc fs ins out h hwf henc
  · intro fs fresh ins out h hwf henc; exact andiZero_enc ins out h henc
  · intro fs fresh ins out h hwf henc; exact oriImmediate_enc fs ins out h hwf henc
  · intro fs fresh ins out h hwf henc; exact oriImmediateZero_enc ins out h henc
  · intro fs fresh ins out h hwf henc; exact xoriZero_enc ins out h henc
  · intro fs fresh ins out h hwf henc; exact xoriSelfInverse_enc fs ins out h hwf henc
  · intro fs fresh ins out h hwf henc; exact xoriOfXori_enc fs ins out h hwf henc
  · intro fs fresh ins out h hwf henc; exact xoriImmediate_enc fs ins out h hwf henc
  · intro fs fresh ins out h hwf henc; exact shiftbyZero_enc ins out h henc
  · intro fs fresh ins out h hwf henc; exact shiftConstantFolding_enc fs ins out h hwf henc
  · intro fs fresh ins out h hwf henc; exact loadWordWithKnownOffset_enc fs ins out h hwf henc
  · intro fs fresh ins out h hwf henc; exact storeWordWithKnownOffset_enc fs ins out h hwf henc
  · intro fs fresh ins out h hwf henc; exact additionOfSameVariablesToMultiplyByTwo_enc fresh ins out h henc
  · intro fs fresh ins out h hwf henc; exact bitwiseAndByZero_enc fs ins out h hwf henc
  · intro fs fresh ins out h hwf henc; exact bitwiseAndBySelf_enc ins out h henc
  · intro fs fresh ins out h hwf henc; exact bitwiseOrByZero_enc fs ins out h hwf henc
  · intro fs fresh ins out h hwf henc; exact bitwiseOrBySelf_enc ins out h henc
  · intro fs fresh ins out h hwf henc; exact xorBySelf_enc ins out h henc
  · intro fs fresh ins out h hwf henc; exact bitwiseXorByZero_enc fs ins out h hwf henc
  · intro fs fresh ins out h hwf henc; exact loadImmediate0_enc ins out h henc

/-- **what canonicalization emits assembles**: if the rewritten instruction was encodable and the
facts carry in-range payloads, every emitted instruction is encodable -/
theorem rv_rule_encodable (name : String) (fs : List Fact) (ins : Instr) (fresh : Reg) (out : List Instr)
    (h : rule name fs ins fresh = some out) (hwf : ∀ g ∈ fs, g.WF) (henc : ins.encodable = true) :
    ∀ o ∈ out, o.encodable = true := by
  unfold rule at h
  split at h
  · rename_i f hl
    exact ruleTable_encodes _ (lookupRule_mem hl) fs fresh ins out h hwf henc
  · cases h

/-! ## arith.cmpi lowering (LowerArithCmpi, fixed table) -/

/-- Property clause *"computes … the same results as the source"* for `arith.cmpi : i32`: for every
predicate, operand values, and registers (`t` a new temporary, `rd` not `zero`), the emitted
instructions leave in `rd` exactly MLIR's truth value (1 / 0). -/
theorem cmpi_lowering_sound (pred : Nat) (rd t lhs rhs : Reg) (out : List Instr)
    (h : lowerCmpi pred rd t lhs rhs = some out) (s : St)
    (hrd : rd ≠ 0) (ht : t ≠ 0) :
    ∃ s' c, exec out s = some s' ∧ cmpiSem pred (s.get lhs) (s.get rhs) = some c ∧ s'.get rd = b2w c := by
  unfold lowerCmpi at h
  split at h <;> cases h
  · refine ⟨_, _, by simp only [exec_two, exec1, Option.bind]; rfl, rfl, ?_⟩
    simp only [get_set_same _ _ _ hrd, get_set_same _ _ _ ht, aluI, aluR, cmp_eq]
  · refine ⟨_, _, by simp only [exec_two, exec1, Option.bind]; rfl, rfl, ?_⟩
    simp only [get_set_same _ _ _ hrd, get_set_same _ _ _ ht, get_zero, aluR, cmp_ne]
  · exact ⟨_, _, by simp only [exec_one, exec1]; rfl, rfl, by simp only [get_set_same _ _ _ hrd, aluR]⟩
  · refine ⟨_, _, by simp only [exec_two, exec1, Option.bind]; rfl, rfl, ?_⟩
    simp only [get_set_same _ _ _ hrd, get_set_same _ _ _ ht, aluI, aluR, not_b2w, BitVec.sle_eq_not_slt]
  · exact ⟨_, _, by simp only [exec_one, exec1]; rfl, rfl, by simp only [get_set_same _ _ _ hrd, aluR]⟩
  · refine ⟨_, _, by simp only [exec_two, exec1, Option.bind]; rfl, rfl, ?_⟩
    simp only [get_set_same _ _ _ hrd, get_set_same _ _ _ ht, aluI, aluR, not_b2w, BitVec.sle_eq_not_slt]
  · exact ⟨_, _, by simp only [exec_one, exec1]; rfl, rfl, by simp only [get_set_same _ _ _ hrd, aluR]⟩
  · refine ⟨_, _, by simp only [exec_two, exec1, Option.bind]; rfl, rfl, ?_⟩
    simp only [get_set_same _ _ _ hrd, get_set_same _ _ _ ht, aluI, aluR, not_b2w, BitVec.ule_eq_not_ult]
  · exact ⟨_, _, by simp only [exec_one, exec1]; rfl, rfl, by simp only [get_set_same _ _ _ hrd, aluR]⟩
  · refine ⟨_, _, by simp only [exec_two, exec1, Option.bind]; rfl, rfl, ?_⟩
    simp only [get_set_same _ _ _ hrd, get_set_same _ _ _ ht, aluI, aluR, not_b2w, BitVec.ule_eq_not_ult]

/-- every MLIR predicate is lowered -/
theorem cmpi_lowering_total (pred : Nat) (hp : pred < 10) (rd t lhs rhs : Reg) :
    (lowerCmpi pred rd t lhs rhs).isSome = true := by
  have : pred = 0 ∨ pred = 1 ∨ pred = 2 ∨ pred = 3 ∨ pred = 4 ∨ pred = 5 ∨ pred = 6 ∨ pred = 7 ∨ pred = 8 ∨ pred = 9 := by omega
  rcases this with rfl | rfl | rfl | rfl | rfl | rfl | rfl | rfl | rfl | rfl <;> rfl

/-! ## riscv_cf: constant branches (ElideConstantBranches) -/

/-- `const_evaluate` of every conditional branch class decides exactly what the instruction does
on the 32-bit images of the constants (all six predicates, all i32 payloads, in particular equal
operands of `bge`/`bgeu`/`beq`) -/
theorem constEvaluate_sound (op : BOp) (a b : Int) (ha : inS32 a) (hb : inS32 b) :
    constEvaluate op a b = taken op (imm32 a) (imm32 b) := by
  cases op <;> simp only [constEvaluate, taken, toSigned32_id a ha, toSigned32_id b hb, slt_imm32 a b ha hb,
    ult_imm32 a b ha hb, eq_imm32 a b ha hb]
  · rw [← eq_imm32 a b ha hb]; rfl
  · by_cases h : a < b <;> simp [h] <;> omega
  · by_cases h : toUnsigned32 a < toUnsigned32 b <;> simp [h] <;> omega


/-- **folding a constant branch never changes where the program goes**: replacing the branch at `pc`
by what `ElideConstantBranches` emits (`j then` / fall-through) gives the same machine step, whenever
the constant facts hold in the state -/
theorem elideConstantBranch_sound (fs : List Fact) (ins new : Instr)
    (h : elideConstantBranch fs ins = some new) (s : St) (hf : ∀ g ∈ fs, g.Holds s)
    (prog prog' : Array Instr) (pc : Nat) (h1 : prog[pc]? = some ins) (h2 : prog'[pc]? = some new) :
    step prog' pc s = step prog pc s := by
  unfold elideConstantBranch at h
  split at h
  · rename_i op a b t
    split at h
    · rename_i x y ha hb
      cases h
      have ha' := constOf_holds hf ha
      have hb' := constOf_holds hf hb
      have ht : taken op (s.get a) (s.get b) = constEvaluate op x y := by
        rw [ha'.2, hb'.2, constEvaluate_sound op x y ha'.1 hb'.1]
      by_cases hc : constEvaluate op x y = true
      · rw [hc] at ht
        simp [step, h1, h2, hc, ht, Instr.encodable]
      · have hc' : constEvaluate op x y = false := by simpa using hc
        rw [hc'] at ht
        simp [step, h1, h2, hc', ht, Instr.encodable, exec1]
    · cases h
  · cases h

/-- a strict comparison in `BgeOp.const_evaluate` (`>` for `>=`) disagrees with the instruction on equal constants -/
theorem bge_strict_counterexample :
    taken .bge (imm32 3) (imm32 3) = true ∧ decide ((3 : Int) > 3) = false ∧ constEvaluate .bge 3 3 = true := by decide

example : elideConstantBranch [.const 5 4, .const 6 4] (.br .bge 5 6 9) = some (.j 9) := by decide
example : elideConstantBranch [.const 5 4, .const 6 4] (.br .blt 5 6 9) = some .nop := by decide
example : elideConstantBranch [.const 5 4] (.br .blt 5 6 9) = none := by decide

/-! ## counterexamples: what the unfixed code did -/

def st0 : St := { regs := fun _ => 0#32, mem := fun _ => 0#32 }

/-- the table before the fix: `sle` on (1, 2) answers 0 (it computed `sge`) -/
theorem cmpiOld_counterexample :
    let s := (st0.set 10 1#32).set 11 2#32
    (exec ((lowerCmpiOld 3 12 5 10 11).getD []) s).map (·.get 12) = some 0#32 ∧
    cmpiSem 3 (s.get 10) (s.get 11) = some true := by decide

/-- `(x ^ 5) ^ 3 → x ^ 6` read from the register of `x` after it was reused for `x ^ 5`
(XoriOfXori without `_is_stable`, after register allocation): different results -/
theorem xoriOfXori_unguarded_counterexample :
    (exec [.i .xori 5 5 5, .i .xori 5 5 3] st0).map (·.get 5) ≠
    (exec [.i .xori 5 5 5, .i .xori 5 5 6] st0).map (·.get 5) := by decide

/-- `lw 4(p+8) → lw 12(p)` with `p+8` computed into the register of `p` (LoadWordWithKnownOffset
without `_is_stable`): reads another address -/
theorem loadWord_unguarded_counterexample :
    let s := st0.store 20#32 7#32
    (exec [.i .addi 5 5 8, .lw 6 5 4] s).map (·.get 6) ≠
    (exec [.i .addi 5 5 8, .lw 6 5 12] s).map (·.get 6) := by decide

/-- `ShiftbyZero` applied to the single-bit instructions: `binvi x, 0` is not `x` -/
theorem shiftbyZero_bitop_counterexample :
    aluS .binvi 0#32 0 ≠ 0#32 ∧ aluS .bseti 0#32 0 ≠ 0#32 ∧ aluS .bclri 1#32 0 ≠ 1#32 ∧ aluS .bexti 2#32 0 ≠ 2#32 := by
  decide

/-- folding `add x, (li 2048)` to `addi x, 2048` (AddImmediates without `_fits_si12`) does not assemble;
`li (65536*65536)` (MultiplyImmediates without wrapping) is not a 32-bit constant -/
theorem unguarded_immediates_counterexample :
    (Instr.i .addi 5 6 2048).encodable = false ∧ (Instr.li 5 (65536 * 65536)).encodable = false := by decide

/-! ## non-vacuity -/

example : rule "AddImmediates" [.const 33 5] (.r .add 34 32 33) 99 = some [.i .addi 34 32 5] := by decide
example : rule "AddImmediates" [.const 33 2048] (.r .add 34 32 33) 99 = none := by decide
example : rule "AddImmediates" [.const 32 2147483647, .const 33 1] (.r .add 34 32 33) 99 = some [.li 34 (-2147483648)] := by decide
example : rule "MultiplyImmediates" [.const 32 65536, .const 33 65536] (.r .mul 34 32 33) 99 = some [.li 34 0] := by decide
example : rule "SubImmediates" [.const 33 (-2048)] (.r .sub 34 32 33) 99 = none := by decide
example : rule "XoriOfXori" [.xori 33 32 5] (.i .xori 34 33 3) 99 = some [.i .xori 34 32 6] := by decide
example : rule "XoriOfXori" [.xori 5 5 5] (.i .xori 5 5 3) 99 = none := by decide
example : rule "ShiftbyZero" [] (.sh .binvi 34 32 0) 99 = none := by decide
example : rule "ShiftConstantFolding" [.const 32 3] (.sh .slli 34 32 31) 99 = some [.li 34 (-2147483648)] := by decide
example : rule "LoadWordWithKnownOffset" [.addi 33 32 2044] (.lw 34 33 4) 99 = none := by decide
example : rule "AdditionOfSameVariablesToMultiplyByTwo" [] (.r .add 34 32 32) 99 = some [.li 99 2, .r .mul 34 32 99] := by decide
example : rule "AdditionOfSameVariablesToMultiplyByTwo" [] (.r .add 5 6 6) 99 = none := by decide
example : lowerCmpi 3 12 5 10 11 = some [.r .slt 5 11 10, .i .xori 12 5 1] := rfl

end Xdsl.RiscV
