import XdslProofs.Lemmas.AttrValue
import XdslProofs.Lemmas.AttrValueSort
/-!
# C08 — property theorems

"Attributes behave as immutable values: equal attributes have equal hashes, equality is reflexive,
symmetric and transitive, two attributes built from the same parameters (or parsed from the same
text in different contexts) are equal, and attributes whose payloads differ observably (for
example 0.0 and -0.0, or NaNs with different bit patterns) are not equal."

The model (`XdslModel/AttrValue.lean`) is of the FIXED code: `FloatData.__eq__/__hash__` on the
binary64 bit pattern, `UnregisteredAttr.with_name_and_type` returning one class per name (so that
the class token of an attribute is a function of its construction parameters; the model has no
context argument at all — context independence is checked by the parser leg of the harness).
`V.eq`/`V.hash` are the functions the dataclass machinery executes; the theorems are about them.
-/
namespace Xdsl.AttrValue

/-! ## equality is an equivalence -/

/-- The comparison executed by `==` holds exactly for identical value trees (same classes, same
payload bits everywhere).  All clauses of the property follow from this characterisation. -/
theorem eq_iff_eq (a b : V) : V.eq a b = true ↔ a = b := V.eq_iff a b

/-- "equality is reflexive" -/
theorem eq_refl (a : V) : V.eq a a = true := (V.eq_iff a a).2 rfl

/-- "equality is … symmetric" (as a Boolean identity: `a == b` and `b == a` return the same) -/
theorem eq_symm (a b : V) : V.eq a b = V.eq b a := by
  rw [Bool.eq_iff_iff, V.eq_iff, V.eq_iff]
  exact eq_comm

/-- "equality is … transitive" -/
theorem eq_trans {a b c : V} (h₁ : V.eq a b = true) (h₂ : V.eq b c = true) : V.eq a c = true := by
  rw [V.eq_iff] at *
  exact h₁.trans h₂

/-- `==` on attribute values is an equivalence relation. -/
theorem eq_equiv : Equivalence (fun a b : V => V.eq a b = true) :=
  ⟨eq_refl, fun h => (eq_symm _ _).symm.trans h, eq_trans⟩

/-! ## equal attributes have equal hashes -/

/-- "equal attributes have equal hashes" -/
theorem eq_hash {a b : V} (h : V.eq a b = true) : V.hash a = V.hash b := by
  rw [(V.eq_iff a b).1 h]

/-- The hash of a `FloatData` is a function of its bit pattern only (in particular every NaN
object with the same bits hashes the same; the unfixed code hashed NaNs by object identity). -/
theorem fbits_hash (bits : Nat) : V.hash (.leaf (.fbits bits)) = bufCode (le8 bits) := by
  simp [V.hash, Leaf.hash]

/-! ## same construction parameters give equal attributes -/

/-- "two attributes built from the same parameters … are equal": construction is a congruence for
`==` — pairwise equal parameters and the same class give equal attributes (and by `eq_hash`
equal hashes). -/
theorem mk_congr (cls : String) {ps qs : List V} (h : V.eqList ps qs = true) :
    V.eq (mkAttr cls ps) (mkAttr cls qs) = true := by
  rw [(V.eqList_iff ps qs).1 h]
  exact eq_refl _

/-- The same for every container kind, through the normalising constructor: equal children in
construction order give equal tuples / frozensets / dictionaries / objects. -/
theorem mkNode_congr (t : Tag) {ps qs : List V} {a b : V} (h : V.eqList ps qs = true)
    (ha : mkNode t ps = some a) (hb : mkNode t qs = some b) : V.eq a b = true := by
  rw [(V.eqList_iff ps qs).1 h] at ha
  rw [ha] at hb
  rw [Option.some.inj hb]
  exact eq_refl _

/-- Dictionaries do not remember the insertion order: the same `(key, value)` entries (pairwise
distinct keys) given in any order build the same `DictionaryAttr` payload — the model counterpart
of Python's order-insensitive `dict.__eq__` / `immutabledict.__hash__`; so two dictionaries built
from the same items are equal and hash equally whatever the order of construction. -/
theorem mkDict_perm {ps qs : List V} (hp : ps.Perm qs)
    (hk : ps.Pairwise (fun x y => x.sortKey ≠ y.sortKey)) : mkDict ps = mkDict qs := by
  have h := congrArg (Option.map fun l => V.node .dict (l.map (·.2))) (keyed_sort_perm hp hk)
  simpa [mkDict, Option.map_map, Function.comp_def] using h

/-- … and likewise `frozenset` payloads (bit-enum attributes). -/
theorem mkSet_perm {ps qs : List V} (hp : ps.Perm qs)
    (hk : ps.Pairwise (fun x y => x.sortKey ≠ y.sortKey)) : mkSet ps = mkSet qs := by
  have h := congrArg (Option.map fun l => V.node .fset (l.map (·.2))) (keyed_sort_perm hp hk)
  simpa [mkSet, Option.map_map, Function.comp_def] using h

/-- Attributes of different classes are never equal, even with identical parameters
(`other.__class__ is self.__class__`). -/
theorem class_distinct_ne {c d : String} (h : c ≠ d) (ps qs : List V) :
    V.eq (mkAttr c ps) (mkAttr d qs) = false := by
  rw [V.eq_false_iff]
  intro e
  injection e with e1 _
  injection e1 with e2
  exact h e2

/-! ## observably different payloads are not equal -/

/-- "attributes whose payloads differ observably … are not equal": whenever the sequences of
payload leaves (integer values, byte strings, float bit patterns, …) of two attributes differ,
`==` returns `False`. -/
theorem payload_distinct_ne {a b : V} (h : payload a ≠ payload b) : V.eq a b = false := by
  rw [V.eq_false_iff]
  intro e
  exact h (by rw [e])

/-- Two `FloatData` compare equal exactly when their bit patterns coincide. -/
theorem fbits_eq_iff (x y : Nat) : V.eq (.leaf (.fbits x)) (.leaf (.fbits y)) = true ↔ x = y := by
  simp [V.eq, Leaf.eq]

/-- Inequality propagates outwards through any nesting: replacing a sub-attribute by an unequal
one (e.g. `0.0` by `-0.0` inside a `FloatAttr` inside an `ArrayAttr` inside a `DictionaryAttr`)
yields an unequal attribute. -/
theorem plug_ne (c : Ctx) {a b : V} (h : V.eq a b = false) : V.eq (c.plug a) (c.plug b) = false := by
  rw [V.eq_false_iff] at *
  induction c with
  | hole => exact h
  | node t pre c post ih =>
    intro e
    simp only [Ctx.plug] at e
    injection e with _ e2
    have := List.append_cancel_left e2
    injection this with e3 _
    exact ih e3

/-- "for example 0.0 and -0.0": under any nesting, an attribute holding `0.0` differs from the one
holding `-0.0`. -/
theorem signed_zero_ne (c : Ctx) :
    V.eq (c.plug (.leaf (.fbits 0))) (c.plug (.leaf (.fbits 0x8000000000000000))) = false :=
  plug_ne c (by rw [V.eq_false_iff]; intro e; injection e with e; injection e with e; omega)

/-- "or NaNs with different bit patterns": under any nesting, float payloads with different bit
patterns (in particular two NaNs with different payloads or signs) are not equal. -/
theorem float_bits_distinct_ne (c : Ctx) {x y : Nat} (h : x ≠ y) :
    V.eq (c.plug (.leaf (.fbits x))) (c.plug (.leaf (.fbits y))) = false :=
  plug_ne c (by rw [V.eq_false_iff]; intro e; injection e with e; injection e with e; exact h e)

/-- integer payloads: different values are not equal (no normalisation modulo the width) -/
theorem int_distinct_ne (c : Ctx) {x y : Int} (h : x ≠ y) :
    V.eq (c.plug (.leaf (.int x))) (c.plug (.leaf (.int y))) = false :=
  plug_ne c (by rw [V.eq_false_iff]; intro e; injection e with e; injection e with e; exact h e)

/-- byte payloads (dense element buffers): different buffers are not equal -/
theorem bytes_distinct_ne (c : Ctx) {x y : List Nat} (h : x ≠ y) :
    V.eq (c.plug (.leaf (.bytes x))) (c.plug (.leaf (.bytes y))) = false :=
  plug_ne c (by rw [V.eq_false_iff]; intro e; injection e with e; injection e with e; exact h e)

/-! ## context independence — partial, with the known counterexample -/

/-- "(or parsed from the same text in different contexts) are equal" — PARTIAL.
Full statement: for every attribute text `t` and all contexts `c₁ c₂`,
`parse c₁ t == parse c₂ t` and the hashes agree.  Carried here: in the model a text denotes its
value through `parseTerm`, which has no context or storage argument, so two readings of the same
term are equal with equal hashes (class tokens and set/dict normal forms are functions of the
text).  Missing: the real attribute parser is not modelled — the harness parses every generated
and every corpus attribute text in two fresh `Context`s instead; and the statement is false for
`dense_resource<…>` handles (excluded region, `resource_same_text_counterexample`). -/
theorem same_text_eq_partial {toks : List String} {a b : V}
    (ha : parseTerm toks = some a) (hb : parseTerm toks = some b) :
    V.eq a b = true ∧ V.hash a = V.hash b := by
  rw [ha] at hb
  rw [Option.some.inj hb]
  exact ⟨eq_refl _, rfl⟩

/-- KNOWN FINDING (`known_findings.json`, `OpAsmDialectInterface.declare_resource`): the text
`dense_resource<r> : ty` read by two parsers — even in two fresh contexts, because the blob
storage is one dictionary per process — yields the handles `r` and `r_0`, i.e. unequal
attributes. -/
theorem resource_same_text_counterexample (ty : V) :
    V.eq (parseResourceAttr [] [114] ty).1
         (parseResourceAttr (parseResourceAttr [] [114] ty).2 [114] ty).1 = false := by
  rw [V.eq_false_iff]
  intro e
  have h : (declareResource [] [114]).1 = (declareResource (declareResource [] [114]).2 [114]).1 := by
    simp only [parseResourceAttr] at e
    injection e with _ e
    injection e with e _
    injection e with _ e
    injection e with e _
    injection e with e
    injection e
  revert h
  decide +kernel

/-! ## `OperationInfo` (the CSE key) -/

/-- `OperationInfo.__eq__` holds exactly when name, attributes, properties, operands, result
types and region structures all coincide. -/
theorem OpInfo.eq_iff (a b : OpInfo) : OpInfo.eq a b = true ↔ a = b := by
  cases a; cases b
  simp only [OpInfo.eq, Bool.and_eq_true, natListEq_iff, V.eq_iff, V.eqList_iff, OpInfo.mk.injEq,
    beq_iff_eq]
  constructor
  · rintro ⟨⟨⟨⟨⟨⟨_, h1⟩, h2⟩, h3⟩, h4⟩, h5⟩, h6⟩
    exact ⟨h1, h2, h3, h5, h4, h6⟩
  · rintro ⟨h1, h2, h3, h4, h5, h6⟩
    subst h1 h2 h3 h4 h5 h6
    simp

/-- `OperationInfo` equality is reflexive, symmetric and transitive. -/
theorem OpInfo.eq_equiv : Equivalence (fun a b : OpInfo => OpInfo.eq a b = true) :=
  ⟨fun a => (OpInfo.eq_iff a a).2 rfl,
   fun {a b} h => (OpInfo.eq_iff b a).2 ((OpInfo.eq_iff a b).1 h).symm,
   fun {a b c} h₁ h₂ => (OpInfo.eq_iff a c).2 (((OpInfo.eq_iff a b).1 h₁).trans ((OpInfo.eq_iff b c).1 h₂))⟩

/-- equal `OperationInfo`s have equal hashes (keys of the CSE dictionary are consistent) -/
theorem OpInfo.eq_hash {a b : OpInfo} (h : OpInfo.eq a b = true) : a.hash = b.hash := by
  rw [(OpInfo.eq_iff a b).1 h]

/-- Two operations that differ only in the sign of a zero constant are different CSE keys. -/
theorem OpInfo.signed_zero_ne (o : OpInfo) (c : Ctx) :
    OpInfo.eq { o with attrs := c.plug (.leaf (.fbits 0)) }
              { o with attrs := c.plug (.leaf (.fbits 0x8000000000000000)) } = false := by
  rw [← Bool.not_eq_true, OpInfo.eq_iff]
  intro e
  have h := congrArg OpInfo.attrs e
  have := Xdsl.AttrValue.signed_zero_ne c
  rw [V.eq_false_iff] at this
  exact this h

/-- The anchor clause "observably different payloads must not be equal" for the CSE key, in the
direction the pass relies on: equal `OperationInfo`s have equal attribute dictionaries, equal
property dictionaries, equal result types and operands — value by value, not hash by hash. -/
theorem OpInfo.eq_refines {a b : OpInfo} (h : OpInfo.eq a b = true) :
    V.eq a.attrs b.attrs = true ∧ V.eq a.props b.props = true
      ∧ V.eqList a.resultTypes b.resultTypes = true ∧ a.operands = b.operands := by
  rw [(OpInfo.eq_iff a b).1 h]
  exact ⟨eq_refl _, eq_refl _, (V.eqList_iff _ _).2 rfl, rfl⟩

/-! ## hash equality is not equality

The hash values of the model are exact where CPython's collide systematically (`pyIntHash`), so
the model separates `==` from `hash ==`: the theorems below exhibit the whole class of colliding
payloads the harness generates (`attr.hash_collisions`, `op.hash_collisions`). -/

/-- `hash(-1) == hash(-2)` -/
theorem pyIntHash_neg_one_neg_two : pyIntHash (-1) = pyIntHash (-2) := by decide

/-- `hash(v) == hash(v + (2^61 - 1))` for every non-negative `v` … -/
theorem pyIntHash_add_mersenne {v : Int} (h : 0 ≤ v) : pyIntHash (v + (2 ^ 61 - 1)) = pyIntHash v := by
  have h1 : ¬ (v + (2 ^ 61 - 1) < 0) := by omega
  have h2 : ¬ (v < 0) := by omega
  have h3 : (v + (2 ^ 61 - 1)).toNat = v.toNat + (2 ^ 61 - 1 : Int).toNat := by omega
  simp only [pyIntHash, h1, h2, if_false, h3, Nat.add_mod_right]

/-- … and `hash(v) == hash(v - (2^61 - 1))` for every negative `v`. -/
theorem pyIntHash_sub_mersenne {v : Int} (h : v < 0) : pyIntHash (v - (2 ^ 61 - 1)) = pyIntHash v := by
  have h1 : v - (2 ^ 61 - 1) < 0 := by omega
  have h3 : (-(v - (2 ^ 61 - 1))).toNat = (-v).toNat + (2 ^ 61 - 1 : Int).toNat := by omega
  simp only [pyIntHash, h1, h, if_true, h3, Nat.add_mod_right]

/-- Equal hashes of a sub-attribute give equal hashes of every enclosing attribute (the tuple hash
is a function of the component hashes): a collision at an `int` propagates through `IntAttr`,
`IntegerAttr`, `ArrayAttr`, `DictionaryAttr` items … -/
theorem plug_hash_congr (c : Ctx) {a b : V} (h : V.hash a = V.hash b) :
    V.hash (c.plug a) = V.hash (c.plug b) := by
  induction c with
  | hole => exact h
  | node t pre c post ih =>
    have hl : V.hashList (pre ++ c.plug a :: post) = V.hashList (pre ++ c.plug b :: post) := by
      simp [V.hashList_eq_map, ih]
    cases t with
    | tup => simp [Ctx.plug, V.hash, hl]
    | fset => simp [Ctx.plug, V.hash, hl]
    | obj cls => simp [Ctx.plug, V.hash, hl]
    | dict =>
      have hne : ∀ x : V, pre ++ x :: post ≠ [] := by intro x; simp
      simp only [Ctx.plug]
      cases ha : pre ++ c.plug a :: post with
      | nil => exact absurd ha (hne _)
      | cons xa ra =>
        cases hb : pre ++ c.plug b :: post with
        | nil => exact absurd hb (hne _)
        | cons xb rb =>
          rw [ha, hb] at hl
          simp only [V.hash, hl]

/-- "hash equality is not equality": under any nesting, the attribute holding `-1` and the one
holding `-2` hash equally and are NOT equal. -/
theorem hash_collision_ne (c : Ctx) :
    V.hash (c.plug (.leaf (.int (-1)))) = V.hash (c.plug (.leaf (.int (-2))))
      ∧ V.eq (c.plug (.leaf (.int (-1)))) (c.plug (.leaf (.int (-2)))) = false :=
  ⟨plug_hash_congr c (by simp [V.hash, Leaf.hash, pyIntHash_neg_one_neg_two]),
   int_distinct_ne c (by decide)⟩

/-- The same for the Mersenne twins `v` and `v + (2^61 - 1)` (e.g. `0 : i64` and
`2305843009213693951 : i64`). -/
theorem hash_collision_mersenne_ne (c : Ctx) {v : Int} (h : 0 ≤ v) :
    V.hash (c.plug (.leaf (.int (v + (2 ^ 61 - 1))))) = V.hash (c.plug (.leaf (.int v)))
      ∧ V.eq (c.plug (.leaf (.int (v + (2 ^ 61 - 1))))) (c.plug (.leaf (.int v))) = false :=
  ⟨plug_hash_congr c (by simp only [V.hash, Leaf.hash, pyIntHash_add_mersenne h]),
   int_distinct_ne c (by omega)⟩

/-- Two operations that differ only in attribute values with colliding hashes have the same
`OperationInfo` hash and are nevertheless different CSE keys: `OperationInfo.__eq__` must compare
the values (`arith.constant -1` is not `arith.constant -2`). -/
theorem OpInfo.hash_collision_ne (o : OpInfo) (c : Ctx) :
    OpInfo.hash { o with attrs := c.plug (.leaf (.int (-1))) }
        = OpInfo.hash { o with attrs := c.plug (.leaf (.int (-2))) }
      ∧ OpInfo.eq { o with attrs := c.plug (.leaf (.int (-1))) }
                  { o with attrs := c.plug (.leaf (.int (-2))) } = false := by
  refine ⟨by simp only [OpInfo.hash, (Xdsl.AttrValue.hash_collision_ne c).1], ?_⟩
  rw [← Bool.not_eq_true, OpInfo.eq_iff]
  intro e
  have h := congrArg OpInfo.attrs e
  have := (Xdsl.AttrValue.hash_collision_ne c).2
  rw [V.eq_false_iff] at this
  exact this h

/-- … and likewise in the properties (`value = -1 : i32` of `arith.constant`). -/
theorem OpInfo.hash_collision_props_ne (o : OpInfo) (c : Ctx) :
    OpInfo.hash { o with props := c.plug (.leaf (.int (-1))) }
        = OpInfo.hash { o with props := c.plug (.leaf (.int (-2))) }
      ∧ OpInfo.eq { o with props := c.plug (.leaf (.int (-1))) }
                  { o with props := c.plug (.leaf (.int (-2))) } = false := by
  refine ⟨by simp only [OpInfo.hash, (Xdsl.AttrValue.hash_collision_ne c).1], ?_⟩
  rw [← Bool.not_eq_true, OpInfo.eq_iff]
  intro e
  have h := congrArg OpInfo.props e
  have := (Xdsl.AttrValue.hash_collision_ne c).2
  rw [V.eq_false_iff] at this
  exact this h

/-- the property dictionary `{value = v : i32}` of an `arith.constant` -/
def constProps (v : Int) : V :=
  .node .dict [.node .tup [.leaf (.str [118, 97, 108, 117, 101]),
    mkAttr "IntegerAttr" [mkAttr "IntAttr" [.leaf (.int v)], mkAttr "IntegerType" [.leaf (.int 32)]]]]

/-- COUNTEREXAMPLE for a comparison that trusts the hash (keys compared, values left to
`hash(self) == hash(other)`): it identifies `arith.constant -1 : i32` and `arith.constant -2 : i32`,
whose payloads differ observably — so the hash conjunct of `OperationInfo.__eq__` cannot replace
`attributes == …` / `properties == …`. -/
theorem HashOnly.opInfoEq_counterexample :
    let a : OpInfo := { name := [99], attrs := .node .dict [], props := constProps (-1),
                        resultTypes := [], operands := [], regions := [] }
    let b : OpInfo := { a with props := constProps (-2) }
    HashOnly.opInfoEq a b = true ∧ OpInfo.eq a b = false ∧ V.eq a.props b.props = false := by
  decide +kernel

/-! ## the bf16 encoder keeps what the type can hold

`BFloat16Type._encode` is the one hand-written encoder among the IEEE-like builtin types (the
others go through `struct`); every bf16 `FloatAttr`, dense array and dense elements attribute is
rounded through it.  `f` is the binary32 bit pattern of the value. -/

theorem bf16Encode_lt (f : Nat) : bf16Encode f < 2 ^ 16 := by
  unfold bf16Encode
  split
  · simp only []
    split <;> omega
  · omega

/-- "NaNs with different bit patterns are not equal" needs the encoder to keep the SIGN of a NaN:
the sign bit of the bf16 pattern is the sign bit of the binary32 NaN. -/
theorem bf16Encode_nan_sign {f : Nat} (hf : f < 2 ^ 32) (hn : f % 2 ^ 31 > 0x7F800000) :
    bf16Encode f / 2 ^ 15 = f / 2 ^ 31 := by
  unfold bf16Encode
  rw [if_pos hn]
  simp only []
  split <;> omega

/-- a NaN stays a NaN (exponent all ones, fraction non-zero), quiet bit set -/
theorem bf16Encode_nan_is_nan {f : Nat} (_hf : f < 2 ^ 32) (hn : f % 2 ^ 31 > 0x7F800000) :
    bf16Encode f % 2 ^ 15 > 0x7F80 ∧ bf16Encode f / 64 % 2 = 1 := by
  unfold bf16Encode
  rw [if_pos hn]
  simp only []
  split <;> omega

/-- the payload bits of a NaN that bf16 can hold (the six below the quiet bit) are kept -/
theorem bf16Encode_nan_payload {f : Nat} (_hf : f < 2 ^ 32) (hn : f % 2 ^ 31 > 0x7F800000) :
    bf16Encode f % 64 = f / 2 ^ 16 % 64 := by
  unfold bf16Encode
  rw [if_pos hn]
  simp only []
  split <;> omega

/-- Every bf16 bit pattern other than a signalling NaN survives decode-then-encode: zeros with
their sign, subnormals, normals, infinities and all quiet NaNs with sign and payload.  Hence two
different such patterns are different float payloads (`float_bits_distinct_ne`) of different
attributes. -/
theorem bf16Encode_decode {p : Nat} (hp : p < 2 ^ 16)
    (hq : p % 2 ^ 15 ≤ 0x7F80 ∨ p / 64 % 2 = 1) : bf16Encode (bf16Decode p) = p := by
  have e3 : (p * 2 ^ 16 + 0x7FFF + p % 2) / 2 ^ 16 = p := by clear hp hq; omega
  have e2 : p * 2 ^ 16 % 2 ^ 31 = (p % 2 ^ 15) * 2 ^ 16 := by clear hp hq e3; omega
  have e1 : p * 2 ^ 16 / 2 ^ 16 = p := Nat.mul_div_cancel p (Nat.two_pow_pos 16)
  have e4 : p % 2 ^ 16 = p := Nat.mod_eq_of_lt hp
  unfold bf16Encode bf16Decode
  rw [e1, e2, e3, e4]
  split
  · simp only []
    split <;> omega
  · rfl

/-- the encoder is injective on the patterns it must keep apart (decode is a section of it) -/
theorem bf16Decode_injective {p q : Nat} (h : bf16Decode p = bf16Decode q) : p = q := by
  unfold bf16Decode at h
  omega

/-- `-nan` and `nan` (binary32 `0xFFC00000` / `0x7FC00000`) are the different bf16 patterns
`0xFFC0` / `0x7FC0`. -/
theorem bf16Encode_signed_nan : bf16Encode 0xFFC00000 = 0xFFC0 ∧ bf16Encode 0x7FC00000 = 0x7FC0 := by
  decide

/-- rounding is to nearest, ties to even, on the upper half: the distance to the value is at most
half a unit of the last kept place (non-NaN, no overflow of the 16 bits) -/
theorem bf16Encode_nearest {f : Nat} (_hf : f < 2 ^ 32) (hn : f % 2 ^ 31 ≤ 0x7F800000)
    (ho : f + 0x8000 < 2 ^ 32) :
    bf16Encode f * 2 ^ 16 ≤ f + 2 ^ 15 ∧ f ≤ bf16Encode f * 2 ^ 16 + 2 ^ 15 := by
  have e3 : (f + 0x7FFF + f / 2 ^ 16 % 2) / 2 ^ 16 < 2 ^ 16 := by omega
  unfold bf16Encode
  rw [if_neg (by omega), Nat.mod_eq_of_lt e3]
  omega

/-! ## the unfixed `FloatData.__eq__` violated the property -/

/-- The comparison of the unfixed code (`(isnan a and isnan b) or a == b`) identifies `0.0` and
`-0.0`, whose payloads differ observably. -/
theorem legacy_float_eq_signed_zero_counterexample :
    Legacy.floatEq 0 0x8000000000000000 = true ∧ (0 : Nat) ≠ 0x8000000000000000 := by
  refine ⟨by decide +kernel, by omega⟩

/-- … and identifies NaNs with different bit patterns. -/
theorem legacy_float_eq_nan_counterexample :
    Legacy.floatEq 0x7FF8000000000000 0xFFF8000000000001 = true
      ∧ (0x7FF8000000000000 : Nat) ≠ 0xFFF8000000000001 := by
  refine ⟨by decide +kernel, by omega⟩

/-- Away from NaNs and zeros the unfixed comparison already was bit-pattern equality: the repair
changes `==` only on the values the property names. -/
theorem legacy_float_eq_agrees {x y : Nat} (hx : Legacy.isNaN x = false) (hy : Legacy.isNaN y = false)
    (hz : (Legacy.isZero x && Legacy.isZero y) = false) :
    Legacy.floatEq x y = V.eq (.leaf (.fbits x)) (.leaf (.fbits y)) := by
  simp [Legacy.floatEq, hx, hy, hz, V.eq, Leaf.eq]

/-! ## non-vacuity -/

example : V.eq (floatAttr 0 "f32") (floatAttr 0 "f32") = true := by decide
example : V.eq (floatAttr 0 "f32") (floatAttr 0x8000000000000000 "f32") = false :=
  signed_zero_ne (.node (.obj "FloatAttr") [] .hole [mkAttr "f32" []])
example : V.eq (floatAttr 0 "f32") (floatAttr 0 "f64") = false := by decide
example : V.hash (mkAttr "IndexType" []) = V.hash (mkAttr "NoneType" [])
    ∧ V.eq (mkAttr "IndexType" []) (mkAttr "NoneType" []) = false := by decide
example : mkNode .dict [.leaf (.str [98]), .leaf (.int 1), .leaf (.str [97]), .leaf (.int 2)]
    = mkNode .dict [.leaf (.str [97]), .leaf (.int 2), .leaf (.str [98]), .leaf (.int 1)] := by rfl

end Xdsl.AttrValue
