import XdslProofs.C02
/-!
# C02 — `Operation.clone`, `Operation.clone_without_regions`, `Region.clone`, and the pinned
`clone_into` counterexample
-/
namespace Xdsl.Clone

/-! ## `Operation.clone` of a single op `o = .op h rs .nil` -/

theorem clone_op_frame {k : Kind} (st : St) (o : T .ops) (u : T k) (old : Old st u) :
    applyOps (asgO st o) u = u := by
  apply applyOps_frame
  intro id hid
  simp only [asgO]
  rw [mkAssign_frame]; · rfl
  intro hin
  have h1 := old id (walkIds_sub_ids u id hid)
  have h2 := q1_ids_range st o id (walkIds_sub_ids _ id hin)
  omega

/-- the clone of an op is the op renamed by the final mappers: operands (also uses of values defined
later, in nested regions, or by the op itself) and successors included -/
theorem clone_op_iso (st : St) (h : OpHdr) (rs : T .regions) (ok : SrcOK (T.op h rs .nil)) :
    let r := cloneOp st (.op h rs .nil) true
    Iso true (mapVal r.st.vm) (mapVal r.st.bm) (T.op h rs .nil) r.out := by
  simp only [cloneOp_eq]
  apply Iso_applyOps _ _ _ (c1_iso _ 0 st ok.vals ok.blocks ok.succ (Reg_ops _ _ _))
  intro p hp
  have nd : (walkIds (c1 0 st (T.op h rs .nil)).1).Nodup :=
    (q1_ids_nodup st _).sublist (walkIds_sublist_ids _)
  exact mkAssign_get _ _ _ [] nd p hp

theorem clone_op_mapper_outside (st : St) (h : OpHdr) (rs : T .regions) :
    let r := cloneOp st (.op h rs .nil) true
    (∀ v, v ∉ defVals (T.op h rs .nil) → AL.get r.st.vm v = AL.get st.vm v)
      ∧ (∀ b, b ∉ blockIds (T.op h rs .nil) → AL.get r.st.bm b = AL.get st.bm b) := by
  simp only [cloneOp_eq]
  refine ⟨fun v hv => c1_vm_frame _ _ _ v hv, fun b hb => c1_bm_frame _ _ _ b ?_⟩
  rw [blockIds_ops] at hb; exact hb

theorem clone_op_mapper_inside (st : St) (h : OpHdr) (rs : T .regions) (ok : SrcOK (T.op h rs .nil)) :
    let r := cloneOp st (.op h rs .nil) true
    (∀ v ∈ defVals (T.op h rs .nil), st.next ≤ mapVal r.st.vm v)
      ∧ (∀ v ∈ defVals (T.op h rs .nil), ∀ w ∈ defVals (T.op h rs .nil),
          mapVal r.st.vm v = mapVal r.st.vm w → v = w) := by
  have i := c1_iso _ 0 st ok.vals ok.blocks ok.succ (Reg_ops _ _ (T.op h rs .nil))
  have dv := Iso_defVals _ _ i
  have ndv : (defVals (c1 0 st (T.op h rs .nil)).1).Nodup :=
    (q1_ids_nodup st _).sublist (defVals_sublist_ids _)
  simp only [cloneOp_eq]
  refine ⟨?_, ?_⟩
  · intro v hv
    have : mapVal (c1 0 st (T.op h rs .nil)).2.vm v ∈ defVals (c1 0 st (T.op h rs .nil)).1 := by
      rw [dv]; exact List.mem_map.2 ⟨v, hv, rfl⟩
    exact (q1_ids_range st _ _ ((defVals_sublist_ids _).subset this)).1
  · rw [dv] at ndv; exact inj_of_nodup_map _ ndv

theorem clone_op_source_unchanged (st : St) (h : OpHdr) (rs : T .regions)
    (old : Old st (T.op h rs .nil)) : (cloneOp st (.op h rs .nil) true).src = .op h rs .nil := by
  simp only [cloneOp_eq]
  exact clone_op_frame st _ _ old

theorem clone_op_fresh (st : St) (h : OpHdr) (rs : T .regions) :
    let r := cloneOp st (.op h rs .nil) true
    (∀ i ∈ ids r.out, st.next ≤ i ∧ i < r.st.next) ∧ (ids r.out).Nodup := by
  simp only [cloneOp_eq, applyOps_ids]
  exact ⟨q1_ids_range st _, q1_ids_nodup st _⟩

/-- `apply_to_clone`: the pass works on `op.clone()`; whatever edits it performs on objects of the
clone (or on objects it creates itself), the original module is unchanged — and the clone call itself
did not change it (`clone_op_source_unchanged`). -/
theorem apply_to_clone_frame (st : St) (h : OpHdr) (rs : T .regions) (old : Old st (T.op h rs .nil))
    (es : List Edit) (hes : ∀ e ∈ es, st.next ≤ e.target) :
    es.foldl (fun t e => e.apply t) (cloneOp st (.op h rs .nil) true).src = .op h rs .nil := by
  rw [clone_op_source_unchanged st h rs old]
  apply edits_frame
  intro e he hin
  have := old _ hin
  have := hes e he
  omega

theorem clone_op_edit_independence (st : St) (h : OpHdr) (rs : T .regions) (e : Edit) :
    let r := cloneOp st (.op h rs .nil) true
    (e.target ∈ ids r.out → ∀ {k : Kind} (u : T k), Old st u → e.apply u = u)
      ∧ (e.target < st.next → e.apply r.out = r.out) := by
  have fr := clone_op_fresh st h rs
  simp only at fr ⊢
  refine ⟨fun ht k u old => ?_, fun ht => ?_⟩
  · apply Edit.apply_frame
    intro hin
    have := old _ hin
    have := (fr.1 _ ht).1
    omega
  · apply Edit.apply_frame
    intro hin
    have := (fr.1 _ hin).1
    omega

/-! ## `Operation.clone_without_regions` -/

/-- The clone without regions: same name and dict contents, results renamed to new values, a use of
one of the op's own results becomes a use of the clone's result, every other operand goes through the
caller's `value_mapper`, successors through the caller's `block_mapper`; the dict objects and the op
are new. -/
theorem clone_without_regions_spec (st : St) (h : OpHdr) (rs : T .regions) (nx : T .ops)
    (nd : (h.results.map Prod.fst).Nodup) :
    ∃ h', (cloneOpNoRegions st (.op h rs nx) true).out = .op h' (emptyRegions rs) .nil
      ∧ h'.name = h.name ∧ h'.attrs = h.attrs ∧ h'.props = h.props
      ∧ h'.results = h.results.map (fun p => (mapVal (cloneOpNoRegions st (.op h rs nx) true).st.vm p.1, p.2))
      ∧ h'.operands = h.operands.map (fun v =>
          if v ∈ h.results.map Prod.fst then mapVal (cloneOpNoRegions st (.op h rs nx) true).st.vm v
          else mapVal st.vm v)
      ∧ h'.succs = h.succs.map (mapVal st.bm)
      ∧ h'.id = st.next ∧ h'.aref = st.next + 1 ∧ h'.pref = st.next + 2
      ∧ (∀ p ∈ h'.results, st.next + 3 ≤ p.1)
      ∧ (cloneOpNoRegions st (.op h rs nx) true).src = .op h rs nx := by
  refine ⟨(cloneHdr st h true).1, rfl, rfl, rfl, rfl, ?_, ?_, rfl, rfl, rfl, rfl, ?_, rfl⟩
  · show (cloneVals st.vm (st.next + 3) h.results).1 = _
    exact cloneVals_map _ _ _ nd
  · show h.operands.map _ = _
    apply List.map_congr_left
    intro v _
    rw [ownResult_cloneVals _ _ _ _ nd]
    by_cases hv : v ∈ h.results.map Prod.fst
    · simp only [hv, if_true, Option.getD_some]; rfl
    · simp [hv]
  · intro p hp
    have : p.1 ∈ (cloneVals st.vm (st.next + 3) h.results).1.map Prod.fst := List.mem_map.2 ⟨p, hp, rfl⟩
    rw [cloneVals_ids, List.mem_range'_1] at this
    exact this.1

/-! ## `Region.clone` -/

/-- `Region.clone()` = `clone_into` a new empty region: the result *is* the renamed source -/
theorem region_clone_iso (st : St) (src : T .blocks) (ok : SrcOK src) :
    let r := cloneRegion st src
    Iso true (mapVal r.st.vm) (mapVal r.st.bm) src r.out ∧ r.out = r.new := by
  have h := clone_into_iso st src .nil none ok
  have e : (cloneRegion st src).out = (cloneRegion st src).new := by
    simp [cloneRegion, cloneInto_eq, chainLen, insertAt, append_nil]
  exact ⟨by rw [e]; exact h, e⟩

/-! ## the pinned `clone_into` (zip with the walk of the whole destination) -/

/-- source region: one block, `%a = op()`, `%b = op(%a)`; destination: one block, `%c = op()`,
`%d = op(%c)` -/
def exSrc : T .blocks :=
  .block ⟨1, []⟩
    (.op ⟨2, 0, 3, [], 4, [], [(5, 1)], [], []⟩ .nil
      (.op ⟨6, 0, 7, [], 8, [], [(9, 1)], [5], []⟩ .nil .nil)) .nil

def exDst : T .blocks :=
  .block ⟨11, []⟩
    (.op ⟨12, 0, 13, [], 14, [], [(15, 1)], [], []⟩ .nil
      (.op ⟨16, 0, 17, [], 18, [], [(19, 1)], [15], []⟩ .nil .nil)) .nil

/-- **the defect of the pinned code** (`zip(self.walk(), dest.walk())`): cloning at the end of a
non-empty destination rewires the operand of the old op `%d` to a new value and leaves the clone of
`%b` without operand — the destination frame fails and the copy is not equivalent. -/
theorem clone_into_pinned_counterexample :
    let r := cloneIntoPinned {next := 20} exSrc exDst none true
    r.out ≠ insertAt 1 r.new exDst ∧ operandsOf r.new = [] ∧ operandsOf r.out = [24] := by
  decide

/-- the repaired code on the same input: the destination keeps `%d = op(%c)` and the copy's second op
uses the copy's first result -/
theorem clone_into_fixed_example :
    let r := cloneInto {next := 20} exSrc exDst none true
    r.out = insertAt 1 r.new exDst ∧ operandsOf r.new = [24] ∧ operandsOf r.out = [15, 24]
      ∧ r.src = exSrc := by
  decide

/-! ## non-vacuity: the hypotheses hold on a CFG with a forward block reference, a value used
before its definition, a nested region using an outer value, and an external value/block -/

/-- `^b30(%31): termop(%44)[^b40]` ; `^b40(%41): %44 = op(%31, %41, %99) { region { ^b50: op(%44) } }`,
`termop()[^b30, ^b77]` (`%99`, `^b77` are defined outside) -/
def exCfg : T .blocks :=
  .block ⟨30, [(31, 1)]⟩
    (.op ⟨32, 1, 33, [], 34, [], [], [44], [40]⟩ .nil .nil)
  (.block ⟨40, [(41, 2)]⟩
    (.op ⟨42, 0, 43, [(0, 1)], 45, [], [(44, 1)], [31, 41, 99], []⟩
      (.region (.block ⟨50, []⟩ (.op ⟨51, 0, 52, [], 53, [], [], [44], []⟩ .nil .nil) .nil) .nil)
      (.op ⟨46, 1, 47, [], 48, [], [], [], [30, 77]⟩ .nil .nil))
    .nil)

theorem exCfg_ok : SrcOK exCfg :=
  ⟨by decide, by decide, by simp [exCfg, SuccOK, succsOf, regd, directIds]⟩

theorem exCfg_old : Old {vm := [(99, 98)], next := 100} exCfg := by
  unfold Old; decide

/-- the theorems instantiated: cloned into the middle of `exDst`… with a caller mapping `%99 ↦ %98`;
the copy's forward use and forward branch point into the copy, `%99` became `%98`, `^b77` stayed -/
example :
    let r := cloneInto {vm := [(99, 98)], next := 100} exCfg exDst (some 0) true
    Iso true (mapVal r.st.vm) (mapVal r.st.bm) exCfg r.new
      ∧ r.src = exCfg ∧ r.out = insertAt 0 r.new exDst
      ∧ operandsOf r.new = [110, 102, 106, 98, 110] ∧ succsOf r.new = [101, 100, 77] :=
  ⟨clone_into_iso _ _ _ _ exCfg_ok, clone_into_source_unchanged _ _ _ _ exCfg_old,
    clone_into_dest_frame _ _ _ _ (by unfold Old; decide),
    by decide, by decide⟩

end Xdsl.Clone
