import XdslModel.CSE
/-!
# C14 (C) — common-subexpression elimination preserves the values of a block

Model: `XdslModel/CSE.lean` (one walk, table of known operations, `replace_all_uses_with` +
erasure).  For straight-line SSA code of side-effect-free operations with an arbitrary (possibly
partial) semantics `sem`: if the source block runs to an environment `e1`, the block after CSE runs
too, and every value of `e1` is found in the new environment under the replacement map.
-/
namespace Xdsl.C14
open Xdsl Xdsl.CSE

variable {K V : Type} [DecidableEq K]

/-- SSA discipline for the rest of a block: results are defined once and not defined before -/
def SSA (e : Env V) (prog : List (Instr K)) : Prop :=
  (prog.map (·.dst)).Nodup ∧ ∀ i ∈ prog, e i.dst = none

/-- invariant between the source run (`eS`) and the run of the rewritten block (`eT`) -/
structure Inv (sem : K → List V → Option V) (known : Known K) (repl : Repl) (eS eT : Env V) : Prop where
  agree : ∀ v, eS v = eT (repl.app v)
  known_ok : ∀ key args d, (((key, args), d) : (K × List Nat) × Nat) ∈ known →
    ∃ vs x, getArgs eT args = some vs ∧ sem key vs = some x ∧ eT d = some x
  range : ∀ a b, (a, b) ∈ repl → eT b ≠ none
  dom : ∀ v, eT v ≠ none → eS v ≠ none

theorem find_mem (k : Known K) (key : K) (args : List Nat) (d : Nat) (h : k.find key args = some d) :
    ((key, args), d) ∈ k := by
  induction k with
  | nil => simp [Known.find] at h
  | cons hd tl ih =>
    obtain ⟨⟨k', a'⟩, d'⟩ := hd
    simp only [Known.find] at h
    split at h
    · rename_i hc; cases h; obtain ⟨h1, h2⟩ := hc; subst h1; subst h2; exact List.mem_cons_self
    · exact List.mem_cons_of_mem _ (ih h)

theorem app_cons (r : Repl) (a b v : Nat) : Repl.app ((a, b) :: r) v = if a = v then b else r.app v := by
  simp only [Repl.app, AL.get]; split <;> simp

theorem app_mem_or (r : Repl) (v : Nat) : r.app v = v ∨ ∃ a, (a, r.app v) ∈ r := by
  induction r with
  | nil => left; simp [Repl.app, AL.get]
  | cons hd tl ih =>
    obtain ⟨a, b⟩ := hd
    rw [app_cons]
    split
    · right; exact ⟨a, List.mem_cons_self⟩
    · rcases ih with h | ⟨a', h⟩
      · left; exact h
      · right; exact ⟨a', List.mem_cons_of_mem _ h⟩

theorem getArgs_map (eS eT : Env V) (repl : Repl) (h : ∀ v, eS v = eT (repl.app v)) (args : List Nat) :
    getArgs eS args = getArgs eT (args.map repl.app) := by
  induction args with
  | nil => rfl
  | cons a as ih => simp only [getArgs, List.map, h a, ih]

theorem getArgs_set_of_defined (e : Env V) (k : Nat) (x : V) (hk : e k = none) (args : List Nat) (vs : List V)
    (h : getArgs e args = some vs) : getArgs (e.set k x) args = some vs := by
  induction args generalizing vs with
  | nil => simpa [getArgs] using h
  | cons a as ih =>
    simp only [getArgs] at h ⊢
    cases ha : e a with
    | none => simp [ha] at h
    | some y =>
      cases has : getArgs e as with
      | none => simp [ha, has] at h
      | some ys =>
        have hne : a ≠ k := by intro hh; subst hh; rw [hk] at ha; cases ha
        simp only [ha, has] at h
        simp only [Env.set, hne, if_false, ha, ih ys has]
        exact h

theorem set_other (e : Env V) (k : Nat) (x : V) (v : Nat) (h : v ≠ k) : (e.set k x) v = e v := by
  simp [Env.set, h]

theorem set_self (e : Env V) (k : Nat) (x : V) : (e.set k x) k = some x := by
  simp [Env.set]

/-- main lemma: the walk preserves the invariant and the remaining block runs -/
theorem cseGo_preserves (sem : K → List V → Option V) (rest : List (Instr K)) :
    ∀ (known : Known K) (repl : Repl) (eS eT : Env V), Inv sem known repl eS eT → SSA eS rest →
    ∀ e1, run sem eS rest = some e1 →
    ∃ e2, run sem eT (cseGo known repl rest).1 = some e2 ∧ ∀ v, e1 v = e2 ((cseGo known repl rest).2.app v) := by
  induction rest with
  | nil =>
    intro known repl eS eT inv _ e1 h
    simp only [run] at h; cases h
    exact ⟨eT, rfl, inv.agree⟩
  | cons i rest ih =>
    intro known repl eS eT inv ssa e1 h
    obtain ⟨hnodup, hfresh⟩ := ssa
    have hdS : eS i.dst = none := hfresh i List.mem_cons_self
    have hdT : eT i.dst = none := by
      cases hh : eT i.dst with
      | none => rfl
      | some y => exact absurd hdS (inv.dom i.dst (by rw [hh]; simp))
    simp only [run] at h
    cases hargs : getArgs eS i.args with
    | none => simp [hargs] at h
    | some vs =>
      cases hsem : sem i.key vs with
      | none => simp [hargs, hsem] at h
      | some x =>
        simp only [hargs, hsem] at h
        have hargsT : getArgs eT (i.args.map repl.app) = some vs := by
          rw [← getArgs_map eS eT repl inv.agree]; exact hargs
        have ssa' : SSA (eS.set i.dst x) rest := by
          simp only [List.map, List.nodup_cons] at hnodup
          refine ⟨hnodup.2, fun j hj => ?_⟩
          have hne : j.dst ≠ i.dst := by
            intro hh; apply hnodup.1; rw [← hh]; exact List.mem_map_of_mem hj
          rw [set_other _ _ _ _ hne]
          exact hfresh j (List.mem_cons_of_mem _ hj)
        -- a replaced value is never the fresh destination
        have app_ne : ∀ u, repl.app u ≠ i.dst ∨ u = i.dst := by
          intro u
          rcases app_mem_or repl u with hu | ⟨a, hu⟩
          · by_cases huu : u = i.dst
            · right; exact huu
            · left; rw [hu]; exact huu
          · left; intro hh; rw [hh] at hu; exact inv.range a i.dst hu hdT
        simp only [cseGo]
        cases hfind : known.find i.key (i.args.map repl.app) with
        | some d =>
          -- the operation is a repetition of a known one: erased, uses redirected to `d`
          simp only [hfind]
          obtain ⟨vs', x', hv', hs', hd'⟩ := inv.known_ok _ _ _ (find_mem _ _ _ _ hfind)
          have : vs' = vs := by rw [hargsT] at hv'; cases hv'; rfl
          subst this
          have : x' = x := by rw [hsem] at hs'; cases hs'; rfl
          subst this
          apply ih known ((i.dst, d) :: repl) (eS.set i.dst x') eT _ ssa' e1 h
          refine ⟨?_, inv.known_ok, ?_, ?_⟩
          · intro v
            rw [app_cons]
            split
            · rename_i hv; subst hv; rw [set_self, hd']
            · rename_i hv
              rw [set_other _ _ _ _ (fun hh => hv hh.symm)]; exact inv.agree v
          · intro a b hab
            rcases List.mem_cons.mp hab with hh | hh
            · cases hh; rw [hd']; simp
            · exact inv.range a b hh
          · intro v hv
            by_cases hvd : v = i.dst
            · subst hvd; rw [set_self]; simp
            · rw [set_other _ _ _ _ hvd]; exact inv.dom v hv
        | none =>
          simp only [hfind]
          have hrun : run sem eT ({ i with args := i.args.map repl.app } :: (cseGo (((i.key, i.args.map repl.app), i.dst) :: known) repl rest).1)
              = run sem (eT.set i.dst x) (cseGo (((i.key, i.args.map repl.app), i.dst) :: known) repl rest).1 := by
            simp only [run, hargsT, hsem]
          have inv' : Inv sem (((i.key, i.args.map repl.app), i.dst) :: known) repl (eS.set i.dst x) (eT.set i.dst x) := by
            refine ⟨?_, ?_, ?_, ?_⟩
            · intro v
              by_cases hvd : v = i.dst
              · subst hvd
                have : repl.app i.dst = i.dst := by
                  rcases app_mem_or repl i.dst with hu | ⟨a, hu⟩
                  · exact hu
                  · exfalso
                    have h1 := inv.agree i.dst
                    rw [hdS] at h1
                    exact inv.range a _ hu h1.symm
                rw [this, set_self, set_self]
              · rw [set_other _ _ _ _ hvd]
                rcases app_ne v with hne | heq
                · rw [set_other _ _ _ _ hne]; exact inv.agree v
                · exact absurd heq hvd
            · intro key args d hmem
              rcases List.mem_cons.mp hmem with hh | hh
              · cases hh
                exact ⟨vs, x, getArgs_set_of_defined eT i.dst x hdT _ _ hargsT, hsem, set_self _ _ _⟩
              · obtain ⟨vs', x', hv', hs', hd'⟩ := inv.known_ok key args d hh
                refine ⟨vs', x', getArgs_set_of_defined eT i.dst x hdT _ _ hv', hs', ?_⟩
                have : d ≠ i.dst := by intro hh2; subst hh2; rw [hdT] at hd'; cases hd'
                rw [set_other _ _ _ _ this]; exact hd'
            · intro a b hab
              have := inv.range a b hab
              have hne : b ≠ i.dst := by intro hh2; subst hh2; exact this hdT
              rw [set_other _ _ _ _ hne]; exact this
            · intro v hv
              by_cases hvd : v = i.dst
              · subst hvd; rw [set_self]; simp
              · rw [set_other _ _ _ _ hvd] at hv ⊢; exact inv.dom v hv
          obtain ⟨e2, hr, hag⟩ := ih _ repl _ _ inv' ssa' e1 h
          refine ⟨e2, ?_, hag⟩
          show run sem eT ({ i with args := i.args.map repl.app } :: (cseGo (((i.key, i.args.map repl.app), i.dst) :: known) repl rest).1) = some e2
          rw [hrun]; exact hr

/-- **`cse_preserves`**: on straight-line SSA code of pure operations (arbitrary partial semantics,
so that undefined behaviour of an operation makes the source run undefined), if the block runs from
`e0` to `e1` then the block after CSE runs from `e0` to some `e2`, and each value `v` of the source
is the value of `repl v` in the target — uses outside the block are redirected by the same `repl`. -/
theorem cse_preserves (sem : K → List V → Option V) (prog : List (Instr K)) (e0 : Env V)
    (ssa : SSA e0 prog) (e1 : Env V) (h : run sem e0 prog = some e1) :
    ∃ e2, run sem e0 (cse prog).1 = some e2 ∧ ∀ v, e1 v = e2 ((cse prog).2.app v) := by
  apply cseGo_preserves sem prog [] [] e0 e0 _ ssa e1 h
  refine ⟨fun v => by simp [Repl.app, AL.get], ?_, ?_, fun v hv => hv⟩
  · intro key args d hmem; cases hmem
  · intro a b hab; cases hab

/-- values that are not results of the block (block arguments, values from outside) are untouched -/
theorem cse_repl_outside (prog : List (Instr K)) (v : Nat) (h : ∀ i ∈ prog, i.dst ≠ v) :
    ∀ known repl, (cseGo known repl prog).2.app v = repl.app v := by
  induction prog with
  | nil => intro known repl; rfl
  | cons i rest ih =>
    intro known repl
    have hi : i.dst ≠ v := h i List.mem_cons_self
    have hr : ∀ j ∈ rest, j.dst ≠ v := fun j hj => h j (List.mem_cons_of_mem _ hj)
    simp only [cseGo]
    split
    · rw [ih hr, app_cons]; simp [hi]
    · exact ih hr _ _

/-! ## the table of known operations is a hash table: collisions of the hash are harmless as long
as `OperationInfo.__eq__` compares every component -/

/-- Python's `dict` lookup with `OperationInfo.__hash__`/`__eq__` finds exactly what the
collision-free table finds — for EVERY hash function `h` (in particular for CPython's, where
`hash(-1) = hash(-2)` and `hash(v) = hash(v + 2^61 - 1)`) — provided the component comparison
`eqv` of `__eq__` holds only of equal keys. -/
theorem findH_eq_find (h : K → List Nat → Int) (eqv : K → K → Bool)
    (heq : ∀ a b, eqv a b = true ↔ a = b) (k : Known K) (key : K) (args : List Nat) :
    k.findH h eqv key args = k.find key args := by
  induction k with
  | nil => rfl
  | cons hd tl ih =>
    obtain ⟨⟨k', a'⟩, d⟩ := hd
    simp only [Known.findH, Known.find, infoEq, ih]
    by_cases hc : k' = key ∧ a' = args
    · obtain ⟨h1, h2⟩ := hc
      subst h1; subst h2
      simp [(heq k' k').mpr rfl]
    · have : ¬ (eqv k' key = true ∧ a' = args) := fun hh => hc ⟨(heq _ _).mp hh.1, hh.2⟩
      rw [if_neg hc, if_neg]
      intro hh
      simp only [Bool.and_eq_true, beq_iff_eq] at hh
      exact this ⟨hh.2.1.2, hh.2.2⟩

/-- the walk over the hashed table is the walk over the collision-free table -/
theorem cseGoH_eq_cseGo (h : K → List Nat → Int) (eqv : K → K → Bool)
    (heq : ∀ a b, eqv a b = true ↔ a = b) (prog : List (Instr K)) :
    ∀ known repl, cseGoH h eqv known repl prog = cseGo known repl prog := by
  induction prog with
  | nil => intro known repl; rfl
  | cons i rest ih =>
    intro known repl
    simp only [cseGoH, cseGo, findH_eq_find h eqv heq]
    split
    · exact ih _ _
    · rw [ih]

/-- **`cse_hashed_preserves`**: `cse_preserves` for the pass as it runs, i.e. with the known
operations kept in a Python dict keyed by `OperationInfo`: whatever the hash function (collisions
included), if `__eq__` identifies only operations with equal name / attributes / properties / result
types, CSE preserves every value of the block. -/
theorem cse_hashed_preserves (h : K → List Nat → Int) (eqv : K → K → Bool)
    (heq : ∀ a b, eqv a b = true ↔ a = b)
    (sem : K → List V → Option V) (prog : List (Instr K)) (e0 : Env V)
    (ssa : SSA e0 prog) (e1 : Env V) (hrun : run sem e0 prog = some e1) :
    ∃ e2, run sem e0 (cseH h eqv prog).1 = some e2 ∧ ∀ v, e1 v = e2 ((cseH h eqv prog).2.app v) := by
  have : cseH h eqv prog = cse prog := cseGoH_eq_cseGo h eqv heq prog [] []
  rw [this]
  exact cse_preserves sem prog e0 ssa e1 hrun

/-- the component comparison of the real `OperationInfo.__eq__` (name, attribute dictionary,
property dictionary, result types — each compared in full) holds only of equal keys -/
theorem OpKey.eqv_iff (a b : OpKey) : a.eqv b = true ↔ a = b := by
  obtain ⟨n1, a1, p1, r1⟩ := a
  obtain ⟨n2, a2, p2, r2⟩ := b
  simp [OpKey.eqv, and_assoc]

/-- **`cse_opinfo_preserves`**: instance for the structured `OperationInfo` with the real shape of
`__hash__` (sum of the item hashes, tuple hash `mix`) for arbitrary string / item / tuple hashes. -/
theorem cse_opinfo_preserves (hs : String → Int) (ha : String × String → Int) (mix : List Int → Int)
    (sem : OpKey → List V → Option V) (prog : List (Instr OpKey)) (e0 : Env V)
    (ssa : SSA e0 prog) (e1 : Env V) (hrun : run sem e0 prog = some e1) :
    ∃ e2, run sem e0 (cseH (OpKey.hash hs ha mix) OpKey.eqv prog).1 = some e2
      ∧ ∀ v, e1 v = e2 ((cseH (OpKey.hash hs ha mix) OpKey.eqv prog).2.app v) :=
  cse_hashed_preserves _ _ OpKey.eqv_iff sem prog e0 ssa e1 hrun

/-- `arith.constant <v> : i32` -/
def constKey (v : String) : OpKey := ⟨"arith.constant", [], [("value", v)], ["i32"]⟩

/-- **`cse_keys_only_counterexample`**: the hypothesis "`__eq__` compares the VALUES" cannot be
dropped.  If `__eq__` compares only the names of the attributes/properties and leaves the values to
the hash, then for every hash on which two different values collide (CPython: `hash(-1) = hash(-2)`)
CSE merges `arith.constant -1` and `arith.constant -2`: the block runs, but the second value is no
longer what the source computed. -/
theorem cse_keys_only_counterexample (hs : String → Int) (ha : String × String → Int) (mix : List Int → Int)
    (hcol : ha ("value", "-1") = ha ("value", "-2")) :
    let prog : List (Instr OpKey) := [⟨0, constKey "-1", []⟩, ⟨1, constKey "-2", []⟩]
    let sem : OpKey → List String → Option String := fun k _ => k.props.head?.map (·.2)
    let out := cseH (OpKey.hash hs ha mix) OpKey.eqvKeysOnly prog
    SSA (fun _ => none : Env String) prog
    ∧ (∃ e1, run sem (fun _ => none) prog = some e1 ∧ e1 1 = some "-2")
    ∧ out.1 = [⟨0, constKey "-1", []⟩]
    ∧ (∃ e2, run sem (fun _ => none) out.1 = some e2 ∧ e2 (out.2.app 1) = some "-1") := by
  have hfind : Known.findH (OpKey.hash hs ha mix) OpKey.eqvKeysOnly [((constKey "-1", []), 0)] (constKey "-2") []
      = some 0 := by
    simp [Known.findH, infoEq, OpKey.hash, constKey, hcol, OpKey.eqvKeysOnly]
  have hout : cseH (OpKey.hash hs ha mix) OpKey.eqvKeysOnly
      [⟨0, constKey "-1", []⟩, ⟨1, constKey "-2", []⟩] = ([⟨0, constKey "-1", []⟩], [(1, 0)]) := by
    have hnil : ∀ k a, Known.findH (OpKey.hash hs ha mix) OpKey.eqvKeysOnly [] k a = none := fun _ _ => rfl
    simp only [cseH, cseGoH, List.map_nil, hnil, hfind]
  refine ⟨⟨by decide, by intro i _; rfl⟩, ?_, ?_, ?_⟩
  · refine ⟨_, rfl, ?_⟩
    decide
  · rw [hout]
  · rw [hout]
    refine ⟨_, rfl, ?_⟩
    decide

/-! ## every run starts from an empty table -/

/-- Every run of the walk has to start from an EMPTY table (`cse = cseGo [] []`: a fresh `KnownOps` per `CSEDriver`).
Started with a table that still holds an entry of an earlier run on another program (its `constant 7`, value 100
there), the walk erases the block's own constant and leaves a use of value 100, which nothing in this block defines:
the source block runs, the block after CSE from the empty table runs, the block after the walk with the stale table
does not. -/
theorem cse_stale_table_counterexample :
    let sem : String → List Int → Option Int := fun k vs =>
      match k, vs with
      | "c:7", [] => some 7
      | "muli", [a, b] => some (a * b)
      | _, _ => none
    let prog : List (Instr String) := [⟨1, "c:7", []⟩, ⟨2, "muli", [0, 1]⟩]
    let e0 : Env Int := fun v => if v = 0 then some 3 else none
    let stale : Known String := [(("c:7", []), 100)]
    (run sem e0 prog).isSome = true ∧
    (run sem e0 (cse prog).1).isSome = true ∧
    (cseGo stale [] prog).1 = [⟨2, "muli", [0, 100]⟩] ∧
    (run sem e0 (cseGo stale [] prog).1).isSome = false := by
  decide

/-! ## non-vacuity -/
example : (cse [⟨2, "addi", [0, 1]⟩, ⟨3, "addi", [0, 1]⟩, ⟨4, "muli", [3, 2]⟩]).1
    = [⟨2, "addi", [0, 1]⟩, ⟨4, "muli", [2, 2]⟩] := by decide

/-- a constant hash (everything collides) changes nothing when `__eq__` is complete -/
example : (cseH (fun _ _ => 0) (fun (a b : String) => a == b)
      [⟨2, "c:-1", []⟩, ⟨3, "c:-2", []⟩, ⟨4, "c:-1", []⟩, ⟨5, "addi", [3, 4]⟩]).1
    = [⟨2, "c:-1", []⟩, ⟨3, "c:-2", []⟩, ⟨5, "addi", [3, 2]⟩] := by decide

end Xdsl.C14
