import XdslModel.OpDef
import XdslProofs.C10
import XdslProofs.Lemmas.OpDefConstraints
/-!
# C10 — constraint part: "every piece, property and attribute satisfies its constraint with
consistent constraint variables"

`verifyPieces` (in `Lemmas/OpDefConstraints.lean`) is the sequence of `constr.verify(piece, ctx)`
calls `OpDef.verify` makes with its single `ConstraintContext`; `RangeC.Sat σ c piece` is the
declarative reading: the piece satisfies `c` when the constraint variables have the values `σ`.
-/
namespace Xdsl.OpDef

/-- **one shared context = one consistent assignment.**  For definitions in which every variable
name is declared with one base constraint (`WF`; a `ClassVar` shared by its uses), checking the
pieces one after the other against a shared, initially empty `ConstraintContext` succeeds exactly
when there is a single assignment of the variables under which every piece satisfies its
constraint — independently of the order in which the pieces are visited. -/
theorem verifyPieces_iff_assignment (decl rdecl : Nat → BaseC) (ps : List (RangeC × List Nat))
    (wf : ∀ p ∈ ps, p.1.WF decl rdecl) :
    (∃ ctx', verifyPieces ps {} = some ctx') ↔ ∃ σ : Assign, ∀ p ∈ ps, p.1.Sat σ p.2 := by
  constructor
  · rintro ⟨ctx', h⟩
    have inv : ({} : Ctx).Inv decl rdecl := ⟨by simp [AL.get], by simp [AL.get]⟩
    exact ⟨ctx'.assign, (verifyPieces_sound decl rdecl ps {} ctx' wf inv h).2⟩
  · rintro ⟨σ, hs⟩
    exact verifyPieces_complete σ ps {} ⟨by simp [Ctx.assign, AL.get], by simp [Ctx.assign, AL.get]⟩ hs

/-- Without the well-formedness hypothesis the equivalence fails (and so does the code): the same
variable name declared once with `eq 0` and once with `eq 1` lets `[0]`, `[0]` through, although no
assignment satisfies the second declaration. -/
theorem verifyPieces_illformed_counterexample :
    (verifyPieces [(.single (.var 0 (.eq 0)), [0]), (.single (.var 0 (.eq 1)), [0])] {}).isSome = true
    ∧ ¬ ∃ σ : Assign, ∀ p ∈ [(RangeC.single (.var 0 (.eq 0)), [0]), (RangeC.single (.var 0 (.eq 1)), [0])],
        p.1.Sat σ p.2 := by
  refine ⟨by decide, ?_⟩
  rintro ⟨σ, h⟩
  obtain ⟨a, ha, -, hb⟩ := h (RangeC.single (.var 0 (.eq 1)), [0]) (by simp)
  simp only [List.cons.injEq, and_true] at ha
  subst ha
  simp [BaseC.accepts] at hb

/-- the pieces of an operand/result list: constraint of definition `i` with the `i`-th segment -/
def piecesFrom (sizes : List Nat) (tys : List Nat) : List SegDef → Nat → List (RangeC × List Nat)
  | [], _ => []
  | sd :: r, i => (sd.constr, segAt sizes tys i) :: piecesFrom sizes tys r (i + 1)

theorem verifyArgsLoop_eq (kinds : List Seg) (opt : Opt) (attr : SizeAttr) (tys sizes : List Nat) :
    ∀ (rest : List SegDef) (i : Nat) (ctx : Ctx),
      (∀ j, i ≤ j → j < i + rest.length → accessor kinds opt attr tys j = .ok (segAt sizes tys j)) →
      verifyArgsLoop kinds opt attr tys rest i ctx =
        (match verifyPieces (piecesFrom sizes tys rest i) ctx with
         | some c => .ok c
         | none => .error .verify)
  | [], i, ctx, _ => rfl
  | sd :: r, i, ctx, h => by
    simp only [verifyArgsLoop, piecesFrom, verifyPieces]
    rw [h i (Nat.le_refl _) (by simp)]
    simp only
    cases sd.constr.verify (segAt sizes tys i) ctx with
    | none => rfl
    | some ctx' =>
      simp only
      exact verifyArgsLoop_eq kinds opt attr tys sizes r (i + 1) ctx'
        (fun j h1 h2 => h j (by omega) (by simp only [List.length_cons]; omega))

/-- **operand / result list verification** (`irdl_op_verify_arg_list`) succeeds exactly when the
list has a valid segmentation and the pieces, cut by it, pass their constraints in the shared
context — and it never fails with anything but a `VerifyException`. -/
theorem verifyArgList_iff (cd : ConstructDef) (tys : List Nat) (attr : SizeAttr) (ctx : Ctx)
    (wf : wfDef cd.kinds cd.opt = true) :
    (∀ ctx', verifyArgList cd tys attr ctx = .ok ctx' ↔
      ∃ sizes, Valid cd.kinds cd.opt sizes ∧ sizes.sum = tys.length ∧ Agrees cd.opt attr sizes ∧
        verifyPieces (piecesFrom sizes tys cd.segs 0) ctx = some ctx')
    ∧ ∀ e, verifyArgList cd tys attr ctx = .error e → e = .verify := by
  have hlen : cd.kinds.length = cd.segs.length := by simp [ConstructDef.kinds]
  by_cases hvs : verifySizes cd.kinds cd.opt tys.length attr = true
  · obtain ⟨sizes, hv, hs, ha⟩ := (verify_iff_segmentation cd.kinds cd.opt tys.length attr wf).1 hvs
    have hacc : ∀ j, 0 ≤ j → j < 0 + cd.segs.length →
        accessor cd.kinds cd.opt attr tys j = .ok (segAt sizes tys j) :=
      fun j _ hj => accessor_eq_segment cd.kinds cd.opt attr tys wf sizes hv hs ha j (by omega)
    have hloop := verifyArgsLoop_eq cd.kinds cd.opt attr tys sizes cd.segs 0 ctx hacc
    simp only [verifyArgList, hvs, Bool.not_true, Bool.false_eq_true, if_false, hloop]
    constructor
    · intro ctx'
      constructor
      · intro h
        refine ⟨sizes, hv, hs, ha, ?_⟩
        cases hp : verifyPieces (piecesFrom sizes tys cd.segs 0) ctx with
        | none => simp [hp] at h
        | some c => simp only [hp, Except.ok.injEq] at h; rw [h]
      · rintro ⟨sizes', hv', hs', ha', hp⟩
        have := segmentation_unique cd.kinds cd.opt tys.length attr wf sizes sizes'
          ⟨hv, hs, ha⟩ ⟨hv', hs', ha'⟩
        subst this
        simp [hp]
    · intro e h
      cases hp : verifyPieces (piecesFrom sizes tys cd.segs 0) ctx with
      | none => simp only [hp, Except.error.injEq] at h; exact h.symm
      | some c => simp [hp] at h
  · have hvs' : verifySizes cd.kinds cd.opt tys.length attr = false := by simpa using hvs
    simp only [verifyArgList, hvs', Bool.not_false, if_true]
    constructor
    · intro ctx'
      constructor
      · intro h; cases h
      · rintro ⟨sizes, hv, hs, ha, -⟩
        exact absurd ((verify_iff_segmentation cd.kinds cd.opt tys.length attr wf).2 ⟨sizes, hv, hs, ha⟩) hvs
    · intro e h
      simp only [Except.error.injEq] at h
      exact h.symm

/-- outcome of `verifyArgList` as a decidable tag -/
def outcome (r : Except VErr Ctx) : Nat :=
  match r with
  | .ok _ => 0
  | .error .verify => 1
  | .error (.py _) => 2

/-- non-vacuity: `T` shared by a single operand and a variadic one, sizes from the attribute:
accepted; inconsistent `T`: `VerifyException`; sizes not summing to the list length:
`VerifyException`. -/
example :
    outcome (verifyArgList { opt := .attrSized, segs :=
      [{ kind := .single, constr := .single (.var 0 (.oneOf [1, 2])) },
       { kind := .variadic, constr := .rangeOf (.var 0 .any) }] } [1, 1, 1] (.dense true [1, 2]) {}) = 0
    ∧ outcome (verifyArgList { opt := .attrSized, segs :=
      [{ kind := .single, constr := .single (.var 0 (.oneOf [1, 2])) },
       { kind := .variadic, constr := .rangeOf (.var 0 .any) }] } [1, 1, 2] (.dense true [1, 2]) {}) = 1
    ∧ outcome (verifyArgList { opt := .attrSized, segs :=
      [{ kind := .single, constr := .single (.var 0 (.oneOf [1, 2])) },
       { kind := .variadic, constr := .rangeOf (.var 0 .any) }] } [1, 1, 1] (.dense true [1, 3]) {}) = 1 := by
  decide

end Xdsl.OpDef
