import XdslProofs.Lemmas.SemMono
import XdslProofs.Lemmas.SemEffects
import XdslProofs.Lemmas.SemInt
/-!
# Meta-theory of the reference semantics `XdslModel/Sem.lean`

The checks C13, C14, C15, C16 and C28 use `Sem.run` as an independent oracle and call it with one
large fuel.  This file proves the facts that justify doing so.

1. **Fuel monotonicity** (`run_fuel_mono`, `run_fuel_agree`, and one `*_fuel_mono` per function of the
   mutual block): an outcome other than `fuel` is never changed by more fuel, hence any two fuels on
   which a run terminates give the same verdict.  Covers the whole mutual block, i.e. func / arith /
   cf / scf and the C16 extensions (affine.for, affine.apply/load/store, memref, symref).
2. **The effect log is append-only** (`*_effects_extend`, `*_effects_prefix`): the log after an
   operation / block / region / loop / call has the log before it as a prefix (chronological order).
3. What an external call does to the log (`callFunc_external`).

4. Per-operation unfolding lemmas for `Sem.intBin` / `Sem.cmpi` / `Sem.pureOp` are in
   `Lemmas/SemInt.lean` (imported here so that they are audited with this module).

No Mathlib.  The facts relating `Sem.intBin` / `Sem.cmpi` to the translated interpreter kernels are in
`XdslProofs/C15Sem.lean`.
-/
namespace Xdsl.SemMeta
open Xdsl.Sem Xdsl.MiniIR

/-! ## 1. fuel monotonicity -/

theorem runOps_fuel_mono (P : Prog) {n m : Nat} (h : n ≤ m) (st : St) (ops : List Op)
    (hne : runOps n P st ops ≠ .fuel) : runOps m P st ops = runOps n P st ops :=
  ((mono_all P n m h).ops st ops).eq_of_ne hne

theorem runOp_fuel_mono (P : Prog) {n m : Nat} (h : n ≤ m) (st : St) (o : Op)
    (hne : runOp n P st o ≠ .fuel) : runOp m P st o = runOp n P st o :=
  ((mono_all P n m h).op st o).eq_of_ne hne

theorem runRegion_fuel_mono (P : Prog) {n m : Nat} (h : n ≤ m) (st : St) (r : Region) (args : List Val)
    (hne : runRegion n P st r args ≠ .fuel) : runRegion m P st r args = runRegion n P st r args :=
  ((mono_all P n m h).region st r args).eq_of_ne hne

theorem runBlock_fuel_mono (P : Prog) {n m : Nat} (h : n ≤ m) (st : St) (r : Region) (b : Nat)
    (args : List Val) (hne : runBlock n P st r b args ≠ .fuel) :
    runBlock m P st r b args = runBlock n P st r b args :=
  ((mono_all P n m h).block st r b args).eq_of_ne hne

/-- covers `scf.for` and `affine.for` (both run by `runFor`) -/
theorem runFor_fuel_mono (P : Prog) {n m : Nat} (h : n ≤ m) (st : St) (body : Region) (w : Nat)
    (i ub step : Int) (iters : List Val) (hne : runFor n P st body w i ub step iters ≠ .fuel) :
    runFor m P st body w i ub step iters = runFor n P st body w i ub step iters :=
  ((mono_all P n m h).for_ st body w i ub step iters).eq_of_ne hne

theorem runWhile_fuel_mono (P : Prog) {n m : Nat} (h : n ≤ m) (st : St) (before after : Region)
    (args : List Val) (hne : runWhile n P st before after args ≠ .fuel) :
    runWhile m P st before after args = runWhile n P st before after args :=
  ((mono_all P n m h).while_ st before after args).eq_of_ne hne

theorem callFunc_fuel_mono (P : Prog) {n m : Nat} (h : n ≤ m) (st : St) (name : String) (args : List Val)
    (hne : callFunc n P st name args ≠ .fuel) : callFunc m P st name args = callFunc n P st name args :=
  ((mono_all P n m h).call st name args).eq_of_ne hne

/-- `Sem.run` in the information order -/
theorem run_le (P : Prog) (f : String) (args : List Val) {n m : Nat} (h : n ≤ m) :
    Le (run P f args n) (run P f args m) := by
  unfold run
  rcases (mono_all P n m h).call {} f args with hc | hc <;> rw [hc]
  · exact Le.fuel _
  · exact Le.refl _

/-- **`run_fuel_mono`**: an outcome of `Sem.run` other than `fuel` (a result with its effect log, an
undefined-behaviour verdict, or an error) is the outcome for every larger fuel. -/
theorem run_fuel_mono (P : Prog) (f : String) (args : List Val) {n m : Nat} (h : n ≤ m)
    (hne : run P f args n ≠ .fuel) : run P f args m = run P f args n :=
  (run_le P f args h).eq_of_ne hne

theorem run_fuel_mono_ok (P : Prog) (f : String) (args : List Val) {n m : Nat} (h : n ≤ m)
    {r : List Val × List Effect} (hr : run P f args n = .ok r) : run P f args m = .ok r := by
  rw [run_fuel_mono P f args h (by rw [hr]; intro e; cases e), hr]

theorem run_fuel_mono_ub (P : Prog) (f : String) (args : List Val) {n m : Nat} (h : n ≤ m)
    {w : String} (hr : run P f args n = .ub w) : run P f args m = .ub w := by
  rw [run_fuel_mono P f args h (by rw [hr]; intro e; cases e), hr]

theorem run_fuel_mono_err (P : Prog) (f : String) (args : List Val) {n m : Nat} (h : n ≤ m)
    {e : String} (hr : run P f args n = .err e) : run P f args m = .err e := by
  rw [run_fuel_mono P f args h (by rw [hr]; intro e; cases e), hr]

/-- **more fuel never changes a verdict**: any two fuels for which the run does not report `fuel`
give the same outcome (same results, same effect log, same `ub`/`err` message). -/
theorem run_fuel_agree (P : Prog) (f : String) (args : List Val) (n m : Nat)
    (hn : run P f args n ≠ .fuel) (hm : run P f args m ≠ .fuel) : run P f args n = run P f args m := by
  rcases Nat.le_total n m with h | h
  · exact (run_fuel_mono P f args h hn).symm
  · exact run_fuel_mono P f args h hm

/-- running out of fuel is downward closed: if `m` is not enough, no smaller fuel is -/
theorem run_fuel_of_fuel (P : Prog) (f : String) (args : List Val) {n m : Nat} (h : n ≤ m)
    (hm : run P f args m = .fuel) : run P f args n = .fuel := by
  rcases run_le P f args h with h1 | h1
  · exact h1
  · rw [h1, hm]

/-! ## 2. the effect log is append-only

`St.eff` is stored most-recent-first, so "the old log is a suffix of the new one"; `Sem.run` reports
`eff.reverse`, for which this reads "the old log is a prefix of the new one". -/

theorem runOp_effects_extend (P : Prog) (n : Nat) (st : St) (o : Op) (st' : St) (t : Option Term)
    (h : runOp n P st o = .ok (st', t)) : st.eff <:+ st'.eff := (eff_all P n).op st o st' t h

theorem runOps_effects_extend (P : Prog) (n : Nat) (st : St) (ops : List Op) (st' : St) (t : Term)
    (h : runOps n P st ops = .ok (st', t)) : st.eff <:+ st'.eff := (eff_all P n).ops st ops st' t h

theorem runRegion_effects_extend (P : Prog) (n : Nat) (st : St) (r : Region) (args : List Val) (st' : St)
    (t : Term) (h : runRegion n P st r args = .ok (st', t)) : st.eff <:+ st'.eff :=
  (eff_all P n).region st r args st' t h

theorem runBlock_effects_extend (P : Prog) (n : Nat) (st : St) (r : Region) (b : Nat) (args : List Val)
    (st' : St) (t : Term) (h : runBlock n P st r b args = .ok (st', t)) : st.eff <:+ st'.eff :=
  (eff_all P n).block st r b args st' t h

theorem runFor_effects_extend (P : Prog) (n : Nat) (st : St) (body : Region) (w : Nat) (i ub step : Int)
    (iters : List Val) (st' : St) (vs : List Val)
    (h : runFor n P st body w i ub step iters = .ok (st', vs)) : st.eff <:+ st'.eff :=
  (eff_all P n).for_ st body w i ub step iters st' vs h

theorem runWhile_effects_extend (P : Prog) (n : Nat) (st : St) (before after : Region) (args : List Val)
    (st' : St) (vs : List Val) (h : runWhile n P st before after args = .ok (st', vs)) :
    st.eff <:+ st'.eff :=
  (eff_all P n).while_ st before after args st' vs h

theorem callFunc_effects_extend (P : Prog) (n : Nat) (st : St) (name : String) (args : List Val)
    (st' : St) (vs : List Val) (h : callFunc n P st name args = .ok (st', vs)) : st.eff <:+ st'.eff :=
  (eff_all P n).call st name args st' vs h

/-- chronological form: the effect log after an operation extends the log before it -/
theorem runOp_effects_prefix (P : Prog) (n : Nat) (st : St) (o : Op) (st' : St) (t : Option Term)
    (h : runOp n P st o = .ok (st', t)) : st.eff.reverse <+: st'.eff.reverse :=
  List.reverse_prefix.mpr (runOp_effects_extend P n st o st' t h)

theorem runOps_effects_prefix (P : Prog) (n : Nat) (st : St) (ops : List Op) (st' : St) (t : Term)
    (h : runOps n P st ops = .ok (st', t)) : st.eff.reverse <+: st'.eff.reverse :=
  List.reverse_prefix.mpr (runOps_effects_extend P n st ops st' t h)

theorem runRegion_effects_prefix (P : Prog) (n : Nat) (st : St) (r : Region) (args : List Val) (st' : St)
    (t : Term) (h : runRegion n P st r args = .ok (st', t)) : st.eff.reverse <+: st'.eff.reverse :=
  List.reverse_prefix.mpr (runRegion_effects_extend P n st r args st' t h)

theorem runBlock_effects_prefix (P : Prog) (n : Nat) (st : St) (r : Region) (b : Nat) (args : List Val)
    (st' : St) (t : Term) (h : runBlock n P st r b args = .ok (st', t)) :
    st.eff.reverse <+: st'.eff.reverse :=
  List.reverse_prefix.mpr (runBlock_effects_extend P n st r b args st' t h)

theorem runFor_effects_prefix (P : Prog) (n : Nat) (st : St) (body : Region) (w : Nat) (i ub step : Int)
    (iters : List Val) (st' : St) (vs : List Val)
    (h : runFor n P st body w i ub step iters = .ok (st', vs)) : st.eff.reverse <+: st'.eff.reverse :=
  List.reverse_prefix.mpr (runFor_effects_extend P n st body w i ub step iters st' vs h)

theorem runWhile_effects_prefix (P : Prog) (n : Nat) (st : St) (before after : Region) (args : List Val)
    (st' : St) (vs : List Val) (h : runWhile n P st before after args = .ok (st', vs)) :
    st.eff.reverse <+: st'.eff.reverse :=
  List.reverse_prefix.mpr (runWhile_effects_extend P n st before after args st' vs h)

theorem callFunc_effects_prefix (P : Prog) (n : Nat) (st : St) (name : String) (args : List Val)
    (st' : St) (vs : List Val) (h : callFunc n P st name args = .ok (st', vs)) :
    st.eff.reverse <+: st'.eff.reverse :=
  List.reverse_prefix.mpr (callFunc_effects_extend P n st name args st' vs h)

/-- operations that are not calls and have no regions leave the log unchanged: the region-free state
operations (symref / memref / affine.apply / affine.load / affine.store) … -/
theorem stateOp_effects_eq {st st1 : St} {o : Op} {args rs : List Val}
    (h : stateOp st o args = some (.ok (st1, rs))) : st1.eff = st.eff := stateOp_eff h

/-- … and binding results / block arguments -/
theorem bind_effects_eq {st st' : St} {names : List (Nat × Ty)} {vals : List Val}
    (h : st.bind names vals = .ok st') : st'.eff = st.eff := bind_eff h

/-! ## 3. external calls -/

/-- a call of an external declaration logs exactly one effect (callee and argument values), returns no
results and changes nothing else -/
theorem callFunc_external (P : Prog) (n : Nat) (st : St) (name : String) (args : List Val) (fn : Func)
    (hf : findFunc P name = some fn) (hb : fn.body = none) :
    callFunc (n + 1) P st name args = .ok ({ st with eff := ⟨name, args⟩ :: st.eff }, []) := by
  rw [callFunc]
  simp only [hf, hb]

/-- the log reported by `Sem.run` for a successful run is the final state's log in chronological
order, and the run starts from the empty log -/
theorem run_ok_iff (P : Prog) (f : String) (args : List Val) (n : Nat) (vs : List Val) (es : List Effect) :
    run P f args n = .ok (vs, es) ↔ ∃ st, callFunc n P {} f args = .ok (st, vs) ∧ es = st.eff.reverse := by
  unfold run
  constructor
  · intro h
    split at h
    · rename_i st vs' _
      cases h; exact ⟨st, by assumption, rfl⟩
    all_goals cases h
  · rintro ⟨st, h, rfl⟩
    rw [h]

/-! ## non-vacuity: a program on which the fuel matters -/
namespace Demo
/-- `func @ext(i8)`; `func @f(%0 : i8) { call @ext(%0); return %0 }` -/
def demo : Prog := ⟨[
  ⟨"ext", none⟩,
  ⟨"f", some (.mk [.mk 0 [(0, .int 8)] [
      .mk "func.call" [] [0] [("callee", .str "ext")] [] [],
      .mk "func.return" [] [0] [] [] []]])⟩]⟩

def isFuel {α : Type} : Res α → Bool | .fuel => true | _ => false
def okWith : Res (List Val × List Effect) → Nat → Bool
  | .ok ([.int 8 v], es), k => v == 5#8 && es.length == k
  | _, _ => false

example : isFuel (run demo "f" [.int 8 5#8] 3) = true := by decide
example : okWith (run demo "f" [.int 8 5#8] 6) 1 = true := by decide
example : okWith (run demo "f" [.int 8 5#8] 100) 1 = true := by decide
end Demo

end Xdsl.SemMeta
