import XdslProofs.Lemmas.Worklist
/-!
# C12 — property theorems (worklist part)

"the rewrite worklist behaves as a last-in-first-out stack without duplicates from which items can
be removed (pop returns the most recently pushed item still present, emptiness is reported
correctly)" — for every operation sequence.
-/
namespace Xdsl.Worklist

theorem inv_empty : Inv {} := by
  intro x i; simp [AL.get]

/-- One step of the tombstoned-stack implementation refines one step of the duplicate-free stack
specification: same output, abstraction commutes, invariant preserved. -/
theorem step_refines (s : WL) (h : Inv s) (o : Op) :
    (step s o).2 = (Spec.step (abs s) o).2
    ∧ abs (step s o).1 = (Spec.step (abs s) o).1
    ∧ Inv (step s o).1 := by
  cases o with
  | isEmpty =>
    simp only [step, Spec.step]
    refine ⟨?_, ?_, ?_⟩
    · congr 1
      rcases dm_last s.stack with h0 | ⟨init, x, hx⟩
      · have : abs s = [] := by simp [abs, ← filterMap_dm, h0]
        simp [h0, this]
      · have : abs s = x :: (init.filterMap id).reverse := by
          simp [abs, ← filterMap_dm s.stack, hx]
        simp [hx, this]
    · simp [abs, filterMap_dm]
    · intro x i; simp only; rw [getElem_dm]; exact h x i
  | push x =>
    simp only [step, Spec.step]
    by_cases hx : (AL.get s.map x).isSome = true
    · have hm := (mem_abs_iff_map s h x).mpr hx
      simp [hx, hm, h]
    · have hm : x ∉ abs s := fun hm => hx ((mem_abs_iff_map s h x).mp hm)
      simp only [hx, hm, if_false, Bool.false_eq_true]
      refine ⟨trivial, by simp [abs], ?_⟩
      intro y i
      simp only [AL.get_set]
      have hnone : AL.get s.map x = none := by
        cases hg : AL.get s.map x with
        | none => rfl
        | some j => simp [hg] at hx
      rw [List.getElem?_append]
      by_cases hy : y = x
      · subst hy
        simp only [if_true]
        constructor
        · intro e; cases e; simp
        · intro e
          split at e
          · have := (h y i).mpr e; rw [hnone] at this; cases this
          · rename_i hlt
            have : i - s.stack.length = 0 := by
              cases hd : i - s.stack.length with
              | zero => rfl
              | succ n => rw [hd] at e; simp at e
            congr 1; omega
      · simp only [hy, if_false]
        rw [h y i]
        split
        · rfl
        · rename_i hlt
          have hnone' : s.stack[i]? = none := by simp at hlt; simp [hlt]
          rw [hnone']
          constructor
          · intro e; cases e
          · intro e
            cases hd : i - s.stack.length with
            | zero => rw [hd] at e; simp at e; exact absurd e.symm hy
            | succ n => rw [hd] at e; simp at e
  | pop =>
    simp only [step, Spec.step]
    obtain ⟨k, hk⟩ := dm_decomp s.stack
    rcases dm_last s.stack with h0 | ⟨init, x, hx⟩
    · have habs : abs s = [] := by simp [abs, ← filterMap_dm, h0]
      rw [h0, habs]
      refine ⟨rfl, rfl, ?_⟩
      intro y i
      simp only [unsnoc?, List.getElem?_nil]
      constructor
      · intro e
        have := (mem_abs_iff s y).mpr ⟨i, (h y i).mp e⟩
        rw [habs] at this; cases this
      · intro e; cases e
    · have habs : abs s = x :: (init.filterMap id).reverse := by
        simp [abs, ← filterMap_dm s.stack, hx]
      rw [hx, unsnoc_append, habs]
      refine ⟨rfl, rfl, ?_⟩
      intro y i
      simp only [AL.get_del]
      have hst : s.stack = init ++ some x :: List.replicate k none := by
        rw [hk, hx]; simp
      have hxi : s.stack[init.length]? = some (some x) := by rw [hst]; simp
      by_cases hy : y = x
      · subst hy
        simp only [if_true]
        constructor
        · intro e; cases e
        · intro e
          have hlt : i < init.length := by
            have := List.getElem?_eq_some_iff.mp e; exact this.1
          have e' : s.stack[i]? = some (some y) := by
            rw [hst, List.getElem?_append_left hlt]; exact e
          have h1 := (h y i).mpr e'
          have h2 := (h y init.length).mpr hxi
          rw [h1] at h2; cases h2; omega
      · simp only [hy, if_false]
        rw [h y i, hst, List.getElem?_append]
        split
        · rfl
        · rename_i hlt
          have : init[i]? = none := by simp at hlt; simp [hlt]
          rw [this]
          constructor
          · intro e
            cases hd : i - init.length with
            | zero => rw [hd] at e; simp at e; exact absurd e.symm hy
            | succ n =>
              rw [hd] at e; simp only [List.getElem?_cons_succ] at e
              exact absurd e (getElem_replicate_none _ _ _)
          · intro e; cases e
  | remove x =>
    simp only [step, Spec.step]
    cases hg : AL.get s.map x with
    | none =>
      have hm : x ∉ abs s := by
        intro hm; have := (mem_abs_iff_map s h x).mp hm; rw [hg] at this; cases this
      refine ⟨rfl, ?_, h⟩
      simp only
      symm; rw [List.filter_eq_self]; intro y hy; simp; intro e; subst e; exact hm hy
    | some i =>
      have hi := (h x i).mp hg
      have huniq : ∀ j, s.stack[j]? = some (some x) → j = i := by
        intro j hj; have := (h x j).mpr hj; rw [hg] at this; cases this; rfl
      refine ⟨rfl, ?_, ?_⟩
      · simp only [abs]
        rw [filterMap_set_none s.stack i x hi huniq]
        simp [List.filter_reverse]
      · intro y j
        simp only [AL.get_del, List.getElem?_set]
        by_cases hy : y = x
        · subst hy
          simp only [if_true]
          constructor
          · intro e; cases e
          · intro e
            split at e
            · split at e <;> cases e
            · rename_i hne; exact absurd (huniq j e).symm hne
        · simp only [hy, if_false]
          rw [h y j]
          split
          · rename_i hij; subst hij
            rw [hi]
            constructor
            · intro e; cases e; exact absurd rfl hy
            · intro e; split at e <;> cases e
          · rfl

/-- For every history from the empty worklist: the outputs (popped items, `IndexError`s, emptiness
answers) are exactly those of a duplicate-free LIFO stack. -/
theorem run_refines (s : WL) (h : Inv s) (os : List Op) :
    (run s os).2 = (Spec.run (abs s) os).2 ∧ abs (run s os).1 = (Spec.run (abs s) os).1
    ∧ Inv (run s os).1 := by
  induction os generalizing s with
  | nil => exact ⟨rfl, rfl, h⟩
  | cons o os ih =>
    obtain ⟨h1, h2, h3⟩ := step_refines s h o
    obtain ⟨i1, i2, i3⟩ := ih (step s o).1 h3
    simp only [run, Spec.run]
    rw [h2] at i1 i2
    exact ⟨by rw [h1, i1], i2, i3⟩

theorem history_refines (os : List Op) : (run {} os).2 = (Spec.run [] os).2 :=
  (run_refines {} inv_empty os).1

/-- The specification really is "LIFO without duplicates": it never holds a duplicate. -/
theorem spec_nodup (l : List Nat) (hl : l.Nodup) (o : Op) : (Spec.step l o).1.Nodup := by
  cases o with
  | isEmpty => exact hl
  | push x => simp only [Spec.step]; split; exact hl; exact List.nodup_cons.mpr ⟨by assumption, hl⟩
  | pop => cases l with
    | nil => exact hl
    | cons a r => exact (List.nodup_cons.mp hl).2
  | remove x => exact hl.filter _

/-- `pop` returns the most recently pushed item still present: after `push x` on a worklist
not containing `x`, `pop` yields `x` and restores the previous abstract contents. -/
theorem pop_after_push (s : WL) (h : Inv s) (x : Nat) (hx : x ∉ abs s) :
    (step (step s (.push x)).1 .pop).2 = .item x
    ∧ abs (step (step s (.push x)).1 .pop).1 = abs s := by
  obtain ⟨_, a1, i1⟩ := step_refines s h (.push x)
  obtain ⟨o2, a2, _⟩ := step_refines _ i1 .pop
  rw [a1] at o2 a2
  simp only [Spec.step, hx, if_false] at o2 a2
  exact ⟨o2, a2⟩

/-- non-vacuity: a reachable state with a tombstone in the middle and one on top satisfies `Inv`. -/
example : (run {} [.push 4, .push 5, .push 6, .push 7, .remove 5, .remove 7]).1.stack
    = [some 4, none, some 6, none] := by decide
example : Inv (run {} [.push 4, .push 5, .push 6, .push 7, .remove 5, .remove 7]).1 :=
  (run_refines {} inv_empty _).2.2
example : (run {} [.push 1, .push 2, .remove 2, .push 3, .pop, .pop, .pop, .isEmpty]).2
    = [.unit, .unit, .unit, .unit, .item 3, .item 1, .indexError, .bool false] := by decide

end Xdsl.Worklist
