import XdslProofs.Lemmas.LiteralsFloat
/-!
# C06 — builtin attributes and types round-trip bit-exactly through text

Property theorems over `XdslModel/Literals.lean` (the literal layer of printer, lexer and parser,
with the C06 fixes applied).  Text is `List Char`, payloads are `List UInt8`.
-/
namespace Xdsl.Literals

/-! ## strings and bytes -/

/-- "strings with arbitrary Unicode, bytes … print to text that parses back": the lexer's regex and
`StringLiteral.bytes_contents` decode exactly the bytes `print_bytes_literal` escaped, for every
byte string, stop at the closing quote, and report whether an escape was present. -/
theorem unescape_escape (bs : List UInt8) (rest : List Char) :
    scanBody (escape bs ++ '"' :: rest) = some ⟨bs, bs.any needsEsc, rest⟩ :=
  scanBody_escape bs rest

/-- The printed literal lexes to one token holding the original payload; it is a `BYTES_LIT` exactly
when the payload is not valid UTF-8 (fixed lexer). -/
theorem lexclass_escape (bs : List UInt8) (rest : List Char) :
    lexStringLiteral (printBytesLiteral bs ++ rest) =
      some (if isUtf8 bs then .stringLit else .bytesLit, bs, rest) := by
  have h := scanBody_escape bs rest
  simp only [printBytesLiteral, List.cons_append, List.append_assoc, List.nil_append, lexStringLiteral, h]
  cases hesc : bs.any needsEsc with
  | false => simp [isUtf8_of_no_esc bs hesc]
  | true => cases hu : isUtf8 bs <;> simp

/-- Every Unicode string (any scalar values: control characters, quotes, backslashes, non-BMP)
prints to a literal that is lexed as `STRING_LIT` and parsed to the same `StringAttr`. -/
theorem string_literal_roundtrip (s : List Char) :
    parseStrAttr (printStringLiteral s) = some (.str s) := by
  have h := lexclass_escape (utf8 s) []
  simp only [List.append_nil] at h
  simp [parseStrAttr, printStringLiteral, h, isUtf8_utf8, utf8Decode_utf8]

/-- PARTIAL (known finding): a `BytesAttr` round-trips when its payload is not valid UTF-8.
Full statement `∀ bs, parseStrAttr (printBytesLiteral bs) = some (.bytes bs)` is false of the code,
see `bytes_literal_counterexample`: both attributes share the literal syntax. -/
theorem bytes_literal_roundtrip_partial (bs : List UInt8) (h : isUtf8 bs = false) :
    parseStrAttr (printBytesLiteral bs) = some (.bytes bs) := by
  have hl := lexclass_escape bs []
  simp only [List.append_nil] at hl
  simp [parseStrAttr, hl, h]

/-- A `BytesAttr` whose payload is the UTF-8 encoding of some string is re-read as that
`StringAttr` (e.g. `BytesAttr(b"")`, `BytesAttr(b"abc")`). -/
theorem bytes_literal_counterexample (s : List Char) :
    parseStrAttr (printBytesLiteral (utf8 s)) = some (.str s) ∧
    (StrAttr.str s ≠ StrAttr.bytes (utf8 s)) :=
  ⟨string_literal_roundtrip s, by simp⟩

/-- The lexer of the unfixed tree classified `"\C3\A9"` (what `StringAttr("é")` prints) as
`BYTES_LIT`: the defect repaired by `fix: lexer classifies string literals by UTF-8 decodability`. -/
theorem old_lexer_counterexample :
    lexStringLiteralOld (printStringLiteral ['é']) = some (.bytesLit, [0xC3, 0xA9], []) := by
  decide

/-- non-vacuity: a string with a quote, a backslash, a newline, NUL and a non-BMP character -/
example : printStringLiteral ['"', '\\', '\n', '\x00', '😀'] = "\"\\22\\\\\\0A\\00\\F0\\9F\\98\\80\"".toList := by
  decide

/-! ## integers -/

/-- "integers of any width and signedness": whatever `IntegerAttr(v, ty)` stores (the normalised
value `v'`), `print_builtin` emits `true`/`false` for `i1` and `v' : ty` otherwise, and that text is
lexed and parsed back to the same type and the same stored value — for every width (0, 1, … , > 64),
signless/signed/unsigned and `index`, incl. the boundary values of each range. -/
theorem int_roundtrip (ty : IntTy) (v v' : Int) (h : intAttrCtor ty v = some v') :
    parseIntAttr (printIntAttr ty v') = some (ty, v') := by
  obtain ⟨hidem, hrange⟩ := intAttrCtor_spec ty v v' h
  by_cases hI : ty.isI1 = true
  · have hty := (isI1_iff ty).1 hI
    subst hty
    obtain ⟨hr, hlt⟩ := hrange .signless 1 rfl
    have hlt := hlt (by decide)
    simp only [inRange_iff, valueRange, signedLB, signedUB, unsignedUB] at hr hlt
    have hv : v' = -1 ∨ v' = 0 := by
      have h1 : (-((2:Int) ^ 1 / 2)) = -1 := by decide
      have h2 : ((2:Int) ^ (1 - 1)) = 1 := by decide
      rw [h1] at hr; rw [h2] at hlt; omega
    rcases hv with rfl | rfl <;> decide
  · simp only [Bool.not_eq_true] at hI
    simp only [printIntAttr, printInt, hI, Bool.false_eq_true, if_false]
    exact parseIntAttr_typed ty v' hI hidem

/-- non-vacuity / boundary instances: `255 : i8` is stored as `-1`; `i1` true is stored as `-1`;
`ui64` maximum; a 70-bit `index`. -/
example : intAttrCtor (.int .signless 8) 255 = some (-1) ∧
    printIntAttr (.int .signless 8) (-1) = "-1 : i8".toList ∧
    intAttrCtor (.int .signless 1) 1 = some (-1) ∧ printIntAttr (.int .signless 1) (-1) = "true".toList ∧
    printIntAttr (.int .unsigned 64) 18446744073709551615 = "18446744073709551615 : ui64".toList ∧
    intAttrCtor (.int .signed 8) 128 = none := by decide

/-! ## dense element packing -/

/-- "every element of dense attributes, preserved bit for bit": unpacking the `struct` encoding of a
value in the range of its format gives the value back (little-endian two's complement, 1/2/4/8
bytes, signed and unsigned formats). -/
theorem pack_unpack (signed : Bool) (n : Nat) (v : Int) (hn : 0 < n)
    (h : (packInt? signed n v).isSome = true) : unpackLE signed (packLE n v) = v :=
  unpackLE_packLE signed n v hn h

/-- and packing what was unpacked gives the payload bytes back (`n` bytes in, `n` bytes out) -/
theorem unpack_pack_bytes (bs : List UInt8) : packNat bs.length (unpackLEU bs) = bs :=
  packNat_unpackLEU bs

/-- The hexadecimal form used for NaN, infinities and dense payloads: the digits of the big-endian
bytes denote the little-endian integer, which `int.to_bytes(size, "little")` turns back into the
same bytes. -/
theorem hex_bits_roundtrip (bs : List UInt8) :
    toBytesLE? bs.length (ofDigits 16 (hexOfBytesL bs.reverse)) = some bs := by
  rw [ofDigits_hexOfBytesL_reverse, toBytesLE?_unpackLEU]

example : packLE 2 (-2) = [0xFE, 0xFF] ∧ unpackLE true [0xFE, 0xFF] = -2 ∧
    unpackLE false [0xFE, 0xFF] = 65534 ∧ packInt? true 1 128 = none := by decide

/-- One integer element of a dense attribute or dense array (`i1`…`i64`, `si`/`ui`, `index`): the
bytes `from_list` packed unpack to the normalised value, which prints (`true`/`false` for `i1`) to
a text that is parsed, normalised and packed to the same bytes. -/
theorem dense_elem_roundtrip (ty : IntTy) (v : Int) (chunk : List UInt8)
    (h : denseElemBytes? ty v = some chunk) :
    ∃ n, ty.size? = some n ∧ chunk.length = n ∧
      (parseDenseIntElem ty (printInt (unpackLE ty.signedFmt chunk) ty.isI1)).bind
        (denseElemBytes? ty) = some chunk :=
  dense_elem_roundtrip' ty v chunk h

/-- "dense element … attributes (splat, empty, multi-element, i1, index, hex/large)": for every
payload `from_list` builds from accepted values `vs` of an integer element type with a `struct`
format, the printed body — `<>` when empty, one element when all bit patterns are equal (fixed
`is_splat`), a `"0x…"` string above 100 elements, the element list otherwise — parses back to
exactly the payload bytes.  (Nesting of the list by shape is token skeleton, C04; float elements are
`float_tree_roundtrip` per element.) -/
theorem dense_roundtrip (ty : IntTy) (n : Nat) (hn : ty.size? = some n) (vs : List Int)
    (cs : List (List UInt8)) (h : mapM? (denseElemBytes? ty) vs = some cs) :
    parseDenseInt ty vs.length (printDenseInt ty cs.flatten) = some cs.flatten :=
  dense_int_roundtrip' ty n hn vs cs h

/-- non-vacuity: an `i1` splat, a mixed `i16` list, the value 255 stored in `i8` as `-1` -/
example : printDenseInt (.int .signless 1) [0xFF, 0xFF] = .splat "true".toList ∧
    parseDenseInt (.int .signless 1) 2 (.splat "true".toList) = some [0xFF, 0xFF] ∧
    printDenseInt (.int .signless 16) [1, 0, 0xFF, 0xFF] = .flat ["1".toList, "-1".toList] ∧
    denseElemBytes? (.int .signless 8) 255 = some [0xFF] ∧
    printDenseInt .index [] = .empty := by decide

/-! ## floats -/

/-- "floats of each supported precision including NaN, infinities and negative zero … preserved bit
for bit": for every oracle satisfying the stated laws of CPython/`struct` (`Lawful O`), every float
type and every value `x` that a `FloatAttr` of that type can hold (`round ty x = x`, i.e. already
constrained to the type's precision, NaN payloads included), each branch of `Printer.print_float`
— hex bit pattern for NaN/±inf, `%.5e` when exact, `%.9g`/`%.17g` when they contain a `.`,
upper-case hex bits otherwise, `repr` for the other widths — yields a text that the lexer reads as
ONE number token (a `FLOAT_LIT`, or a hexadecimal `INTEGER_LIT` taken as a bit pattern) and that
parses back to the bit-identical value (`O.F` = bit patterns; equality is bit identity). -/
theorem float_tree_roundtrip (O : FloatOracle) (hO : Lawful O) (ty : FTy) (x : O.F)
    (hx : O.round ty x = x) : parseFloatLit O ty (printFloat O ty x) = some x := by
  have hplen := hO.pack_length ty x
  have hpos := hO.size_pos ty
  have hpne : O.pack ty x ≠ [] := by
    intro h; rw [h] at hplen; simp at hplen; omega
  unfold printFloat printFloatObs observe
  simp only []
  by_cases hni : (O.isNan x || O.isInf x) = true
  · -- NaN / infinities: lower-case hex of the big-endian bytes
    simp only [hni, if_true]
    rw [parseFloatLit_hex O ty _ (O.pack ty x)
      (hexOfBytesL_ne_nil _ (by simpa using hpne)) (hexOfBytesL_digits _)
      (ofDigits_hexOfBytesL_reverse _) hplen, round_unpack_pack O ty x hx]
  · have hfin : O.finite x := by
      simp only [Bool.or_eq_true, not_or, Bool.not_eq_true] at hni
      exact hni
    simp only [hni, Bool.false_eq_true, if_false]
    by_cases h5 : O.pyEq (O.round ty (O.parse (ins0 (O.fmt5e x)))) x = true
    · simp only [h5, if_true]
      rw [parseFloatLit_text O hO ty _ (hO.fmt5e_shape x hfin), hO.fmt5e_exact ty x hfin h5]
    · simp only [h5, Bool.false_eq_true, if_false]
      simp only [Bool.not_eq_true] at h5
      have hhex : parseFloatLit O ty ('0' :: 'x' :: toHexU (unpackLEU (O.pack ty x))) = some x := by
        rw [parseFloatLit_hex O ty _ (O.pack ty x) (toHexU_ne_nil _) (toHexU_digits _)
          (ofDigits_toHexU _) hplen, round_unpack_pack O ty x hx]
      cases ty with
      | f32 =>
        simp only []
        by_cases hdot : (O.fmt9g x).contains '.' = true
        · simp only [hdot, if_true]
          rw [parseFloatLit_text O hO _ _ (hO.fmt9g_shape x hfin hdot), hO.fmt9g_roundtrip x hfin hx]
        · simp only [hdot, Bool.false_eq_true, if_false]; exact hhex
      | f64 =>
        simp only []
        by_cases hdot : (O.fmt17g x).contains '.' = true
        · simp only [hdot, if_true]
          rw [parseFloatLit_text O hO _ _ (hO.fmt17g_shape x hfin hdot), hO.fmt17g_roundtrip x hfin hx]
        · simp only [hdot, Bool.false_eq_true, if_false]; exact hhex
      | f16 =>
        simp only []
        rw [parseFloatLit_text O hO _ _ (hO.repr_shape _ x hfin hx h5), hO.repr_roundtrip _ x hfin hx]
      | bf16 =>
        simp only []
        rw [parseFloatLit_text O hO _ _ (hO.repr_shape _ x hfin hx h5), hO.repr_roundtrip _ x hfin hx]
      | other =>
        simp only []
        rw [parseFloatLit_text O hO _ _ (hO.repr_shape _ x hfin hx h5), hO.repr_roundtrip _ x hfin hx]


/-- "floats … including NaN, infinities and negative zero … preserved bit for bit", for the helper
attribute `builtin.FloatData` (a bare Python float, FIXED code): for every oracle satisfying the
stated laws of CPython/`struct` and EVERY value `x` (no hypothesis: NaNs of any payload and sign,
both infinities, both zeros, subnormals), the text `FloatData.print_parameter` writes between the
angle brackets — the upper-case hexadecimal binary64 bit pattern for a non-finite value, else
`repr(x)` with `.0` spliced in front of the exponent when it has no `.` — is read by the lexer as
ONE number token and `FloatData.parse_parameter` returns the bit-identical value.  (Before the fix
`inf`/`-inf`/`nan` were printed as bare words, which `parse_number` rejects.) -/
theorem floatdata_roundtrip (O : FloatOracle) (hO : Lawful O) (hD : LawfulData O) (x : O.F) :
    parseFloatData O (printFloatData O x) = some x := by
  unfold printFloatData printFloatDataObs
  simp only []
  by_cases hni : (O.isNan x || O.isInf x) = true
  · simp only [hni, if_true]
    rw [parseFloatData_hex O _ (O.pack .f64 x) (toHexU_ne_nil _) (toHexU_digits _)
      (ofDigits_toHexU _) (by rw [hO.pack_length, hD.size_f64]), hD.bits_roundtrip]
  · have hfin : O.finite x := by
      simp only [Bool.or_eq_true, not_or, Bool.not_eq_true] at hni
      exact hni
    simp only [hni, Bool.false_eq_true, if_false]
    rw [parseFloatData_text O hO _ (hD.fd_shape x hfin), hD.fd_exact x hfin]

/-- non-vacuity: a two-point oracle (`false` = 1.0, `true` = -1.0) satisfying every law -/
def toyParse : List Char → Bool
  | '-' :: t => !(toyParse t)
  | _ => false

def toyOracle : FloatOracle where
  F := Bool
  isNan := fun _ => false
  isInf := fun _ => false
  pyEq := fun a b => a == b
  neg := fun a => !a
  ofInt := fun v => decide (v < 0)
  fmt5e := fun b => if b then "-1.00000e+00".toList else "1.00000e+00".toList
  fmt9g := fun b => if b then "-1".toList else "1".toList
  fmt17g := fun b => if b then "-1".toList else "1".toList
  repr := fun b => if b then "-1.0".toList else "1.0".toList
  parse := toyParse
  pack := fun _ b => [0, 0, 0, 0, 0, 0, 0, if b then 0x80 else 0]
  unpack := fun _ bs => decide (bs.getLast? = some 0x80)
  size := fun _ => 8

theorem toyOracle_lawful : Lawful toyOracle where
  size_pos := fun _ => (by decide : 0 < 8)
  pack_length := fun _ _ => rfl
  parse_neg := fun _ => rfl
  fmt5e_shape := fun x _ => by
    cases (x : Bool)
    · exact (by decide : isFloatLit (stripMinus (ins0 "1.00000e+00".toList)).2 = true)
    · exact (by decide : isFloatLit (stripMinus (ins0 "-1.00000e+00".toList)).2 = true)
  fmt5e_exact := fun _ x _ _ => by cases (x : Bool) <;> rfl
  fmt9g_shape := fun x _ h => by cases (x : Bool) <;> exact absurd h (by decide)
  fmt9g_roundtrip := fun x _ _ => by cases (x : Bool) <;> rfl
  fmt17g_shape := fun x _ h => by cases (x : Bool) <;> exact absurd h (by decide)
  fmt17g_roundtrip := fun x _ _ => by cases (x : Bool) <;> rfl
  repr_shape := fun _ x _ _ _ => by
    cases (x : Bool)
    · exact (by decide : isFloatLit (stripMinus "1.0".toList).2 = true)
    · exact (by decide : isFloatLit (stripMinus "-1.0".toList).2 = true)
  repr_roundtrip := fun _ x _ _ => by cases (x : Bool) <;> rfl

example : printFloat toyOracle .f32 true = "-1.000000e+00".toList ∧
    parseFloatLit toyOracle .f32 (printFloat toyOracle .f32 true) = some true :=
  ⟨by decide, float_tree_roundtrip toyOracle toyOracle_lawful .f32 true rfl⟩

theorem toyOracle_lawfulData : LawfulData toyOracle where
  size_f64 := rfl
  bits_roundtrip := fun x => by cases (x : Bool) <;> rfl
  fd_shape := fun x _ => by
    cases (x : Bool)
    · exact (by decide : isFloatLit (stripMinus (fdText "1.0".toList)).2 = true)
    · exact (by decide : isFloatLit (stripMinus (fdText "-1.0".toList)).2 = true)
  fd_exact := fun x _ => by cases (x : Bool) <;> rfl

example : printFloatData toyOracle true = "-1.0".toList ∧
    parseFloatData toyOracle (printFloatData toyOracle true) = some true :=
  ⟨by decide, floatdata_roundtrip toyOracle toyOracle_lawful toyOracle_lawfulData true⟩

/-- `FloatData` on concrete observations: `inf`, a NaN with payload and sign, `1e+20`, `-0.0`; the
printed bit pattern is one hexadecimal `INTEGER_LIT` that fits 8 bytes, `1.0e+20` is one `FLOAT_LIT`
(the unfixed `1e+20` lexes as the integer `1` followed by `e+20`; the unfixed `inf` is no number) -/
example : printFloatDataObs ⟨true, [0, 0, 0, 0, 0, 0, 0xF0, 0x7F], "inf".toList⟩ = "0x7FF0000000000000".toList ∧
    printFloatDataObs ⟨true, [1, 0, 0, 0, 0, 0, 0xF8, 0xFF], "nan".toList⟩ = "0xFFF8000000000001".toList ∧
    lexNumber "0xFFF8000000000001".toList = some (.int 0xFFF8000000000001 true, []) ∧
    toBytesLE? 8 0xFFF8000000000001 = some [1, 0, 0, 0, 0, 0, 0xF8, 0xFF] ∧
    toBytesLE? 8 0x10000000000000000 = none ∧
    printFloatDataObs ⟨false, [], "1e+20".toList⟩ = "1.0e+20".toList ∧
    lexNumber "1.0e+20".toList = some (.float "1.0e+20".toList, []) ∧
    lexNumber "1e+20".toList = some (.int 1 false, "e+20".toList) ∧
    lexNumber "inf".toList = none ∧
    printFloatDataObs ⟨false, [], "-0.0".toList⟩ = "-0.0".toList := by decide

/-- the hexadecimal branches on concrete observations: NaN of f32 and `123456792.0 : f32` -/
example : printFloatObs ⟨.f32, true, [0x00, 0x00, 0xC0, 0x7F], [], false, [], [], []⟩ = "0x7fc00000".toList ∧
    printFloatObs ⟨.f32, false, [0xA3, 0x79, 0xEB, 0x4C], "1.23457e+08".toList, false,
      "123456792".toList, [], []⟩ = "0x4CEB79A3".toList ∧
    lexNumber "0x4CEB79A3".toList = some (.int 0x4CEB79A3 true, []) ∧
    toBytesLE? 4 0x4CEB79A3 = some [0xA3, 0x79, 0xEB, 0x4C] := by decide

end Xdsl.Literals
