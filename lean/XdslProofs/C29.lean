import XdslProofs.Lemmas.SymbolTable
import XdslProofs.Lemmas.SymbolTableRename
/-!
# C29 — property theorems

"Looking up a flat or nested symbol reference from an operation returns the operation with that
name in the nearest enclosing symbol table (following nested tables and refusing private symbols
reached through nesting), or nothing if there is none, and the cached symbol-table lookup agrees
with the direct lookup on every verified module."

Model: `XdslModel/SymbolTable.lean` (`directChild`/`refIn`/`lookupIn`/`lookupNearest` =
`utils/symbol_table.py`; `cachedChild` = `SymbolTableCollection`; `traitsGo`/`traitsLookup` = the
repaired `traits.SymbolTable.lookup_symbol`; `Resolves` = the sentence).  "The operation with that
name" presupposes that a table does not hold the name twice: the `iff`s are stated for trees whose
tables have unique names (`Verified`, which `verifyB_sound` derives from the model of the real
verifier); the `_sound` directions hold on every tree.
-/
namespace Xdsl.SymbolTable

/-- "returns the operation with that name in the nearest enclosing symbol table" — the nearest
table: `get_nearest_symbol_table` returns `t` exactly when `t` is a table on the ancestor chain and
nothing below it on the chain (start operation included) is one; `none` iff the chain has no table. -/
theorem nearest_table_spec (chain : List Op) (t : Op) :
    nearestTable chain = some t ↔ NearestTable chain t :=
  ⟨nearestTable_some, nearestTable_of⟩

theorem nearest_table_none (chain : List Op) :
    nearestTable chain = none ↔ ∀ x ∈ chain, x.isTable = false := by
  induction chain with
  | nil => simp [nearestTable]
  | cons o up ih =>
    simp only [nearestTable]
    by_cases ho : o.isTable = true
    · simp [ho]
    · simp [ho, ih]

/-- the chain the parent walk sees really is the start operation followed by its ancestors: each
element is a child of the next one, and all of them lie inside the root -/
theorem chain_is_ancestor_chain (root : Op) (p : List Nat) (chain : List Op)
    (h : chainAt root p [] = some chain) :
    ParentChain chain ∧ ∀ x ∈ chain, Sub root x :=
  ⟨chainAt_parentChain root p [] chain trivial h,
   chainAt_sub p [] chain (Sub.refl root) (by simp) h⟩

/-- direct resolver, every tree: whatever `lookup_symbol_in` returns is designated by the nesting
rules (right name at every level, every intermediate result a table, no private result reached
through a nested component). -/
theorem direct_sound (t : Op) (s : Sym) (r : Op) (h : lookupIn directChild t s = some r) :
    ResolvesIn t s.root s.nested r := by
  rw [lookupIn_eq] at h
  cases hd : directChild t s.root with
  | none => simp [hd] at h
  | some x =>
    simp only [hd, Option.bind_some] at h
    exact ⟨x, directChild_member hd, nestedLast_sound h⟩

/-- direct resolver, trees with unique names per table: `lookup_symbol_in` returns `r` **iff** the
nesting rules designate `r` ("…or nothing if there is none" is the `none` case, `direct_none`). -/
theorem direct_iff_resolves (root t : Op) (hv : Verified root) (ht : Sub root t)
    (htab : t.isTable = true) (s : Sym) (r : Op) :
    lookupIn directChild t s = some r ↔ ResolvesIn t s.root s.nested r := by
  refine ⟨direct_sound t s r, ?_⟩
  rintro ⟨x, hm, hn⟩
  rw [lookupIn_eq, directChild_of_unique (hv t ht htab) hm]
  exact nestedLast_complete hv (ht.trans hm.sub) hn

/-- "or nothing if there is none" -/
theorem direct_none (root t : Op) (hv : Verified root) (ht : Sub root t) (htab : t.isTable = true)
    (s : Sym) : lookupIn directChild t s = none ↔ ¬ ∃ r, ResolvesIn t s.root s.nested r := by
  constructor
  · rintro h ⟨r, hr⟩
    rw [(direct_iff_resolves root t hv ht htab s r).mpr hr] at h
    exact absurd h (by simp)
  · intro h
    cases hl : lookupIn directChild t s with
    | none => rfl
    | some r => exact absurd ⟨r, direct_sound t s r hl⟩ h

/-- on a verified tree the designated operation is unique: the sentence's "the operation" -/
theorem resolves_unique (root t : Op) (hv : Verified root) (ht : Sub root t)
    (htab : t.isTable = true) (s : Sym) (r r' : Op)
    (h : ResolvesIn t s.root s.nested r) (h' : ResolvesIn t s.root s.nested r') : r = r' := by
  have a := (direct_iff_resolves root t hv ht htab s r).mpr h
  have b := (direct_iff_resolves root t hv ht htab s r').mpr h'
  rw [a] at b
  exact Option.some.inj b

/-- `str`/`StringAttr` and a `SymbolRefAttr` without nested components resolve alike -/
theorem flat_eq_ref_nil (lk : Op → Nat → Option Op) (t : Op) (n : Nat) :
    lookupIn lk t (.ref n []) = lookupIn lk t (.flat n) := by
  rw [lookupIn_eq, lookupIn_eq]; rfl

/-- `all_symbols=True` returns a list whose last element is the single-result answer and which
has one entry per reference component -/
theorem all_symbols_last (lk : Op → Nat → Option Op) (t : Op) (s : Sym) :
    (lookupAllIn lk t s).bind List.getLast? = lookupIn lk t s := by
  cases s with
  | flat n => simp only [lookupAllIn, lookupIn]; cases lk t n <;> rfl
  | ref r ns => rfl

theorem all_symbols_length (lk : Op → Nat → Option Op) (t : Op) (s : Sym) (l : List Op)
    (h : lookupAllIn lk t s = some l) : l.length = 1 + s.nested.length := by
  cases s with
  | flat n =>
    simp only [lookupAllIn] at h
    cases hk : lk t n with
    | none => simp [hk] at h
    | some o => simp [hk] at h; subst h; rfl
  | ref r ns =>
    simp only [lookupAllIn, refIn] at h
    cases hk : lk t r with
    | none => simp [hk] at h
    | some o =>
      simp only [hk] at h
      simpa [Sym.nested] using refNested_length lk o ns [o] l h

/-- "the cached symbol-table lookup agrees with the direct lookup on every verified module":
single table access (`SymbolTable(op).lookup(name)` vs the block scan) -/
theorem cached_child_eq_direct (root t : Op) (hv : Verified root) (ht : Sub root t)
    (htab : t.isTable = true) (n : Nat) : cachedChild t n = directChild t n :=
  cachedChild_eq_directChild (hv t ht htab) n

/-- … and whole references, both result forms of `SymbolTableCollection.lookup_symbol_in` -/
theorem cached_eq_direct (root t : Op) (hv : Verified root) (ht : Sub root t)
    (htab : t.isTable = true) (s : Sym) :
    lookupIn cachedChild t s = lookupIn directChild t s ∧
    lookupAllIn cachedChild t s = lookupAllIn directChild t s := by
  have hc := cachedChild_eq_directChild (hv t ht htab)
  constructor
  · rw [lookupIn_eq, lookupIn_eq, hc]
    cases hd : directChild t s.root with
    | none => rfl
    | some x =>
      simp only [Option.bind_some]
      exact nestedLast_cached _ hv (ht.trans (directChild_member hd).sub)
  · cases s with
    | flat n => simp only [lookupAllIn, hc]
    | ref r ns =>
      simp only [lookupAllIn, refIn, hc]
      cases hd : directChild t r with
      | none => rfl
      | some x =>
        simp only
        exact refNested_cached _ _ hv (ht.trans (directChild_member hd).sub)

/-- the repaired `traits.SymbolTable.lookup_symbol` inside its anchor is the direct resolver — on
every tree, verified or not -/
theorem traits_eq_direct (t : Op) (s : Sym) :
    traitsGo true t (s.root :: s.nested) = lookupIn directChild t s := by
  rw [lookupIn_eq]
  simp only [traitsGo, Bool.not_true, Bool.false_and, Bool.false_eq_true, if_false]
  cases directChild t s.root with
  | none => rfl
  | some o => simp only [Option.bind_some]; exact traitsGo_false o s.nested

/-- All entry points, started from any operation of a verified tree (the operation at `path`):
`lookup_nearest_symbol_from` returns `r` iff the sentence designates `r`; the cached collection
returns the same; `traits.lookup_symbol` returns the same, raising its documented `ValueError`
exactly when no ancestor is a symbol table. -/
theorem lookup_spec (root : Op) (hv : Verified root) (path : List Nat) (chain : List Op)
    (hc : chainAt root path [] = some chain) (s : Sym) :
    (∀ r, lookupNearest directChild chain s = some r ↔ Resolves chain s r) ∧
    lookupNearest cachedChild chain s = lookupNearest directChild chain s ∧
    traitsLookup chain s =
      (match nearestTable chain with
       | none => .valueError
       | some _ => match lookupNearest directChild chain s with
         | some o => .found o
         | none => .notFound) := by
  have hsub := (chain_is_ancestor_chain root path chain hc).2
  cases hn : nearestTable chain with
  | none =>
    refine ⟨fun r => ⟨by simp [lookupNearest, hn], ?_⟩, by simp [lookupNearest, hn], by simp [traitsLookup, hn]⟩
    rintro ⟨t, ht, _⟩
    rw [nearestTable_of ht] at hn
    exact absurd hn (by simp)
  | some t =>
    have ht : Sub root t := hsub t (nearestTable_mem hn)
    have htab : t.isTable = true := by
      obtain ⟨_, _, _, h, _⟩ := nearestTable_some hn; exact h
    refine ⟨fun r => ?_, ?_, ?_⟩
    · simp only [lookupNearest, hn]
      rw [direct_iff_resolves root t hv ht htab]
      constructor
      · exact fun h => ⟨t, nearestTable_some hn, h⟩
      · rintro ⟨t', ht', h⟩
        have := nearestTable_of ht'
        rw [hn] at this
        cases this
        exact h
    · simp only [lookupNearest, hn]
      exact (cached_eq_direct root t hv ht htab s).1
    · simp only [traitsLookup, lookupNearest, hn, traits_eq_direct]
      cases lookupIn directChild t s <;> rfl

/-- every tree (no verification needed): a result of `lookup_nearest_symbol_from` or of
`traits.lookup_symbol` is designated by the sentence, and the two always coincide. -/
theorem lookup_sound (chain : List Op) (s : Sym) (r : Op) :
    (lookupNearest directChild chain s = some r → Resolves chain s r) ∧
    (traitsLookup chain s = .found r ↔ lookupNearest directChild chain s = some r) := by
  cases hn : nearestTable chain with
  | none => simp [lookupNearest, traitsLookup, hn]
  | some t =>
    simp only [lookupNearest, traitsLookup, hn, traits_eq_direct]
    refine ⟨fun h => ⟨t, nearestTable_some hn, direct_sound t s r h⟩, ?_⟩
    cases lookupIn directChild t s with
    | none => simp
    | some o => simp

/-- the model of the real verifier (`traits.SymbolTable.verify` run on every table of the module)
establishes the hypothesis `Verified` used above -/
theorem verifyB_sound (root : Op) (h : verifyB root = true) : Verified root :=
  fun _ hs ht => noDupNames_unique (verifyB_table (verifyB_sub h hs) ht)

/-! ### non-vacuity and the two clauses the unrepaired traits resolver missed -/

/-- `builtin.module { func.func @0 ; func.func @1 ; builtin.module @2 { func.func private @1 ;
func.func nested @3 { test.op } } }` -/
def exampleTree : Op :=
  .mk 0 true true none none
    [ .mk 1 false true (some 0) none [] [],
      .mk 2 false true (some 1) none [] [],
      .mk 3 true true (some 2) none
        [ .mk 4 false true (some 1) (some .priv) [] [],
          .mk 5 false true (some 3) (some .nested) [.mk 6 false false none none [] []] [] ] [] ] []

example : verifyB exampleTree = true := by decide

/-- from the `test.op` (path 2.1.0): flat `@3` is found in the inner module, flat `@0` is not (the
nearest table is the inner one); from the root `@2::@3` is found, `@2::@1` is refused (private),
`@0::@1` is refused (`@0` is not a table) although `@1` exists next to `@0`. -/
example :
    ((chainAt exampleTree [2, 1, 0] []).bind fun c => (lookupNearest directChild c (.flat 3)).map Op.id) = some 5
    ∧ ((chainAt exampleTree [2, 1, 0] []).bind fun c => (lookupNearest directChild c (.flat 0)).map Op.id) = none
    ∧ (lookupIn directChild exampleTree (.ref 2 [3])).map Op.id = some 5
    ∧ (lookupIn cachedChild exampleTree (.ref 2 [3])).map Op.id = some 5
    ∧ (traitsGo true exampleTree [2, 3]).map Op.id = some 5
    ∧ (lookupIn directChild exampleTree (.ref 2 [1])).map Op.id = none
    ∧ (traitsGo true exampleTree [2, 1]).map Op.id = none
    ∧ (lookupIn directChild exampleTree (.ref 0 [1])).map Op.id = none
    ∧ (traitsGo true exampleTree [0, 1]).map Op.id = none
    ∧ (lookupIn directChild exampleTree (.flat 1)).map Op.id = some 2 := by decide

/-! ### names are opaque tokens

The property sentence speaks of "the operation with that name": a name is something that is equal
to itself and to nothing else.  The model numbers the names; the real code compares Python strings.
The theorems below say that no entry point of the model uses anything of a name but equality —
respelling all names of the tree and of the reference by an injective map leaves every answer (the
operation found, identified by its position/id) unchanged.  They are what entitles the harness to
compare the real resolvers, run on the same tree under arbitrary spellings (empty string, blanks,
case variants, `::`, NUL, canonically equivalent unicode, …), with the one numbered model. -/

/-- respelling does not move operations: the op at a path of the respelled tree is the respelled op
at that path, with the same ancestor chain -/
theorem rename_chain (f : Nat → Nat) (root : Op) (p : List Nat) :
    chainAt (root.rename f) p [] = (chainAt root p []).map (List.map (Op.rename f)) := by
  simpa using chainAt_rename f root p []

/-- `get_nearest_symbol_table` does not look at names -/
theorem rename_nearest_table (f : Nat → Nat) (chain : List Op) :
    nearestTable (chain.map (Op.rename f)) = (nearestTable chain).map (Op.rename f) :=
  nearestTable_rename f chain

/-- direct lookup (`lookup_symbol_in`, also with `all_symbols`, and `lookup_nearest_symbol_from`):
the answer under an injective respelling is the respelled answer -/
theorem rename_direct {f : Nat → Nat} (hf : Function.Injective f) (t : Op) (chain : List Op) (s : Sym) :
    lookupIn directChild (t.rename f) (s.rename f) = (lookupIn directChild t s).map (Op.rename f)
    ∧ lookupAllIn directChild (t.rename f) (s.rename f)
        = (lookupAllIn directChild t s).map (List.map (Op.rename f))
    ∧ lookupNearest directChild (chain.map (Op.rename f)) (s.rename f)
        = (lookupNearest directChild chain s).map (Op.rename f) :=
  ⟨lookupIn_rename (directChild_rename hf) t s, lookupAllIn_rename (directChild_rename hf) t s,
   lookupNearest_rename (directChild_rename hf) chain s⟩

/-- cached lookup (`SymbolTable.__init__`/`lookup`, `SymbolTableCollection`), on every tree —
verified or not: the dict of `__init__` registers a symbol whatever its name is -/
theorem rename_cached {f : Nat → Nat} (hf : Function.Injective f) (t : Op) (chain : List Op) (s : Sym) :
    cachedChild (t.rename f) (f s.root) = (cachedChild t s.root).map (Op.rename f)
    ∧ lookupIn cachedChild (t.rename f) (s.rename f) = (lookupIn cachedChild t s).map (Op.rename f)
    ∧ lookupAllIn cachedChild (t.rename f) (s.rename f)
        = (lookupAllIn cachedChild t s).map (List.map (Op.rename f))
    ∧ lookupNearest cachedChild (chain.map (Op.rename f)) (s.rename f)
        = (lookupNearest cachedChild chain s).map (Op.rename f) :=
  ⟨cachedChild_rename hf t s.root, lookupIn_rename (cachedChild_rename hf) t s,
   lookupAllIn_rename (cachedChild_rename hf) t s, lookupNearest_rename (cachedChild_rename hf) chain s⟩

/-- `SymbolTable(op).lookup(name)` -/
theorem rename_table_lookup {f : Nat → Nat} (hf : Function.Injective f) (t : Op) (s : Sym) :
    tableLookup (t.rename f) (s.rename f) = (tableLookup t s).map (Option.map (Op.rename f)) := by
  cases s with
  | flat n => simp [Sym.rename, tableLookup, cachedChild_rename hf t n]
  | ref r ns => simp [Sym.rename, tableLookup]

/-- `traits.SymbolTable.lookup_symbol` (what the driver prints: the id found, `none`, or the
`ValueError`) -/
theorem rename_traits {f : Nat → Nat} (hf : Function.Injective f) (chain : List Op) (s : Sym) :
    showTraits (traitsLookup (chain.map (Op.rename f)) (s.rename f)) = showTraits (traitsLookup chain s) := by
  have hs : (s.rename f).root :: (s.rename f).nested = (s.root :: s.nested).map f := by
    cases s <;> simp [Sym.rename, Sym.root, Sym.nested]
  unfold traitsLookup
  rw [nearestTable_rename, hs]
  cases nearestTable chain with
  | none => simp
  | some t =>
    simp only [Option.map_some, traitsGo_rename hf]
    cases traitsGo true t (s.root :: s.nested) with
    | none => simp
    | some o => simp [showTraits]

/-- the symbol-table part of `Operation.verify` -/
theorem rename_verify {f : Nat → Nat} (hf : Function.Injective f) (root : Op) :
    verifyB (root.rename f) = verifyB root := verifyB_rename hf root

/-- All of it at once, as the check uses it: take any tree, any start operation (path `p`), any
reference; respell tree and reference by an injective `f`.  Then the respelled tree verifies iff
the original does, the start operation is at the same path, and every entry point designates the
operation with the same id (or nothing, or the `ValueError`) as before. -/
theorem spelling_irrelevant {f : Nat → Nat} (hf : Function.Injective f) (root : Op) (p : List Nat)
    (chain : List Op) (s : Sym) (h : chainAt root p [] = some chain) :
    verifyB (root.rename f) = verifyB root
    ∧ ∃ chain', chainAt (root.rename f) p [] = some chain' ∧ chain'.map Op.id = chain.map Op.id
      ∧ (nearestTable chain').map Op.id = (nearestTable chain).map Op.id
      ∧ (lookupNearest directChild chain' (s.rename f)).map Op.id
          = (lookupNearest directChild chain s).map Op.id
      ∧ (lookupNearest cachedChild chain' (s.rename f)).map Op.id
          = (lookupNearest cachedChild chain s).map Op.id
      ∧ showTraits (traitsLookup chain' (s.rename f)) = showTraits (traitsLookup chain s) := by
  refine ⟨rename_verify hf root, chain.map (Op.rename f), ?_, ?_, ?_, ?_, ?_, rename_traits hf chain s⟩
  · rw [rename_chain, h]; rfl
  · simp [Function.comp_def]
  · rw [nearestTable_rename]; cases nearestTable chain <;> simp
  · rw [(rename_direct hf root chain s).2.2]; cases lookupNearest directChild chain s <;> simp
  · rw [(rename_cached hf root chain s).2.2.2]; cases lookupNearest cachedChild chain s <;> simp

/-- injectivity is needed: a spelling that identifies two names changes answers (this is what a
resolver that normalises names — strips, lower-cases, treats the empty name as absent — does) -/
theorem rename_noninjective_counterexample :
    (lookupIn directChild (exampleTree.rename fun _ => 0) ((Sym.flat 1).rename fun _ => 0)).map Op.id = some 1
    ∧ (lookupIn directChild exampleTree (.flat 1)).map Op.id = some 2 := by decide

/-- without unique names the cached (last wins) and direct (first wins) resolvers differ: the
hypothesis of `cached_eq_direct` cannot be dropped -/
theorem cached_ne_direct_unverified :
    ∃ t : Op, verifyB t = false ∧
      (cachedChild t 0).map Op.id = some 2 ∧ (directChild t 0).map Op.id = some 1 :=
  ⟨.mk 0 true true none none
      [.mk 1 false true (some 0) none [] [], .mk 2 false true (some 0) none [] []] [],
   by decide⟩

/-- the two clauses the unrepaired `traits.SymbolTable.lookup_symbol` missed (found by the check on
the pinned tree): `@0::@1` through the non-table `@0`, and `@2::@1` reaching a private symbol -/
theorem traits_unrepaired_counterexample :
    (traitsOld exampleTree [0, 1]).map Op.id = some 2 ∧ (traitsGo true exampleTree [0, 1]).map Op.id = none ∧
    (traitsOld exampleTree [2, 1]).map Op.id = some 4 ∧ (traitsGo true exampleTree [2, 1]).map Op.id = none := by
  decide

end Xdsl.SymbolTable
