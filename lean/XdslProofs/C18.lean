import XdslProofs.Lemmas.ArgSpecTotal
/-!
# C18 — pass pipeline specifications round-trip through text

"For every registered pass and every assignment of values of its supported option types (integers,
floats, booleans, strings with arbitrary characters, tuples and optional values), the printed
pipeline specification parses back into an equal pass; printing a pipeline and parsing it yields the
same pipeline. Parsing any pipeline string either yields passes or reports a pipeline parse or
option error."

This file: the text level (`ArgSpec.__str__` then `parse_pipeline`) and totality of the parser.
The typed level (`spec()` / `from_spec`) is in `C18Typed.lean`.  All statements are about
`XdslModel/ArgSpec.lean`, the model of `xdsl/utils/arg_spec.py` with the C18 repairs applied.
-/
namespace Xdsl.ArgSpec

/-- What is assumed of CPython's `repr(float)` / `float(str)` (stated parameter; re-checked by the
harness on every generated float): `repr` stays inside the grammar `FloatRepr`, and reading back
what `_spec_parameter_type_str` makes of it returns the same float. -/
structure FloatOracle (F : Type) where
  repr : F → List Char
  ofText : List Char → F
  repr_grammar : ∀ f, FloatRepr (repr f)
  roundtrip : ∀ f, ofText (printFloatText (repr f)) = f

/-- A spec as produced from a pass: the name and the keys are identifiers — `[A-Za-z_][A-Za-z0-9_-]*`
(pass names, Python field names) or the digit-led shape `[0-9]+[A-Za-z_-][A-Za-z0-9_-]*` of lexer
rule 1 —, the keys are those of a dictionary (pairwise distinct).
Nothing is assumed about the values: any number of ints, bools, floats and strings over arbitrary
characters. -/
def WFSpec {F : Type} (s : Spec F) : Prop :=
  IsName s.name ∧ (∀ p ∈ s.params, IsName p.1) ∧ (s.params.map Prod.fst).Nodup

/-- "printing a pipeline and parsing it yields the same pipeline": for every list of specs (any
length, including the empty pipeline), every tuple length, every int, bool, float and every string
over arbitrary characters. -/
theorem pipeline_roundtrip {F : Type} (O : FloatOracle F) (ss : List (Spec F)) (h : ∀ s ∈ ss, WFSpec s) :
    parsePipeline O.ofText (printPipeline O.repr ss) = .ok ss := by
  unfold parsePipeline
  rw [lex_pipeline O.repr O.repr_grammar ss (fun s hs => ⟨(h s hs).1, (h s hs).2.1⟩)]
  rw [pPipeline_pipe O.repr O.ofText O.repr_grammar O.roundtrip ss []]
  have : ss.map normSpec = ss := by
    rw [List.map_congr_left (g := id)]
    · simp
    · intro s hs
      obtain ⟨name, params⟩ := s
      have hn := (h _ hs).2.2
      simp only [normSpec, id]
      rw [foldDict_nodup [] params (by simpa using hn)]
      simp
  simp [this]

/-- "the printed pipeline specification parses back" — one spec: `parse (print s) = s`. -/
theorem spec_roundtrip {F : Type} (O : FloatOracle F) (s : Spec F) (h : WFSpec s) :
    parsePipeline O.ofText (printSpec O.repr s) = .ok [s] := by
  have := pipeline_roundtrip O [s] (by simpa using h)
  simpa [printPipeline, joinWith] using this

/-- The escaping on print is inverted by the unescaping of the parser for every string. -/
theorem string_value_roundtrip (s : List Char) : unescape (escape s) = s := unescape_escape s

/-- `int(str(i)) = i` in the model's decimal printer/reader. -/
theorem int_value_roundtrip (i : Int) : parseInt (showInt i) = i := parseInt_showInt i

/-! ## Totality: "parsing any pipeline string either yields passes or reports a pipeline parse
error" — never the internal `StopIteration` of an exhausted token generator. -/

/-- "Parsing any pipeline string either yields passes or reports a pipeline parse error": for
every input text the model parser returns specs or one of the nine `ArgSpecParseError` messages
together with the token it points at; it never runs the token generator past its end. -/
theorem parse_total {F : Type} (ofText : List Char → F) (text : List Char) :
    (∃ specs, parsePipeline ofText text = .ok specs) ∨
    (∃ m toks, parsePipeline ofText text = .error (m, toks) ∧ m ≠ .stopIteration) := by
  have h := (parser_noStop ofText _ (lexAll text) (Nat.le_refl _) (lexAll_terminated text)).1 []
  unfold parsePipeline
  cases hr : pPipeline ofText [] (lexAll text) with
  | ok specs => exact Or.inl ⟨specs, rfl⟩
  | error e =>
    obtain ⟨m, toks⟩ := e
    rw [hr] at h
    have hm : m ≠ .stopIteration := by
      intro hm; subst hm; exact h (by simp [IsStop])
    exact Or.inr ⟨m, toks, rfl, hm⟩

/-! ## Non-vacuity -/

/-- an oracle exists (a one-point float type whose repr is `0.0`) -/
def unitOracle : FloatOracle Unit where
  repr _ := ['0', '.', '0']
  ofText _ := ()
  repr_grammar _ := FloatRepr.fixed false ['0'] ['0'] (by simp [AllDigits]; decide) (by decide) (by simp [AllDigits]; decide) (by decide)
  roundtrip _ := rfl

/-- `p{k="a\"b\\",-5,true,0.0 n}` read back -/
example :
    parsePipeline unitOracle.ofText (printSpec unitOracle.repr
      ⟨['p'], [(['k'], [.str ['a', '"', 'b', '\\'], .int (-5), .bool true, .float ()]), (['n'], [])]⟩) =
    .ok [⟨['p'], [(['k'], [.str ['a', '"', 'b', '\\'], .int (-5), .bool true, .float ()]), (['n'], [])]⟩] :=
  spec_roundtrip unitOracle _
    ⟨Or.inl ⟨'p', [], rfl, by decide, by decide⟩,
     by intro p hp
        simp at hp
        rcases hp with rfl | rfl
        · exact Or.inl ⟨'k', [], rfl, by decide, by decide⟩
        · exact Or.inl ⟨'n', [], rfl, by decide, by decide⟩,
     by decide⟩

end Xdsl.ArgSpec

namespace Xdsl.ArgSpec
/-- the digit-led identifier shape of lexer rule 1 is covered: `2d-slice` is a name -/
example : IsName ['2', 'd', '-', 's', 'l', 'i', 'c', 'e'] :=
  Or.inr ⟨['2'], 'd', ['-', 's', 'l', 'i', 'c', 'e'], rfl, by decide, by simp [AllDigits]; decide, by decide, by decide⟩

/-- every spec without parameters whose name is an identifier is well formed -/
example {F : Type} (n : List Char) (h : IsName n) : WFSpec (F := F) ⟨n, []⟩ := ⟨h, by simp, by simp⟩
end Xdsl.ArgSpec
