import XdslModel.Loops
import XdslProofs.Lemmas.Loops
import XdslProofs.C16
/-!
C16 — loop flattening (`scf_for_loop_flatten.py`).  The pass as it is does not preserve behaviour
in general (known findings); the theorems state the exact side conditions under which its two
rewrites are sound, and `…_counterexample` theorems exhibit the inputs found by the check.
-/
namespace Xdsl.C16
open Xdsl.Loops

/-- a loop can be cut at any point `mid` that the induction variable hits exactly -/
theorem forLoop_split {σ : Type} (ub s : Int) (hs : 0 < s) (body : Int → σ → Option σ) :
    ∀ (k : Nat) (lb mid : Int) (s0 : σ), tripCount lb mid s = k → lb ≤ mid → mid ≤ ub → s ∣ (mid - lb) →
      forLoop lb ub s body s0 = (forLoop lb mid s body s0).bind (forLoop mid ub s body) := by
  intro k
  induction k with
  | zero =>
    intro lb mid s0 hk h1 _ _
    have hnl : ¬ lb < mid := (tripCount_eq_zero_iff hs).1 hk
    have : lb = mid := by omega
    subst this
    rw [forLoop_zero_trip hs hnl]; rfl
  | succ k ih =>
    intro lb mid s0 hk h1 h2 hd
    have hlt : lb < mid := by
      apply Classical.byContradiction; intro h
      rw [tripCount_of_not_lt h] at hk; omega
    have hle : s ≤ mid - lb := Int.le_of_dvd (by omega) hd
    rw [forLoop_unfold hs (show lb < ub by omega), forLoop_unfold hs hlt]
    cases body lb s0 with
    | none => rfl
    | some s1 =>
      simp only [Option.bind_some]
      apply ih
      · rw [tripCount_succ hs hlt] at hk; omega
      · omega
      · exact h2
      · have : mid - (lb + s) = (mid - lb) - s := by omega
        rw [this]; exact Int.dvd_sub hd (Int.dvd_refl s)

/-- "flattening" (`i = q*N + r` decomposition), induction variables summed:
`for o in [lb,ub) step S { for i in [0,S) step s { body (o+i) } }` = `for k in [lb,ub) step s
{ body k }` provided `s` divides `S` **and `S` divides `ub - lb`** (the pass checks the first
condition only; see `flatten_fuse_counterexample`). -/
theorem flatten_sound {σ : Type} (ub S s : Int) (hs : 0 < s) (hS : 0 < S) (hd : s ∣ S)
    (body : Int → σ → Option σ) :
    ∀ (k : Nat) (lb : Int) (s0 : σ), tripCount lb ub S = k → S ∣ (ub - lb) →
      forLoop lb ub S (fun o st => forLoop 0 S s (fun i => body (o + i)) st) s0
        = forLoop lb ub s body s0 := by
  intro k
  induction k with
  | zero =>
    intro lb s0 hk _
    have hnl : ¬ lb < ub := (tripCount_eq_zero_iff hS).1 hk
    rw [forLoop_zero_trip hS hnl, forLoop_zero_trip hs hnl]
  | succ k ih =>
    intro lb s0 hk hdiv
    have hlt : lb < ub := by
      apply Classical.byContradiction; intro h
      rw [tripCount_of_not_lt h] at hk; omega
    have hle : S ≤ ub - lb := Int.le_of_dvd (by omega) hdiv
    rw [forLoop_unfold hS hlt]
    -- the inner loop is the slice [lb, lb+S) of the flat loop
    have hin : forLoop 0 S s (fun i => body (lb + i)) s0 = forLoop lb (lb + S) s body s0 := by
      have := range_fold_add 0 S s lb body s0
      simp only [Int.zero_add] at this
      rw [Int.add_comm S lb] at this
      rw [this]
      congr 1; funext i; rw [Int.add_comm]
    rw [hin]
    have hsplit := forLoop_split ub s hs body (tripCount lb (lb + S) s) lb (lb + S) s0 rfl (by omega) (by omega)
      (by have : lb + S - lb = S := by omega
          rw [this]; exact hd)
    rw [hsplit]
    congr 1; funext s1
    apply ih
    · rw [tripCount_succ hS hlt] at hk; omega
    · have : ub - (lb + S) = (ub - lb) - S := by omega
      rw [this]; exact Int.dvd_sub hdiv (Int.dvd_refl S)

/-- the check's failing input: 0..5 step 4 around 0..4 step 2 — the nest visits 0,2,4,6, the
flattened loop 0..5 step 2 only 0,2,4 -/
theorem flatten_fuse_counterexample :
    forLoop 0 5 4 (fun o st => forLoop 0 4 2 (fun i => logBody (o + i)) st) [] = some [0, 2, 4, 6]
    ∧ forLoop 0 5 2 logBody [] = some [0, 2, 4]
    ∧ flattenDecide true (some 0) 4 0 4 2 = .fuse 2 := by
  decide

/-! ### induction variables unused -/

/-- run `f` `n` times -/
def nIter {σ : Type} (f : σ → Option σ) : Nat → σ → Option σ
  | 0, s => some s
  | n + 1, s => (f s).bind (nIter f n)

theorem iter_const {σ : Type} (f : σ → Option σ) (l : List Int) (s : σ) :
    iter (fun _ => f) l s = nIter f l.length s := by
  induction l generalizing s with
  | nil => rfl
  | cons a r ih =>
    simp only [iter, List.length_cons, nIter]
    congr 1; funext s'; exact ih s'

theorem forLoop_const {σ : Type} (lb ub step : Int) (hs : 0 < step) (f : σ → Option σ) (s : σ) :
    forLoop lb ub step (fun _ => f) s = nIter f (tripCount lb ub step) s := by
  rw [forLoop_pos hs, iter_const, ivs_length]

theorem nIter_add {σ : Type} (f : σ → Option σ) (a b : Nat) (s : σ) :
    nIter f (a + b) s = (nIter f a s).bind (nIter f b) := by
  induction a generalizing s with
  | zero => simp [nIter]
  | succ a ih =>
    have : a + 1 + b = (a + b) + 1 := by omega
    rw [this]
    simp only [nIter]
    cases f s with
    | none => rfl
    | some s' => simpa using ih s'

theorem nIter_mul {σ : Type} (f : σ → Option σ) (a b : Nat) (s : σ) :
    nIter (nIter f b) a s = nIter f (a * b) s := by
  induction a generalizing s with
  | zero => simp [nIter]
  | succ a ih =>
    have : (a + 1) * b = b + a * b := by rw [Nat.add_mul]; omega
    rw [this, nIter_add f b (a * b)]
    show (nIter f b s).bind (nIter (nIter f b) a) = _
    congr 1; funext s'; exact ih s'

/-- induction variables unused: the nest runs the body `tripCount(outer) * tripCount(inner)` times,
so a single loop is equivalent exactly when it has that many trips (any bounds/step achieving it). -/
theorem flatten_unused_sound {σ : Type} (olb oub S il iu s nlb nub nS : Int) (hS : 0 < S) (hs : 0 < s)
    (hn : 0 < nS) (f : σ → Option σ) (s0 : σ)
    (h : tripCount nlb nub nS = tripCount olb oub S * tripCount il iu s) :
    forLoop olb oub S (fun _ st => forLoop il iu s (fun _ => f) st) s0 = forLoop nlb nub nS (fun _ => f) s0 := by
  have : (fun (_ : Int) (st : σ) => forLoop il iu s (fun _ => f) st) = fun _ => nIter f (tripCount il iu s) := by
    funext _ st; exact forLoop_const il iu s hs f st
  rw [this, forLoop_const _ _ _ hS, forLoop_const _ _ _ hn, nIter_mul, h]

/-- what the pass emits (`0 .. ub * ((iu - il) // s)` step `S`) has the right trip count when the
outer step is 1 and `s` divides a non-negative `iu - il`; in general it has not. -/
theorem flatten_unused_pass_partial (oub il iu s : Int) (hs : 0 < s) (hle : il ≤ iu) (hd : s ∣ (iu - il)) :
    tripCount 0 (oub * Int.fdiv (iu - il) s) 1 = tripCount 0 oub 1 * tripCount il iu s := by
  obtain ⟨q, hq⟩ := hd
  have hq0 : 0 ≤ q := by
    apply Classical.byContradiction; intro hneg
    have : s * q < 0 := Int.mul_neg_of_pos_of_neg hs (by omega)
    omega
  have hfd : Int.fdiv (iu - il) s = q := by
    rw [Int.fdiv_eq_ediv_of_nonneg _ (by omega), hq, Int.mul_ediv_cancel_left _ (by omega)]
  have hti : tripCount il iu s = q.toNat := by
    unfold tripCount
    by_cases hlt : il < iu
    · rw [if_pos ⟨hlt, hs⟩]
      have hq1 : 1 ≤ q := by
        apply Classical.byContradiction; intro hh
        have : q = 0 := by omega
        subst this; omega
      have e : iu - il - 1 = (s - 1) + (q - 1) * s := by
        rw [hq, Int.sub_mul, Int.mul_comm s q]; omega
      rw [e, Int.add_mul_ediv_right _ _ (by omega), Int.ediv_eq_zero_of_lt (by omega) (by omega)]
      omega
    · rw [if_neg (fun hh => hlt hh.1)]
      have : s * q = 0 := by omega
      have : q = 0 := by
        cases Int.mul_eq_zero.1 this with
        | inl h => omega
        | inr h => exact h
      subst this; rfl
  have hto : ∀ u : Int, tripCount 0 u 1 = u.toNat := by
    intro u
    unfold tripCount
    by_cases hlt : 0 < u
    · rw [if_pos ⟨hlt, by omega⟩, Int.ediv_one]; omega
    · rw [if_neg (fun hh => hlt hh.1)]; omega
  rw [hfd, hto, hto, hti]
  by_cases hu : 0 ≤ oub
  · obtain ⟨a, rfl⟩ := Int.eq_ofNat_of_zero_le hu
    obtain ⟨b, rfl⟩ := Int.eq_ofNat_of_zero_le hq0
    rw [show ((a : Int) * (b : Int)) = ((a * b : Nat) : Int) from (Int.natCast_mul a b).symm]
    simp only [Int.toNat_natCast]
  · have h1 : oub.toNat = 0 := by omega
    have h2 : oub * q ≤ 0 := Int.mul_nonpos_of_nonpos_of_nonneg (by omega) hq0
    have h3 : (oub * q).toNat = 0 := by omega
    rw [h1, h3]; simp

/-- the check's failing inputs: 0..3 step 2 around 0..3 step 1 runs the body 6 times, the emitted
0..9 step 2 five times; 0..2 step 1 around 1..-2 step 3 never runs the body, the emitted loop has
`factor = (−2−1)//3 = −1` and for a negative outer bound `ub = −1` runs it once. -/
theorem flatten_unused_counterexample :
    tripCount 0 3 2 * tripCount 0 3 1 = 6 ∧ tripCount 0 (3 * Int.fdiv (3 - 0) 1) 2 = 5
    ∧ tripCount 0 (-1) 1 * tripCount 1 (-2) 3 = 0 ∧ tripCount 0 (-1 * Int.fdiv (-2 - 1) 3) 1 = 1
    ∧ flattenDecide false (some 0) 2 0 3 1 = .prod 3 := by
  decide

end Xdsl.C16
