import XdslModel.Loops
import XdslProofs.Lemmas.Loops
import XdslProofs.Lemmas.LoopsRound
import XdslProofs.C16
/-!
C16 — loop flattening (`scf_for_loop_flatten.py`).  `flatten_sound` / `flatten_unused_sound` are
the arithmetic cores; `flatten_fuse_pass_sound` / `flatten_prod_pass_sound` state that whatever
`flattenDecide` (the model of the repaired pass: outer range rounded up to a whole number of outer
steps, inner trip count a clamped ceiling) emits is equivalent to the nest, for constant and
non-constant outer bounds.  The `…_regression` theorems keep the inputs on which the pass was
wrong before the repair.
-/
namespace Xdsl.C16
open Xdsl.Loops

/-- a loop can be cut at any point `mid` that the induction variable hits exactly -/
theorem forLoop_split {σ : Type} (ub s : Int) (hs : 0 < s) (body : Int → σ → Option σ) :
    ∀ (k : Nat) (lb mid : Int) (s0 : σ), tripCount lb mid s = k → lb ≤ mid → mid ≤ ub → s ∣ (mid - lb) →
      forLoop lb ub s body s0 = (forLoop lb mid s body s0).bind (forLoop mid ub s body) := by
  intro k
  induction k with
  | zero =>
    intro lb mid s0 hk h1 _ _
    have hnl : ¬ lb < mid := (tripCount_eq_zero_iff hs).1 hk
    have : lb = mid := by omega
    subst this
    rw [forLoop_zero_trip hs hnl]; rfl
  | succ k ih =>
    intro lb mid s0 hk h1 h2 hd
    have hlt : lb < mid := by
      apply Classical.byContradiction; intro h
      rw [tripCount_of_not_lt h] at hk; omega
    have hle : s ≤ mid - lb := Int.le_of_dvd (by omega) hd
    rw [forLoop_unfold hs (show lb < ub by omega), forLoop_unfold hs hlt]
    cases body lb s0 with
    | none => rfl
    | some s1 =>
      simp only [Option.bind_some]
      apply ih
      · rw [tripCount_succ hs hlt] at hk; omega
      · omega
      · exact h2
      · have : mid - (lb + s) = (mid - lb) - s := by omega
        rw [this]; exact Int.dvd_sub hd (Int.dvd_refl s)

/-- "flattening" (`i = q*N + r` decomposition), induction variables summed:
`for o in [lb,ub) step S { for i in [0,S) step s { body (o+i) } }` = `for k in [lb,ub) step s
{ body k }` provided `s` divides `S` **and `S` divides `ub - lb`** (the pass checks the first
condition and rounds `ub` up so that the second holds: `flatten_round_sound`). -/
theorem flatten_sound {σ : Type} (ub S s : Int) (hs : 0 < s) (hS : 0 < S) (hd : s ∣ S)
    (body : Int → σ → Option σ) :
    ∀ (k : Nat) (lb : Int) (s0 : σ), tripCount lb ub S = k → S ∣ (ub - lb) →
      forLoop lb ub S (fun o st => forLoop 0 S s (fun i => body (o + i)) st) s0
        = forLoop lb ub s body s0 := by
  intro k
  induction k with
  | zero =>
    intro lb s0 hk _
    have hnl : ¬ lb < ub := (tripCount_eq_zero_iff hS).1 hk
    rw [forLoop_zero_trip hS hnl, forLoop_zero_trip hs hnl]
  | succ k ih =>
    intro lb s0 hk hdiv
    have hlt : lb < ub := by
      apply Classical.byContradiction; intro h
      rw [tripCount_of_not_lt h] at hk; omega
    have hle : S ≤ ub - lb := Int.le_of_dvd (by omega) hdiv
    rw [forLoop_unfold hS hlt]
    -- the inner loop is the slice [lb, lb+S) of the flat loop
    have hin : forLoop 0 S s (fun i => body (lb + i)) s0 = forLoop lb (lb + S) s body s0 := by
      have := range_fold_add 0 S s lb body s0
      simp only [Int.zero_add] at this
      rw [Int.add_comm S lb] at this
      rw [this]
      congr 1; funext i; rw [Int.add_comm]
    rw [hin]
    have hsplit := forLoop_split ub s hs body (tripCount lb (lb + S) s) lb (lb + S) s0 rfl (by omega) (by omega)
      (by have : lb + S - lb = S := by omega
          rw [this]; exact hd)
    rw [hsplit]
    congr 1; funext s1
    apply ih
    · rw [tripCount_succ hS hlt] at hk; omega
    · have : ub - (lb + S) = (ub - lb) - S := by omega
      rw [this]; exact Int.dvd_sub hdiv (Int.dvd_refl S)

/-- the same without the divisibility of `ub - lb`: any bound `r` that is `ub` rounded up to a whole
number of outer steps (`Rounded`: `ub ≤ r < ub + S`, `S ∣ r - lb`; `r ≤ lb` for an empty range)
makes the flat loop `[lb, r)` step `s` equivalent to the nest over `[lb, ub)`. -/
theorem flatten_round_sound {σ : Type} (lb ub r S s : Int) (hs : 0 < s) (hS : 0 < S) (hd : s ∣ S)
    (hr : Rounded lb ub S r) (body : Int → σ → Option σ) (s0 : σ) :
    forLoop lb ub S (fun o st => forLoop 0 S s (fun i => body (o + i)) st) s0
      = forLoop lb r s body s0 := by
  rw [← forLoop_congr_trip (tripCount_rounded hS hr)]
  by_cases hlt : lb < ub
  · exact flatten_sound r S s hs hS hd body _ lb s0 rfl (hr.2 hlt).2.2
  · have := hr.1 (by omega)
    rw [forLoop_zero_trip hS (by omega), forLoop_zero_trip hs (by omega)]

/-- **the pass, induction variables summed**: whenever the decision is `fuse st b`, the loop it
builds (`lb` to the value of the new bound `b`, step `st`) is equivalent to the nest — for constant
bounds (`olb`/`oub = some _`, kept / replaced by a rounded constant) and for bounds only known at
run time (`none`: `lb + ceildivsi(ub - lb, S) * S`).  `0 < s` is what `scf.for` demands of the
inner step; `0 < S` is checked by the pass. -/
theorem flatten_fuse_pass_sound {σ : Type} (olb oub : Option Int) (lb ub S il iu s st : Int) (b : NewUb)
    (hl : ∀ v, olb = some v → v = lb) (hu : ∀ v, oub = some v → v = ub) (hs : 0 < s)
    (h : flattenDecide true olb oub S il iu s = .fuse st b) (body : Int → σ → Option σ) (s0 : σ) :
    forLoop lb ub S (fun o x => forLoop il iu s (fun i => body (o + i)) x) s0
      = forLoop lb (b.val lb ub S) st body s0 := by
  unfold flattenDecide at h
  by_cases hS : S ≤ 0
  · rw [if_pos hS] at h; cases h
  rw [if_neg hS] at h
  simp only [if_true] at h
  by_cases h1 : il ≠ 0
  · rw [if_pos h1] at h; cases h
  rw [if_neg h1] at h
  by_cases h2 : iu ≠ S
  · rw [if_pos h2] at h; cases h
  rw [if_neg h2] at h
  by_cases h3 : s = 0
  · omega
  rw [if_neg h3] at h
  by_cases h4 : Int.fmod S s ≠ 0
  · rw [if_pos h4] at h; cases h
  rw [if_neg h4] at h
  injection h with e1 e2
  subst e1; subst e2
  have hil : il = 0 := Classical.not_not.1 h1
  have hiu : iu = S := Classical.not_not.1 h2
  subst hil; subst hiu
  have hd : s ∣ iu := by
    have : Int.fmod iu s = 0 := Classical.not_not.1 h4
    rw [Int.fmod_eq_emod_of_nonneg _ (by omega)] at this
    exact Int.dvd_of_emod_eq_zero this
  exact flatten_round_sound lb ub _ iu s hs (by omega) hd
    (wholeStepsUb_rounded olb oub lb ub iu (by omega) hl hu) body s0

/-- regression (the check's failing input before the repair): 0..5 step 4 around 0..4 step 2 — the
nest visits 0,2,4,6, the formerly emitted loop 0..5 step 2 only 0,2,4; the pass now rounds the
bound to 8. -/
theorem flatten_fuse_regression :
    forLoop 0 5 4 (fun o st => forLoop 0 4 2 (fun i => logBody (o + i)) st) [] = some [0, 2, 4, 6]
    ∧ forLoop 0 5 2 logBody [] = some [0, 2, 4]
    ∧ flattenDecide true (some 0) (some 5) 4 0 4 2 = .fuse 2 (.const 8)
    ∧ forLoop 0 8 2 logBody [] = some [0, 2, 4, 6]
    ∧ flattenDecide true none (some 5) 4 0 4 2 = .fuse 2 .arith
    ∧ NewUb.val 0 5 4 .arith = 8 := by
  decide

/-! ### induction variables unused -/

/-- run `f` `n` times -/
def nIter {σ : Type} (f : σ → Option σ) : Nat → σ → Option σ
  | 0, s => some s
  | n + 1, s => (f s).bind (nIter f n)

theorem iter_const {σ : Type} (f : σ → Option σ) (l : List Int) (s : σ) :
    iter (fun _ => f) l s = nIter f l.length s := by
  induction l generalizing s with
  | nil => rfl
  | cons a r ih =>
    simp only [iter, List.length_cons, nIter]
    congr 1; funext s'; exact ih s'

theorem forLoop_const {σ : Type} (lb ub step : Int) (hs : 0 < step) (f : σ → Option σ) (s : σ) :
    forLoop lb ub step (fun _ => f) s = nIter f (tripCount lb ub step) s := by
  rw [forLoop_pos hs, iter_const, ivs_length]

theorem nIter_add {σ : Type} (f : σ → Option σ) (a b : Nat) (s : σ) :
    nIter f (a + b) s = (nIter f a s).bind (nIter f b) := by
  induction a generalizing s with
  | zero => simp [nIter]
  | succ a ih =>
    have : a + 1 + b = (a + b) + 1 := by omega
    rw [this]
    simp only [nIter]
    cases f s with
    | none => rfl
    | some s' => simpa using ih s'

theorem nIter_mul {σ : Type} (f : σ → Option σ) (a b : Nat) (s : σ) :
    nIter (nIter f b) a s = nIter f (a * b) s := by
  induction a generalizing s with
  | zero => simp [nIter]
  | succ a ih =>
    have : (a + 1) * b = b + a * b := by rw [Nat.add_mul]; omega
    rw [this, nIter_add f b (a * b)]
    show (nIter f b s).bind (nIter (nIter f b) a) = _
    congr 1; funext s'; exact ih s'

/-- induction variables unused: the nest runs the body `tripCount(outer) * tripCount(inner)` times,
so a single loop is equivalent exactly when it has that many trips (any bounds/step achieving it). -/
theorem flatten_unused_sound {σ : Type} (olb oub S il iu s nlb nub nS : Int) (hS : 0 < S) (hs : 0 < s)
    (hn : 0 < nS) (f : σ → Option σ) (s0 : σ)
    (h : tripCount nlb nub nS = tripCount olb oub S * tripCount il iu s) :
    forLoop olb oub S (fun _ st => forLoop il iu s (fun _ => f) st) s0 = forLoop nlb nub nS (fun _ => f) s0 := by
  have : (fun (_ : Int) (st : σ) => forLoop il iu s (fun _ => f) st) = fun _ => nIter f (tripCount il iu s) := by
    funext _ st; exact forLoop_const il iu s hs f st
  rw [this, forLoop_const _ _ _ hS, forLoop_const _ _ _ hn, nIter_mul, h]

/-- **the pass, induction variables unused**: whenever the decision is `prod f b`, the loop it
builds (`0` to `(value of b) * f`, step `S`) is equivalent to the nest: `f` is the inner trip count
and the rounded outer bound is a whole number of outer steps, so the product loop has exactly
`tripCount(outer) * tripCount(inner)` iterations. -/
theorem flatten_prod_pass_sound {σ : Type} (olb oub : Option Int) (lb ub S il iu s f : Int) (b : NewUb)
    (hl : ∀ v, olb = some v → v = lb) (hu : ∀ v, oub = some v → v = ub) (hs : 0 < s)
    (h : flattenDecide false olb oub S il iu s = .prod f b) (g : σ → Option σ) (s0 : σ) :
    forLoop lb ub S (fun _ x => forLoop il iu s (fun _ => g) x) s0
      = forLoop 0 (b.val lb ub S * f) S (fun _ => g) s0 := by
  unfold flattenDecide at h
  by_cases hS : S ≤ 0
  · rw [if_pos hS] at h; cases h
  rw [if_neg hS] at h
  simp only [Bool.false_eq_true, if_false] at h
  have hS' : 0 < S := by omega
  cases olb with
  | none => cases h
  | some l =>
    by_cases hl0 : l = 0
    · subst hl0
      have hlb : lb = 0 := (hl 0 rfl).symm
      subst hlb
      simp only at h
      rw [if_neg (by omega)] at h
      injection h with e1 e2
      subst e1; subst e2
      have hr := wholeStepsUb_rounded (some 0) oub 0 ub S hS' hl hu
      apply flatten_unused_sound 0 ub S il iu s 0 _ S hS' hs hS' g s0
      rw [← tripCount_eq_ceil hs, tripCount_mul_whole hS', tripCount_rounded hS' hr]
      by_cases hlt : 0 < ub
      · have := (hr.2 hlt).2.2
        rw [Int.sub_zero] at this
        exact Or.inr this
      · exact Or.inl (hr.1 (by omega))
    · cases l with
      | ofNat n =>
        cases n with
        | zero => exact absurd rfl hl0
        | succ n => cases h
      | negSucc n => cases h

/-- regression (the check's failing inputs before the repair): 0..3 step 2 around 0..3 step 1 runs
the body 6 times, the formerly emitted 0..9 step 2 five times — now 0..4*3 step 2; 0..2 step 1
around 1..-2 step 3 never runs the body, the former factor `(−2−1)//3 = −1` is now `0`; 0..8 step 3
has three iterations, not `8 // 3 = 2`. -/
theorem flatten_unused_regression :
    tripCount 0 3 2 * tripCount 0 3 1 = 6 ∧ tripCount 0 (3 * Int.fdiv (3 - 0) 1) 2 = 5
    ∧ flattenDecide false (some 0) (some 3) 2 0 3 1 = .prod 3 (.const 4) ∧ tripCount 0 (4 * 3) 2 = 6
    ∧ flattenDecide false (some 0) (some 2) 1 1 (-2) 3 = .prod 0 .keep
    ∧ flattenDecide false (some 0) none 5 0 8 3 = .prod 3 .arith := by
  decide

end Xdsl.C16
