import XdslProofs.Lemmas.ConstraintSound
/-!
# C09 — IRDL attribute constraints accept exactly what they describe (semantics part)

"An attribute constraint accepts an attribute exactly when its definition says so: a union accepts
what some alternative accepts, an intersection what all accept, base, equality, set and parametrized
constraints check class and parameters, and constraint variables require all occurrences to be
equal."

`sat U σ c a` (in `Lemmas/Constraint.lean`) is that definition, read off the sentence: `σ` is an
assignment of the constraint variables.  `verify` is the model of the Python `verify` methods with
their shared, mutated `ConstraintContext`, the class-dispatch table of `AnyOf` and the constructor
check of `AnyOf.__init__` (`WF`).  `WellDeclared decl c`: every variable name carries one constraint
(`decl n`) which does not mention the name itself — the intended use of `VarConstraint`.
`UnivOK U`: a runtime-final class has no proper subclass (checked on the real classes every run).
-/
namespace Xdsl.Constraint

/-- **Headline.**  With an initial context whose bindings satisfy their declarations, `verify`
succeeds exactly when some assignment extending the context puts the attribute in the set the
constraint describes — for every class table, constraint tree, attribute and context. -/
theorem verify_iff_sat (U : Univ) (hU : UnivOK U) (decl : Nat → C) (c : C) (hw : WF U c)
    (hd : WellDeclared decl c) (a : Attr) (ctx : Ctx) (hi : CtxInv U decl ctx) :
    (∃ ctx', verify U c a ctx = some ctx') ↔ ∃ σ, Sub ctx σ ∧ sat U σ c a := by
  constructor
  · rintro ⟨ctx', h⟩
    obtain ⟨e, _, s, _⟩ := verify_sound U decl c a ctx ctx' h hd hi
    exact ⟨AL.get ctx', e, s⟩
  · rintro ⟨σ, hs, h⟩
    obtain ⟨ctx', h1, _⟩ := verify_complete U σ hU c a ctx hw h hs
    exact ⟨ctx', h1⟩

/-- `constraint.verifies(attr)` (fresh context) holds exactly when the attribute is in the described
set under some assignment of the variables. -/
theorem accepts_iff_sat (U : Univ) (hU : UnivOK U) (decl : Nat → C) (c : C) (hw : WF U c)
    (hd : WellDeclared decl c) (a : Attr) : accepts U c a = true ↔ ∃ σ, sat U σ c a := by
  have := verify_iff_sat U hU decl c hw hd a [] (fun n v h => by simp at h)
  unfold accepts
  rw [Option.isSome_iff_exists, this]
  constructor
  · rintro ⟨σ, _, h⟩; exact ⟨σ, h⟩
  · rintro ⟨σ, h⟩; exact ⟨σ, fun n v h => by simp at h, h⟩

/-- on success the resulting context is itself a satisfying assignment, extends the initial one and
binds only variables of the constraint -/
theorem verify_result (U : Univ) (decl : Nat → C) (c : C) (hd : WellDeclared decl c) (a : Attr)
    (ctx ctx' : Ctx) (hi : CtxInv U decl ctx) (h : verify U c a ctx = some ctx') :
    Ext ctx ctx' ∧ Frame ctx ctx' (vars c) ∧ sat U (AL.get ctx') c a ∧ CtxInv U decl ctx' :=
  verify_sound U decl c a ctx ctx' h hd hi

/-- "a union accepts what some alternative accepts" — `AnyOf.verify` looks only at the alternative
its class table selects; under the disjointness the constructor enforces that is no loss. -/
theorem anyOf_sem (U : Univ) (hU : UnivOK U) (decl : Nat → C) (cs : List C) (hw : WF U (.anyOf cs))
    (hd : WellDeclared decl (.anyOf cs)) (a : Attr) (ctx : Ctx) (hi : CtxInv U decl ctx) :
    (∃ ctx', verify U (.anyOf cs) a ctx = some ctx') ↔ ∃ c ∈ cs, ∃ ctx', verify U c a ctx = some ctx' := by
  rw [verify_iff_sat U hU decl _ hw hd a ctx hi]
  simp only [WF] at hw; simp only [WellDeclared] at hd
  constructor
  · rintro ⟨σ, hs, h⟩
    obtain ⟨c, hc, h⟩ := (satAny_iff U σ a cs).1 h
    exact ⟨c, hc, (verify_iff_sat U hU decl c ((WFL_iff U cs).1 hw.2 c hc) ((WDL_iff decl cs).1 hd c hc) a ctx hi).2 ⟨σ, hs, h⟩⟩
  · rintro ⟨c, hc, h⟩
    obtain ⟨σ, hs, h⟩ := (verify_iff_sat U hU decl c ((WFL_iff U cs).1 hw.2 c hc) ((WDL_iff decl cs).1 hd c hc) a ctx hi).1 h
    exact ⟨σ, hs, (satAny_iff U σ a cs).2 ⟨c, hc, h⟩⟩

/-- the context after a successful `AnyOf.verify` is the one produced by one of the alternatives -/
theorem anyOf_result (U : Univ) (cs : List C) (a : Attr) (ctx ctx' : Ctx)
    (h : verify U (.anyOf cs) a ctx = some ctx') : ∃ c ∈ cs, verify U c a ctx = some ctx' := by
  simp only [verify] at h
  cases hk : selectIdx U cs a.cls with
  | none => simp [hk] at h
  | some k => simp only [hk] at h; exact verifyNth_some U a ctx ctx' cs k h

/-- "an intersection [accepts] what all accept": one assignment satisfies every conjunct -/
theorem allOf_sem (U : Univ) (hU : UnivOK U) (decl : Nat → C) (cs : List C) (hw : WF U (.allOf cs))
    (hd : WellDeclared decl (.allOf cs)) (a : Attr) (ctx : Ctx) (hi : CtxInv U decl ctx) :
    (∃ ctx', verify U (.allOf cs) a ctx = some ctx') ↔ ∃ σ, Sub ctx σ ∧ ∀ c ∈ cs, sat U σ c a := by
  rw [verify_iff_sat U hU decl _ hw hd a ctx hi]
  simp only [sat, satAll_iff]

/-- `AllOf.verify` checks the conjuncts in order on the same attribute, threading the context -/
theorem allOf_unfold (U : Univ) (c : C) (cs : List C) (a : Attr) (ctx : Ctx) :
    verify U (.allOf (c :: cs)) a ctx = (verify U c a ctx).bind (fun ctx' => verify U (.allOf cs) a ctx') := by
  simp only [verify, verifyAll]
  cases verify U c a ctx <;> rfl

/-- base constraint: class test only -/
theorem base_sem (U : Univ) (d : Nat) (a : Attr) (ctx : Ctx) :
    verify U (.base d) a ctx = if isSub U a.cls d then some ctx else none := by simp [verify]

/-- equality constraint -/
theorem eq_sem (U : Univ) (b a : Attr) (ctx : Ctx) :
    verify U (.eq b) a ctx = if a = b then some ctx else none := by
  simp only [verify]
  by_cases h : a = b
  · subst h; simp
  · have : a.beq b ≠ true := fun hb => h ((Attr.beq_iff a b).1 hb)
    simp [h, this]

/-- set constraint -/
theorem set_sem (U : Univ) (vs : List Attr) (a : Attr) (ctx : Ctx) :
    verify U (.set vs) a ctx = if a ∈ vs then some ctx else none := by
  simp only [verify]
  by_cases h : a ∈ vs
  · simp [h, (memA_iff a vs).2 h]
  · have : memA a vs ≠ true := fun hb => h ((memA_iff a vs).1 hb)
    simp [h, this]

/-- parametrized constraint: class test, then the parameters one by one (a different number of
parameters is a failure) -/
theorem param_sem (U : Univ) (d : Nat) (ps : List C) (ca : Nat) (as : List Attr) (ctx : Ctx) :
    verify U (.param d ps) (.param ca as) ctx = if isSub U ca d then verifyZip U ps as ctx else none := by
  cases h : isSub U ca d <;> simp [verify, Attr.cls, h]

theorem param_sem_length (U : Univ) : ∀ (ps : List C) (as : List Attr) (ctx ctx' : Ctx),
    verifyZip U ps as ctx = some ctx' → ps.length = as.length
  | [], [], _, _, _ => rfl
  | [], _ :: _, _, _, h => by simp [verifyZip] at h
  | _ :: _, [], _, _, h => by simp [verifyZip] at h
  | p :: ps, a :: as, ctx, ctx', h => by
    simp only [verifyZip] at h
    cases h1 : verify U p a ctx with
    | none => simp [h1] at h
    | some c1 => simp only [h1] at h; simp [param_sem_length U ps as c1 ctx' h]

/-- a variable that is already bound only compares: "all occurrences equal" -/
theorem var_sem_bound (U : Univ) (n : Nat) (c : C) (a v : Attr) (ctx : Ctx) (h : AL.get ctx n = some v) :
    verify U (.var n c) a ctx = if a = v then some ctx else none := by
  simp only [verify, h]
  by_cases e : a = v
  · subst e; simp
  · have : a.beq v ≠ true := fun hb => e ((Attr.beq_iff a v).1 hb)
    simp [e, this]

/-- an unbound variable checks its constraint and binds the name to the attribute -/
theorem var_sem_unbound (U : Univ) (n : Nat) (c : C) (a : Attr) (ctx : Ctx) (h : AL.get ctx n = none) :
    verify U (.var n c) a ctx = (verify U c a ctx).map (fun ctx' => AL.set ctx' n a) := by
  simp only [verify, h]
  cases verify U c a ctx <;> rfl

/-- after any successful occurrence the name is bound to the attribute, so that every later
occurrence (with whatever constraint) accepts exactly that attribute -/
theorem var_sem (U : Univ) (n : Nat) (c : C) (a : Attr) (ctx ctx' : Ctx)
    (h : verify U (.var n c) a ctx = some ctx') :
    AL.get ctx' n = some a ∧
      ∀ c2 b, verify U (.var n c2) b ctx' = if b = a then some ctx' else none := by
  have hb : AL.get ctx' n = some a := by
    cases hg : AL.get ctx n with
    | some v =>
      rw [var_sem_bound U n c a v ctx hg] at h
      split at h
      · rename_i e; cases h; rw [hg, e]
      · cases h
    | none =>
      rw [var_sem_unbound U n c a ctx hg] at h
      cases h1 : verify U c a ctx with
      | none => simp [h1] at h
      | some c1 => simp only [h1, Option.map] at h; cases h; simp [AL.get_set]
  exact ⟨hb, fun c2 b => var_sem_bound U n c2 b a ctx' hb⟩

/-- `get_bases` is sound: an accepted attribute's exact class is one of the bases (this is what
makes the dispatch table of `AnyOf` lossless) -/
theorem bases_sound (U : Univ) (hU : UnivOK U) (decl : Nat → C) (c : C) (hw : WF U c)
    (hd : WellDeclared decl c) (a : Attr) (ctx ctx' : Ctx) (hi : CtxInv U decl ctx)
    (h : verify U c a ctx = some ctx') (b : List Nat) (hb : bases U c = some b) : a.cls ∈ b := by
  obtain ⟨_, _, s, _⟩ := verify_sound U decl c a ctx ctx' h hd hi
  exact bases_sat U hU _ c a b hw s hb

/-! ### non-vacuity -/

/-- 0: a final parameterless type below the abstract class 3; 1: a final two-parameter attribute;
2: a final data attribute; 3: an abstract class -/
def U0 : Univ :=
  [⟨true, true, 0, [3]⟩, ⟨true, true, 2, []⟩, ⟨true, false, 0, []⟩, ⟨false, false, 0, []⟩]

theorem U0_ok : UnivOK U0 := by
  intro c d hf hs
  simp only [isSub, Bool.or_eq_true, beq_iff_eq] at hs
  rcases hs with h | h
  · exact h
  · exfalso
    match c, d with
    | 0, 0 | 0, 1 | 0, 2 | 0, (_ + 4) => simp [U0] at h
    | 0, 3 => simp [isFinal, U0] at hf
    | 1, _ | 2, _ | 3, _ => simp [U0] at h
    | (_ + 4), _ => simp [U0] at h

/-- the union `eq idx | Pair[T, T] | base Abstract` is well-formed ... -/
example : WF U0 (.anyOf [.eq (.data 2 7), .param 1 [.var 0 (.base 3), .var 0 (.base 3)]]) := by
  simp only [WF, WFL, and_true]; decide
/-- ... accepts `Pair(idx, idx)` binding `T`, rejects a pair with different components -/
example : verify U0 (.anyOf [.eq (.data 2 7), .param 1 [.var 0 (.base 3), .var 0 (.base 3)]])
    (.param 1 [.param 0 [], .param 0 []]) [] = some [(0, .param 0 [])] := by decide
example : accepts U0 (.anyOf [.eq (.data 2 7), .param 1 [.var 0 (.base 3), .var 0 (.base 3)]])
    (.param 1 [.param 0 [], .data 2 7]) = false := by decide
/-- a non-disjoint union is refused by the constructor -/
example : checkAnyOf U0 [.eq (.param 0 []), .base 0] = false := by decide
example : checkAnyOf U0 [.base 3, .base 0] = false := by decide

end Xdsl.Constraint
