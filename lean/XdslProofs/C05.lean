import XdslProofs.Lemmas.DeclFormatAcc
/-!
# C05 — custom assembly formats round-trip (declarative-format core)

Property: *printing each operation with its custom (declarative …) assembly format and parsing the
result yields IR equivalent to the original … An operation whose custom form cannot be parsed back,
or parses to a different operation, violates the property.*

The theorems are about `Xdsl.DeclFormat` (`XdslModel/DeclFormat.lean`), the token-level model of
`FormatProgram.print/parse` WITH the C05 repairs.  PARTIAL with respect to the property's sentence:
hand-written `print`/`parse` overrides and custom directives are modelled by nothing; nested optional
groups are not modelled; the aggregate directives `operands`, `type(operands)`, `type(results)`,
`functional-type(…)` are covered at top level (not inside optional groups) for definitions with at
most one optional/variadic operand resp. result (`wfA`; the `SameVariadic…Size` options are not
modelled).

Hypotheses of the round-trip theorems, all explicit:
* `wfD fmt K` — decidable well-formedness of the format against the classes `K` of the token that
  may follow the operation: the side conditions of the format compiler plus look-ahead conditions
  it does not check (`okFollow`, `untaken-conflict`, `okTop`); it implies `fragD` (no aggregate
  directive inside an optional group);
* `wfA D fmt` — an aggregate directive is used only where the flat list determines the segments
  (`create_operands_directive` / `create_results_directive`: "… is ambiguous with multiple variadic …");
  implied by `accD D fmt`, the binding checks of the format compiler;
* `ValidD D op fmt` — the instance has the cardinalities its directives' flavours / the definitions
  promise ("verifies") and is consistent with the optional groups (`GroupCons`: what an untaken branch
  would have printed is empty / default — the op author's verifier obligation);
* `CoversSlots`, `CoversDicts` — every operand/type/region/successor/dictionary entry is reachable
  from the format (what `FormatParser.verify_*` checks; `coversSlots_of_accD`), dictionaries have no
  duplicate keys;
* `clsHd rest ∈ K` — the token after the operation is of a class the format was checked against.
-/
namespace Xdsl.DeclFormat

/-- **C05, token level.** "printing … and parsing the result": parsing the printed tokens, followed by
any admissible continuation, consumes exactly the printed tokens.  (Stage 1; the state reached is
`replayD`, the slot-by-slot copy of the operation.) -/
theorem decl_parse_consumes (D : Defs) (fmt : List Dir) (op : OpInst) (K : List Cls) (rest : List Tok)
    (st : PState) (hwf : wfD fmt K = true) (ha : wfA D fmt = true) (hv : ValidD D op fmt)
    (hK : clsHd rest ∈ K) :
    ∃ st', parseD D fmt (printD D fmt op ++ rest) st = some (st', rest) :=
  ⟨_, parseD_printD D op fmt K rest st hwf (fragD_of_wfD fmt K hwf) ha hv hK⟩

/-- **C05, main theorem.** "printing each operation with its custom (declarative) assembly format and
parsing the result yields IR equivalent to the original": for every well-formed format (optional groups
with anchors and else branches, `operands`, `type(operands)`, `type(results)`, `functional-type(…)` with
the parenthesised single function-typed result included) and every valid, group-consistent instance, `parse ∘ print` succeeds, leaves the continuation untouched and returns
an instance equal to the original in all operand/type/region/successor segments and — modulo
declared defaults — in properties and attributes. -/
theorem decl_roundtrip (D : Defs) (fmt : List Dir) (op : OpInst) (K : List Cls) (rest : List Tok)
    (hwf : wfD fmt K = true) (ha : wfA D fmt = true) (hv : ValidD D op fmt)
    (hslots : CoversSlots D fmt op) (hdicts : CoversDicts D fmt op) (hK : clsHd rest ∈ K) :
    ∃ op', roundtrip D fmt op rest = some (op', rest) ∧ Equiv D op' op := by
  have hfrag := fragD_of_wfD fmt K hwf
  have h1 := parseD_printD D op fmt K rest {} hwf hfrag ha hv hK
  have h2 := build_replayD D op fmt K hwf hfrag hv hslots
  have h3 := dicts_replayD D op fmt K hwf hv hdicts
  refine ⟨{ operands := op.operands, operandTys := op.operandTys, resultTys := op.resultTys,
             regions := op.regions, succs := op.succs,
             props := (replayD D op fmt {}).props, attrs := (replayD D op fmt {}).attrs }, ?_, ?_⟩
  · simp [roundtrip, h1, h2]
  · exact ⟨rfl, rfl, rfl, rfl, rfl, h3.1, h3.2⟩

/-- **C05, main theorem with the format compiler's own checks as hypotheses.**  `accD D fmt` — the
binding checks `FormatParser` performs (every operand/region/successor bound exactly once, every
type bound at most once and bound or inferable, `operands`/`results` only where unambiguous) —
replaces `wfA` and the coverage half of `CoversSlots`; what remains of `CoversSlots` are facts about
the verified instance (`InstOK`: lengths, inferable types are the inferred ones). -/
theorem decl_roundtrip_acc (D : Defs) (fmt : List Dir) (op : OpInst) (K : List Cls) (rest : List Tok)
    (hwf : wfD fmt K = true) (hacc : accD D fmt = true) (hv : ValidD D op fmt)
    (hinst : InstOK D op) (hdicts : CoversDicts D fmt op) (hK : clsHd rest ∈ K) :
    ∃ op', roundtrip D fmt op rest = some (op', rest) ∧ Equiv D op' op :=
  decl_roundtrip D fmt op K rest hwf (wfA_of_accD D fmt hacc) hv (coversSlots_of_accD D fmt op hacc hinst)
    hdicts hK

/-- formats without optional groups -/
def noGroups : List Dir → Bool
  | [] => true
  | .s _ :: ds => noGroups ds
  | .group _ _ _ _ :: _ => false

/-- instance conditions of a group-free format: only the cardinalities -/
theorem validD_of_noGroups (D : Defs) (op : OpInst) (fmt : List Dir) (hn : noGroups fmt = true)
    (h : ∀ d, Dir.s d ∈ fmt → okInstAll D op d) : ValidD D op fmt := by
  induction fmt with
  | nil => trivial
  | cons x xs ih =>
    cases x with
    | s d => exact ⟨h d (List.mem_cons_self ..), ih hn (fun d hd => h d (List.mem_cons_of_mem _ hd))⟩
    | group a f r e => simp [noGroups] at hn

/-- **C05, first stage (`…_partial`: no optional groups).**  Without optional groups the consistency
hypothesis disappears: cardinalities alone suffice.  Full statement: `decl_roundtrip`. -/
theorem decl_roundtrip_partial (D : Defs) (fmt : List Dir) (op : OpInst) (K : List Cls) (rest : List Tok)
    (hwf : wfD fmt K = true) (ha : wfA D fmt = true) (hn : noGroups fmt = true)
    (hinst : ∀ d, Dir.s d ∈ fmt → okInstAll D op d)
    (hslots : CoversSlots D fmt op) (hdicts : CoversDicts D fmt op) (hK : clsHd rest ∈ K) :
    ∃ op', roundtrip D fmt op rest = some (op', rest) ∧ Equiv D op' op :=
  decl_roundtrip D fmt op K rest hwf ha (validD_of_noGroups D op fmt hn hinst) hslots hdicts hK

/-- "parses to a different operation" never happens silently on the structural part: whatever the
parsing state holds in an operand/type/region/successor slot is the operation's own list. -/
theorem decl_slots_agree (D : Defs) (fmt : List Dir) (op : OpInst) (fam : Fam)
    (hfrag : fragD fmt = true) (hv : ValidD D op fmt) : AgreeF fam op (replayD D op fmt {}) :=
  agreeF_replayD D op fmt {} fam hfrag hv (agreeF_init fam op)

/-! ## non-vacuity: a format with a variadic operand, an optional group with else branch, a
default-valued property, a unit property and an attr-dict -/

/-- `$xs `:` type($xs) (`to` $y^ `:` type($y)) : (`absent`)? (`fast` $u^)? `p` $p attr-dict` -/
def exFmt : List Dir :=
  [ .s (.operand 0 .var), .s (.punct ":"), .s (.operandTy 0 .var),
    .group (.operand 1 .opt) (.kw "to") [.operand 1 .opt, .punct ":", .operandTy 1 .opt] [.kw "absent"],
    .group (.unitAttr "u" true 9) (.kw "fast") [.unitAttr "u" true 9] [],
    .s (.kw "p"), .s (.attr "p" true false (some 5)),
    .s (.attrDict false ["operandSegmentSizes"] []) ]

def exDefs : Defs :=
  { operandKinds := [.var, .opt], operandFixed := [none, none], propDefaults := [("p", 5)] }

def exOp : OpInst :=
  { operands := [[1, 2], [3]], operandTys := [[7, 7], [8]], props := [("p", 5), ("u", 9)], attrs := [("x", 4)] }

def exOp2 : OpInst :=
  { operands := [[], []], operandTys := [[], []], props := [("p", 6)], attrs := [] }

example : wfD exFmt [.punct "}"] = true := by decide
example : fragD exFmt = true := by decide

example : printD exDefs exFmt exOp =
    [.val 1, .punct ",", .val 2, .punct ":", .ty 7, .punct ",", .ty 7, .kw "to", .val 3, .punct ":", .ty 8,
     .kw "fast", .kw "p", .attr 5, .dict [("x", 4)]] := by decide

example : roundtrip exDefs exFmt exOp [.punct "}"] = some (exOp, [.punct "}"]) := by decide

example : printD exDefs exFmt exOp2 = [.punct ":", .kw "absent", .kw "p", .attr 6] := by decide

example : roundtrip exDefs exFmt exOp2 [.punct "}"] = some (exOp2, [.punct "}"]) := by decide

example : ValidD exDefs exOp exFmt := by
  simp [ValidD, exFmt, exOp, okInstAll, okInst, tysMatch, GroupCons, presentS, seg, emptyS, unitSet, dictGet]

example : CoversSlots exDefs exFmt exOp := by
  refine ⟨rfl, rfl, rfl, rfl, rfl, ?_, ?_, ?_, ?_, ?_, ?_⟩
  · intro i hi
    have : i = 0 ∨ i = 1 := by simp [exDefs] at hi; omega
    rcases this with rfl | rfl <;> decide
  · intro i hi
    have : i = 0 ∨ i = 1 := by simp [exDefs] at hi; omega
    rcases this with rfl | rfl <;> decide
  · intro i hi
    have : i = 0 ∨ i = 1 := by simp [exDefs] at hi; omega
    rcases this with rfl | rfl <;> exact Or.inl (by decide)
  · intro i hi; simp [exDefs] at hi
  · intro i hi; simp [exDefs] at hi
  · intro i hi; simp [exDefs] at hi

example : CoversDicts exDefs exFmt exOp := by
  refine ⟨by decide, by decide, ?_, ?_⟩
  · intro d hd
    simp [allS, exFmt] at hd
    rcases hd with rfl | rfl | rfl | rfl | rfl | rfl | rfl | rfl | rfl | rfl | rfl | rfl | rfl <;> simp [attrDictDisj]
  · intro isProp n v hg hnd
    cases isProp with
    | true =>
      simp only [dictGet, exOp, if_true, AL.get] at hg
      by_cases h1 : "p" = n
      · subst h1
        exact ⟨.attr "p" true false (some 5), by simp [allS, exFmt], by decide⟩
      · by_cases h2 : "u" = n
        · subst h2
          exact ⟨.unitAttr "u" true 9, by simp [allS, exFmt], by decide⟩
        · simp [h1, h2] at hg
    | false =>
      simp only [dictGet, exOp, Bool.false_eq_true, if_false, AL.get] at hg
      by_cases h1 : "x" = n
      · subst h1
        exact ⟨.attrDict false ["operandSegmentSizes"] [], by simp [allS, exFmt], by decide⟩
      · simp [h1] at hg

/-- the main theorem instantiated on the example (all hypotheses are jointly satisfiable) -/
example (hv : ValidD exDefs exOp exFmt) (hs : CoversSlots exDefs exFmt exOp) (hd : CoversDicts exDefs exFmt exOp) :
    ∃ op', roundtrip exDefs exFmt exOp [.punct "}"] = some (op', [.punct "}"]) ∧ Equiv exDefs op' exOp :=
  decl_roundtrip exDefs exFmt exOp [.punct "}"] [.punct "}"] (by decide) (by decide) hv hs hd (by simp [clsHd, clsOf])

/-! ## non-vacuity for the aggregate directives -/

/-- `operands attr-dict `:` functional-type(operands, results)` (tosa/emitc style) over a definition
with operands `(single, variadic)` and one result -/
def aggFmt : List Dir :=
  [ .s .operandsAll, .s (.attrDict false [] []), .s (.punct ":"), .s (.funcTy .operands .results) ]

def aggDefs : Defs :=
  { operandKinds := [.single, .var], operandFixed := [none, none], resultKinds := [.single],
    resultFixed := [none], funcTys := [9] }

/-- the single result has the function type `9`: printed in parentheses -/
def aggOp : OpInst :=
  { operands := [[1], [2, 3]], operandTys := [[7], [8, 8]], resultTys := [[9]], attrs := [("x", 4)] }

def aggOp2 : OpInst := { operands := [[1], []], operandTys := [[7], []], resultTys := [[6]] }

example : wfD aggFmt [.punct "}"] = true := by decide
example : accD aggDefs aggFmt = true := by decide
example : wfA aggDefs aggFmt = true := by decide

example : printD aggDefs aggFmt aggOp =
    [.val 1, .punct ",", .val 2, .punct ",", .val 3, .dict [("x", 4)], .punct ":", .punct "(", .ty 7,
     .punct ",", .ty 8, .punct ",", .ty 8, .punct ")", .punct "->", .punct "(", .ty 9, .punct ")"] := by decide

example : printD aggDefs aggFmt aggOp2 =
    [.val 1, .punct ":", .punct "(", .ty 7, .punct ")", .punct "->", .ty 6] := by decide

example : roundtrip aggDefs aggFmt aggOp [.punct "}"] = some (aggOp, [.punct "}"]) := by decide
example : roundtrip aggDefs aggFmt aggOp2 [.punct "}"] = some (aggOp2, [.punct "}"]) := by decide

example : ValidD aggDefs aggOp aggFmt := by
  simp [ValidD, aggFmt, aggOp, aggDefs, okInstAll, okInst, okTy, tysMatch, fits, fitsK]

example : InstOK aggDefs aggOp := by
  refine ⟨rfl, rfl, rfl, rfl, rfl, ?_, ?_, ?_⟩
  · intro i hi
    have : i = 0 ∨ i = 1 := by simp [aggDefs] at hi; omega
    rcases this with rfl | rfl <;> decide
  · intro i t hi ht
    have : i = 0 ∨ i = 1 := by simp [aggDefs] at hi; omega
    rcases this with rfl | rfl <;> simp [aggDefs] at ht
  · intro i t hi ht
    have : i = 0 := by simp [aggDefs] at hi; omega
    subst this; simp [aggDefs] at ht

/-- `$a `,` $b attr-dict `:` type(operands) `->` type(results)` with optional `b` and variadic results -/
def aggFmt2 : List Dir :=
  [ .s (.operand 0 .single), .s (.kw "and"), .s (.operand 1 .opt), .s (.attrDict false [] []), .s (.punct ":"),
    .s .operandTysAll, .s (.punct "->"), .s .resultTysAll ]

def aggDefs2 : Defs :=
  { operandKinds := [.single, .opt], operandFixed := [none, none], resultKinds := [.var], resultFixed := [none] }

example : wfD aggFmt2 [.punct "}"] = true ∧ accD aggDefs2 aggFmt2 = true := by decide

example : roundtrip aggDefs2 aggFmt2 { operands := [[1], []], operandTys := [[7], []], resultTys := [[]] } [.punct "}"] =
    some ({ operands := [[1], []], operandTys := [[7], []], resultTys := [[]] }, [.punct "}"]) := by decide

example : roundtrip aggDefs2 aggFmt2 { operands := [[1], [2]], operandTys := [[7], [8]], resultTys := [[5, 6]] }
    [.punct "}"] =
    some ({ operands := [[1], [2]], operandTys := [[7], [8]], resultTys := [[5, 6]] }, [.punct "}"]) := by decide

/-- the side condition `wfA` is needed: with two variadic operand definitions (and no same-size option)
the flat `operands` list does not determine the segments; the format compiler refuses the format
("'operands' is ambiguous with multiple variadic operands") and so do `accD` / `wfA`. -/
theorem operands_ambiguous_counterexample :
    let D : Defs := { operandKinds := [.var, .var], operandFixed := [some 1, some 1] }
    let fmt : List Dir := [.s .operandsAll, .s (.attrDict false [] [])]
    let op : OpInst := { operands := [[4], []], operandTys := [[1], []] }
    wfD fmt [.punct "}"] = true ∧ wfA D fmt = false ∧ accD D fmt = false ∧
    roundtrip D fmt op [.punct "}"] = none := by decide

/-- the repaired parenthesisation is needed: printing a single function-typed result WITHOUT parentheses
(the pinned code before the repair) gives a token stream in which `parse_optional_punctuation("(")`
tears the opaque type token apart; at token level the unparenthesised stream is parsed with the result
type taken as is, but the real text `(i32) -> (i32) -> i64` is read as result type `i32` followed by
garbage.  The model prints the parentheses (`aggOp` above). -/
example : (printS aggDefs aggOp (.funcTy .operands .results)).drop 8 = [.punct "(", .ty 9, .punct ")"] := by decide

/-! ## the side conditions are needed: formats the xDSL format compiler accepts but `wfD` rejects -/

/-- **repaired (optional attribute variable with a unique base / fixed type).**  `` `p` $p `z` attr-dict ``
and `` `p` ($p^ `z`)? attr-dict-with-keyword `` with `p` an optional property without default: the absent property
prints nothing and the parser reports absence, the present one is read back.  Before the repair
`UniqueBase/TypedAttributeVariable.parse_attr` ignored `is_optional` (the model had a separate
`optParse` flag, `wfD` rejected these formats through `okShape`, and the absent case was the
counterexample `roundtrip = none`).  Now every attribute variable is parsed optionally exactly when
it is optional, `wfD` accepts both formats and `decl_roundtrip` covers them. -/
theorem typed_optional_roundtrip :
    let top : List Dir := [.s (.kw "p"), .s (.attr "p" true true none), .s (.kw "z"), .s (.attrDict false [] [])]
    let first : List Dir := [.s (.kw "p"), .group (.attr "p" true true none) (.attr "p" true true none) [.kw "z"] [],
                             .s (.attrDict true [] [])]
    let present : OpInst := { props := [("p", 3)] }
    wfD top [.punct "}"] = true ∧ fragD top = true ∧
    roundtrip {} top {} [.punct "}"] = some ({}, [.punct "}"]) ∧
    roundtrip {} top present [.punct "}"] = some (present, [.punct "}"]) ∧
    wfD first [.punct "}"] = true ∧ fragD first = true ∧
    roundtrip {} first {} [.punct "}"] = some ({}, [.punct "}"]) ∧
    roundtrip {} first present [.punct "}"] = some (present, [.punct "}"]) := by decide

/-- a unit-attribute variable outside an optional group (accepted by the format compiler) always sets
the attribute: the re-parsed operation differs.  `wfD` rejects it (`okTop`). -/
theorem unit_top_level_counterexample :
    let fmt : List Dir := [.s (.unitAttr "u" true 9), .s (.attrDict false [] [])]
    wfD fmt [.punct "}"] = false ∧
    (roundtrip {} fmt {} [.punct "}"]).map (fun r => r.1.props) = some [("u", 9)] := by decide

/-- an optional group that is followed by a token its first element would take: `($a^)? $b` with two
operands (accepted by the format compiler, which only compares adjacent *top-level* operand
directives).  With `a` absent the parser gives `b`'s operand to `a`. -/
theorem untaken_conflict_counterexample :
    let fmt : List Dir := [.group (.operand 0 .opt) (.operand 0 .opt) [] [], .s (.operand 1 .single),
                           .s (.attrDict false [] [])]
    let D : Defs := { operandKinds := [.opt, .single], operandFixed := [some 1, some 1] }
    let op : OpInst := { operands := [[], [4]], operandTys := [[], [1]] }
    wfD fmt [.punct "}"] = false ∧ roundtrip D fmt op [.punct "}"] = none := by decide

/-- group consistency is needed: `(`k` $a^ `:` $b)?` with `a` absent but `b` present loses `b`
(the printer skips the whole group) although the format is well-formed. -/
theorem inconsistent_group_counterexample :
    let fmt : List Dir := [.group (.operand 0 .opt) (.kw "k") [.operand 0 .opt, .punct ":", .operand 1 .opt] [],
                           .s (.attrDict false [] [])]
    let D : Defs := { operandKinds := [.opt, .opt], operandFixed := [some 1, some 1] }
    let op : OpInst := { operands := [[], [4]], operandTys := [[], [1]] }
    wfD fmt [.punct "}"] = true ∧
    (roundtrip D fmt op [.punct "}"]).map (fun r => r.1.operands) = some [[], []] := by decide

end Xdsl.DeclFormat
