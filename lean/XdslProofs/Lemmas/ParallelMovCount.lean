import XdslProofs.Lemmas.ParallelMovStage1
/-!
Lemmas for C20: the first loop (`stage0`) establishes the invariant; and the counting argument that
turns the end-of-tree-stage invariant into the structure of the remaining (cyclic) part of the graph:
every unprocessed node has exactly one unprocessed child, and its parent is unprocessed too.
-/
namespace Xdsl.ParallelMov

open Env

variable {n : Nat}

/-! ### first loop -/

theorem enum_map_snd (l : List Move) : (enum l).map (·.2) = l := by
  unfold enum
  rw [List.map_map]
  exact List.zipIdx_map_fst 0 l

theorem IsMove_rd_zero {i : Instr} {s : Reg} (hi : IsMove i Reg.zero s) (ρ : RegFile n) (r : Reg) :
    rd (step ρ i) r = rd ρ r := by
  rw [hi, rd_wr_zero]

theorem stage0_spec (e : Env) (ρ₀ : RegFile n) :
    ∀ (l : List (Nat × Move)) (st : St) (c : Cnt) (st' : St) (c' : Cnt),
      (∀ p ∈ l, p.1 < st.results.length) →
      stage0 e l st c = .ok (st', c') →
      (∀ r, rd (exec st'.ops ρ₀) r = rd (exec st.ops ρ₀) r)
      ∧ st'.results.length = st.results.length
      ∧ (∀ j, (st'.results.getD j none).isSome ↔
          ((st.results.getD j none).isSome ∨ ∃ m, (j, m) ∈ l ∧ (m.src = m.dst ∨ m.dst = Reg.zero)))
      ∧ (∀ s, c'.val s = c.val s + ((l.map (·.2)).countP (fun m => isEdge m && m.src = s) : Nat)) := by
  intro l
  induction l with
  | nil =>
    intro st c st' c' _ h
    simp only [stage0, Except.ok.injEq, Prod.mk.injEq] at h
    obtain ⟨rfl, rfl⟩ := h
    exact ⟨fun _ => rfl, rfl, fun j => by simp, fun s => by simp⟩
  | cons p rest ih =>
    obtain ⟨i, m⟩ := p
    intro st c st' c' hlt h
    have hi : i < st.results.length := hlt (i, m) List.mem_cons_self
    unfold stage0 at h
    by_cases hself : m.src = m.dst
    · rw [if_pos hself] at h
      have hne : isEdge m = false := by simp [isEdge, hself]
      obtain ⟨h1, h2, h3, h4⟩ := ih (setResult st i ⟨.src, m.src⟩) c st' c'
        (fun p hp => by
          show p.1 < (st.results.set i _).length
          rw [List.length_set]; exact hlt p (List.mem_cons_of_mem _ hp)) h
      refine ⟨h1, ?_, ?_, ?_⟩
      · rw [h2]; show (st.results.set i _).length = _; rw [List.length_set]
      · intro j
        rw [h3 j]
        show ((st.results.set i _).getD j none).isSome = true ∨ _ ↔ _
        rw [getD_set_isSome hi, Bool.or_eq_true, decide_eq_true_eq]
        constructor
        · rintro ((rfl | h) | ⟨m', hm', hc⟩)
          · exact Or.inr ⟨m, List.mem_cons_self, Or.inl hself⟩
          · exact Or.inl h
          · exact Or.inr ⟨m', List.mem_cons_of_mem _ hm', hc⟩
        · rintro (h | ⟨m', hm', hc⟩)
          · exact Or.inl (Or.inr h)
          · rcases List.mem_cons.mp hm' with h | h
            · cases h; exact Or.inl (Or.inl rfl)
            · exact Or.inr ⟨m', h, hc⟩
      · intro s
        rw [h4 s]
        simp [List.countP_cons, hne]
    · rw [if_neg hself] at h
      by_cases hz : m.dst = Reg.zero
      · rw [if_pos hz] at h
        have hne : isEdge m = false := by simp [isEdge, hz]
        cases hem : emitMv st ⟨.src, m.src⟩ m.dst m.w with
        | error x => rw [hem] at h; cases h
        | ok r =>
          obtain ⟨st1, v⟩ := r
          rw [hem] at h
          simp only at h
          obtain ⟨hres, ins, hops, hmv⟩ := emitMv_ok hem
          obtain ⟨h1, h2, h3, h4⟩ := ih (setResult st1 i v) c st' c'
            (fun p hp => by
              show p.1 < (st1.results.set i _).length
              rw [List.length_set, hres]; exact hlt p (List.mem_cons_of_mem _ hp)) h
          refine ⟨?_, ?_, ?_, ?_⟩
          · intro r
            rw [h1 r]
            show rd (exec st1.ops ρ₀) r = _
            rw [hops, exec_snoc]
            rw [hz] at hmv
            exact IsMove_rd_zero hmv _ r
          · rw [h2]; show (st1.results.set i _).length = _; rw [List.length_set, hres]
          · intro j
            rw [h3 j]
            show ((st1.results.set i _).getD j none).isSome = true ∨ _ ↔ _
            rw [hres, getD_set_isSome hi, Bool.or_eq_true, decide_eq_true_eq]
            constructor
            · rintro ((rfl | h) | ⟨m', hm', hc⟩)
              · exact Or.inr ⟨m, List.mem_cons_self, Or.inr hz⟩
              · exact Or.inl h
              · exact Or.inr ⟨m', List.mem_cons_of_mem _ hm', hc⟩
            · rintro (h | ⟨m', hm', hc⟩)
              · exact Or.inl (Or.inr h)
              · rcases List.mem_cons.mp hm' with h | h
                · cases h; exact Or.inl (Or.inl rfl)
                · exact Or.inr ⟨m', h, hc⟩
          · intro s
            rw [h4 s]
            simp [List.countP_cons, hne]
      · rw [if_neg hz] at h
        have hedge : isEdge m = true := by rw [isEdge_iff]; exact ⟨hself, hz⟩
        obtain ⟨h1, h2, h3, h4⟩ := ih st (AL.set c m.src (c.val m.src + 1)) st' c'
          (fun p hp => hlt p (List.mem_cons_of_mem _ hp)) h
        refine ⟨h1, h2, ?_, ?_⟩
        · intro j
          rw [h3 j]
          constructor
          · rintro (h | ⟨m', hm', hc⟩)
            · exact Or.inl h
            · exact Or.inr ⟨m', List.mem_cons_of_mem _ hm', hc⟩
          · rintro (h | ⟨m', hm', hc⟩)
            · exact Or.inl h
            · rcases List.mem_cons.mp hm' with h | h
              · cases h
                rcases hc with hc | hc
                · exact absurd hc hself
                · exact absurd hc hz
              · exact Or.inr ⟨m', h, hc⟩
        · intro s
          rw [h4 s, Cnt.val_set]
          simp only [List.map_cons, List.countP_cons, hedge, Bool.true_and, decide_eq_true_eq]
          by_cases hs : s = m.src
          · subst hs; simp; omega
          · have : ¬ m.src = s := fun e => hs e.symm
            simp [hs, this]

/-- After the first loop the invariant holds with nothing processed, and the counters are the
out-degrees. -/
theorem stage0_inv {e : Env} (ρ₀ : RegFile n) {st : St} {c : Cnt}
    (h : stage0 e (enum e.moves) { results := e.moves.map fun _ => none } [] = .ok (st, c)) :
    Inv e ρ₀ [] st ∧ ∀ s, c.val s = (cnt e [] s : Int) := by
  obtain ⟨h1, h2, h3, h4⟩ := stage0_spec e ρ₀ (enum e.moves) _ [] st c
    (fun p hp => by
      obtain ⟨i, m⟩ := p
      rw [mem_enum] at hp
      simp only [List.length_map]
      exact (List.getElem?_eq_some_iff.mp hp).1) h
  refine ⟨⟨?_, ?_, ?_, ?_, ?_, ?_⟩, ?_⟩
  · intro d hd; simp at hd
  · intro d hd; simp at hd
  · intro r _ _; rw [h1 r]; rfl
  · intro d hd; simp at hd
  · rw [h2]; simp
  · intro i m hm
    rw [h3 i]
    have : ((List.map (fun _ => (none : Option Val)) e.moves).getD i none).isSome = false := by
      rw [List.getD_eq_getElem?_getD]
      simp only [List.getElem?_map]
      cases e.moves[i]? <;> rfl
    simp only [this, Bool.false_eq_true, false_or, List.not_mem_nil, or_false]
    constructor
    · rintro ⟨m', hm', hc⟩
      rw [mem_enum, hm] at hm'
      cases hm'
      exact hc
    · intro hc
      exact ⟨m, mem_enum.mpr hm, hc⟩
  · intro s
    rw [h4 s, enum_map_snd]
    simp [Cnt.val, cnt]

/-! ### counting -/

theorem sum_map_add (K : List Reg) (f g : Reg → Nat) :
    (K.map fun x => f x + g x).sum = (K.map f).sum + (K.map g).sum := by
  induction K with
  | nil => rfl
  | cons k t ih => simp only [List.map_cons, List.sum_cons, ih]; omega

theorem sum_map_zero (K : List Reg) : (K.map fun _ => (0 : Nat)).sum = 0 := by
  induction K with
  | nil => rfl
  | cons k t ih => simp only [List.map_cons, List.sum_cons, ih]

theorem sum_indicator_le_one {K : List Reg} (hK : K.Nodup) (a : Reg) :
    (K.map fun x => if a = x then 1 else 0).sum ≤ 1 := by
  induction K with
  | nil => simp
  | cons k t ih =>
    rw [List.nodup_cons] at hK
    simp only [List.map_cons, List.sum_cons]
    by_cases h : a = k
    · subst h
      have : (t.map fun x => if a = x then 1 else 0) = t.map fun _ => 0 := by
        apply List.map_congr_left
        intro y hy
        have : ¬ a = y := fun e => hK.1 (e ▸ hy)
        simp [this]
      rw [this, sum_map_zero]
      simp
    · have := ih hK.2
      simp only [h, if_false]
      omega

/-- Each unprocessed edge has one source: summing the unprocessed out-degrees over a duplicate-free
list of registers cannot exceed the number of unprocessed edges. -/
theorem sum_cnt_le {K : List Reg} (hK : K.Nodup) (P : List Reg) (l : List Move) :
    (K.map fun x => l.countP fun m => isEdge m && m.src = x && !P.contains m.dst).sum
      ≤ l.countP fun m => isEdge m && !P.contains m.dst := by
  induction l with
  | nil => simp [sum_map_zero]
  | cons m t ih =>
    simp only [List.countP_cons]
    rw [sum_map_add]
    have : (K.map fun x => if (isEdge m && decide (m.src = x) && !P.contains m.dst) = true then 1 else 0).sum
        ≤ if (isEdge m && !P.contains m.dst) = true then 1 else 0 := by
      by_cases hc : (isEdge m && !P.contains m.dst) = true
      · rw [if_pos hc]
        simp only [Bool.and_eq_true] at hc
        have : (K.map fun x => if (isEdge m && decide (m.src = x) && !P.contains m.dst) = true then 1 else 0)
            = K.map fun x => if m.src = x then 1 else 0 := by
          apply List.map_congr_left
          intro x _
          have h2 : m.dst ∉ P := by simpa using hc.2
          by_cases hx : m.src = x <;> simp [hc.1, h2, hx]
        rw [this]
        exact sum_indicator_le_one hK _
      · rw [if_neg hc]
        have : (K.map fun x => if (isEdge m && decide (m.src = x) && !P.contains m.dst) = true then 1 else 0)
            = K.map fun _ => 0 := by
          apply List.map_congr_left
          intro x _
          have : ¬ (isEdge m && decide (m.src = x) && !P.contains m.dst) = true := by
            intro h
            apply hc
            simp only [Bool.and_eq_true] at h ⊢
            exact ⟨h.1.1, h.2⟩
          rw [if_neg this]
        rw [this, sum_map_zero]
        exact Nat.zero_le _
    omega

theorem sum_ge_length {L : List Reg} {f : Reg → Nat} (h : ∀ x ∈ L, 1 ≤ f x) :
    L.length ≤ (L.map f).sum := by
  induction L with
  | nil => simp
  | cons a t ih =>
    simp only [List.map_cons, List.sum_cons, List.length_cons]
    have := ih fun x hx => h x (List.mem_cons_of_mem _ hx)
    have := h a List.mem_cons_self
    omega

theorem all_one_of_sum_le {L : List Reg} {f : Reg → Nat} (h : ∀ x ∈ L, 1 ≤ f x)
    (hs : (L.map f).sum ≤ L.length) : ∀ x ∈ L, f x = 1 := by
  induction L with
  | nil => intro x hx; simp at hx
  | cons a t ih =>
    simp only [List.map_cons, List.sum_cons, List.length_cons] at hs
    have ht := sum_ge_length fun x hx => h x (List.mem_cons_of_mem _ hx)
    have ha := h a List.mem_cons_self
    intro x hx
    rcases List.mem_cons.mp hx with rfl | hx
    · omega
    · exact ih (fun x hx => h x (List.mem_cons_of_mem _ hx)) (by omega) x hx

/-- the unprocessed edges and their destinations -/
def unprocessed (e : Env) (P : List Reg) : List Reg :=
  (e.moves.filter fun m => isEdge m && !P.contains m.dst).map (·.dst)

theorem mem_unprocessed {e : Env} {P : List Reg} {x : Reg} :
    x ∈ unprocessed e P ↔ (∃ s, Edge e s x) ∧ x ∉ P := by
  unfold unprocessed
  simp only [List.mem_map, List.mem_filter, Bool.and_eq_true, Bool.not_eq_true',
    List.contains_eq_mem, decide_eq_false_iff_not]
  constructor
  · rintro ⟨m, ⟨hm, he, hp⟩, rfl⟩
    rw [isEdge_iff] at he
    exact ⟨⟨m.src, m, hm, rfl, rfl, he.1, he.2⟩, hp⟩
  · rintro ⟨⟨s, m, hm, hs, hd, hne, hz⟩, hp⟩
    refine ⟨m, ⟨hm, ?_, by rw [hd]; exact hp⟩, hd⟩
    rw [isEdge_iff, hs, hd]; exact ⟨hne, hz⟩

theorem unprocessed_nodup {e : Env} (w : WF e) (P : List Reg) : (unprocessed e P).Nodup := by
  unfold unprocessed List.Nodup
  rw [List.pairwise_map]
  have := w.dstDistinct.filter (fun m => isEdge m && !P.contains m.dst)
  refine this.imp_of_mem ?_
  intro a b ha _ hR hab
  have hz := hR hab
  simp only [List.mem_filter, Bool.and_eq_true] at ha
  have := (isEdge_iff a).mp ha.2.1
  exact this.2 hz

theorem unprocessed_length (e : Env) (P : List Reg) :
    (unprocessed e P).length = e.moves.countP fun m => isEdge m && !P.contains m.dst := by
  unfold unprocessed
  rw [List.length_map, List.countP_eq_length_filter]

/-- **Structure of what the tree stage leaves behind.**  If every unprocessed node still has an
unprocessed child, then no register has more than one unprocessed child, and the parent of an
unprocessed node is itself the destination of an edge (and unprocessed): the rest is a disjoint union
of cycles. -/
theorem cycle_structure {e : Env} (w : WF e) {P : List Reg}
    (hpend : ∀ x, (∃ s, Edge e s x) → x ∉ P → cnt e P x ≠ 0) :
    (∀ y y' p, y ∉ P → y' ∉ P → Edge e p y → Edge e p y' → y = y')
    ∧ (∀ y p, y ∉ P → Edge e p y → ∃ q, Edge e q p) := by
  have hge : ∀ x ∈ unprocessed e P, 1 ≤ cnt e P x := by
    intro x hx
    rw [mem_unprocessed] at hx
    have := hpend x hx.1 hx.2
    omega
  have hsumle : ((unprocessed e P).map (cnt e P)).sum ≤ (unprocessed e P).length := by
    rw [unprocessed_length]
    exact sum_cnt_le (unprocessed_nodup w P) P e.moves
  have hone := all_one_of_sum_le hge hsumle
  have hle1 : ∀ s, cnt e P s ≤ 1 := by
    intro s
    by_cases hs : s ∈ unprocessed e P
    · rw [hone s hs]; exact Nat.le_refl _
    · have hnd : (s :: unprocessed e P).Nodup := List.nodup_cons.mpr ⟨hs, unprocessed_nodup w P⟩
      have h1 := sum_cnt_le hnd P e.moves
      have h2 := sum_ge_length hge
      rw [← unprocessed_length] at h1
      simp only [List.map_cons, List.sum_cons] at h1
      have : cnt e P s = 0 := by
        unfold cnt at *
        omega
      omega
  have hzero : ∀ s, s ∉ unprocessed e P → cnt e P s = 0 := by
    intro s hs
    have hnd : (s :: unprocessed e P).Nodup := List.nodup_cons.mpr ⟨hs, unprocessed_nodup w P⟩
    have h1 := sum_cnt_le hnd P e.moves
    have h2 := sum_ge_length hge
    rw [← unprocessed_length] at h1
    simp only [List.map_cons, List.sum_cons] at h1
    unfold cnt at *
    omega
  constructor
  · intro y y' p hy hy' hE hE'
    by_cases hyy : y = y'
    · exact hyy
    · have h1 := cnt_add w hE hy p
      have hy'2 : y' ∉ y :: P := by
        intro h
        rcases List.mem_cons.mp h with h | h
        · exact hyy h.symm
        · exact hy' h
      have h2 := cnt_add w hE' hy'2 p
      have := hle1 p
      simp only [if_true] at h1 h2
      omega
  · intro y p hy hE
    have hpos : 0 < cnt e P p := cnt_pos_iff.mpr ⟨y, hE, hy⟩
    by_cases hp : p ∈ unprocessed e P
    · exact (mem_unprocessed.mp hp).1
    · have := hzero p hp
      omega

end Xdsl.ParallelMov
