import XdslProofs.Lemmas.DeclGeneric
/-!
C05, generic form: a lawful codec exists (the hypothesis `CodecOK` of `decl_generic_agree` is
satisfiable): keys and size arrays are numbered through an injection of their spelling.
-/
namespace Xdsl.DeclGeneric
open Xdsl.DeclFormat

def encL : List Char → Nat
  | [] => 0
  | c :: l => (c.toNat + 1) + 4294967297 * encL l

def decL : Nat → Nat → List Char
  | 0, _ => []
  | f + 1, n => if n = 0 then [] else Char.ofNat (n % 4294967297 - 1) :: decL f (n / 4294967297)

theorem char_lt (c : Char) : c.toNat < 4294967296 := by
  have h : c.val.toNat < 2 ^ 32 := c.val.toNat_lt
  have e : c.toNat = c.val.toNat := rfl
  rw [e]
  have : (2:Nat) ^ 32 = 4294967296 := by decide
  omega

theorem decL_encL (l : List Char) : ∀ f, encL l ≤ f → decL f (encL l) = l := by
  induction l with
  | nil => intro f _; cases f <;> simp [encL, decL]
  | cons c l ih =>
    intro f hf
    have hc := char_lt c
    simp only [encL] at hf ⊢
    cases f with
    | zero => omega
    | succ f =>
      have h1 : (c.toNat + 1 + 4294967297 * encL l) % 4294967297 = c.toNat + 1 := by omega
      have h2 : (c.toNat + 1 + 4294967297 * encL l) / 4294967297 = encL l := by omega
      have h3 : ¬ (c.toNat + 1 + 4294967297 * encL l = 0) := by omega
      simp only [decL, h3, if_false, h1, h2, Nat.add_sub_cancel, Char.ofNat_toNat]
      rw [ih f (by omega)]

/-- sizes in unary: `n` ↦ `a…a b` -/
def unary : List Nat → List Char
  | [] => []
  | n :: l => List.replicate n 'a' ++ 'b' :: unary l

def cnt : List Char → Nat → List Nat
  | [], _ => []
  | c :: r, acc => if c = 'b' then acc :: cnt r 0 else cnt r (acc + 1)

theorem cnt_run (n acc : Nat) (rest : List Char) :
    cnt (List.replicate n 'a' ++ 'b' :: rest) acc = (acc + n) :: cnt rest 0 := by
  induction n generalizing acc with
  | zero => simp [cnt]
  | succ n ih =>
    have : ¬ ('a' = 'b') := by decide
    simp only [List.replicate_succ, List.cons_append, cnt, this, if_false, ih]
    congr 1; omega

theorem cnt_unary (l : List Nat) : cnt (unary l) 0 = l := by
  induction l with
  | nil => rfl
  | cons n l ih => simp [unary, cnt_run, ih]

def exRegion (n : Nat) : NTree :=
  if n = 0 then .nil else .block none [] (.op ⟨[], n, [], [], [], [], [], []⟩ .nil .nil) .nil

/-- values `%v…v`, blocks `^b…b`, keys and size arrays numbered through an injection of their
spelling, type `n` ↦ group `3n` (function type iff `n ∈ fn`), attribute `n` ↦ group `3n+1`
(`0`: `UnitAttr`) -/
def exCodec (fn : List Nat) : Codec :=
  { nv := fun n => List.replicate (n + 1) 'v'
    vn := fun s => s.length - 1
    nb := fun n => List.replicate (n + 1) 'b'
    bn := fun s => s.length - 1
    key := fun s => ⟨encL s.toList, true⟩
    name := fun i => String.ofList (decL i i)
    ty := fun n => ⟨3 * n, fn.contains n⟩
    tyId := fun a => a.id / 3
    av := fun n => if n = 0 then none else some ⟨3 * n + 1, false⟩
    avId := fun a => match a with | none => 0 | some a => a.id / 3
    sizes := fun l => ⟨3 * encL (unary l) + 2, false⟩
    sizesOf := fun a => if a.id % 3 = 2 then some (cnt (decL (a.id / 3) (a.id / 3)) 0) else none
    region := exRegion
    regionId := fun t => match t with | .block _ _ (.op h _ _) _ => h.name | _ => 0
    opName := 0 }

theorem exCodec_ok (fn : List Nat) : CodecOK (exCodec fn) where
  vn_nv := fun n => by simp [exCodec]
  bn_nb := fun n => by simp [exCodec]
  name_key := fun s => by
    simp only [exCodec]
    rw [decL_encL _ _ (Nat.le_refl _), String.ofList_toList]
  tyId_ty := fun n => by simp [exCodec]
  avId_av := fun n => by
    by_cases h : n = 0
    · simp [exCodec, h]
    · simp only [exCodec, h, if_false]; omega
  sizesOf_sizes := fun l => by
    have h1 : (3 * encL (unary l) + 2) % 3 = 2 := by omega
    have h2 : (3 * encL (unary l) + 2) / 3 = encL (unary l) := by omega
    simp only [exCodec, h1, h2, if_true]
    rw [decL_encL _ _ (Nat.le_refl _), cnt_unary]
  regionId_region := fun n => by
    by_cases h : n = 0
    · simp [exCodec, exRegion, h]
    · simp [exCodec, exRegion, h]

end Xdsl.DeclGeneric
