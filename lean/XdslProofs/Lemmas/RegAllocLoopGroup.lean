import XdslProofs.Lemmas.RegAllocLoopInv
/-!
C19 (loops) helper lemmas, part 5: `allocate_values_same_reg` on one loop-carried group
(block argument, iter_arg, yield operand, result) — whichever of the four already has a register.
-/
namespace Xdsl.RegAllocLoop
open Xdsl.RegMachine Xdsl.RegAlloc

/-- a value that is not live receives the register of a value tied to it -/
theorem inv_set_extra {c : Cfg} {pre : AL ValId Reg} {A0 : List Reg} {Zc : List ValId}
    {Tie : (ValId → Reg) → Prop} {s : St} {V M : List ValId} {i d : ValId} {r : Nat}
    (hinv : Inv c pre A0 Zc Tie s V M) (hnz : c.z = true → r ≠ 0)
    (hi : AL.get s.asg i = none) (hd : AL.get s.asg d = some r)
    (hforce : ∀ a, Tie a → a i = a d) :
    Inv c pre A0 Zc Tie { s with asg := AL.set s.asg i r } (i :: V) M := by
  have hiV : i ∉ V := fun hv => by have := hinv.allocd i hv; rw [hi] at this; simp at this
  have hiM : i ∉ M := fun hv => hiV (hinv.liveSub i hv)
  have hne : ∀ w ∈ M, w ≠ i := fun w hw e => hiM (e ▸ hw)
  have hget : ∀ w, AL.get (AL.set s.asg i r) w = if w = i then some r else AL.get s.asg w := by
    intro w; rw [AL.get_set]
  have hsame : ∀ w, w ≠ i → allocOf (AL.set s.asg i r) w = allocOf s.asg w :=
    fun w hw => allocOf_set_ne hw
  have hprei : AL.get pre i = none := by
    cases hp : AL.get pre i with
    | none => rfl
    | some rp => have := hinv.ext i rp hp; rw [hi] at this; simp at this
  exact {
    ext := fun w rw hw => by
      have hwi : w ≠ i := fun e => by rw [e, hprei] at hw; simp at hw
      simp only [hget, if_neg hwi]; exact hinv.ext w rw hw
    allocd := fun w hw => by
      simp only [hget]
      split
      · rfl
      · rcases List.mem_cons.1 hw with hwi | hw
        · rename_i hn; exact absurd hwi hn
        · exact hinv.allocd w hw
    only := fun w hw => by
      by_cases hwi : w = i
      · exact Or.inr (hwi ▸ List.mem_cons_self ..)
      · simp only [hget, if_neg hwi] at hw
        exact (hinv.only w hw).imp id (List.mem_cons_of_mem _)
    liveSub := fun w hw => List.mem_cons_of_mem _ (hinv.liveSub w hw)
    pw := fun a ha b hb hne' heq => by
      simp only [hsame a (hne a ha), hsame b (hne b hb)] at heq ⊢
      exact hinv.pw a ha b hb hne' heq
    notAvail := fun a ha => by
      simp only [hsame a (hne a ha)]; exact hinv.notAvail a ha
    nodup := hinv.nodup
    availOk := hinv.availOk
    tbl := hinv.tbl
    infFresh := fun w rw hw hge => by
      simp only [hget] at hw
      split at hw
      · simp only [Option.some.injEq] at hw
        subst hw
        exact hinv.infFresh d r hd hge
      · exact hinv.infFresh w rw hw hge
    origin := fun w rw hw hp => by
      simp only [hget] at hw
      split at hw
      · rename_i hwi
        simp only [Option.some.injEq] at hw
        subst hw
        subst hwi
        cases hpd : AL.get pre d with
        | some rd =>
          have := hinv.ext d rd hpd
          rw [hd] at this
          simp only [Option.some.injEq] at this
          refine Or.inr (Or.inr (Or.inr fun a ha hT => ?_))
          rw [hforce a hT, ha d rd hpd, this]
        | none =>
          rcases hinv.origin d r hd hpd with h1 | h1 | h1 | h1
          · exact Or.inl h1
          · exact Or.inr (Or.inl h1)
          · exact absurd h1.2.1 (hnz h1.1)
          · exact Or.inr (Or.inr (Or.inr fun a ha hT => by rw [hforce a hT]; exact h1 a ha hT))
      · exact hinv.origin w rw hw hp }

section Group
variable {x : Ctx} {pre : AL ValId Reg} {A0 : List Reg} {Zc U : List ValId}
  {Tie : (ValId → Reg) → Prop} {a0 : ValId → Reg}

theorem linv_set_extra {s : LSt} {V M P : List ValId} {n d : ValId} {r : Nat}
    (hinv : LInv x.c pre A0 Zc Tie x.zi a0 s V M P) (hnz : x.c.z = true → r ≠ 0)
    (hn : AL.get s.st.asg n = none) (hd : AL.get s.st.asg d = some r)
    (hforce : ∀ a, Tie a → a n = a d) :
    LInv x.c pre A0 Zc Tie x.zi a0 (setReg s n r) (n :: V) M P := by
  have hI' : Inv x.c pre A0 Zc Tie (setReg s n r).st (n :: V) M := inv_set_extra hinv.inv hnz hn hd hforce
  have hnV : n ∉ V := fun hv => by have := hinv.inv.allocd n hv; rw [hn] at this; simp at this
  have hne : ∀ p ∈ P, p ≠ n := fun p hp e => by
    have := (hinv.prot p hp).1; rw [e, hn] at this; simp at this
  have hsame : ∀ w, w ≠ n → allocOf (setReg s n r).st.asg w = allocOf s.st.asg w :=
    fun w hw => allocOf_set_ne hw
  have hwn : ∀ w, (w ∈ M ∨ w ∈ P) → w ≠ n := by
    intro w hw
    rcases hw with hw | hw
    · exact fun e => hnV (e ▸ hinv.inv.liveSub w hw)
    · exact hne w hw
  exact {
    inv := hI'
    rpos := hinv.rpos
    rdisj := hinv.rdisj
    prot := fun p hp => by
      obtain ⟨h1, h2, h3⟩ := hinv.prot p hp
      refine ⟨?_, ?_, List.mem_cons_of_mem _ h3⟩
      · simp [setReg, AL.get_set, hne p hp, h1]
      · rw [hsame p (hne p hp)]; exact h2
    pnz := fun hz p hp => by rw [hsame p (hne p hp)]; exact hinv.pnz hz p hp
    share := fun p hp w hw heq => by
      rw [hsame p (hne p hp), hsame w (hwn w hw)] at heq
      exact hinv.share p hp w hw heq
    zres := fun hz w hw h0 => by
      by_cases hwn' : w = n
      · subst hwn'
        simp [setReg, AL.get_set] at h0
        exact absurd h0 (hnz hz)
      · simp only [setReg, AL.get_set, if_neg hwn'] at h0
        exact hinv.zres hz w hw h0 }

/-- every value of `vals` that has no register yet receives `r`, the register of the tied value `d` -/
theorem linv_extras {P : List ValId} {d : ValId} {r : Nat} (hnz : x.c.z = true → r ≠ 0) :
    ∀ (vals : List ValId) (s : LSt) (V M : List ValId),
      LInv x.c pre A0 Zc Tie x.zi a0 s V M P → AL.get s.st.asg d = some r →
      (∀ n ∈ vals, ∀ a, Tie a → a n = a d) →
      LInv x.c pre A0 Zc Tie x.zi a0
        (vals.foldl (fun t v => if (AL.get t.st.asg v).isSome then t else setReg t v r) s)
        (vals.reverse ++ V) M P := by
  intro vals
  induction vals with
  | nil => intro s V M hinv _ _; simpa using hinv
  | cons n vals ih =>
    intro s V M hinv hd hforce
    simp only [List.foldl_cons]
    have hrest := fun m hm => hforce m (List.mem_cons_of_mem _ hm)
    have hV : ∀ w, w ∈ vals.reverse ++ (n :: V) ↔ w ∈ (n :: vals).reverse ++ V := by
      intro w
      simp only [List.reverse_cons, List.mem_append, List.mem_reverse, List.mem_cons,
        List.not_mem_nil, or_false]
      constructor
      · rintro (h | h | h)
        · exact Or.inl (Or.inl h)
        · exact Or.inl (Or.inr h)
        · exact Or.inr h
      · rintro ((h | h) | h)
        · exact Or.inl h
        · exact Or.inr (Or.inl h)
        · exact Or.inr (Or.inr h)
    split
    · rename_i hs
      have hinv' : LInv x.c pre A0 Zc Tie x.zi a0 s (n :: V) M P :=
        { hinv with
          inv := hinv.inv.addV hs
          prot := fun p hp => ⟨(hinv.prot p hp).1, (hinv.prot p hp).2.1, List.mem_cons_of_mem _ (hinv.prot p hp).2.2⟩ }
      exact (ih s (n :: V) M hinv' hd hrest).mono hV (fun _ h => h)
    · rename_i hs
      have hn : AL.get s.st.asg n = none := by
        cases hg : AL.get s.st.asg n with
        | none => rfl
        | some r => rw [hg] at hs; simp at hs
      have hdn : d ≠ n := fun e => by rw [e, hn] at hd; simp at hd
      have hinv' := linv_set_extra hinv hnz hn hd (hforce n (List.mem_cons_self ..))
      have hd' : AL.get (setReg s n r).st.asg d = some r := by
        simp [setReg, AL.get_set, hdn, hd]
      exact (ih _ (n :: V) M hinv' hd' hrest).mono hV (fun _ h => h)

/-- the same state, the assignment given by its lookups -/
theorem LInv.congrAsg {s s2 : LSt} {V L P : List ValId}
    (h : LInv x.c pre A0 Zc Tie x.zi a0 s V L P)
    (hasg : ∀ v, AL.get s2.st.asg v = AL.get s.st.asg v) (hav : s2.st.avail = s.st.avail)
    (htbl : s2.st.allocatable = s.st.allocatable) (hni : s2.st.nextInf = s.st.nextInf)
    (hres : s2.reserved = s.reserved) : LInv x.c pre A0 Zc Tie x.zi a0 s2 V L P := by
  have hal : ∀ v, allocOf s2.st.asg v = allocOf s.st.asg v := fun v => by simp [allocOf, hasg v]
  have hR : ∀ r, s2.isReserved r = s.isReserved r := fun r => by simp [LSt.isReserved, hres]
  exact {
    inv := h.inv.congr hasg hav htbl hni
    rpos := fun r n hr => h.rpos r n (hres ▸ hr)
    rdisj := fun r hr => by rw [hav]; exact h.rdisj r (hR r ▸ hr)
    prot := fun p hp => by rw [hasg, hal, hR]; exact h.prot p hp
    pnz := fun hz p hp => by rw [hal]; exact h.pnz hz p hp
    share := fun p hp w hw => by rw [hal, hal]; exact h.share p hp w hw
    zres := fun hz w hw => by rw [hasg]; exact h.zres hz w hw }

/-! ### who holds a register -/

/-- the values of the groups already processed: they have the register of a live yielded value -/
def Shadow (a0 : ValId → Reg) (s : LSt) (M S inits yields : List ValId) : Prop :=
  ∀ q ∈ S, (AL.get s.st.asg q).isSome = true ∧
    ∃ y ∈ M, y ∈ yields ∧ allocOf s.st.asg y = allocOf s.st.asg q ∧ a0 y = a0 q ∧
      ∃ i ∈ inits, (AL.get s.st.asg i).isSome = true ∧ allocOf s.st.asg i = allocOf s.st.asg q

/-- where an allocated value of the loop header can be: live, protected by an outer reservation, in
a group already processed, or pre-assigned -/
def Held (pre : AL ValId Reg) (U M P S : List ValId) (m : ValId) : Prop :=
  m ∈ M ∨ m ∈ P ∨ m ∈ S ∨ ((AL.get pre m).isSome = true ∧ m ∈ U)

theorem held_notAvail {s : LSt} {V M P S inits yields : List ValId} {m : ValId}
    (hst : Static x.c pre A0 U) (hinv : LInv x.c pre A0 Zc Tie x.zi a0 s V M P)
    (hsh : Shadow a0 s M S inits yields) (hm : Held pre U M P S m) :
    allocOf s.st.asg m ∉ s.st.avail := by
  rcases hm with hm | hm | hm | ⟨hm, hmU⟩
  · exact hinv.inv.notAvail m hm
  · exact hinv.rdisj _ (hinv.prot m hm).2.1
  · obtain ⟨_, y, hyM, _, hyq, _⟩ := hsh m hm
    rw [← hyq]; exact hinv.inv.notAvail y hyM
  · obtain ⟨rp, hrp⟩ := Option.isSome_iff_exists.1 hm
    rw [allocOf_of_get (hinv.inv.ext m rp hrp)]
    intro hav
    rcases hinv.inv.availOk rp hav with h1 | h1
    · exact hst.usedOut m hmU rp hrp h1
    · have := hst.preLt m rp hrp; omega

/-- a live or protected value in the register of a held value is held together with it by the
feasibility witness too (or both sit in the zero register) -/
theorem held_coh {s : LSt} {V M P S inits yields : List ValId} {m w : ValId}
    (hst : Static x.c pre A0 U) (hext0 : ∀ v r, AL.get pre v = some r → a0 v = r) (hTie0 : Tie a0)
    (hinv : LInv x.c pre A0 Zc Tie x.zi a0 s V M P)
    (hsh : Shadow a0 s M S inits yields) (hm : Held pre U M P S m)
    (hw : w ∈ M ∨ w ∈ P) (heq : allocOf s.st.asg w = allocOf s.st.asg m) :
    w = m ∨ a0 w = a0 m ∨ (x.c.z = true ∧ allocOf s.st.asg m = 0) := by
  rcases hm with hm | hm | hm | ⟨hm, hmU⟩
  · rcases hw with hw | hw
    · by_cases e : w = m
      · exact Or.inl e
      · have := hinv.inv.pw w hw m hm e heq
        exact Or.inr (Or.inr ⟨this.1, heq ▸ this.2⟩)
    · rcases hinv.share w hw m (Or.inl hm) heq.symm with e | e
      · exact Or.inl e.symm
      · exact Or.inr (Or.inl e.symm)
  · rcases hinv.share m hm w hw heq with e | e
    · exact Or.inl e
    · exact Or.inr (Or.inl e)
  · obtain ⟨_, y, hyM, _, hyq, hya, _⟩ := hsh m hm
    rcases hw with hw | hw
    · by_cases e : w = y
      · exact Or.inr (Or.inl (e ▸ hya))
      · have := hinv.inv.pw w hw y hyM e (heq.trans hyq.symm)
        exact Or.inr (Or.inr ⟨this.1, by rw [← heq]; exact this.2⟩)
    · rcases hinv.share w hw y (Or.inl hyM) (hyq.trans heq.symm) with e | e
      · exact Or.inr (Or.inl (e ▸ hya))
      · exact Or.inr (Or.inl (e.symm.trans hya))
  · obtain ⟨rp, hrp⟩ := Option.isSome_iff_exists.1 hm
    have hgm := hinv.inv.ext m rp hrp
    rw [allocOf_of_get hgm] at heq ⊢
    have hwS : (AL.get s.st.asg w).isSome = true := by
      rcases hw with hw | hw
      · exact hinv.inv.allocd w (hinv.inv.liveSub w hw)
      · exact (hinv.prot w hw).1
    have hgw := get_of_isSome hwS
    rw [heq] at hgw
    rw [hext0 m rp hrp]
    cases hpw : AL.get pre w with
    | some rw' =>
      have := hinv.inv.ext w rw' hpw
      rw [hgw] at this
      simp only [Option.some.injEq] at this
      exact Or.inr (Or.inl (by rw [hext0 w rw' hpw, this]))
    | none =>
      rcases hinv.inv.origin w rp hgw hpw with h1 | h1 | h1 | h1
      · exact absurd h1 (hst.usedOut m hmU rp hrp)
      · have := hst.preLt m rp hrp; omega
      · exact Or.inr (Or.inr ⟨h1.1, h1.2.1⟩)
      · exact Or.inr (Or.inl (h1 a0 hext0 hTie0))

/-- the liveness changes at a group: the result dies, the yielded value is live from here on (at the
end of the body), both in the register of the group -/
theorem linv_relive {s : LSt} {V M P : List ValId} {y r : ValId}
    (hinv : LInv x.c pre A0 Zc Tie x.zi a0 s V M P) (hyV : y ∈ V)
    (hna : allocOf s.st.asg y ∉ s.st.avail)
    (hpw : ∀ w ∈ M, w ≠ r → w ≠ y → allocOf s.st.asg w = allocOf s.st.asg y →
      (x.c.z = true ∧ allocOf s.st.asg y = 0))
    (hsh : ∀ p ∈ P, allocOf s.st.asg y = allocOf s.st.asg p → y = p ∨ a0 y = a0 p) :
    LInv x.c pre A0 Zc Tie x.zi a0 s V (y :: M.filter (· != r)) P := by
  have hI := hinv.inv
  have hmem : ∀ w ∈ M.filter (· != r), w ∈ M ∧ w ≠ r := fun w hw => by
    simpa using List.mem_filter.1 hw
  exact { hinv with
    inv := { hI with
      liveSub := fun w hw => by
        rcases List.mem_cons.1 hw with rfl | hw
        · exact hyV
        · exact hI.liveSub w (hmem w hw).1
      pw := fun a ha b hb hne heq => by
        rcases List.mem_cons.1 ha with ea | ha
        · rcases List.mem_cons.1 hb with eb | hb
          · exact absurd (ea.trans eb.symm) hne
          · rw [ea] at heq ⊢
            exact hpw b (hmem b hb).1 (hmem b hb).2 (fun e => hne (ea.trans e.symm)) heq.symm
        · rcases List.mem_cons.1 hb with eb | hb
          · rw [eb] at heq
            have := hpw a (hmem a ha).1 (hmem a ha).2 (fun e => hne (e.trans eb.symm)) heq
            exact ⟨this.1, heq ▸ this.2⟩
          · exact hI.pw a (hmem a ha).1 b (hmem b hb).1 hne heq
      notAvail := fun w hw => by
        rcases List.mem_cons.1 hw with rfl | hw
        · exact hna
        · exact hI.notAvail w (hmem w hw).1 }
    share := fun p hp w hw heq => by
      rcases hw with hw | hw
      · rcases List.mem_cons.1 hw with rfl | hw
        · exact hsh p hp heq
        · exact hinv.share p hp w (Or.inl (hmem w hw).1) heq
      · exact hinv.share p hp w (Or.inr hw) heq }

theorem Shadow.mono {s : LSt} {M M2 S inits yields : List ValId}
    (h : Shadow a0 s M S inits yields) (hM : ∀ w ∈ M, w ∈ yields → w ∈ M2) : Shadow a0 s M2 S inits yields := by
  intro q hq
  obtain ⟨h1, y, hyM, hyY, h2⟩ := h q hq
  exact ⟨h1, y, hM y hyM hyY, hyY, h2⟩

/-- the register of a held member of a group is not `zero` -/
theorem held_nz {s : LSt} {V M P S : List ValId} {m b : ValId}
    (hst : Static x.c pre A0 U) (hext0 : ∀ v r, AL.get pre v = some r → a0 v = r) (hTie0 : Tie a0)
    (hinv : LInv x.c pre A0 Zc Tie x.zi a0 s V M P)
    (hSnz : x.c.z = true → ∀ q ∈ S, allocOf s.st.asg q ≠ 0)
    (hm : Held pre U M P S m) (hmS : (AL.get s.st.asg m).isSome = true)
    (hmb : a0 m = a0 b) (hnz0 : x.c.z = true → a0 b ≠ 0) (hmZ : m ∉ Zc) :
    x.c.z = true → allocOf s.st.asg m ≠ 0 := by
  intro hz h0
  have hg := get_of_isSome hmS
  rw [h0] at hg
  have hpre0 : ∀ rp, AL.get pre m = some rp → False := by
    intro rp hrp
    have := hinv.inv.ext m rp hrp
    rw [hg] at this
    simp only [Option.some.injEq] at this
    exact hnz0 hz (by rw [← hmb, hext0 m rp hrp, ← this])
  have horig : AL.get pre m = none → False := by
    intro hp
    rcases hinv.inv.origin m 0 hg hp with h1 | h1 | h1 | h1
    · exact hst.zeroNotAlloc hz h1
    · have := hst.basePos hz; omega
    · exact hmZ h1.2.2
    · exact hnz0 hz (by rw [← hmb]; exact h1 a0 hext0 hTie0)
  rcases hm with hm | hm | hm | ⟨hm, _⟩
  · cases hp : AL.get pre m with
    | some rp => exact hpre0 rp hp
    | none => exact horig hp
  · exact hinv.pnz hz m hm h0
  · exact hSnz hz m hm h0
  · obtain ⟨rp, hrp⟩ := Option.isSome_iff_exists.1 hm
    exact hpre0 rp hrp

/-- A group of which the member `m0` has the register `ρ`: every other member receives it, the result
dies and the yielded value is live from here on. -/
theorem group_finish {sA : LSt} {VA MA P S inits yields : List ValId} {b i y r m0 : ValId} {ρ : Nat}
    (hst : Static x.c pre A0 U) (hext0 : ∀ v r, AL.get pre v = some r → a0 v = r) (hTie0 : Tie a0)
    (hinvA : LInv x.c pre A0 Zc Tie x.zi a0 sA VA MA P) (hshA : Shadow a0 sA MA S inits yields)
    (hSnz : x.c.z = true → ∀ q ∈ S, allocOf sA.st.asg q ≠ 0)
    (htie : ∀ a, Tie a → a i = a b ∧ a y = a b ∧ a r = a b)
    (hm0 : m0 ∈ [b, i, y, r]) (hm0ρ : AL.get sA.st.asg m0 = some ρ) (hheld : Held pre U MA P S m0)
    (hρnz : x.c.z = true → ρ ≠ 0)
    (hall : ∀ m ∈ [b, i, y, r], ∀ ρ', AL.get sA.st.asg m = some ρ' → ρ' = ρ)
    (hsep : ∀ w ∈ MA, w ≠ y → w ≠ r → a0 w ≠ a0 y)
    (hiI : i ∈ inits) (hyY : y ∈ yields) (hrY : r ∉ yields) :
    let sB := [b, i, y, r].foldl (fun t v => if (AL.get t.st.asg v).isSome then t else setReg t v ρ) sA
    LInv x.c pre A0 Zc Tie x.zi a0 sB (r :: y :: i :: b :: VA) (y :: MA.filter (· != r)) P
    ∧ Shadow a0 sB (y :: MA.filter (· != r)) (b :: i :: S) inits yields
    ∧ (x.c.z = true → ∀ q ∈ b :: i :: S, allocOf sB.st.asg q ≠ 0)
    ∧ LExt sA sB
    ∧ ∀ m ∈ [b, i, y, r], AL.get sB.st.asg m = some ρ := by
  intro sB
  have hab : ∀ a, Tie a → ∀ m ∈ [b, i, y, r], a m = a b := by
    intro a ha m hm
    obtain ⟨h1, h2, h3⟩ := htie a ha
    simp only [List.mem_cons, List.not_mem_nil, or_false] at hm
    rcases hm with rfl | rfl | rfl | rfl
    · rfl
    · exact h1
    · exact h2
    · exact h3
  have htm0 : ∀ a, Tie a → ∀ m ∈ [b, i, y, r], a m = a m0 := fun a ha m hm =>
    (hab a ha m hm).trans (hab a ha m0 hm0).symm
  have hyG : y ∈ [b, i, y, r] := by simp
  have hinvB : LInv x.c pre A0 Zc Tie x.zi a0 sB ([b, i, y, r].reverse ++ VA) MA P :=
    linv_extras hρnz [b, i, y, r] sA VA MA hinvA hm0ρ (fun n hn a ha => htm0 a ha n hn)
  have hext : LExt sA sB := foldl_setReg_ext ρ [b, i, y, r] sA
  obtain ⟨havB, _, _, _, _⟩ := foldl_setRegIf_fields ρ [b, i, y, r] sA
  have hgetB : ∀ m ∈ [b, i, y, r], AL.get sB.st.asg m = some ρ := by
    intro m hm
    show AL.get ([b, i, y, r].foldl _ sA).st.asg m = some ρ
    rw [foldl_setRegIf_get]
    cases hg : AL.get sA.st.asg m with
    | some ρ' => simp only; rw [hall m hm ρ' hg]
    | none => simp only; rw [if_pos hm]
  have hallocB : ∀ m ∈ [b, i, y, r], allocOf sB.st.asg m = ρ := fun m hm => allocOf_of_get (hgetB m hm)
  have hsameB : ∀ w, (AL.get sA.st.asg w).isSome = true → allocOf sB.st.asg w = allocOf sA.st.asg w :=
    fun w hw => hext.allocOf hw
  have hm0A : allocOf sA.st.asg m0 = ρ := allocOf_of_get hm0ρ
  have hMA : ∀ w ∈ MA, (AL.get sA.st.asg w).isSome = true :=
    fun w hw => hinvA.inv.allocd w (hinvA.inv.liveSub w hw)
  have hPA : ∀ p ∈ P, (AL.get sA.st.asg p).isSome = true := fun p hp => (hinvA.prot p hp).1
  have ha0m0y : a0 m0 = a0 y := (htm0 a0 hTie0 y hyG).symm
  -- the liveness change
  have hrel := linv_relive (y := y) (r := r) hinvB (by simp)
    (by
      rw [hallocB y hyG, havB, ← hm0A]
      exact held_notAvail hst hinvA hshA hheld)
    (by
      intro w hw hwr hwy heq
      rw [hallocB y hyG, hsameB w (hMA w hw), ← hm0A] at heq
      rw [hallocB y hyG]
      rcases held_coh hst hext0 hTie0 hinvA hshA hheld (Or.inl hw) heq with e | e | e
      · exact absurd (by rw [e, ha0m0y]) (hsep w hw hwy hwr)
      · exact absurd (e.trans ha0m0y) (hsep w hw hwy hwr)
      · exact ⟨e.1, by rw [← hm0A]; exact e.2⟩)
    (by
      intro p hp heq
      rw [hallocB y hyG, hsameB p (hPA p hp), ← hm0A] at heq
      rcases held_coh hst hext0 hTie0 hinvA hshA hheld (Or.inr hp) heq.symm with e | e | e
      · exact Or.inr (by rw [e, ha0m0y])
      · exact Or.inr (ha0m0y.symm.trans e.symm)
      · exact absurd (hm0A ▸ e.2) (hρnz e.1))
  refine ⟨hrel.mono (fun w => by simp [or_comm, or_left_comm, or_assoc]) (fun _ h => h), ?_, ?_, hext, hgetB⟩
  · -- the groups processed so far
    intro q hq
    simp only [List.mem_cons] at hq
    have hiG : i ∈ [b, i, y, r] := by simp
    have hnew : ∀ m ∈ [b, i, y, r], a0 y = a0 m → (AL.get sB.st.asg m).isSome = true ∧
        ∃ y' ∈ y :: MA.filter (· != r), y' ∈ yields ∧ allocOf sB.st.asg y' = allocOf sB.st.asg m ∧ a0 y' = a0 m ∧
          ∃ i' ∈ inits, (AL.get sB.st.asg i').isSome = true ∧ allocOf sB.st.asg i' = allocOf sB.st.asg m := by
      intro m hm ha
      refine ⟨by rw [hgetB m hm]; rfl, y, List.mem_cons_self .., hyY, ?_, ha, i, hiI, by rw [hgetB i hiG]; rfl, ?_⟩
      · rw [hallocB y hyG, hallocB m hm]
      · rw [hallocB i hiG, hallocB m hm]
    rcases hq with rfl | rfl | hq
    · exact hnew q (by simp) (hab a0 hTie0 y hyG)
    · exact hnew q (by simp) ((hab a0 hTie0 y hyG).trans (hab a0 hTie0 q (by simp)).symm)
    · obtain ⟨h1, y', hy'M, hy'Y, h2, h3, i', hi'I, h4, h5⟩ := hshA q hq
      have hy'r : y' ≠ r := fun e => hrY (e ▸ hy'Y)
      refine ⟨?_, y', List.mem_cons_of_mem _ (List.mem_filter.2 ⟨hy'M, by simpa using hy'r⟩), hy'Y, ?_, h3,
        i', hi'I, ?_, ?_⟩
      · obtain ⟨rq, hrq⟩ := Option.isSome_iff_exists.1 h1
        rw [hext q rq hrq]; rfl
      · rw [hsameB y' (hMA y' hy'M), hsameB q h1]; exact h2
      · obtain ⟨ri, hri⟩ := Option.isSome_iff_exists.1 h4
        rw [hext i' ri hri]; rfl
      · rw [hsameB i' h4, hsameB q h1]; exact h5
  · intro hz q hq
    simp only [List.mem_cons] at hq
    rcases hq with rfl | rfl | hq
    · rw [hallocB q (by simp)]; exact hρnz hz
    · rw [hallocB q (by simp)]; exact hρnz hz
    · rw [hsameB q (hshA q hq).1]; exact hSnz hz q hq

/-- **`allocate_values_same_reg` on one loop-carried group.** -/
theorem group_step {s s' : LSt} {V M P S inits yields : List ValId} {b i y r : ValId}
    (hst : Static x.c pre A0 U) (hext0 : ∀ v r, AL.get pre v = some r → a0 v = r) (hTie0 : Tie a0)
    (hinv : LInv x.c pre A0 Zc Tie x.zi a0 s V M P) (hsh : Shadow a0 s M S inits yields)
    (hSnz : x.c.z = true → ∀ q ∈ S, allocOf s.st.asg q ≠ 0)
    (h : sameRegN x s [b, i, y, r] = .ok s')
    (htie : ∀ a, Tie a → a i = a b ∧ a y = a b ∧ a r = a b)
    (hU : ∀ m ∈ [b, i, y, r], m ∈ U)
    (hcls : ∀ m ∈ [b, i, y, r], (AL.get s.st.asg m).isSome = true → Held pre U M P S m)
    (hsep : ∀ w ∈ M, w ≠ y → w ≠ r → a0 w ≠ a0 y)
    (hnz0 : x.c.z = true → a0 b ≠ 0)
    (hgz : ∀ m ∈ [b, i, y, r], m ∉ Zc)
    (hiI : i ∈ inits) (hyY : y ∈ yields) (hrY : r ∉ yields) :
    LInv x.c pre A0 Zc Tie x.zi a0 s' (r :: y :: i :: b :: V) (y :: M.filter (· != r)) P
    ∧ Shadow a0 s' (y :: M.filter (· != r)) (b :: i :: S) inits yields
    ∧ (x.c.z = true → ∀ q ∈ b :: i :: S, allocOf s'.st.asg q ≠ 0)
    ∧ LExt s s'
    ∧ ∃ ρ : Nat, ∀ m ∈ [b, i, y, r], AL.get s'.st.asg m = some ρ := by
  have hyG : y ∈ [b, i, y, r] := by simp
  have hab : ∀ a, Tie a → ∀ m ∈ [b, i, y, r], a m = a b := by
    intro a ha m hm
    obtain ⟨h1, h2, h3⟩ := htie a ha
    simp only [List.mem_cons, List.not_mem_nil, or_false] at hm
    rcases hm with rfl | rfl | rfl | rfl
    · rfl
    · exact h1
    · exact h2
    · exact h3
  rcases sameRegN_cases h with ⟨hnil, _⟩ | ⟨_, hnone, ρ, s1, hp, hs'⟩ | ⟨ρ, ⟨m0, hm0, hm0ρ⟩, hall, hs'⟩
  · exact absurd hnil (by simp)
  · -- no member has a register: a new one from the stack
    obtain ⟨hinvA, hρnz, _⟩ := linv_pop_live hst hinv (hU y hyG) (hnone y hyG) hp
    obtain ⟨hp', hres1, _, _⟩ := popR_ok hp
    have hasg1 : s1.st.asg = s.st.asg := pop_asg hp'
    have hgetA : ∀ w, AL.get (setReg s1 y ρ).st.asg w = if w = y then some ρ else AL.get s.st.asg w := by
      intro w; simp only [setReg, AL.get_set, hasg1]
    have hsameA : ∀ w, (AL.get s.st.asg w).isSome = true →
        AL.get (setReg s1 y ρ).st.asg w = AL.get s.st.asg w := by
      intro w hw
      have : w ≠ y := fun e => by rw [e, hnone y hyG] at hw; simp at hw
      rw [hgetA, if_neg this]
    have hallocA : ∀ w, (AL.get s.st.asg w).isSome = true →
        allocOf (setReg s1 y ρ).st.asg w = allocOf s.st.asg w := fun w hw => by
      simp only [allocOf, hsameA w hw]
    have hMS : ∀ w ∈ M, (AL.get s.st.asg w).isSome = true :=
      fun w hw => hinv.inv.allocd w (hinv.inv.liveSub w hw)
    have hshA : Shadow a0 (setReg s1 y ρ) (y :: M) S inits yields := by
      intro q hq
      obtain ⟨h1, y', hy'M, hy'Y, h2, h3, i', hi'I, h4, h5⟩ := hsh q hq
      refine ⟨by rw [hsameA q h1]; exact h1, y', List.mem_cons_of_mem _ hy'M, hy'Y, ?_, h3, i', hi'I,
        by rw [hsameA i' h4]; exact h4, ?_⟩
      · rw [hallocA y' (hMS y' hy'M), hallocA q h1]; exact h2
      · rw [hallocA i' h4, hallocA q h1]; exact h5
    have hSnzA : x.c.z = true → ∀ q ∈ S, allocOf (setReg s1 y ρ).st.asg q ≠ 0 := fun hz q hq => by
      rw [hallocA q (hsh q hq).1]; exact hSnz hz q hq
    have hfin := group_finish (b := b) (i := i) (y := y) (r := r) (m0 := y) (ρ := ρ) hst hext0 hTie0
      hinvA hshA hSnzA htie hyG (by rw [hgetA, if_pos rfl]) (Or.inl (List.mem_cons_self ..)) hρnz
      (by
        intro m hm ρ' hg
        rw [hgetA] at hg
        split at hg
        · simpa using hg.symm
        · rw [hnone m hm] at hg; simp at hg)
      (by
        intro w hw hwy hwr
        exact hsep w ((List.mem_cons.1 hw).resolve_left hwy) hwy hwr)
      hiI hyY hrY
    simp only at hfin
    obtain ⟨f1, f2, f3, _, f5⟩ := hfin
    -- the state that `allocate_values_same_reg` really builds has the same lookups
    have hpt : ∀ w, AL.get s'.st.asg w
        = AL.get ([b, i, y, r].foldl (fun t v => if (AL.get t.st.asg v).isSome then t else setReg t v ρ)
            (setReg s1 y ρ)).st.asg w := by
      intro w
      rw [hs', foldl_setReg_get, foldl_setRegIf_get, hgetA, hasg1]
      by_cases hwG : w ∈ [b, i, y, r]
      · rw [if_pos hwG]
        by_cases hwy : w = y
        · rw [if_pos hwy]
        · rw [if_neg hwy, hnone w hwG]; simp only; rw [if_pos hwG]
      · rw [if_neg hwG]
        have hwy : w ≠ y := fun e => hwG (e ▸ hyG)
        rw [if_neg hwy]
        cases AL.get s.st.asg w with
        | none => simp only; rw [if_neg hwG]
        | some _ => rfl
    obtain ⟨a1, a2, a3, a4, _⟩ := foldl_setReg_fields ρ [b, i, y, r] s1
    obtain ⟨b1, b2, b3, b4, _⟩ := foldl_setRegIf_fields ρ [b, i, y, r] (setReg s1 y ρ)
    have hal : ∀ w, allocOf s'.st.asg w = allocOf ([b, i, y, r].foldl
        (fun t v => if (AL.get t.st.asg v).isSome then t else setReg t v ρ) (setReg s1 y ρ)).st.asg w :=
      fun w => by simp only [allocOf, hpt w]
    have hsub : ∀ w ∈ y :: M.filter (· != r), w ∈ y :: (y :: M).filter (· != r) := by
      intro w hw
      rcases List.mem_cons.1 hw with e | hw
      · exact e ▸ List.mem_cons_self ..
      · obtain ⟨h1, h2⟩ := List.mem_filter.1 hw
        exact List.mem_cons_of_mem _ (List.mem_filter.2 ⟨List.mem_cons_of_mem _ h1, h2⟩)
    have hsup : ∀ w ∈ y :: (y :: M).filter (· != r), w ∈ y :: M.filter (· != r) := by
      intro w hw
      rcases List.mem_cons.1 hw with e | hw
      · exact e ▸ List.mem_cons_self ..
      · obtain ⟨h1, h2⟩ := List.mem_filter.1 hw
        rcases List.mem_cons.1 h1 with e | h1
        · exact e ▸ List.mem_cons_self ..
        · exact List.mem_cons_of_mem _ (List.mem_filter.2 ⟨h1, h2⟩)
    refine ⟨?_, ?_, ?_, sameRegN_ext h, ρ, fun m hm => by rw [hpt]; exact f5 m hm⟩
    · have := (f1.congrAsg (s2 := s') hpt (by rw [hs', a1, b1]; rfl) (by rw [hs', a2, b2]; rfl)
        (by rw [hs', a3, b3]; rfl) (by rw [hs', a4, b4]; rfl))
      refine this.mono ?_ hsub
      intro w
      simp only [List.mem_cons]
      constructor
      · rintro (h | h | h | h | h | h)
        · exact Or.inl h
        · exact Or.inr (Or.inl h)
        · exact Or.inr (Or.inr (Or.inl h))
        · exact Or.inr (Or.inr (Or.inr (Or.inl h)))
        · exact Or.inr (Or.inl h)
        · exact Or.inr (Or.inr (Or.inr (Or.inr h)))
      · rintro (h | h | h | h | h)
        · exact Or.inl h
        · exact Or.inr (Or.inl h)
        · exact Or.inr (Or.inr (Or.inl h))
        · exact Or.inr (Or.inr (Or.inr (Or.inl h)))
        · exact Or.inr (Or.inr (Or.inr (Or.inr (Or.inr h))))
    · intro q hq
      obtain ⟨h1, y', hy'M, hy'Y, h2, h3, i', hi'I, h4, h5⟩ := f2 q hq
      exact ⟨by rw [hpt]; exact h1, y', hsup y' hy'M, hy'Y, by rw [hal, hal]; exact h2, h3, i', hi'I,
        by rw [hpt]; exact h4, by rw [hal, hal]; exact h5⟩
    · intro hz q hq
      rw [hal]; exact f3 hz q hq
  · -- a member has a register already
    have hm0S : (AL.get s.st.asg m0).isSome = true := by rw [hm0ρ]; rfl
    have hheld := hcls m0 hm0 hm0S
    have hρnz : x.c.z = true → ρ ≠ 0 := by
      intro hz
      have := held_nz (b := b) hst hext0 hTie0 hinv hSnz hheld hm0S (hab a0 hTie0 m0 hm0) hnz0 (hgz m0 hm0) hz
      rwa [allocOf_of_get hm0ρ] at this
    have hfin := group_finish (b := b) (i := i) (y := y) (r := r) (m0 := m0) (ρ := ρ) hst hext0 hTie0
      hinv hsh hSnz htie hm0 hm0ρ hheld hρnz hall hsep hiI hyY hrY
    simp only at hfin
    rw [← hs'] at hfin
    exact ⟨hfin.1, hfin.2.1, hfin.2.2.1, hfin.2.2.2.1, ρ, hfin.2.2.2.2⟩

/-! ### all groups of a loop -/

def gB (g : List ValId) : ValId := g.getD 0 0
def gI (g : List ValId) : ValId := g.getD 1 0
def gY (g : List ValId) : ValId := g.getD 2 0
def gR (g : List ValId) : ValId := g.getD 3 0

theorem groups_shape : ∀ (bs is ys rs : List ValId), ∀ g ∈ groups bs is ys rs, g = [gB g, gI g, gY g, gR g] := by
  intro bs
  induction bs with
  | nil => intro is ys rs g hg; simp [groups] at hg
  | cons b bs ih =>
    intro is ys rs g hg
    cases is with
    | nil => simp [groups] at hg
    | cons i is =>
      cases ys with
      | nil => simp [groups] at hg
      | cons y ys =>
        cases rs with
        | nil => simp [groups] at hg
        | cons r rs =>
          simp only [groups, List.mem_cons] at hg
          rcases hg with rfl | hg
          · simp [gB, gI, gY, gR]
          · exact ih is ys rs g hg

/-- the assignment changes on the members of the group only -/
theorem sameRegN_get_other {s s' : LSt} {vals : List ValId} (h : sameRegN x s vals = .ok s') :
    ∀ w, w ∉ vals → AL.get s'.st.asg w = AL.get s.st.asg w := by
  intro w hw
  rcases sameRegN_cases h with ⟨_, rfl⟩ | ⟨_, _, r, s1, hp, rfl⟩ | ⟨r, _, _, rfl⟩
  · rfl
  · obtain ⟨hp', _, _, _⟩ := popR_ok hp
    rw [foldl_setReg_get, if_neg hw, pop_asg hp']
  · rw [foldl_setRegIf_get]
    cases AL.get s.st.asg w with
    | none => simp only; rw [if_neg hw]
    | some _ => rfl

/-- **All loop-carried groups of one loop**, in the order of `zip(block_args[1:], iter_args,
yield operands, results)`. -/
theorem groups_fold {P inits yields M0 : List ValId}
    (hst : Static x.c pre A0 U) (hext0 : ∀ v r, AL.get pre v = some r → a0 v = r) (hTie0 : Tie a0) :
    ∀ (gs : List (List ValId)) (s s' : LSt) (V M S : List ValId),
      foldL (sameRegN x) s gs = .ok s' →
      LInv x.c pre A0 Zc Tie x.zi a0 s V M P → Shadow a0 s M S inits yields →
      (x.c.z = true → ∀ q ∈ S, allocOf s.st.asg q ≠ 0) →
      (∀ w ∈ M, w ∈ M0 ∨ w ∈ yields) →
      (∀ g ∈ gs, g = [gB g, gI g, gY g, gR g]) →
      (∀ g ∈ gs, ∀ a, Tie a → a (gI g) = a (gB g) ∧ a (gY g) = a (gB g) ∧ a (gR g) = a (gB g)) →
      (∀ g ∈ gs, ∀ m ∈ g, m ∈ U ∧ m ∉ Zc) →
      (x.c.z = true → ∀ g ∈ gs, a0 (gB g) ≠ 0) →
      (∀ g ∈ gs, gI g ∈ inits ∧ gY g ∈ yields ∧ gR g ∉ yields) →
      (∀ g ∈ gs, ∀ w, (w ∈ M0 ∨ w ∈ yields) → w ≠ gY g → w ≠ gR g → a0 w ≠ a0 (gY g)) →
      gs.Pairwise (fun g g' => gR g ∉ g') →
      (∀ g ∈ gs, ∀ m ∈ g, (AL.get s.st.asg m).isSome = true → Held pre U M P S m) →
      ∃ V' M' S', LInv x.c pre A0 Zc Tie x.zi a0 s' V' M' P ∧ Shadow a0 s' M' S' inits yields
        ∧ (x.c.z = true → ∀ q ∈ S', allocOf s'.st.asg q ≠ 0) ∧ LExt s s'
        ∧ (∀ w, w ∈ V' ↔ (w ∈ V ∨ ∃ g ∈ gs, w ∈ g))
        ∧ (∀ w, w ∈ M' ↔ (w ∈ gs.map gY ∨ (w ∈ M ∧ w ∉ gs.map gR)))
        ∧ (∀ w, w ∈ S' ↔ (w ∈ S ∨ w ∈ gs.map gB ∨ w ∈ gs.map gI))
        ∧ (∀ g ∈ gs, ∃ ρ : Nat, ∀ m ∈ g, AL.get s'.st.asg m = some ρ) := by
  intro gs
  induction gs with
  | nil =>
    intro s s' V M S h hinv hsh hSnz _ _ _ _ _ _ _ _ _
    simp only [foldL, Except.ok.injEq] at h
    subst h
    exact ⟨V, M, S, hinv, hsh, hSnz, LExt.refl _, by simp, by simp, by simp, by simp⟩
  | cons g gs ih =>
    intro s s' V M S h hinv hsh hSnz hMsub hshape htie hUZ hnz0 hmem hsep hpair hcls
    rw [foldL_cons] at h
    split at h
    · exact absurd h (by simp)
    rename_i s1 hs1
    have hg := List.mem_cons_self (a := g) (l := gs)
    have hge := hshape g hg
    rw [hge] at hs1
    have hmemG : ∀ m, m ∈ [gB g, gI g, gY g, gR g] → m ∈ g := fun m hm => by rw [hge]; exact hm
    obtain ⟨i1, i2, i3, i4, ρ0, i5⟩ := group_step (inits := inits) (yields := yields) hst hext0 hTie0 hinv hsh hSnz hs1
      (htie g hg) (fun m hm => (hUZ g hg m (hmemG m hm)).1)
      (fun m hm hS => hcls g hg m (hmemG m hm) hS)
      (fun w hw hwy hwr => hsep g hg w (hMsub w hw) hwy hwr)
      (fun hz => hnz0 hz g hg)
      (fun m hm => (hUZ g hg m (hmemG m hm)).2)
      (hmem g hg).1 (hmem g hg).2.1 (hmem g hg).2.2
    have hpair' := List.pairwise_cons.1 hpair
    have hrest : ∀ g' ∈ gs, g' ∈ g :: gs := fun g' h' => List.mem_cons_of_mem _ h'
    obtain ⟨V', M', S', j1, j2, j3, j4, j5, j6, j7, j8⟩ := ih s1 s' _ _ _ h i1 i2 i3
      (by
        intro w hw
        rcases List.mem_cons.1 hw with e | hw
        · exact Or.inr (e ▸ (hmem g hg).2.1)
        · exact hMsub w (List.mem_filter.1 hw).1)
      (fun g' h' => hshape g' (hrest g' h'))
      (fun g' h' => htie g' (hrest g' h'))
      (fun g' h' => hUZ g' (hrest g' h'))
      (fun hz g' h' => hnz0 hz g' (hrest g' h'))
      (fun g' h' => hmem g' (hrest g' h'))
      (fun g' h' => hsep g' (hrest g' h'))
      hpair'.2
      (by
        intro g' h' m hm hS
        have hmr : m ≠ gR g := fun e => hpair'.1 g' h' (e ▸ hm)
        by_cases hmG : m ∈ [gB g, gI g, gY g, gR g]
        · simp only [List.mem_cons, List.not_mem_nil, or_false] at hmG
          rcases hmG with e | e | e | e
          · exact Or.inr (Or.inr (Or.inl (e ▸ List.mem_cons_self ..)))
          · exact Or.inr (Or.inr (Or.inl (e ▸ List.mem_cons_of_mem _ (List.mem_cons_self ..))))
          · exact Or.inl (e ▸ List.mem_cons_self ..)
          · exact absurd e hmr
        · rw [sameRegN_get_other hs1 m hmG] at hS
          rcases hcls g' (hrest g' h') m hm hS with h1 | h1 | h1 | h1
          · exact Or.inl (List.mem_cons_of_mem _ (List.mem_filter.2 ⟨h1, by simpa using hmr⟩))
          · exact Or.inr (Or.inl h1)
          · exact Or.inr (Or.inr (Or.inl (List.mem_cons_of_mem _ (List.mem_cons_of_mem _ h1))))
          · exact Or.inr (Or.inr (Or.inr h1)))
    refine ⟨V', M', S', j1, j2, j3, i4.trans j4, ?_, ?_, ?_, ?_⟩
    rotate_left 3
    · intro g' hg'
      rcases List.mem_cons.1 hg' with e | hg'
      · refine ⟨ρ0, fun m hm => j4 m ρ0 (i5 m ?_)⟩
        rw [e, hge] at hm; exact hm
      · exact j8 g' hg'
    · intro w
      rw [j5]
      simp only [List.mem_cons, exists_eq_or_imp]
      constructor
      · rintro ((h1 | h1 | h1 | h1 | h1) | h1)
        · exact Or.inr (Or.inl (hmemG w (by simp [h1])))
        · exact Or.inr (Or.inl (hmemG w (by simp [h1])))
        · exact Or.inr (Or.inl (hmemG w (by simp [h1])))
        · exact Or.inr (Or.inl (hmemG w (by simp [h1])))
        · exact Or.inl h1
        · exact Or.inr (Or.inr h1)
      · rintro (h1 | h1 | h1)
        · exact Or.inl (Or.inr (Or.inr (Or.inr (Or.inr h1))))
        · rw [hge] at h1
          simp only [List.mem_cons, List.not_mem_nil, or_false] at h1
          rcases h1 with e | e | e | e
          · exact Or.inl (Or.inr (Or.inr (Or.inr (Or.inl e))))
          · exact Or.inl (Or.inr (Or.inr (Or.inl e)))
          · exact Or.inl (Or.inr (Or.inl e))
          · exact Or.inl (Or.inl e)
        · exact Or.inr h1
    · intro w
      rw [j6]
      simp only [List.map_cons, List.mem_cons, List.mem_filter, bne_iff_ne, ne_eq, not_or]
      constructor
      · rintro (h1 | ⟨h1 | ⟨h1, h2⟩, h3⟩)
        · exact Or.inl (Or.inr h1)
        · exact Or.inl (Or.inl h1)
        · exact Or.inr ⟨h1, h2, h3⟩
      · rintro ((h1 | h1) | ⟨h1, h2, h3⟩)
        · by_cases hwr : w ∈ gs.map gR
          · obtain ⟨g', hg', e⟩ := List.mem_map.1 hwr
            -- `w` is yielded by this group and is the result of a later one: excluded
            exfalso
            have : gR g' ∈ yields := by rw [e, h1]; exact (hmem g hg).2.1
            exact (hmem g' (hrest g' hg')).2.2 this
          · exact Or.inr ⟨Or.inl h1, hwr⟩
        · exact Or.inl h1
        · exact Or.inr ⟨Or.inr ⟨h1, h2⟩, h3⟩
    · intro w
      rw [j7]
      simp only [List.map_cons, List.mem_cons]
      constructor
      · rintro ((h1 | h1 | h1) | h1 | h1)
        · exact Or.inr (Or.inl (Or.inl h1))
        · exact Or.inr (Or.inr (Or.inl h1))
        · exact Or.inl h1
        · exact Or.inr (Or.inl (Or.inr h1))
        · exact Or.inr (Or.inr (Or.inr h1))
      · rintro (h1 | (h1 | h1) | (h1 | h1))
        · exact Or.inl (Or.inr (Or.inr h1))
        · exact Or.inl (Or.inl h1)
        · exact Or.inr (Or.inl h1)
        · exact Or.inl (Or.inr (Or.inl h1))
        · exact Or.inr (Or.inr h1)

end Group

end Xdsl.RegAllocLoop
