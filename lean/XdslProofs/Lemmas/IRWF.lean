import XdslProofs.Lemmas.IRStore
import XdslModel.IRWF
/-!
# Lemmas for the snapshot checker (`XdslModel/IRWF.lean`) — C17

* `wfB_sound`: the Boolean check of one family of intrusive lists implies the representation
  invariant `DLL.WF` of C01 (relative to the traversals themselves);
* soundness of every store-level clause of `invTable` against the fields of `InvA`;
* the rooted clauses: `liveValB_iff`, and attachedness as a parent chain.
-/
namespace Xdsl.IRWF
open Xdsl Xdsl.DLL Xdsl.IR

/-! ### association lists -/

theorem AL_get_mem {β : Type} {m : AL Nat β} {k : Nat} {v : β} (h : AL.get m k = some v) : (k, v) ∈ m := by
  induction m with
  | nil => simp [AL.get] at h
  | cons p r ih =>
    obtain ⟨a, b⟩ := p
    simp only [AL.get] at h
    split at h
    · cases h; subst_vars; exact List.mem_cons_self
    · exact List.mem_cons_of_mem _ (ih h)

theorem AL_get_of_mem {β : Type} {m : AL Nat β} {k : Nat} {v : β} (h : (k, v) ∈ m) : (AL.get m k).isSome := by
  induction m with
  | nil => simp at h
  | cons p r ih =>
    obtain ⟨a, b⟩ := p
    simp only [AL.get]
    split
    · rfl
    · rename_i hne
      rcases List.mem_cons.mp h with e | e
      · cases e; exact absurd rfl hne
      · exact ih e

theorem AL_get_map_key {β γ : Type} (m : AL Nat β) (g : Nat → γ) (c : Nat) :
    AL.get (m.map (fun p => (p.1, g p.1))) c = (AL.get m c).map (fun _ => g c) := by
  induction m with
  | nil => rfl
  | cons p r ih =>
    obtain ⟨a, b⟩ := p
    simp only [List.map_cons, AL.get]
    split
    · subst_vars; rfl
    · exact ih

/-! ### one family of lists -/

theorem walk_none (l : L) (n : Nat) : l.walk n none = [] := by cases n <;> rfl

theorem toList_of_no_ends {l : L} {c : Nat} (h : AL.get l.ends c = none) : l.toList c = [] := by
  simp [L.toList, L.en, h, walk_none]

theorem en_of_no_ends {l : L} {c : Nat} (h : AL.get l.ends c = none) : l.en c = {} := by
  simp [L.en, h]

theorem lst_listsOf (l : L) (c : Nat) : lst (listsOf l) c = l.toList c := by
  unfold lst listsOf
  rw [AL_get_map_key]
  cases h : AL.get l.ends c with
  | none => simp [toList_of_no_ends h]
  | some e => simp

theorem or_some_or (a : Option Nat) (x : Nat) (p : Option Nat) : (a.or (some x)).or p = a.or (some x) := by
  cases a <;> rfl

theorem linkGo_sound (l : L) (c : Nat) : ∀ (xs : List Nat) (prev : Option Nat), linkGo l c prev xs = true →
    xs.Nodup → ∀ n ∈ xs, l.nd n = { next := nextOf xs n, prev := (prevOf xs n).or prev, parent := some c } := by
  intro xs
  induction xs with
  | nil => intro _ _ _ n hn; simp at hn
  | cons x r ih =>
    intro prev h hnd n hn
    simp only [linkGo, Bool.and_eq_true, decide_eq_true_eq] at h
    have hx : x ∉ r := (List.nodup_cons.mp hnd).1
    have hr : r.Nodup := (List.nodup_cons.mp hnd).2
    rcases List.mem_cons.mp hn with e | e
    · subst e
      rw [h.1, nextOf_cons_self, prevOf_cons_self _ _ hx]; rfl
    · have hne : n ≠ x := fun e' => hx (e' ▸ e)
      have hp : prevOf (x :: r) n = (prevOf r n).or (some x) := by
        have := prevOf_append_of_mem_right (a := [x]) (b := r) e
        simpa using this
      rw [ih (some x) h.2 hr n e, nextOf_cons_of_ne r hne, hp, or_some_or]

theorem repB_sound {l : L} {c : Nat} {xs : List Nat} (h : repB l c xs = true) : Rep l c xs := by
  simp only [repB, Bool.and_eq_true, decide_eq_true_eq] at h
  obtain ⟨⟨⟨h1, h2⟩, h3⟩, h4⟩ := h
  refine ⟨h1, h2, fun n hn => ?_, h4⟩
  have := linkGo_sound l c xs none h3 h4 n hn
  simpa using this

theorem wfB_sound {l : L} (h : wfB l = true) : WF l (fun c => l.toList c) := by
  simp only [wfB, freeB, Bool.and_eq_true, List.all_eq_true] at h
  obtain ⟨hrep, hfree⟩ := h
  have rep : ∀ c, Rep l c (l.toList c) := by
    intro c
    cases he : AL.get l.ends c with
    | none =>
      rw [toList_of_no_ends he]
      exact ⟨by simp [en_of_no_ends he], by simp [en_of_no_ends he], by simp, List.nodup_nil⟩
    | some e =>
      have := hrep (c, e) (AL_get_mem he)
      rw [lst_listsOf] at this
      exact repB_sound this
  have par : ∀ c n, n ∈ l.toList c → (l.nd n).parent = some c := fun c n hn => by
    rw [(rep c).link n hn]
  refine ⟨rep, fun c c' n h1 h2 => ?_, fun n hn => ?_, fun c n hn => ?_⟩
  · have := (par c n h1).symm.trans (par c' n h2)
    exact Option.some.inj this
  · cases hg : AL.get l.node n with
    | none => simp [L.nd, hg]
    | some x =>
      have := hfree (n, x) (AL_get_mem hg)
      simp only [Bool.or_eq_true, decide_eq_true_eq] at this
      rcases this with e | e
      · exact e
      · split at e
        · rename_i c hc
          rw [lst_listsOf, List.contains_iff_mem] at e
          exact absurd e (hn c)
        · cases e
  · unfold L.has
    cases hg : AL.get l.node n with
    | none =>
      have := par c n hn
      simp [L.nd, hg] at this
    | some x => rfl

/-! ### store-level clauses -/

theorem usesB_sound {s : IRStore} {pos uid : OpData → List Nat} {l : L}
    (hf : usesFwdB s pos uid (listsOf l) = true) (hb : usesBwdB s pos uid l (listsOf l) = true) :
    UseInv s pos uid (fun v => l.toList v) := by
  simp only [usesFwdB, List.all_eq_true] at hf
  simp only [usesBwdB, List.all_eq_true] at hb
  have fwd : ∀ o d, AL.get s.ops o = some d → (uid d).length = (pos d).length ∧
      ∀ q ∈ ((uid d).zip (pos d)).zipIdx, s.use! q.1.1 = (o, q.2) ∧ q.1.1 ∈ l.toList q.1.2 := by
    intro o d hd
    have := hf (o, d) (AL_get_mem hd)
    simp only [hd, Bool.and_eq_true, decide_eq_true_eq, List.all_eq_true] at this
    refine ⟨this.1, fun q hq => ?_⟩
    have h2 := this.2 q hq
    rw [lst_listsOf, List.contains_iff_mem] at h2
    exact h2
  have bwd : ∀ v u, u ∈ l.toList v → u < s.nextUse ∧ ∃ d, AL.get s.ops (s.use! u).1 = some d ∧
      (uid d)[(s.use! u).2]? = some u ∧ (pos d)[(s.use! u).2]? = some v := by
    intro v u hu
    cases he : AL.get l.ends v with
    | none => rw [toList_of_no_ends he] at hu; simp at hu
    | some e =>
      have := hb (v, e) (AL_get_mem he) u (by rw [lst_listsOf]; exact hu)
      simp only [Bool.and_eq_true, decide_eq_true_eq] at this
      refine ⟨this.1, ?_⟩
      have h2 := this.2
      split at h2
      · cases h2
      · rename_i d hd
        simp only [Bool.and_eq_true, decide_eq_true_eq] at h2
        exact ⟨d, hd, h2.1, h2.2⟩
  refine ⟨fun o d hd => (fwd o d hd).1, fun o d i u v hd hu hv => ?_, fun v u hu => (bwd v u hu).2,
    fun v u hu => (bwd v u hu).1⟩
  have hm : ((u, v), i) ∈ ((uid d).zip (pos d)).zipIdx := by
    rw [List.mk_mem_zipIdx_iff_getElem?, List.getElem?_zip_eq_some]; exact ⟨hu, hv⟩
  exact (fwd o d hd).2 _ hm

theorem valData_eq {x : ValData} {k : VKind} {o i : Nat} (h1 : x.kind = k) (h2 : x.owner = o) (h3 : x.index = i) :
    x = { kind := k, owner := o, index := i } := by
  cases x; simp_all

theorem resultsB_sound {s : IRStore} (h : resultsB s = true) :
    ∀ o d i v, AL.get s.ops o = some d → d.results[i]? = some v →
      AL.get s.vals v = some { kind := .result, owner := o, index := i } := by
  simp only [resultsB, List.all_eq_true] at h
  intro o d i v hd hv
  have := h (o, d) (AL_get_mem hd)
  simp only [hd, List.all_eq_true] at this
  have := this (v, i) (List.mk_mem_zipIdx_iff_getElem?.mpr hv)
  split at this
  · cases this
  · rename_i x hx
    simp only [Bool.and_eq_true, decide_eq_true_eq] at this
    rw [hx, valData_eq this.1.1 this.1.2 this.2]

theorem argsB_sound {s : IRStore} (h : argsB s = true) :
    ∀ b d i v, AL.get s.blocks b = some d → d.args[i]? = some v →
      AL.get s.vals v = some { kind := .arg, owner := b, index := i } := by
  simp only [argsB, List.all_eq_true] at h
  intro b d i v hd hv
  have := h (b, d) (AL_get_mem hd)
  simp only [hd, List.all_eq_true] at this
  have := this (v, i) (List.mk_mem_zipIdx_iff_getElem?.mpr hv)
  split at this
  · cases this
  · rename_i x hx
    simp only [Bool.and_eq_true, decide_eq_true_eq] at this
    rw [hx, valData_eq this.1.1 this.1.2 this.2]

theorem regionsB_sound {s : IRStore} (h : regionsB s = true) :
    (∀ o d, AL.get s.ops o = some d → d.regions.Nodup ∧ ∀ r ∈ d.regions, s.regionParent r = some o) ∧
    (∀ r o, s.regionParent r = some o → ∃ d, AL.get s.ops o = some d ∧ r ∈ d.regions) := by
  simp only [regionsB, Bool.and_eq_true, List.all_eq_true] at h
  obtain ⟨h1, h2⟩ := h
  constructor
  · intro o d hd
    have := h1 (o, d) (AL_get_mem hd)
    simp only [hd, Bool.and_eq_true, decide_eq_true_eq, List.all_eq_true] at this
    exact this
  · intro r o hp
    cases hr : AL.get s.regions r with
    | none => simp [IRStore.regionParent, IRStore.region!, hr] at hp
    | some x =>
      have := h2 (r, x) (AL_get_mem hr)
      simp only [hp] at this
      split at this
      · cases this
      · rename_i d hd
        exact ⟨d, hd, List.contains_iff_mem.mp this⟩

theorem regOpsB_sound {s : IRStore} (h : regOpsB s (listsOf s.opL) = true) :
    ∀ b o, o ∈ s.opL.toList b → regO s o ∧ regB s b := by
  simp only [regOpsB, List.all_eq_true] at h
  intro b o ho
  cases he : AL.get s.opL.ends b with
  | none => rw [toList_of_no_ends he] at ho; simp at ho
  | some e =>
    have := h (b, e) (AL_get_mem he) o (by rw [lst_listsOf]; exact ho)
    simp only [Bool.and_eq_true] at this
    exact this

theorem regBlocksB_sound {s : IRStore} (h : regBlocksB s (listsOf s.blockL) = true) :
    ∀ r b, b ∈ s.blockL.toList r → regB s b ∧ regR s r := by
  simp only [regBlocksB, List.all_eq_true] at h
  intro r b hb
  cases he : AL.get s.blockL.ends r with
  | none => rw [toList_of_no_ends he] at hb; simp at hb
  | some e =>
    have := h (r, e) (AL_get_mem he) b (by rw [lst_listsOf]; exact hb)
    simp only [Bool.and_eq_true] at this
    exact this

/-- the abstraction a snapshot that passes the check represents: its own traversals -/
def absOf (s : IRStore) : Abs :=
  ⟨fun b => s.opL.toList b, fun r => s.blockL.toList r, fun v => s.vuseL.toList v, fun b => s.buseL.toList b⟩

theorem invB_invA {s : IRStore} (h : invB s = true) : InvA s (absOf s) := by
  simp only [invB, invTable, List.all_cons, List.all_nil, Bool.and_eq_true, Bool.and_true] at h
  obtain ⟨⟨h1, h1'⟩, ⟨h2, h2'⟩, h3, ⟨⟨h4, h4f⟩, h4b⟩, ⟨⟨h5, h5f⟩, h5b⟩, h6, h7⟩ := h
  have hr := regionsB_sound h3
  exact {
    opL := wfB_sound h1
    blockL := wfB_sound h2
    vuseL := wfB_sound h4
    buseL := wfB_sound h5
    operandUses := usesB_sound h4f h4b
    successorUses := usesB_sound h5f h5b
    results := resultsB_sound h6
    args := argsB_sound h7
    regions := hr.1
    regionParent := hr.2
    regOps := regOpsB_sound h1'
    regBlocks := regBlocksB_sound h2' }

/-! ### completeness: the invariant implies every clause of the check -/

theorem linkGo_complete (l : L) (c : Nat) : ∀ (xs : List Nat) (prev : Option Nat), xs.Nodup →
    (∀ n ∈ xs, l.nd n = { next := nextOf xs n, prev := (prevOf xs n).or prev, parent := some c }) →
    linkGo l c prev xs = true := by
  intro xs
  induction xs with
  | nil => intro _ _ _; rfl
  | cons x r ih =>
    intro prev hnd h
    have hx : x ∉ r := (List.nodup_cons.mp hnd).1
    have hr : r.Nodup := (List.nodup_cons.mp hnd).2
    simp only [linkGo, Bool.and_eq_true, decide_eq_true_eq]
    constructor
    · have := h x List.mem_cons_self
      rw [nextOf_cons_self, prevOf_cons_self _ _ hx] at this
      simpa using this
    · apply ih (some x) hr
      intro n hn
      have hne : n ≠ x := fun e' => hx (e' ▸ hn)
      have hp : prevOf (x :: r) n = (prevOf r n).or (some x) := by
        have := prevOf_append_of_mem_right (a := [x]) (b := r) hn
        simpa using this
      have := h n (List.mem_cons_of_mem _ hn)
      rw [nextOf_cons_of_ne r hne, hp, or_some_or] at this
      exact this

theorem repB_complete {l : L} {c : Nat} {xs : List Nat} (h : Rep l c xs) : repB l c xs = true := by
  simp only [repB, Bool.and_eq_true, decide_eq_true_eq]
  refine ⟨⟨⟨h.first, h.last⟩, ?_⟩, h.nodup⟩
  apply linkGo_complete l c xs none h.nodup
  intro n hn
  simpa using h.link n hn

theorem wfB_complete {l : L} {f : Nat → List Nat} (h : WF l f) : wfB l = true := by
  simp only [wfB, freeB, Bool.and_eq_true, List.all_eq_true]
  constructor
  · intro p _
    rw [lst_listsOf, h.toList_eq]
    exact repB_complete (h.rep p.1)
  · intro p _
    simp only [Bool.or_eq_true, decide_eq_true_eq]
    cases hp : (l.nd p.1).parent with
    | none =>
      left
      apply h.free
      intro c hc
      rw [h.parent_of_mem hc] at hp; cases hp
    | some c =>
      right
      simp only []
      rw [lst_listsOf, h.toList_eq, List.contains_iff_mem]
      exact (h.mem_iff_parent c p.1).mpr hp

theorem usesB_complete {s : IRStore} {pos uid : OpData → List Nat} {l : L} {f : Nat → List Nat}
    (w : WF l f) (h : UseInv s pos uid f) :
    usesFwdB s pos uid (listsOf l) = true ∧ usesBwdB s pos uid l (listsOf l) = true := by
  constructor
  · simp only [usesFwdB, List.all_eq_true]
    intro p _
    cases hd : AL.get s.ops p.1 with
    | none => rfl
    | some d =>
      simp only [Bool.and_eq_true, decide_eq_true_eq, List.all_eq_true]
      refine ⟨h.len p.1 d hd, fun q hq => ?_⟩
      obtain ⟨⟨u, v⟩, i⟩ := q
      rw [List.mk_mem_zipIdx_iff_getElem?, List.getElem?_zip_eq_some] at hq
      have := h.fwd p.1 d i u v hd hq.1 hq.2
      rw [lst_listsOf, w.toList_eq, List.contains_iff_mem]
      exact this
  · simp only [usesBwdB, List.all_eq_true]
    intro p _ u hu
    rw [lst_listsOf, w.toList_eq] at hu
    obtain ⟨d, hd, h1, h2⟩ := h.bwd p.1 u hu
    simp only [Bool.and_eq_true, decide_eq_true_eq, hd]
    exact ⟨h.lt p.1 u hu, h1, h2⟩

theorem resultsB_complete {s : IRStore}
    (h : ∀ o d i v, AL.get s.ops o = some d → d.results[i]? = some v →
      AL.get s.vals v = some { kind := .result, owner := o, index := i }) : resultsB s = true := by
  simp only [resultsB, List.all_eq_true]
  intro p _
  cases hd : AL.get s.ops p.1 with
  | none => rfl
  | some d =>
    simp only [List.all_eq_true]
    intro q hq
    obtain ⟨v, i⟩ := q
    rw [List.mk_mem_zipIdx_iff_getElem?] at hq
    simp [h p.1 d i v hd hq]

theorem argsB_complete {s : IRStore}
    (h : ∀ b d i v, AL.get s.blocks b = some d → d.args[i]? = some v →
      AL.get s.vals v = some { kind := .arg, owner := b, index := i }) : argsB s = true := by
  simp only [argsB, List.all_eq_true]
  intro p _
  cases hd : AL.get s.blocks p.1 with
  | none => rfl
  | some d =>
    simp only [List.all_eq_true]
    intro q hq
    obtain ⟨v, i⟩ := q
    rw [List.mk_mem_zipIdx_iff_getElem?] at hq
    simp [h p.1 d i v hd hq]

theorem regionsB_complete {s : IRStore}
    (h1 : ∀ o d, AL.get s.ops o = some d → d.regions.Nodup ∧ ∀ r ∈ d.regions, s.regionParent r = some o)
    (h2 : ∀ r o, s.regionParent r = some o → ∃ d, AL.get s.ops o = some d ∧ r ∈ d.regions) :
    regionsB s = true := by
  simp only [regionsB, Bool.and_eq_true, List.all_eq_true]
  constructor
  · intro p _
    cases hd : AL.get s.ops p.1 with
    | none => rfl
    | some d =>
      simp only [Bool.and_eq_true, decide_eq_true_eq, List.all_eq_true]
      exact h1 p.1 d hd
  · intro p _
    cases hp : s.regionParent p.1 with
    | none => rfl
    | some o =>
      obtain ⟨d, hd, hr⟩ := h2 p.1 o hp
      simp only [hd]
      exact List.contains_iff_mem.mpr hr

theorem invA_invB {s : IRStore} {a : Abs} (h : InvA s a) : invB s = true := by
  simp only [invB, invTable, List.all_cons, List.all_nil, Bool.and_eq_true, Bool.and_true]
  have hv := usesB_complete h.vuseL h.operandUses
  have hb := usesB_complete h.buseL h.successorUses
  refine ⟨⟨wfB_complete h.opL, ?_⟩, ⟨wfB_complete h.blockL, ?_⟩, regionsB_complete h.regions h.regionParent,
    ⟨⟨wfB_complete h.vuseL, hv.1⟩, hv.2⟩, ⟨⟨wfB_complete h.buseL, hb.1⟩, hb.2⟩,
    resultsB_complete h.results, argsB_complete h.args⟩
  · simp only [regOpsB, List.all_eq_true]
    intro p _ o ho
    rw [lst_listsOf, h.opL.toList_eq] at ho
    have := h.regOps p.1 o ho
    simp only [regO, regB] at this
    simp [this.1, this.2]
  · simp only [regBlocksB, List.all_eq_true]
    intro p _ b hb'
    rw [lst_listsOf, h.blockL.toList_eq] at hb'
    have := h.regBlocks p.1 b hb'
    simp only [regB, regR] at this
    simp [this.1, this.2]

/-! ### attachedness -/

/-- `n` steps up the parent chain -/
def up (s : IRStore) : Nat → Ref → Option Ref
  | 0, x => some x
  | n + 1, x => (s.parentRef x).bind (up s n)

theorem isAncestorFrom_chain (s : IRStore) (a : Ref) : ∀ (fuel : Nat) (x : Ref),
    s.isAncestorFrom a fuel (some x) = true → ∃ n, n < fuel ∧ up s n x = some a := by
  intro fuel
  induction fuel with
  | zero => intro x h; simp [IRStore.isAncestorFrom] at h
  | succ k ih =>
    intro x h
    simp only [IRStore.isAncestorFrom, Bool.or_eq_true, beq_iff_eq] at h
    rcases h with e | e
    · exact ⟨0, Nat.succ_pos _, by simp [up, e]⟩
    · cases hp : s.parentRef x with
      | none => rw [hp] at e; cases k <;> simp [IRStore.isAncestorFrom] at e
      | some y =>
        rw [hp] at e
        obtain ⟨n, hn, hu⟩ := ih y e
        exact ⟨n + 1, Nat.succ_lt_succ hn, by simp [up, hp, hu]⟩

theorem chain_isAncestorFrom (s : IRStore) (a : Ref) : ∀ (n fuel : Nat) (x : Ref),
    n < fuel → up s n x = some a → s.isAncestorFrom a fuel (some x) = true := by
  intro n
  induction n with
  | zero =>
    intro fuel x hf hu
    cases fuel with
    | zero => omega
    | succ k => simp only [up, Option.some.injEq] at hu; simp [IRStore.isAncestorFrom, hu]
  | succ m ih =>
    intro fuel x hf hu
    cases fuel with
    | zero => omega
    | succ k =>
      simp only [up] at hu
      cases hp : s.parentRef x with
      | none => simp [hp] at hu
      | some y =>
        simp only [hp, Option.bind_some] at hu
        simp only [IRStore.isAncestorFrom, Bool.or_eq_true, hp]
        exact Or.inr (ih k y (by omega) hu)

/-! ### the fuel of the attachedness walk suffices (under the invariant) -/

theorem up_add (s : IRStore) : ∀ (a b : Nat) (x : Ref), up s (a + b) x = (up s a x).bind (up s b) := by
  intro a
  induction a with
  | zero => intro b x; simp [up]
  | succ k ih =>
    intro b x
    rw [show k + 1 + b = (k + b) + 1 by omega]
    simp only [up]
    cases hp : s.parentRef x with
    | none => rfl
    | some y => simp [ih]

/-- every object of the snapshot as a `Ref` -/
def allRefs (s : IRStore) : List Ref :=
  s.ops.map (fun p => .op p.1) ++ s.blocks.map (fun p => .block p.1) ++ s.regions.map (fun p => .region p.1)

theorem allRefs_length (s : IRStore) : (allRefs s).length + 1 = s.size := by
  simp only [allRefs, IRStore.size, List.length_append, List.length_map]

theorem mem_keys_of_isSome {β : Type} {m : AL Nat β} {k : Nat} (h : (AL.get m k).isSome) :
    ∃ v, (k, v) ∈ m := by
  cases hg : AL.get m k with
  | none => rw [hg] at h; cases h
  | some v => exact ⟨v, AL_get_mem hg⟩

/-- under the invariant, whatever has a parent is a recorded object -/
theorem mem_allRefs_of_parent {s : IRStore} {a : Abs} (h : InvA s a) {y z : Ref}
    (hp : s.parentRef y = some z) : y ∈ allRefs s := by
  cases y with
  | op o =>
    simp only [IRStore.parentRef, Option.map_eq_some_iff] at hp
    obtain ⟨b, hb, _⟩ := hp
    have hm : o ∈ a.ops b := (h.opL.mem_iff_parent b o).mpr hb
    obtain ⟨v, hv⟩ := mem_keys_of_isSome (h.regOps b o hm).1
    simp only [allRefs, List.mem_append, List.mem_map]
    exact Or.inl (Or.inl ⟨(o, v), hv, rfl⟩)
  | block b =>
    simp only [IRStore.parentRef, Option.map_eq_some_iff] at hp
    obtain ⟨r, hr, _⟩ := hp
    have hm : b ∈ a.blocks r := (h.blockL.mem_iff_parent r b).mpr hr
    obtain ⟨v, hv⟩ := mem_keys_of_isSome (h.regBlocks r b hm).1
    simp only [allRefs, List.mem_append, List.mem_map]
    exact Or.inl (Or.inr ⟨(b, v), hv, rfl⟩)
  | region r =>
    simp only [IRStore.parentRef, Option.map_eq_some_iff] at hp
    obtain ⟨o, ho, _⟩ := hp
    cases hg : AL.get s.regions r with
    | none => simp [IRStore.regionParent, IRStore.region!, hg] at ho
    | some v =>
      simp only [allRefs, List.mem_append, List.mem_map]
      exact Or.inr ⟨(r, v), AL_get_mem hg, rfl⟩

theorem up_split {s : IRStore} {n i : Nat} {x a : Ref} (h : up s n x = some a) (hi : i ≤ n) :
    ∃ y, up s i x = some y ∧ up s (n - i) y = some a := by
  have := up_add s i (n - i) x
  rw [show i + (n - i) = n by omega, h] at this
  cases hy : up s i x with
  | none => rw [hy] at this; cases this
  | some y => rw [hy] at this; exact ⟨y, rfl, this.symm⟩

/-- pigeonhole: a parent chain that reaches `a` can be shortened to at most one step per object -/
theorem chain_short {s : IRStore} {ab : Abs} (hinv : InvA s ab) (a : Ref) :
    ∀ (n : Nat) (x : Ref), up s n x = some a → ∃ m, m ≤ (allRefs s).length ∧ up s m x = some a := by
  intro n
  induction n using Nat.strongRecOn with
  | _ n ih =>
    intro x h
    by_cases hn : n ≤ (allRefs s).length
    · exact ⟨n, hn, h⟩
    · let f : Nat → Option Ref := fun i => up s i x
      by_cases hinj : ∀ i ∈ List.range n, ∀ j ∈ List.range n, f i = f j → i = j
      · -- all the `n` objects of the chain are distinct recorded objects: impossible
        have hnd : ((List.range n).map f).Nodup := List.Nodup.map_on hinj List.nodup_range
        have hsub : (List.range n).map f ⊆ (allRefs s).map some := by
          intro o ho
          obtain ⟨i, hi, rfl⟩ := List.mem_map.mp ho
          have hi' : i < n := List.mem_range.mp hi
          obtain ⟨y, hy, hrest⟩ := up_split h (Nat.le_of_lt hi')
          have : ∃ z, s.parentRef y = some z := by
            rw [show n - i = (n - i - 1) + 1 by omega] at hrest
            simp only [up] at hrest
            cases hp : s.parentRef y with
            | none => rw [hp] at hrest; cases hrest
            | some z => exact ⟨z, rfl⟩
          obtain ⟨z, hz⟩ := this
          exact List.mem_map.mpr ⟨y, mem_allRefs_of_parent hinv hz, hy.symm⟩
        have := (List.subperm_of_subset hnd hsub).length_le
        simp only [List.length_map, List.length_range] at this
        exact absurd this hn
      · -- the chain visits an object twice: cut the loop out and recurse
        have : ∃ i j, i < j ∧ j < n ∧ f i = f j := by
          by_contra hc
          apply hinj
          intro i hi j hj e
          have hi' := List.mem_range.mp hi
          have hj' := List.mem_range.mp hj
          rcases Nat.lt_trichotomy i j with hlt | heq | hgt
          · exact absurd ⟨i, j, hlt, hj', e⟩ hc
          · exact heq
          · exact absurd ⟨j, i, hgt, hi', e.symm⟩ hc
        obtain ⟨i, j, hij, hjn, e⟩ := this
        obtain ⟨y, hy, hrest⟩ := up_split h (Nat.le_of_lt hjn)
        have hi : up s i x = some y := by
          have : f i = f j := e
          simp only [f] at this
          rw [this, hy]
        have hnew : up s (i + (n - j)) x = some a := by
          rw [up_add, hi]; exact hrest
        exact ih (i + (n - j)) (by omega) x hnew

theorem chain_isAncestor {s : IRStore} {ab : Abs} (hinv : InvA s ab) {a x : Ref} {n : Nat}
    (h : up s n x = some a) : s.isAncestor a x = true := by
  obtain ⟨m, hm, hu⟩ := chain_short hinv a n x h
  unfold IRStore.isAncestor
  apply chain_isAncestorFrom s a m _ x _ hu
  have := allRefs_length s
  omega

end Xdsl.IRWF
