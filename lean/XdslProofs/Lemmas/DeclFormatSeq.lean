import XdslProofs.Lemmas.DeclFormatParse
/-!
C05 helper lemmas, part 3: FIRST sets are sound, sequences of simple directives parse back, the first
element of an optional group decides the right branch.
-/
namespace Xdsl.DeclFormat
set_option linter.unusedSimpArgs false

/-- every operand type list is as long as the operand list (types are the operands' types) -/
def tysMatch (op : OpInst) : SDir → Prop
  | .operandTy i _ => (seg op.operandTys i).length = (seg op.operands i).length
  | _ => True

/-- all per-directive instance conditions -/
def okInstAll (D : Defs) (op : OpInst) (d : SDir) : Prop := okInst D op d ∧ tysMatch op d

theorem okAgg_of_inFragment (D : Defs) {d : SDir} (h : inFragment d = true) : okAgg D d = true := by
  cases d <;> first | rfl | simp [inFragment] at h

theorem commaSep_eq_nil {mk : Nat → Tok} {xs : List Nat} : commaSep mk xs = [] ↔ xs = [] := by
  cases xs <;> simp [commaSep]

theorem clsHd_commaSep (mk : Nat → Tok) (x : Nat) (xs : List Nat) (r : List Tok) :
    clsHd (commaSep mk (x :: xs) ++ r) = clsOf (some (mk x)) := by
  simp [commaSep]

/-- a directive that printed nothing is nullable -/
theorem nullable_of_print_nil (D : Defs) (op : OpInst) (d : SDir)
    (hinst : okInst D op d) (h : printS D op d = []) : nullableS d = true := by
  cases d with
  | kw s => simp [printS] at h
  | punct s => simp [printS] at h
  | operand i k =>
    cases k with
    | single => obtain ⟨x, hx⟩ := len1 hinst; simp [printS, hx, commaSep] at h
    | opt => rfl
    | var => rfl
  | operandTy i k =>
    cases k with
    | single => obtain ⟨x, hx⟩ := len1 hinst; simp [printS, hx, commaSep] at h
    | opt => rfl
    | var => rfl
  | resultTy i k =>
    cases k with
    | single => obtain ⟨x, hx⟩ := len1 hinst; simp [printS, hx, commaSep] at h
    | opt => rfl
    | var => rfl
  | region i k =>
    cases k with
    | single => obtain ⟨x, hx⟩ := len1 hinst; simp [printS, hx] at h
    | opt => rfl
    | var => rfl
  | succ i k =>
    cases k with
    | single => obtain ⟨x, hx⟩ := len1 hinst; simp [printS, hx, commaSep] at h
    | opt => rfl
    | var => rfl
  | attr name isProp optional dflt =>
    cases optional with
    | true => rfl
    | false =>
      have := hinst rfl
      cases hg : dictGet isProp op name with
      | none => simp [hg] at this
      | some v => simp [printS, hg] at h
  | unitAttr _ _ _ => rfl
  | attrDict _ _ _ => rfl
  | operandsAll => rfl
  | operandTysAll => rfl
  | resultTysAll => rfl
  | funcTy a b => simp [printS] at h

/-- the first token a directive prints has a class listed in `firstS` -/
theorem first_of_print (D : Defs) (op : OpInst) (d : SDir) (r : List Tok)
    (h : printS D op d ≠ []) : clsHd (printS D op d ++ r) ∈ firstS d := by
  cases d with
  | kw s => simp [printS, firstS, clsOf]
  | punct s => simp [printS, firstS, clsOf]
  | operand i k =>
    simp only [printS] at h ⊢
    cases hx : seg op.operands i with
    | nil => simp [hx, commaSep] at h
    | cons x xs => simp [commaSep, firstS, clsOf]
  | operandTy i k =>
    simp only [printS] at h ⊢
    cases hx : seg op.operandTys i with
    | nil => simp [hx, commaSep] at h
    | cons x xs => simp [commaSep, firstS, clsOf]
  | resultTy i k =>
    simp only [printS] at h ⊢
    cases hx : seg op.resultTys i with
    | nil => simp [hx, commaSep] at h
    | cons x xs => simp [commaSep, firstS, clsOf]
  | region i k =>
    simp only [printS] at h ⊢
    cases hx : seg op.regions i with
    | nil => simp [hx] at h
    | cons x xs => simp [firstS, clsOf]
  | succ i k =>
    simp only [printS] at h ⊢
    cases hx : seg op.succs i with
    | nil => simp [hx, commaSep] at h
    | cons x xs => simp [commaSep, firstS, clsOf]
  | attr name isProp optional dflt =>
    simp only [printS] at h ⊢
    cases hg : dictGet isProp op name with
    | none => simp [hg] at h
    | some v =>
      by_cases he : (optional && dflt == some v) = true
      · simp [hg, he] at h
      · simp [he, firstS, clsOf]
  | unitAttr _ _ _ => simp [printS] at h
  | attrDict withKw reserved expProps =>
    simp only [printS] at h ⊢
    cases hes : dictEntries D reserved expProps op with
    | nil => simp [hes] at h
    | cons e es => cases withKw <;> simp [firstS, clsOf]
  | operandsAll =>
    simp only [printS] at h ⊢
    cases hx : op.operands.flatten with
    | nil => simp [hx, commaSep] at h
    | cons x xs => simp [commaSep, firstS, clsOf]
  | operandTysAll =>
    simp only [printS] at h ⊢
    cases hx : op.operandTys.flatten with
    | nil => simp [hx, commaSep] at h
    | cons x xs => simp [commaSep, firstS, clsOf]
  | resultTysAll =>
    simp only [printS] at h ⊢
    cases hx : op.resultTys.flatten with
    | nil => simp [hx, commaSep] at h
    | cons x xs => simp [commaSep, firstS, clsOf]
  | funcTy a b => simp [printS, firstS, clsOf]

theorem clsHd_printSeq (D : Defs) (op : OpInst) (ds : List SDir) (K : List Cls) (rest : List Tok)
    (hinst : ∀ d ∈ ds, okInst D op d) (hK : clsHd rest ∈ K) :
    clsHd (printSeq D op ds ++ rest) ∈ firstSeq ds K := by
  induction ds with
  | nil => simpa [printSeq, firstSeq] using hK
  | cons d ds ih =>
    have ih' := ih (fun x hx => hinst x (List.mem_cons_of_mem _ hx))
    simp only [printSeq, firstSeq, List.append_assoc]
    by_cases hp : printS D op d = []
    · have hn := nullable_of_print_nil D op d (hinst d (List.mem_cons_self ..)) hp
      simp only [hp, List.nil_append, hn, if_true]
      exact List.mem_append_right _ ih'
    · exact List.mem_append_left _ (first_of_print D op d _ hp)

theorem followOK_of_okFollow {d : SDir} {F : List Cls} {toks : List Tok} (h : okFollow d F = true)
    (hm : clsHd toks ∈ F) : FollowOK d toks := by
  simp only [okFollow, Bool.and_eq_true, Bool.or_eq_true, Bool.not_eq_eq_eq_not, Bool.not_true,
    List.all_eq_true] at h
  obtain ⟨⟨h1, h2⟩, h3⟩ := h
  refine ⟨fun hn => ?_, fun hc => ?_, fun hr => ?_⟩
  · rcases h1 with h1 | h1
    · simp [hn] at h1
    · simpa using h1 _ hm
  · rcases h2 with h2 | h2
    · simp [hc] at h2
    · intro e
      rw [e] at hm
      simp [hm] at h2
  · rcases h3 with h3 | h3
    · simp [hr] at h3
    · simpa using h3 _ hm

def replaySeq (D : Defs) (op : OpInst) : List SDir → PState → PState
  | [], st => st
  | d :: ds, st => replaySeq D op ds (replayS D op d st)

/-- a sequence of simple directives (top level, then-branch after the first element, else-branch)
parses back what it printed -/
theorem parseSeq_printSeq (D : Defs) (op : OpInst) (ds : List SDir) (K : List Cls)
    (rest : List Tok) (st : PState)
    (hwf : wfSeq ds K = true)
    (hfrag : ∀ d ∈ ds, inFragment d = true)
    (hinst : ∀ d ∈ ds, okInst D op d)
    (hK : clsHd rest ∈ K) :
    parseSeq D ds (printSeq D op ds ++ rest) st = some (replaySeq D op ds st, rest) := by
  induction ds generalizing st with
  | nil => simp [parseSeq, printSeq, replaySeq]
  | cons d ds ih =>
    simp only [wfSeq, Bool.and_eq_true] at hwf
    obtain ⟨hfol, hwf'⟩ := hwf
    have hfr' : ∀ x ∈ ds, inFragment x = true := fun x hx => hfrag x (List.mem_cons_of_mem _ hx)
    have hin' : ∀ x ∈ ds, okInst D op x := fun x hx => hinst x (List.mem_cons_of_mem _ hx)
    have hfirst := clsHd_printSeq D op ds K rest hin' hK
    have hf := followOK_of_okFollow hfol hfirst
    obtain ⟨b, hb⟩ := parseS_printS D op d (printSeq D op ds ++ rest) st
      (hinst d (List.mem_cons_self ..)) (okAgg_of_inFragment D (hfrag d (List.mem_cons_self ..))) hf
    simp only [printSeq, List.append_assoc, parseSeq, hb, replaySeq]
    exact ih _ hwf' hfr' hin'

end Xdsl.DeclFormat
