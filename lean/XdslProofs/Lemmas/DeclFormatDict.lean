import XdslProofs.Lemmas.DeclFormatSlots
/-!
C05, stage 2b: the property and attribute dictionaries of the state `replayD fmt op {}` are the
operation's dictionaries up to entries equal to their declared default.
-/
namespace Xdsl.DeclFormat
set_option linter.unusedSimpArgs false

abbrev DP := AL String Nat × AL String Nat

def dp (st : PState) : DP := (st.props, st.attrs)

def setDP (isProp : Bool) (p : DP) (name : String) (v : Nat) : DP :=
  if isProp then (AL.set p.1 name v, p.2) else (p.1, AL.set p.2 name v)

def foldSet (m : AL String Nat) (es : List (String × Nat)) : AL String Nat :=
  es.foldl (fun m p => AL.set m p.1 p.2) m

/-- effect of one executed directive on the two dictionaries -/
def replayDictS (D : Defs) (op : OpInst) (d : SDir) (p : DP) : DP :=
  match d with
  | .attr name isProp optional dflt =>
    match dictGet isProp op name with
    | none => p
    | some v => if optional && dflt == some v then p else setDP isProp p name v
  | .unitAttr name isProp u => setDP isProp p name u
  | .attrDict _ reserved expProps =>
    let es := dictEntries D reserved expProps op
    (foldSet p.1 (es.filter (fun q => expProps.contains q.1)),
     foldSet p.2 (es.filter (fun q => !expProps.contains q.1)))
  | _ => p

theorem dp_replayTy (op : OpInst) (r : TyRef) (st : PState) : dp (replayTy op r st) = dp st := by
  cases r <;> rfl

theorem dp_replayS (D : Defs) (op : OpInst) (d : SDir) (st : PState) :
    dp (replayS D op d st) = replayDictS D op d (dp st) := by
  cases d <;> simp [replayS, replayDictS, dp, dictState, foldSet]
  case funcTy ins outs =>
    have h1 := dp_replayTy op outs (replayTy op ins st)
    have h2 := dp_replayTy op ins st
    simp only [dp, Prod.mk.injEq] at h1 h2
    exact ⟨h1.1.trans h2.1, h1.2.trans h2.2⟩
  case attr name isProp optional dflt =>
    cases dictGet isProp op name with
    | none => simp
    | some v =>
      simp only
      split
      · simp
      · cases isProp <;> simp [setDict, setDP]
  case unitAttr name isProp u => cases isProp <;> simp [setDict, setDP]

theorem dp_setEmptyS (d : SDir) (st : PState) : dp (setEmptyS st d) = dp st := by
  cases d with
  | operand i k => cases k <;> rfl
  | region i k => cases k <;> rfl
  | succ i k => cases k <;> rfl
  | _ => rfl

theorem dp_setEmptySeq (ds : List SDir) (st : PState) : dp (setEmptySeq st ds) = dp st := by
  induction ds generalizing st with
  | nil => rfl
  | cons d ds ih => simp [setEmptySeq, ih, dp_setEmptyS]

def replayDictSeq (D : Defs) (op : OpInst) (ds : List SDir) (p : DP) : DP :=
  ds.foldl (fun p d => replayDictS D op d p) p

theorem dp_replaySeq (D : Defs) (op : OpInst) (ds : List SDir) (st : PState) :
    dp (replaySeq D op ds st) = replayDictSeq D op ds (dp st) := by
  induction ds generalizing st with
  | nil => rfl
  | cons d ds ih => simp [replaySeq, replayDictSeq, ih, dp_replayS]

/-- the simple directives whose parse actually runs for `op` -/
def execS (op : OpInst) : List Dir → List SDir
  | [] => []
  | .s d :: ds => d :: execS op ds
  | .group a f r e :: ds => (if presentS op a = true then f :: r else f :: e) ++ execS op ds

theorem replayDictSeq_append (D : Defs) (op : OpInst) (xs ys : List SDir) (p : DP) :
    replayDictSeq D op (xs ++ ys) p = replayDictSeq D op ys (replayDictSeq D op xs p) := by
  simp [replayDictSeq, List.foldl_append]

theorem dp_replayD (D : Defs) (op : OpInst) (fmt : List Dir) (st : PState) :
    dp (replayD D op fmt st) = replayDictSeq D op (execS op fmt) (dp st) := by
  induction fmt generalizing st with
  | nil => rfl
  | cons d ds ih =>
    cases d with
    | s d => simp [replayD, replayDir, execS, ih, dp_replayS, replayDictSeq]
    | group a f r e =>
      simp only [replayD, replayDir, execS, ih, replayDictSeq_append]
      congr 1
      by_cases hp : presentS op a = true
      · simp only [hp, if_true, dp_setEmptySeq, dp_replaySeq]
      · simp only [hp, if_false, Bool.false_eq_true, dp_replaySeq, dp_setEmptySeq, dp_replayS]
        simp [replayDictSeq]


/-! ### association-list facts -/

theorem get_some_mem {m : AL String Nat} {n : String} {v : Nat} (h : AL.get m n = some v) : (n, v) ∈ m := by
  induction m with
  | nil => simp at h
  | cons q r ih =>
    obtain ⟨a, b⟩ := q
    simp only [AL.get_cons] at h
    by_cases ha : a = n
    · subst ha; simp at h; subst h; exact List.mem_cons_self ..
    · simp [ha] at h; exact List.mem_cons_of_mem _ (ih h)

theorem mem_get_of_nodup {m : AL String Nat} {n : String} {v : Nat} (hn : (m.map Prod.fst).Nodup)
    (h : (n, v) ∈ m) : AL.get m n = some v := by
  induction m with
  | nil => cases h
  | cons q r ih =>
    obtain ⟨a, b⟩ := q
    simp only [List.map_cons, List.nodup_cons] at hn
    simp only [AL.get_cons]
    rcases List.mem_cons.mp h with h | h
    · cases h; simp
    · have : a ≠ n := by
        intro e; subst e
        exact hn.1 (List.mem_map.mpr ⟨(a, v), h, rfl⟩)
      simp [this, ih hn.2 h]

theorem get_foldSet_some {m : AL String Nat} {es : List (String × Nat)} {n : String} {v : Nat}
    (h : AL.get (foldSet m es) n = some v) : (n, v) ∈ es ∨ AL.get m n = some v := by
  induction es generalizing m with
  | nil => exact Or.inr h
  | cons e es ih =>
    simp only [foldSet, List.foldl_cons] at h
    rcases ih h with h' | h'
    · exact Or.inl (List.mem_cons_of_mem _ h')
    · rw [AL.get_set] at h'
      by_cases hn : n = e.1
      · simp [hn] at h'
        subst h'
        left; rw [hn]; exact List.mem_cons_self ..
      · simp [hn] at h'; exact Or.inr h'

theorem isSome_foldSet_mono {m : AL String Nat} {es : List (String × Nat)} {n : String}
    (h : (AL.get m n).isSome = true) : (AL.get (foldSet m es) n).isSome = true := by
  induction es generalizing m with
  | nil => exact h
  | cons e es ih =>
    simp only [foldSet, List.foldl_cons]
    apply ih
    rw [AL.get_set]
    by_cases hn : n = e.1 <;> simp [hn, h]

theorem isSome_foldSet_hit {m : AL String Nat} {es : List (String × Nat)} {n : String} {v : Nat}
    (h : (n, v) ∈ es) : (AL.get (foldSet m es) n).isSome = true := by
  induction es generalizing m with
  | nil => cases h
  | cons e es ih =>
    simp only [foldSet, List.foldl_cons]
    rcases List.mem_cons.mp h with h | h
    · apply isSome_foldSet_mono
      rw [AL.get_set]; simp [← h]
    · exact ih h

/-! ### soundness: every entry of the parsed dictionaries is an entry of the operation -/

def SoundP (op : OpInst) (p : DP) : Prop :=
  (∀ n v, AL.get p.1 n = some v → AL.get op.props n = some v) ∧
  (∀ n v, AL.get p.2 n = some v → AL.get op.attrs n = some v)

/-- dictionaries of a verified operation: no duplicate keys, and no attribute named like a property
that the attr-dict carries (`AttrDictDirective.print` raises otherwise) -/
structure DictOK (op : OpInst) (fmt : List Dir) : Prop where
  nodupP : (op.props.map Prod.fst).Nodup
  nodupA : (op.attrs.map Prod.fst).Nodup
  disj : ∀ w res exp, Dir.s (.attrDict w res exp) ∈ fmt → ∀ n, n ∈ exp → AL.get op.attrs n = none

theorem mem_dictEntries {D : Defs} {res exp : List String} {op : OpInst} {q : String × Nat}
    (h : q ∈ dictEntries D res exp op) : q ∈ op.attrs ∨ (q ∈ op.props ∧ exp.contains q.1 = true) := by
  unfold dictEntries at h
  simp only [List.mem_filter, List.mem_append] at h
  rcases h.1 with h1 | h1
  · exact Or.inl h1
  · exact Or.inr ⟨h1.1, h1.2⟩

theorem soundP_setDP (op : OpInst) (isProp : Bool) (p : DP) (name : String) (v : Nat)
    (hv : dictGet isProp op name = some v) (h : SoundP op p) : SoundP op (setDP isProp p name v) := by
  cases isProp with
  | true =>
    refine ⟨fun n w hw => ?_, h.2⟩
    simp only [setDP, if_true, AL.get_set] at hw
    by_cases hn : n = name
    · subst hn; simp at hw; subst hw; simpa [dictGet] using hv
    · simp [hn] at hw; exact h.1 n w hw
  | false =>
    refine ⟨h.1, fun n w hw => ?_⟩
    simp only [setDP, Bool.false_eq_true, if_false, AL.get_set] at hw
    by_cases hn : n = name
    · subst hn; simp at hw; subst hw; simpa [dictGet] using hv
    · simp [hn] at hw; exact h.2 n w hw

/-- per executed directive: what soundness needs -/
def soundDir (op : OpInst) : SDir → Prop
  | .unitAttr name isProp u => dictGet isProp op name = some u
  | .attrDict _ _ exp =>
    (op.props.map Prod.fst).Nodup ∧ (op.attrs.map Prod.fst).Nodup ∧ ∀ n, n ∈ exp → AL.get op.attrs n = none
  | _ => True

theorem soundP_replayDictS (D : Defs) (op : OpInst) (d : SDir) (p : DP) (hd : soundDir op d)
    (h : SoundP op p) : SoundP op (replayDictS D op d p) := by
  cases d with
  | attr name isProp optional dflt =>
    simp only [replayDictS]
    cases hg : dictGet isProp op name with
    | none => exact h
    | some v =>
      simp only
      split
      · exact h
      · exact soundP_setDP op isProp p name v hg h
  | unitAttr name isProp u => exact soundP_setDP op isProp p name u hd h
  | attrDict w res exp =>
    obtain ⟨hnp, hna, hdisj⟩ := hd
    simp only [replayDictS]
    refine ⟨fun n v hv => ?_, fun n v hv => ?_⟩
    · rcases get_foldSet_some hv with hm | hm
      · simp only [List.mem_filter] at hm
        obtain ⟨hm1, hm2⟩ := hm
        rcases mem_dictEntries hm1 with ha | ⟨hp, _⟩
        · have := mem_get_of_nodup hna ha
          have hn : n ∈ exp := by simpa using hm2
          rw [hdisj n hn] at this; cases this
        · exact mem_get_of_nodup hnp hp
      · exact h.1 n v hm
    · rcases get_foldSet_some hv with hm | hm
      · simp only [List.mem_filter] at hm
        obtain ⟨hm1, hm2⟩ := hm
        rcases mem_dictEntries hm1 with ha | ⟨_, he⟩
        · exact mem_get_of_nodup hna ha
        · exact absurd (by simpa using he) (by simpa using hm2)
      · exact h.2 n v hm
  | _ => exact h

theorem soundP_replayDictSeq (D : Defs) (op : OpInst) (ds : List SDir) (p : DP)
    (hd : ∀ d ∈ ds, soundDir op d) (h : SoundP op p) : SoundP op (replayDictSeq D op ds p) := by
  induction ds generalizing p with
  | nil => exact h
  | cons d ds ih =>
    simp only [replayDictSeq, List.foldl_cons]
    exact ih _ (fun x hx => hd x (List.mem_cons_of_mem _ hx))
      (soundP_replayDictS D op d p (hd d (List.mem_cons_self ..)) h)


/-! ### completeness: every non-default entry of the operation is written by some executed directive -/

def dsel (isProp : Bool) (p : DP) : AL String Nat := if isProp then p.1 else p.2

def HasP (isProp : Bool) (n : String) (p : DP) : Prop := (AL.get (dsel isProp p) n).isSome = true

def defaultOf (D : Defs) (isProp : Bool) (n : String) : Option Nat :=
  if isProp then AL.get D.propDefaults n else AL.get D.attrDefaults n

theorem hasP_setDP_mono (ip isProp : Bool) (p : DP) (name n : String) (v : Nat) (h : HasP isProp n p) :
    HasP isProp n (setDP ip p name v) := by
  unfold HasP at *
  cases ip <;> cases isProp <;> simp_all [setDP, dsel, AL.get_set]
  all_goals (by_cases hn : n = name <;> simp [hn, h])

theorem hasP_setDP_hit (isProp : Bool) (p : DP) (n : String) (v : Nat) : HasP isProp n (setDP isProp p n v) := by
  unfold HasP
  cases isProp <;> simp [setDP, dsel, AL.get_set]

theorem hasP_replayDictS_mono (D : Defs) (op : OpInst) (d : SDir) (p : DP) (isProp : Bool) (n : String)
    (h : HasP isProp n p) : HasP isProp n (replayDictS D op d p) := by
  cases d with
  | attr name ip optional dflt =>
    simp only [replayDictS]
    cases dictGet ip op name with
    | none => exact h
    | some v =>
      simp only
      split
      · exact h
      · exact hasP_setDP_mono ip isProp p name n v h
  | unitAttr name ip u => exact hasP_setDP_mono ip isProp p name n u h
  | attrDict w res exp =>
    unfold HasP at *
    cases isProp <;> simp only [replayDictS, dsel, if_true, if_false, Bool.false_eq_true] at h ⊢ <;>
      exact isSome_foldSet_mono h
  | _ => exact h

theorem hasP_replayDictSeq_mono (D : Defs) (op : OpInst) (ds : List SDir) (p : DP) (isProp : Bool) (n : String)
    (h : HasP isProp n p) : HasP isProp n (replayDictSeq D op ds p) := by
  induction ds generalizing p with
  | nil => exact h
  | cons d ds ih =>
    simp only [replayDictSeq, List.foldl_cons]
    exact ih _ (hasP_replayDictS_mono D op d p isProp n h)

theorem hasP_replayDictSeq_hit (D : Defs) (op : OpInst) (ds : List SDir) (p : DP) (isProp : Bool) (n : String)
    (d : SDir) (hd : d ∈ ds) (hit : ∀ q, HasP isProp n (replayDictS D op d q)) :
    HasP isProp n (replayDictSeq D op ds p) := by
  induction ds generalizing p with
  | nil => cases hd
  | cons x xs ih =>
    simp only [replayDictSeq, List.foldl_cons]
    rcases List.mem_cons.mp hd with rfl | hd'
    · exact hasP_replayDictSeq_mono D op xs _ isProp n (hit p)
    · exact ih _ hd'

/-- directive `d` is responsible for entry `n` of the property (`isProp`) / attribute dictionary -/
def coversS (D : Defs) (isProp : Bool) (n : String) : SDir → Bool
  | .attr name ip _ dflt => name == n && ip == isProp && dflt == defaultOf D isProp n
  | .unitAttr name ip _ => name == n && ip == isProp
  | .attrDict _ res exp => !res.contains n && (exp.contains n == isProp)
  | _ => false

theorem hasP_of_covers (D : Defs) (op : OpInst) (d : SDir) (isProp : Bool) (n : String) (v : Nat)
    (hc : coversS D isProp n d = true) (hg : dictGet isProp op n = some v)
    (hnd : defaultOf D isProp n ≠ some v) (q : DP) : HasP isProp n (replayDictS D op d q) := by
  cases d with
  | attr name ip optional dflt =>
    simp only [coversS, Bool.and_eq_true, beq_iff_eq] at hc
    obtain ⟨⟨rfl, rfl⟩, rfl⟩ := hc
    have : (defaultOf D ip name == some v) = false := by simpa using hnd
    simp only [replayDictS, hg, this, Bool.and_false, Bool.false_eq_true, if_false]
    exact hasP_setDP_hit ip q name v
  | unitAttr name ip u =>
    simp only [coversS, Bool.and_eq_true, beq_iff_eq] at hc
    obtain ⟨rfl, rfl⟩ := hc
    exact hasP_setDP_hit ip q name u
  | attrDict w res exp =>
    simp only [coversS, Bool.and_eq_true, Bool.not_eq_eq_eq_not, Bool.not_true, beq_iff_eq] at hc
    obtain ⟨hres, hexp⟩ := hc
    have hmem : (n, v) ∈ dictEntries D res exp op := by
      unfold dictEntries
      simp only [List.mem_filter, List.mem_append, Bool.and_eq_true, Bool.not_eq_eq_eq_not, Bool.not_true]
      refine ⟨?_, hres, ?_⟩
      · cases isProp with
        | true => exact Or.inr ⟨get_some_mem (by simpa [dictGet] using hg), hexp⟩
        | false => exact Or.inl (get_some_mem (by simpa [dictGet] using hg))
      · cases isProp with
        | true =>
          have hm : n ∈ exp := by simpa using hexp
          simpa [hm, defaultOf] using hnd
        | false =>
          have hm : ¬ n ∈ exp := by simpa using hexp
          simpa [hm, defaultOf] using hnd
    unfold HasP
    cases isProp with
    | true =>
      simp only [replayDictS, dsel, if_true]
      exact isSome_foldSet_hit (v := v) (List.mem_filter.mpr ⟨hmem, hexp⟩)
    | false =>
      simp only [replayDictS, dsel, Bool.false_eq_true, if_false]
      exact isSome_foldSet_hit (v := v) (List.mem_filter.mpr ⟨hmem, by simpa using hexp⟩)
  | _ => simp [coversS] at hc

/-- a directive that is not executed for `op` sits in the branch the printer skipped: its construct
is empty, and it is of a kind that may occur inside groups -/
theorem exec_or_empty (D : Defs) (op : OpInst) (fmt : List Dir) (K : List Cls) (d : SDir)
    (hwf : wfD fmt K = true) (hv : ValidD D op fmt) (hd : d ∈ allS fmt) :
    d ∈ execS op fmt ∨ (emptyS op d ∧ okInGroup d = true) := by
  induction fmt with
  | nil => cases hd
  | cons x xs ih =>
    cases x with
    | s x =>
      simp only [allS, List.mem_cons] at hd
      rcases hd with rfl | hd
      · exact Or.inl (List.mem_cons_self ..)
      · rcases ih (wfD_tail' hwf) hv.2 hd with h | h
        · exact Or.inl (List.mem_cons_of_mem _ h)
        · exact Or.inr h
    | group a f r e =>
      have hwf0 := hwf
      simp only [wfD, Bool.and_eq_true] at hwf
      obtain ⟨⟨⟨⟨⟨⟨⟨⟨⟨_, _⟩, _⟩, _⟩, hing⟩, hinge⟩, _⟩, _⟩, _⟩, _⟩ := hwf
      obtain ⟨_, _, hcons, hv4⟩ := hv
      simp only [allS, List.mem_append] at hd
      simp only [execS, List.mem_append]
      rcases hd with (hd | hd) | hd
      · by_cases hp : presentS op a = true
        · simp only [hp, if_true]; exact Or.inl (Or.inl hd)
        · simp only [GroupCons, hp, if_false, Bool.false_eq_true] at hcons
          exact Or.inr ⟨hcons d hd, mem_all hing hd⟩
      · by_cases hp : presentS op a = true
        · simp only [GroupCons, hp, if_true] at hcons
          have := mem_all hinge hd
          simp only [Bool.and_eq_true] at this
          exact Or.inr ⟨hcons.1 d hd, this.1⟩
        · simp only [hp, if_false, Bool.false_eq_true]; exact Or.inl (Or.inl (List.mem_cons_of_mem _ hd))
      · rcases ih (wfD_tail' hwf0) hv4 hd with h | h
        · exact Or.inl (Or.inr h)
        · exact Or.inr h

/-- every non-default entry of the operation ends up in the parsed dictionary -/
theorem hasP_final (D : Defs) (op : OpInst) (fmt : List Dir) (K : List Cls) (p : DP) (isProp : Bool)
    (n : String) (v : Nat) (d : SDir)
    (hwf : wfD fmt K = true) (hv : ValidD D op fmt) (hd : d ∈ allS fmt)
    (hc : coversS D isProp n d = true) (hg : dictGet isProp op n = some v)
    (hnd : defaultOf D isProp n ≠ some v) :
    HasP isProp n (replayDictSeq D op (execS op fmt) p) := by
  rcases exec_or_empty D op fmt K d hwf hv hd with hx | ⟨he, hig⟩
  · exact hasP_replayDictSeq_hit D op _ p isProp n d hx (hasP_of_covers D op d isProp n v hc hg hnd)
  · exfalso
    cases d with
    | attr name ip optional dflt =>
      simp only [coversS, Bool.and_eq_true, beq_iff_eq] at hc
      obtain ⟨⟨rfl, rfl⟩, rfl⟩ := hc
      simp only [emptyS] at he
      rcases he with he | ⟨_, he⟩
      · rw [he] at hg; cases hg
      · rw [hg] at he; exact hnd he.symm
    | unitAttr name ip u =>
      simp only [coversS, Bool.and_eq_true, beq_iff_eq] at hc
      obtain ⟨rfl, rfl⟩ := hc
      simp only [emptyS] at he
      rw [he] at hg; cases hg
    | attrDict w res exp => simp [okInGroup] at hig
    | _ => simp [coversS] at hc

/-- entries agree up to the declared defaults -/
theorem normGet_eq {defaults parsed orig : AL String Nat} {n : String}
    (hs : ∀ v, AL.get parsed n = some v → AL.get orig n = some v)
    (hc : ∀ v, AL.get orig n = some v → AL.get defaults n ≠ some v → (AL.get parsed n).isSome = true) :
    normGet defaults parsed n = normGet defaults orig n := by
  unfold normGet
  cases ho : AL.get orig n with
  | none =>
    cases hp : AL.get parsed n with
    | none => rfl
    | some w => have := hs w hp; rw [ho] at this; cases this
  | some v =>
    cases hp : AL.get parsed n with
    | none =>
      by_cases hd : AL.get defaults n = some v
      · simp [hd]
      · have := hc v ho hd; rw [hp] at this; cases this
    | some w =>
      have := hs w hp; rw [ho] at this; cases this
      rfl

end Xdsl.DeclFormat
