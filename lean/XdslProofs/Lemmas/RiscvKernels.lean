import XdslProofs.Lemmas.RiscvPyInt
import XdslProofs.Lemmas.RiscV
/-!
Width-generic facts about the Python integer expressions that occur in the `py_operation` kernels of
the rv32/rv64 immediate-shift and single-bit operations (`xdsl/dialects/rv32.py`, `rv64.py`): each
expression, read at `w` bits, is the `BitVec w` operation the instruction performs.  `c` is an
arbitrary Python int unless a range is stated; `InS w c` is the range of the payload of an
`IntegerAttr` of the signless type `iw` (what `get_constant_value` hands to the kernels).
Core Lean only (the bridge lemmas are those of `Lemmas/RiscvPyInt.lean`).
-/
namespace Xdsl.RvK
open Xdsl

/-- payload range of `IntegerAttr[iw]` (signless, normalised): the signed range -/
def InS (w : Nat) (c : Int) : Prop := -(2 : Int) ^ (w - 1) ≤ c ∧ c < (2 : Int) ^ (w - 1)

theorem toInt_inS {w : Nat} (x : BitVec w) : InS w x.toInt := ⟨BitVec.le_toInt x, BitVec.toInt_lt⟩

theorem pow_split (w : Nat) (hw : 1 ≤ w) : (2 : Int) ^ w = 2 * 2 ^ (w - 1) := by
  obtain ⟨n, rfl⟩ : ∃ n, w = n + 1 := ⟨w - 1, by omega⟩
  rw [Int.pow_succ]; simp; omega

theorem inS_signless {w : Nat} (hw : 1 ≤ w) {c : Int} (h : InS w c) :
    -(2 : Int) ^ (w - 1) ≤ c ∧ c < (2 : Int) ^ w := by
  have := pow_split w hw
  have hp : (0 : Int) < 2 ^ (w - 1) := Int.pow_pos (by omega)
  exact ⟨h.1, by have := h.2; omega⟩

theorem toInt_ofInt_of_inS {w : Nat} (hw : 1 ≤ w) {c : Int} (h : InS w c) : (BitVec.ofInt w c).toInt = c :=
  (toInt_unique w hw c c rfl h.1 h.2).symm

/-- a natural number below `2^w` is in the signless range -/
theorem nat_signless (w : Nat) (u : Nat) (hu : u < 2 ^ w) :
    -(2 : Int) ^ (w - 1) ≤ (u : Int) ∧ (u : Int) < (2 : Int) ^ w := by
  have hp : (0 : Int) < 2 ^ (w - 1) := Int.pow_pos (by omega)
  refine ⟨by omega, ?_⟩
  have : ((u : Nat) : Int) < ((2 ^ w : Nat) : Int) := by exact_mod_cast hu
  simpa using this

/-! ### shifts -/

/-- `c << n` at `w` bits -/
theorem ofInt_shl (w : Nat) (c : Int) (n : Nat) :
    BitVec.ofInt w (Py.shl c (n : Int)) = BitVec.ofInt w c <<< n := by
  rw [shl_nat, BitVec.ofInt_mul, BitVec.shiftLeft_eq_mul_twoPow]
  congr 1
  rw [two_pow_cast, BitVec.ofInt_natCast]
  apply BitVec.eq_of_toNat_eq
  simp [BitVec.toNat_twoPow]

theorem ofInt_one (w : Nat) : BitVec.ofInt w 1 = 1#w := by
  have : (1 : Int) = ((1 : Nat) : Int) := rfl
  rw [this, BitVec.ofInt_natCast]

/-- `1 << n` at `w` bits -/
theorem ofInt_one_shl (w : Nat) (n : Nat) : BitVec.ofInt w (Py.shl 1 (n : Int)) = 1#w <<< n := by
  rw [ofInt_shl, ofInt_one]

/-- `c % 2**w` is the unsigned value of the `w`-bit pattern -/
theorem umod_eq (w : Nat) (c : Int) : Py.mod c ((2 : Int) ^ w) = ((BitVec.ofInt w c).toNat : Int) := by
  have hpos : (0 : Int) < 2 ^ w := Int.pow_pos (by omega)
  rw [mod_eq_emod _ _ (Int.le_of_lt hpos), BitVec.toNat_ofInt, ← two_pow_cast,
    Int.toNat_of_nonneg (Int.emod_nonneg _ (Int.ne_of_gt hpos))]

/-- `u >> n` of an unsigned value is the logical right shift -/
theorem shr_unsigned {w : Nat} (A : BitVec w) (n : Nat) :
    Py.shr (A.toNat : Int) (n : Int) = ((A >>> n).toNat : Int) := by
  rw [shr_nat, BitVec.toNat_ushiftRight, Nat.shiftRight_eq_div_pow, two_pow_cast]
  norm_cast

/-- `c >> n` of a two's-complement value is the arithmetic right shift -/
theorem shr_signed {w : Nat} (A : BitVec w) (n : Nat) :
    Py.shr A.toInt (n : Int) = (A.sshiftRight n).toInt := by
  rw [shr_nat, BitVec.toInt_sshiftRight, Int.shiftRight_eq_div_pow]; norm_cast

theorem ofInt_toNat {w : Nat} (A : BitVec w) : BitVec.ofInt w (A.toNat : Int) = A := by
  rw [BitVec.ofInt_natCast]; simp

theorem toNat_signless {w : Nat} (A : BitVec w) :
    -(2 : Int) ^ (w - 1) ≤ (A.toNat : Int) ∧ (A.toNat : Int) < (2 : Int) ^ w :=
  nat_signless w A.toNat A.isLt

/-! ### bitwise -/

/-- `~a` at `w` bits -/
theorem ofInt_lnot (w : Nat) (a : Int) : BitVec.ofInt w (Py.lnot a) = ~~~BitVec.ofInt w a := by
  have e : Py.lnot a = -a + -1 := by simp only [Py.lnot]; omega
  rw [e, BitVec.ofInt_add, BitVec.ofInt_neg]
  have h := BitVec.neg_eq_not_add (BitVec.ofInt w a)
  rw [h]
  have : BitVec.ofInt w (-1) = -1#w := by rw [BitVec.ofInt_neg, ofInt_one]
  rw [this, BitVec.add_assoc, BitVec.add_right_neg]
  simp

/-- `c & (1 << n)` is `2**n` or `0` according to bit `n` of `c` -/
theorem land_two_pow (c : Int) (n : Nat) :
    Py.land c ((2 : Int) ^ n) = if tb c n then (2 : Int) ^ n else 0 := by
  rw [two_pow_cast]
  cases c with
  | ofNat m =>
    show Int.ofNat (m &&& 2 ^ n) = _
    have : m &&& 2 ^ n = if m.testBit n then 2 ^ n else 0 := by
      apply Nat.eq_of_testBit_eq
      intro i
      rw [Nat.testBit_and, Nat.testBit_two_pow]
      by_cases h : n = i
      · subst h; cases m.testBit n <;> simp
      · cases m.testBit n <;> simp [h]
    rw [this]
    simp only [tb]
    rcases Bool.eq_false_or_eq_true (m.testBit n) with h | h <;> simp [h]
  | negSucc m =>
    show Int.ofNat (Py.natLdiff (2 ^ n) m) = _
    simp only [tb]
    have : Py.natLdiff (2 ^ n) m = if (!m.testBit n) then 2 ^ n else 0 := by
      apply Nat.eq_of_testBit_eq
      intro i
      rw [natLdiff_testBit, Nat.testBit_two_pow]
      by_cases h : n = i
      · subst h; cases m.testBit n <;> simp
      · cases m.testBit n <;> simp [h]
    rw [this]
    rcases Bool.eq_false_or_eq_true (m.testBit n) with h | h <;> simp [h]

/-- `c | (1 << n)` stays in the signless range of `iw` for a payload `c` of `iw` and `n < w` -/
theorem lor_two_pow_range (w : Nat) (c : Int) (hc : InS w c) (n : Nat) (hn : n < w) :
    -(2 : Int) ^ (w - 1) ≤ Py.lor c ((2 : Int) ^ n) ∧ Py.lor c ((2 : Int) ^ n) < (2 : Int) ^ w := by
  have hw : 1 ≤ w := by omega
  have hp : (0 : Int) < 2 ^ (w - 1) := Int.pow_pos (by omega)
  have hsp := pow_split w hw
  rw [two_pow_cast n]
  cases c with
  | ofNat m =>
    show _ ≤ Int.ofNat (m ||| 2 ^ n) ∧ Int.ofNat (m ||| 2 ^ n) < _
    have hm : m < 2 ^ w := by
      have h2 := hc.2
      have : ((m : Nat) : Int) < ((2 ^ w : Nat) : Int) := by
        rw [← two_pow_cast]; simp only [Int.ofNat_eq_natCast] at h2; omega
      exact_mod_cast this
    have hk : 2 ^ n < 2 ^ w := Nat.pow_lt_pow_right (by omega) hn
    exact nat_signless w _ (Nat.or_lt_two_pow hm hk)
  | negSucc m =>
    show _ ≤ Int.negSucc (Py.natLdiff m (2 ^ n)) ∧ Int.negSucc (Py.natLdiff m (2 ^ n)) < _
    have hm : m < 2 ^ (w - 1) := by
      have h1 := hc.1
      have : ((m : Nat) : Int) < ((2 ^ (w - 1) : Nat) : Int) := by
        rw [← two_pow_cast]; simp only [Int.negSucc_eq] at h1; omega
      exact_mod_cast this
    have hl : Py.natLdiff m (2 ^ n) < 2 ^ (w - 1) := by
      apply Nat.lt_pow_two_of_testBit
      intro i hi
      rw [natLdiff_testBit]
      have : m < 2 ^ i := Nat.lt_of_lt_of_le hm (Nat.pow_le_pow_right (by omega) hi)
      rw [Nat.testBit_lt_two_pow this]; rfl
    have hl' : ((Py.natLdiff m (2 ^ n) : Nat) : Int) < (2 : Int) ^ (w - 1) := by
      rw [two_pow_cast]; exact_mod_cast hl
    simp only [Int.negSucc_eq]
    omega

/-- bit `n` of the `w`-bit pattern of `c` -/
theorem getLsbD_ofInt_lt (w : Nat) (c : Int) (n : Nat) (hn : n < w) :
    (BitVec.ofInt w c).getLsbD n = tb c n := by
  rw [getLsbD_ofInt]; simp [hn]

/-- `(x >> n) & 1` on bit vectors is bit `n` -/
theorem bext_eq {w : Nat} (A : BitVec w) (n : Nat) :
    (A >>> n) &&& 1#w = if A.getLsbD n then 1#w else 0#w := by
  apply BitVec.eq_of_getLsbD_eq
  intro i hi
  rw [BitVec.getLsbD_and, BitVec.getLsbD_ushiftRight]
  by_cases h0 : i = 0
  · subst h0
    cases A.getLsbD n <;> simp
  · have : (1#w).getLsbD i = false := by
      simp [BitVec.getLsbD_one, h0]
    rw [this]
    cases A.getLsbD n <;> simp [BitVec.getLsbD_one, h0]

/-! ### rotate -/

/-- `(u >> n | u << (w - n)) % 2**w` of the unsigned value `u` is the rotation -/
theorem ror_eq {w : Nat} (A : BitVec w) (n : Nat) (hn : n < w) :
    BitVec.ofInt w (Py.mod (Py.lor (Py.shr (A.toNat : Int) (n : Int)) (Py.shl (A.toNat : Int) ((w : Int) - (n : Int)))) ((2 : Int) ^ w))
      = A.rotateRight n := by
  have e : (w : Int) - (n : Int) = ((w - n : Nat) : Int) := by omega
  rw [umod_eq, ofInt_toNat, ofInt_lor, e, ofInt_shl, shr_unsigned, ofInt_toNat, ofInt_toNat,
    BitVec.rotateRight_def, Nat.mod_eq_of_lt hn]

/-! ### the kernel bodies: `IntegerAttr(<expression>, iw[, truncate_bits=True]).value.data`

`nv w v t` below is `IntegerType.normalized_value` as translated from `xdsl/dialects/builtin.py`
(`none` = the `IntegerAttr` constructor raises).  `aluSW` is the instruction at width `w`
(`Xdsl.RiscV.aluS` is the instance `w = 32`). -/

open Xdsl.RiscV in
/-- the immediate-shift / single-bit instructions on `w`-bit registers -/
def aluSW {w : Nat} (op : SOp) (a : BitVec w) (n : Nat) : BitVec w :=
  match op with
  | .slli => a <<< n
  | .srli => a >>> n
  | .srai => a.sshiftRight n
  | .bclri => a &&& ~~~((1#w) <<< n)
  | .bexti => (a >>> n) &&& 1#w
  | .binvi => a ^^^ ((1#w) <<< n)
  | .bseti => a ||| ((1#w) <<< n)
  | .rori => a.rotateRight n

theorem aluS_eq (op : RiscV.SOp) (a : RiscV.W) (n : Nat) : RiscV.aluS op a n = aluSW op a n := by
  cases op <;> rfl

local notation "nv" => Xdsl.Generated.BuiltinInt.normalized_value_signless

theorem nv_toInt {w : Nat} (hw : 1 ≤ w) (X : BitVec w) (t : Bool) : nv (w : Int) X.toInt t = some X.toInt := by
  rw [normalized_eq w hw _ t (Or.inr (inS_signless hw (toInt_inS X))), BitVec.ofInt_toInt]

theorem nv_toNat {w : Nat} (hw : 1 ≤ w) (X : BitVec w) (t : Bool) : nv (w : Int) (X.toNat : Int) t = some X.toInt := by
  rw [normalized_eq w hw _ t (Or.inr (toNat_signless X)), ofInt_toNat]

theorem slli_body (w : Nat) (hw : 1 ≤ w) (c : Int) (n : Nat) :
    nv (w : Int) (Py.shl c (n : Int)) true = some (aluSW .slli (BitVec.ofInt w c) n).toInt := by
  rw [normalized_eq w hw _ true (Or.inl rfl), ofInt_shl]; rfl

theorem srli_body (w : Nat) (hw : 1 ≤ w) (c : Int) (n : Nat) (m : Int) (hm : m = 2 ^ w) :
    nv (w : Int) (Py.shr (Py.mod c m) (n : Int)) false = some (aluSW .srli (BitVec.ofInt w c) n).toInt := by
  subst hm
  rw [umod_eq, shr_unsigned, nv_toNat hw]; rfl

theorem srai_body (w : Nat) (hw : 1 ≤ w) (c : Int) (hc : InS w c) (n : Nat) :
    nv (w : Int) (Py.shr c (n : Int)) false = some (aluSW .srai (BitVec.ofInt w c) n).toInt := by
  obtain ⟨A, rfl⟩ : ∃ A : BitVec w, c = A.toInt := ⟨BitVec.ofInt w c, (toInt_ofInt_of_inS hw hc).symm⟩
  rw [shr_signed, nv_toInt hw, BitVec.ofInt_toInt]; rfl

theorem bclri_body (w : Nat) (hw : 1 ≤ w) (c : Int) (n : Nat) :
    nv (w : Int) (Py.land c (Py.lnot (Py.shl 1 (n : Int)))) true = some (aluSW .bclri (BitVec.ofInt w c) n).toInt := by
  rw [normalized_eq w hw _ true (Or.inl rfl), ofInt_land, ofInt_lnot, ofInt_one_shl]; rfl

theorem binvi_body (w : Nat) (hw : 1 ≤ w) (c : Int) (n : Nat) :
    nv (w : Int) (Py.xor c (Py.shl 1 (n : Int))) true = some (aluSW .binvi (BitVec.ofInt w c) n).toInt := by
  rw [normalized_eq w hw _ true (Or.inl rfl), ofInt_xor, ofInt_one_shl]; rfl

theorem bseti_body (w : Nat) (c : Int) (hc : InS w c) (n : Nat) (hn : n < w) :
    nv (w : Int) (Py.lor c (Py.shl 1 (n : Int))) false = some (aluSW .bseti (BitVec.ofInt w c) n).toInt := by
  have hw : 1 ≤ w := by omega
  have hr := lor_two_pow_range w c hc n hn
  rw [← shl_one_nat n] at hr
  rw [normalized_eq w hw _ false (Or.inr hr), ofInt_lor, ofInt_one_shl]; rfl

theorem bexti_body (w : Nat) (c : Int) (n : Nat) (hn : n < w) :
    nv (w : Int) (if (Py.land c (Py.shl 1 (n : Int)) != 0) then 1 else 0) false
      = some (aluSW .bexti (BitVec.ofInt w c) n).toInt := by
  have hw : 1 ≤ w := by omega
  have hp : (2 : Int) ^ n ≠ 0 := Int.ne_of_gt (Int.pow_pos (by omega))
  have e : (Py.land c (Py.shl 1 (n : Int)) != 0) = tb c n := by
    rw [shl_one_nat, land_two_pow]
    cases tb c n <;> simp [hp]
  have hv : aluSW .bexti (BitVec.ofInt w c) n = if tb c n then 1#w else 0#w := by
    show (BitVec.ofInt w c >>> n) &&& 1#w = _
    rw [bext_eq, getLsbD_ofInt_lt w c n hn]
  rw [e, hv]
  have h1 : (1 : Int) < 2 ^ w := by
    have := pow_split w hw
    have : (0 : Int) < 2 ^ (w - 1) := Int.pow_pos (by omega)
    omega
  have hp1 : (0 : Int) < 2 ^ (w - 1) := Int.pow_pos (by omega)
  cases tb c n
  · rw [normalized_eq w hw _ false (Or.inr ⟨by simp; omega, by simp; omega⟩)]; simp
  · rw [normalized_eq w hw _ false (Or.inr ⟨by simp; omega, by simpa using h1⟩)]
    simp only [if_true]; rw [ofInt_one]

theorem rori_body (w : Nat) (c : Int) (n : Nat) (hn : n < w) (m : Int) (hm : m = 2 ^ w) :
    nv (w : Int) (Py.mod (Py.lor (Py.shr (Py.mod c m) (n : Int)) (Py.shl (Py.mod c m) ((w : Int) - (n : Int)))) m) false
      = some (aluSW .rori (BitVec.ofInt w c) n).toInt := by
  have hw : 1 ≤ w := by omega
  subst hm
  have h := ror_eq (BitVec.ofInt w c) n hn
  rw [← umod_eq] at h
  generalize hX : Py.lor (Py.shr (Py.mod c (2 ^ w)) (n : Int)) (Py.shl (Py.mod c (2 ^ w)) ((w : Int) - (n : Int))) = X at h ⊢
  rw [umod_eq w X, nv_toNat hw]
  rw [umod_eq w X, ofInt_toNat] at h
  rw [h]; rfl

end Xdsl.RvK
