import XdslModel.Literals
/-!
Helper lemmas for C06 (`XdslModel/Literals.lean`): UTF-8 bridge to the core library, per-byte
facts of the escaping, positional digit strings, and the number lexer on printed numbers.
-/
namespace Xdsl.Literals

/-! ## UTF-8 -/

theorem utf8_eq (s : List Char) : (utf8 s).toByteArray = s.utf8Encode := by
  have : utf8 s = s.flatMap String.utf8EncodeChar := by
    induction s with
    | nil => rfl
    | cons c l ih => simp [utf8, ih]
  rw [this]; rfl

theorem utf8Decode_utf8 (s : List Char) : utf8Decode? (utf8 s) = some s := by
  simp [utf8Decode?, utf8_eq]

theorem isUtf8_utf8 (s : List Char) : isUtf8 (utf8 s) = true := by
  simp [isUtf8, utf8Decode_utf8]

/-! ## escaping, byte by byte -/

theorem hexU_props : ∀ n, n < 16 → hexVal? (hexU n) = some n ∧ hexU n ≠ '"' ∧ hexU n ≠ 'n' ∧
    hexU n ≠ 't' ∧ hexU n ≠ '\\' := by decide

theorem hexL_props : ∀ n, n < 16 → hexVal? (hexL n) = some n := by decide

/-- the bytes `print_bytes_literal` writes as an escape sequence -/
def needsEsc (b : UInt8) : Bool := b = 0x5C || b < 0x20 || b > 0x7E || b = 0x22

theorem plain_props : ∀ n, n < 256 → needsEsc (UInt8.ofNat n) = false →
    (Char.ofNat n ≠ '"' ∧ Char.ofNat n ≠ '\\' ∧ Char.ofNat n ≠ '\n' ∧ Char.ofNat n ≠ '\x0b' ∧
      Char.ofNat n ≠ '\x0c' ∧ String.utf8EncodeChar (Char.ofNat n) = [UInt8.ofNat n]) := by
  decide +kernel

theorem scanBody_escapeByte (b : UInt8) (t : List Char) :
    scanBody (escapeByte b ++ t) = Scan.push [b] (needsEsc b) (scanBody t) := by
  unfold escapeByte
  by_cases h1 : b = 0x5C
  · subst h1
    simp [scanBody, needsEsc]
  · simp only [h1, if_false]
    by_cases h2 : (b < 0x20 || b > 0x7E || b = 0x22) = true
    · simp only [h2, if_true]
      have hhi : b.toNat / 16 < 16 := by have := b.toNat_lt; omega
      have hlo : b.toNat % 16 < 16 := Nat.mod_lt _ (by decide)
      obtain ⟨a1, a2, a3, a4, a5⟩ := hexU_props _ hhi
      obtain ⟨c1, _, _, _, _⟩ := hexU_props _ hlo
      have hb : UInt8.ofNat (b.toNat / 16 * 16 + b.toNat % 16) = b := by
        rw [Nat.div_add_mod']; exact UInt8.ofNat_toNat
      have hn : needsEsc b = true := by
        unfold needsEsc
        rw [Bool.or_assoc, Bool.or_assoc, ← Bool.or_assoc (b < 0x20), h2]; simp
      rw [hn]
      simp only [List.cons_append, List.nil_append]
      rw [scanBody.eq_def]
      simp [a1, a2, a3, a4, a5, c1, hb]
    · have hn : needsEsc b = false := by
        unfold needsEsc
        rw [Bool.or_assoc, Bool.or_assoc, ← Bool.or_assoc (b < 0x20)]
        simp only [Bool.not_eq_true] at h2
        rw [h2]; simp [h1]
      simp only [h2]
      have hp := plain_props b.toNat b.toNat_lt (by rw [UInt8.ofNat_toNat]; exact hn)
      rw [UInt8.ofNat_toNat] at hp
      obtain ⟨p1, p2, p3, p4, p5, p6⟩ := hp
      rw [hn]
      simp only [Bool.false_eq_true, if_false, List.cons_append, List.nil_append]
      rw [scanBody.eq_def]
      simp [p1, p2, p3, p4, p5, p6]

theorem scanBody_escape (bs : List UInt8) (rest : List Char) :
    scanBody (escape bs ++ '"' :: rest) = some ⟨bs, bs.any needsEsc, rest⟩ := by
  induction bs with
  | nil => simp only [escape, List.nil_append]; rw [scanBody.eq_def]; simp
  | cons b bs ih =>
    simp only [escape, List.append_assoc]
    rw [scanBody_escapeByte, ih]
    simp [Scan.push]

/-- bytes that are printed without any escape are printable ASCII, hence valid UTF-8 -/
theorem isUtf8_of_no_esc (bs : List UInt8) (h : bs.any needsEsc = false) : isUtf8 bs = true := by
  have : bs = utf8 (bs.map fun b => Char.ofNat b.toNat) := by
    induction bs with
    | nil => rfl
    | cons b bs ih =>
      simp only [List.any_cons, Bool.or_eq_false_iff] at h
      have hp := plain_props b.toNat b.toNat_lt (by rw [UInt8.ofNat_toNat]; exact h.1)
      rw [UInt8.ofNat_toNat] at hp
      simp only [List.map_cons, utf8, hp.2.2.2.2.2, List.singleton_append]
      rw [← ih h.2]
  rw [this]; exact isUtf8_utf8 _

/-! ## positional digit strings -/

theorem toBaseAux_append (b : Nat) (dig : Nat → Char) (fuel n : Nat) (acc t : List Char) :
    toBaseAux b dig fuel n (acc ++ t) = toBaseAux b dig fuel n acc ++ t := by
  induction fuel generalizing n acc with
  | zero => simp [toBaseAux]
  | succ k ih =>
    simp only [toBaseAux]
    split
    · simp
    · rw [← List.cons_append, ih]

theorem div_lt_of_div_ne_zero {n b : Nat} (hb : 2 ≤ b) (h : n / b ≠ 0) : n / b < n :=
  Nat.div_lt_self (by
    rcases Nat.eq_zero_or_pos n with h0 | h0
    · subst h0; simp at h
    · exact h0) hb

theorem toBaseAux_fuel (b : Nat) (hb : 2 ≤ b) (dig : Nat → Char) (f1 f2 n : Nat) (acc : List Char)
    (h1 : n < f1) (h2 : n < f2) : toBaseAux b dig f1 n acc = toBaseAux b dig f2 n acc := by
  induction f1 generalizing f2 n acc with
  | zero => omega
  | succ k ih =>
    cases f2 with
    | zero => omega
    | succ m =>
      simp only [toBaseAux]
      split
      · rfl
      · rename_i hne
        have := div_lt_of_div_ne_zero hb hne
        exact ih m (n / b) _ (by omega) (by omega)

/-- `toDec`/`toHexU` with the base as a parameter -/
def toBase (b : Nat) (dig : Nat → Char) (n : Nat) : List Char := toBaseAux b dig (n + 1) n []

theorem toDec_eq (n : Nat) : toDec n = toBase 10 hexU n := rfl
theorem toHexU_eq (n : Nat) : toHexU n = toBase 16 hexU n := rfl

theorem toBase_small (b : Nat) (dig : Nat → Char) (n : Nat) (h : n / b = 0) :
    toBase b dig n = [dig (n % b)] := by
  simp [toBase, toBaseAux, h]

theorem toBase_step (b : Nat) (hb : 2 ≤ b) (dig : Nat → Char) (n : Nat) (h : n / b ≠ 0) :
    toBase b dig n = toBase b dig (n / b) ++ [dig (n % b)] := by
  have hlt := div_lt_of_div_ne_zero hb h
  unfold toBase
  rw [toBaseAux]
  simp only [h, if_false]
  have := toBaseAux_append b dig n (n / b) [] [dig (n % b)]
  simp only [List.nil_append] at this
  rw [this, toBaseAux_fuel b hb dig n (n / b + 1) (n / b) [] hlt (by omega)]

theorem ofDigits_append (b : Nat) (xs ys : List Char) :
    ofDigits b (xs ++ ys) = ys.foldl (fun acc c => acc * b + (hexVal? c).getD 0) (ofDigits b xs) := by
  simp [ofDigits, List.foldl_append]

/-- value, non-emptiness and digit characters of `toBase` with the upper-case digits -/
theorem toBase_spec (b : Nat) (hb : 2 ≤ b) (hb16 : b ≤ 16) (n : Nat) :
    ofDigits b (toBase b hexU n) = n ∧ toBase b hexU n ≠ [] ∧
    (∀ c ∈ toBase b hexU n, ∃ d, d < b ∧ c = hexU d) := by
  induction n using Nat.strongRecOn with
  | _ n ih =>
    by_cases h : n / b = 0
    · rw [toBase_small b hexU n h]
      have hlt : n % b < 16 := by have := Nat.mod_lt n (show 0 < b by omega); omega
      have hn : n % b = n := by
        have := Nat.div_add_mod n b; rw [h] at this; omega
      refine ⟨?_, by simp, ?_⟩
      · have := (hexU_props _ hlt).1
        rw [hn] at this
        simp only [ofDigits, List.foldl_cons, List.foldl_nil, hn]
        simp [this]
      · intro c hc; simp at hc; exact ⟨n % b, Nat.mod_lt n (by omega), hc⟩
    · have hlt := div_lt_of_div_ne_zero hb h
      obtain ⟨i1, _, i3⟩ := ih (n / b) hlt
      rw [toBase_step b hb hexU n h]
      have hd : n % b < 16 := by have := Nat.mod_lt n (show 0 < b by omega); omega
      refine ⟨?_, by simp, ?_⟩
      · rw [ofDigits_append, i1]
        simp [(hexU_props _ hd).1]
        have := Nat.div_add_mod n b
        rw [Nat.mul_comm]; exact this
      · intro c hc
        rcases List.mem_append.1 hc with hc | hc
        · exact i3 c hc
        · simp at hc; exact ⟨n % b, Nat.mod_lt n (by omega), hc⟩

theorem isDigit_hexU : ∀ d, d < 10 → isDigit (hexU d) = true := by decide
theorem isHexDigit_hexU : ∀ d, d < 16 → isHexDigit (hexU d) = true := by decide
theorem isHexDigit_hexL : ∀ d, d < 16 → isHexDigit (hexL d) = true := by decide

theorem toDec_digits (n : Nat) : ∀ c ∈ toDec n, isDigit c = true := by
  intro c hc
  obtain ⟨d, hd, rfl⟩ := (toBase_spec 10 (by decide) (by decide) n).2.2 c hc
  exact isDigit_hexU d hd

theorem toDec_ne_nil (n : Nat) : toDec n ≠ [] := (toBase_spec 10 (by decide) (by decide) n).2.1
theorem ofDigits_toDec (n : Nat) : ofDigits 10 (toDec n) = n := (toBase_spec 10 (by decide) (by decide) n).1

theorem toHexU_digits (n : Nat) : ∀ c ∈ toHexU n, isHexDigit c = true := by
  intro c hc
  obtain ⟨d, hd, rfl⟩ := (toBase_spec 16 (by decide) (by decide) n).2.2 c hc
  exact isHexDigit_hexU d hd

theorem toHexU_ne_nil (n : Nat) : toHexU n ≠ [] := (toBase_spec 16 (by decide) (by decide) n).2.1
theorem ofDigits_toHexU (n : Nat) : ofDigits 16 (toHexU n) = n := (toBase_spec 16 (by decide) (by decide) n).1

/-! ## the number lexer on printed numbers -/

theorem spanP_all (p : Char → Bool) (ds t : List Char) (h : ∀ c ∈ ds, p c = true)
    (ht : t = [] ∨ ∃ c r, t = c :: r ∧ p c = false) : spanP p (ds ++ t) = (ds, t) := by
  induction ds with
  | nil =>
    rcases ht with rfl | ⟨c, r, rfl, hc⟩
    · rfl
    · simp [spanP, hc]
  | cons d ds ih =>
    have hd := h d (by simp)
    have := ih (fun c hc => h c (by simp [hc]))
    simp [spanP, hd, this]

theorem lexHex?_none_of_second (c : Char) (rest : List Char)
    (h : rest = [] ∨ ∃ e r, rest = e :: r ∧ e ≠ 'x') : lexHex? (c :: rest) = none := by
  unfold lexHex?
  split
  · rename_i h' r heq
    simp at heq
    rcases h with h0 | ⟨e, r', h1, h2⟩
    · rw [h0] at heq; simp at heq
    · rw [h1] at heq; simp at heq; exact absurd heq.2.1 h2
  · rfl

theorem lexNumber_dec (ds t : List Char) (hne : ds ≠ []) (hall : ∀ c ∈ ds, isDigit c = true)
    (ht : t = [] ∨ ∃ c r, t = c :: r ∧ isDigit c = false ∧ c ≠ '.' ∧ c ≠ 'x') :
    lexNumber (ds ++ t) = some (.int (ofDigits 10 ds) false, t) := by
  have hspan : spanDigits (ds ++ t) = (ds, t) := by
    unfold spanDigits
    apply spanP_all _ _ _ hall
    rcases ht with h | ⟨c, r, h1, h2, _⟩
    · exact Or.inl h
    · exact Or.inr ⟨c, r, h1, h2⟩
  have hx : isDigit 'x' = false := by decide
  cases ds with
  | nil => exact absurd rfl hne
  | cons d ds' =>
    have hd := hall d (by simp)
    have hhex : lexHex? (d :: ds' ++ t) = none := by
      apply lexHex?_none_of_second
      cases ds' with
      | nil =>
        rcases ht with h0 | ⟨c, r, h1, _, _, h4⟩
        · exact Or.inl (by simp [h0])
        · exact Or.inr ⟨c, r, by simp [h1], h4⟩
      | cons e es =>
        refine Or.inr ⟨e, es ++ t, rfl, ?_⟩
        intro he
        have := hall e (by simp)
        rw [he, hx] at this; exact Bool.noConfusion this
    have hdec : lexDec (d :: ds' ++ t) = (.int (ofDigits 10 (d :: ds')) false, t) := by
      unfold lexDec
      rw [hspan]
      rcases ht with h0 | ⟨c, r, h1, _, h3, _⟩
      · subst h0; rfl
      · subst h1
        simp only []
        split
        · rename_i heq; simp at heq; exact absurd heq.1 h3
        · rfl
    unfold lexNumber
    simp only [List.cons_append, hd, Bool.not_true, Bool.false_eq_true, if_false]
    simp only [List.cons_append] at hhex hdec
    rw [hhex, hdec]

theorem lexNumber_hex (hs : List Char) (hne : hs ≠ []) (hall : ∀ c ∈ hs, isHexDigit c = true) :
    lexNumber ('0' :: 'x' :: hs) = some (.int (ofDigits 16 hs) true, []) := by
  cases hs with
  | nil => exact absurd rfl hne
  | cons h r =>
    have hh := hall h (by simp)
    have hspan : spanHex (h :: r) = (h :: r, []) := by
      have := spanP_all isHexDigit (h :: r) [] hall (Or.inl rfl)
      simpa [spanHex] using this
    unfold lexNumber
    simp [lexHex?, hh, hspan, show isDigit '0' = true by decide]


/-! ## integer attributes -/

theorem ctor_arith_signless (P H v v' : Int) (hH : 0 < H) (hw : (P = 1 ∧ H = 1) ∨ P = 2 * H)
    (h : (if -(P / 2) ≤ v ∧ v < P then
            if H ≤ v then if -(P / 2) ≤ v - P ∧ v - P < P then some (v - P) else none else some v
          else none) = some v') :
    (if -(P / 2) ≤ v' ∧ v' < P then
        if H ≤ v' then if -(P / 2) ≤ v' - P ∧ v' - P < P then some (v' - P) else none else some v'
      else none) = some v' ∧ (-(P / 2) ≤ v' ∧ v' < P) ∧ v' < H := by
  split at h
  · split at h
    · split at h
      · simp at h; subst h
        have h1 : -(P / 2) ≤ v - P ∧ v - P < P := by omega
        have h2 : ¬ (H ≤ v - P) := by omega
        simp [h1, h2]; omega
      · simp at h
    · simp at h; subst h
      rename_i h1 h2
      simp [h1, h2]; omega
  · simp at h

theorem ctor_arith_signed (P H v v' : Int) (hH : 0 < H) (hw : (P = 1 ∧ H = 1) ∨ P = 2 * H)
    (h : (if -(P / 2) ≤ v ∧ v < H then
            if H ≤ v then if -(P / 2) ≤ v - P ∧ v - P < H then some (v - P) else none else some v
          else none) = some v') :
    (if -(P / 2) ≤ v' ∧ v' < H then
        if H ≤ v' then if -(P / 2) ≤ v' - P ∧ v' - P < H then some (v' - P) else none else some v'
      else none) = some v' ∧ (-(P / 2) ≤ v' ∧ v' < H) ∧ v' < H := by
  split at h
  · split at h
    · omega
    · simp at h; subst h
      rename_i h1 h2
      simp [h1, h2]
  · simp at h

theorem pow_facts (w : Nat) : 0 < (2:Int)^(w-1) ∧
    (((2:Int)^w = 1 ∧ (2:Int)^(w-1) = 1) ∨ (2:Int)^w = 2 * (2:Int)^(w-1)) := by
  refine ⟨Int.pow_pos (by decide), ?_⟩
  cases w with
  | zero => left; simp
  | succ k => right; simp [Int.pow_succ]; omega

theorem inRange_iff (s : Sgn) (w : Nat) (v : Int) :
    inRange s w v = true ↔ (valueRange s w).1 ≤ v ∧ v < (valueRange s w).2 := by
  simp [inRange]

/-- `IntegerAttr.__init__` in arithmetic form -/
theorem intAttrCtor_int (s : Sgn) (w : Nat) (v : Int) :
    intAttrCtor (.int s w) v =
      if inRange s w v = true then
        (if s ≠ .unsigned ∧ signedUB w ≤ v then
          (if inRange s w (v - unsignedUB w) = true then some (v - unsignedUB w) else none)
         else some v)
      else none := by
  unfold intAttrCtor normalizedValue
  by_cases h : inRange s w v = true
  · simp only [h, Bool.not_true, Bool.false_and, Bool.false_eq_true, if_false, if_true]
    by_cases h2 : s ≠ .unsigned ∧ signedUB w ≤ v
    · simp [h2]
    · have : (decide (s ≠ Sgn.unsigned) && decide (signedUB w ≤ v)) = false := by
        simp only [Bool.and_eq_false_iff, decide_eq_false_iff_not]
        by_cases hs : s ≠ .unsigned
        · right; intro hh; exact h2 ⟨hs, hh⟩
        · left; exact hs
      simp [h2, h]
  · simp only [Bool.not_eq_true] at h
    simp [h]

theorem intAttrCtor_spec (ty : IntTy) (v v' : Int) (h : intAttrCtor ty v = some v') :
    intAttrCtor ty v' = some v' ∧
    (∀ s w, ty = .int s w → inRange s w v' = true ∧ (s ≠ .unsigned → v' < signedUB w)) := by
  cases ty with
  | index => simp [intAttrCtor] at h ⊢
  | int s w =>
    obtain ⟨hH, hw⟩ := pow_facts w
    rw [intAttrCtor_int] at h ⊢
    simp only [inRange_iff] at h ⊢
    cases s with
    | signless =>
      simp only [valueRange, signedLB, signedUB, unsignedUB, ne_eq, reduceCtorEq,
        not_false_eq_true, true_and] at h ⊢
      obtain ⟨a, b, c⟩ := ctor_arith_signless _ _ v v' hH hw h
      refine ⟨a, ?_⟩
      intro s' w' heq; cases heq
      simp only [inRange_iff, valueRange, signedLB, signedUB, unsignedUB]
      exact ⟨b, fun _ => c⟩
    | signed =>
      simp only [valueRange, signedLB, signedUB, unsignedUB, ne_eq, reduceCtorEq,
        not_false_eq_true, true_and] at h ⊢
      obtain ⟨a, b, c⟩ := ctor_arith_signed _ _ v v' hH hw h
      refine ⟨a, ?_⟩
      intro s' w' heq; cases heq
      simp only [inRange_iff, valueRange, signedLB, signedUB, unsignedUB]
      exact ⟨b, fun _ => c⟩
    | unsigned =>
      simp only [valueRange, unsignedUB, ne_eq, not_true_eq_false, false_and, if_false] at h ⊢
      split at h
      · simp at h; subst h
        rename_i h1
        simp only [h1, and_self, if_true, true_and]
        intro s' w' heq; cases heq
        simp only [inRange_iff, valueRange, unsignedUB]
        exact ⟨h1, fun hc => absurd trivial hc⟩
      · simp at h


theorem isIdentChar_of_isDigit (c : Char) (h : isDigit c = true) : isIdentChar c = true := by
  simp [isIdentChar, h]

theorem parseIntTy_printIntTy (ty : IntTy) : parseIntTy (printIntTy ty) = some ty ∧
    (printIntTy ty).all isIdentChar = true ∧ dropSpaces (printIntTy ty) = printIntTy ty := by
  have hn : isDigit 'n' = false := by decide
  cases ty with
  | index => decide
  | int s w =>
    have hd := toDec_digits w
    have hne := toDec_ne_nil w
    have hof := ofDigits_toDec w
    have hall : (toDec w).all isDigit = true := List.all_eq_true.2 hd
    have hid : (toDec w).all isIdentChar = true :=
      List.all_eq_true.2 fun c hc => isIdentChar_of_isDigit c (hd c hc)
    have hemp : (toDec w).isEmpty = false := by
      cases h : toDec w with
      | nil => exact absurd h hne
      | cons _ _ => rfl
    cases s with
    | signless =>
      have hidx : ¬ toDec w = ['n', 'd', 'e', 'x'] := by
        intro h'
        have : 'n' ∈ toDec w := by rw [h']; simp
        rw [hd _ this] at hn; exact Bool.noConfusion hn
      refine ⟨?_, ?_, ?_⟩
      · simp [parseIntTy, printIntTy, hidx, hemp, hall, hof]
      · simp [printIntTy, hid, isIdentChar]
      · simp [printIntTy, dropSpaces]
    | signed =>
      refine ⟨?_, ?_, ?_⟩
      · simp [parseIntTy, printIntTy, hemp, hall, hof]
      · simp [printIntTy, hid, isIdentChar]
      · simp [printIntTy, dropSpaces]
    | unsigned =>
      refine ⟨?_, ?_, ?_⟩
      · simp [parseIntTy, printIntTy, hemp, hall, hof]
      · simp [printIntTy, hid, isIdentChar]
      · simp [printIntTy, dropSpaces]


theorem isI1_iff (ty : IntTy) : ty.isI1 = true ↔ ty = .int .signless 1 := by
  cases ty with
  | index => simp [IntTy.isI1]
  | int s w =>
    cases s <;> simp [IntTy.isI1]
    · constructor
      · intro h; split at h <;> simp_all
      · intro h; subst h; rfl
    all_goals (intro h; split at h <;> simp_all)

/-- number text followed by ` : type` parses as the integer and the type -/
theorem parseIntAttr_typed (ty : IntTy) (v : Int) (hI : ty.isI1 = false)
    (hc : intAttrCtor ty v = some v) :
    parseIntAttr (intToDec v ++ (" : ".toList ++ printIntTy ty)) = some (ty, v) := by
  obtain ⟨hty, hident, hdrop⟩ := parseIntTy_printIntTy ty
  have hd := toDec_digits v.natAbs
  have hne := toDec_ne_nil v.natAbs
  have hof := ofDigits_toDec v.natAbs
  have hlex : lexNumber (toDec v.natAbs ++ (' ' :: ':' :: ' ' :: printIntTy ty)) =
      some (.int v.natAbs false, ' ' :: ':' :: ' ' :: printIntTy ty) := by
    have := lexNumber_dec (toDec v.natAbs) (' ' :: ':' :: ' ' :: printIntTy ty) hne hd
      (Or.inr ⟨' ', _, rfl, by decide, by decide, by decide⟩)
    rw [hof] at this; exact this
  have hsp : " : ".toList = [' ', ':', ' '] := rfl
  -- the first character is a digit
  obtain ⟨d, ds, hds⟩ : ∃ d ds, toDec v.natAbs = d :: ds := by
    cases h : toDec v.natAbs with
    | nil => exact absurd h hne
    | cons d ds => exact ⟨d, ds, rfl⟩
  have hdd : isDigit d = true := hd d (by rw [hds]; simp)
  have hd_minus : d ≠ '-' := by intro h; rw [h] at hdd; exact absurd hdd (by decide)
  have hd_sp : d ≠ ' ' := by intro h; rw [h] at hdd; exact absurd hdd (by decide)
  have hd_t : d ≠ 't' := by intro h; rw [h] at hdd; exact absurd hdd (by decide)
  have hd_f : d ≠ 'f' := by intro h; rw [h] at hdd; exact absurd hdd (by decide)
  have hdropd : ∀ r, dropSpaces (d :: r) = d :: r := by
    intro r; unfold dropSpaces; split
    · rename_i heq; simp at heq; exact absurd heq.1 hd_sp
    · rfl
  have hstrip : ∀ r, stripMinus (d :: r) = (false, d :: r) := by
    intro r; unfold stripMinus; split
    · rename_i heq; simp at heq; exact absurd heq.1 hd_minus
    · rfl
  unfold parseIntAttr intToDec
  by_cases hneg : v < 0
  · simp only [hneg, if_true, hsp, List.cons_append, List.nil_append]
    have h1 : ¬ ('-' :: (toDec v.natAbs ++ ' ' :: ':' :: ' ' :: printIntTy ty)) = "true".toList := by
      simp
    have h2 : ¬ ('-' :: (toDec v.natAbs ++ ' ' :: ':' :: ' ' :: printIntTy ty)) = "false".toList := by
      simp
    simp only [h1, h2, if_false]
    have hs : stripMinus ('-' :: (toDec v.natAbs ++ ' ' :: ':' :: ' ' :: printIntTy ty)) =
        (true, toDec v.natAbs ++ ' ' :: ':' :: ' ' :: printIntTy ty) := rfl
    have : dropSpaces (toDec v.natAbs ++ ' ' :: ':' :: ' ' :: printIntTy ty) =
        toDec v.natAbs ++ ' ' :: ':' :: ' ' :: printIntTy ty := by
      rw [hds]; exact hdropd _
    simp only [hs, this, hlex]
    have hv : (-(v.natAbs : Int)) = v := by omega
    simp [dropSpaces, hdrop, hident, hty, hv, hc]
  · simp only [hneg, if_false, hsp, List.cons_append, List.nil_append]
    have h1 : ¬ (toDec v.natAbs ++ ' ' :: ':' :: ' ' :: printIntTy ty) = "true".toList := by
      rw [hds]; simp [hd_t]
    have h2 : ¬ (toDec v.natAbs ++ ' ' :: ':' :: ' ' :: printIntTy ty) = "false".toList := by
      rw [hds]; simp [hd_f]
    simp only [h1, h2, if_false]
    have hs : stripMinus (toDec v.natAbs ++ ' ' :: ':' :: ' ' :: printIntTy ty) =
        (false, toDec v.natAbs ++ ' ' :: ':' :: ' ' :: printIntTy ty) := by
      rw [hds]; exact hstrip _
    have : dropSpaces (toDec v.natAbs ++ ' ' :: ':' :: ' ' :: printIntTy ty) =
        toDec v.natAbs ++ ' ' :: ':' :: ' ' :: printIntTy ty := by
      rw [hds]; exact hdropd _
    simp only [hs, this, hlex]
    have hv : ((v.natAbs : Nat) : Int) = v := by omega
    simp [dropSpaces, hdrop, hident, hty, hv, hc]


/-! ## little-endian packing -/

theorem packNat_length (n u : Nat) : (packNat n u).length = n := by
  induction n generalizing u with
  | zero => rfl
  | succ k ih => simp [packNat, ih]

theorem unpackLEU_packNat (n u : Nat) : unpackLEU (packNat n u) = u % 256 ^ n := by
  induction n generalizing u with
  | zero => simp [packNat, unpackLEU, Nat.mod_one]
  | succ k ih =>
    simp only [packNat, unpackLEU, ih]
    have h : (UInt8.ofNat (u % 256)).toNat = u % 256 := by
      simp [UInt8.toNat_ofNat']
    rw [h, Nat.pow_succ, Nat.mul_comm (256 ^ k) 256, Nat.mod_mul]

theorem unpackLEU_lt (bs : List UInt8) : unpackLEU bs < 256 ^ bs.length := by
  induction bs with
  | nil => simp [unpackLEU]
  | cons b r ih =>
    simp only [unpackLEU, List.length_cons, Nat.pow_succ]
    have := b.toNat_lt
    omega

theorem packNat_unpackLEU (bs : List UInt8) : packNat bs.length (unpackLEU bs) = bs := by
  induction bs with
  | nil => rfl
  | cons b r ih =>
    simp only [List.length_cons, packNat, unpackLEU]
    have hb := b.toNat_lt
    have h1 : (b.toNat + 256 * unpackLEU r) % 256 = b.toNat := by omega
    have h2 : (b.toNat + 256 * unpackLEU r) / 256 = unpackLEU r := by omega
    rw [h1, h2, ih, UInt8.ofNat_toNat]

theorem two_pow_8 (n : Nat) : (2:Nat) ^ (8 * n) = 256 ^ n := by
  rw [Nat.pow_mul]

theorem emod_range (v M : Int) (hM : 0 < M) :
    (0 ≤ v → v < M → v.emod M = v) ∧ (-M ≤ v → v < 0 → v.emod M = v + M) := by
  constructor
  · intro h1 h2; exact Int.emod_eq_of_lt h1 h2
  · intro h1 h2
    have : (v + M).emod M = v.emod M := Int.add_emod_right v M
    rw [← this]; exact Int.emod_eq_of_lt (by omega) (by omega)

/-- `struct.unpack ∘ struct.pack` is the identity on the range of the format -/
theorem unpackLE_packLE (signed : Bool) (n : Nat) (v : Int) (hn : 0 < n)
    (h : (packInt? signed n v).isSome = true) : unpackLE signed (packLE n v) = v := by
  have hMnat : ((256 ^ n : Nat) : Int) = (2:Int) ^ (8 * n) := by
    rw [← two_pow_8]; simp
  have hMpos : (0:Int) < (2:Int) ^ (8 * n) := Int.pow_pos (by decide)
  have hhalf : (2:Int) ^ (8 * n) = 2 * (2:Int) ^ (8 * n - 1) := by
    have : 8 * n = (8 * n - 1) + 1 := by omega
    conv => lhs; rw [this, Int.pow_succ]
    omega
  have hHpos : (0:Int) < (2:Int) ^ (8 * n - 1) := Int.pow_pos (by decide)
  obtain ⟨e1, e2⟩ := emod_range v _ hMpos
  have hnonneg : 0 ≤ v.emod ((2:Int) ^ (8 * n)) := Int.emod_nonneg _ (by omega)
  have hlt : v.emod ((2:Int) ^ (8 * n)) < (2:Int) ^ (8 * n) := Int.emod_lt_of_pos _ hMpos
  have hu : ((unpackLEU (packLE n v) : Nat) : Int) = v.emod ((2:Int) ^ (8 * n)) := by
    unfold packLE
    rw [unpackLEU_packNat]
    have : (v.emod ((2:Int) ^ (8 * n))).toNat < 256 ^ n := by
      have := Int.toNat_of_nonneg hnonneg
      omega
    rw [Nat.mod_eq_of_lt this, Int.toNat_of_nonneg hnonneg]
  have hlen : (packLE n v).length = n := by unfold packLE; exact packNat_length _ _
  unfold unpackLE
  simp only [hlen, hu]
  generalize hM : (2:Int) ^ (8 * n) = M at *
  generalize hH : (2:Int) ^ (8 * n - 1) = H at *
  unfold packInt? at h
  cases signed with
  | true =>
    simp only [if_true, hM, hH] at h
    split at h
    · rename_i hr
      simp only [Bool.and_eq_true, decide_eq_true_eq] at hr
      simp only [Bool.true_and]
      by_cases hv : 0 ≤ v
      · have := e1 hv (by omega)
        rw [this]
        have : ¬ (H ≤ v) := by omega
        simp [this]
      · have := e2 (by omega) (by omega)
        rw [this]
        have : H ≤ v + M := by omega
        simp [this, hn]
    · simp at h
  | false =>
    simp only [Bool.false_eq_true, if_false, hM] at h
    split at h
    · rename_i hr
      simp only [Bool.and_eq_true, decide_eq_true_eq] at hr
      simp only [Bool.false_and, Bool.false_eq_true, if_false]
      exact e1 hr.1 hr.2
    · simp at h


/-! ## float literals -/

/-- `[0-9]+ \. [0-9]* ([eE][+-]?[0-9]+)?` covering the whole text: what the lexer reads as exactly
one `FLOAT_LIT` -/
def isFloatLit (t : List Char) : Bool :=
  !(spanDigits t).1.isEmpty &&
    (match (spanDigits t).2 with
     | '.' :: r =>
       (spanDigits r).2.isEmpty ||
         (!(lexExponent (spanDigits r).2).1.isEmpty && (lexExponent (spanDigits r).2).2.isEmpty)
     | _ => false)

theorem spanP_append (p : Char → Bool) (l : List Char) : (spanP p l).1 ++ (spanP p l).2 = l := by
  induction l with
  | nil => rfl
  | cons c r ih =>
    simp only [spanP]
    split
    · simp [ih]
    · rfl

theorem spanP_fst_all (p : Char → Bool) (l : List Char) : ∀ c ∈ (spanP p l).1, p c = true := by
  induction l with
  | nil => simp [spanP]
  | cons c r ih =>
    simp only [spanP]
    split
    · rename_i h
      intro x hx
      simp at hx
      rcases hx with rfl | hx
      · exact h
      · exact ih x hx
    · simp

theorem lexSign_append (l : List Char) : (lexSign l).1 ++ (lexSign l).2 = l := by
  unfold lexSign
  split
  · split <;> simp
  · rfl

theorem lexExponent_append (l : List Char) : (lexExponent l).1 ++ (lexExponent l).2 = l := by
  unfold lexExponent
  split
  · rename_i e r
    split
    · split
      · rfl
      · have h1 := spanP_append isDigit (lexSign r).2
        have h2 := lexSign_append r
        simp only [spanDigits, List.cons_append, List.append_assoc, List.cons.injEq, true_and]
        rw [h1, h2]
    · rfl
  · rfl

theorem lexNumber_floatLit (t : List Char) (h : isFloatLit t = true) :
    lexNumber t = some (.float t, []) := by
  unfold isFloatLit at h
  simp only [Bool.and_eq_true, Bool.not_eq_true'] at h
  obtain ⟨hne, hrest⟩ := h
  have happ := spanP_append isDigit t
  have hall := spanP_fst_all isDigit t
  simp only [spanDigits] at hne hrest
  cases hp1 : (spanP isDigit t).1 with
  | nil => rw [hp1] at hne; simp at hne
  | cons d ds =>
    have hd : isDigit d = true := hall d (by rw [hp1]; simp)
    cases hp2 : (spanP isDigit t).2 with
    | nil => rw [hp2] at hrest; simp at hrest
    | cons c r =>
      rw [hp2] at hrest
      have hc : c = '.' := by
        split at hrest
        · rename_i heq; simp at heq; exact heq.1
        · simp at hrest
      subst hc
      simp only [] at hrest
      have ht : t = d :: (ds ++ '.' :: r) := by
        rw [← happ, hp1, hp2]; rfl
      have hhex : lexHex? t = none := by
        rw [ht]
        apply lexHex?_none_of_second
        cases ds with
        | nil => exact Or.inr ⟨'.', r, rfl, by decide⟩
        | cons e es =>
          refine Or.inr ⟨e, es ++ '.' :: r, rfl, ?_⟩
          intro he
          have := hall e (by rw [hp1]; simp)
          rw [he] at this; exact absurd this (by decide)
      have hdec : lexDec t = (.float t, []) := by
        unfold lexDec
        simp only [spanDigits, hp1, hp2]
        have hr := spanP_append isDigit r
        rcases Bool.or_eq_true_iff.1 hrest with h1 | h1
        · have h2 : (spanP isDigit r).2 = [] := by
            simpa [spanDigits] using h1
          rw [h2] at hr
          simp only [h2, lexExponent, List.append_nil]
          rw [ht]
          simp only [List.append_nil] at hr
          rw [hr]; rfl
        · simp only [Bool.and_eq_true, Bool.not_eq_true', spanDigits] at h1
          have he := lexExponent_append (spanP isDigit r).2
          have h3 : (lexExponent (spanP isDigit r).2).2 = [] := by
            simpa using h1.2
          rw [h3] at he
          simp only [List.append_nil] at he
          rw [h3, he, hr, ht]; rfl
      unfold lexNumber
      rw [ht] at hhex hdec ⊢
      simp only [hd, Bool.not_true, Bool.false_eq_true, if_false, hhex, hdec]


theorem hexOfBytesL_append (a b : List UInt8) : hexOfBytesL (a ++ b) = hexOfBytesL a ++ hexOfBytesL b := by
  induction a with
  | nil => rfl
  | cons x r ih => simp [hexOfBytesL, ih]

theorem hexOfBytesL_digits (bs : List UInt8) : ∀ c ∈ hexOfBytesL bs, isHexDigit c = true := by
  induction bs with
  | nil => simp [hexOfBytesL]
  | cons b r ih =>
    intro c hc
    simp only [hexOfBytesL, List.mem_cons] at hc
    have hhi : b.toNat / 16 < 16 := by have := b.toNat_lt; omega
    have hlo : b.toNat % 16 < 16 := Nat.mod_lt _ (by decide)
    rcases hc with rfl | rfl | hc
    · exact isHexDigit_hexL _ hhi
    · exact isHexDigit_hexL _ hlo
    · exact ih c hc

/-- the hex digits of the reversed (big-endian) bytes denote the little-endian value -/
theorem ofDigits_hexOfBytesL_reverse (bs : List UInt8) :
    ofDigits 16 (hexOfBytesL bs.reverse) = unpackLEU bs := by
  induction bs with
  | nil => rfl
  | cons b r ih =>
    have hhi : b.toNat / 16 < 16 := by have := b.toNat_lt; omega
    have hlo : b.toNat % 16 < 16 := Nat.mod_lt _ (by decide)
    rw [List.reverse_cons, hexOfBytesL_append, ofDigits_append, ih]
    simp only [hexOfBytesL, List.foldl_cons, List.foldl_nil, hexL_props _ hhi, hexL_props _ hlo,
      Option.getD_some, unpackLEU]
    omega

theorem hexOfBytesL_ne_nil (bs : List UInt8) (h : bs ≠ []) : hexOfBytesL bs ≠ [] := by
  cases bs with
  | nil => exact absurd rfl h
  | cons b r => simp [hexOfBytesL]

theorem toBytesLE?_unpackLEU (bs : List UInt8) : toBytesLE? bs.length (unpackLEU bs) = some bs := by
  unfold toBytesLE?
  have := unpackLEU_lt bs
  rw [two_pow_8]
  simp [this, packNat_unpackLEU]


/-! ## dense integer attributes -/

theorem bytesOfHex_hexOfBytesU (bs : List UInt8) : bytesOfHex? (hexOfBytesU bs) = some bs := by
  induction bs with
  | nil => rfl
  | cons b r ih =>
    have hhi : b.toNat / 16 < 16 := by have := b.toNat_lt; omega
    have hlo : b.toNat % 16 < 16 := Nat.mod_lt _ (by decide)
    have hb : UInt8.ofNat (b.toNat / 16 * 16 + b.toNat % 16) = b := by
      rw [Nat.div_add_mod']; exact UInt8.ofNat_toNat
    simp [hexOfBytesU, bytesOfHex?, (hexU_props _ hhi).1, (hexU_props _ hlo).1, ih, hb]

/-- `normalized_value(v)` is the value `IntegerAttr(v, ty)` stores -/
theorem normalizedValue_eq_ctor (s : Sgn) (w : Nat) (v v' : Int)
    (h : normalizedValue s w v false = some v') : intAttrCtor (.int s w) v = some v' := by
  have hin : inRange s w v = true := by
    unfold normalizedValue at h
    by_cases hi : inRange s w v = true
    · exact hi
    · simp only [Bool.not_eq_true] at hi; simp [hi] at h
  have hform := intAttrCtor_int s w v
  unfold normalizedValue at h
  simp only [hin, Bool.not_true, Bool.false_and, Bool.false_eq_true, if_false, if_true] at h
  rw [hform]
  simp only [hin, if_true]
  by_cases hc : s ≠ .unsigned ∧ signedUB w ≤ v
  · have hb : (decide (s ≠ Sgn.unsigned) && decide (signedUB w ≤ v)) = true := by simp [hc]
    simp only [hb, if_true, Option.some.injEq] at h
    rw [if_pos hc]
    subst h
    -- the shifted value is in range
    obtain ⟨hH, hw⟩ := pow_facts w
    have hin' := (inRange_iff s w v).1 hin
    have : inRange s w (v - unsignedUB w) = true := by
      rw [inRange_iff]
      obtain ⟨hs, hv⟩ := hc
      cases s with
      | unsigned => exact absurd rfl hs
      | signless =>
        simp only [valueRange, signedLB, signedUB, unsignedUB] at hin' hv ⊢
        rcases hw with ⟨h1, h2⟩ | h1 <;> omega
      | signed =>
        simp only [valueRange, signedLB, signedUB, unsignedUB] at hin' hv ⊢
        omega
    rw [if_pos this]
  · have hb : (decide (s ≠ Sgn.unsigned) && decide (signedUB w ≤ v)) = false := by
      simp only [Bool.and_eq_false_iff, decide_eq_false_iff_not]
      by_cases hs : s ≠ .unsigned
      · right; intro hh; exact hc ⟨hs, hh⟩
      · left; exact hs
    simp only [hb, Bool.false_eq_true, if_false, Option.some.injEq] at h
    rw [if_neg hc, h]


theorem ctor_eq_normalizedValue (s : Sgn) (w : Nat) (v v' : Int)
    (h : intAttrCtor (.int s w) v = some v') : normalizedValue s w v false = some v' := by
  simp only [intAttrCtor] at h
  cases hn : normalizedValue s w v false with
  | some v'' =>
    rw [hn] at h
    simp only [Option.getD_some] at h
    split at h
    · simp at h; rw [h]
    · simp at h
  | none =>
    exfalso
    rw [hn] at h
    simp only [Option.getD_none] at h
    unfold normalizedValue at hn
    by_cases hi : inRange s w v = true
    · simp [hi] at hn
      split at hn <;> simp at hn
    · simp [hi] at h

/-- a decimal element text is read back as its value -/
theorem parseDenseIntElem_dec (ty : IntTy) (v : Int)
    (hneg : v < 0 → ∀ w, ty ≠ .int .unsigned w) : parseDenseIntElem ty (intToDec v) = some v := by
  have hd := toDec_digits v.natAbs
  have hne := toDec_ne_nil v.natAbs
  have hof := ofDigits_toDec v.natAbs
  have hlex : lexNumber (toDec v.natAbs) = some (.int v.natAbs false, []) := by
    have := lexNumber_dec (toDec v.natAbs) [] hne hd (Or.inl rfl)
    simpa [hof] using this
  obtain ⟨d, ds, hds⟩ : ∃ d ds, toDec v.natAbs = d :: ds := by
    cases h : toDec v.natAbs with
    | nil => exact absurd h hne
    | cons d ds => exact ⟨d, ds, rfl⟩
  have hdd : isDigit d = true := hd d (by rw [hds]; simp)
  have hd_minus : d ≠ '-' := by intro h; rw [h] at hdd; exact absurd hdd (by decide)
  have hd_t : d ≠ 't' := by intro h; rw [h] at hdd; exact absurd hdd (by decide)
  have hd_f : d ≠ 'f' := by intro h; rw [h] at hdd; exact absurd hdd (by decide)
  have hstrip : stripMinus (d :: ds) = (false, d :: ds) := by
    unfold stripMinus; split
    · rename_i heq; simp at heq; exact absurd heq.1 hd_minus
    · rfl
  unfold parseDenseIntElem intToDec
  by_cases hv : v < 0
  · have h1 : ¬ ('-' :: toDec v.natAbs) = "true".toList := by simp
    have h2 : ¬ ('-' :: toDec v.natAbs) = "false".toList := by simp
    have hs : stripMinus ('-' :: toDec v.natAbs) = (true, toDec v.natAbs) := rfl
    simp only [hv, if_true, h1, h2, if_false, hs, hlex]
    have hvv : (-(v.natAbs : Int)) = v := by omega
    have hneg' := hneg hv
    cases ty with
    | index => simp [hvv]
    | int s w =>
      cases s with
      | unsigned => exact absurd rfl (hneg' w)
      | signless => simp [hvv]
      | signed => simp [hvv]
  · have h1 : ¬ (toDec v.natAbs) = "true".toList := by rw [hds]; simp [hd_t]
    have h2 : ¬ (toDec v.natAbs) = "false".toList := by rw [hds]; simp [hd_f]
    have hs : stripMinus (toDec v.natAbs) = (false, toDec v.natAbs) := by rw [hds]; exact hstrip
    simp only [hv, if_false, h1, h2, hs, hlex]
    have hvv : ((v.natAbs : Nat) : Int) = v := by omega
    simp [hvv, hv]


theorem fmtSize_pos (w n : Nat) (h : fmtSize w = some n) : 0 < n := by
  unfold fmtSize at h
  repeat (split at h; · simp at h; omega)
  simp at h

theorem packInt?_some (signed : Bool) (n : Nat) (v : Int) (c : List UInt8)
    (h : packInt? signed n v = some c) : c = packLE n v ∧ (packInt? signed n v).isSome = true := by
  refine ⟨?_, by simp [h]⟩
  unfold packInt? at h
  cases signed <;> simp at h <;> exact h.2.symm

/-- One integer element of a dense attribute: what `from_list` packed (`chunk`) unpacks to the
normalised value `v'`, whose printed form (`true`/`false` for `i1`, decimal otherwise) is parsed
and re-packed to the same bytes. -/
theorem dense_elem_roundtrip' (ty : IntTy) (v : Int) (chunk : List UInt8)
    (h : denseElemBytes? ty v = some chunk) :
    ∃ n, ty.size? = some n ∧ chunk.length = n ∧
      (parseDenseIntElem ty (printInt (unpackLE ty.signedFmt chunk) ty.isI1)).bind
        (denseElemBytes? ty) = some chunk := by
  cases ty with
  | index =>
    simp only [denseElemBytes?] at h
    obtain ⟨hc, hs⟩ := packInt?_some _ _ _ _ h
    subst hc
    refine ⟨8, rfl, by simp [packLE, packNat_length], ?_⟩
    have hu := unpackLE_packLE true 8 v (by decide) hs
    simp only [IntTy.signedFmt, IntTy.isI1, hu, printInt, Bool.false_eq_true, if_false]
    rw [parseDenseIntElem_dec _ v (fun _ w => by simp)]
    simp [denseElemBytes?, h]
  | int s w =>
    simp only [denseElemBytes?] at h
    cases hn : normalizedValue s w v false with
    | none => simp [hn] at h
    | some v' =>
      cases hf : fmtSize w with
      | none => simp [hn, hf] at h
      | some n =>
        simp only [hn, hf] at h
        obtain ⟨hc, hs⟩ := packInt?_some _ _ _ _ h
        subst hc
        have hnpos := fmtSize_pos w n hf
        have hu := unpackLE_packLE _ n v' hnpos hs
        have hctor := normalizedValue_eq_ctor s w v v' hn
        obtain ⟨hidem, hrange⟩ := intAttrCtor_spec _ v v' hctor
        obtain ⟨hr, hlt⟩ := hrange s w rfl
        have hnorm' := ctor_eq_normalizedValue s w v' v' hidem
        refine ⟨n, by simp [IntTy.size?, hf], by simp [packLE, packNat_length], ?_⟩
        have hsf : (IntTy.int s w).signedFmt = decide (s ≠ .unsigned) := by simp [IntTy.signedFmt]
        rw [hsf, hu]
        by_cases hI : (IntTy.int s w).isI1 = true
        · have hty := (isI1_iff _).1 hI
          cases hty
          have hlt := hlt (by decide)
          simp only [inRange_iff, valueRange, signedLB, signedUB, unsignedUB] at hr hlt
          have hv : v' = -1 ∨ v' = 0 := by
            have h1 : (-((2:Int) ^ 1 / 2)) = -1 := by decide
            have h2 : ((2:Int) ^ (1 - 1)) = 1 := by decide
            rw [h1] at hr; rw [h2] at hlt; omega
          have hn1 : n = 1 := by simp [fmtSize] at hf; omega
          subst hn1
          rcases hv with rfl | rfl <;> decide
        · simp only [Bool.not_eq_true] at hI
          simp only [hI, printInt, Bool.false_eq_true, if_false]
          rw [parseDenseIntElem_dec _ v' (fun hneg w' heq => by
            cases heq
            simp only [inRange_iff, valueRange] at hr
            omega)]
          simp only [Option.bind_some, denseElemBytes?, hnorm', hf]
          exact h


theorem mapM?_spec {α β : Type} (f : α → Option β) (vs : List α) (cs : List β)
    (h : mapM? f vs = some cs) : cs.length = vs.length ∧ ∀ c ∈ cs, ∃ v, v ∈ vs ∧ f v = some c := by
  induction vs generalizing cs with
  | nil => simp [mapM?] at h; subst h; simp
  | cons v vs ih =>
    simp only [mapM?] at h
    cases hf : f v with
    | none => simp [hf] at h
    | some b =>
      cases hr : mapM? f vs with
      | none => simp [hf, hr] at h
      | some bs =>
        simp [hf, hr] at h
        subst h
        obtain ⟨i1, i2⟩ := ih bs hr
        refine ⟨by simp [i1], ?_⟩
        intro c hc
        simp at hc
        rcases hc with rfl | hc
        · exact ⟨v, by simp, hf⟩
        · obtain ⟨v', hv', hfv⟩ := i2 c hc
          exact ⟨v', by simp [hv'], hfv⟩

theorem mapM?_map {α β : Type} (g : α → Option β) (hh : β → α) (cs : List β)
    (h : ∀ c ∈ cs, g (hh c) = some c) : mapM? g (cs.map hh) = some cs := by
  induction cs with
  | nil => rfl
  | cons c cs ih =>
    have h1 := h c (by simp)
    have h2 := ih (fun c' hc' => h c' (by simp [hc']))
    simp [mapM?, h1, h2]

theorem flatten_length_const {cs : List (List UInt8)} {n : Nat} (h : ∀ c ∈ cs, c.length = n) :
    cs.flatten.length = n * cs.length := by
  induction cs with
  | nil => simp
  | cons c cs ih =>
    have h1 := h c (by simp)
    have h2 := ih (fun c' hc' => h c' (by simp [hc']))
    simp [h1, h2, Nat.mul_succ]; omega

theorem unpackList_flatten (sf : Bool) (n : Nat) (hn : 0 < n) (cs : List (List UInt8))
    (h : ∀ c ∈ cs, c.length = n) (fuel : Nat) (hf : cs.length ≤ fuel) :
    unpackList sf n fuel cs.flatten = cs.map (unpackLE sf) := by
  induction cs generalizing fuel with
  | nil =>
    cases fuel with
    | zero => rfl
    | succ k => simp [unpackList]
  | cons c cs ih =>
    cases fuel with
    | zero => simp at hf
    | succ k =>
      have h1 := h c (by simp)
      have hne : (c ++ cs.flatten).isEmpty = false := by
        cases c with
        | nil => simp at h1; omega
        | cons _ _ => rfl
      have hn0 : ¬ (n = 0) := by omega
      simp only [List.flatten_cons, unpackList, hne, hn0, decide_false, Bool.or_self,
        Bool.false_eq_true, if_false, List.map_cons]
      rw [← h1, List.take_left, List.drop_left, h1]
      rw [ih (fun c' hc' => h c' (by simp [hc'])) k (by simp at hf; omega)]


theorem size?_pos (ty : IntTy) (n : Nat) (h : ty.size? = some n) : 0 < n := by
  cases ty with
  | index => simp [IntTy.size?] at h; omega
  | int s w => exact fmtSize_pos w n (by simpa [IntTy.size?] using h)

/-- Whole body of a dense integer attribute: for every payload that `from_list` builds from values
`vs` (any accepted values, any of the integer element types incl. `i1` and `index`; a splat is a
list of equal values), the printed body — `<>`, a splat element, a `"0x…"` string for more than 100
elements, or the element list — is parsed back to exactly the payload bytes. -/
theorem dense_int_roundtrip' (ty : IntTy) (n : Nat) (hn : ty.size? = some n) (vs : List Int)
    (cs : List (List UInt8)) (h : mapM? (denseElemBytes? ty) vs = some cs) :
    parseDenseInt ty vs.length (printDenseInt ty cs.flatten) = some cs.flatten := by
  obtain ⟨hlen, hcs⟩ := mapM?_spec _ _ _ h
  have hnpos := size?_pos ty n hn
  have hchunk : ∀ c ∈ cs, c.length = n ∧
      (parseDenseIntElem ty (printInt (unpackLE ty.signedFmt c) ty.isI1)).bind
        (denseElemBytes? ty) = some c := by
    intro c hc
    obtain ⟨v, _, hv⟩ := hcs c hc
    obtain ⟨n', hn', hl, he⟩ := dense_elem_roundtrip' ty v c hv
    rw [hn] at hn'; cases hn'
    exact ⟨hl, he⟩
  have hclen : ∀ c ∈ cs, c.length = n := fun c hc => (hchunk c hc).1
  have hflen := flatten_length_const hclen
  have hdiv : cs.flatten.length / n = cs.length := by
    rw [hflen]; exact Nat.mul_div_cancel_left _ hnpos
  have hvals := unpackList_flatten ty.signedFmt n hnpos cs hclen cs.length (Nat.le_refl _)
  unfold printDenseInt
  simp only [hn, hdiv, hvals]
  by_cases h0 : cs.length = 0
  · -- empty
    have : cs = [] := List.length_eq_zero_iff.1 h0
    subst this
    have : vs = [] := List.length_eq_zero_iff.1 (by simpa using hlen.symm)
    subst this
    simp [parseDenseInt, hn]
  · simp only [h0, if_false]
    obtain ⟨c0, cs', hcs0⟩ : ∃ c0 cs', cs = c0 :: cs' := by
      cases cs with
      | nil => simp at h0
      | cons c0 cs' => exact ⟨c0, cs', rfl⟩
    have hc0 := hchunk c0 (by rw [hcs0]; simp)
    by_cases hsp : isSplat n cs.flatten = true
    · -- splat
      simp only [hsp, if_true]
      have htake : cs.flatten.take n = c0 := by
        rw [hcs0, List.flatten_cons, ← hc0.1, List.take_left]
      have hhead : (cs.map (unpackLE ty.signedFmt)).headD 0 = unpackLE ty.signedFmt c0 := by
        rw [hcs0]; rfl
      unfold isSplat at hsp
      simp only [decide_eq_true_eq] at hsp
      rw [hdiv, htake] at hsp
      simp only [parseDenseInt, hn, hhead]
      have he := hc0.2
      cases hp : parseDenseIntElem ty (printInt (unpackLE ty.signedFmt c0) ty.isI1) with
      | none => simp [hp] at he
      | some v =>
        simp only [hp, Option.bind_some] at he ⊢
        simp only [he, Option.map_some, hlen.symm]
        rw [← hsp]
    · simp only [hsp, Bool.false_eq_true, if_false]
      by_cases hbig : cs.length > 100
      · -- hex string
        have hne : ¬ (cs.flatten.length = n) := by
          rw [hflen]; intro he
          have : n * cs.length ≥ n * 101 := Nat.mul_le_mul_left n hbig
          omega
        simp only [hbig, if_true, parseDenseInt, hn, bytesOfHex_hexOfBytesU]
        rw [if_neg hne, hdiv, hlen]
        simp
      · -- element list
        simp only [hbig, if_false]
        simp only [parseDenseInt, hn, List.length_map, hlen, ne_eq, not_true_eq_false, if_false]
        have := mapM?_map
          (fun e => (parseDenseIntElem ty e).bind (denseElemBytes? ty))
          (fun c => printInt (unpackLE ty.signedFmt c) ty.isI1) cs (fun c hc => (hchunk c hc).2)
        rw [List.map_map]
        simp only [Function.comp_def]
        rw [this]; rfl


end Xdsl.Literals
