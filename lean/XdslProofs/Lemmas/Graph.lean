import XdslModel.Graph
/-!
Paths and reachability in a region CFG (C24; reusable by C13).
-/
namespace Xdsl.Graph

/-- `u → v` is a CFG edge: `v` is a successor of the terminator of block `u` -/
def Edge (g : Graph) (u v : Nat) : Prop := v ∈ succ g u

/-- `Path g r b l`: `l` is the sequence of blocks of a path from `r` to `b` along CFG edges
(`r` first, `b` last; the one-block path `[r]` included). -/
inductive Path (g : Graph) (r : Nat) : Nat → List Nat → Prop
  | root : Path g r r [r]
  | snoc {u v : Nat} {l : List Nat} : Path g r u l → Edge g u v → Path g r v (l ++ [v])

/-- `b` is reachable from `r` -/
def Reach (g : Graph) (r b : Nat) : Prop := ∃ l, Path g r b l

/-- all successors are blocks of the region -/
def WF (g : Graph) : Prop := ∀ u v, Edge g u v → v < g.length

theorem edge_src_lt {g : Graph} {u v : Nat} (h : Edge g u v) : u < g.length := by
  unfold Edge succ at h
  apply Classical.byContradiction
  intro hn
  have : g.getD u [] = [] := by
    rw [List.getD_eq_getElem?_getD, List.getElem?_eq_none (by omega)]; rfl
  rw [this] at h; cases h

theorem succ_eq_getElem {g : Graph} {u : Nat} (h : u < g.length) : succ g u = g[u] := by
  unfold succ; rw [List.getD_eq_getElem?_getD, List.getElem?_eq_getElem h]; rfl

theorem wf_iff (g : Graph) : wf g = true ↔ WF g := by
  unfold wf WF
  simp only [List.all_eq_true, decide_eq_true_eq]
  constructor
  · intro h u v e
    have hu := edge_src_lt e
    unfold Edge at e; rw [succ_eq_getElem hu] at e
    exact h _ (List.getElem_mem hu) v e
  · intro h ss hss v hv
    obtain ⟨u, hu, rfl⟩ := List.getElem_of_mem hss
    apply h u v
    unfold Edge; rw [succ_eq_getElem hu]; exact hv

theorem mem_preds {g : Graph} {p b : Nat} : p ∈ preds g b ↔ Edge g p b := by
  unfold preds
  simp only [List.mem_filter, List.mem_range, List.contains_iff_mem]
  constructor
  · exact fun h => h.2
  · exact fun h => ⟨edge_src_lt h, h⟩

theorem Path.last_mem {g : Graph} {r b : Nat} {l : List Nat} (h : Path g r b l) : b ∈ l := by
  cases h <;> simp

theorem Path.root_mem {g : Graph} {r b : Nat} {l : List Nat} (h : Path g r b l) : r ∈ l := by
  induction h with
  | root => simp
  | snoc _ _ ih => simp [ih]

theorem Path.lt {g : Graph} {r b : Nat} {l : List Nat} (h : Path g r b l)
    (hr : r < g.length) (hb : b < g.length) : ∀ a ∈ l, a < g.length := by
  induction h with
  | root => intro a ha; simp at ha; omega
  | snoc hp e ih =>
    intro a ha
    rcases List.mem_append.mp ha with h1 | h1
    · exact ih (edge_src_lt e) a h1
    · simp at h1; omega

theorem Reach.lt {g : Graph} (hwf : WF g) {r b : Nat} (hr : r < g.length) (h : Reach g r b) :
    b < g.length := by
  obtain ⟨l, hl⟩ := h
  cases hl with
  | root => exact hr
  | snoc _ e => exact hwf _ _ e

theorem Reach.refl (g : Graph) (r : Nat) : Reach g r r := ⟨_, .root⟩

theorem Reach.step {g : Graph} {r u v : Nat} (h : Reach g r u) (e : Edge g u v) : Reach g r v := by
  obtain ⟨l, hl⟩ := h; exact ⟨_, .snoc hl e⟩

/-! ## The same graph with its blocks listed in another order -/

/-- `g'` is `g` with the blocks listed in another order: block `u` of `g` is block `π u` of `g'`
(`σ` is the inverse renumbering). -/
structure Relabel (g g' : Graph) (π σ : Nat → Nat) : Prop where
  len : g'.length = g.length
  lt : ∀ u, u < g.length → π u < g.length
  lt' : ∀ u, u < g.length → σ u < g.length
  left : ∀ u, u < g.length → σ (π u) = u
  right : ∀ u, u < g.length → π (σ u) = u
  succ : ∀ u, u < g.length → succ g' (π u) = (succ g u).map π

theorem Relabel.symm {g g' : Graph} {π σ : Nat → Nat} (h : Relabel g g' π σ) (hwf : WF g) :
    Relabel g' g σ π where
  len := h.len.symm
  lt := by intro u hu; rw [h.len] at *; exact h.lt' u hu
  lt' := by intro u hu; rw [h.len] at *; exact h.lt u hu
  left := by intro u hu; rw [h.len] at hu; exact h.right u hu
  right := by intro u hu; rw [h.len] at hu; exact h.left u hu
  succ := by
    intro u hu
    rw [h.len] at hu
    have h1 := h.succ (σ u) (h.lt' u hu)
    rw [h.right u hu] at h1
    rw [h1, List.map_map]
    symm
    calc (Graph.succ g (σ u)).map (σ ∘ π) = (Graph.succ g (σ u)).map id := by
          apply List.map_congr_left
          intro v hv
          exact h.left v (hwf (σ u) v hv)
      _ = Graph.succ g (σ u) := List.map_id _

theorem Relabel.path {g g' : Graph} {π σ : Nat → Nat} (h : Relabel g g' π σ) {r b : Nat}
    {l : List Nat} (hp : Path g r b l) : Path g' (π r) (π b) (l.map π) := by
  induction hp with
  | root => exact .root
  | @snoc u v l hp e ih =>
    rw [List.map_append]
    refine .snoc ih ?_
    unfold Edge
    rw [h.succ u (edge_src_lt e)]
    exact List.mem_map_of_mem e

/-- one direction of order independence: if every path to `π b` in the relisted graph passes
through `π a`, every path to `b` in the original graph passes through `a` -/
theorem Relabel.pathdom {g g' : Graph} {π σ : Nat → Nat} (h : Relabel g g' π σ) (h0 : π 0 = 0)
    {a b : Nat} (ha : a < g.length) (hb : b < g.length)
    (hd : ∀ l', Path g' 0 (π b) l' → π a ∈ l') : ∀ l, Path g 0 b l → a ∈ l := by
  intro l hl
  have hp := h.path hl
  rw [h0] at hp
  obtain ⟨x, hx, hxa⟩ := List.mem_map.mp (hd _ hp)
  have hxlt : x < g.length := hl.lt (by omega) hb x hx
  have : x = a := by rw [← h.left x hxlt, hxa, h.left a ha]
  exact this ▸ hx

end Xdsl.Graph
