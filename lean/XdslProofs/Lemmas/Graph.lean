import XdslModel.Graph
/-!
Paths and reachability in a region CFG (C24; reusable by C13).
-/
namespace Xdsl.Graph

/-- `u → v` is a CFG edge: `v` is a successor of the terminator of block `u` -/
def Edge (g : Graph) (u v : Nat) : Prop := v ∈ succ g u

/-- `Path g r b l`: `l` is the sequence of blocks of a path from `r` to `b` along CFG edges
(`r` first, `b` last; the one-block path `[r]` included). -/
inductive Path (g : Graph) (r : Nat) : Nat → List Nat → Prop
  | root : Path g r r [r]
  | snoc {u v : Nat} {l : List Nat} : Path g r u l → Edge g u v → Path g r v (l ++ [v])

/-- `b` is reachable from `r` -/
def Reach (g : Graph) (r b : Nat) : Prop := ∃ l, Path g r b l

/-- all successors are blocks of the region -/
def WF (g : Graph) : Prop := ∀ u v, Edge g u v → v < g.length

theorem edge_src_lt {g : Graph} {u v : Nat} (h : Edge g u v) : u < g.length := by
  unfold Edge succ at h
  apply Classical.byContradiction
  intro hn
  have : g.getD u [] = [] := by
    rw [List.getD_eq_getElem?_getD, List.getElem?_eq_none (by omega)]; rfl
  rw [this] at h; cases h

theorem succ_eq_getElem {g : Graph} {u : Nat} (h : u < g.length) : succ g u = g[u] := by
  unfold succ; rw [List.getD_eq_getElem?_getD, List.getElem?_eq_getElem h]; rfl

theorem wf_iff (g : Graph) : wf g = true ↔ WF g := by
  unfold wf WF
  simp only [List.all_eq_true, decide_eq_true_eq]
  constructor
  · intro h u v e
    have hu := edge_src_lt e
    unfold Edge at e; rw [succ_eq_getElem hu] at e
    exact h _ (List.getElem_mem hu) v e
  · intro h ss hss v hv
    obtain ⟨u, hu, rfl⟩ := List.getElem_of_mem hss
    apply h u v
    unfold Edge; rw [succ_eq_getElem hu]; exact hv

theorem mem_preds {g : Graph} {p b : Nat} : p ∈ preds g b ↔ Edge g p b := by
  unfold preds
  simp only [List.mem_filter, List.mem_range, List.contains_iff_mem]
  constructor
  · exact fun h => h.2
  · exact fun h => ⟨edge_src_lt h, h⟩

theorem Path.last_mem {g : Graph} {r b : Nat} {l : List Nat} (h : Path g r b l) : b ∈ l := by
  cases h <;> simp

theorem Path.root_mem {g : Graph} {r b : Nat} {l : List Nat} (h : Path g r b l) : r ∈ l := by
  induction h with
  | root => simp
  | snoc _ _ ih => simp [ih]

theorem Path.lt {g : Graph} {r b : Nat} {l : List Nat} (h : Path g r b l)
    (hr : r < g.length) (hb : b < g.length) : ∀ a ∈ l, a < g.length := by
  induction h with
  | root => intro a ha; simp at ha; omega
  | snoc hp e ih =>
    intro a ha
    rcases List.mem_append.mp ha with h1 | h1
    · exact ih (edge_src_lt e) a h1
    · simp at h1; omega

theorem Reach.lt {g : Graph} (hwf : WF g) {r b : Nat} (hr : r < g.length) (h : Reach g r b) :
    b < g.length := by
  obtain ⟨l, hl⟩ := h
  cases hl with
  | root => exact hr
  | snoc _ e => exact hwf _ _ e

theorem Reach.refl (g : Graph) (r : Nat) : Reach g r r := ⟨_, .root⟩

theorem Reach.step {g : Graph} {r u v : Nat} (h : Reach g r u) (e : Edge g u v) : Reach g r v := by
  obtain ⟨l, hl⟩ := h; exact ⟨_, .snoc hl e⟩

end Xdsl.Graph
