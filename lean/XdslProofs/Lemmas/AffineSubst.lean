import XdslProofs.Lemmas.AffineCtor
/-!
Substitution lemmas for `replace`, `compose`, `Map.compose` and the tie between the total `eval`
and the exception-raising `evalPy` (C26).
-/
namespace Xdsl.Affine

/-- the assignment seen by a dimension/symbol after `replace_dims_and_symbols`: position `p` is
replaced by the value of `news[p]` when the list is long enough, otherwise it is kept -/
def substEnv (ρd ρs : Nat → Int) (news : List Expr) (ρ : Nat → Int) : Nat → Int :=
  fun p => match news[p]? with
    | some x => eval ρd ρs x
    | none => ρ p

theorem substEnv_nil (ρd ρs ρ : Nat → Int) : substEnv ρd ρs [] ρ = ρ := by
  funext p; simp [substEnv]

theorem eval_getD_dim (ρd ρs : Nat → Int) (news : List Expr) (p : Nat) :
    eval ρd ρs (news.getD p (.dim p)) = substEnv ρd ρs news ρd p := by
  simp only [substEnv, List.getD_eq_getElem?_getD]
  cases news[p]? <;> simp [eval]

theorem eval_getD_sym (ρd ρs : Nat → Int) (news : List Expr) (p : Nat) :
    eval ρd ρs (news.getD p (.sym p)) = substEnv ρd ρs news ρs p := by
  simp only [substEnv, List.getD_eq_getElem?_getD]
  cases news[p]? <;> simp [eval]

theorem replace_eval' {nd ns : List Expr} {e e' : Expr} (h : replace nd ns e = .ok e')
    (ρd ρs : Nat → Int) :
    eval ρd ρs e' = eval (substEnv ρd ρs nd ρd) (substEnv ρd ρs ns ρs) e := by
  induction e generalizing e' with
  | const v => simp only [replace, pure, Except.pure, Except.ok.injEq] at h; subst h; rfl
  | dim p =>
    simp only [replace, pure, Except.pure, Except.ok.injEq] at h; subst h
    rw [eval_getD_dim]; rfl
  | sym p =>
    simp only [replace, pure, Except.pure, Except.ok.injEq] at h; subst h
    rw [eval_getD_sym]; rfl
  | bin k l r ihl ihr =>
    simp only [replace, bind, Except.bind] at h
    cases hl : replace nd ns l with
    | error e => rw [hl] at h; cases h
    | ok l' =>
      rw [hl] at h; dsimp only at h
      cases hr : replace nd ns r with
      | error e => rw [hr] at h; cases h
      | ok r' =>
        rw [hr] at h; dsimp only at h
        rw [eval_mkBin' ρd ρs h, ihl hl, ihr hr]
        rfl

theorem mapM'_ok {α β : Type} {f : α → R β} {xs : List α} {ys : List β} (h : mapM' f xs = .ok ys) :
    ys.length = xs.length ∧ ∀ (i : Nat) (y : β), ys[i]? = some y → ∃ x, xs[i]? = some x ∧ f x = .ok y := by
  induction xs generalizing ys with
  | nil =>
    simp only [mapM', pure, Except.pure, Except.ok.injEq] at h; subst h
    simp
  | cons x xs ih =>
    simp only [mapM', bind, Except.bind] at h
    cases hx : f x with
    | error e => rw [hx] at h; cases h
    | ok y =>
      rw [hx] at h; dsimp only at h
      cases hxs : mapM' f xs with
      | error e => rw [hxs] at h; cases h
      | ok ys' =>
        rw [hxs] at h
        simp only [pure, Except.pure, Except.ok.injEq] at h; subst h
        obtain ⟨hlen, hall⟩ := ih hxs
        refine ⟨by simp [hlen], fun i y' hi => ?_⟩
        cases i with
        | zero => simp at hi; subst hi; exact ⟨x, by simp, hx⟩
        | succ i => simp at hi; simpa using hall i y' hi

/-- `evalPy` (with Python's exceptions) agrees with the total `eval` whenever it returns -/
theorem evalPy_eq_eval {ds ss : List Int} {e : Expr} {v : Int} (h : evalPy ds ss e = .ok v) :
    v = eval (fun p => ds.getD p 0) (fun p => ss.getD p 0) e := by
  induction e generalizing v with
  | const c => simp only [evalPy, pure, Except.pure, Except.ok.injEq] at h; subst h; rfl
  | dim p =>
    simp only [evalPy] at h
    cases hp : ds[p]? with
    | none => rw [hp] at h; cases h
    | some x =>
      rw [hp] at h; simp only [pure, Except.pure, Except.ok.injEq] at h; subst h
      simp [eval, List.getD_eq_getElem?_getD, hp]
  | sym p =>
    simp only [evalPy] at h
    cases hp : ss[p]? with
    | none => rw [hp] at h; cases h
    | some x =>
      rw [hp] at h; simp only [pure, Except.pure, Except.ok.injEq] at h; subst h
      simp [eval, List.getD_eq_getElem?_getD, hp]
  | bin k l r ihl ihr =>
    simp only [evalPy, bind, Except.bind] at h
    cases hl : evalPy ds ss l with
    | error e => rw [hl] at h; cases h
    | ok a =>
      rw [hl] at h; dsimp only at h
      cases hr : evalPy ds ss r with
      | error e => rw [hr] at h; cases h
      | ok b =>
        rw [hr] at h; dsimp only at h
        split at h
        · cases h
        · simp only [pure, Except.pure, Except.ok.injEq] at h; subst h
          rw [eval, ← ihl hl, ← ihr hr]

end Xdsl.Affine
