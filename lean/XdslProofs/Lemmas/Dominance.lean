import XdslModel.Dominance
import XdslProofs.Lemmas.Graph
/-!
Lemmas for C24 (dominance): the refinement loop of `DominanceInfo.__init__` keeps the path-based
dominator sets below the table (soundness), shrinks the table (termination), and any table on which a
pass changes nothing satisfies the dataflow equations (completeness).
-/
namespace Xdsl.Dominance
open Xdsl.Graph

/-- "every path from the entry to `b` passes through `a`" -/
def PathDom (g : Graph) (a b : Nat) : Prop := ∀ l, Path g 0 b l → a ∈ l

theorem mem_refine {g : Graph} {d : Dom} {a b : Nat} :
    a ∈ refine g d b ↔ a < g.length ∧ (a = b ∨ ∀ p, Edge g p b → a ∈ d.getD p []) := by
  unfold refine
  simp only [List.mem_filter, List.mem_range, Bool.or_eq_true, beq_iff_eq, List.all_eq_true,
    List.contains_iff_mem, mem_preds]

theorem getD_set {d : Dom} {b c : Nat} {x : List Nat} (hb : b < d.length) :
    (d.set b x).getD c [] = if c = b then x else d.getD c [] := by
  simp only [List.getD_eq_getElem?_getD, List.getElem?_set]
  by_cases h : b = c
  · subst h; simp [hb]
  · have : ¬ c = b := fun e => h e.symm
    simp [h, this]

/-- sum of the sizes of all dominator sets: the termination measure -/
def size (n : Nat) (d : Dom) : Nat := ((List.range n).map fun b => (d.getD b []).length).sum

/-- invariant of the refinement loop -/
structure Inv (g : Graph) (d : Dom) : Prop where
  len : d.length = g.length
  entry : d.getD 0 [] = [0]
  /-- soundness: path-based dominators are never removed (unreachable `b`: nothing is removed) -/
  sound : ∀ b, b < g.length → ∀ a, a < g.length → PathDom g a b → a ∈ d.getD b []
  /-- the table is a post-fixpoint: refining can only remove members -/
  post : ∀ b, 0 < b → b < g.length → ∀ a, a ∈ refine g d b → a ∈ d.getD b []
  /-- every set is stored as the increasing list of its members -/
  canon : ∀ b, b < g.length → ∃ p, d.getD b [] = (List.range g.length).filter p

/-- the dataflow equations hold at every non-entry block -/
def Fix (g : Graph) (d : Dom) : Prop := ∀ b, 0 < b → b < g.length → d.getD b [] = refine g d b

theorem getD_init {n b : Nat} (hb : b < n) :
    (init n).getD b [] = if b = 0 then [0] else List.range n := by
  unfold init
  rw [List.getD_eq_getElem?_getD, List.getElem?_map, List.getElem?_range hb]; rfl

theorem inv_init (g : Graph) (hn : 0 < g.length) : Inv g (init g.length) where
  len := by simp [init]
  entry := by rw [getD_init hn]; simp
  sound := by
    intro b hb a ha hp
    rw [getD_init hb]
    split
    · subst b; simpa using hp [0] .root
    · simpa using ha
  post := by
    intro b hb0 hb a ha
    rw [getD_init hb, if_neg (by omega)]
    simpa using (mem_refine.mp ha).1
  canon := by
    intro b hb
    rw [getD_init hb]
    split
    · refine ⟨fun a => a == 0, ?_⟩
      generalize g.length = n at hn
      cases n with
      | zero => omega
      | succ n => rw [List.range_succ_eq_map]; simp [List.filter_map, Function.comp_def]
    · exact ⟨fun _ => true, (List.filter_eq_self.mpr (fun _ _ => rfl)).symm⟩

theorem sublist_of_filter_range {n : Nat} {l₁ l₂ : List Nat} {p₁ p₂ : Nat → Bool}
    (h₁ : l₁ = (List.range n).filter p₁) (h₂ : l₂ = (List.range n).filter p₂)
    (h : ∀ a, a ∈ l₁ → a ∈ l₂) : l₁.Sublist l₂ := by
  have e : l₁ = (List.range n).filter fun a => p₁ a && p₂ a := by
    rw [h₁]
    apply List.filter_congr
    intro a ha
    by_cases hp : p₁ a = true
    · have : a ∈ l₂ := h a (by rw [h₁]; exact List.mem_filter.mpr ⟨ha, hp⟩)
      rw [h₂] at this
      simp [hp, (List.mem_filter.mp this).2]
    · simp [hp]
  rw [e, h₂, ← List.filter_filter]
  exact List.filter_sublist

/-- effect of the loop body at a non-entry block -/
theorem visit_spec {g : Graph} {d : Dom} {c : Bool} {b : Nat} (hi : Inv g d) (hb0 : 0 < b)
    (hb : b < g.length) :
    Inv g (visit g (d, c) b).1
    ∧ (∀ x, ((visit g (d, c) b).1.getD x []).length ≤ (d.getD x []).length)
    ∧ ((visit g (d, c) b).2 = true →
        c = true ∨ ((visit g (d, c) b).1.getD b []).length < (d.getD b []).length)
    ∧ ((visit g (d, c) b).2 = false →
        c = false ∧ (visit g (d, c) b).1 = d ∧ d.getD b [] = refine g d b) := by
  have hbl : b < d.length := by rw [hi.len]; exact hb
  have hsub : (refine g d b).Sublist (d.getD b []) := by
    obtain ⟨p, hp⟩ := hi.canon b hb
    exact sublist_of_filter_range rfl hp (hi.post b hb0 hb)
  have hget : ∀ x, ((d.set b (refine g d b)).getD x []) = if x = b then refine g d b else d.getD x [] :=
    fun x => getD_set hbl
  -- membership only shrinks
  have hmono : ∀ x a, a ∈ (d.set b (refine g d b)).getD x [] → a ∈ d.getD x [] := by
    intro x a ha
    rw [hget] at ha
    split at ha
    · subst x; exact hsub.subset ha
    · exact ha
  refine ⟨?_, ?_, ?_, ?_⟩
  · show Inv g (d.set b (refine g d b))
    refine ⟨by simp [hi.len], ?_, ?_, ?_, ?_⟩
    · rw [hget, if_neg (by omega)]; exact hi.entry
    · intro x hx a ha hp
      rw [hget]
      split
      · subst x
        refine mem_refine.mpr ⟨ha, ?_⟩
        by_cases hab : a = b
        · exact Or.inl hab
        · right
          intro p e
          apply hi.sound p (edge_src_lt e) a ha
          intro l hl
          have := hp _ (.snoc hl e)
          simpa [hab] using this
      · exact hi.sound x hx a ha hp
    · intro x hx0 hx a ha
      have ha' : a ∈ refine g d x := by
        rw [mem_refine] at ha ⊢
        refine ⟨ha.1, ha.2.imp id fun h p e => hmono _ _ (h p e)⟩
      rw [hget]
      split
      · subst x; exact ha'
      · exact hi.post x hx0 hx a ha'
    · intro x hx
      rw [hget]
      split
      · exact ⟨_, rfl⟩
      · exact hi.canon x hx
  · intro x
    show ((d.set b (refine g d b)).getD x []).length ≤ _
    rw [hget]
    split
    · subst x; exact hsub.length_le
    · exact Nat.le_refl _
  · intro hc
    show c = true ∨ ((d.set b (refine g d b)).getD b []).length < _
    have hc' : (c || (d.getD b [] != refine g d b)) = true := hc
    rw [Bool.or_eq_true] at hc'
    rcases hc' with h | h
    · exact Or.inl h
    · right
      rw [hget, if_pos rfl]
      have hne : d.getD b [] ≠ refine g d b := by simpa using h
      rcases Nat.lt_or_ge (refine g d b).length (d.getD b []).length with h1 | h1
      · exact h1
      · exact absurd (hsub.eq_of_length (Nat.le_antisymm hsub.length_le h1)).symm hne
  · intro hc
    have hc' : (c || (d.getD b [] != refine g d b)) = false := hc
    rw [Bool.or_eq_false_iff] at hc'
    have heq : d.getD b [] = refine g d b := by simpa using hc'.2
    refine ⟨hc'.1, ?_, heq⟩
    show d.set b (refine g d b) = d
    rw [← heq]
    apply List.ext_getElem? 
    intro i
    rw [List.getElem?_set]
    split
    · rename_i h; subst h
      simp [hbl, List.getD_eq_getElem?_getD]
    · rfl

/-- effect of a (partial) pass over the non-entry blocks `bs` -/
theorem foldl_visit_spec {g : Graph} (bs : List Nat) (hbs : ∀ b ∈ bs, 0 < b ∧ b < g.length) :
    ∀ (d : Dom) (c : Bool), Inv g d →
    Inv g (bs.foldl (visit g) (d, c)).1
    ∧ (∀ x, ((bs.foldl (visit g) (d, c)).1.getD x []).length ≤ (d.getD x []).length)
    ∧ ((bs.foldl (visit g) (d, c)).2 = true →
        c = true ∨ ∃ x, x < g.length ∧
          ((bs.foldl (visit g) (d, c)).1.getD x []).length < (d.getD x []).length)
    ∧ ((bs.foldl (visit g) (d, c)).2 = false →
        c = false ∧ (bs.foldl (visit g) (d, c)).1 = d ∧ ∀ b ∈ bs, d.getD b [] = refine g d b) := by
  induction bs with
  | nil => intro d c hi; simp [hi]
  | cons b bs ih =>
    intro d c hi
    have hb := hbs b (by simp)
    obtain ⟨v1, v2, v3, v4⟩ := visit_spec (c := c) hi hb.1 hb.2
    have := ih (fun x hx => hbs x (by simp [hx])) (visit g (d, c) b).1 (visit g (d, c) b).2 v1
    obtain ⟨i1, i2, i3, i4⟩ := this
    simp only [List.foldl_cons]
    refine ⟨i1, fun x => Nat.le_trans (i2 x) (v2 x), ?_, ?_⟩
    · intro h
      rcases i3 h with h' | ⟨x, hx, hlt⟩
      · rcases v3 h' with h'' | hlt
        · exact Or.inl h''
        · exact Or.inr ⟨b, hb.2, Nat.lt_of_le_of_lt (i2 b) hlt⟩
      · exact Or.inr ⟨x, hx, Nat.lt_of_lt_of_le hlt (v2 x)⟩
    · intro h
      obtain ⟨j1, j2, j3⟩ := i4 h
      obtain ⟨k1, k2, k3⟩ := v4 j1
      refine ⟨k1, by rw [j2, k2], ?_⟩
      intro x hx
      rcases List.mem_cons.mp hx with rfl | hx
      · exact k3
      · have := j3 x hx; rwa [k2] at this

theorem sum_map_le_sum_map (l : List Nat) (f h : Nat → Nat) (hle : ∀ i ∈ l, f i ≤ h i) :
    (l.map f).sum ≤ (l.map h).sum := by
  induction l with
  | nil => simp
  | cons a l ih =>
    simp only [List.map_cons, List.sum_cons]
    have := ih (fun i hi => hle i (by simp [hi]))
    have := hle a (by simp)
    omega

theorem sum_map_lt_sum_map (l : List Nat) (f h : Nat → Nat) (hle : ∀ i ∈ l, f i ≤ h i)
    (hlt : ∃ i ∈ l, f i < h i) : (l.map f).sum < (l.map h).sum := by
  induction l with
  | nil => obtain ⟨i, hi, _⟩ := hlt; cases hi
  | cons a l ih =>
    simp only [List.map_cons, List.sum_cons]
    have hle' : ∀ i ∈ l, f i ≤ h i := fun i hi => hle i (by simp [hi])
    have ha := hle a (by simp)
    obtain ⟨i, hi, hlt⟩ := hlt
    rcases List.mem_cons.mp hi with rfl | hi
    · have := sum_map_le_sum_map l f h hle'; omega
    · have := ih hle' ⟨i, hi, hlt⟩; omega

theorem sweep_spec {g : Graph} {d : Dom} (hi : Inv g d) :
    Inv g (sweep g d).1
    ∧ ((sweep g d).2 = true → size g.length (sweep g d).1 < size g.length d)
    ∧ ((sweep g d).2 = false → (sweep g d).1 = d ∧ Fix g d) := by
  have hbs : ∀ b ∈ List.range' 1 (g.length - 1), 0 < b ∧ b < g.length := by
    intro b hb; rw [List.mem_range'_1] at hb; omega
  obtain ⟨h1, h2, h3, h4⟩ := foldl_visit_spec _ hbs d false hi
  refine ⟨h1, ?_, ?_⟩
  · intro hc
    rcases h3 hc with h | ⟨x, hx, hlt⟩
    · cases h
    · unfold size
      apply sum_map_lt_sum_map
      · intro i _; exact h2 i
      · exact ⟨x, List.mem_range.mpr hx, hlt⟩
  · intro hc
    obtain ⟨_, j2, j3⟩ := h4 hc
    refine ⟨j2, ?_⟩
    intro b hb0 hb
    apply j3
    rw [List.mem_range'_1]; omega

theorem iterate_spec {g : Graph} : ∀ (fuel : Nat) (d : Dom), Inv g d → size g.length d < fuel →
    (iterate g fuel d).2 = true ∧ Inv g (iterate g fuel d).1 ∧ Fix g (iterate g fuel d).1 := by
  intro fuel
  induction fuel with
  | zero => intro d _ h; omega
  | succ fuel ih =>
    intro d hi hf
    obtain ⟨s1, s2, s3⟩ := sweep_spec hi
    unfold iterate
    simp only
    by_cases hc : (sweep g d).2 = true
    · rw [if_pos hc]
      exact ih _ s1 (by have := s2 hc; omega)
    · rw [if_neg hc]
      have hc' : (sweep g d).2 = false := by simpa using hc
      obtain ⟨e, hfix⟩ := s3 hc'
      refine ⟨rfl, s1, ?_⟩
      rw [e]; exact hfix

theorem sum_map_le (l : List Nat) (f : Nat → Nat) (k : Nat) (h : ∀ i ∈ l, f i ≤ k) :
    (l.map f).sum ≤ l.length * k := by
  induction l with
  | nil => simp
  | cons a l ih =>
    simp only [List.map_cons, List.sum_cons, List.length_cons]
    have := ih (fun i hi => h i (by simp [hi]))
    have := h a (by simp)
    rw [Nat.succ_mul]; omega

theorem size_le {g : Graph} {d : Dom} (hi : Inv g d) : size g.length d ≤ g.length * g.length := by
  unfold size
  have := sum_map_le (List.range g.length) (fun b => (d.getD b []).length) g.length (by
    intro b hb
    obtain ⟨p, hp⟩ := hi.canon b (List.mem_range.mp hb)
    simp only [hp]
    calc _ ≤ (List.range g.length).length := List.length_filter_le _ _
      _ = g.length := List.length_range)
  simpa using this

/-- completeness: a table satisfying the equations only contains path-based dominators -/
theorem fix_complete {g : Graph} {d : Dom} (he : d.getD 0 [] = [0]) (hf : Fix g d) {a b : Nat}
    {l : List Nat} (hp : Path g 0 b l) : b < g.length → a ∈ d.getD b [] → a ∈ l := by
  induction hp with
  | root => intro _ ha; rw [he] at ha; exact ha
  | @snoc u v l hp e ih =>
    intro hv ha
    by_cases hv0 : v = 0
    · subst hv0
      rw [he] at ha
      have : a = 0 := by simpa using ha
      subst this
      exact List.mem_append_left _ hp.root_mem
    · rw [hf v (by omega) hv, mem_refine] at ha
      rcases ha.2 with rfl | h
      · simp
      · exact List.mem_append_left _ (ih (edge_src_lt e) (h u e))

end Xdsl.Dominance
